(* C22 -- add_mpoly / sub_mpoly / neg_mpoly / mul_mpoly over arbitrary pairs of generator sets:
   the result is well-formed over the union of the generators and its coefficient function is the
   schoolbook sum / difference / negation / product of the operands written over the union. *)
From SE Require Import C22.MPolySpec C22.MPolyDict C22.MPolyRec C22.MPolyArith.
From Coq Require Import Lia ZifyBool ZifyNat ZifyN Sorted.
Local Open Scope Z_scope.

Lemma coeffL_t_neg : forall A m, coeffL (t_neg A) m = - coeffL A m.
Proof.
  induction A as [|[k c] A IH]; intros m; [reflexivity|].
  unfold t_neg in *. cbn [map fst snd]. rewrite !coeffL_cons, IH. ring.
Qed.

(* ---------------------------------------------------------------- no wrap => true arithmetic *)
Lemma kmax_cons : forall x k, kmax (x :: k) = N.max x (kmax k).
Proof. reflexivity. Qed.
Lemma tmax_cons : forall k c L, tmax ((k, c) :: L) = N.max (kmax k) (tmax L).
Proof. reflexivity. Qed.
Lemma tmax_in : forall L k c, In (k, c) L -> (kmax k <= tmax L)%N.
Proof.
  induction L as [|[k0 c0] L IH]; intros k c H; [destruct H|].
  rewrite tmax_cons. destruct H as [H|H].
  - injection H as -> ->. lia.
  - specialize (IH _ _ H). lia.
Qed.
Lemma kadd_nowrap : forall a b, (kmax a + kmax b < W32)%N -> kadd uadd a b = kadd N.add a b.
Proof.
  induction a as [|x a IH]; intros b H; [reflexivity|].
  destruct b as [|y b]; [reflexivity|]. rewrite !kmax_cons in H. cbn [kadd].
  rewrite IH by lia. f_equal. unfold uadd. apply N.mod_small. lia.
Qed.
Lemma t_scale_nowrap : forall ka ca B, (kmax ka + tmax B < W32)%N ->
  t_scale uadd ka ca B = t_scale N.add ka ca B.
Proof.
  intros ka ca B H. unfold t_scale. apply map_ext_in. intros [kb cb] Hp. cbn [fst snd].
  pose proof (tmax_in _ _ _ Hp). rewrite kadd_nowrap by lia. reflexivity.
Qed.
Lemma t_mul_nowrap : forall A B, (tmax A + tmax B < W32)%N -> t_mul uadd A B = t_mul N.add A B.
Proof.
  induction A as [|[ka ca] A IH]; intros B H; [reflexivity|].
  rewrite tmax_cons in H. cbn [t_mul]. rewrite IH by lia. rewrite t_scale_nowrap by lia. reflexivity.
Qed.

Section Ops.
  Context {V : Type}.
  Variable vlt : V -> V -> bool.
  Variable veqb : V -> V -> bool.
  Hypothesis laws : order_laws vlt veqb.

  Notation lift := (lift veqb).
  Notation embed := (embed veqb).
  Notation expo := (expo veqb).

  Lemma expo_le_kmax : forall S k u, (expo S k u <= kmax k)%N.
  Proof.
    induction S as [|s S IH]; intros k u; cbn [MPolySpec.expo]; [lia|].
    destruct k as [|e k]; [lia|]. rewrite kmax_cons. destruct (veqb s u); [lia|]. specialize (IH k u). lia.
  Qed.
  Lemma kmax_embed : forall U S k, (kmax (embed U S k) <= kmax k)%N.
  Proof.
    intros U S k. unfold MPolySpec.embed. induction U as [|u U IH]; cbn [map]; [cbn; lia|].
    rewrite kmax_cons. pose proof (expo_le_kmax S k u). lia.
  Qed.
  Lemma tmax_lift : forall U S d, (tmax (lift U S d) <= tmax d)%N.
  Proof.
    intros U S. induction d as [|[k c] d IH]; [cbn; lia|].
    unfold MPolySpec.lift in *. cbn [map fst snd]. rewrite !tmax_cons.
    pose proof (kmax_embed U S k). lia.
  Qed.

  (* get_translated_container: both operands written over the union *)
  Lemma get_translated_spec : forall a b, poly_ok vlt a -> poly_ok vlt b ->
    exists x y s, get_translated vlt veqb a b = Ok (x, y, s) /\
      sorted vlt s /\ (forall v, In v s <-> In v (pvars a) \/ In v (pvars b)) /\
      cont_ok x /\ cont_ok y /\ csize x = len s /\ csize y = len s /\
      (forall m, coeff (cdict x) m = coeffL (lift s (pvars a) (cdict (pcont a))) m) /\
      (forall m, coeff (cdict y) m = coeffL (lift s (pvars b) (cdict (pcont b))) m).
  Proof.
    intros a b [Sa [La Oa]] [Sb [Lb Ob]]. unfold get_translated.
    pose proof (reconcile_spec vlt veqb laws (pvars a) (pvars b) Sa Sb) as R.
    destruct (reconcile vlt veqb (pvars a) (pvars b)) as [[[v1 v2] s] sz].
    destruct R as [Ss [Hin [Sub1 [Sub2 [E1 [E2 Esz]]]]]]. subst v1 v2 sz.
    destruct (ctranslate_spec vlt veqb laws s (pvars a) (pcont a) Sub1 Ss Oa (eq_sym La)) as [x [Ex [Ox [Sx Cx]]]].
    destruct (ctranslate_spec vlt veqb laws s (pvars b) (pcont b) Sub2 Ss Ob (eq_sym Lb)) as [y [Ey [Oy [Sy Cy]]]].
    rewrite Ex, Ey. cbn [bind]. exists x, y, s.
    split; [reflexivity|]. split; [exact Ss|]. split; [exact Hin|]. split; [exact Ox|]. split; [exact Oy|].
    split; [exact Sx|]. split; [exact Sy|]. split; [exact Cx|exact Cy].
  Qed.

  Theorem madd_spec : forall a b, poly_ok vlt a -> poly_ok vlt b ->
    exists r, madd vlt veqb a b = Ok r /\ poly_ok vlt r /\
      (forall v, In v (pvars r) <-> In v (pvars a) \/ In v (pvars b)) /\
      forall m, coeff (cdict (pcont r)) m =
        coeffL (t_add (lift (pvars r) (pvars a) (cdict (pcont a)))
                      (lift (pvars r) (pvars b) (cdict (pcont b)))) m.
  Proof.
    intros a b Ha Hb.
    destruct (get_translated_spec a b Ha Hb) as [x [y [s [E [Ss [Hin [Ox [Oy [Sx [Sy [Cx Cy]]]]]]]]]]].
    unfold madd. rewrite E. cbn [bind].
    destruct (cadd_spec x y Ox Oy (eq_trans Sx (eq_sym Sy))) as [Or [Sr Cr]].
    eexists. split; [reflexivity|]. cbn [pvars pcont]. split; [|split; [exact Hin|]].
    - unfold poly_ok. cbn [pvars pcont]. split; [assumption|]. split; [rewrite Sr; symmetry; assumption|assumption].
    - intros m. rewrite Cr, Cx, Cy. unfold t_add. rewrite coeffL_app. reflexivity.
  Qed.

  Theorem msub_spec : forall a b, poly_ok vlt a -> poly_ok vlt b ->
    exists r, msub vlt veqb a b = Ok r /\ poly_ok vlt r /\
      (forall v, In v (pvars r) <-> In v (pvars a) \/ In v (pvars b)) /\
      forall m, coeff (cdict (pcont r)) m =
        coeffL (t_sub (lift (pvars r) (pvars a) (cdict (pcont a)))
                      (lift (pvars r) (pvars b) (cdict (pcont b)))) m.
  Proof.
    intros a b Ha Hb.
    destruct (get_translated_spec a b Ha Hb) as [x [y [s [E [Ss [Hin [Ox [Oy [Sx [Sy [Cx Cy]]]]]]]]]]].
    unfold msub. rewrite E. cbn [bind].
    destruct (csub_spec x y Ox Oy (eq_trans Sx (eq_sym Sy))) as [Or [Sr Cr]].
    eexists. split; [reflexivity|]. cbn [pvars pcont]. split; [|split; [exact Hin|]].
    - unfold poly_ok. cbn [pvars pcont]. split; [assumption|]. split; [rewrite Sr; symmetry; assumption|assumption].
    - intros m. rewrite Cr, Cx, Cy. unfold t_sub. rewrite coeffL_app, coeffL_t_neg. ring.
  Qed.

  Theorem mneg_spec : forall a, poly_ok vlt a ->
    poly_ok vlt (mneg a) /\ pvars (mneg a) = pvars a /\
    forall m, coeff (cdict (pcont (mneg a))) m = coeffL (t_neg (cdict (pcont a))) m.
  Proof.
    intros a [Sa [La Oa]]. destruct (cneg_spec (pcont a) Oa) as [On [Sn Cn]].
    unfold mneg. cbn [pvars pcont]. split; [|split; [reflexivity|]].
    - unfold poly_ok. cbn [pvars pcont]. split; [assumption|]. split; [rewrite Sn; assumption|assumption].
    - intros m. rewrite Cn, coeffL_t_neg. rewrite coeff_coeffL by (apply Oa). reflexivity.
  Qed.

  (* mul_mpoly, against the schoolbook product with the exponent addition of the code (mod 2^32) *)
  Theorem mmul_spec_w : forall a b, poly_ok vlt a -> poly_ok vlt b ->
    exists r, mmul vlt veqb a b = Ok r /\ poly_ok vlt r /\
      (forall v, In v (pvars r) <-> In v (pvars a) \/ In v (pvars b)) /\
      forall m, coeff (cdict (pcont r)) m =
        coeffL (t_mul uadd (lift (pvars r) (pvars a) (cdict (pcont a)))
                           (lift (pvars r) (pvars b) (cdict (pcont b)))) m.
  Proof.
    intros a b Ha Hb.
    destruct (get_translated_spec a b Ha Hb) as [x [y [s [E [Ss [Hin [Ox [Oy [Sx [Sy [Cx Cy]]]]]]]]]]].
    unfold mmul. rewrite E. cbn [bind].
    destruct (cmul_assign_spec x y Ox Oy (eq_trans Sx (eq_sym Sy))) as [r [Er [Or [Sr Cr]]]].
    rewrite Er. cbn [bind]. eexists. split; [reflexivity|]. cbn [pvars pcont]. split; [|split; [exact Hin|]].
    - unfold poly_ok. cbn [pvars pcont]. split; [assumption|]. split; [rewrite Sr; symmetry; assumption|assumption].
    - intros m. rewrite Cr. apply t_mul_peq.
      + intros m'. rewrite <- coeff_coeffL by (apply Ox). apply Cx.
      + intros m'. rewrite <- coeff_coeffL by (apply Oy). apply Cy.
  Qed.

  (* ... and against the mathematical product when no exponent of the result can reach 2^32 *)
  Theorem mmul_spec_guarded : forall a b, poly_ok vlt a -> poly_ok vlt b ->
    (tmax (cdict (pcont a)) + tmax (cdict (pcont b)) < W32)%N ->
    exists r, mmul vlt veqb a b = Ok r /\ poly_ok vlt r /\
      (forall v, In v (pvars r) <-> In v (pvars a) \/ In v (pvars b)) /\
      forall m, coeff (cdict (pcont r)) m =
        coeffL (t_mul N.add (lift (pvars r) (pvars a) (cdict (pcont a)))
                            (lift (pvars r) (pvars b) (cdict (pcont b)))) m.
  Proof.
    intros a b Ha Hb G. destruct (mmul_spec_w a b Ha Hb) as [r [E [Or [Hin C]]]].
    exists r. split; [assumption|]. split; [assumption|]. split; [assumption|].
    intros m. rewrite C. rewrite t_mul_nowrap; [reflexivity|].
    pose proof (tmax_lift (pvars r) (pvars a) (cdict (pcont a))).
    pose proof (tmax_lift (pvars r) (pvars b) (cdict (pcont b))). lia.
  Qed.
End Ops.
