(* C22 obligation: the instance used by the correspondence (Symbols ordered by RCPBasicKeyLess, as
   modelled in Expr/Cmp.v and validated by C01/C02) satisfies the order laws that every generic C22
   theorem assumes. *)
From SE Require Import C22.MPolySpec C22.MPolyDict C22.MPolyRec C22.MPolyArith C22.MPolyOps
  C22.MPolyPow C22.MPolyEval C22.MPolyEq C22.MPolyInst C22.MPolyMain.
Local Open Scope Z_scope.
Theorem C22_sym_order_laws :
  order_laws sym_lt sym_eqb.
Proof. exact sym_order_laws. Qed.
Print Assumptions C22_sym_order_laws.
