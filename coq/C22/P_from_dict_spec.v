(* C22 obligation: from_dict (how every operand of the correspondence is built) turns a dictionary
   over an arbitrary duplicate-free generator vector into a well-formed polynomial over the sorted
   generator set, without leaving a vector, and denotes the same polynomial: zero coefficients are
   dropped and every generator keeps its exponent. *)
From SE Require Import C22.MPolySpec C22.MPolyDict C22.MPolyRec C22.MPolyArith C22.MPolyFromDict C22.MPolyFromDict2.
Theorem C22_from_dict_spec :
  forall (V : Type) (vlt veqb : V -> V -> bool), order_laws vlt veqb ->
  forall (v : list V) (d : dict), NoDup v -> NoDup (map fst d) ->
    Forall (fun p => key_ok (length v) (fst p)) d ->
    exists r, from_dict vlt v d = Ok r /\ poly_ok vlt r /\
      (forall x, In x (pvars r) <-> In x v) /\
      forall m, coeff (cdict (pcont r)) m = coeffL (lift veqb (pvars r) v (dnz d)) m.
Proof. exact (@from_dict_spec). Qed.
Print Assumptions C22_from_dict_spec.
