(* C22 -- executable model of symengine/polys/msymenginepoly.h / .cpp (MIntPoly):
   UDictWrapper<vec_uint, integer_class, MIntDict> arithmetic, translate, reconcile,
   get_translated_container, add/sub/mul/neg/pow_mpoly, eval, from_dict, __eq__, __hash__.

   Conventions (DESIGN.md appendix B):
   - an exponent vector (vec_uint) is a [list N]; the 32-bit wrap of `a[i] + b[i]` is explicit;
   - the unordered_map is an association list with pairwise distinct keys; the order of the list
     is the model's own (the library's bucket order is not observable in any result that the
     check compares: results are compared as sorted dictionaries);
   - every `v[i]` on a std::vector is a checked access: out of range gives [ErrOOB i len];
   - the `while (p != 1)` loop of `pow` is fuelled ([ErrFuel]);
   - generators (set_basic, ordered by RCPBasicKeyLess) are values of an arbitrary type [V] with the
     comparator [vlt] and the equality [veqb] as parameters; the instance used for the
     correspondence (Symbols: hash of the name first, then the name) is at the end of the file.
   The model imports no proofs. *)
From SE Require Export Base.Prelude Base.Word64.
From SE Require Import Gen.TypeCodes Expr.ExprDefs Expr.Cmp.
Local Open Scope N_scope.
Local Open Scope res_scope.

(* ------------------------------------------------------------------ exponent vectors *)
Definition mono := list N.

(* std::vector<unsigned>::operator== : same length, same elements *)
Fixpoint mono_eqb (a b : mono) : bool :=
  match a, b with
  | [], [] => true
  | x :: a', y :: b' => (x =? y) && mono_eqb a' b'
  | _, _ => false
  end.

Definition len {A} (l : list A) : N := N.of_nat (length l).

(* Vec v(size, 0) *)
Definition zeros (size : N) : mono := repeat 0 (N.to_nat size).

(* v[i] = x on a std::vector (checked) *)
Fixpoint set_at (l : mono) (i : nat) (x : N) : option mono :=
  match l, i with
  | [], _ => None
  | _ :: r, O => Some (x :: r)
  | y :: r, S i' => match set_at r i' x with Some r' => Some (y :: r') | None => None end
  end.
Definition set_chk (l : mono) (i : N) (x : N) : res mono :=
  match set_at l (N.to_nat i) x with Some l' => Ok l' | None => ErrOOB i (len l) end.

(* ------------------------------------------------------------------ the unordered_map *)
Definition dict := list (mono * Z).

Fixpoint dfind (k : mono) (d : dict) : option Z :=
  match d with
  | [] => None
  | (k', v) :: r => if mono_eqb k k' then Some v else dfind k r
  end.
(* erase(iterator to the entry with key k) *)
Fixpoint derase (k : mono) (d : dict) : dict :=
  match d with
  | [] => []
  | (k', v) :: r => if mono_eqb k k' then r else (k', v) :: derase k r
  end.
(* assignment through an iterator to the entry with key k *)
Fixpoint dupd (k : mono) (v : Z) (d : dict) : dict :=
  match d with
  | [] => []
  | (k', v') :: r => if mono_eqb k k' then (k', v) :: r else (k', v') :: dupd k v r
  end.
(* unordered_map::insert : an existing entry is kept *)
Definition dinsert (k : mono) (v : Z) (d : dict) : dict :=
  match dfind k d with Some _ => d | None => (k, v) :: d end.
(* the two UDictWrapper(Dict, size) constructors: entries with value 0 are dropped *)
Definition dnz (d : dict) : dict := filter (fun p => negb (snd p =? 0)%Z) d.

(* UDictWrapper: dict_ and vec_size *)
Record cont := mkCont { cdict : dict; csize : N }.

Definition cont_of_dict (d : dict) (sz : N) : cont := mkCont (dnz d) sz.

(* operator+= *)
Definition dadd_step (d : dict) (p : mono * Z) : dict :=
  match dfind (fst p) d with
  | Some t => let t' := (t + snd p)%Z in
              if (t' =? 0)%Z then derase (fst p) d else dupd (fst p) t' d
  | None => (fst p, snd p) :: d
  end.
Definition cadd (a b : cont) : cont := mkCont (fold_left dadd_step (cdict b) (cdict a)) (csize a).

(* operator-= *)
Definition dsub_step (d : dict) (p : mono * Z) : dict :=
  match dfind (fst p) d with
  | Some t => let t' := (t - snd p)%Z in
              if (t' =? 0)%Z then derase (fst p) d else dupd (fst p) t' d
  | None => (fst p, (- snd p)%Z) :: d
  end.
Definition csub (a b : cont) : cont := mkCont (fold_left dsub_step (cdict b) (cdict a)) (csize a).

(* unary operator- : every value *= -1 *)
Definition cneg (a : cont) : cont :=
  mkCont (map (fun p => (fst p, (snd p * -1)%Z)) (cdict a)) (csize a).

(* target[i] = a_.first[i] + b_.first[i] for i < vec_size  (unsigned int addition; both reads checked) *)
Fixpoint vadd (cnt : nat) (i : N) (a b : mono) (la lb : N) : res mono :=
  match cnt with
  | O => Ok []
  | S c =>
      match a, b with
      | x :: a', y :: b' => do r <- vadd c (i + 1) a' b' la lb; Ok (uadd x y :: r)
      | [], _ => ErrOOB i la
      | _, [] => ErrOOB i lb
      end
  end.

Definition mul_acc (p : dict) (t : mono) (c : Z) : dict :=
  match dfind t p with
  | None => (t, c) :: p
  | Some v => dupd t (v + c)%Z p
  end.
Fixpoint mul_row (vs : N) (ka : mono) (ca : Z) (bd : dict) (p : dict) : res dict :=
  match bd with
  | [] => Ok p
  | (kb, cb) :: r =>
      do t <- vadd (N.to_nat vs) 0 ka kb (len ka) (len kb);
      mul_row vs ka ca r (mul_acc p t (ca * cb)%Z)
  end.
Fixpoint mul_rows (vs : N) (ad bd : dict) (p : dict) : res dict :=
  match ad with
  | [] => Ok p
  | (ka, ca) :: r => do p' <- mul_row vs ka ca bd p; mul_rows vs r bd p'
  end.
(* static Wrapper mul(a, b): double loop, then erase the zero entries *)
Definition cmul (a b : cont) : res cont :=
  do p <- mul_rows (csize a) (cdict a) (cdict b) [];
  Ok (mkCont (dnz p) (csize a)).

(* static Wrapper pow(a, p):   tmp = a; res = {zero_v : 1};
     if (p == 0) return res;
     while (p != 1) { if (p % 2 == 0) tmp = tmp*tmp; else { res = res*tmp; tmp = tmp*tmp; } p >>= 1; }
     return res * tmp;                                   (p is an unsigned int) *)
Fixpoint cpow_loop (fuel : nat) (tmp rs : cont) (p : N) : res cont :=
  match fuel with
  | O => ErrFuel
  | S f =>
      if p =? 1 then cmul rs tmp
      else if p mod 2 =? 0 then
        do t <- cmul tmp tmp; cpow_loop f t rs (p / 2)
      else
        do r <- cmul rs tmp; do t <- cmul tmp tmp; cpow_loop f t r (p / 2)
  end.
(* the loop halves p: one round per binary digit of p is enough (from p = 0 it would never reach 1:
   the guard `if (p == 0) return res;` in front of it is the repair of that defect) *)
Definition pow_fuel (p : N) : nat := S (N.to_nat (N.size p)).
Definition cpow (fuel : nat) (a : cont) (p : N) : res cont :=
  let one := mkCont [(zeros (csize a), 1%Z)] (csize a) in
  if p =? 0 then Ok one else cpow_loop fuel a one p.

(* operator*= with its three shortcuts *)
Definition cmul_assign (a b : cont) : res cont :=
  match cdict a with
  | [] => Ok a
  | _ =>
    match cdict b with
    | [] => Ok (mkCont [] (csize a))
    | (kb, cb) :: rb =>
        let zero_v := zeros (csize a) in
        if (match rb with [] => true | _ => false end)
           && (match dfind zero_v (cdict b) with Some _ => true | None => false end)
        then Ok (mkCont (map (fun p => (fst p, (snd p * cb)%Z)) (cdict a)) (csize a))
        else do r <- cmul a b; Ok (mkCont (cdict r) (csize a))
    end
  end.

(* translate(translator, size):  for i < vec_size: changed[translator[i]] = key[i]   (all checked) *)
Fixpoint trans_key (cnt : nat) (i : N) (tr : list N) (k : mono) (changed : mono) (ltr lk : N)
  : res mono :=
  match cnt with
  | O => Ok changed
  | S c =>
      match tr, k with
      | t :: tr', e :: k' => do ch <- set_chk changed t e; trans_key c (i + 1) tr' k' ch ltr lk
      | [], _ => ErrOOB i ltr
      | _, [] => ErrOOB i lk
      end
  end.
Fixpoint trans_all (vs : N) (tr : list N) (size : N) (d : dict) (acc : dict) : res dict :=
  match d with
  | [] => Ok acc
  | (k, c) :: r =>
      do ch <- trans_key (N.to_nat vs) 0 tr k (zeros size) (len tr) (len k);
      trans_all vs tr size r (dinsert ch c acc)
  end.
Definition ctranslate (a : cont) (tr : list N) (size : N) : res cont :=
  do d <- trans_all (csize a) tr size (cdict a) [];
  Ok (cont_of_dict d size).

(* hash_t vec_hash<vec_uint>: h = 0; for i in v: hash_combine<unsigned>(h, i) *)
Definition vec_hash (k : mono) : N := fold_left (fun h e => hash_combine h (w64 e)) k 0.

(* the dictionary part of __hash__: seed ^= hash_combine(vec_hash(key), mp_get_si(value)) *)
Definition dict_hash (seed : N) (d : dict) : N :=
  fold_left (fun s p => N.lxor s (hash_combine (vec_hash (fst p)) (mp_get_si_w64 (snd p)))) d seed.

(* is_constant_dict: no entry, or a single entry whose exponents are all zero *)
Definition is_constant_dict (d : dict) : bool :=
  match d with
  | [] => true
  | [(k, _)] => forallb (fun e => e =? 0) k
  | _ => false
  end.
(* the dictionary part of __hash__ for a constant: the exponent-vector hash is replaced by 0 *)
Definition dict_hash_const (seed : N) (d : dict) : N :=
  fold_left (fun s p => N.lxor s (hash_combine 0 (mp_get_si_w64 (snd p)))) d seed.

(* unordered_eq on two dictionaries *)
Definition dict_eqb (a b : dict) : bool :=
  (length a =? length b)%nat
  && forallb (fun p => match dfind (fst p) b with Some v => (snd p =? v)%Z | None => false end) a.

Section Generic.
  Context {V : Type}.
  Variable vlt : V -> V -> bool.     (* RCPBasicKeyLess on generators *)
  Variable veqb : V -> V -> bool.    (* eq(a, b) on generators *)
  Variable vstr : V -> list N.       (* __str__ of a generator (bytes) *)

  (* std::set<_, RCPBasicKeyLess>::insert *)
  Fixpoint set_insert (x : V) (s : list V) : list V :=
    match s with
    | [] => [x]
    | y :: r => if vlt y x then y :: set_insert x r
                else if vlt x y then x :: s
                else s
    end.
  (* s = s1; s.insert(s2.begin(), s2.end()) *)
  Definition set_union (s1 s2 : list V) : list V := fold_left (fun s x => set_insert x s) s2 s1.

  (* the merge loop of reconcile over the union set *)
  Fixpoint rec_loop (s i j : list V) (pos : N) : list N * list N * N :=
    match s with
    | [] => ([], [], pos)
    | it :: s' =>
        let hi := match i with x :: _ => veqb it x | [] => false end in
        let hj := match j with x :: _ => veqb it x | [] => false end in
        let '(v1, v2, sz) := rec_loop s' (if hi then tl i else i) (if hj then tl j else j) (pos + 1) in
        (if hi then pos :: v1 else v1, if hj then pos :: v2 else v2, sz)
    end.
  Definition reconcile (s1 s2 : list V) : list N * list N * list V * N :=
    let s := set_union s1 s2 in
    let '(v1, v2, sz) := rec_loop s s1 s2 0 in
    (v1, v2, s, sz).

  (* MSymEnginePoly: poly_ and vars_ *)
  Record mpoly := mkPoly { pvars : list V; pcont : cont }.

  Definition get_translated (a b : mpoly) : res (cont * cont * list V) :=
    let '(v1, v2, s, sz) := reconcile (pvars a) (pvars b) in
    do x <- ctranslate (pcont a) v1 sz;
    do y <- ctranslate (pcont b) v2 sz;
    Ok (x, y, s).

  Definition madd (a b : mpoly) : res mpoly :=
    do xys <- get_translated a b;
    let '(x, y, s) := xys in Ok (mkPoly s (cadd x y)).
  Definition msub (a b : mpoly) : res mpoly :=
    do xys <- get_translated a b;
    let '(x, y, s) := xys in Ok (mkPoly s (csub x y)).
  Definition mmul (a b : mpoly) : res mpoly :=
    do xys <- get_translated a b;
    let '(x, y, s) := xys in
    do r <- cmul_assign x y; Ok (mkPoly s r).
  Definition mneg (a : mpoly) : mpoly := mkPoly (pvars a) (cneg (pcont a)).
  Definition mpow (fuel : nat) (a : mpoly) (n : N) : res mpoly :=
    do r <- cpow fuel (pcont a) n; Ok (mkPoly (pvars a) r).

  (* std::map<RCP<const Basic>, integer_class, RCPBasicKeyLess>::find *)
  Fixpoint vfind (x : V) (vals : list (V * Z)) : option Z :=
    match vals with
    | [] => None
    | (y, v) :: r => if negb (vlt x y) && negb (vlt y x) then Some v else vfind x r
    end.
  (* one bucket of eval: term = coef; for sym in vars: term *= vals[sym] ^ key[whichvar] *)
  Fixpoint eval_term (vars : list V) (k : mono) (vals : list (V * Z)) (term : Z) (i lk : N) : res Z :=
    match vars with
    | [] => Ok term
    | sym :: vs =>
        match k with
        | [] => ErrOOB i lk
        | e :: k' =>
            match vfind sym vals with
            | None => ErrExn EXN_STD      (* `vals.find(sym)->second` on end(): undefined; never exercised *)
            | Some v => eval_term vs k' vals (term * v ^ Z.of_N e)%Z (i + 1) lk
            end
        end
    end.
  Fixpoint eval_dict (vars : list V) (d : dict) (vals : list (V * Z)) (ans : Z) : res Z :=
    match d with
    | [] => Ok ans
    | (k, c) :: r => do t <- eval_term vars k vals c 0 (len k); eval_dict vars r vals (ans + t)%Z
    end.
  Definition meval (p : mpoly) (vals : list (V * Z)) : res Z :=
    eval_dict (pvars p) (cdict (pcont p)) vals 0%Z.

  (* from_dict(v, d): sort the generators, permute the exponent vectors accordingly *)
  Fixpoint imap_insert (x : V) (i : N) (m : list (V * N)) : list (V * N) :=
    match m with
    | [] => [(x, i)]
    | (y, j) :: r => if vlt y x then (y, j) :: imap_insert x i r
                     else if vlt x y then (x, i) :: m
                     else m
    end.
  Fixpoint from_dict_maps (v : list V) (i : N) (m : list (V * N)) (s : list V)
    : list (V * N) * list V :=
    match v with
    | [] => (m, s)
    | x :: r => from_dict_maps r (i + 1) (imap_insert x i m) (set_insert x s)
    end.
  (* for i < s.size(): trans[mptr->second] = i; mptr++  *)
  Fixpoint fill_trans (cnt : nat) (i : N) (m : list (V * N)) (trans : list N) : res (list N) :=
    match cnt with
    | O => Ok trans
    | S c =>
        match m with
        | [] => ErrOOB i i         (* mptr ran past m.end(): cannot happen, m and s have equal size *)
        | (_, j) :: m' => do t <- set_chk trans j i; fill_trans c (i + 1) m' t
        end
    end.
  Definition from_dict (v : list V) (d : dict) : res mpoly :=
    let '(m, s) := from_dict_maps v 0 [] [] in
    do trans <- fill_trans (length s) 0 m (zeros (len s));
    let x := cont_of_dict d (len s) in
    do y <- ctranslate x trans (len s);
    Ok (mkPoly s y).

  (* unified_eq(set_basic, set_basic) *)
  Fixpoint vars_eqb (a b : list V) : bool :=
    match a, b with
    | [], [] => true
    | x :: a', y :: b' => veqb x y && vars_eqb a' b'
    | _, _ => false
    end.

  (* MSymEnginePoly::__eq__ *)
  Definition meq (a b : mpoly) : bool :=
    let da := cdict (pcont a) in
    let db := cdict (pcont b) in
    match da, db with
    | [(ka, ca)], [(kb, cb)] =>
        if negb (ca =? cb)%Z then false
        else if mono_eqb ka kb && vars_eqb (pvars a) (pvars b) then true
        else if mono_eqb ka (zeros (len (pvars a))) && mono_eqb kb (zeros (len (pvars b))) then true
        else false
    | [], [] => true
    | _, _ => vars_eqb (pvars a) (pvars b) && dict_eqb da db
    end.

  (* MIntPoly::__hash__ : constant polynomials are hashed without the generators *)
  Definition mhash (a : mpoly) : N :=
    let d := cdict (pcont a) in
    if is_constant_dict d then dict_hash_const TC_MIntPoly d
    else dict_hash (fold_left (fun s v => hash_string s (vstr v)) (pvars a) TC_MIntPoly) d.
End Generic.

Arguments mpoly : clear implicits.
Arguments mkPoly {V} pvars pcont.
Arguments pvars {V} m.
Arguments pcont {V} m.

(* ------------------------------------------------------------------ instance: Symbols *)
(* generators are Symbols, given by their names; the order of set_basic is RCPBasicKeyLess
   (hash first, then __cmp__), taken from the shared expression model *)
Definition sym := list N.
Definition sym_lt (a b : sym) : bool := expr_keyless (ESym a) (ESym b).
Definition sym_eqb (a b : sym) : bool := expr_eqb (ESym a) (ESym b).
Definition sym_str (a : sym) : list N := a.

Definition spoly := mpoly sym.
Definition s_from_dict := from_dict sym_lt.
(* a set_basic filled by successive insert *)
Definition s_set_of (v : list sym) : list sym := fold_left (fun s x => set_insert sym_lt x s) v [].
Definition s_reconcile := reconcile sym_lt sym_eqb.
Definition s_add := madd sym_lt sym_eqb.
Definition s_sub := msub sym_lt sym_eqb.
Definition s_mul := mmul sym_lt sym_eqb.
Definition s_neg : spoly -> spoly := mneg.
Definition s_pow (a : spoly) (n : N) := mpow (pow_fuel n) a n.
Definition s_eval := meval sym_lt.
Definition s_eq := meq sym_eqb.
Definition s_hash := mhash sym_str.
