(* C22 -- from_dict: a dictionary given over an arbitrary (duplicate-free, unsorted) generator vector
   becomes a well-formed polynomial over the sorted generator set that denotes the same polynomial
   (every generator keeps its exponent).  This is how the correspondence builds all its operands. *)
From SE Require Import C22.MPolySpec C22.MPolyDict C22.MPolyRec C22.MPolyArith.
From Coq Require Import Lia ZifyBool ZifyNat ZifyN Sorted Permutation.
Local Open Scope N_scope.

Section FromDict.
  Context {V : Type}.
  Variable vlt : V -> V -> bool.
  Variable veqb : V -> V -> bool.
  Hypothesis laws : order_laws vlt veqb.

  Notation veqb_refl := (veqb_refl vlt veqb laws).
  Notation veqb_neq := (veqb_neq vlt veqb laws).
  Notation expo := (expo veqb).
  Notation embed := (embed veqb).
  Notation lift := (lift veqb).
  Notation index_in := (index_in veqb).

  Fixpoint inb (u : V) (l : list V) : bool :=
    match l with [] => false | x :: r => veqb x u || inb u r end.
  Lemma inb_In : forall u l, inb u l = true <-> In u l.
  Proof.
    induction l as [|x r IH]; cbn [inb In]; [split; [discriminate|tauto]|].
    rewrite orb_true_iff, IH. rewrite (ol_eqb vlt veqb laws). tauto.
  Qed.
  Lemma inb_false : forall u l, ~ In u l -> inb u l = false.
  Proof. intros u l H. destruct (inb u l) eqn:E; [|reflexivity]. apply inb_In in E. contradiction. Qed.

  (* ------------------------------------------------------------ one checked store *)
  Lemma set_at_index : forall (f : V -> N) U x e, In x U -> NoDup U ->
    set_at (map f U) (N.to_nat (index_in U x)) e = Some (map (fun u => if veqb x u then e else f u) U).
  Proof.
    induction U as [|y U IH]; intros x e Hin ND; [destruct Hin|].
    inversion ND as [|? ? Hn ND']; subst. cbn [MPolySpec.index_in map].
    destruct (veqb y x) eqn:E.
    - apply (ol_eqb vlt veqb laws) in E. subst y. cbn [N.to_nat set_at]. rewrite veqb_refl. f_equal. f_equal.
      apply map_ext_in. intros u Hu. rewrite veqb_neq; [reflexivity|]. intros K. subst. contradiction.
    - destruct Hin as [Hin|Hin]; [subst; rewrite veqb_refl in E; discriminate|].
      replace (N.to_nat (1 + index_in U x)) with (S (N.to_nat (index_in U x))) by lia.
      cbn [set_at]. rewrite (IH x e Hin ND').
      assert (veqb x y = false) by (apply veqb_neq; intros K; subst; rewrite veqb_refl in E; discriminate).
      rewrite H. reflexivity.
  Qed.

  Lemma map_len : forall {A} (f : V -> A) U, len (map f U) = len U.
  Proof. intros. unfold len. rewrite map_length. reflexivity. Qed.

  (* ------------------------------------------------------------ scatter (any injective translator) *)
  Lemma scatter_spec : forall U, NoDup U -> forall L k (base : V -> N) p0 ltr lk,
    NoDup L -> incl L U -> length k = length L ->
    trans_key (length L) p0 (map (index_in U) L) k (map base U) ltr lk
    = Ok (map (fun u => if inb u L then expo L k u else base u) U).
  Proof.
    intros U NDU. induction L as [|x L IH]; intros k base p0 ltr lk NDL Hincl Lk.
    - cbn [length trans_key inb]. reflexivity.
    - destruct k as [|e k]; [discriminate|]. inversion NDL as [|? ? Hn NDL']; subst.
      cbn [length map trans_key]. unfold set_chk.
      rewrite (set_at_index base U x e (Hincl x (or_introl eq_refl)) NDU). cbn [bind].
      rewrite (IH k (fun u => if veqb x u then e else base u) (p0 + 1) ltr lk NDL')
        by (try (intros y Hy; apply Hincl; right; assumption); cbn in Lk; lia).
      f_equal. apply map_ext. intros u. cbn [inb MPolySpec.expo].
      destruct (veqb x u) eqn:E.
      + apply (ol_eqb vlt veqb laws) in E. subst u. rewrite (inb_false x L Hn). reflexivity.
      + cbn [orb]. reflexivity.
  Qed.

  Corollary scatter_embed : forall U L k p0 ltr lk, NoDup U -> NoDup L -> incl L U -> length k = length L ->
    trans_key (length L) p0 (map (index_in U) L) k (zeros (len U)) ltr lk = Ok (embed U L k).
  Proof.
    intros U L k p0 ltr lk NDU NDL Hincl Lk.
    replace (zeros (len U)) with (map (fun _ : V => 0) U).
    - rewrite (scatter_spec U NDU L k (fun _ => 0) p0 ltr lk NDL Hincl Lk). f_equal.
      unfold MPolySpec.embed. apply map_ext. intros u. destruct (inb u L) eqn:E; [reflexivity|].
      symmetry. apply (expo_notin vlt veqb laws). intros K. apply inb_In in K. congruence.
    - unfold zeros. rewrite len_length. clear. induction U as [|a U IH]; cbn [map length repeat]; [reflexivity|].
      rewrite IH. reflexivity.
  Qed.

  Lemma map_eq_pointwise : forall {A B} (f g : A -> B) l, map f l = map g l -> forall u, In u l -> f u = g u.
  Proof.
    induction l as [|a l IH]; intros E u Hu; [destruct Hu|]. cbn [map] in E. injection E as E1 E2.
    destruct Hu as [Hu|Hu]; [subst; assumption|apply IH; assumption].
  Qed.

  (* embed is injective on keys of the right length, for any duplicate-free L inside U *)
  Lemma embed_inj_gen : forall U L, NoDup L -> incl L U -> forall k k',
    length k = length L -> length k' = length L -> embed U L k = embed U L k' -> k = k'.
  Proof.
    intros U. induction L as [|x L IH]; intros NDL Hincl k k' Lk Lk' E.
    - destruct k; [|discriminate]. destruct k'; [reflexivity|discriminate].
    - destruct k as [|e k]; [discriminate|]. destruct k' as [|e' k']; [discriminate|].
      inversion NDL as [|? ? Hn NDL']; subst.
      assert (Hx : In x U) by (apply Hincl; left; reflexivity).
      unfold MPolySpec.embed in E.
      pose proof (map_eq_pointwise _ _ U E) as P.
      assert (Ee : e = e').
      { specialize (P x Hx). cbn [MPolySpec.expo] in P. rewrite veqb_refl in P. exact P. }
      subst e'. f_equal. apply IH; try assumption; try (cbn in *; lia).
      + intros y Hy. apply Hincl. right. assumption.
      + unfold MPolySpec.embed. apply map_ext_in. intros u Hu.
        destruct (veqb x u) eqn:Exu.
        * apply (ol_eqb vlt veqb laws) in Exu. subst u.
          rewrite !(expo_notin vlt veqb laws) by assumption. reflexivity.
        * specialize (P u Hu). cbn [MPolySpec.expo] in P. rewrite Exu in P. exact P.
  Qed.

  (* ------------------------------------------------------------ translate with such a translator *)
  Lemma lift_cons : forall U L k c d, lift U L ((k, c) :: d) = (embed U L k, c) :: lift U L d.
  Proof. reflexivity. Qed.

  Lemma trans_all_gen : forall U L, NoDup U -> NoDup L -> incl L U ->
    forall d acc, Forall (fun p => length (fst p) = length L) d ->
    NoDup (map fst (lift U L d) ++ map fst acc) ->
    exists acc', trans_all (len L) (map (index_in U) L) (len U) d acc = Ok acc' /\
      NoDup (map fst acc') /\
      (forall m, coeff acc' m = coeff acc m + coeffL (lift U L d) m)%Z /\
      (forall p, In p acc' -> In p acc \/ In p (lift U L d)).
  Proof.
    intros U L NDU NDL Hincl. induction d as [|[k c] d IH]; intros acc HL HND.
    - exists acc. cbn [trans_all]. split; [reflexivity|]. split; [assumption|].
      split; [intros; rewrite coeffL_nil; ring|]. intros p Hp. left. assumption.
    - inversion HL as [|? ? Lk HL']; subst. cbn [fst] in Lk.
      cbn [trans_all]. rewrite len_length. rewrite (scatter_embed U L k 0 _ _ NDU NDL Hincl Lk). cbn [bind].
      rewrite lift_cons in HND. cbn [map fst app] in HND. inversion HND as [|? ? Hnotin HND']; subst.
      rewrite (dinsert_fresh) by (intros K; apply Hnotin; apply in_or_app; right; assumption).
      destruct (IH ((embed U L k, c) :: acc) HL') as [acc' [E [N' [C' I']]]].
      { cbn [map fst]. eapply Permutation_NoDup; [apply Permutation_middle|]. constructor; assumption. }
      exists acc'. split; [assumption|]. split; [assumption|]. split.
      + intros m. rewrite C'. rewrite coeff_cons. rewrite lift_cons. rewrite coeffL_cons. unfold ind.
        rewrite (mono_eqb_sym (embed U L k) m).
        destruct (mono_eqb m (embed U L k)) eqn:Em; [|ring].
        apply mono_eqb_eq in Em. subst m. unfold coeff.
        assert (F : dfind (embed U L k) acc = None).
        { apply dfind_none_notin. intros K. apply Hnotin. apply in_or_app. right. assumption. }
        rewrite F. ring.
      + intros p Hp. destruct (I' p Hp) as [[Hq|Hq]|Hq].
        * right. left. exact Hq.
        * left. assumption.
        * right. right. assumption.
  Qed.

  Lemma ctranslate_gen : forall U L a, NoDup U -> NoDup L -> incl L U ->
    cont_ok a -> csize a = len L ->
    exists r, ctranslate a (map (index_in U) L) (len U) = Ok r /\
      cont_ok r /\ csize r = len U /\
      forall m, coeff (cdict r) m = coeffL (lift U L (cdict a)) m.
  Proof.
    intros U L a NDU NDL Hincl [NDa Fa] Ea.
    rewrite Ea, len_length in Fa.
    assert (HL : Forall (fun p => length (fst p) = length L) (cdict a)).
    { eapply Forall_impl; [|exact Fa]. intros p [[Lp _] _]. exact Lp. }
    assert (HND : NoDup (map fst (lift U L (cdict a)) ++ map fst (@nil (mono * Z)))).
    { cbn [map]. rewrite app_nil_r. rewrite lift_keys. apply NoDup_map_inj_in; [|assumption].
      intros x y Hx Hy E. rewrite Forall_forall in HL.
      apply in_map_iff in Hx as [px [<- Hpx]]. apply in_map_iff in Hy as [py [<- Hpy]].
      eapply (embed_inj_gen U L NDL Hincl); try eassumption; apply HL; assumption. }
    destruct (trans_all_gen U L NDU NDL Hincl (cdict a) [] HL HND) as [acc' [E [N' [C' I']]]].
    unfold ctranslate. rewrite Ea. rewrite E. cbn [bind].
    eexists. split; [reflexivity|]. unfold cont_of_dict. cbn [cdict csize].
    split; [|split; [reflexivity|]].
    - unfold cont_ok. cbn [cdict csize]. rewrite len_length. split; [apply NoDup_dnz; assumption|].
      assert (HF : Forall (fun p => key_ok (length U) (fst p)) acc').
      { apply Forall_forall. intros p Hp. destruct (I' p Hp) as [[]|Hq].
        unfold MPolySpec.lift in Hq. apply in_map_iff in Hq as [[k c] [<- Hq]]. cbn [fst].
        apply (embed_key_ok veqb). rewrite Forall_forall in Fa. destruct (Fa _ Hq) as [[_ B] _]. exact B. }
      apply (Forall_dnz _ _ HF).
    - intros m. rewrite coeff_dnz by assumption. rewrite C'. unfold coeff. cbn [dfind]. ring.
  Qed.
End FromDict.
