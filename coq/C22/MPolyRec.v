(* C22 -- reconcile (union of two generator sets + the two index translators) and translate:
   the translated dictionary is the same polynomial written over the union. *)
From SE Require Import C22.MPolySpec C22.MPolyDict.
From Coq Require Import Lia ZifyBool ZifyNat ZifyN Sorted Permutation.
Local Open Scope N_scope.

Lemma NoDup_map_inj_in : forall {A B} (f : A -> B) l,
  (forall x y, In x l -> In y l -> f x = f y -> x = y) -> NoDup l -> NoDup (map f l).
Proof.
  induction l as [|a l IH]; intros Hinj ND; simpl; [constructor|].
  inversion ND as [|? ? Hn ND']; subst. constructor.
  - intros H. apply in_map_iff in H as [y [E Hy]]. apply Hn.
    assert (y = a) by (apply Hinj; [right; assumption|left; reflexivity|assumption]). subst. assumption.
  - apply IH; [|assumption]. intros x y Hx Hy. apply Hinj; right; assumption.
Qed.

Lemma len_length : forall {A} (l : list A), N.to_nat (len l) = length l.
Proof. intros. unfold len. lia. Qed.

Lemma set_at_app : forall prefix y rest x,
  set_at (prefix ++ y :: rest) (length prefix) x = Some (prefix ++ x :: rest).
Proof. induction prefix as [|p prefix IH]; intros; simpl; [reflexivity|]. rewrite IH. reflexivity. Qed.

Lemma set_chk_app : forall prefix y rest x,
  set_chk (prefix ++ y :: rest) (len prefix) x = Ok (prefix ++ x :: rest).
Proof. intros. unfold set_chk. rewrite len_length. rewrite set_at_app. reflexivity. Qed.

Section Rec.
  Context {V : Type}.
  Variable vlt : V -> V -> bool.
  Variable veqb : V -> V -> bool.
  Hypothesis laws : order_laws vlt veqb.

  Let irrefl := ol_irrefl vlt veqb laws.
  Let trans := ol_trans vlt veqb laws.
  Let total := ol_total vlt veqb laws.
  Let eqb_eq := ol_eqb vlt veqb laws.

  Lemma veqb_refl : forall a, veqb a a = true.
  Proof. intros a. apply eqb_eq. reflexivity. Qed.
  Lemma veqb_neq : forall a b, a <> b -> veqb a b = false.
  Proof. intros a b H. destruct (veqb a b) eqn:E; [|reflexivity]. apply eqb_eq in E. contradiction. Qed.

  Notation sorted := (sorted vlt).

  Lemma sorted_cons_inv : forall a l, sorted (a :: l) -> sorted l /\ Forall (fun b => vlt a b = true) l.
  Proof. intros a l H. inversion H; subst. split; assumption. Qed.
  Lemma sorted_cons : forall a l, sorted l -> Forall (fun b => vlt a b = true) l -> sorted (a :: l).
  Proof. intros. constructor; assumption. Qed.

  Lemma sorted_NoDup : forall l, sorted l -> NoDup l.
  Proof.
    induction l as [|a l IH]; intros H; [constructor|].
    apply sorted_cons_inv in H as [H1 H2]. constructor; [|apply IH; assumption].
    intros Hin. rewrite Forall_forall in H2. specialize (H2 _ Hin). rewrite irrefl in H2. discriminate.
  Qed.

  (* ------------------------------------------------------------ set insert / union *)
  Lemma set_insert_in : forall s x y, In y (set_insert vlt x s) <-> y = x \/ In y s.
  Proof.
    induction s as [|z s IH]; intros x y; simpl.
    - split; [intros [H|[]]; left; congruence|intros [H|[]]; left; congruence].
    - destruct (vlt z x) eqn:E1.
      + simpl. rewrite IH. tauto.
      + destruct (vlt x z) eqn:E2.
        * simpl. split; [intros [H|H]; [left; congruence|right; assumption]|intros [H|H]; [left; congruence|right; assumption]].
        * assert (x = z) by (apply total; assumption). subst. simpl.
          split; [intros [K|K]; [right; left; assumption|right; right; assumption]
                 |intros [K|[K|K]]; [left; symmetry; assumption|left; assumption|right; assumption]].
  Qed.

  Lemma set_insert_sorted : forall s x, sorted s -> sorted (set_insert vlt x s).
  Proof.
    induction s as [|z s IH]; intros x H; simpl.
    - apply sorted_cons; constructor.
    - apply sorted_cons_inv in H as [H1 H2].
      destruct (vlt z x) eqn:E1.
      + apply sorted_cons; [apply IH; assumption|].
        apply Forall_forall. intros y Hy. apply set_insert_in in Hy as [->|Hy]; [assumption|].
        rewrite Forall_forall in H2. apply H2. assumption.
      + destruct (vlt x z) eqn:E2.
        * apply sorted_cons; [apply sorted_cons; assumption|].
          constructor; [assumption|]. apply Forall_forall. intros y Hy.
          rewrite Forall_forall in H2. eapply trans; [eassumption|apply H2; assumption].
        * apply sorted_cons; assumption.
  Qed.

  Lemma set_union_spec : forall s2 s1, sorted s1 ->
    sorted (set_union vlt s1 s2) /\ forall y, In y (set_union vlt s1 s2) <-> In y s1 \/ In y s2.
  Proof.
    unfold set_union. induction s2 as [|x s2 IH]; intros s1 H; simpl.
    - split; [assumption|]. intros y. tauto.
    - destruct (IH (set_insert vlt x s1)) as [H1 H2]; [apply set_insert_sorted; assumption|].
      split; [assumption|]. intros y. rewrite H2. rewrite set_insert_in. split; intros K; intuition.
  Qed.

  (* ------------------------------------------------------------ sublists *)
  Inductive sublist : list V -> list V -> Prop :=
  | sl_nil : forall l, sublist [] l
  | sl_cons : forall x l1 l2, sublist l1 l2 -> sublist (x :: l1) (x :: l2)
  | sl_skip : forall x l1 l2, sublist l1 l2 -> sublist l1 (x :: l2).

  Lemma sublist_incl : forall l1 l2, sublist l1 l2 -> incl l1 l2.
  Proof.
    induction 1; intros y Hy.
    - destruct Hy.
    - destruct Hy as [->|Hy]; [left; reflexivity|right; apply IHsublist; assumption].
    - right. apply IHsublist. assumption.
  Qed.
  Lemma sublist_refl : forall l, sublist l l.
  Proof. induction l; constructor; assumption. Qed.
  Lemma sublist_length : forall l1 l2, sublist l1 l2 -> (length l1 <= length l2)%nat.
  Proof. induction 1; simpl; lia. Qed.

  Lemma sorted_incl_sublist : forall l2 l1, sorted l1 -> sorted l2 -> incl l1 l2 -> sublist l1 l2.
  Proof.
    induction l2 as [|y r IH]; intros l1 H1 H2 Hi.
    - destruct l1 as [|x l1]; [constructor|]. exfalso. apply (Hi x). left. reflexivity.
    - destruct l1 as [|x l1']; [constructor|].
      apply sorted_cons_inv in H1 as [H1a H1b]. apply sorted_cons_inv in H2 as [H2a H2b].
      rewrite Forall_forall in H1b, H2b.
      assert (Hx : In x (y :: r)) by (apply Hi; left; reflexivity).
      destruct Hx as [Hx|Hx].
      + subst y. apply sl_cons. apply IH; [assumption|assumption|].
        intros z Hz. assert (Hz' : In z (x :: r)) by (apply Hi; right; assumption).
        destruct Hz' as [Hz'|Hz']; [|assumption].
        subst z. specialize (H1b _ Hz). rewrite irrefl in H1b. discriminate.
      + apply sl_skip. apply IH; [apply sorted_cons; [assumption|apply Forall_forall; assumption]|assumption|].
        assert (Hyx : vlt y x = true) by (apply H2b; assumption).
        intros z Hz. assert (Hz' : In z (y :: r)) by (apply Hi; assumption).
        destruct Hz' as [Hz'|Hz']; [|assumption]. subst z. exfalso.
        destruct Hz as [Hz|Hz].
        * subst x. rewrite irrefl in Hyx. discriminate.
        * specialize (H1b _ Hz). assert (vlt y y = true) by (eapply trans; eassumption).
          rewrite irrefl in H. discriminate.
  Qed.

  (* the two shapes of a sublist of it :: s' when it does not occur in s' *)
  Lemma sublist_head_cases : forall it s' i, sublist i (it :: s') -> ~ In it s' ->
    (exists i', i = it :: i' /\ sublist i' s' /\ ~ In it i') \/ (sublist i s' /\ ~ In it i).
  Proof.
    intros it s' i H Hn. inversion H; subst.
    - right. split; [constructor|]. intros [].
    - left. exists l1. split; [reflexivity|]. split; [assumption|].
      intros Hin. apply Hn. eapply sublist_incl; eassumption.
    - right. split; [assumption|]. intros Hin. apply Hn. eapply sublist_incl; eassumption.
  Qed.

  (* ------------------------------------------------------------ expo / embed / index_in *)
  Lemma expo_notin : forall S k u, ~ In u S -> expo veqb S k u = 0.
  Proof.
    induction S as [|s S IH]; intros k u H; simpl; [reflexivity|].
    destruct k as [|e k]; [reflexivity|].
    rewrite veqb_neq by (intros E; apply H; left; assumption). apply IH. intros K. apply H. right. assumption.
  Qed.
  Lemma expo_head : forall s S e k, expo veqb (s :: S) (e :: k) s = e.
  Proof. intros. simpl. rewrite veqb_refl. reflexivity. Qed.
  Lemma expo_tail : forall s S e k u, u <> s -> expo veqb (s :: S) (e :: k) u = expo veqb S k u.
  Proof. intros. simpl. rewrite veqb_neq by congruence. reflexivity. Qed.

  Lemma embed_cons_both : forall it s' i' e k', ~ In it s' ->
    embed veqb (it :: s') (it :: i') (e :: k') = e :: embed veqb s' i' k'.
  Proof.
    intros it s' i' e k' Hn. unfold embed. simpl map. rewrite veqb_refl. f_equal.
    apply map_ext_in. intros u Hu. apply expo_tail. intros E. subst. contradiction.
  Qed.
  Lemma embed_skip : forall it s' i k, ~ In it i ->
    embed veqb (it :: s') i k = 0 :: embed veqb s' i k.
  Proof. intros it s' i k Hn. unfold embed. simpl map. rewrite expo_notin by assumption. reflexivity. Qed.
  Lemma embed_nil : forall l k, embed veqb l [] k = repeat 0 (length l).
  Proof. intros l k. unfold embed. induction l as [|a l IH]; [reflexivity|]. cbn [map length repeat]. rewrite IH. reflexivity. Qed.
  Lemma embed_length : forall U S k, length (embed veqb U S k) = length U.
  Proof. intros. unfold embed. apply map_length. Qed.

  Lemma expo_bound : forall S k u, Forall (fun e => e < W32) k -> expo veqb S k u < W32.
  Proof.
    induction S as [|s S IH]; intros k u H; simpl; [reflexivity|].
    destruct k as [|e k]; [reflexivity|]. inversion H; subst.
    destruct (veqb s u); [assumption|apply IH; assumption].
  Qed.
  Lemma embed_key_ok : forall U S k, Forall (fun e => e < W32) k -> key_ok (length U) (embed veqb U S k).
  Proof.
    intros U S k H. split; [apply embed_length|]. unfold embed. apply Forall_forall. intros e He.
    apply in_map_iff in He as [u [E _]]. subst. apply expo_bound. assumption.
  Qed.

  Lemma embed_inj : forall S U, sublist S U -> NoDup U -> forall k k',
    length k = length S -> length k' = length S -> embed veqb U S k = embed veqb U S k' -> k = k'.
  Proof.
    induction 1 as [l|x l1 l2 Hs IH|x l1 l2 Hs IH]; intros ND k k' L L' E.
    - destruct k; [|discriminate]. destruct k'; [reflexivity|discriminate].
    - inversion ND as [|? ? Hn ND']; subst.
      destruct k as [|e k]; [discriminate|]. destruct k' as [|e' k']; [discriminate|].
      rewrite !embed_cons_both in E by assumption. injection E as -> E.
      f_equal. apply IH; try assumption; simpl in *; lia.
    - inversion ND as [|? ? Hn ND']; subst.
      assert (Hx : ~ In x l1) by (intros K; apply Hn; eapply sublist_incl; eassumption).
      rewrite !embed_skip in E by assumption. injection E as E. apply IH; assumption.
  Qed.

  Lemma index_in_head : forall it s', index_in veqb (it :: s') it = 0.
  Proof. intros. simpl. rewrite veqb_refl. reflexivity. Qed.
  Lemma index_in_tail : forall it s' x, x <> it -> index_in veqb (it :: s') x = 1 + index_in veqb s' x.
  Proof. intros. simpl. rewrite veqb_neq by congruence. reflexivity. Qed.

  (* ------------------------------------------------------------ the merge loop of reconcile *)
  Definition positions (pos : N) (s i : list V) : list N := map (fun x => pos + index_in veqb s x) i.

  Lemma positions_shift : forall pos it s' i, ~ In it i ->
    positions pos (it :: s') i = positions (pos + 1) s' i.
  Proof.
    intros pos it s' i Hn. unfold positions. apply map_ext_in. intros x Hx.
    rewrite index_in_tail by (intros E; subst; contradiction). lia.
  Qed.

  Lemma positions_cons_head : forall pos it s' i', ~ In it i' ->
    positions pos (it :: s') (it :: i') = pos :: positions (pos + 1) s' i'.
  Proof.
    intros pos it s' i' Hn. unfold positions. cbn [map index_in]. rewrite veqb_refl. f_equal; [lia|].
    apply map_ext_in. intros x Hx. rewrite veqb_neq by (intros E; subst; contradiction). lia.
  Qed.

  Lemma rec_loop_spec : forall s i j pos, NoDup s -> sublist i s -> sublist j s ->
    rec_loop veqb s i j pos = (positions pos s i, positions pos s j, pos + len s).
  Proof.
    induction s as [|it s' IH]; intros i j pos ND Hi Hj.
    - inversion Hi; subst. inversion Hj; subst. simpl. unfold len. simpl. f_equal. lia.
    - inversion ND as [|? ? Hn ND']; subst.
      assert (HL : pos + len (it :: s') = pos + 1 + len s') by (unfold len; simpl length; lia).
      rewrite HL. clear HL.
      destruct (sublist_head_cases it s' i Hi Hn) as [[i' [-> [Hi' Hni]]]|[Hi' Hni]];
      destruct (sublist_head_cases it s' j Hj Hn) as [[j' [-> [Hj' Hnj]]]|[Hj' Hnj]].
      + rewrite !positions_cons_head by assumption.
        cbn [rec_loop]. rewrite veqb_refl. cbn [tl]. rewrite (IH i' j' (pos + 1) ND' Hi' Hj'). reflexivity.
      + assert (Hj0 : match j with x :: _ => veqb it x | [] => false end = false).
        { destruct j as [|x j0]; [reflexivity|]. apply veqb_neq. intros E. subst. apply Hnj. left. reflexivity. }
        rewrite positions_cons_head by assumption. rewrite (positions_shift pos it s' j) by assumption.
        cbn [rec_loop]. rewrite veqb_refl, Hj0. cbn [tl]. rewrite (IH i' j (pos + 1) ND' Hi' Hj'). reflexivity.
      + assert (Hi0 : match i with x :: _ => veqb it x | [] => false end = false).
        { destruct i as [|x i0]; [reflexivity|]. apply veqb_neq. intros E. subst. apply Hni. left. reflexivity. }
        rewrite positions_cons_head by assumption. rewrite (positions_shift pos it s' i) by assumption.
        cbn [rec_loop]. rewrite veqb_refl, Hi0. cbn [tl]. rewrite (IH i j' (pos + 1) ND' Hi' Hj'). reflexivity.
      + assert (Hi0 : match i with x :: _ => veqb it x | [] => false end = false).
        { destruct i as [|x i0]; [reflexivity|]. apply veqb_neq. intros E. subst. apply Hni. left. reflexivity. }
        assert (Hj0 : match j with x :: _ => veqb it x | [] => false end = false).
        { destruct j as [|x j0]; [reflexivity|]. apply veqb_neq. intros E. subst. apply Hnj. left. reflexivity. }
        rewrite (positions_shift pos it s' i), (positions_shift pos it s' j) by assumption.
        cbn [rec_loop]. rewrite Hi0, Hj0. rewrite (IH i j (pos + 1) ND' Hi' Hj'). reflexivity.
  Qed.

  (* reconcile: the output set is the sorted union; the translators are the positions of the
     elements of s1 / s2 in it; the returned size is its size *)
  Theorem reconcile_spec : forall s1 s2, sorted s1 -> sorted s2 ->
    let '(v1, v2, s, sz) := reconcile vlt veqb s1 s2 in
    sorted s /\ (forall y, In y s <-> In y s1 \/ In y s2) /\
    sublist s1 s /\ sublist s2 s /\
    v1 = positions 0 s s1 /\ v2 = positions 0 s s2 /\ sz = len s.
  Proof.
    intros s1 s2 H1 H2. unfold reconcile.
    destruct (set_union_spec s2 s1 H1) as [Hs Hin].
    set (s := set_union vlt s1 s2) in *.
    assert (Hs1 : sublist s1 s) by (apply sorted_incl_sublist; [assumption|assumption|intros y Hy; apply Hin; left; assumption]).
    assert (Hs2 : sublist s2 s) by (apply sorted_incl_sublist; [assumption|assumption|intros y Hy; apply Hin; right; assumption]).
    rewrite (rec_loop_spec s s1 s2 0 (sorted_NoDup s Hs) Hs1 Hs2).
    repeat split; try assumption; try (apply Hin); try reflexivity.
  Qed.

  (* ------------------------------------------------------------ translate one key *)
  Lemma zeros_cons : forall n, repeat 0 (S n) = 0 :: repeat 0 n.
  Proof. reflexivity. Qed.

  Lemma trans_key_spec : forall s i, sublist i s -> NoDup s -> forall k prefix p0 ltr lk,
    length k = length i ->
    trans_key (length i) p0 (positions (len prefix) s i) k (prefix ++ repeat 0 (length s)) ltr lk
    = Ok (prefix ++ embed veqb s i k).
  Proof.
    induction 1 as [l|x l1 l2 Hs IH|x l1 l2 Hs IH]; intros ND k prefix p0 ltr lk L.
    - simpl. rewrite embed_nil. reflexivity.
    - inversion ND as [|? ? Hn ND']; subst.
      destruct k as [|e k]; [discriminate|].
      assert (Hx : ~ In x l1) by (intros K; apply Hn; eapply sublist_incl; eassumption).
      rewrite positions_cons_head by assumption.
      cbn [length trans_key]. rewrite zeros_cons.
      rewrite set_chk_app. simpl bind.
      replace (prefix ++ e :: repeat 0 (length l2)) with ((prefix ++ [e]) ++ repeat 0 (length l2))
        by (rewrite <- app_assoc; reflexivity).
      replace (len prefix + 1) with (len (prefix ++ [e])) by (unfold len; rewrite app_length; simpl; lia).
      rewrite IH by (try assumption; simpl in L; lia).
      rewrite embed_cons_both by assumption. rewrite <- app_assoc. reflexivity.
    - inversion ND as [|? ? Hn ND']; subst.
      assert (Hx : ~ In x l1) by (intros K; apply Hn; eapply sublist_incl; eassumption).
      rewrite positions_shift by assumption. simpl length. rewrite zeros_cons.
      replace (prefix ++ 0 :: repeat 0 (length l2)) with ((prefix ++ [0]) ++ repeat 0 (length l2))
        by (rewrite <- app_assoc; reflexivity).
      replace (len prefix + 1) with (len (prefix ++ [0])) by (unfold len; rewrite app_length; simpl; lia).
      rewrite IH by assumption.
      rewrite embed_skip by assumption. rewrite <- app_assoc. reflexivity.
  Qed.

  (* translate_preserves_value, for one key: the translated exponent vector is the same monomial
     written over the union (every generator keeps its exponent, new generators get 0) *)
  Corollary trans_key_embed : forall s i k p0 ltr lk, sublist i s -> NoDup s -> length k = length i ->
    trans_key (length i) p0 (positions 0 s i) k (zeros (len s)) ltr lk = Ok (embed veqb s i k).
  Proof.
    intros s i k p0 ltr lk Hs ND L.
    pose proof (trans_key_spec s i Hs ND k [] p0 ltr lk L) as H. simpl in H.
    unfold zeros. rewrite len_length. exact H.
  Qed.

  (* ------------------------------------------------------------ translate a dictionary *)
  Lemma dinsert_fresh : forall k c d, ~ In k (map fst d) -> dinsert k c d = (k, c) :: d.
  Proof. intros k c d H. unfold dinsert. apply dfind_none_notin in H. rewrite H. reflexivity. Qed.

  Lemma lift_keys : forall U S d, map fst (lift veqb U S d) = map (embed veqb U S) (map fst d).
  Proof. intros. unfold lift. rewrite !map_map. reflexivity. Qed.

  Lemma trans_all_spec : forall s i, sublist i s -> NoDup s ->
    forall d acc, Forall (fun p => length (fst p) = length i) d ->
    NoDup (map fst (lift veqb s i d) ++ map fst acc) ->
    exists acc', trans_all (len i) (positions 0 s i) (len s) d acc = Ok acc' /\
      NoDup (map fst acc') /\
      (forall m, coeff acc' m = coeff acc m + coeffL (lift veqb s i d) m)%Z /\
      (forall p, In p acc' -> In p acc \/ In p (lift veqb s i d)).
  Proof.
    intros s i Hs ND. induction d as [|[k c] d IH]; intros acc HL HND.
    - exists acc. simpl. split; [reflexivity|]. split; [assumption|]. split; [intros; rewrite coeffL_nil; ring|].
      intros p Hp. left. assumption.
    - inversion HL as [|? ? Lk HL']; subst. simpl in Lk.
      simpl trans_all. rewrite len_length. rewrite (trans_key_embed s i k 0 _ _ Hs ND Lk). simpl bind.
      simpl in HND. inversion HND as [|? ? Hnotin HND']; subst.
      rewrite dinsert_fresh by (intros K; apply Hnotin; apply in_or_app; right; assumption).
      destruct (IH ((embed veqb s i k, c) :: acc) HL') as [acc' [E [N' [C' I']]]].
      { simpl. eapply Permutation_NoDup; [apply Permutation_middle|]. constructor; assumption. }
      exists acc'. split; [assumption|]. split; [assumption|]. split.
      + intros m. rewrite C'. rewrite coeff_cons. simpl lift. rewrite coeffL_cons. unfold ind.
        rewrite (mono_eqb_sym (embed veqb s i k) m).
        destruct (mono_eqb m (embed veqb s i k)) eqn:Em; [|ring].
        apply mono_eqb_eq in Em. subst m. unfold coeff.
        assert (F : dfind (embed veqb s i k) acc = None).
        { apply dfind_none_notin. intros K. apply Hnotin. apply in_or_app. right. assumption. }
        rewrite F. ring.
      + intros p Hp. destruct (I' p Hp) as [[Hq|Hq]|Hq].
        * right. left. exact Hq.
        * left. assumption.
        * right. right. assumption.
  Qed.

  (* translate: the result is well-formed over the union and denotes the lifted polynomial *)
  Theorem ctranslate_spec : forall s i a, sublist i s -> sorted s ->
    cont_ok a -> csize a = len i ->
    exists r, ctranslate a (positions 0 s i) (len s) = Ok r /\
      cont_ok r /\ csize r = len s /\
      forall m, coeff (cdict r) m = coeffL (lift veqb s i (cdict a)) m.
  Proof.
    intros s i a Hs Hsorted [NDa Fa] Ea.
    assert (ND : NoDup s) by (apply sorted_NoDup; assumption).
    rewrite Ea, len_length in Fa.
    assert (HL : Forall (fun p => length (fst p) = length i) (cdict a)).
    { eapply Forall_impl; [|exact Fa]. intros p [[L _] _]. exact L. }
    assert (HND : NoDup (map fst (lift veqb s i (cdict a)) ++ map fst (@nil (mono * Z)))).
    { simpl. rewrite app_nil_r. rewrite lift_keys. apply NoDup_map_inj_in; [|assumption].
      intros x y Hx Hy E. rewrite Forall_forall in HL.
      apply in_map_iff in Hx as [px [<- Hpx]]. apply in_map_iff in Hy as [py [<- Hpy]].
      eapply embed_inj; try eassumption; apply HL; assumption. }
    destruct (trans_all_spec s i Hs ND (cdict a) [] HL HND) as [acc' [E [N' [C' I']]]].
    unfold ctranslate. rewrite Ea. rewrite E. simpl bind.
    eexists. split; [reflexivity|]. unfold cont_of_dict. simpl.
    split; [|split; [reflexivity|]].
    - unfold cont_ok. simpl. rewrite len_length. split; [apply NoDup_dnz; assumption|].
      assert (HF : Forall (fun p => key_ok (length s) (fst p)) acc').
      { apply Forall_forall. intros p Hp. destruct (I' p Hp) as [[]|Hq].
        unfold lift in Hq. apply in_map_iff in Hq as [[k c] [<- Hq]]. simpl.
        apply embed_key_ok. rewrite Forall_forall in Fa. destruct (Fa _ Hq) as [[_ B] _]. exact B. }
      apply (Forall_dnz _ _ HF).
    - intros m. rewrite coeff_dnz by assumption. rewrite C'. unfold coeff. simpl. ring.
  Qed.
End Rec.
