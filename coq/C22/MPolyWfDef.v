(* C22 -- executable well-formedness check (the hypothesis [poly_ok] of the theorems as a boolean).
   The extracted model evaluates it on every polynomial that the correspondence feeds to an
   operation and on every result, so the theorems' hypotheses are checked on the explored inputs.
   Definitions only (soundness is proved in MPolyWf.v). *)
From SE Require Export C22.MPolyModel.
Local Open Scope N_scope.

Fixpoint nodupb (l : list mono) : bool :=
  match l with
  | [] => true
  | k :: r => negb (existsb (mono_eqb k) r) && nodupb r
  end.

Definition entry_okb (n : nat) (p : mono * Z) : bool :=
  (length (fst p) =? n)%nat && forallb (fun e => e <? W32) (fst p) && negb (snd p =? 0)%Z.

Definition cont_okb (c : cont) : bool :=
  nodupb (map fst (cdict c)) && forallb (entry_okb (N.to_nat (csize c))) (cdict c).

Section Generic.
  Context {V : Type}.
  Variable vlt : V -> V -> bool.
  Fixpoint sortedb (s : list V) : bool :=
    match s with
    | [] => true
    | a :: r => forallb (vlt a) r && sortedb r
    end.
  Definition poly_okb (p : mpoly V) : bool :=
    sortedb (pvars p) && (len (pvars p) =? csize (pcont p)) && cont_okb (pcont p).
End Generic.

Definition s_okb : spoly -> bool := poly_okb sym_lt.
