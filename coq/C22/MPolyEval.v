(* C22 -- MIntPoly::eval: the value is the sum of coefficient * product of powers, and evaluation
   commutes with add_mpoly and (when no exponent wraps) mul_mpoly over arbitrary generator sets. *)
From SE Require Import C22.MPolySpec C22.MPolyDict C22.MPolyRec C22.MPolyArith C22.MPolyOps.
From Coq Require Import Lia ZifyBool ZifyNat ZifyN Sorted.
Local Open Scope Z_scope.

Lemma sumL_ext_in : forall A g h, (forall k c, In (k, c) A -> g k = h k) -> sumL A g = sumL A h.
Proof.
  induction A as [|[k c] A IH]; intros g h E; cbn [sumL]; [reflexivity|].
  rewrite (E k c) by (left; reflexivity). rewrite (IH g h); [reflexivity|].
  intros k' c' H. apply (E k' c'). right. assumption.
Qed.
Lemma sumL_scale_r : forall A x g, sumL A (fun k => g k * x) = sumL A g * x.
Proof. induction A as [|[k c] A IH]; intros x g; cbn [sumL]; [ring|]. rewrite IH. ring. Qed.

Lemma evalL_peq : forall A B rho, peq A B -> evalL A rho = evalL B rho.
Proof. intros. unfold evalL. apply sumL_peq. assumption. Qed.
Lemma evalL_app : forall A B rho, evalL (A ++ B) rho = evalL A rho + evalL B rho.
Proof. intros. unfold evalL. apply sumL_app. Qed.

Lemma monoval_kadd : forall rho ka kb, length ka = length rho -> length kb = length rho ->
  monoval rho (kadd N.add ka kb) = monoval rho ka * monoval rho kb.
Proof.
  induction rho as [|v rho IH]; intros ka kb La Lb.
  - destruct ka; [|discriminate]. destruct kb; [|discriminate]. reflexivity.
  - destruct ka as [|x ka]; [discriminate|]. destruct kb as [|y kb]; [discriminate|].
    cbn [kadd monoval]. rewrite IH by (cbn in *; lia).
    rewrite N2Z.inj_add. rewrite Z.pow_add_r by lia. ring.
Qed.

Lemma evalL_t_mul : forall A B rho,
  Forall (fun p => length (fst p) = length rho) A -> Forall (fun p => length (fst p) = length rho) B ->
  evalL (t_mul N.add A B) rho = evalL A rho * evalL B rho.
Proof.
  intros A B rho HA HB. unfold evalL. rewrite sumL_t_mul.
  rewrite (sumL_ext_in A _ (fun ka => monoval rho ka * sumL B (monoval rho))).
  - apply sumL_scale_r.
  - intros ka ca Ha. rewrite Forall_forall in HA. specialize (HA _ Ha). cbn [fst] in HA.
    rewrite <- sumL_scale. apply sumL_ext_in. intros kb cb Hb.
    rewrite Forall_forall in HB. specialize (HB _ Hb). cbn [fst] in HB.
    apply monoval_kadd; assumption.
Qed.

Section Eval.
  Context {V : Type}.
  Variable vlt : V -> V -> bool.
  Variable veqb : V -> V -> bool.
  Hypothesis laws : order_laws vlt veqb.

  Notation lift := (lift veqb).
  Notation embed := (embed veqb).
  Notation rho_of := (rho_of vlt).
  Notation covers := (covers vlt).

  Lemma rho_of_cons : forall vals x l,
    rho_of vals (x :: l) = (match vfind vlt x vals with Some v => v | None => 0 end) :: rho_of vals l.
  Proof. reflexivity. Qed.

  Lemma eval_term_spec : forall vals vars k term i lk, covers vals vars -> length k = length vars ->
    eval_term vlt vars k vals term i lk = Ok (term * monoval (rho_of vals vars) k).
  Proof.
    intros vals. induction vars as [|sym vs IH]; intros k term i lk Hc L.
    - destruct k; [|discriminate]. cbn [eval_term MPolySpec.rho_of map monoval]. rewrite Z.mul_1_r. reflexivity.
    - destruct k as [|e k]; [discriminate|]. inversion Hc as [|? ? Hs Hc']; subst.
      rewrite rho_of_cons. cbn [eval_term monoval].
      destruct (vfind vlt sym vals) as [v|] eqn:F; [|contradiction].
      rewrite IH by (try assumption; cbn in L; lia). f_equal. ring.
  Qed.

  Lemma eval_dict_spec : forall vals vars d ans, covers vals vars ->
    Forall (fun p => length (fst p) = length vars) d ->
    eval_dict vlt vars d vals ans = Ok (ans + evalL d (rho_of vals vars)).
  Proof.
    intros vals vars. induction d as [|[k c] d IH]; intros ans Hc HL.
    - cbn. f_equal. unfold evalL. cbn. ring.
    - inversion HL as [|? ? Lk HL']; subst. cbn [fst] in Lk.
      cbn [eval_dict]. rewrite eval_term_spec by assumption. cbn [bind].
      rewrite IH by assumption. f_equal. unfold evalL. cbn [sumL]. ring.
  Qed.

  Lemma poly_ok_lengths : forall a, poly_ok vlt a ->
    Forall (fun p => length (fst p) = length (pvars a)) (cdict (pcont a)).
  Proof.
    intros a [_ [L [_ F]]]. rewrite <- L, len_length in F.
    eapply Forall_impl; [|exact F]. intros p [[K _] _]. exact K.
  Qed.

  (* eval: sum over the terms of coefficient * prod value(generator)^exponent *)
  Theorem meval_spec : forall a vals, poly_ok vlt a -> covers vals (pvars a) ->
    meval vlt a vals = Ok (evalL (cdict (pcont a)) (rho_of vals (pvars a))).
  Proof.
    intros a vals Ha Hc. unfold meval. rewrite eval_dict_spec; [f_equal; ring|assumption|].
    apply poly_ok_lengths. assumption.
  Qed.

  (* the value of a monomial does not change when it is written over more generators *)
  Lemma monoval_embed : forall vals S U, sublist S U -> NoDup U -> forall k, length k = length S ->
    monoval (rho_of vals U) (embed U S k) = monoval (rho_of vals S) k.
  Proof.
    intros vals. induction 1 as [l|x l1 l2 Hs IH|x l1 l2 Hs IH]; intros ND k L.
    - destruct k; [|discriminate]. rewrite (embed_nil veqb). cbn [MPolySpec.rho_of map monoval].
      clear. induction l as [|a l IHl]; [reflexivity|]. rewrite rho_of_cons. cbn [length repeat monoval].
      rewrite IHl. cbn [Z.of_N]. rewrite Z.pow_0_r. ring.
    - inversion ND as [|? ? Hn ND']; subst. destruct k as [|e k]; [discriminate|].
      rewrite (embed_cons_both vlt veqb laws) by assumption.
      rewrite !rho_of_cons. cbn [monoval]. rewrite IH by (try assumption; cbn in L; lia). reflexivity.
    - inversion ND as [|? ? Hn ND']; subst.
      assert (Hx : ~ In x l1) by (intros K; apply Hn; eapply sublist_incl; eassumption).
      rewrite (embed_skip vlt veqb laws) by assumption.
      rewrite rho_of_cons. cbn [monoval]. rewrite IH by assumption. cbn [Z.of_N]. rewrite Z.pow_0_r. ring.
  Qed.

  Lemma evalL_lift : forall vals S U d, sublist S U -> NoDup U ->
    Forall (fun p => length (fst p) = length S) d ->
    evalL (lift U S d) (rho_of vals U) = evalL d (rho_of vals S).
  Proof.
    intros vals S U d Hs ND. induction d as [|[k c] d IH]; intros HL; [reflexivity|].
    inversion HL as [|? ? Lk HL']; subst. cbn [fst] in Lk.
    unfold evalL, MPolySpec.lift in *. cbn [map sumL fst snd].
    rewrite (monoval_embed vals S U Hs ND k Lk). rewrite IH by assumption. reflexivity.
  Qed.

  Lemma covers_union : forall vals s a b, (forall v, In v s <-> In v a \/ In v b) ->
    covers vals a -> covers vals b -> covers vals s.
  Proof.
    intros vals s a b Hin Ca Cb. unfold MPolySpec.covers in *. rewrite Forall_forall in *.
    intros u Hu. apply Hin in Hu as [Hu|Hu]; [apply Ca|apply Cb]; assumption.
  Qed.

  Lemma lift_lengths : forall U S d, Forall (fun p => length (fst p) = length U) (lift U S d).
  Proof.
    intros U S d. apply Forall_forall. intros p Hp. unfold MPolySpec.lift in Hp.
    apply in_map_iff in Hp as [q [<- _]]. cbn [fst]. apply embed_length.
  Qed.

  Lemma result_sublists : forall a b r : mpoly V, poly_ok vlt a -> poly_ok vlt b -> poly_ok vlt r ->
    (forall v, In v (pvars r) <-> In v (pvars a) \/ In v (pvars b)) ->
    sublist (pvars a) (pvars r) /\ sublist (pvars b) (pvars r) /\ NoDup (pvars r).
  Proof.
    intros a b r [Sa _] [Sb _] [Sr _] Hin. split; [|split].
    - apply (sorted_incl_sublist vlt veqb laws); try assumption. intros v Hv. apply Hin. left. assumption.
    - apply (sorted_incl_sublist vlt veqb laws); try assumption. intros v Hv. apply Hin. right. assumption.
    - apply (sorted_NoDup vlt veqb laws). assumption.
  Qed.

  (* evaluation commutes with add_mpoly, for all pairs of generator sets *)
  Theorem madd_eval : forall a b vals, poly_ok vlt a -> poly_ok vlt b ->
    covers vals (pvars a) -> covers vals (pvars b) ->
    exists r va vb, madd vlt veqb a b = Ok r /\ meval vlt a vals = Ok va /\ meval vlt b vals = Ok vb /\
      meval vlt r vals = Ok (va + vb).
  Proof.
    intros a b vals Ha Hb Ca Cb.
    destruct (madd_spec vlt veqb laws a b Ha Hb) as [r [E [Or [Hin C]]]].
    destruct (result_sublists a b r Ha Hb Or Hin) as [Sa [Sb ND]].
    exists r. eexists. eexists. split; [exact E|]. split; [apply meval_spec; assumption|].
    split; [apply meval_spec; assumption|].
    rewrite meval_spec by (try assumption; eapply covers_union; eassumption). f_equal.
    rewrite (evalL_peq _ (t_add (lift (pvars r) (pvars a) (cdict (pcont a))) (lift (pvars r) (pvars b) (cdict (pcont b))))).
    - unfold t_add. rewrite evalL_app. rewrite !evalL_lift by (try assumption; apply poly_ok_lengths; assumption).
      reflexivity.
    - intros m. rewrite <- coeff_coeffL by (apply Or). apply C.
  Qed.

  (* evaluation commutes with mul_mpoly when no exponent of the product reaches 2^32 *)
  Theorem mmul_eval : forall a b vals, poly_ok vlt a -> poly_ok vlt b ->
    covers vals (pvars a) -> covers vals (pvars b) ->
    (tmax (cdict (pcont a)) + tmax (cdict (pcont b)) < W32)%N ->
    exists r va vb, mmul vlt veqb a b = Ok r /\ meval vlt a vals = Ok va /\ meval vlt b vals = Ok vb /\
      meval vlt r vals = Ok (va * vb).
  Proof.
    intros a b vals Ha Hb Ca Cb G.
    destruct (mmul_spec_guarded vlt veqb laws a b Ha Hb G) as [r [E [Or [Hin C]]]].
    destruct (result_sublists a b r Ha Hb Or Hin) as [Sa [Sb ND]].
    exists r. eexists. eexists. split; [exact E|]. split; [apply meval_spec; assumption|].
    split; [apply meval_spec; assumption|].
    rewrite meval_spec by (try assumption; eapply covers_union; eassumption). f_equal.
    rewrite (evalL_peq _ (t_mul N.add (lift (pvars r) (pvars a) (cdict (pcont a))) (lift (pvars r) (pvars b) (cdict (pcont b))))).
    - rewrite evalL_t_mul.
      + rewrite !evalL_lift by (try assumption; apply poly_ok_lengths; assumption). reflexivity.
      + unfold MPolySpec.rho_of. rewrite map_length. apply lift_lengths.
      + unfold MPolySpec.rho_of. rewrite map_length. apply lift_lengths.
    - intros m. rewrite <- coeff_coeffL by (apply Or). apply C.
  Qed.
End Eval.
