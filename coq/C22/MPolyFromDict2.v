(* C22 -- from_dict, second part: the sorted generator set, the permutation vector `trans`, and the
   final theorem. *)
From SE Require Import C22.MPolySpec C22.MPolyDict C22.MPolyRec C22.MPolyArith C22.MPolyFromDict.
From Coq Require Import Lia ZifyBool ZifyNat ZifyN Sorted Permutation.
Local Open Scope N_scope.

Fixpoint seqN (i : N) (n : nat) : list N :=
  match n with O => [] | S n' => i :: seqN (i + 1) n' end.
Lemma seqN_length : forall n i, length (seqN i n) = n.
Proof. induction n as [|n IH]; intros i; cbn [seqN length]; [reflexivity|]. rewrite IH. reflexivity. Qed.

Section FromDict2.
  Context {V : Type}.
  Variable vlt : V -> V -> bool.
  Variable veqb : V -> V -> bool.
  Hypothesis laws : order_laws vlt veqb.

  Notation veqb_refl := (veqb_refl vlt veqb laws).
  Notation veqb_neq := (veqb_neq vlt veqb laws).
  Notation expo := (expo veqb).
  Notation embed := (embed veqb).
  Notation lift := (lift veqb).
  Notation index_in := (index_in veqb).

  (* ------------------------------------------------------------ the map m mirrors the set s *)
  Lemma imap_keys : forall x i m, map fst (imap_insert vlt x i m) = set_insert vlt x (map fst m).
  Proof.
    intros x i. induction m as [|[y j] r IH]; cbn [imap_insert set_insert map fst]; [reflexivity|].
    destruct (vlt y x); [cbn [map fst]; rewrite IH; reflexivity|].
    destruct (vlt x y); reflexivity.
  Qed.
  Lemma imap_snd : forall (g : V -> N) x i m, g x = i -> map snd m = map g (map fst m) ->
    map snd (imap_insert vlt x i m) = map g (map fst (imap_insert vlt x i m)).
  Proof.
    intros g x i. induction m as [|[y j] r IH]; intros Hg Hm; cbn [imap_insert map fst snd].
    - rewrite Hg. reflexivity.
    - cbn [map fst snd] in Hm. injection Hm as Hj Hr.
      destruct (vlt y x).
      + cbn [map fst snd]. rewrite IH by assumption. rewrite Hj. reflexivity.
      + destruct (vlt x y); cbn [map fst snd]; rewrite ?Hg, ?Hj, ?Hr; reflexivity.
  Qed.

  Lemma index_in_app : forall done x rest, ~ In x done -> index_in (done ++ x :: rest) x = len done.
  Proof.
    induction done as [|y done IH]; intros x rest Hn; cbn [app MPolySpec.index_in].
    - rewrite veqb_refl. reflexivity.
    - rewrite veqb_neq by (intros K; apply Hn; left; assumption).
      rewrite IH by (intros K; apply Hn; right; assumption). unfold len. cbn [length]. lia.
  Qed.

  Lemma from_dict_maps_spec : forall v0 rest done m s, v0 = done ++ rest -> NoDup v0 ->
    map fst m = s -> map snd m = map (index_in v0) s ->
    let '(m', s') := from_dict_maps vlt rest (len done) m s in
    map fst m' = s' /\ map snd m' = map (index_in v0) s' /\
    s' = fold_left (fun s x => set_insert vlt x s) rest s.
  Proof.
    intros v0. induction rest as [|x rest IH]; intros done m s E ND Hk Hs; cbn [from_dict_maps fold_left].
    - repeat split; assumption.
    - assert (Hx : ~ In x done).
      { subst v0. apply NoDup_remove_2 in ND. intros K. apply ND. apply in_or_app. left. assumption. }
      replace (len done + 1) with (len (done ++ [x])) by (unfold len; rewrite app_length; cbn [length]; lia).
      apply IH.
      + rewrite <- app_assoc. assumption.
      + assumption.
      + rewrite imap_keys, Hk. reflexivity.
      + rewrite <- Hk. rewrite <- (imap_keys x (len done) m).
        apply imap_snd; [subst v0; apply index_in_app; assumption|].
        rewrite Hk. assumption.
  Qed.

  (* ------------------------------------------------------------ fill_trans is a scatter of 0,1,2,.. *)
  Lemma fill_trans_scatter : forall (m : list (V * N)) i trans ltr lk,
    fill_trans (length m) i m trans = trans_key (length m) i (map snd m) (seqN i (length m)) trans ltr lk.
  Proof.
    induction m as [|[y j] m IH]; intros i trans ltr lk; cbn [length fill_trans trans_key map snd seqN]; [reflexivity|].
    destruct (set_chk trans j i) as [t| | |]; cbn [bind]; try reflexivity. apply IH.
  Qed.

  Lemma expo_seqN : forall s i x, In x s -> expo s (seqN i (length s)) x = i + index_in s x.
  Proof.
    induction s as [|y s IH]; intros i x Hin; [destruct Hin|].
    cbn [length seqN MPolySpec.expo MPolySpec.index_in]. destruct (veqb y x) eqn:E; [lia|].
    destruct Hin as [Hin|Hin]; [subst; rewrite veqb_refl in E; discriminate|].
    rewrite IH by assumption. lia.
  Qed.

  (* from_dict: the sorted generators, and the same polynomial over them *)
  Theorem from_dict_spec : forall v d, NoDup v -> NoDup (map fst d) ->
    Forall (fun p => key_ok (length v) (fst p)) d ->
    exists r, from_dict vlt v d = Ok r /\ poly_ok vlt r /\
      (forall x, In x (pvars r) <-> In x v) /\
      forall m, coeff (cdict (pcont r)) m = coeffL (lift (pvars r) v (dnz d)) m.
  Proof.
    intros v d NDv NDd Fd. unfold from_dict.
    pose proof (from_dict_maps_spec v v [] [] [] eq_refl NDv eq_refl eq_refl) as M.
    change (len (@nil V)) with 0 in M.
    destruct (from_dict_maps vlt v 0 [] []) as [m s]. destruct M as [Mk [Ms Es]].
    destruct (set_union_spec vlt veqb laws v [] (SSorted_nil _)) as [Ssorted Sin].
    unfold set_union in Ssorted, Sin. rewrite <- Es in Ssorted, Sin.
    assert (Hin : forall x, In x s <-> In x v) by (intros x; rewrite Sin; cbn [In]; tauto).
    assert (NDs : NoDup s) by (apply (sorted_NoDup vlt veqb laws); assumption).
    assert (Lsv : length s = length v).
    { apply Permutation_length. apply NoDup_Permutation; assumption. }
    assert (Lm : length m = length s) by (rewrite <- Mk; rewrite map_length; reflexivity).
    (* trans *)
    rewrite <- Lm. rewrite (fill_trans_scatter m 0 _ 0 0). rewrite Ms. rewrite Lm.
    assert (Elen : len s = len v) by (unfold len; rewrite Lsv; reflexivity).
    replace (zeros (len s)) with (zeros (len v)) by (rewrite Elen; reflexivity).
    rewrite (scatter_embed vlt veqb laws v s (seqN 0 (length s)) 0 0 0 NDv NDs)
      by (try (intros x Hx; apply Hin; assumption); apply seqN_length).
    cbn [bind].
    assert (Etr : embed v s (seqN 0 (length s)) = map (index_in s) v).
    { unfold MPolySpec.embed. apply map_ext_in. intros x Hx. rewrite expo_seqN by (apply Hin; assumption). lia. }
    rewrite Etr.
    (* the container and its translation *)
    set (x := cont_of_dict d (len s)).
    assert (Ox : cont_ok x).
    { unfold cont_ok, x, cont_of_dict. cbn [cdict csize]. rewrite len_length. split; [apply NoDup_dnz; assumption|].
      rewrite Lsv. apply (Forall_dnz _ _ Fd). }
    assert (Sx : csize x = len v) by (unfold x, cont_of_dict, len; cbn [csize]; rewrite Lsv; reflexivity).
    destruct (ctranslate_gen vlt veqb laws s v x NDs NDv (fun y Hy => proj2 (Hin y) Hy) Ox Sx) as [y [Ey [Oy [Sy Cy]]]].
    rewrite Ey. cbn [bind]. eexists. split; [reflexivity|]. cbn [pvars pcont].
    split; [|split; [exact Hin|]].
    - unfold poly_ok. cbn [pvars pcont]. split; [assumption|]. split; [symmetry; assumption|assumption].
    - intros m'. rewrite Cy. reflexivity.
  Qed.
End FromDict2.
