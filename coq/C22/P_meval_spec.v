(* C22 obligation: eval with a valuation that covers the generators returns
   sum of coefficient * prod value(generator)^exponent (no ErrOOB, no missing value). *)
From SE Require Import C22.MPolySpec C22.MPolyDict C22.MPolyRec C22.MPolyArith C22.MPolyOps
  C22.MPolyPow C22.MPolyEval C22.MPolyEq C22.MPolyInst C22.MPolyMain.
Local Open Scope Z_scope.
Theorem C22_meval_spec :
  forall (V : Type) (vlt : V -> V -> bool) (a : mpoly V) (vals : list (V * Z)),
    poly_ok vlt a -> covers vlt vals (pvars a) ->
    meval vlt a vals = Ok (evalL (cdict (pcont a)) (rho_of vlt vals (pvars a))).
Proof. exact @meval_spec. Qed.
Print Assumptions C22_meval_spec.
