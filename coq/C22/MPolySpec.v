(* C22 -- specification: polynomials as formal sums of monomials (term lists), their coefficient
   functions, schoolbook arithmetic on them, the embedding of a monomial over a generator list [S]
   into a larger generator list [U] (by generator, not by position), and well-formedness. *)
From SE Require Export C22.MPolyModel.
From Coq Require Import Sorted.
Local Open Scope Z_scope.

(* ---------------------------------------------------------------- formal sums *)
Definition terms := list (mono * Z).

(* weighted sum over a term list:  sum of c * g k *)
Fixpoint sumL (L : terms) (g : mono -> Z) : Z :=
  match L with
  | [] => 0
  | (k, c) :: r => c * g k + sumL r g
  end.

(* the coefficient function denoted by a term list (a finitely supported function mono -> Z);
   keys may repeat: their coefficients add up *)
Definition ind (k m : mono) : Z := if mono_eqb k m then 1 else 0.
Definition coeffL (L : terms) (m : mono) : Z := sumL L (fun k => ind k m).

(* two term lists denote the same polynomial *)
Definition peq (A B : terms) : Prop := forall m, coeffL A m = coeffL B m.

(* the coefficient function of a dictionary (an association list with distinct keys) *)
Definition coeff (d : dict) (m : mono) : Z := match dfind m d with Some c => c | None => 0 end.

(* monomial product: exponents add.  [kadd_t]: in N (mathematics); [kadd_w]: as the code computes
   it, in unsigned 32-bit arithmetic *)
Fixpoint kadd (f : N -> N -> N) (a b : mono) : mono :=
  match a, b with
  | x :: a', y :: b' => f x y :: kadd f a' b'
  | _, _ => []
  end.
Definition kadd_t := kadd N.add.
Definition kadd_w := kadd uadd.

(* schoolbook operations on formal sums *)
Definition t_add (A B : terms) : terms := A ++ B.
Definition t_neg (A : terms) : terms := map (fun p => (fst p, - snd p)) A.
Definition t_sub (A B : terms) : terms := A ++ t_neg B.
Definition t_scale (f : N -> N -> N) (ka : mono) (ca : Z) (B : terms) : terms :=
  map (fun p => (kadd f ka (fst p), ca * snd p)) B.
Fixpoint t_mul (f : N -> N -> N) (A B : terms) : terms :=
  match A with
  | [] => []
  | (ka, ca) :: r => t_scale f ka ca B ++ t_mul f r B
  end.
Fixpoint t_pow (f : N -> N -> N) (nv : nat) (A : terms) (n : nat) : terms :=
  match n with
  | O => [(repeat 0%N nv, 1)]
  | S n' => t_mul f A (t_pow f nv A n')
  end.

(* value of a monomial / a formal sum at a point (one integer per generator) *)
Fixpoint monoval (rho : list Z) (k : mono) : Z :=
  match rho, k with
  | v :: rho', e :: k' => v ^ Z.of_N e * monoval rho' k'
  | _, _ => 1
  end.
Definition evalL (L : terms) (rho : list Z) : Z := sumL L (monoval rho).

(* largest exponent occurring in a term list *)
Definition kmax (k : mono) : N := fold_right N.max 0%N k.
Definition tmax (L : terms) : N := fold_right (fun p acc => N.max (kmax (fst p)) acc) 0%N L.

(* ---------------------------------------------------------------- well-formed dictionaries *)
Definition key_ok (n : nat) (k : mono) : Prop := length k = n /\ Forall (fun e => (e < W32)%N) k.
Definition dict_ok (n : nat) (d : dict) : Prop :=
  NoDup (map fst d) /\ Forall (fun p => key_ok n (fst p) /\ snd p <> 0) d.
Definition cont_ok (c : cont) : Prop := dict_ok (N.to_nat (csize c)) (cdict c).

Section Generic.
  Context {V : Type}.
  Variable vlt : V -> V -> bool.
  Variable veqb : V -> V -> bool.

  (* exponent of the generator [u] in the monomial [k] over the generator list [S] *)
  Fixpoint expo (S : list V) (k : mono) (u : V) : N :=
    match S, k with
    | s :: S', e :: k' => if veqb s u then e else expo S' k' u
    | _, _ => 0%N
    end.
  (* the same monomial written over the generator list [U] *)
  Definition embed (U S : list V) (k : mono) : mono := map (expo S k) U.
  (* a polynomial over [S] written over [U] *)
  Definition lift (U S : list V) (d : terms) : terms := map (fun p => (embed U S (fst p), snd p)) d.

  (* position of a generator in a list *)
  Fixpoint index_in (s : list V) (x : V) : N :=
    match s with
    | [] => 0%N
    | y :: r => if veqb y x then 0%N else (1 + index_in r x)%N
    end.

  (* a set_basic: strictly increasing for the comparator *)
  Definition sorted (s : list V) : Prop := StronglySorted (fun a b => vlt a b = true) s.

  Definition poly_ok (p : mpoly V) : Prop :=
    sorted (pvars p) /\ len (pvars p) = csize (pcont p) /\ cont_ok (pcont p).

  (* the valuation of the generators [U] given by a std::map *)
  Definition rho_of (vals : list (V * Z)) (U : list V) : list Z :=
    map (fun u => match vfind vlt u vals with Some v => v | None => 0 end) U.
  Definition covers (vals : list (V * Z)) (U : list V) : Prop :=
    Forall (fun u => vfind vlt u vals <> None) U.
End Generic.

(* strict total order + decidable Leibniz equality on generators: what the proofs need from
   RCPBasicKeyLess / eq (for Symbols it is proved in MPolyInst.v from the C02 theorems) *)
Record order_laws {V : Type} (vlt veqb : V -> V -> bool) : Prop := {
  ol_irrefl : forall a, vlt a a = false;
  ol_trans : forall a b c, vlt a b = true -> vlt b c = true -> vlt a c = true;
  ol_total : forall a b, vlt a b = false -> vlt b a = false -> a = b;
  ol_eqb : forall a b, veqb a b = true <-> a = b
}.
