(* C22 obligation: reconcile returns the sorted union of the two generator sets, its size, and the
   two translators = the positions of the elements of s1 / s2 in the union.  For ALL pairs of sets
   (equal, overlapping, disjoint, empty). *)
From SE Require Import C22.MPolySpec C22.MPolyDict C22.MPolyRec C22.MPolyArith C22.MPolyOps
  C22.MPolyPow C22.MPolyEval C22.MPolyEq C22.MPolyInst C22.MPolyMain.
Local Open Scope Z_scope.
Theorem C22_reconcile_spec :
  forall (V : Type) (vlt veqb : V -> V -> bool), order_laws vlt veqb ->
  forall s1 s2 : list V, sorted vlt s1 -> sorted vlt s2 ->
    let '(v1, v2, s, sz) := reconcile vlt veqb s1 s2 in
    sorted vlt s /\ (forall y, In y s <-> In y s1 \/ In y s2) /\
    v1 = map (index_in veqb s) s1 /\ v2 = map (index_in veqb s) s2 /\ sz = len s /\
    (forall x, In x s -> nth_error s (N.to_nat (index_in veqb s x)) = Some x).
Proof. exact @reconcile_spec_main. Qed.
Print Assumptions C22_reconcile_spec.
