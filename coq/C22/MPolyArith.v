(* C22 -- multiplication of containers (UDictWrapper::mul, operator*=), the algebra of schoolbook
   products of formal sums, and the top-level theorems for add_mpoly / sub_mpoly / neg_mpoly /
   mul_mpoly over arbitrary pairs of generator sets. *)
From SE Require Import C22.MPolySpec C22.MPolyDict C22.MPolyRec.
From Coq Require Import Lia ZifyBool ZifyNat ZifyN Sorted.
Local Open Scope Z_scope.

(* ---------------------------------------------------------------- exponent vectors *)
Lemma uadd_lt : forall x y, (uadd x y < W32)%N.
Proof. intros. unfold uadd. apply N.mod_lt. discriminate. Qed.
Lemma uadd_0_r : forall x, (x < W32)%N -> uadd x 0 = x.
Proof. intros x H. unfold uadd. rewrite N.add_0_r. apply N.mod_small. assumption. Qed.
Lemma uadd_0_l : forall x, (x < W32)%N -> uadd 0 x = x.
Proof. intros x H. unfold uadd. rewrite N.add_0_l. apply N.mod_small. assumption. Qed.
Lemma uadd_assoc : forall a b c, uadd (uadd a b) c = uadd a (uadd b c).
Proof.
  intros. unfold uadd. rewrite N.add_mod_idemp_l by discriminate. rewrite N.add_mod_idemp_r by discriminate.
  rewrite N.add_assoc. reflexivity.
Qed.
Lemma uadd_comm : forall a b, uadd a b = uadd b a.
Proof. intros. unfold uadd. rewrite N.add_comm. reflexivity. Qed.

Lemma kadd_w_assoc : forall a b c, kadd_w (kadd_w a b) c = kadd_w a (kadd_w b c).
Proof.
  unfold kadd_w. induction a as [|x a IH]; intros b c; [reflexivity|].
  destruct b as [|y b]; [reflexivity|]. destruct c as [|z c]; [reflexivity|].
  simpl. rewrite uadd_assoc, IH. reflexivity.
Qed.
Lemma kadd_w_comm : forall a b, kadd_w a b = kadd_w b a.
Proof.
  unfold kadd_w. induction a as [|x a IH]; intros b; destruct b as [|y b]; try reflexivity.
  simpl. rewrite uadd_comm, IH. reflexivity.
Qed.
Lemma kadd_w_zeros_r : forall n k, key_ok n k -> kadd_w k (repeat 0%N n) = k.
Proof.
  unfold kadd_w. intros n k [L B]. subst n. induction k as [|x k IH]; [reflexivity|].
  inversion B; subst. simpl. rewrite uadd_0_r by assumption. rewrite IH by assumption. reflexivity.
Qed.
Lemma kadd_w_zeros_l : forall n k, key_ok n k -> kadd_w (repeat 0%N n) k = k.
Proof. intros. rewrite kadd_w_comm. apply kadd_w_zeros_r. assumption. Qed.
Lemma kadd_w_ok : forall n a b, length a = n -> length b = n -> key_ok n (kadd_w a b).
Proof.
  unfold kadd_w. intros n a. revert n. induction a as [|x a IH]; intros n b La Lb.
  - simpl in *. subst. split; [reflexivity|constructor].
  - destruct b as [|y b]; [simpl in *; lia|]. simpl in *. destruct n as [|n]; [lia|].
    destruct (IH n b) as [L B]; [lia|lia|]. split; [simpl; lia|]. constructor; [apply uadd_lt|assumption].
Qed.
Lemma zeros_ok : forall n, key_ok n (repeat 0%N n).
Proof.
  intros n. split; [apply repeat_length|]. apply Forall_forall. intros e He. apply repeat_spec in He. subst. reflexivity.
Qed.

Lemma vadd_spec : forall n i a b la lb, length a = n -> length b = n ->
  vadd n i a b la lb = Ok (kadd_w a b).
Proof.
  unfold kadd_w. induction n as [|n IH]; intros i a b la lb La Lb.
  - destruct a; [|discriminate]. destruct b; [|discriminate]. reflexivity.
  - destruct a as [|x a]; [discriminate|]. destruct b as [|y b]; [discriminate|].
    simpl. rewrite IH by (simpl in *; lia). reflexivity.
Qed.

(* ---------------------------------------------------------------- products of formal sums *)
Lemma sumL_t_scale : forall f ka ca B g,
  sumL (t_scale f ka ca B) g = ca * sumL B (fun kb => g (kadd f ka kb)).
Proof.
  intros f ka ca. induction B as [|[kb cb] B IH]; intros g; simpl; [ring|].
  unfold t_scale in IH. rewrite IH. ring.
Qed.
Lemma sumL_t_mul : forall f A B g,
  sumL (t_mul f A B) g = sumL A (fun ka => sumL B (fun kb => g (kadd f ka kb))).
Proof.
  intros f. induction A as [|[ka ca] A IH]; intros B g; simpl; [reflexivity|].
  rewrite sumL_app, sumL_t_scale, IH. reflexivity.
Qed.

Lemma t_mul_peq : forall f A A' B B', peq A A' -> peq B B' -> peq (t_mul f A B) (t_mul f A' B').
Proof.
  intros f A A' B B' HA HB m. unfold coeffL. rewrite !sumL_t_mul.
  rewrite (sumL_peq A A' _ HA). apply sumL_ext. intros ka. apply sumL_peq. assumption.
Qed.
Lemma t_mul_assoc_w : forall A B C, peq (t_mul uadd (t_mul uadd A B) C) (t_mul uadd A (t_mul uadd B C)).
Proof.
  intros A B C m. unfold coeffL. rewrite !sumL_t_mul.
  apply sumL_ext. intros ka. rewrite sumL_t_mul. apply sumL_ext. intros kb. apply sumL_ext. intros kc.
  fold kadd_w. rewrite kadd_w_assoc. reflexivity.
Qed.
Lemma t_mul_nil_r : forall f A, t_mul f A [] = [].
Proof. intros f. induction A as [|[ka ca] A IH]; simpl; [reflexivity|]. assumption. Qed.

Notation keys_ok n L := (Forall (fun p : mono * Z => key_ok n (fst p)) L).

Lemma t_mul_one_l : forall n B, keys_ok n B -> t_mul uadd [(repeat 0%N n, 1)] B = B.
Proof.
  intros n B H. cbn [t_mul]. rewrite app_nil_r. unfold t_scale.
  rewrite <- (map_id B) at 2. apply map_ext_in. intros [k c] Hp.
  rewrite Forall_forall in H. specialize (H _ Hp). cbn [fst snd] in *. fold kadd_w.
  rewrite kadd_w_zeros_l by assumption. unfold id. f_equal. apply Z.mul_1_l.
Qed.
Lemma t_mul_const_r : forall n A cb, keys_ok n A ->
  t_mul uadd A [(repeat 0%N n, cb)] = map (fun p => (fst p, snd p * cb)) A.
Proof.
  intros n. induction A as [|[ka ca] A IH]; intros cb H; [reflexivity|].
  inversion H; subst. cbn [fst snd] in *. cbn [t_mul t_scale map app fst snd]. fold kadd_w.
  rewrite kadd_w_zeros_r by assumption. rewrite IH by assumption. reflexivity.
Qed.
Lemma t_mul_one_r : forall n A, keys_ok n A -> t_mul uadd A [(repeat 0%N n, 1)] = A.
Proof.
  intros n A H. rewrite (t_mul_const_r n) by assumption. rewrite <- (map_id A) at 2.
  apply map_ext. intros [k c]. cbn [fst snd]. unfold id. f_equal. apply Z.mul_1_r.
Qed.
Lemma t_mul_keys_ok : forall n A B, keys_ok n A -> keys_ok n B -> keys_ok n (t_mul uadd A B).
Proof.
  intros n. induction A as [|[ka ca] A IH]; intros B HA HB; simpl; [constructor|].
  inversion HA; subst. apply Forall_app. split; [|apply IH; assumption].
  unfold t_scale. apply Forall_forall. intros p Hp. apply in_map_iff in Hp as [[kb cb] [<- Hq]].
  rewrite Forall_forall in HB. specialize (HB _ Hq). simpl in *. fold kadd_w.
  apply kadd_w_ok; [apply H1|apply HB].
Qed.

(* ---------------------------------------------------------------- UDictWrapper::mul *)
Lemma mul_acc_spec : forall n p t c, NoDup (map fst p) -> keys_ok n p -> key_ok n t ->
  NoDup (map fst (mul_acc p t c)) /\ keys_ok n (mul_acc p t c) /\
  forall m, coeff (mul_acc p t c) m = coeff p m + c * ind t m.
Proof.
  intros n p t c ND HK Ht. unfold mul_acc. destruct (dfind t p) as [v|] eqn:F.
  - split; [rewrite keys_dupd; assumption|]. split; [apply Forall_dupd; assumption|].
    intros m. unfold coeff. rewrite dfind_dupd. unfold ind. rewrite (mono_eqb_sym t m).
    destruct (mono_eqb m t) eqn:E; [|lia]. apply mono_eqb_eq in E. subst. rewrite F. lia.
  - split; [simpl; constructor; [apply dfind_none_notin; assumption|assumption]|].
    split; [constructor; assumption|].
    intros m. rewrite coeff_cons. unfold ind. rewrite (mono_eqb_sym t m).
    destruct (mono_eqb m t) eqn:E; [|lia]. apply mono_eqb_eq in E. subst. unfold coeff. rewrite F. lia.
Qed.

Lemma mul_row_spec : forall n vs ka ca bd p, N.to_nat vs = n -> key_ok n ka -> keys_ok n bd ->
  NoDup (map fst p) -> keys_ok n p ->
  exists p', mul_row vs ka ca bd p = Ok p' /\ NoDup (map fst p') /\ keys_ok n p' /\
    forall m, coeff p' m = coeff p m + coeffL (t_scale uadd ka ca bd) m.
Proof.
  intros n vs ka ca bd. induction bd as [|[kb cb] bd IH]; intros p Hvs Hka Hbd ND HK.
  - exists p. simpl. repeat split; try assumption. intros m. rewrite coeffL_nil. ring.
  - inversion Hbd as [|? ? Hkb Hbd']; subst. simpl in Hkb.
    simpl mul_row. rewrite vadd_spec by (apply Hka || apply Hkb). simpl bind.
    destruct (mul_acc_spec (N.to_nat vs) p (kadd_w ka kb) (ca * cb) ND HK) as [ND1 [HK1 C1]];
      [apply kadd_w_ok; [apply Hka|apply Hkb]|].
    destruct (IH _ eq_refl Hka Hbd' ND1 HK1) as [p' [E [ND' [HK' C']]]].
    exists p'. split; [assumption|]. split; [assumption|]. split; [assumption|].
    intros m. rewrite C', C1. simpl t_scale. rewrite coeffL_cons. fold kadd_w. unfold t_scale. ring.
Qed.

Lemma mul_rows_spec : forall n vs ad bd p, N.to_nat vs = n -> keys_ok n ad -> keys_ok n bd ->
  NoDup (map fst p) -> keys_ok n p ->
  exists p', mul_rows vs ad bd p = Ok p' /\ NoDup (map fst p') /\ keys_ok n p' /\
    forall m, coeff p' m = coeff p m + coeffL (t_mul uadd ad bd) m.
Proof.
  intros n vs ad bd. induction ad as [|[ka ca] ad IH]; intros p Hvs Had Hbd ND HK.
  - exists p. simpl. repeat split; try assumption. intros m. rewrite coeffL_nil. ring.
  - inversion Had as [|? ? Hka Had']; subst. simpl in Hka.
    simpl mul_rows.
    destruct (mul_row_spec _ vs ka ca bd p eq_refl Hka Hbd ND HK) as [p1 [E1 [ND1 [HK1 C1]]]].
    rewrite E1. simpl bind.
    destruct (IH p1 eq_refl Had' Hbd ND1 HK1) as [p' [E [ND' [HK' C']]]].
    exists p'. split; [assumption|]. split; [assumption|]. split; [assumption|].
    intros m. rewrite C', C1. simpl t_mul. rewrite coeffL_app. ring.
Qed.

Lemma cont_ok_keys : forall c, cont_ok c -> keys_ok (N.to_nat (csize c)) (cdict c).
Proof. intros c [_ H]. eapply Forall_impl; [|exact H]. intros p [K _]. exact K. Qed.

Theorem cmul_spec : forall a b, cont_ok a -> cont_ok b -> csize a = csize b ->
  exists r, cmul a b = Ok r /\ cont_ok r /\ csize r = csize a /\
    forall m, coeff (cdict r) m = coeffL (t_mul uadd (cdict a) (cdict b)) m.
Proof.
  intros a b Ha Hb E. unfold cmul.
  destruct (mul_rows_spec _ (csize a) (cdict a) (cdict b) [] eq_refl (cont_ok_keys a Ha)) as [p [Ep [ND [HK C]]]].
  - rewrite E. apply cont_ok_keys. assumption.
  - constructor.
  - constructor.
  - rewrite Ep. simpl bind. eexists. split; [reflexivity|]. split; [|split; [reflexivity|]].
    + unfold cont_ok. simpl. split; [apply NoDup_dnz; assumption|]. apply (Forall_dnz _ _ HK).
    + intros m. simpl. rewrite coeff_dnz by assumption. rewrite C. unfold coeff. simpl. ring.
Qed.

(* operator*= : same result as mul, through its shortcuts *)
Theorem cmul_assign_spec : forall a b, cont_ok a -> cont_ok b -> csize a = csize b ->
  exists r, cmul_assign a b = Ok r /\ cont_ok r /\ csize r = csize a /\
    forall m, coeff (cdict r) m = coeffL (t_mul uadd (cdict a) (cdict b)) m.
Proof.
  intros a b Ha Hb E. unfold cmul_assign.
  destruct (cdict a) as [|pa ra] eqn:Da.
  - exists a. split; [reflexivity|]. split; [assumption|]. split; [reflexivity|].
    intros m. rewrite Da. reflexivity.
  - rewrite <- Da. clear Da pa ra.
    destruct (cdict b) as [|[kb cb] rb] eqn:Db.
    + eexists. split; [reflexivity|]. split; [split; constructor|]. split; [reflexivity|].
      intros m. rewrite t_mul_nil_r. reflexivity.
    + destruct ((match rb with [] => true | _ :: _ => false end)
                && (match dfind (zeros (csize a)) ((kb, cb) :: rb) with Some _ => true | None => false end)) eqn:Sc.
      * apply andb_prop in Sc as [S1 S2]. destruct rb; [|discriminate].
        simpl in S2. destruct (mono_eqb (zeros (csize a)) kb) eqn:Ez; [|discriminate].
        apply mono_eqb_eq in Ez. subst kb.
        destruct Ha as [NDa Fa]. destruct Hb as [NDb Fb]. rewrite Db in *.
        inversion Fb as [|? ? [_ Hcb] _]; subst. simpl in Hcb.
        eexists. split; [reflexivity|]. split; [|split; [reflexivity|]].
        -- unfold cont_ok. simpl cdict. simpl csize. split; [rewrite keys_scale; assumption|].
           apply Forall_forall. intros p Hp. apply in_map_iff in Hp as [[k c] [<- Hq]]. simpl.
           rewrite Forall_forall in Fa. destruct (Fa _ Hq) as [Hk Hc]. simpl in *. split; [assumption|nia].
        -- intros m. simpl cdict. unfold zeros.
           rewrite (t_mul_const_r (N.to_nat (csize a)))
             by (eapply Forall_impl; [|exact Fa]; intros p [K _]; exact K).
           rewrite <- coeff_coeffL by (rewrite keys_scale; assumption). reflexivity.
      * destruct (cmul_spec a b Ha Hb E) as [r [Er [Okr [Sr Cr]]]].
        rewrite <- Db. rewrite Er. simpl bind. eexists. split; [reflexivity|].
        split; [|split; [reflexivity|]].
        -- unfold cont_ok in *. simpl. rewrite <- Sr. assumption.
        -- intros m. simpl. rewrite Cr. reflexivity.
Qed.
