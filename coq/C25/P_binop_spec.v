(* C25 obligation: csr_binop_csr_canonical (add, subtract, elementwise product: any f with f 0 0 = 0) on canonical operands of equal shape: canonical result, pointwise semantics. *)
From SE Require Import C25.CsrInst.
Local Open Scope N_scope.
Theorem C25_binop_spec :
  forall (E : Type) (Ops : eops E) (f : E -> E -> E),
    f (ezero Ops) (ezero Ops) = ezero Ops -> zero_test_sound Ops ->
    forall A B C : csr E,
      Inv A -> Inv B -> crow B = crow A -> ccol B = ccol A ->
      lenN (cp C) = crow A + 1 -> crow C = crow A -> ccol C = ccol A ->
      exists R : csr E,
        binop Ops f A B C = Ok R /\ Inv R /\ crow R = crow A /\ ccol R = ccol A /\
        (forall i c : N, i < crow A -> entry Ops R i c = f (entry Ops A i c) (entry Ops B i c)).
Proof. exact @binop_spec. Qed.
Print Assumptions C25_binop_spec.
