(* C25 -- csr_matmat, part 4: the two passes under the SciPy protocol compute the dense
   matrix product, in canonical format.
   Files: CsrMatmat1.v (generic lemmas, algebra), CsrMatmat2.v (pass 1), CsrMatmat3.v (pass 2),
   this file (the protocol [matmat]). *)
From SE Require Export C25.CsrMatmat3.
Local Open Scope N_scope.
Local Open Scope res_scope.

Section Matmat.
Context {E : Type}.
Variable Ops : eops E.
Notation zero := (ezero Ops).

Lemma lookup_em_of (D : list N) (h : N -> E) k :
  lookup Ops k (em_of Ops D h) =
  if memN k D && negb (eis_zero Ops (h k)) then h k else zero.
Proof.
  induction D as [|a D IH]; [reflexivity|].
  rewrite em_of_cons. unfold memN in *. cbn [existsb].
  destruct (eis_zero Ops (h a)) eqn:Hz; cbn [negb].
  - rewrite IH. destruct (N.eqb_spec k a) as [->|]; cbn [orb]; [|reflexivity].
    rewrite Hz. cbn [negb]. rewrite !andb_false_r. reflexivity.
  - rewrite lookup_cons. cbn [fst snd].
    destruct (N.eqb_spec a k) as [->|Hne].
    + rewrite N.eqb_refl, Hz. reflexivity.
    + destruct (N.eqb_spec k a); [congruence|]. cbn [orb]. exact IH.
Qed.

(* ---------- rows up to a permutation ---------- *)
Lemma resizeN_id {X} (l : list X) n d : n = lenN l -> resizeN l n d = l.
Proof.
  intros ->. unfold resizeN, lenN. rewrite Nat2N.id, firstn_all, Nat.sub_diag.
  cbn [repeat]. apply app_nil_r.
Qed.

Lemma srt_le_lt (l : list (N * E)) : srt N.le l -> NoDup (map fst l) -> srt N.lt l.
Proof.
  induction l as [|a l IH]; cbn [srt map]; [auto|].
  intros (H1 & H2) Hn. inversion Hn as [|? ? Hni Hn']; subst.
  split; [|apply IH; assumption].
  intros b Hb. specialize (H1 b Hb).
  assert (fst a <> fst b) by (intros He; apply Hni; rewrite He; apply in_map; assumption).
  lia.
Qed.

Lemma lookup_perm (l l' : list (N * E)) k :
  Permutation l l' -> NoDup (map fst l) -> lookup Ops k l = lookup Ops k l'.
Proof.
  induction 1 as [|x l l' Hp IH|x y l|l l' l'' Hp1 IH1 Hp2 IH2]; intros Hn.
  - reflexivity.
  - rewrite !lookup_cons. cbn [map] in Hn. inversion Hn; subst.
    destruct (fst x =? k); [reflexivity|]. apply IH; assumption.
  - rewrite !lookup_cons. cbn [map] in Hn. inversion Hn as [|? ? Hni _]; subst.
    destruct (N.eqb_spec (fst y) k) as [Hy|]; destruct (N.eqb_spec (fst x) k) as [Hx|]; try reflexivity.
    exfalso. apply Hni. left. congruence.
  - rewrite IH1 by assumption. apply IH2.
    apply (Permutation_NoDup (Permutation_map fst Hp1)). assumption.
Qed.

Lemma wf_locate (m : csr E) k : @wf E m -> k < lenN (cj m) ->
  exists r, r < crow m /\ pN m r <= k /\ k < pN m (r + 1).
Proof.
  intros (_ & H0 & Hm & Hn & _) Hk. rewrite <- Hn in Hk.
  assert (H : forall n, n <= crow m -> k < pN m n -> exists r, r < n /\ pN m r <= k /\ k < pN m (r + 1)).
  { induction n using N.peano_ind; intros Hle Hlt; [lia|].
    replace (N.succ n) with (n + 1) in * by lia.
    destruct (N.lt_ge_cases k (pN m n)) as [Hl|Hg].
    - destruct (IHn ltac:(lia) Hl) as (r & R1 & R2 & R3). exists r. repeat split; [lia|assumption|assumption].
    - exists n. repeat split; [lia|assumption|assumption]. }
  apply (H (crow m)); [lia|assumption].
Qed.

Section Fixed.
Variables A B : csr E.
Hypothesis Hsr : semiring Ops.
Hypothesis Hzt : zero_test_sound Ops.
Hypothesis HA : @Inv E A.
Hypothesis HB : @Inv E B.
Hypothesis Hd : ccol A = crow B.
Hypothesis Hsz : crow A * ccol B < 2 ^ 31.
Notation items := (items Ops A B).
Notation em := (em Ops A B).
Notation psum := (psum Ops A B).
Notation psum2 := (psum2 Ops A B).
Notation cnt2 := (cnt2 Ops A B).

(* the value the product row i holds for column k *)
Lemma lookup_em i k : lookup Ops k (em i) = csum Ops k (items i).
Proof.
  unfold CsrMatmat3.em. rewrite lookup_em_of.
  destruct (memN k (disc (map fst (items i)))) eqn:Hm; cbn [andb].
  - destruct (eis_zero Ops (csum Ops k (items i))) eqn:Hz; cbn [negb]; [|reflexivity].
    symmetry. apply Hzt. exact Hz.
  - symmetry. apply csum_notin. apply memN_false in Hm. rewrite disc_in in Hm. exact Hm.
Qed.

Lemma em_nodup i : NoDup (map fst (em i)).
Proof. unfold CsrMatmat3.em. rewrite em_of_fst. apply NoDup_filter, disc_nodup. Qed.

Lemma em_col_lt i x : i < crow A -> In x (em i) -> fst x < ccol B.
Proof.
  intros Hi Hx. unfold CsrMatmat3.em in Hx. apply em_of_in in Hx. rewrite disc_in in Hx.
  apply (items_col_lt Ops A B i); assumption.
Qed.

Theorem matmat_aux :
  exists C, matmat Ops A B = Ok C /\ crow C = crow A /\ ccol C = ccol B /\ @wf E C /\
    (forall i, i < crow A -> Permutation (row_of Ops C i) (em i) /\ srt N.le (row_of Ops C i)).
Proof.
  unfold matmat.
  pose proof (rowA_small A HA) as Hrow.
  assert (Hl0 : lenN (cp (mk_zero (E:=E) (crow A) (ccol B))) = crow A + 1).
  { unfold mk_zero. cbn [cp]. rewrite lenN_repeat, uadd_small by lia. lia. }
  destruct (pass1_spec Ops A B HA HB Hd Hsz _ Hl0) as (p1 & Hrun1 & Hl1 & Hp1).
  rewrite Hrun1. cbn [bind cp cj cx crow ccol mk_zero].
  rewrite (getN_ok p1 (crow A) 0) by lia. cbn [bind].
  rewrite (Hp1 (crow A)) by lia.
  match goal with |- context [matmat_pass2 Ops A B ?C1] =>
    destruct (pass2_spec Ops Hsr A B HA HB Hd Hsz C1)
      as (p2 & j2 & x2 & Hrun2 & Hl2 & Lj & Lx & Hp2 & Hrows) end.
  { cbn [cp]. exact Hl1. }
  { cbn [cj]. apply lenN_resizeN. }
  { cbn [cx]. apply lenN_resizeN. }
  rewrite Hrun2. cbn [bind cp cj cx crow ccol].
  rewrite (getN_ok p2 (crow A) 0) by lia. cbn [bind].
  rewrite (Hp2 (crow A)) by lia.
  rewrite (resizeN_id j2) by (symmetry; exact Lj).
  rewrite (resizeN_id x2) by (symmetry; exact Lx).
  eexists. split; [reflexivity|]. split; [reflexivity|]. split; [reflexivity|]. split.
  - (* wf *)
    unfold wf, pN. cbn [cp cj cx crow ccol]. split; [exact Hl2|].
    split; [rewrite Hp2 by lia; reflexivity|].
    split; [|split].
    + intros i Hi. rewrite !Hp2 by lia. rewrite psum2_succ. lia.
    + rewrite Hp2 by lia. symmetry. exact Lj.
    + lia.
  - (* rows *)
    intros i Hi. rewrite row_of_seg. unfold pN. cbn [cp cj cx]. rewrite !Hp2 by lia.
    apply Hrows. exact Hi.
Qed.

End Fixed.

Theorem matmat_spec (A B : csr E) :
  semiring Ops -> zero_test_sound Ops ->
  @Inv E A -> @Inv E B -> ccol A = crow B -> crow A * ccol B < 2 ^ 31 ->
  exists C, matmat Ops A B = Ok C /\ crow C = crow A /\ ccol C = ccol B /\ @Inv E C /\
    forall i k, i < crow A -> k < ccol B ->
      entry Ops C i k = dsum Ops (ccol A) (fun j => emul Ops (entry Ops A i j) (entry Ops B j k)).
Proof.
  intros Hsr Hzt HA HB Hd Hsz.
  destruct (matmat_aux A B Hsr HA HB Hd Hsz) as (C & Hrun & Hr & Hc & Hwf & Hrows).
  assert (Hnd : forall i, i < crow A -> NoDup (map fst (row_of Ops C i))).
  { intros i Hi. destruct (Hrows i Hi) as (P & _).
    apply (Permutation_NoDup (Permutation_sym (Permutation_map fst P))). apply em_nodup. }
  exists C. split; [exact Hrun|]. split; [exact Hr|]. split; [exact Hc|]. split.
  - split; [split; [exact Hwf|]|split].
    + intros i Hi. rewrite Hr in Hi. apply (row_sorted_srt Ops).
      apply srt_le_lt; [apply Hrows; assumption|apply Hnd; assumption].
    + intros k Hk. destruct (wf_locate C k Hwf Hk) as (r & R1 & R2 & R3). rewrite Hr in R1.
      destruct (Hrows r R1) as (P & _). rewrite Hc.
      apply (em_col_lt A B HA HB Hd r (nthN (cj C) k 0, nthN (cx C) k zero) R1).
      apply (Permutation_in _ P). rewrite row_of_seg. apply in_segN. exists k. auto.
    + unfold dims_ok. rewrite Hr, Hc. split; [apply (rowA_small A HA)|].
      split; [apply (colB_small B HB)|exact Hsz].
  - intros i k Hi Hk. unfold entry at 1. destruct (Hrows i Hi) as (P & _).
    rewrite (lookup_perm _ _ k P (Hnd i Hi)).
    rewrite (lookup_em A B Hzt). apply csum_items; assumption.
Qed.

End Matmat.

Print Assumptions matmat_spec.
