(* C25 -- csr_matmat, part 4: the two passes under the SciPy protocol compute the dense
   matrix product (under the guard  B.col_ <= A.col_ ).
   Files: CsrMatmat1.v (generic lemmas, algebra), CsrMatmat2.v (pass 1), CsrMatmat3.v (pass 2),
   this file (the protocol [matmat]). *)
From SE Require Export C25.CsrProofs.
From SE Require Export C25.CsrMatmat3.
Local Open Scope N_scope.
Local Open Scope res_scope.

Section Matmat.
Context {E : Type}.
Variable Ops : eops E.
Notation zero := (ezero Ops).

Lemma lookup_em_of (D : list N) (h : N -> E) k :
  lookup Ops k (em_of Ops D h) =
  if memN k D && negb (eis_zero Ops (h k)) then h k else zero.
Proof.
  induction D as [|a D IH]; [reflexivity|].
  rewrite em_of_cons. unfold memN in *. cbn [existsb].
  destruct (eis_zero Ops (h a)) eqn:Hz; cbn [negb].
  - rewrite IH. destruct (N.eqb_spec k a) as [->|]; cbn [orb]; [|reflexivity].
    rewrite Hz. cbn [negb]. rewrite !andb_false_r. reflexivity.
  - rewrite lookup_cons. cbn [fst snd].
    destruct (N.eqb_spec a k) as [->|Hne].
    + rewrite N.eqb_refl, Hz. reflexivity.
    + destruct (N.eqb_spec k a); [congruence|]. cbn [orb]. exact IH.
Qed.

Section Fixed.
Variables A B : csr E.
Hypothesis Hsr : semiring Ops.
Hypothesis Hzt : zero_test_sound Ops.
Hypothesis HA : @Inv E A.
Hypothesis HB : @Inv E B.
Hypothesis Hd : ccol A = crow B.
Hypothesis Hg : ccol B <= ccol A.
Hypothesis Hsz : crow A * ccol B < 2 ^ 31.
Notation items := (items Ops A B).
Notation em := (em Ops A B).
Notation psum := (psum Ops A B).
Notation psum2 := (psum2 Ops A B).
Notation cnt2 := (cnt2 Ops A B).

(* the value the product row i holds for column k *)
Lemma lookup_em i k : lookup Ops k (em i) = csum Ops k (items i).
Proof.
  unfold CsrMatmat3.em. rewrite lookup_em_of.
  destruct (memN k (disc (map fst (items i)))) eqn:Hm; cbn [andb].
  - destruct (eis_zero Ops (csum Ops k (items i))) eqn:Hz; cbn [negb]; [|reflexivity].
    symmetry. apply Hzt. exact Hz.
  - symmetry. apply csum_notin. apply memN_false in Hm. rewrite disc_in in Hm. exact Hm.
Qed.

Lemma em_nodup i : NoDup (map fst (em i)).
Proof. unfold CsrMatmat3.em. rewrite em_of_fst. apply NoDup_filter, disc_nodup. Qed.

Theorem matmat_guarded_aux :
  exists C, matmat Ops A B = Ok C /\ crow C = crow A /\ ccol C = ccol B /\ @wf E C /\ @cols_ok E C /\
    (forall i, i < crow A -> row_of Ops C i = em i).
Proof.
  unfold matmat.
  pose proof (rowA_small A HA) as Hrow.
  assert (Hl0 : lenN (cp (mk_zero (E:=E) (crow A) (ccol B))) = crow A + 1).
  { unfold mk_zero. cbn [cp]. rewrite lenN_repeat, uadd_small by lia. lia. }
  destruct (pass1_spec Ops A B HA HB Hd Hg Hsz _ Hl0) as (p1 & Hrun1 & Hl1 & Hp1).
  rewrite Hrun1. cbn [bind cp cj cx crow ccol mk_zero].
  rewrite (getN_ok p1 (crow A) 0) by lia. cbn [bind].
  rewrite (Hp1 (crow A)) by lia.
  match goal with |- context [matmat_pass2 Ops A B ?C1] =>
    destruct (pass2_spec Ops Hsr A B HA HB Hd Hg Hsz C1)
      as (p2 & oj & ox & Hrun2 & Hl2 & Hlj & Hlx & Hp2 & Hcols & Hrows) end.
  { cbn [cp]. exact Hl1. }
  { cbn [cj]. apply lenN_resizeN. }
  { cbn [cx]. apply lenN_resizeN. }
  rewrite Hrun2. cbn [bind cp cj cx crow ccol].
  rewrite (getN_ok p2 (crow A) 0) by lia. cbn [bind].
  rewrite (Hp2 (crow A)) by lia.
  set (n2 := psum2 (crow A)).
  assert (Hn2 : n2 <= psum (crow A)) by (apply psum2_le; assumption).
  assert (HpC : forall r, r <= crow A ->
            pN (Build_csr p2 (resizeN oj n2 0) (resizeN ox n2 zero) (crow A) (ccol B)) r = psum2 r).
  { intros r Hr. unfold pN. cbn [cp]. apply Hp2. exact Hr. }
  eexists. split; [reflexivity|]. split; [reflexivity|]. split; [reflexivity|].
  split; [|split].
  - (* wf *)
    unfold wf. cbn [cp cj cx crow ccol]. split; [exact Hl2|].
    split; [rewrite HpC by lia; reflexivity|].
    split; [|split].
    + intros i Hi. rewrite !HpC by lia. rewrite psum2_succ. lia.
    + rewrite HpC by lia. rewrite lenN_resizeN. reflexivity.
    + rewrite !lenN_resizeN. reflexivity.
  - (* cols_ok *)
    unfold cols_ok. cbn [cj ccol]. rewrite lenN_resizeN. intros k Hk.
    rewrite nthN_resizeN by lia. apply Hcols. exact Hk.
  - (* rows *)
    intros i Hi. unfold row_of. rewrite !HpC by lia. cbn [cj cx].
    rewrite psum2_succ. replace (psum2 i + cnt2 i - psum2 i) with (cnt2 i) by lia.
    unfold CsrMatmat3.cnt2. rewrite lenN_nat.
    apply (map_Nseq_eq _ _ _ (0, zero)).
    intros t Ht.
    assert (Hlt : psum2 i + N.of_nat t < n2).
    { pose proof (psum2_succ Ops A B i). pose proof (psum2_mono Ops A B (i + 1) (crow A) ltac:(lia)).
      unfold CsrMatmat3.cnt2, lenN, n2 in *. lia. }
    rewrite !nthN_resizeN by lia.
    destruct (Hrows i t Hi Ht) as (-> & ->). symmetry. apply surjective_pairing.
Qed.

End Fixed.

Theorem matmat_guarded (A B : csr E) :
  semiring Ops -> zero_test_sound Ops ->
  @Inv E A -> @Inv E B -> ccol A = crow B ->
  ccol B <= ccol A ->                 (* the guard: the temporaries mask/next/sums have A.col_ entries but are indexed by columns of B *)
  crow A * ccol B < 2 ^ 31 ->
  exists C, matmat Ops A B = Ok C /\ crow C = crow A /\ ccol C = ccol B /\ @wf E C /\ @cols_ok E C /\
    (forall i, i < crow A -> NoDup (map fst (row_of Ops C i))) /\
    forall i k, i < crow A -> k < ccol B ->
      entry Ops C i k = dsum Ops (ccol A) (fun j => emul Ops (entry Ops A i j) (entry Ops B j k)).
Proof.
  intros Hsr Hzt HA HB Hd Hg Hsz.
  destruct (matmat_guarded_aux A B Hsr HA HB Hd Hg Hsz) as (C & Hrun & Hr & Hc & Hwf & Hcols & Hrows).
  exists C. split; [exact Hrun|]. split; [exact Hr|]. split; [exact Hc|]. split; [exact Hwf|].
  split; [exact Hcols|]. split.
  - intros i Hi. rewrite (Hrows i Hi). apply em_nodup.
  - intros i k Hi Hk. unfold entry at 1. rewrite (Hrows i Hi).
    rewrite (lookup_em A B Hzt). apply csum_items; assumption.
Qed.

End Matmat.

Print Assumptions matmat_guarded.
