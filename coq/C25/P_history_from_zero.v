(* C25 obligation: the same for every history that starts from the constructor CSRMatrix(row, col), against the all-zero dense matrix. *)
From SE Require Import C25.CsrInst.
Local Open Scope N_scope.
Theorem C25_history_from_zero :
  forall (E : Type) (Ops : eops E),
    zero_test_sound Ops ->
    forall (row col : N) (ops : list hop),
      row < 2 ^ 31 -> col < 2 ^ 31 -> row * col < 2 ^ 31 ->
      Forall (hop_in_range row col) ops ->
      hist_ok Ops row col (fun _ _ => ezero Ops) ops (hrun Ops (mk_zero row col) ops).
Proof. exact @history_from_zero. Qed.
Print Assumptions C25_history_from_zero.
