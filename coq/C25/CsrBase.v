(* C25 -- generic lemmas: checked vectors, 32-bit arithmetic without wrap, for-loops,
   rows of a CSR triple. *)
From SE Require Export C25.CsrSpec.
From Coq Require Export Lia ZifyBool ZifyNat ZifyN.
Local Open Scope N_scope.
Local Open Scope res_scope.

Ltac Zify.zify_post_hook ::= Z.div_mod_to_equations.

(* ---------- 32-bit arithmetic ---------- *)
Lemma uadd_small a b : a + b < 4294967296 -> uadd a b = a + b.
Proof. intros; unfold uadd, W32; apply N.mod_small; lia. Qed.

Lemma usub_small a b : b <= a -> a < 4294967296 -> usub a b = a - b.
Proof.
  intros; unfold usub, W32.
  rewrite (N.mod_small b) by lia.
  replace (a + 4294967296 - b) with ((a - b) + 1 * 4294967296) by lia.
  rewrite N.mod_add by lia. apply N.mod_small; lia.
Qed.

Lemma u32_small a : a < 4294967296 -> u32 a = a.
Proof. intros; unfold u32, W32; apply N.mod_small; lia. Qed.

(* ---------- nth / update ---------- *)
Definition updn {A} (n : nat) (l : list A) (a : A) : list A := firstn n l ++ a :: skipn (S n) l.
Definition insn {A} (n : nat) (l : list A) (a : A) : list A := firstn n l ++ a :: skipn n l.
Definition deln {A} (n : nat) (l : list A) : list A := firstn n l ++ skipn (S n) l.

Lemma lenN_nat {A} (l : list A) : N.to_nat (lenN l) = length l.
Proof. unfold lenN; lia. Qed.

Lemma nth_skipn' {A} n (l : list A) k d : nth k (skipn n l) d = nth (n + k) l d.
Proof.
  revert l; induction n; intros; [reflexivity|].
  destruct l; cbn [skipn Nat.add nth]; [destruct k; reflexivity|]. apply IHn.
Qed.

Lemma nth_firstn' {A} n (l : list A) k d : (k < n)%nat -> nth k (firstn n l) d = nth k l d.
Proof.
  revert l k; induction n; intros; [lia|].
  destruct l; cbn [firstn nth]; [reflexivity|]. destruct k; [reflexivity|]. apply IHn; lia.
Qed.

Lemma length_updn {A} n (l : list A) a : (n < length l)%nat -> length (updn n l a) = length l.
Proof.
  intros; unfold updn. rewrite app_length, firstn_length; cbn [length]. rewrite skipn_length. lia.
Qed.

Lemma nth_updn {A} n (l : list A) a k d : (n < length l)%nat ->
  nth k (updn n l a) d = if Nat.eqb k n then a else nth k l d.
Proof.
  intros; unfold updn.
  destruct (Nat.eqb_spec k n) as [->|Hne].
  - rewrite app_nth2; rewrite firstn_length; [|lia].
    replace (n - Nat.min n (length l))%nat with 0%nat by lia. reflexivity.
  - destruct (Nat.lt_ge_cases k n).
    + rewrite app_nth1 by (rewrite firstn_length; lia). apply nth_firstn'; assumption.
    + rewrite app_nth2 by (rewrite firstn_length; lia). rewrite firstn_length.
      replace (k - Nat.min n (length l))%nat with (S (k - S n)) by lia. cbn [nth].
      rewrite nth_skipn'. f_equal; lia.
Qed.

Lemma length_insn {A} n (l : list A) a : (n <= length l)%nat -> length (insn n l a) = S (length l).
Proof.
  intros; unfold insn. rewrite app_length, firstn_length; cbn [length]. rewrite skipn_length. lia.
Qed.

Lemma nth_insn {A} n (l : list A) a k d : (n <= length l)%nat ->
  nth k (insn n l a) d = if Nat.ltb k n then nth k l d else if Nat.eqb k n then a else nth (k - 1) l d.
Proof.
  intros; unfold insn.
  destruct (Nat.ltb_spec k n).
  - rewrite app_nth1 by (rewrite firstn_length; lia). apply nth_firstn'; assumption.
  - rewrite app_nth2 by (rewrite firstn_length; lia). rewrite firstn_length.
    destruct (Nat.eqb_spec k n) as [->|Hne].
    + replace (n - Nat.min n (length l))%nat with 0%nat by lia. reflexivity.
    + replace (k - Nat.min n (length l))%nat with (S (k - S n)) by lia. cbn [nth].
      rewrite nth_skipn'. f_equal; lia.
Qed.

Lemma length_deln {A} n (l : list A) : (n < length l)%nat -> length (deln n l) = (length l - 1)%nat.
Proof.
  intros; unfold deln. rewrite app_length, firstn_length, skipn_length. lia.
Qed.

Lemma nth_deln {A} n (l : list A) k d : (n < length l)%nat ->
  nth k (deln n l) d = if Nat.ltb k n then nth k l d else nth (S k) l d.
Proof.
  intros; unfold deln.
  destruct (Nat.ltb_spec k n).
  - rewrite app_nth1 by (rewrite firstn_length; lia). apply nth_firstn'; assumption.
  - rewrite app_nth2 by (rewrite firstn_length; lia). rewrite firstn_length.
    rewrite nth_skipn'. f_equal; lia.
Qed.

(* ---------- checked access ---------- *)
Lemma getN_ok {A} (l : list A) i d : i < lenN l -> getN l i = Ok (nthN l i d).
Proof.
  intros H; unfold getN, nthN.
  destruct (N.ltb_spec i (lenN l)); [|lia].
  destruct (nth_error l (N.to_nat i)) eqn:Hn.
  - f_equal. symmetry. apply nth_error_nth; assumption.
  - apply nth_error_None in Hn. unfold lenN in *; lia.
Qed.

Lemma getN_inv {A} (l : list A) i a d : getN l i = Ok a -> i < lenN l /\ a = nthN l i d.
Proof.
  intros H.
  destruct (N.ltb_spec i (lenN l)) as [Hlt|Hge].
  - split; [assumption|]. rewrite (getN_ok l i d Hlt) in H. injection H as <-. reflexivity.
  - unfold getN in H. destruct (N.ltb_spec i (lenN l)); [lia|discriminate].
Qed.

Lemma getN_oob {A} (l : list A) i : lenN l <= i -> getN l i = ErrOOB i (lenN l).
Proof. intros; unfold getN. destruct (N.ltb_spec i (lenN l)); [lia|reflexivity]. Qed.

Lemma setN_ok {A} (l : list A) i a : i < lenN l -> setN l i a = Ok (updn (N.to_nat i) l a).
Proof. intros; unfold setN. destruct (N.ltb_spec i (lenN l)); [reflexivity|lia]. Qed.

Lemma setN_inv {A} (l : list A) i a l' : setN l i a = Ok l' -> i < lenN l /\ l' = updn (N.to_nat i) l a.
Proof.
  unfold setN; intros H. destruct (N.ltb_spec i (lenN l)); [|discriminate].
  injection H as <-. auto.
Qed.

Lemma insertN_ok {A} (l : list A) i a : i <= lenN l -> insertN l i a = Ok (insn (N.to_nat i) l a).
Proof. intros; unfold insertN. destruct (N.leb_spec i (lenN l)); [reflexivity|lia]. Qed.

Lemma eraseN_ok {A} (l : list A) i : i < lenN l -> eraseN l i = Ok (deln (N.to_nat i) l).
Proof. intros; unfold eraseN. destruct (N.ltb_spec i (lenN l)); [reflexivity|lia]. Qed.

Lemma lenN_updn {A} i (l : list A) a : i < lenN l -> lenN (updn (N.to_nat i) l a) = lenN l.
Proof. intros; unfold lenN in *. rewrite length_updn by lia. reflexivity. Qed.

Lemma nthN_updn {A} i (l : list A) a k d : i < lenN l ->
  nthN (updn (N.to_nat i) l a) k d = if k =? i then a else nthN l k d.
Proof.
  intros; unfold nthN. rewrite nth_updn by (unfold lenN in *; lia).
  destruct (Nat.eqb_spec (N.to_nat k) (N.to_nat i)), (N.eqb_spec k i); try reflexivity; lia.
Qed.

Lemma lenN_insn {A} i (l : list A) a : i <= lenN l -> lenN (insn (N.to_nat i) l a) = lenN l + 1.
Proof. intros; unfold lenN in *. rewrite length_insn by lia. lia. Qed.

Lemma nthN_insn {A} i (l : list A) a k d : i <= lenN l ->
  nthN (insn (N.to_nat i) l a) k d = if k <? i then nthN l k d else if k =? i then a else nthN l (k - 1) d.
Proof.
  intros; unfold nthN. rewrite nth_insn by (unfold lenN in *; lia).
  destruct (Nat.ltb_spec (N.to_nat k) (N.to_nat i)), (N.ltb_spec k i); try lia; try reflexivity.
  destruct (Nat.eqb_spec (N.to_nat k) (N.to_nat i)), (N.eqb_spec k i); try lia; try reflexivity.
  f_equal; lia.
Qed.

Lemma lenN_deln {A} i (l : list A) : i < lenN l -> lenN (deln (N.to_nat i) l) = lenN l - 1.
Proof. intros; unfold lenN in *. rewrite length_deln by lia. lia. Qed.

Lemma nthN_deln {A} i (l : list A) k d : i < lenN l ->
  nthN (deln (N.to_nat i) l) k d = if k <? i then nthN l k d else nthN l (k + 1) d.
Proof.
  intros; unfold nthN. rewrite nth_deln by (unfold lenN in *; lia).
  destruct (Nat.ltb_spec (N.to_nat k) (N.to_nat i)), (N.ltb_spec k i); try lia; try reflexivity.
  f_equal; lia.
Qed.

Lemma nthN_overflow {A} (l : list A) k d : lenN l <= k -> nthN l k d = d.
Proof. intros; unfold nthN. apply nth_overflow. unfold lenN in *; lia. Qed.

Lemma nthN_repeat {A} (a : A) n k d : k < N.of_nat n -> nthN (repeat a n) k d = a.
Proof.
  intros; unfold nthN. apply nth_repeat_lt || idtac.
  revert k H. induction n; intros; [lia|].
  cbn [repeat]. destruct (N.to_nat k) eqn:Hk; cbn [nth]; [reflexivity|].
  specialize (IHn (N.of_nat n0)). rewrite Nat2N.id in IHn. apply IHn. lia.
Qed.

Lemma lenN_repeat {A} (a : A) n : lenN (repeat a n) = N.of_nat n.
Proof. unfold lenN. rewrite repeat_length. reflexivity. Qed.

Lemma lenN_app {A} (l1 l2 : list A) : lenN (l1 ++ l2) = lenN l1 + lenN l2.
Proof. unfold lenN. rewrite app_length. lia. Qed.

Lemma nthN_app1 {A} (l1 l2 : list A) k d : k < lenN l1 -> nthN (l1 ++ l2) k d = nthN l1 k d.
Proof. intros; unfold nthN. apply app_nth1. unfold lenN in *; lia. Qed.

Lemma nthN_app2 {A} (l1 l2 : list A) k d : lenN l1 <= k -> nthN (l1 ++ l2) k d = nthN l2 (k - lenN l1) d.
Proof.
  intros; unfold nthN. rewrite app_nth2 by (unfold lenN in *; lia). f_equal. unfold lenN in *; lia.
Qed.

(* ---------- bind ---------- *)
Lemma bind_Ok {A B} (r : res A) (f : A -> res B) b :
  bind r f = Ok b -> exists a, r = Ok a /\ f a = Ok b.
Proof. destruct r; cbn; intros; try discriminate. eauto. Qed.

(* ---------- for-loops ---------- *)
Lemma for_n_inv {St} (P : N -> St -> Prop) (body : N -> St -> res St) :
  forall n i s,
    P i s ->
    (forall k s, i <= k -> k < i + N.of_nat n -> P k s -> exists s', body k s = Ok s' /\ P (k + 1) s') ->
    exists s', for_n n i body s = Ok s' /\ P (i + N.of_nat n) s'.
Proof.
  induction n; intros i s H0 Hstep.
  - exists s. split; [reflexivity|]. replace (i + N.of_nat 0) with i by lia. assumption.
  - cbn [for_n]. destruct (Hstep i s) as (s1 & Hb & H1); [lia|lia|assumption|].
    rewrite Hb. cbn [bind].
    destruct (IHn (i + 1) s1 H1) as (s2 & Hf & H2).
    + intros k s' ? ? ?. apply Hstep; [lia|lia|assumption].
    + exists s2. split; [assumption|]. replace (i + N.of_nat (S n)) with (i + 1 + N.of_nat n) by lia. assumption.
Qed.

Lemma for_range_inv {St} (P : N -> St -> Prop) (body : N -> St -> res St) a b s :
  a <= b -> P a s ->
  (forall k s, a <= k -> k < b -> P k s -> exists s', body k s = Ok s' /\ P (k + 1) s') ->
  exists s', for_range a b body s = Ok s' /\ P b s'.
Proof.
  intros Hab H0 Hstep. unfold for_range.
  destruct (for_n_inv P body (N.to_nat (b - a)) a s H0) as (s' & Hf & Hp).
  - intros; apply Hstep; [lia|lia|assumption].
  - exists s'. split; [assumption|]. replace b with (a + N.of_nat (N.to_nat (b - a))) at 1 by lia. assumption.
Qed.

Lemma for_range_empty {St} (body : N -> St -> res St) a b s : b <= a -> for_range a b body s = Ok s.
Proof. intros; unfold for_range. replace (N.to_nat (b - a)) with 0%nat by lia. reflexivity. Qed.

(* the converse direction: from a successful run to the invariant *)
Lemma for_n_sound {St} (P : N -> St -> Prop) (body : N -> St -> res St) :
  forall n i s s',
    for_n n i body s = Ok s' ->
    P i s ->
    (forall k s s1, i <= k -> k < i + N.of_nat n -> body k s = Ok s1 -> P k s -> P (k + 1) s1) ->
    P (i + N.of_nat n) s'.
Proof.
  induction n; intros i s s' Hf H0 Hstep.
  - cbn in Hf. injection Hf as <-. replace (i + N.of_nat 0) with i by lia. assumption.
  - cbn [for_n] in Hf. apply bind_Ok in Hf as (s1 & Hb & Hf).
    replace (i + N.of_nat (S n)) with (i + 1 + N.of_nat n) by lia.
    eapply IHn; [exact Hf| |].
    + eapply Hstep; [| |exact Hb|exact H0]; lia.
    + intros k s2 s3 ? ? ? ?. eapply Hstep; [| |eassumption|assumption]; lia.
Qed.

Lemma for_range_sound {St} (P : N -> St -> Prop) (body : N -> St -> res St) a b s s' :
  a <= b ->
  for_range a b body s = Ok s' ->
  P a s ->
  (forall k s s1, a <= k -> k < b -> body k s = Ok s1 -> P k s -> P (k + 1) s1) ->
  P b s'.
Proof.
  intros Hab Hf H0 Hstep. unfold for_range in Hf.
  replace b with (a + N.of_nat (N.to_nat (b - a))) at 1 by lia.
  eapply for_n_sound; [exact Hf|exact H0|].
  intros; eapply Hstep; [| |eassumption|assumption]; lia.
Qed.

(* ---------- Nseq ---------- *)
Lemma Nseq_length a n : length (Nseq a n) = n.
Proof. revert a; induction n; intros; cbn; [reflexivity|]. f_equal; apply IHn. Qed.

Lemma Nseq_app a n1 n2 : Nseq a (n1 + n2) = Nseq a n1 ++ Nseq (a + N.of_nat n1) n2.
Proof.
  revert a; induction n1; intros; cbn [Nseq Nat.add app].
  - f_equal; lia.
  - f_equal. rewrite IHn1. f_equal. f_equal. lia.
Qed.

Lemma Nseq_S a n : Nseq a (S n) = Nseq a n ++ [a + N.of_nat n].
Proof. replace (S n) with (n + 1)%nat by lia. rewrite Nseq_app. reflexivity. Qed.

Lemma in_Nseq a n k : In k (Nseq a n) <-> a <= k /\ k < a + N.of_nat n.
Proof.
  revert a; induction n; intros; cbn [Nseq In].
  - split; [tauto|lia].
  - rewrite IHn. lia.
Qed.

Lemma nth_Nseq a n k d : (k < n)%nat -> nth k (Nseq a n) d = a + N.of_nat k.
Proof.
  revert a k; induction n; intros; [lia|].
  cbn [Nseq]. destruct k; cbn [nth]; [lia|]. rewrite IHn by lia. lia.
Qed.
