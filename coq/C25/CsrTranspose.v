(* C25 -- proofs, part 2: CSRMatrix::transpose (a counting sort by column). *)
From SE Require Export C25.CsrProofs.
Local Open Scope N_scope.
Local Open Scope res_scope.

(* ---------- counting occurrences in an index function ---------- *)
Section Count.
Variable jf : N -> N.

(* number of k < n with jf k = c / with jf k < c *)
Fixpoint cntn (c : N) (n : nat) : N :=
  match n with
  | O => 0
  | S n' => cntn c n' + (if jf (N.of_nat n') =? c then 1 else 0)
  end.
Fixpoint cntltn (c : N) (n : nat) : N :=
  match n with
  | O => 0
  | S n' => cntltn c n' + (if jf (N.of_nat n') <? c then 1 else 0)
  end.
Definition cnt (c n : N) : N := cntn c (N.to_nat n).
Definition cntlt (c n : N) : N := cntltn c (N.to_nat n).

Lemma cnt_0 c : cnt c 0 = 0.
Proof. reflexivity. Qed.

Lemma cnt_succ c n : cnt c (n + 1) = cnt c n + (if jf n =? c then 1 else 0).
Proof.
  unfold cnt. replace (N.to_nat (n + 1)) with (S (N.to_nat n)) by lia.
  cbn [cntn]. rewrite N2Nat.id. reflexivity.
Qed.

Lemma cntlt_0 c : cntlt c 0 = 0.
Proof. reflexivity. Qed.

Lemma cntlt_succ c n : cntlt c (n + 1) = cntlt c n + (if jf n <? c then 1 else 0).
Proof.
  unfold cntlt. replace (N.to_nat (n + 1)) with (S (N.to_nat n)) by lia.
  cbn [cntltn]. rewrite N2Nat.id. reflexivity.
Qed.

Lemma cnt_le c n : cnt c n <= n.
Proof.
  induction n using N.peano_ind; [rewrite cnt_0; lia|].
  rewrite <- N.add_1_r, cnt_succ. destruct (jf n =? c); lia.
Qed.

Lemma cnt_mono c b : forall a, a <= b -> cnt c a <= cnt c b.
Proof.
  induction b using N.peano_ind; intros a Hab.
  - replace a with 0 by lia. lia.
  - destruct (N.eq_dec a (N.succ b)) as [->|]; [lia|].
    specialize (IHb a ltac:(lia)). rewrite <- N.add_1_r, cnt_succ. destruct (jf b =? c); lia.
Qed.

Lemma cnt_lt c a b : a < b -> jf a = c -> cnt c a < cnt c b.
Proof.
  intros Hab Hc. pose proof (cnt_mono c b (a + 1) ltac:(lia)) as H.
  rewrite cnt_succ in H. destruct (N.eqb_spec (jf a) c); lia.
Qed.

Lemma cntlt_0c n : cntlt 0 n = 0.
Proof.
  induction n using N.peano_ind; [reflexivity|].
  rewrite <- N.add_1_r, cntlt_succ. destruct (N.ltb_spec (jf n) 0); lia.
Qed.

Lemma cntlt_succ_c c n : cntlt (c + 1) n = cntlt c n + cnt c n.
Proof.
  induction n using N.peano_ind; [reflexivity|].
  rewrite <- N.add_1_r, !cntlt_succ, cnt_succ.
  destruct (N.ltb_spec (jf n) (c + 1)), (N.ltb_spec (jf n) c), (N.eqb_spec (jf n) c); lia.
Qed.

Lemma cntlt_all c n : (forall k, k < n -> jf k < c) -> cntlt c n = n.
Proof.
  induction n using N.peano_ind; intros H; [reflexivity|].
  rewrite <- N.add_1_r, cntlt_succ. rewrite IHn by (intros; apply H; lia).
  specialize (H n ltac:(lia)). destruct (N.ltb_spec (jf n) c); lia.
Qed.

Lemma cntlt_mono_c n c c' : c <= c' -> cntlt c n <= cntlt c' n.
Proof.
  intros Hc. induction n using N.peano_ind; [rewrite !cntlt_0; lia|].
  rewrite <- N.add_1_r, !cntlt_succ.
  destruct (N.ltb_spec (jf n) c), (N.ltb_spec (jf n) c'); lia.
Qed.

(* the s-th occurrence of c *)
Lemma cnt_nth c n : forall s, s < cnt c n -> exists k, k < n /\ jf k = c /\ cnt c k = s.
Proof.
  induction n using N.peano_ind; intros s Hs; [rewrite cnt_0 in Hs; lia|].
  rewrite <- N.add_1_r in *. rewrite cnt_succ in Hs.
  destruct (N.lt_ge_cases s (cnt c n)) as [Hlt|Hge].
  - destruct (IHn s Hlt) as (k & K1 & K2 & K3). exists k. repeat split; try assumption; lia.
  - destruct (N.eqb_spec (jf n) c); [|lia]. exists n. repeat split; try assumption; lia.
Qed.

(* the destination of position k in the counting sort *)
Definition slot (nnz k : N) : N := cntlt (jf k) nnz + cnt (jf k) k.

Lemma slot_lt nnz k : k < nnz -> slot nnz k < cntlt (jf k + 1) nnz.
Proof.
  intros Hk. unfold slot. rewrite cntlt_succ_c.
  pose proof (cnt_lt (jf k) k nnz Hk eq_refl). lia.
Qed.

Lemma slot_inj nnz k1 k2 : k1 < k2 -> k2 < nnz -> slot nnz k1 <> slot nnz k2.
Proof.
  intros H12 H2.
  destruct (N.lt_trichotomy (jf k1) (jf k2)) as [Hlt|[Heq|Hgt]].
  - pose proof (slot_lt nnz k1 ltac:(lia)).
    pose proof (cntlt_mono_c nnz (jf k1 + 1) (jf k2) ltac:(lia)).
    unfold slot at 2. lia.
  - unfold slot. rewrite Heq. pose proof (cnt_lt (jf k2) k1 k2 H12 Heq). lia.
  - pose proof (slot_lt nnz k2 ltac:(lia)).
    pose proof (cntlt_mono_c nnz (jf k2 + 1) (jf k1) ltac:(lia)).
    unfold slot at 1. lia.
Qed.

(* every position below cntlt n lies in one bucket *)
Lemma find_bucket nnz n : forall a, a < cntlt n nnz ->
  exists c, c < n /\ cntlt c nnz <= a /\ a < cntlt (c + 1) nnz.
Proof.
  induction n using N.peano_ind; intros a Ha; [rewrite cntlt_0c in Ha; lia|].
  rewrite <- N.add_1_r in *.
  destruct (N.lt_ge_cases a (cntlt n nnz)) as [Hlt|Hge].
  - destruct (IHn a Hlt) as (c & C1 & C2 & C3). exists c. repeat split; try assumption; lia.
  - exists n. repeat split; try assumption; lia.
Qed.

(* every position of bucket c is the slot of one k with jf k = c *)
Lemma slot_surj nnz c a : cntlt c nnz <= a -> a < cntlt (c + 1) nnz ->
  exists k, k < nnz /\ jf k = c /\ slot nnz k = a.
Proof.
  intros H1 H2. rewrite cntlt_succ_c in H2.
  destruct (cnt_nth c nnz (a - cntlt c nnz) ltac:(lia)) as (k & K1 & K2 & K3).
  exists k. repeat split; try assumption. unfold slot. rewrite K2, K3. lia.
Qed.

End Count.

(* ---------- std::partial_sum ---------- *)
Lemma partial_sum_length acc l : length (partial_sum acc l) = length l.
Proof. revert acc; induction l; intros; cbn [partial_sum length]; [reflexivity|]. rewrite IHl. reflexivity. Qed.

Lemma partial_sum_nthS : forall l acc k, (S k < length l)%nat ->
  nth (S k) (partial_sum acc l) 0 = uadd (nth k (partial_sum acc l) 0) (nth (S k) l 0).
Proof.
  induction l; intros acc k H; [cbn in H; lia|].
  cbn [partial_sum]. cbn [length] in H. destruct k.
  - cbn [nth]. destruct l; [cbn in H; lia|]. reflexivity.
  - change (nth (S (S k)) (uadd acc a :: partial_sum (uadd acc a) l) 0)
      with (nth (S k) (partial_sum (uadd acc a) l) 0).
    change (nth (S (S k)) (a :: l) 0) with (nth (S k) l 0).
    change (nth (S k) (uadd acc a :: partial_sum (uadd acc a) l) 0)
      with (nth k (partial_sum (uadd acc a) l) 0).
    apply IHl. lia.
Qed.

Lemma lenN_partial_sum acc l : lenN (partial_sum acc l) = lenN l.
Proof. unfold lenN. rewrite partial_sum_length. reflexivity. Qed.

Lemma partial_sum_nthN_0 acc l : 0 < lenN l ->
  nthN (partial_sum acc l) 0 0 = uadd acc (nthN l 0 0).
Proof. destruct l; unfold lenN; cbn [length]; intros; [lia|]. reflexivity. Qed.

Lemma partial_sum_nthN_S acc l k : k + 1 < lenN l ->
  nthN (partial_sum acc l) (k + 1) 0 = uadd (nthN (partial_sum acc l) k 0) (nthN l (k + 1) 0).
Proof.
  intros H. unfold nthN. replace (N.to_nat (k + 1)) with (S (N.to_nat k)) by lia.
  apply partial_sum_nthS. unfold lenN in H. lia.
Qed.

Definition jfun {E} (m : csr E) (k : N) : N := nthN (cj m) k 0.

Section Transpose.
Context {E : Type}.
Variable Ops : eops E.
Notation mat := (csr E).
Notation entry := (entry Ops).
Notation Inv := (Inv (E:=E)).

Section OneMatrix.
Variable m : mat.
Variable cf : bool.
Hypothesis HI : Inv m.

Notation nnz := (lenN (cj m)).
Notation jf := (jfun m).

Definition cv (v : E) : E := if cf then econj Ops v else v.

Definition hbody (i : N) (p : list N) : res (list N) :=
  do c <- getN (cj m) i;
  do v <- getN p (uadd c 1);
  setN p (uadd c 1) (uadd v 1).

Definition ibody (p2 : list N) (ri : N) (i : N) (st : list N * list E * list N)
  : res (list N * list E * list N) :=
  let '(j_, x_, tmp) := st in
  do ci <- getN (cj m) i;
  do pc <- getN p2 ci;
  do tc <- getN tmp ci;
  let k := uadd pc tc in
  do j' <- setN j_ k ri;
  do v <- getN (cx m) i;
  do x' <- setN x_ k (if cf then econj Ops v else v);
  do tmp' <- setN tmp ci (uadd tc 1);
  Ok (j', x', tmp').

Definition obody (p2 : list N) (ri : N) (st : list N * list E * list N)
  : res (list N * list E * list N) :=
  do a <- getN (cp m) ri;
  do b <- getN (cp m) (uadd ri 1);
  for_range a b (ibody p2 ri) st.

Lemma transpose_unfold :
  transpose Ops m cf =
  (do p1 <- for_range 0 (u32 nnz) hbody (repeat 0 (N.to_nat (uadd (ccol m) 1)));
   do '(j3, x3, _) <- for_range 0 (crow m) (obody (partial_sum 0 p1))
                        (repeat 0 (N.to_nat (u32 nnz)), repeat (ezero Ops) (N.to_nat (u32 nnz)),
                         repeat 0 (N.to_nat (ccol m)));
   Ok (Build_csr (partial_sum 0 p1) j3 x3 (ccol m) (crow m))).
Proof. reflexivity. Qed.

(* facts from the invariant *)
Lemma T_wf : wf m. Proof. destruct HI as ((H & _) & _). exact H. Qed.
Lemma T_sorted i : i < crow m -> row_sorted m i.
Proof. destruct HI as ((_ & H) & _). apply H. Qed.
Lemma T_cols k : k < nnz -> jf k < ccol m.
Proof. destruct HI as (_ & H & _). apply H. Qed.
Lemma T_small : nnz < 2 ^ 31 /\ crow m < 2 ^ 31 /\ ccol m < 2 ^ 31.
Proof. destruct (Inv_small m HI). destruct HI as (_ & _ & (? & ? & ?)). auto. Qed.
Lemma T_lenx : lenN (cx m) = nnz.
Proof. destruct T_wf as (_ & _ & _ & _ & H). exact H. Qed.
Lemma T_pend : pN m (crow m) = nnz.
Proof. destruct T_wf as (_ & _ & _ & H & _). exact H. Qed.
Lemma T_p0 : pN m 0 = 0.
Proof. destruct T_wf as (_ & H & _). exact H. Qed.

Lemma P2_total : cntlt jf (ccol m) nnz = nnz.
Proof. apply cntlt_all. intros; apply T_cols; assumption. Qed.

Lemma P2_le c : c <= ccol m -> cntlt jf c nnz <= nnz.
Proof. intros. rewrite <- P2_total at 2. apply cntlt_mono_c. assumption. Qed.

Lemma slot_lt_nnz k : k < nnz -> slot jf nnz k < nnz.
Proof.
  intros Hk. pose proof (slot_lt jf nnz k Hk). pose proof (T_cols k Hk).
  pose proof (P2_le (jf k + 1) ltac:(lia)). lia.
Qed.

(* a position lies in exactly one row *)
Lemma row_unique r1 r2 k : r1 < crow m -> r2 < crow m ->
  pN m r1 <= k -> k < pN m (r1 + 1) -> pN m r2 <= k -> k < pN m (r2 + 1) -> r1 = r2.
Proof.
  intros R1 R2 A1 A2 B1 B2.
  destruct (N.lt_trichotomy r1 r2) as [Hlt|[Heq|Hgt]]; [|assumption|].
  - pose proof (pN_mono m T_wf r2 (r1 + 1) ltac:(lia) ltac:(lia)). lia.
  - pose proof (pN_mono m T_wf r1 (r2 + 1) ltac:(lia) ltac:(lia)). lia.
Qed.

Lemma row_order r1 r2 k1 k2 : r1 < crow m -> r2 < crow m ->
  pN m r1 <= k1 -> k1 < pN m (r1 + 1) -> pN m r2 <= k2 -> k2 < pN m (r2 + 1) ->
  k1 < k2 -> r1 <= r2.
Proof.
  intros R1 R2 A1 A2 B1 B2 Hk.
  destruct (N.le_gt_cases r1 r2) as [|Hgt]; [assumption|].
  pose proof (pN_mono m T_wf r1 (r2 + 1) ltac:(lia) ltac:(lia)). lia.
Qed.

(* ---------- the histogram loop ---------- *)
Lemma hist_loop :
  exists p1, for_range 0 (u32 nnz) hbody (repeat 0 (N.to_nat (uadd (ccol m) 1))) = Ok p1 /\
    lenN p1 = ccol m + 1 /\ nthN p1 0 0 = 0 /\
    forall c, c < ccol m -> nthN p1 (c + 1) 0 = cnt jf c nnz.
Proof.
  destruct T_small as (S1 & S2 & S3).
  rewrite u32_small by lia. rewrite uadd_small by lia.
  apply (for_range_inv (fun i p => lenN p = ccol m + 1 /\ nthN p 0 0 = 0 /\
           forall c, c < ccol m -> nthN p (c + 1) 0 = cnt jf c i)).
  - lia.
  - split; [rewrite lenN_repeat; lia|]. split; [apply nthN_repeat; lia|].
    intros c Hc. rewrite cnt_0. apply nthN_repeat. lia.
  - intros k p K1 K2 (L & Z & C). unfold hbody.
    rewrite (getN_ok (cj m) k 0) by lia. cbn [bind].
    pose proof (T_cols k K2) as Hc. unfold jfun in Hc.
    set (c := nthN (cj m) k 0) in *.
    rewrite uadd_small by lia.
    rewrite (getN_ok p (c + 1) 0) by lia. cbn [bind].
    rewrite setN_ok by lia. eexists; split; [reflexivity|].
    split; [rewrite lenN_updn; lia|].
    split.
    + rewrite nthN_updn by lia. destruct (N.eqb_spec 0 (c + 1)); [lia|assumption].
    + intros c' Hc'. rewrite nthN_updn by lia. rewrite cnt_succ. unfold jfun at 2. fold c.
      destruct (N.eqb_spec (c' + 1) (c + 1)), (N.eqb_spec c c'); try lia.
      * subst c'. rewrite (C c Hc). pose proof (cnt_le jf c k). rewrite uadd_small by lia. reflexivity.
      * rewrite (C c' Hc'). lia.
Qed.

(* ---------- the prefix sums ---------- *)
Lemma psum_spec p1 :
  lenN p1 = ccol m + 1 -> nthN p1 0 0 = 0 ->
  (forall c, c < ccol m -> nthN p1 (c + 1) 0 = cnt jf c nnz) ->
  forall c, c <= ccol m -> nthN (partial_sum 0 p1) c 0 = cntlt jf c nnz.
Proof.
  intros L Z C. destruct T_small as (S1 & S2 & S3).
  induction c using N.peano_ind; intros Hc.
  - rewrite partial_sum_nthN_0 by lia. rewrite Z, cntlt_0c. reflexivity.
  - rewrite <- N.add_1_r in *. rewrite partial_sum_nthN_S by lia.
    rewrite IHc by lia. rewrite C by lia.
    pose proof (P2_le (c + 1) Hc) as Hle. rewrite cntlt_succ_c in *.
    rewrite uadd_small by lia. reflexivity.
Qed.

(* ---------- the scatter loops ---------- *)
Definition Q (n : N) (st : list N * list E * list N) : Prop :=
  let '(j_, x_, tmp) := st in
  lenN j_ = nnz /\ lenN x_ = nnz /\ lenN tmp = ccol m /\
  (forall c, c < ccol m -> nthN tmp c 0 = cnt jf c n) /\
  (forall k, k < n -> exists r, r < crow m /\ pN m r <= k /\ k < pN m (r + 1) /\
      nthN j_ (slot jf nnz k) 0 = r /\
      nthN x_ (slot jf nnz k) (ezero Ops) = cv (nthN (cx m) k (ezero Ops))).

Section Scatter.
Variable p2 : list N.
Hypothesis Lp2 : lenN p2 = ccol m + 1.
Hypothesis Hp2 : forall c, c <= ccol m -> nthN p2 c 0 = cntlt jf c nnz.

Lemma inner_step ri i st :
  ri < crow m -> pN m ri <= i -> i < pN m (ri + 1) -> Q i st ->
  exists st', ibody p2 ri i st = Ok st' /\ Q (i + 1) st'.
Proof.
  intros Hri I1 I2 HQ. destruct st as [[j_ x_] tmp]. destruct HQ as (Lj & Lx & Lt & T & W).
  destruct T_small as (S1 & S2 & S3).
  assert (Hi : i < nnz).
  { pose proof (pN_le_nnz m T_wf (ri + 1) ltac:(lia)). lia. }
  pose proof (T_cols i Hi) as Hc.
  pose proof (slot_lt_nnz i Hi) as Hsl.
  unfold ibody.
  rewrite (getN_ok (cj m) i 0) by lia. cbn [bind].
  change (nthN (cj m) i 0) with (jf i).
  rewrite (getN_ok p2 (jf i) 0) by lia. cbn [bind].
  rewrite (getN_ok tmp (jf i) 0) by lia. cbn [bind].
  rewrite Hp2 by lia. rewrite (T _ Hc).
  change (cntlt jf (jf i) nnz + cnt jf (jf i) i) with (slot jf nnz i) in *.
  assert (Hs : uadd (cntlt jf (jf i) nnz) (cnt jf (jf i) i) = slot jf nnz i).
  { unfold slot in *. apply uadd_small. lia. }
  rewrite Hs.
  rewrite setN_ok by lia. cbn [bind].
  rewrite (getN_ok (cx m) i (ezero Ops)) by (rewrite T_lenx; lia). cbn [bind].
  rewrite setN_ok by lia. cbn [bind].
  rewrite setN_ok by lia. cbn [bind].
  eexists; split; [reflexivity|].
  pose proof (cnt_le jf (jf i) i) as Hcl.
  rewrite uadd_small by lia.
  unfold Q. repeat split.
  - rewrite lenN_updn; lia.
  - rewrite lenN_updn; lia.
  - rewrite lenN_updn; lia.
  - intros c Hc'. rewrite nthN_updn by lia. rewrite cnt_succ.
    destruct (N.eqb_spec c (jf i)), (N.eqb_spec (jf i) c); try lia.
    + subst c. reflexivity.
    + rewrite (T c Hc'). lia.
  - intros k Hk. destruct (N.eq_dec k i) as [->|Hne].
    + exists ri. repeat split; try assumption.
      * rewrite nthN_updn by lia. rewrite N.eqb_refl. reflexivity.
      * rewrite nthN_updn by lia. rewrite N.eqb_refl. reflexivity.
    + destruct (W k ltac:(lia)) as (r & R1 & R2 & R3 & R4 & R5).
      pose proof (slot_inj jf nnz k i ltac:(lia) Hi) as Hinj.
      exists r. repeat split; try assumption.
      * rewrite nthN_updn by lia. destruct (N.eqb_spec (slot jf nnz k) (slot jf nnz i)); [lia|assumption].
      * rewrite nthN_updn by lia. destruct (N.eqb_spec (slot jf nnz k) (slot jf nnz i)); [lia|assumption].
Qed.

Lemma outer_step ri st :
  ri < crow m -> Q (pN m ri) st ->
  exists st', obody p2 ri st = Ok st' /\ Q (pN m (ri + 1)) st'.
Proof.
  intros Hri HQ. destruct T_small as (S1 & S2 & S3). unfold obody.
  rewrite (getN_p m ri T_wf) by lia. cbn [bind].
  rewrite uadd_small by lia.
  rewrite (getN_p m (ri + 1) T_wf) by lia. cbn [bind].
  apply (for_range_inv Q).
  - destruct T_wf as (_ & _ & H & _). apply H. assumption.
  - assumption.
  - intros k s K1 K2 HQk. apply inner_step; assumption.
Qed.

Lemma scatter_loop :
  exists st, for_range 0 (crow m) (obody p2)
               (repeat 0 (N.to_nat (u32 nnz)), repeat (ezero Ops) (N.to_nat (u32 nnz)),
                repeat 0 (N.to_nat (ccol m))) = Ok st /\ Q nnz st.
Proof.
  destruct T_small as (S1 & S2 & S3).
  rewrite u32_small by lia.
  destruct (for_range_inv (fun ri st => Q (pN m ri) st) (obody p2) 0 (crow m)
              (repeat 0 (N.to_nat nnz), repeat (ezero Ops) (N.to_nat nnz),
               repeat 0 (N.to_nat (ccol m)))) as (st & Hf & HQ).
  - lia.
  - rewrite T_p0. unfold Q. repeat split.
    + rewrite lenN_repeat; lia.
    + rewrite lenN_repeat; lia.
    + rewrite lenN_repeat; lia.
    + intros c Hc. rewrite cnt_0. apply nthN_repeat. lia.
    + intros k Hk. lia.
  - intros k s K1 K2 HQk. apply outer_step; assumption.
  - exists st. split; [assumption|]. rewrite T_pend in HQ. assumption.
Qed.

(* ---------- the result ---------- *)
Lemma result_ok j3 x3 tmp3 : Q nnz (j3, x3, tmp3) ->
  let t := Build_csr p2 j3 x3 (ccol m) (crow m) in
  Inv t /\
  (conj_zero Ops ->
   forall i c, i < crow m -> c < ccol m -> entry t c i = cv (entry m i c)).
Proof.
  intros (Lj & Lx & Lt & T & W) t.
  destruct T_small as (S1 & S2 & S3).
  assert (Hpt : forall c, c <= ccol m -> pN t c = cntlt jf c nnz).
  { intros c Hc. unfold pN, t; cbn [cp]. apply Hp2; assumption. }
  (* content of a slot of bucket c *)
  assert (Hslot : forall c a, c < ccol m -> pN t c <= a -> a < pN t (c + 1) ->
            exists k r, k < nnz /\ jf k = c /\ slot jf nnz k = a /\
              r < crow m /\ pN m r <= k /\ k < pN m (r + 1) /\
              nthN (cj t) a 0 = r /\ nthN (cx t) a (ezero Ops) = cv (nthN (cx m) k (ezero Ops))).
  { intros c a Hc A1 A2. rewrite Hpt in A1, A2 by lia.
    destruct (slot_surj jf nnz c a A1 A2) as (k & K1 & K2 & K3).
    destruct (W k K1) as (r & R1 & R2 & R3 & R4 & R5).
    exists k, r. rewrite K3 in R4, R5. unfold t; cbn [cj cx]. repeat split; assumption. }
  assert (Hwf : wf t).
  { unfold wf. split; [exact Lp2|]. split; [rewrite Hpt by lia; apply cntlt_0c|].
    split; [|split].
    - intros i Hi. cbn [crow t] in Hi. rewrite !Hpt by lia. apply cntlt_mono_c. lia.
    - cbn [crow cj t]. rewrite Hpt by lia. rewrite P2_total. lia.
    - cbn [cx cj t]. lia. }
  assert (Hsorted : forall c, c < ccol m -> row_sorted t c).
  { intros c Hc a b A1 A2 A3.
    destruct (Hslot c a Hc A1 ltac:(lia)) as (ka & ra & Ka1 & Ka2 & Ka3 & Ra1 & Ra2 & Ra3 & Ra4 & _).
    assert (B1 : pN t c <= b) by lia.
    destruct (Hslot c b Hc B1 A3) as (kb & rb & Kb1 & Kb2 & Kb3 & Rb1 & Rb2 & Rb3 & Rb4 & _).
    rewrite Ra4, Rb4.
    assert (Hcnt : cnt jf c ka < cnt jf c kb).
    { unfold slot in Ka3, Kb3. rewrite Ka2 in Ka3. rewrite Kb2 in Kb3. lia. }
    assert (Hk : ka < kb).
    { destruct (N.lt_ge_cases ka kb) as [|Hge]; [assumption|].
      pose proof (cnt_mono jf c ka kb Hge). lia. }
    pose proof (row_order ra rb ka kb Ra1 Rb1 Ra2 Ra3 Rb2 Rb3 Hk) as Hle.
    destruct (N.eq_dec ra rb) as [Heq|]; [|lia].
    exfalso. rewrite <- Heq in Rb3.
    pose proof (T_sorted ra Ra1 ka kb Ra2 Hk Rb3) as Hlt.
    unfold jfun in Ka2, Kb2. lia. }
  split.
  - split; [split; [exact Hwf|]|split].
    + intros c Hc. apply Hsorted. exact Hc.
    + intros k Hk. cbn [cj ccol t] in *. rewrite Lj in Hk.
      destruct (find_bucket jf nnz (ccol m) k) as (c & C1 & C2 & C3); [rewrite P2_total; exact Hk|].
      destruct (Hslot c k C1) as (k' & r & _ & _ & _ & R1 & _ & _ & R4 & _).
      * rewrite Hpt by lia. exact C2.
      * rewrite Hpt by lia. exact C3.
      * cbn [cj t] in R4. rewrite R4. exact R1.
    + destruct HI as (_ & _ & (D1 & D2 & D3)). unfold dims_ok. cbn [crow ccol t]. lia.
  - intros Hcz i c Hi Hc.
    destruct (entry_cases Ops m i c) as [(k & K1 & K2 & K3 & K4 & K5)|(K1 & K2)].
    + rewrite K5.
      assert (Hk : k < nnz).
      { pose proof (pN_le_nnz m T_wf (i + 1) ltac:(lia)). lia. }
      destruct (W k Hk) as (r & R1 & R2 & R3 & R4 & R5).
      assert (Hr : r = i) by (apply (row_unique r i k); assumption). rewrite Hr in R4.
      rewrite <- R5.
      pose proof (slot_lt jf nnz k Hk) as Hs1.
      change (jf k) with (nthN (cj m) k 0) in Hs1. rewrite K3 in Hs1.
      apply (entry_hit Ops t c i (slot jf nnz k)).
      * apply Hsorted; exact Hc.
      * rewrite Hpt by lia. unfold slot. change (jf k) with (nthN (cj m) k 0). rewrite K3. lia.
      * rewrite Hpt by lia. exact Hs1.
      * exact R4.
    + rewrite K2.
      replace (cv (ezero Ops)) with (ezero Ops).
      2:{ unfold cv. destruct cf; [symmetry; exact Hcz|reflexivity]. }
      apply entry_miss. intros a A1 A2 Ha.
      destruct (Hslot c a Hc A1 A2) as (k & r & Kk1 & Kk2 & Kk3 & R1 & R2 & R3 & R4 & _).
      rewrite Ha in R4. rewrite <- R4 in R2, R3.
      apply (K1 k R2 R3). exact Kk2.
Qed.

End Scatter.
End OneMatrix.

(* ---------- CSRMatrix::transpose ---------- *)
Theorem transpose_spec (m : csr E) (cf : bool) :
  conj_zero Ops -> Inv m ->
  exists t, transpose Ops m cf = Ok t /\ crow t = ccol m /\ ccol t = crow m /\ Inv t /\
    forall i c, i < crow m -> c < ccol m ->
      entry t c i = (if cf then econj Ops (entry m i c) else entry m i c).
Proof.
  intros Hcz HI. rewrite transpose_unfold.
  destruct (hist_loop m HI) as (p1 & Hf1 & L1 & Z1 & C1). rewrite Hf1. cbn [bind].
  pose proof (psum_spec m HI p1 L1 Z1 C1) as Hp2.
  assert (Lp2 : lenN (partial_sum 0 p1) = ccol m + 1) by (rewrite lenN_partial_sum; exact L1).
  destruct (scatter_loop m cf HI _ Lp2 Hp2) as ([[j3 x3] tmp3] & Hf2 & HQ). rewrite Hf2. cbn [bind].
  destruct (result_ok m cf HI _ Lp2 Hp2 j3 x3 tmp3 HQ) as (HIt & Hent).
  eexists. split; [reflexivity|]. cbn [crow ccol].
  split; [reflexivity|]. split; [reflexivity|]. split; [exact HIt|].
  intros i c Hi Hc. rewrite (Hent Hcz i c Hi Hc). reflexivity.
Qed.

End Transpose.

Print Assumptions transpose_spec.
