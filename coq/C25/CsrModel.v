(* C25 -- executable model of symengine/sparse_matrix.cpp (class CSRMatrix and its friend
   functions).  Transcription conventions: DESIGN.md appendix B.1.  The model is of the
   code that exists:
   - p_, j_ are std::vector<unsigned>: lists of N, every read/write is bounds-checked and an
     access outside the vector is the observable value [ErrOOB] (the drivers are built with
     -D_GLIBCXX_ASSERTIONS, so the library aborts on the same accesses);
   - index arithmetic is 32-bit unsigned ([uadd], [usub]); `int` values of csr_matmat_pass2
     are Z;
   - x_ is a vec_basic: a list over an abstract element type [E] with the operations the
     code uses (zero, add, mul, conjugate, is_zero, eq); slots of a freshly sized vec_basic
     (null RCPs) are modelled by [ezero];
   - while-loops run on explicit fuel ([ErrFuel] if it runs out), for-loops over an index
     range are [for_range]; exceptions are [ErrExn].
   (The defects found with the first version of this model -- conjugate swapping the
   dimensions, csr_diagonal's inclusive binary search, csr_matmat's temporaries sized by
   A.col_, its unsorted result, is_canonical's zero-matrix shortcut -- have been repaired in
   the library; this file transcribes the repaired code.)                                  *)
From SE Require Export Base.Prelude.
Local Open Scope N_scope.
Local Open Scope res_scope.

(* ---------- checked vectors ---------- *)
Definition lenN {A} (l : list A) : N := N.of_nat (length l).

Definition getN {A} (l : list A) (i : N) : res A :=
  if i <? lenN l then
    match nth_error l (N.to_nat i) with
    | Some a => Ok a
    | None => ErrOOB i (lenN l)
    end
  else ErrOOB i (lenN l).

Definition setN {A} (l : list A) (i : N) (a : A) : res (list A) :=
  if i <? lenN l then Ok (firstn (N.to_nat i) l ++ a :: skipn (S (N.to_nat i)) l)
  else ErrOOB i (lenN l).

(* v.insert(v.begin() + k, a) *)
Definition insertN {A} (l : list A) (k : N) (a : A) : res (list A) :=
  if k <=? lenN l then Ok (firstn (N.to_nat k) l ++ a :: skipn (N.to_nat k) l)
  else ErrOOB k (lenN l).

(* v.erase(v.begin() + k) *)
Definition eraseN {A} (l : list A) (k : N) : res (list A) :=
  if k <? lenN l then Ok (firstn (N.to_nat k) l ++ skipn (S (N.to_nat k)) l)
  else ErrOOB k (lenN l).

(* v.resize(n, fill) *)
Definition resizeN {A} (l : list A) (n : N) (fill : A) : list A :=
  firstn (N.to_nat n) l ++ repeat fill (N.to_nat n - length l).

(* for (i = a; i < b; i++) s = body i s *)
Fixpoint for_n {St} (n : nat) (i : N) (body : N -> St -> res St) (s : St) : res St :=
  match n with
  | O => Ok s
  | S n' => do s' <- body i s; for_n n' (i + 1) body s'
  end.
Definition for_range {St} (a b : N) (body : N -> St -> res St) (s : St) : res St :=
  for_n (N.to_nat (b - a)) a body s.

(* stable insertion sort of (column, value) pairs by column -- stands for the std::sort call
   of csr_sort_indices (the relative order of equal columns is unspecified in C++) *)
Fixpoint ins_pair {E} (a : N * E) (l : list (N * E)) : list (N * E) :=
  match l with
  | [] => [a]
  | b :: r => if fst b <=? fst a then b :: ins_pair a r else a :: b :: r
  end.
Definition sort_pairs {E} (l : list (N * E)) : list (N * E) :=
  fold_left (fun acc a => ins_pair a acc) l [].

(* ---------- the element operations ---------- *)
Record eops (E : Type) := {
  ezero : E;
  eadd : E -> E -> E;
  emul : E -> E -> E;
  econj : E -> E;                (* SymEngine::conjugate *)
  eis_zero : E -> bool;          (* is_true(is_zero(.)) *)
  eeqb : E -> E -> bool          (* eq(.,.) *)
}.
Arguments ezero {E}. Arguments eadd {E}. Arguments emul {E}.
Arguments econj {E}. Arguments eis_zero {E}. Arguments eeqb {E}.

Record csr (E : Type) := {
  cp : list N;   (* p_ *)
  cj : list N;   (* j_ *)
  cx : list E;   (* x_ *)
  crow : N;      (* row_ *)
  ccol : N       (* col_ *)
}.
Arguments cp {E}. Arguments cj {E}. Arguments cx {E}. Arguments crow {E}. Arguments ccol {E}.
Arguments Build_csr {E}.

Section Model.
Context {E : Type}.
Variable Ops : eops E.
Notation mat := (csr E).

(* CSRMatrix(row, col): p_ = vector(row + 1, 0) *)
Definition mk_zero (row col : N) : mat :=
  Build_csr (repeat 0 (N.to_nat (uadd row 1))) [] [] row col.

(* ---------- csr_has_sorted_indices / csr_has_duplicates / csr_has_canonical_format ---------- *)
(* for (jj = p[i]; jj + 1 < p[i+1]; jj++) if (j[jj] > j[jj+1]) return false; *)
Fixpoint sorted_loop (fuel : nat) (j : list N) (jj pe : N) : res bool :=
  match fuel with
  | O => ErrFuel
  | S f =>
      if uadd jj 1 <? pe then
        do a <- getN j jj;
        do b <- getN j (uadd jj 1);
        if b <? a then Ok false else sorted_loop f j (uadd jj 1) pe
      else Ok true
  end.

Definition has_sorted_indices (p j : list N) (row : N) : res bool :=
  for_range 0 row (fun i (ok : bool) =>
    if ok then
      do ps <- getN p i;
      do pe <- getN p (uadd i 1);
      sorted_loop (S (N.to_nat (pe - ps))) j ps pe
    else Ok false) true.

(* for (j = p[i]; j + 1 < p[i+1]; j++) if (j_[j] == j_[j+1]) return true; *)
Fixpoint dup_loop (fuel : nat) (j : list N) (jj pe : N) : res bool :=
  match fuel with
  | O => ErrFuel
  | S f =>
      if uadd jj 1 <? pe then
        do a <- getN j jj;
        do b <- getN j (uadd jj 1);
        if a =? b then Ok true else dup_loop f j (uadd jj 1) pe
      else Ok false
  end.

Definition has_duplicates (p j : list N) (row : N) : res bool :=
  for_range 0 row (fun i (found : bool) =>
    if found then Ok true
    else
      do ps <- getN p i;
      do pe <- getN p (uadd i 1);
      dup_loop (S (N.to_nat (pe - ps))) j ps pe) false.

Definition p_monotone (p : list N) (row : N) : res bool :=
  for_range 0 row (fun i (ok : bool) =>
    if ok then
      do a <- getN p i;
      do b <- getN p (uadd i 1);
      Ok (negb (b <? a))
    else Ok false) true.

Definition has_canonical_format (p j : list N) (row : N) : res bool :=
  do mono <- p_monotone p row;
  if mono then
    do s <- has_sorted_indices p j row;
    if s then do d <- has_duplicates p j row; Ok (negb d) else Ok false
  else Ok false.

(* CSRMatrix::is_canonical *)
Definition is_canonical (m : mat) : res bool :=
  if negb (lenN (cp m) =? uadd (crow m) 1) then Ok false
  else
    do p0 <- getN (cp m) 0;
    if negb (p0 =? 0) then Ok false
    else
      do n <- getN (cp m) (crow m);
      if negb (lenN (cj m) =? n) || negb (lenN (cx m) =? n) then Ok false
      else has_canonical_format (cp m) (cj m) (crow m).

(* ---------- CSRMatrix::get ---------- *)
Fixpoint get_loop (fuel : nat) (js : list N) (xs : list E) (c rs re : N) : res E :=
  match fuel with
  | O => ErrFuel
  | S f =>
      if rs <? re then
        let k := uadd rs re / 2 in
        do jk <- getN js k;
        if jk =? c then getN xs k
        else if jk <? c then get_loop f js xs c (uadd k 1) re
        else get_loop f js xs c rs k
      else Ok (ezero Ops)
  end.

Definition get (m : mat) (i c : N) : res E :=
  do rs <- getN (cp m) i;
  do re <- getN (cp m) (uadd i 1);
  if rs =? re then Ok (ezero Ops)
  else get_loop (S (N.to_nat (re - rs))) (cj m) (cx m) c rs re.

(* ---------- CSRMatrix::set ---------- *)
(* the position search: returns k *)
Fixpoint set_search (fuel : nat) (js : list N) (c k en : N) : res N :=
  match fuel with
  | O => ErrFuel
  | S f =>
      if k <? en then
        let mid := uadd k en / 2 in
        if mid =? k then
          do jk <- getN js k;
          Ok (if jk <? c then uadd k 1 else k)
        else
          do jm <- getN js mid;
          do jm1 <- getN js (usub mid 1);
          if (c <=? jm) && (jm1 <? c) then Ok mid
          else if c <=? jm1 then set_search f js c k (usub mid 1)
          else set_search f js c (uadd mid 1) en
      else Ok k
  end.

(* for (l = from; l <= row; l++) p[l] = f p[l] *)
Definition bump (p : list N) (from row : N) (f : N -> N) : res (list N) :=
  for_range from (row + 1) (fun l p => do v <- getN p l; setN p l (f v)) p.

Definition set (m : mat) (i c : N) (e : E) : res mat :=
  do k0 <- getN (cp m) i;
  do row_end <- getN (cp m) (uadd i 1);
  do k <- set_search (S (N.to_nat (row_end - k0))) (cj m) c k0 row_end;
  do hit <- (if k <? row_end then do jk <- getN (cj m) k; Ok (jk =? c) else Ok false);
  if negb (eis_zero Ops e) then
    if (hit : bool) then
      do x' <- setN (cx m) k e;
      Ok (Build_csr (cp m) (cj m) x' (crow m) (ccol m))
    else
      do x' <- insertN (cx m) k e;
      do j' <- insertN (cj m) k c;
      do p' <- bump (cp m) (uadd i 1) (crow m) (fun v => uadd v 1);
      Ok (Build_csr p' j' x' (crow m) (ccol m))
  else
    if (hit : bool) then
      do x' <- eraseN (cx m) k;
      do j' <- eraseN (cj m) k;
      do p' <- bump (cp m) (uadd i 1) (crow m) (fun v => usub v 1);
      Ok (Build_csr p' j' x' (crow m) (ccol m))
    else Ok m.

(* ---------- histories of set/get on one matrix ---------- *)
Inductive hop := HSet (i c : N) (e : E) | HGet (i c : N).
Inductive hout := HMat (m : mat) | HVal (e : E).

Definition hstep (m : mat) (o : hop) : res (mat * hout) :=
  match o with
  | HSet i c e => do m' <- set m i c e; Ok (m', HMat m')
  | HGet i c => do v <- get m i c; Ok (m, HVal v)
  end.

Fixpoint hrun (m : mat) (ops : list hop) : list (res hout) :=
  match ops with
  | [] => []
  | o :: rest =>
      match hstep m o with
      | Ok (m', x) => Ok x :: hrun m' rest
      | ErrOOB i l => [ErrOOB i l]
      | ErrFuel => [ErrFuel]
      | ErrExn c => [ErrExn c]
      end
  end.

(* ---------- csr_sort_indices ---------- *)
(* temp.push_back(make_pair(j_[jj], x_[jj])) for jj in [a, b) *)
Definition read_pairs (js : list N) (xs : list E) (a b : N) : res (list (N * E)) :=
  do r <- for_range a b (fun jj acc => do c <- getN js jj; do v <- getN xs jj; Ok ((c, v) :: acc)) [];
  Ok (rev r).

(* for (jj = a, n = 0; jj < b; jj++, n++) { j_[jj] = temp[n].first; x_[jj] = temp[n].second; } *)
Fixpoint write_pairs (temp : list (N * E)) (js : list N) (xs : list E) (jj : N)
  : res (list N * list E) :=
  match temp with
  | [] => Ok (js, xs)
  | (c, v) :: r =>
      do js' <- setN js jj c;
      do xs' <- setN xs jj v;
      write_pairs r js' xs' (jj + 1)
  end.

Definition sort_indices (p js : list N) (xs : list E) (row : N) : res (list N * list E) :=
  for_range 0 row (fun i st =>
    let '(js, xs) := st in
    do a <- getN p i;
    do b <- getN p (uadd i 1);
    do temp <- read_pairs js xs a b;
    write_pairs (sort_pairs temp) js xs a) (js, xs).

(* ---------- csr_sum_duplicates ---------- *)
(* while (jj < row_end and j_[jj] == j) { x = add(x, x_[jj]); jj++; } *)
Fixpoint dup_run (fuel : nat) (js : list N) (xs : list E) (c row_end jj : N) (acc : E)
  : res (N * E) :=
  match fuel with
  | O => ErrFuel
  | S f =>
      if jj <? row_end then
        do cj <- getN js jj;
        if cj =? c then
          do v <- getN xs jj;
          dup_run f js xs c row_end (uadd jj 1) (eadd Ops acc v)
        else Ok (jj, acc)
      else Ok (jj, acc)
  end.

(* while (jj < row_end) { ... j_[nnz] = j; x_[nnz] = x; nnz++; } *)
Fixpoint sumdup_row (fuel : nat) (js : list N) (xs : list E) (row_end jj nnz : N)
  : res (list N * list E * N) :=
  match fuel with
  | O => ErrFuel
  | S f =>
      if jj <? row_end then
        do c <- getN js jj;
        do v <- getN xs jj;
        do '(jj', acc) <- dup_run (S (N.to_nat (row_end - jj))) js xs c row_end (uadd jj 1) v;
        do js' <- setN js nnz c;
        do xs' <- setN xs nnz acc;
        sumdup_row f js' xs' row_end jj' (uadd nnz 1)
      else Ok (js, xs, nnz)
  end.

Definition sum_duplicates (p js : list N) (xs : list E) (row : N)
  : res (list N * list N * list E) :=
  do '(p', js', xs', nnz, _) <-
    for_range 0 row (fun i st =>
      let '(p, js, xs, nnz, row_end) := st in
      let jj := row_end in
      do row_end' <- getN p (uadd i 1);
      do '(js', xs', nnz') <- sumdup_row (S (N.to_nat (row_end' - jj))) js xs row_end' jj nnz;
      do p' <- setN p (uadd i 1) nnz';
      Ok (p', js', xs', nnz', row_end')) (p, js, xs, 0, 0);
  Ok (p', resizeN js' nnz 0, resizeN xs' nnz (ezero Ops)).

(* ---------- CSRMatrix::from_coo ---------- *)
Definition from_coo (row col : N) (is js : list N) (xs : list E) : res mat :=
  let nnz := u32 (lenN xs) in
  let p0 := repeat 0 (N.to_nat (uadd row 1)) in
  let j0 := repeat 0 (N.to_nat nnz) in
  let x0 := repeat (ezero Ops) (N.to_nat nnz) in
  (* for n < nnz: p_[i[n]]++ *)
  do p1 <- for_range 0 nnz (fun n p =>
             do r <- getN is n; do v <- getN p r; setN p r (uadd v 1)) p0;
  (* cumsum *)
  do '(p2, _) <- for_range 0 row (fun i st =>
             let '(p, cumsum) := st in
             do temp <- getN p i;
             do p' <- setN p i cumsum;
             Ok (p', uadd cumsum temp)) (p1, 0);
  do p3 <- setN p2 row nnz;
  (* scatter *)
  do '(p4, j4, x4) <- for_range 0 nnz (fun n st =>
             let '(p, j_, x_) := st in
             do r <- getN is n;
             do dest <- getN p r;
             do c <- getN js n;
             do j' <- setN j_ dest c;
             do v <- getN xs n;
             do x' <- setN x_ dest v;
             do p' <- setN p r (uadd dest 1);
             Ok (p', j', x')) (p3, j0, x0);
  (* for (i = 0, last = 0; i <= row; i++) swap(p_[i], last) *)
  do '(p5, _) <- for_range 0 (row + 1) (fun i st =>
             let '(p, last) := st in
             do v <- getN p i;
             do p' <- setN p i last;
             Ok (p', v)) (p4, 0);
  do '(j6, x6) <- sort_indices p5 j4 x4 row;
  do '(p7, j7, x7) <- sum_duplicates p5 j6 x6 row;
  Ok (Build_csr p7 j7 x7 row col).

(* ---------- CSRMatrix::transpose(bool conjugate) ---------- *)
(* std::partial_sum(p.begin(), p.end(), p.begin()) *)
Fixpoint partial_sum (acc : N) (l : list N) : list N :=
  match l with
  | [] => []
  | a :: r => uadd acc a :: partial_sum (uadd acc a) r
  end.

Definition transpose (m : mat) (conj : bool) : res mat :=
  let nnz := u32 (lenN (cj m)) in
  let p0 := repeat 0 (N.to_nat (uadd (ccol m) 1)) in
  let j0 := repeat 0 (N.to_nat nnz) in
  let tmp0 := repeat 0 (N.to_nat (ccol m)) in
  let x0 := repeat (ezero Ops) (N.to_nat nnz) in
  do p1 <- for_range 0 nnz (fun i p =>
             do c <- getN (cj m) i;
             do v <- getN p (uadd c 1);
             setN p (uadd c 1) (uadd v 1)) p0;
  let p2 := partial_sum 0 p1 in
  do '(j3, x3, _) <- for_range 0 (crow m) (fun ri st =>
             do a <- getN (cp m) ri;
             do b <- getN (cp m) (uadd ri 1);
             for_range a b (fun i st =>
               let '(j_, x_, tmp) := st in
               do ci <- getN (cj m) i;
               do pc <- getN p2 ci;
               do tc <- getN tmp ci;
               let k := uadd pc tc in
               do j' <- setN j_ k ri;
               do v <- getN (cx m) i;
               do x' <- setN x_ k (if conj then econj Ops v else v);
               do tmp' <- setN tmp ci (uadd tc 1);
               Ok (j', x', tmp')) st) (j0, x0, tmp0);
  Ok (Build_csr p2 j3 x3 (ccol m) (crow m)).

(* CSRMatrix::conjugate(result) *)
Definition conjugate (m : mat) : mat :=
  Build_csr (cp m) (cj m) (map (econj Ops) (cx m)) (crow m) (ccol m).

(* ---------- csr_binop_csr_canonical ---------- *)
Definition push_nz (f : E -> E -> E) (a b : E) (c : N) (out : list N * list E * N)
  : list N * list E * N :=
  let '(oj, ox, nnz) := out in
  let r := f a b in
  if negb (eis_zero Ops r) then (oj ++ [c], ox ++ [r], uadd nnz 1) else out.

Fixpoint binop_row (fuel : nat) (f : E -> E -> E) (A B : mat) (ap ae bp be : N)
         (out : list N * list E * N) : res (list N * list E * N) :=
  match fuel with
  | O => ErrFuel
  | S fu =>
      if (ap <? ae) && (bp <? be) then
        do aj <- getN (cj A) ap;
        do bj <- getN (cj B) bp;
        if aj =? bj then
          do av <- getN (cx A) ap;
          do bv <- getN (cx B) bp;
          binop_row fu f A B (uadd ap 1) ae (uadd bp 1) be (push_nz f av bv aj out)
        else if aj <? bj then
          do av <- getN (cx A) ap;
          binop_row fu f A B (uadd ap 1) ae bp be (push_nz f av (ezero Ops) aj out)
        else
          do bv <- getN (cx B) bp;
          binop_row fu f A B ap ae (uadd bp 1) be (push_nz f (ezero Ops) bv bj out)
      else if ap <? ae then
        do av <- getN (cx A) ap;
        do aj <- getN (cj A) ap;
        binop_row fu f A B (uadd ap 1) ae bp be (push_nz f av (ezero Ops) aj out)
      else if bp <? be then
        do bv <- getN (cx B) bp;
        do bj <- getN (cj B) bp;
        binop_row fu f A B ap ae (uadd bp 1) be (push_nz f (ezero Ops) bv bj out)
      else Ok out
  end.

(* C is the result object passed in: only C.p_ (its size) matters, C.j_ / C.x_ are cleared *)
Definition binop (f : E -> E -> E) (A B C : mat) : res mat :=
  do p0 <- setN (cp C) 0 0;
  do '(p1, oj, ox, _) <- for_range 0 (crow A) (fun i st =>
      let '(p, oj, ox, nnz) := st in
      do ap <- getN (cp A) i;
      do bp <- getN (cp B) i;
      do ae <- getN (cp A) (uadd i 1);
      do be <- getN (cp B) (uadd i 1);
      do '(oj', ox', nnz') <-
         binop_row (S (N.to_nat (ae - ap) + N.to_nat (be - bp))) f A B ap ae bp be (oj, ox, nnz);
      do p' <- setN p (uadd i 1) nnz';
      Ok (p', oj', ox', nnz')) (p0, [], [], 0);
  do d <- has_duplicates p1 oj (crow A);
  if (d : bool) then
    do '(p2, j2, x2) <- sum_duplicates p1 oj ox (crow A);
    Ok (Build_csr p2 j2 x2 (crow C) (ccol C))
  else Ok (Build_csr p1 oj ox (crow C) (ccol C)).

(* CSRMatrix::elementwise_mul_matrix(other, result) with a CSRMatrix result *)
Definition elementwise_mul (A B C : mat) : res mat := binop (emul Ops) A B C.

(* ---------- csr_matmat_pass1 / pass2 ---------- *)
Definition MASK_INIT : N := 4294967295.   (* (unsigned)-1 *)

Definition matmat_pass1 (A B C : mat) : res mat :=
  let mask0 := repeat MASK_INIT (N.to_nat (ccol B)) in
  do p0 <- setN (cp C) 0 0;
  do '(p1, _, _) <- for_range 0 (crow A) (fun i st =>
      let '(p, mask, nnz) := st in
      do a <- getN (cp A) i;
      do b <- getN (cp A) (uadd i 1);
      do '(mask', row_nnz) <- for_range a b (fun jj st =>
          do j <- getN (cj A) jj;
          do ka <- getN (cp B) j;
          do kb <- getN (cp B) (uadd j 1);
          for_range ka kb (fun kk st =>
            let '(mask, row_nnz) := st in
            do k <- getN (cj B) kk;
            do mk <- getN mask k;
            if negb (mk =? i) then
              do mask' <- setN mask k i; Ok (mask', uadd row_nnz 1)
            else Ok (mask, row_nnz)) st) (mask, 0);
      let next_nnz := uadd nnz row_nnz in
      if next_nnz <? nnz then ErrExn EXN_STD     (* std::overflow_error *)
      else
        do p' <- setN p (uadd i 1) next_nnz;
        Ok (p', mask', next_nnz)) (p0, mask0, 0);
  Ok (Build_csr p1 (cj C) (cx C) (crow C) (ccol C)).

(* index of an int used as a vector subscript: negative values are huge size_t values *)
Definition zidx (z : Z) : N := if (z <? 0)%Z then Z.to_N (z + 18446744073709551616)%Z else Z.to_N z.

(* for (jj = 0; jj < length; jj++) { ... }  the emission loop of pass 2 *)
Fixpoint emit_loop (n : nat) (head : Z) (next : list Z) (sums : list E)
         (oj : list N) (ox : list E) (nnz : N)
  : res (list Z * list E * list N * list E * N) :=
  match n with
  | O => Ok (next, sums, oj, ox, nnz)
  | S n' =>
      do s <- getN sums (zidx head);
      do '(oj', ox', nnz') <-
         (if negb (eis_zero Ops s) then
            do oj' <- setN oj nnz (u32 (zidx head));
            do ox' <- setN ox nnz s;
            Ok (oj', ox', uadd nnz 1)
          else Ok (oj, ox, nnz));
      let temp := u32 (zidx head) in
      do head' <- getN next (zidx head);
      do next' <- setN next temp (-1)%Z;
      do sums' <- setN sums temp (ezero Ops);
      emit_loop n' head' next' sums' oj' ox' nnz'
  end.

Definition matmat_pass2 (A B C : mat) : res mat :=
  let next0 := repeat (-1)%Z (N.to_nat (ccol B)) in
  let sums0 := repeat (ezero Ops) (N.to_nat (ccol B)) in
  do p0 <- setN (cp C) 0 0;
  do '(p1, oj, ox, _, _, nnz) <- for_range 0 (crow A) (fun i st =>
      let '(p, oj, ox, next, sums, nnz) := st in
      do a <- getN (cp A) i;
      do b <- getN (cp A) (uadd i 1);
      do '(next1, sums1, head, length) <- for_range a b (fun jj st =>
          do j <- getN (cj A) jj;
          do v <- getN (cx A) jj;
          do ka <- getN (cp B) j;
          do kb <- getN (cp B) (uadd j 1);
          for_range ka kb (fun kk st =>
            let '(next, sums, head, length) := st in
            do k <- getN (cj B) kk;
            do sk <- getN sums k;
            do bv <- getN (cx B) kk;
            do sums' <- setN sums k (eadd Ops sk (emul Ops v bv));
            do nk <- getN next k;
            if (nk =? -1)%Z then
              do next' <- setN next k head;
              Ok (next', sums', Z.of_N k, uadd length 1)
            else Ok (next, sums', head, length)) st) (next, sums, (-2)%Z, 0);
      do '(next2, sums2, oj', ox', nnz') <- emit_loop (N.to_nat length) head next1 sums1 oj ox nnz;
      do p' <- setN p (uadd i 1) nnz';
      Ok (p', oj', ox', next2, sums2, nnz')) (p0, cj C, cx C, next0, sums0, 0);
  (* C.j_.resize(nnz); C.x_.resize(nnz); csr_sort_indices(C.p_, C.j_, C.x_, A.row_) *)
  do '(j2, x2) <- sort_indices p1 (resizeN oj nnz 0) (resizeN ox nnz (ezero Ops)) (crow A);
  Ok (Build_csr p1 j2 x2 (crow C) (ccol C)).

(* The library has no caller of the two passes; the protocol used by the driver and here
   (the one of SciPy, where the code comes from):  C = CSRMatrix(A.row_, B.col_);  pass 1;
   C.j_ and C.x_ sized to C.p_[A.row_];  pass 2 (which now trims and sorts itself; the final
   resize of the protocol is kept and is a no-op) *)
Definition matmat (A B : mat) : res mat :=
  do C1 <- matmat_pass1 A B (mk_zero (crow A) (ccol B));
  do n1 <- getN (cp C1) (crow A);
  let C1' := Build_csr (cp C1) (resizeN (cj C1) n1 0) (resizeN (cx C1) n1 (ezero Ops)) (crow C1) (ccol C1) in
  do C2 <- matmat_pass2 A B C1';
  do n2 <- getN (cp C2) (crow A);
  Ok (Build_csr (cp C2) (resizeN (cj C2) n2 0) (resizeN (cx C2) n2 (ezero Ops)) (crow C2) (ccol C2)).

(* ---------- csr_diagonal ---------- *)
(* while (row_start < row_end) { jj = (row_start + row_end) / 2; ... }   half-open binary search *)
Fixpoint diag_loop (fuel : nat) (A : mat) (i rs re : N) : res E :=
  match fuel with
  | O => ErrFuel
  | S f =>
      if rs <? re then
        let jj := uadd rs re / 2 in
        do c <- getN (cj A) jj;
        if c =? i then getN (cx A) jj
        else if c <? i then diag_loop f A i (uadd jj 1) re
        else diag_loop f A i rs jj
      else Ok (ezero Ops)
  end.

(* returns the column vector D as a list of N = min(row, col) elements *)
Definition diagonal (A : mat) : res (list E) :=
  do r <- for_range 0 (N.min (crow A) (ccol A)) (fun i acc =>
      do rs <- getN (cp A) i;
      do re <- getN (cp A) (uadd i 1);
      do d <- diag_loop (S (N.to_nat (re - rs))) A i rs re;
      Ok (d :: acc)) [];
  Ok (rev r).

(* ---------- csr_scale_rows / csr_scale_columns ---------- *)
(* X is the column vector, X.get(i, 0) = nth i X (DenseMatrix::get is unchecked: m_[i*col_+j]) *)
Definition scale_rows (A : mat) (X : list E) : res mat :=
  do x' <- for_range 0 (crow A) (fun i xs =>
      do s <- getN X i;
      if eis_zero Ops s then ErrExn EXN_SYMENGINE
      else
        do a <- getN (cp A) i;
        do b <- getN (cp A) (uadd i 1);
        for_range a b (fun jj xs => do v <- getN xs jj; setN xs jj (emul Ops v s)) xs) (cx A);
  Ok (Build_csr (cp A) (cj A) x' (crow A) (ccol A)).

Definition scale_columns (A : mat) (X : list E) : res mat :=
  do nnz <- getN (cp A) (crow A);
  do _ <- for_range 0 (ccol A) (fun i (u : unit) =>
      do s <- getN X i; if eis_zero Ops s then ErrExn EXN_SYMENGINE else Ok tt) tt;
  do x' <- for_range 0 nnz (fun i xs =>
      do v <- getN xs i;
      do c <- getN (cj A) i;
      do s <- getN X c;
      setN xs i (emul Ops v s)) (cx A);
  Ok (Build_csr (cp A) (cj A) x' (crow A) (ccol A)).

(* ---------- CSRMatrix::jacobian ---------- *)
(* [d] is the table of the derivatives exprs[ri]->diff(x[ci]), one list of ncols entries per row *)
Definition jacobian (d : list (list E)) (ncols : N) : res mat :=
  let nrows := lenN d in
  do '(p, j, x) <- for_range 0 nrows (fun ri st =>
      let '(p, j, x) := st in
      do drow <- getN d ri;
      let p1 := p ++ [last p 0] in
      for_range 0 ncols (fun ci st =>
        let '(p, j, x) := st in
        do elem <- getN drow ci;
        if negb (eis_zero Ops elem) then
          Ok (removelast p ++ [uadd (last p 0) 1], j ++ [ci], x ++ [elem])
        else Ok (p, j, x)) (p1, j, x)) ([0], [], []);
  Ok (Build_csr p j x nrows ncols).

(* ---------- CSRMatrix::eq (against another CSRMatrix) ---------- *)
Definition csr_eq (a b : mat) : res bool :=
  let row := crow a in
  if negb (row =? crow b) || negb (ccol a =? ccol b) then Ok false
  else
    do na <- getN (cp a) row;
    do nb <- getN (cp b) row;
    if negb (na =? nb) then Ok false
    else
      do okp <- for_range 0 (row + 1) (fun i (ok : bool) =>
          if ok then do u <- getN (cp a) i; do v <- getN (cp b) i; Ok (u =? v) else Ok false) true;
      if (okp : bool) then
        for_range 0 na (fun i (ok : bool) =>
          if ok then
            do ja <- getN (cj a) i; do jb <- getN (cj b) i;
            if negb (ja =? jb) then Ok false
            else do xa <- getN (cx a) i; do xb <- getN (cx b) i; Ok (eeqb Ops xa xb)
          else Ok false) true
      else Ok false.

(* methods that throw NotImplementedError *)
Definition not_implemented : res mat := ErrExn EXN_NOTIMPL.

End Model.

(* ---------- the instance used for extraction: Gaussian integers a + b*I ---------- *)
Definition gi := (Z * Z)%type.
Local Open Scope Z_scope.
Definition gi_zero : gi := (0, 0).
Definition gi_add (a b : gi) : gi := (fst a + fst b, snd a + snd b).
Definition gi_sub (a b : gi) : gi := (fst a - fst b, snd a - snd b).
Definition gi_mul (a b : gi) : gi := (fst a * fst b - snd a * snd b, fst a * snd b + snd a * fst b).
Definition gi_conj (a : gi) : gi := (fst a, - snd a).
Definition gi_is_zero (a : gi) : bool := (fst a =? 0) && (snd a =? 0).
Definition gi_eqb (a b : gi) : bool := (fst a =? fst b) && (snd a =? snd b).
Definition gi_ops : eops gi :=
  {| ezero := gi_zero; eadd := gi_add; emul := gi_mul; econj := gi_conj;
     eis_zero := gi_is_zero; eeqb := gi_eqb |}.
