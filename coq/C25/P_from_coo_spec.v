(* C25 obligation: CSRMatrix::from_coo: the result is canonical, columns in range, and every entry is the sum of all values given for its position (duplicates summed). *)
From SE Require Import C25.CsrFromCoo.
Local Open Scope N_scope.
Theorem C25_from_coo_spec :
  forall (E : Type) (Ops : eops E) (row col : N) (is js : list N) (xs : list E),
    comm_monoid Ops ->
    row < 2 ^ 31 -> col < 2 ^ 31 -> row * col < 2 ^ 31 -> lenN xs < 2 ^ 31 ->
    length is = length xs -> length js = length xs ->
    Forall (fun i : N => i < row) is -> Forall (fun c : N => c < col) js ->
    exists m : csr E,
      from_coo Ops row col is js xs = Ok m /\ crow m = row /\ ccol m = col /\ Inv m /\
      (forall i c : N, i < row -> c < col -> entry Ops m i c = esum Ops (coo_values is js xs i c)).
Proof. exact @from_coo_spec. Qed.
Print Assumptions C25_from_coo_spec.
