(* C25 -- csr_matmat, part 2: csr_matmat_pass1 computes the structural row pointers. *)
From SE Require Export C25.CsrMatmat1.
Local Open Scope N_scope.
Local Open Scope res_scope.

(* ---------- partial sums of a function on N ---------- *)
Fixpoint sum_nat (f : N -> N) (n : nat) : N :=
  match n with
  | O => 0
  | S n' => sum_nat f n' + f (N.of_nat n')
  end.
Definition sumN (f : N -> N) (i : N) : N := sum_nat f (N.to_nat i).

Lemma sumN_0 f : sumN f 0 = 0.
Proof. reflexivity. Qed.

Lemma sumN_succ f i : sumN f (i + 1) = sumN f i + f i.
Proof.
  unfold sumN. replace (N.to_nat (i + 1)) with (S (N.to_nat i)) by lia.
  cbn [sum_nat]. rewrite N2Nat.id. reflexivity.
Qed.

Lemma sumN_le_mul f c i : (forall r, r < i -> f r <= c) -> sumN f i <= i * c.
Proof.
  induction i using N.peano_ind; intros H; [rewrite sumN_0; lia|].
  replace (N.succ i) with (i + 1) in * by lia. rewrite sumN_succ.
  specialize (IHi ltac:(intros; apply H; lia)). specialize (H i ltac:(lia)). nia.
Qed.

Lemma sumN_mono f a b : a <= b -> sumN f a <= sumN f b.
Proof.
  induction b using N.peano_ind; intros H.
  - replace a with 0 by lia. lia.
  - destruct (N.eq_dec a (N.succ b)) as [->|]; [lia|].
    replace (N.succ b) with (b + 1) in * by lia. rewrite sumN_succ. specialize (IHb ltac:(lia)). lia.
Qed.

Lemma sumN_le f g i : (forall r, r < i -> f r <= g r) -> sumN f i <= sumN g i.
Proof.
  induction i using N.peano_ind; intros H; [rewrite !sumN_0; lia|].
  replace (N.succ i) with (i + 1) in * by lia. rewrite !sumN_succ.
  specialize (IHi ltac:(intros; apply H; lia)). specialize (H i ltac:(lia)). lia.
Qed.

Lemma memN_app k l1 l2 : memN k (l1 ++ l2) = memN k l1 || memN k l2.
Proof. apply existsb_app. Qed.

Lemma memN_single k x : memN k [x] = (k =? x).
Proof. unfold memN. cbn [existsb]. apply orb_false_r. Qed.

Lemma memN_disc k L : memN k (disc L) = memN k L.
Proof.
  destruct (memN k L) eqn:H.
  - apply memN_spec. apply disc_in. apply memN_spec. assumption.
  - apply memN_false. rewrite disc_in. apply memN_false. assumption.
Qed.

Section Pass1.
Context {E : Type}.
Variable Ops : eops E.
Variables A B : csr E.
Hypothesis HA : @Inv E A.
Hypothesis HB : @Inv E B.
Hypothesis Hd : ccol A = crow B.
Hypothesis Hsz : crow A * ccol B < 2 ^ 31.
Notation items := (items Ops A B).
Notation items_at := (items_at Ops A B).

(* number of distinct columns reachable in row i *)
Definition cnt (i : N) : N := lenN (disc (map fst (items i))).
Definition psum (i : N) : N := sumN cnt i.

Lemma cnt_le i : i < crow A -> cnt i <= ccol B.
Proof.
  intros Hi. unfold cnt. apply nodup_bounded; [apply disc_nodup|].
  intros k Hk. rewrite disc_in in Hk. apply (items_col_lt Ops A B i k); assumption.
Qed.

Lemma psum_le i : i <= crow A -> psum i <= i * ccol B.
Proof. intros Hi. apply sumN_le_mul. intros r Hr. apply cnt_le. lia. Qed.

Lemma psum_small i : i <= crow A -> psum i < 2 ^ 31.
Proof. intros Hi. pose proof (psum_le i Hi). nia. Qed.

Lemma wfA : @wf E A. Proof. apply HA. Qed.
Lemma wfB : @wf E B. Proof. apply HB. Qed.
Lemma colA_small : ccol A < 2 ^ 31. Proof. destruct HA as (_ & _ & (_ & H & _)). exact H. Qed.
Lemma rowA_small : crow A < 2 ^ 31. Proof. destruct HA as (_ & _ & (H & _)). exact H. Qed.
Lemma colB_small : ccol B < 2 ^ 31. Proof. destruct HB as (_ & _ & (_ & H & _)). exact H. Qed.

(* facts about the positions visited *)
Lemma posA i jj : i < crow A -> pN A i <= jj -> jj < pN A (i + 1) ->
  jj < lenN (cj A) /\ lenN (cx A) = lenN (cj A) /\ nthN (cj A) jj 0 < crow B.
Proof.
  intros Hi H1 H2. pose proof (pN_le_nnz A wfA (i + 1) ltac:(lia)).
  destruct HA as (_ & Hc & _). rewrite <- Hd. split; [lia|]. split; [apply wfA|]. apply Hc. lia.
Qed.

Lemma posB j kk : j < crow B -> pN B j <= kk -> kk < pN B (j + 1) ->
  kk < lenN (cj B) /\ lenN (cx B) = lenN (cj B) /\ nthN (cj B) kk 0 < ccol B.
Proof.
  intros Hj H1 H2. pose proof (pN_le_nnz B wfB (j + 1) ltac:(lia)).
  destruct HB as (_ & Hc & _). split; [lia|]. split; [apply wfB|]. apply Hc. lia.
Qed.

Lemma pA_le i : i < crow A -> pN A i <= pN A (i + 1).
Proof. intros. apply (pN_mono A wfA); lia. Qed.
Lemma pB_le j : j < crow B -> pN B j <= pN B (j + 1).
Proof. intros. apply (pN_mono B wfB); lia. Qed.

(* ---------- the loops of one row ---------- *)
Definition Q1 (i : N) (mask0 : list N) (L : list (N * E)) (st : list N * N) : Prop :=
  let '(mask, rn) := st in
  lenN mask = ccol B /\
  (forall k, k < ccol B -> nthN mask k 0 = if memN k (map fst L) then i else nthN mask0 k 0) /\
  rn = lenN (disc (map fst L)) /\
  (forall k, In k (map fst L) -> k < ccol B).

Lemma p1_inner i mask0 jj L st :
  (forall k, k < ccol B -> nthN mask0 k 0 <> i) ->
  nthN (cj A) jj 0 < crow B ->
  Q1 i mask0 L st ->
  exists st',
    for_range (pN B (nthN (cj A) jj 0)) (pN B (nthN (cj A) jj 0 + 1)) (fun kk st =>
            let '(mask, row_nnz) := st in
            do k <- getN (cj B) kk;
            do mk <- getN mask k;
            if negb (mk =? i) then
              do mask' <- setN mask k i; Ok (mask', uadd row_nnz 1)
            else Ok (mask, row_nnz)) st = Ok st' /\
    Q1 i mask0 (L ++ items_at jj) st'.
Proof.
  intros Hpre Hj HQ. unfold CsrMatmat1.items_at.
  apply (for_range_acc1 (Q1 i mask0)); [apply pB_le; assumption|assumption|].
  clear L st HQ. intros kk L [mask rn] K1 K2 (Q1a & Q1b & Q1c & Q1d).
  destruct (posB _ kk Hj K1 K2) as (P1 & P2 & P3).
  set (k := nthN (cj B) kk 0) in *.
  rewrite (getN_ok (cj B) kk 0) by lia. cbn [bind]. fold k.
  rewrite (getN_ok mask k 0) by lia. cbn [bind].
  rewrite (Q1b k) by lia.
  assert (Hin : forall c, In c (map fst (L ++ [(k, emul Ops (nthN (cx A) jj (ezero Ops)) (nthN (cx B) kk (ezero Ops)))])) -> c < ccol B).
  { intros c. rewrite map_app, in_app_iff. cbn [map fst In]. intros [H|[<-|[]]]; auto. }
  destruct (memN k (map fst L)) eqn:Hmem.
  - rewrite N.eqb_refl. cbn [negb]. eexists. split; [reflexivity|].
    unfold Q1. split; [assumption|]. split; [|split; [|assumption]].
    + intros c Hc. rewrite map_app, memN_app. cbn [map fst]. rewrite memN_single.
      rewrite (Q1b c Hc). destruct (N.eqb_spec c k) as [->|]; [rewrite Hmem; reflexivity|].
      rewrite orb_false_r. reflexivity.
    + rewrite map_app. cbn [map fst]. rewrite disc_snoc. unfold disc_step.
      rewrite memN_disc, Hmem. assumption.
  - destruct (N.eqb_spec (nthN mask0 k 0) i) as [Heq|Hne]; [exfalso; apply (Hpre k); [lia|assumption]|].
    cbn [negb]. rewrite setN_ok by lia. cbn [bind]. eexists. split; [reflexivity|].
    assert (Hlen : lenN (disc (map fst L ++ [k])) = rn + 1).
    { rewrite disc_snoc. unfold disc_step. rewrite memN_disc, Hmem, lenN_cons. lia. }
    assert (Hb : lenN (disc (map fst L ++ [k])) <= ccol B).
    { apply nodup_bounded; [apply disc_nodup|]. intros c Hc. rewrite disc_in in Hc.
      apply Hin. rewrite map_app. exact Hc. }
    unfold Q1. split; [rewrite lenN_updn; lia|]. split; [|split; [|assumption]].
    + intros c Hc. rewrite nthN_updn by lia. rewrite map_app, memN_app. cbn [map fst].
      rewrite memN_single. destruct (N.eqb_spec c k) as [->|]; [rewrite orb_true_r; reflexivity|].
      rewrite orb_false_r. apply Q1b; assumption.
    + rewrite map_app. cbn [map fst]. rewrite Hlen. apply uadd_small.
      pose proof colB_small. lia.
Qed.

Lemma p1_row i mask0 st :
  i < crow A ->
  (forall k, k < ccol B -> nthN mask0 k 0 <> i) ->
  Q1 i mask0 [] st ->
  exists st',
    for_range (pN A i) (pN A (i + 1)) (fun jj st =>
          do j <- getN (cj A) jj;
          do ka <- getN (cp B) j;
          do kb <- getN (cp B) (uadd j 1);
          for_range ka kb (fun kk st =>
            let '(mask, row_nnz) := st in
            do k <- getN (cj B) kk;
            do mk <- getN mask k;
            if negb (mk =? i) then
              do mask' <- setN mask k i; Ok (mask', uadd row_nnz 1)
            else Ok (mask, row_nnz)) st) st = Ok st' /\
    Q1 i mask0 (items i) st'.
Proof.
  intros Hi Hpre HQ. unfold CsrMatmat1.items.
  apply (for_range_accl (Q1 i mask0) items_at _ _ _ _ []); [apply pA_le; assumption|assumption|].
  clear st HQ. intros jj L st K1 K2 HQ.
  destruct (posA i jj Hi K1 K2) as (P1 & P2 & P3).
  rewrite (getN_ok (cj A) jj 0) by lia. cbn [bind].
  set (j := nthN (cj A) jj 0) in *.
  rewrite (getN_p B j wfB) by lia. cbn [bind].
  pose proof colA_small.
  rewrite uadd_small by lia.
  rewrite (getN_p B (j + 1) wfB) by lia. cbn [bind].
  apply p1_inner; assumption.
Qed.

(* ---------- the whole pass ---------- *)
Definition R1 (i : N) (st : list N * list N * N) : Prop :=
  let '(p, mask, nnz) := st in
  lenN p = crow A + 1 /\ lenN mask = ccol B /\
  (forall k, k < ccol B -> nthN mask k 0 = MASK_INIT \/ nthN mask k 0 < i) /\
  nnz = psum i /\
  (forall r, r <= i -> nthN p r 0 = psum r).

Theorem pass1_spec (C0 : csr E) : lenN (cp C0) = crow A + 1 ->
  exists p1, matmat_pass1 A B C0 = Ok (Build_csr p1 (cj C0) (cx C0) (crow C0) (ccol C0)) /\
    lenN p1 = crow A + 1 /\ forall r, r <= crow A -> nthN p1 r 0 = psum r.
Proof.
  intros HC. unfold matmat_pass1.
  rewrite setN_ok by lia. cbn [bind].
  match goal with |- context [for_range 0 (crow A) ?body ?s] =>
    destruct (for_range_inv R1 body 0 (crow A) s) as (st' & Hrun & HR) end.
  - lia.
  - unfold R1. split; [rewrite lenN_updn; lia|]. split; [rewrite lenN_repeat; lia|].
    split; [|split; [reflexivity|]].
    + intros k Hk. left. apply nthN_repeat. lia.
    + intros r Hr. replace r with 0 by lia. rewrite nthN_updn by lia. reflexivity.
  - intros i [[p mask] nnz] _ Hi (R1a & R1b & R1c & R1d & R1e).
    pose proof rowA_small as Hrow.
    rewrite (getN_p A i wfA) by lia. cbn [bind].
    rewrite uadd_small by lia.
    rewrite (getN_p A (i + 1) wfA) by lia. cbn [bind].
    assert (Hpre : forall k, k < ccol B -> nthN mask k 0 <> i).
    { intros k Hk. destruct (R1c k Hk) as [->|]; [unfold MASK_INIT|]; lia. }
    destruct (p1_row i mask (mask, 0) Hi Hpre) as ([mask' rn] & Hrow' & (Qa & Qb & Qc & Qd)).
    { unfold Q1. cbn [map]. split; [assumption|]. split; [|split; [reflexivity|intros ? []]].
      intros; reflexivity. }
    rewrite Hrow'. cbn [bind].
    assert (Hn : psum (i + 1) = nnz + rn).
    { unfold psum. rewrite sumN_succ. fold (psum i). unfold cnt. lia. }
    pose proof (psum_small (i + 1) ltac:(lia)).
    rewrite uadd_small by lia.
    destruct (N.ltb_spec (nnz + rn) nnz); [lia|].
    rewrite setN_ok by lia. cbn [bind]. eexists. split; [reflexivity|].
    unfold R1. split; [rewrite lenN_updn; lia|]. split; [assumption|].
    split; [|split; [lia|]].
    + intros k Hk. rewrite (Qb k Hk). destruct (memN k (map fst (items i))); [right; lia|].
      destruct (R1c k Hk); [left; assumption|right; lia].
    + intros r Hr. rewrite nthN_updn by lia.
      destruct (N.eqb_spec r (i + 1)) as [->|]; [lia|]. apply R1e. lia.
  - rewrite Hrun. destruct st' as [[p1 mask] nnz]. cbn [bind].
    destruct HR as (R1a & _ & _ & _ & R1e). exists p1. auto.
Qed.

End Pass1.
