(* C25 obligation: REFUTED: is_canonical accepts arrays with non-monotone row pointers when nothing is stored (the zero-matrix shortcut); get then reads out of range. *)
From SE Require Import C25.CsrInst.
Local Open Scope N_scope.
Theorem C25_is_canonical_sound_refuted :
  exists m : csr gi, is_canonical m = Ok true /\ ~ wf m /\ get gi_ops m 0 0 = ErrOOB 2 0.
Proof. exact is_canonical_sound_refuted. Qed.
Print Assumptions C25_is_canonical_sound_refuted.
