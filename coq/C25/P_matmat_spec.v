(* C25 obligation: csr_matmat_pass1 + csr_matmat_pass2 (driver protocol: allocate C(A.rows, B.cols), pass 1, size j_/x_, pass 2) on canonical operands of any compatible shapes: success (no out-of-range access, no overflow error), canonical result, every entry is the dense matrix product. *)
From SE Require Import C25.CsrMatmat.
Local Open Scope N_scope.
Theorem C25_matmat_spec :
  forall (E : Type) (Ops : eops E) (A B : csr E),
    semiring Ops -> zero_test_sound Ops ->
    Inv A -> Inv B -> ccol A = crow B -> crow A * ccol B < 2 ^ 31 ->
    exists C : csr E,
      matmat Ops A B = Ok C /\ crow C = crow A /\ ccol C = ccol B /\ Inv C /\
      (forall i k : N, i < crow A -> k < ccol B ->
         entry Ops C i k = dsum Ops (ccol A) (fun j : N => emul Ops (entry Ops A i j) (entry Ops B j k))).
Proof. exact @matmat_spec. Qed.
Print Assumptions C25_matmat_spec.
