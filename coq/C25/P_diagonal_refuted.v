(* C25 obligation: REFUTED: csr_diagonal's inclusive binary search reads one position behind the row (out of range on the empty 2x2 matrix), wraps below zero on [[0,1]], and returns the next row's entry for an empty row. *)
From SE Require Import C25.CsrInst.
Local Open Scope N_scope.
Theorem C25_diagonal_refuted :
  (exists m : csr gi, Inv m /\ diagonal gi_ops m = ErrOOB 0 0) /\
  (exists m : csr gi, Inv m /\ diagonal gi_ops m = ErrOOB 2147483647 1) /\
  (exists m : csr gi, Inv m /\ diagonal gi_ops m = Ok [g (-2)] /\ entry gi_ops m 0 0 = g 0).
Proof. exact (conj diagonal_oob_refuted (conj diagonal_underflow_refuted diagonal_value_refuted)). Qed.
Print Assumptions C25_diagonal_refuted.
