(* C25 obligation: a matrix with stored entries and p_[0] = 0 that CSRMatrix::is_canonical accepts is canonical (guards: see the refutation). *)
From SE Require Import C25.CsrInst.
Local Open Scope N_scope.
Theorem C25_is_canonical_sound_guarded :
  forall (E : Type) (m : csr E),
    is_canonical m = Ok true -> pN m 0 = 0 -> lenN (cj m) <> 0 ->
    crow m < 2 ^ 31 -> lenN (cj m) < 2 ^ 31 -> canon m.
Proof. exact @is_canonical_sound_guarded. Qed.
Print Assumptions C25_is_canonical_sound_guarded.
