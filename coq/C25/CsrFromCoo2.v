(* C25 -- proofs, from_coo part 2: csr_sort_indices. *)
From SE Require Export C25.CsrFromCoo1.
Local Open Scope N_scope.
Local Open Scope res_scope.

Section FromCoo2.
Context {E : Type}.
Variable Ops : eops E.
Notation mat := (csr E).
Notation entry := (entry Ops).
Notation row_of := (row_of Ops).
Notation segN := (segN Ops).
Notation e0 := (ezero Ops).

(* ---------- the insertion sort ---------- *)
Lemma ins_pair_perm (a : N * E) l : Permutation (ins_pair a l) (a :: l).
Proof.
  induction l as [|b r IH]; cbn [ins_pair]; [apply Permutation_refl|].
  destruct (fst b <=? fst a).
  - eapply perm_trans; [apply perm_skip; exact IH|]. apply perm_swap.
  - apply Permutation_refl.
Qed.

Lemma ins_pair_srt (a : N * E) l : srt N.le l -> srt N.le (ins_pair a l).
Proof.
  induction l as [|b r IH]; intros Hs; cbn [ins_pair].
  - cbn [srt]. split; [intros ? []|exact I].
  - cbn [srt] in Hs. destruct Hs as (H1 & H2).
    destruct (N.leb_spec (fst b) (fst a)) as [Hle|Hgt].
    + cbn [srt]. split; [|apply IH; assumption].
      intros e He. apply (Permutation_in _ (ins_pair_perm a r)) in He.
      destruct He as [<-|He]; [assumption|apply H1; assumption].
    + cbn [srt]. split; [|split; assumption].
      intros e [<-|He]; [lia|]. specialize (H1 e He). lia.
Qed.

Lemma sort_pairs_perm (l : list (N * E)) : Permutation (sort_pairs l) l.
Proof.
  unfold sort_pairs.
  assert (H : forall (l acc : list (N * E)), Permutation (fold_left (fun acc a => ins_pair a acc) l acc) (acc ++ l)).
  { clear l. induction l as [|a l IH]; intros acc; cbn [fold_left].
    - rewrite app_nil_r. apply Permutation_refl.
    - eapply perm_trans; [apply IH|].
      eapply perm_trans; [apply Permutation_app_tail; apply ins_pair_perm|].
      cbn [app]. apply Permutation_middle. }
  apply (H l []).
Qed.

Lemma sort_pairs_srt (l : list (N * E)) : srt N.le (sort_pairs l).
Proof.
  unfold sort_pairs.
  assert (H : forall (l acc : list (N * E)), srt N.le acc -> srt N.le (fold_left (fun acc a => ins_pair a acc) l acc)).
  { clear l. induction l as [|a l IH]; intros acc Hs; cbn [fold_left]; [assumption|].
    apply IH. apply ins_pair_srt; assumption. }
  apply H. exact I.
Qed.

(* ---------- read_pairs / write_pairs ---------- *)
Lemma read_pairs_spec js (xs : list E) a b : a <= b -> b <= lenN js -> lenN xs = lenN js ->
  read_pairs js xs a b = Ok (segN js xs a b).
Proof.
  intros Hab Hb Hx. unfold read_pairs.
  match goal with |- context [for_range a b ?body ?s] =>
    destruct (for_range_inv (fun k acc => acc = rev (segN js xs a k)) body a b s) as (s' & Hf & HP) end.
  - assumption.
  - rewrite segN_nil by lia. reflexivity.
  - intros k acc K1 K2 ->.
    rewrite (getN_ok js k 0) by lia. cbn [bind].
    rewrite (getN_ok xs k e0) by lia. cbn [bind].
    eexists. split; [reflexivity|].
    rewrite segN_snoc by lia. rewrite rev_app_distr. reflexivity.
  - rewrite Hf. cbn [bind]. rewrite HP, rev_involutive. reflexivity.
Qed.

Lemma write_pairs_spec : forall (temp : list (N * E)) js xs a,
  a + lenN temp <= lenN js -> lenN xs = lenN js ->
  exists js' xs', write_pairs temp js xs a = Ok (js', xs') /\
    lenN js' = lenN js /\ lenN xs' = lenN xs /\
    segN js' xs' a (a + lenN temp) = temp /\
    (forall k, k < a \/ a + lenN temp <= k ->
               nthN js' k 0 = nthN js k 0 /\ nthN xs' k e0 = nthN xs k e0).
Proof.
  induction temp as [|[c v] r IH]; intros js xs a Ha Hx; cbn [write_pairs].
  - exists js, xs. split; [reflexivity|]. repeat split.
    rewrite segN_nil by (rewrite lenN_nil; lia). reflexivity.
  - rewrite lenN_cons in *.
    rewrite (setN_ok js a) by lia. cbn [bind].
    rewrite (setN_ok xs a) by lia. cbn [bind].
    set (js1 := updn (N.to_nat a) js c). set (xs1 := updn (N.to_nat a) xs v).
    assert (L1 : lenN js1 = lenN js) by (apply lenN_updn; lia).
    assert (L2 : lenN xs1 = lenN xs) by (apply lenN_updn; lia).
    destruct (IH js1 xs1 (a + 1)) as (js' & xs' & W1 & W2 & W3 & W4 & W5); try lia.
    exists js', xs'. split; [exact W1|]. split; [lia|]. split; [lia|]. split.
    + rewrite segN_cons by lia.
      replace (a + (lenN r + 1)) with (a + 1 + lenN r) by lia. rewrite W4.
      destruct (W5 a) as (E1 & E2); [lia|]. rewrite E1, E2.
      unfold js1, xs1. rewrite !nthN_updn by lia. rewrite N.eqb_refl. reflexivity.
    + intros k Hk. destruct (W5 k) as (E1 & E2); [lia|]. rewrite E1, E2.
      unfold js1, xs1. rewrite !nthN_updn by lia.
      destruct (N.eqb_spec k a); [lia|]. split; reflexivity.
Qed.

(* ---------- csr_sort_indices ---------- *)
(* general form: p only has to be monotone with p[row] inside the arrays *)
Theorem sort_indices_gen (p j : list N) (x : list E) (row : N) :
  lenN p = row + 1 ->
  (forall i, i < row -> nthN p i 0 <= nthN p (i + 1) 0) ->
  nthN p row 0 <= lenN j -> lenN x = lenN j -> lenN j < 2 ^ 31 -> row < 2 ^ 31 ->
  exists j' x', sort_indices p j x row = Ok (j', x') /\
    lenN j' = lenN j /\ lenN x' = lenN x /\
    (forall i, i < row ->
       Permutation (segN j' x' (nthN p i 0) (nthN p (i + 1) 0)) (segN j x (nthN p i 0) (nthN p (i + 1) 0)) /\
       srt N.le (segN j' x' (nthN p i 0) (nthN p (i + 1) 0))) /\
    (forall k, k < nthN p 0 0 \/ nthN p row 0 <= k ->
       nthN j' k 0 = nthN j k 0 /\ nthN x' k e0 = nthN x k e0).
Proof.
  intros Lp Hm Hpr Hx Hsmall Hrow.
  pose proof (mono_le p row Hm) as Hmono.
  set (P := fun (i : N) (s : list N * list E) =>
     let '(js', xs') := s in
     lenN js' = lenN j /\ lenN xs' = lenN x /\
     (forall k, k < nthN p 0 0 \/ nthN p i 0 <= k ->
        nthN js' k 0 = nthN j k 0 /\ nthN xs' k e0 = nthN x k e0) /\
     (forall r, r < i ->
        Permutation (segN js' xs' (nthN p r 0) (nthN p (r + 1) 0)) (segN j x (nthN p r 0) (nthN p (r + 1) 0)) /\
        srt N.le (segN js' xs' (nthN p r 0) (nthN p (r + 1) 0)))).
  unfold sort_indices.
  match goal with |- context [for_range 0 row ?body ?s] =>
    destruct (for_range_inv P body 0 row s) as (s' & Hf & HP) end.
  - lia.
  - unfold P. repeat split; intros; lia.
  - intros i [js' xs'] _ Hi HP. unfold P in HP. destruct HP as (L1 & L2 & Hsame & Hdone).
    rewrite (getN_ok p i 0) by lia. cbn [bind].
    rewrite uadd_small by lia.
    rewrite (getN_ok p (i + 1) 0) by lia. cbn [bind].
    set (a := nthN p i 0) in *. set (b := nthN p (i + 1) 0) in *.
    assert (Hab : a <= b) by (apply Hm; lia).
    assert (Hb : b <= lenN j) by (specialize (Hmono row (i + 1)); lia).
    rewrite read_pairs_spec by lia. cbn [bind].
    assert (Hseg : segN js' xs' a b = segN j x a b).
    { apply segN_ext. intros k K1 K2. apply Hsame. lia. }
    rewrite Hseg.
    set (temp := segN j x a b).
    assert (Hlen : lenN (sort_pairs temp) = b - a).
    { unfold lenN. rewrite (Permutation_length (sort_pairs_perm temp)).
      fold (lenN temp). unfold temp. apply segN_length. }
    destruct (write_pairs_spec (sort_pairs temp) js' xs' a) as (js2 & xs2 & W1 & W2 & W3 & W4 & W5); try lia.
    rewrite W1. eexists. split; [reflexivity|]. unfold P.
    replace (a + lenN (sort_pairs temp)) with b in * by lia.
    split; [lia|]. split; [lia|]. split.
    + intros k Hk. pose proof (Hmono i 0 ltac:(lia) ltac:(lia)) as H0. fold a in H0.
      destruct (W5 k) as (E1 & E2); [lia|]. rewrite E1, E2. apply Hsame. lia.
    + intros r Hr. destruct (N.eq_dec r i) as [->|Hne].
      * fold a b. rewrite W4. split; [apply sort_pairs_perm|apply sort_pairs_srt].
      * destruct (Hdone r ltac:(lia)) as (D1 & D2).
        pose proof (Hmono i (r + 1) ltac:(lia) ltac:(lia)) as Hle. fold a in Hle.
        assert (Hs2 : segN js2 xs2 (nthN p r 0) (nthN p (r + 1) 0) = segN js' xs' (nthN p r 0) (nthN p (r + 1) 0)).
        { apply segN_ext. intros k K1 K2. apply W5. lia. }
        rewrite Hs2. split; assumption.
  - rewrite Hf. destruct s' as [j' x']. unfold P in HP. destruct HP as (L1 & L2 & Hsame & Hdone).
    exists j', x'. split; [reflexivity|]. repeat split; try assumption.
    + apply Hdone; assumption.
    + apply Hdone; assumption.
    + apply Hsame; assumption.
    + apply Hsame; assumption.
Qed.

Theorem sort_indices_spec (m : mat) :
  wf m -> lenN (cj m) < 2 ^ 31 -> crow m < 2 ^ 31 ->
  exists j' x', sort_indices (cp m) (cj m) (cx m) (crow m) = Ok (j', x') /\
    let m' := Build_csr (cp m) j' x' (crow m) (ccol m) in
    lenN j' = lenN (cj m) /\ lenN x' = lenN (cx m) /\ wf m' /\
    (forall i, i < crow m -> Permutation (row_of m' i) (row_of m i) /\ row_nondecr m' i).
Proof.
  intros Hwf Hsmall Hrow. destruct Hwf as (W1 & W2 & W3 & W4 & W5).
  destruct (sort_indices_gen (cp m) (cj m) (cx m) (crow m)) as (j' & x' & H1 & H2 & H3 & H4 & H5);
    try assumption.
  - unfold pN in W4. lia.
  - exists j', x'. split; [exact H1|]. cbn zeta.
    split; [assumption|]. split; [assumption|]. split.
    + unfold wf, pN in *. cbn [cp cj cx crow]. repeat split; try assumption; lia.
    + intros i Hi. destruct (H4 i Hi) as (P1 & P2). split.
      * exact P1.
      * apply (proj2 (row_nondecr_srt Ops _ i)). exact P2.
Qed.

End FromCoo2.
