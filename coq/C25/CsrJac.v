(* C25 -- proofs, part 6: CSRMatrix::jacobian (rows built by push_back from a dense table of
   derivatives, zeros skipped). *)
From SE Require Export C25.CsrMisc.
Local Open Scope N_scope.
Local Open Scope res_scope.

Section Jac.
Context {E : Type}.
Variable Ops : eops E.
Notation mat := (csr E).
Notation entry := (entry Ops).
Notation lookup := (lookup Ops).
Notation Inv := (Inv (E:=E)).
Notation seg := (seg Ops).
Notation bsorted := (bsorted (E:=E)).
Hypothesis Hz : zero_test_sound Ops.

(* the stored part of a dense row: (column, value) for the non-zero values among the first n *)
Definition nz (e : N * E) : bool := negb (eis_zero Ops (snd e)).
Definition frow (drow : list E) (a : N) (n : nat) : list (N * E) :=
  filter nz (map (fun c => (c, nthN drow c (ezero Ops))) (Nseq a n)).

Lemma frow_S drow a n :
  frow drow a (S n) = frow drow a n ++ (if negb (eis_zero Ops (nthN drow (a + N.of_nat n) (ezero Ops)))
                                         then [(a + N.of_nat n, nthN drow (a + N.of_nat n) (ezero Ops))] else []).
Proof.
  unfold frow. rewrite Nseq_S, map_app, filter_app. cbn [map filter]. unfold nz at 2. cbn [snd]. reflexivity.
Qed.

Lemma frow_bsorted drow hi : forall n a lo, lo <= a -> a + N.of_nat n <= hi -> bsorted lo hi (frow drow a n).
Proof.
  induction n; intros a lo H1 H2; [exact I|].
  unfold frow. cbn [Nseq map filter]. unfold nz at 1. cbn [snd].
  destruct (eis_zero Ops (nthN drow a (ezero Ops))); cbn [negb].
  - apply IHn; lia.
  - cbn [CsrBinop.bsorted fst]. split; [lia|]. split; [lia|]. apply IHn; lia.
Qed.

Lemma frow_lookup drow c : forall n a, a <= c -> c < a + N.of_nat n ->
  lookup c (frow drow a n) = nthN drow c (ezero Ops).
Proof.
  induction n; intros a H1 H2; [lia|].
  unfold frow. cbn [Nseq map filter]. unfold nz at 1. cbn [snd].
  destruct (N.eq_dec a c) as [->|Hne].
  - destruct (eis_zero Ops (nthN drow c (ezero Ops))) eqn:Hzero; cbn [negb].
    + rewrite (Hz _ Hzero).
      apply (lookup_below Ops (c + 1) (c + 1 + N.of_nat n)); [apply frow_bsorted; lia|lia].
    + rewrite lookup_cons. cbn [fst snd]. rewrite N.eqb_refl. reflexivity.
  - destruct (eis_zero Ops (nthN drow a (ezero Ops))); cbn [negb].
    + apply IHn; lia.
    + rewrite lookup_cons. cbn [fst]. destruct (N.eqb_spec a c); [lia|]. apply IHn; lia.
Qed.

Lemma last_nth' {A} (l : list A) d : last l d = nth (length l - 1) l d.
Proof.
  induction l as [|a l IH]; [reflexivity|].
  destruct l as [|b l']; [reflexivity|].
  change (last (a :: b :: l') d) with (last (b :: l') d). rewrite IH.
  cbn [length]. replace (S (S (length l')) - 1)%nat with (S (S (length l') - 1)) by lia. reflexivity.
Qed.

Theorem jacobian_spec (d : list (list E)) (ncols : N) :
  lenN d < 2 ^ 31 -> ncols < 2 ^ 31 -> lenN d * ncols < 2 ^ 31 ->
  (forall i, i < lenN d -> lenN (nthN d i []) = ncols) ->
  exists R, jacobian Ops d ncols = Ok R /\ Inv R /\ crow R = lenN d /\ ccol R = ncols /\
    forall i c, i < lenN d -> c < ncols -> entry R i c = nthN (nthN d i []) c (ezero Ops).
Proof.
  intros Hr Hc Hrc Hd. unfold jacobian.
  set (nrows := lenN d) in *.
  pose (Pinv := fun (i : N) (st : list N * list N * list E) =>
      let '(p, j, x) := st in
      lenN p = i + 1 /\ nthN p 0 0 = 0 /\ lenN x = lenN j /\ nthN p i 0 = lenN j /\
      lenN j <= i * ncols /\ (forall k, k < lenN j -> nthN j k 0 < ncols) /\
      forall i', i' < i ->
        nthN p i' 0 <= nthN p (i' + 1) 0 /\ nthN p (i' + 1) 0 <= lenN j /\
        seg j x (nthN p i' 0) (N.to_nat (nthN p (i' + 1) 0 - nthN p i' 0)) = frow (nthN d i' []) 0 (N.to_nat ncols)).
  match goal with |- context [for_range 0 nrows ?b ?s0] => set (body := b) end.
  destruct (for_range_inv Pinv body 0 nrows ([0], [], [])) as (st & Hrun & Hfin).
  - lia.
  - unfold Pinv. repeat split; try reflexivity; try lia.
    intros k Hk. unfold lenN in Hk; cbn in Hk; lia.
  - intros ri [[p j] x] I1 I2 (P1 & P2 & P3 & P4 & P5 & P6 & P7).
    unfold body. rewrite (getN_ok d ri []) by assumption. cbn [bind].
    set (drow := nthN d ri []). assert (Hdl : lenN drow = ncols) by (apply Hd; assumption).
    assert (Hlast : last p 0 = lenN j).
    { rewrite <- P4. rewrite last_nth'. unfold nthN. f_equal. unfold lenN in P1; lia. }
    rewrite Hlast.
    (* the inner loop over the columns *)
    destruct (for_range_inv
      (fun ci (st : list N * list N * list E) =>
         st = (p ++ [lenN j + lenN (frow drow 0 (N.to_nat ci))],
               j ++ map fst (frow drow 0 (N.to_nat ci)), x ++ map snd (frow drow 0 (N.to_nat ci))))
      (fun ci st => let '(p, j, x) := st in
         do elem <- getN drow ci;
         if negb (eis_zero Ops elem) then Ok (removelast p ++ [uadd (last p 0) 1], j ++ [ci], x ++ [elem])
         else Ok (p, j, x))
      0 ncols (p ++ [lenN j], j, x)) as (st' & Hin & Hst').
    + lia.
    + change (N.to_nat 0) with 0%nat. unfold frow; cbn [Nseq map filter]. rewrite !app_nil_r.
      replace (lenN j + lenN (@nil (N * E))) with (lenN j) by (unfold lenN; cbn [length]; lia). reflexivity.
    + intros ci st C1 C2 ->.
      rewrite (getN_ok drow ci (ezero Ops)) by lia. cbn [bind].
      replace (N.to_nat (ci + 1)) with (S (N.to_nat ci)) by lia. rewrite frow_S.
      replace (0 + N.of_nat (N.to_nat ci)) with ci by lia.
      assert (Hlen : lenN (frow drow 0 (N.to_nat ci)) <= ci).
      { pose proof (bsorted_length 0 ci _ ltac:(lia) (frow_bsorted drow ci (N.to_nat ci) 0 0 ltac:(lia) ltac:(lia))). lia. }
      destruct (eis_zero Ops (nthN drow ci (ezero Ops))); cbn [negb].
      * eexists; split; [reflexivity|]. rewrite !app_nil_r. reflexivity.
      * eexists; split; [reflexivity|].
        rewrite removelast_last, last_last. rewrite uadd_small by nia.
        rewrite !map_app, lenN_app. cbn [map fst snd]. rewrite !app_assoc.
        change (lenN [(ci, nthN drow ci (ezero Ops))]) with 1. rewrite N.add_assoc. reflexivity.
    + rewrite Hin. subst st'. replace (N.to_nat ncols) with (N.to_nat ncols) by reflexivity.
      set (r := frow drow 0 (N.to_nat ncols)).
      assert (Hb : bsorted 0 ncols r) by (apply frow_bsorted; lia).
      assert (Hlr : lenN r <= ncols) by (pose proof (bsorted_length 0 ncols r ltac:(lia) Hb); lia).
      eexists; split; [reflexivity|]. unfold Pinv.
      split; [rewrite lenN_app; unfold lenN at 2; cbn [length]; lia|].
      split; [rewrite nthN_app1 by lia; assumption|].
      split; [rewrite !lenN_app, !lenN_map; lia|].
      split; [rewrite nthN_app2 by lia; rewrite P1; replace (ri + 1 - (ri + 1)) with 0 by lia;
              rewrite lenN_app, lenN_map; reflexivity|].
      split; [rewrite lenN_app, lenN_map; nia|].
      split.
      { intros k Hk. rewrite lenN_app, lenN_map in Hk.
        destruct (N.lt_ge_cases k (lenN j)).
        - rewrite nthN_app1 by assumption. apply P6; assumption.
        - rewrite nthN_app2 by assumption. unfold nthN.
          rewrite (nth_indep _ 0 (fst (0, ezero Ops))) by (rewrite map_length; unfold lenN in *; lia).
          rewrite map_nth. apply (bsorted_nth Ops 0 ncols r Hb). unfold lenN in *; lia. }
      intros i' Hi'.
      destruct (N.eq_dec i' ri) as [->|Hne].
      * rewrite nthN_app1 by lia. rewrite nthN_app2 by lia. rewrite P1.
        replace (ri + 1 - (ri + 1)) with 0 by lia. unfold nthN at 2 3 5; cbn [N.to_nat nth]. rewrite P4.
        rewrite lenN_app, lenN_map.
        split; [lia|]. split; [lia|].
        replace (N.to_nat (lenN j + lenN r - lenN j)) with (length r) by (unfold lenN; lia).
        apply seg_appended. assumption.
      * destruct (P7 i' ltac:(lia)) as (Q1 & Q2 & Q3).
        rewrite !nthN_app1 by lia. rewrite lenN_app, lenN_map.
        split; [assumption|]. split; [lia|].
        rewrite <- Q3. apply seg_ext. intros k K1 K2. rewrite !nthN_app1 by lia. auto.
  - destruct st as [[p j] x]. rewrite Hrun. cbn [bind].
    destruct Hfin as (P1 & P2 & P3 & P4 & P5 & P6 & P7).
    eexists; split; [reflexivity|].
    set (R := Build_csr p j x nrows ncols).
    assert (HP : forall t, pN R t = nthN p t 0) by reflexivity.
    assert (Hrow : forall i, i < nrows -> row_of Ops R i = frow (nthN d i []) 0 (N.to_nat ncols)).
    { intros i Hi. rewrite row_of_seg. rewrite !HP. apply (P7 i Hi). }
    assert (Hsorted : forall i, i < nrows -> row_sorted R i).
    { intros i Hi a b T1 T2 T3. rewrite !HP in *. destruct (P7 i Hi) as (Q1 & Q2 & Q3).
      assert (Hb : bsorted 0 ncols (frow (nthN d i []) 0 (N.to_nat ncols))) by (apply frow_bsorted; lia).
      rewrite <- Q3 in Hb.
      pose proof (bsorted_nth_lt Ops 0 ncols _ Hb (N.to_nat (a - nthN p i 0)) (N.to_nat (b - nthN p i 0)) ltac:(lia)) as Hlt.
      rewrite seg_length in Hlt. specialize (Hlt ltac:(lia)).
      rewrite !nth_seg in Hlt by lia. cbn [fst] in Hlt.
      replace (nthN p i 0 + N.of_nat (N.to_nat (a - nthN p i 0))) with a in Hlt by lia.
      replace (nthN p i 0 + N.of_nat (N.to_nat (b - nthN p i 0))) with b in Hlt by lia.
      exact Hlt. }
    split; [|split; [reflexivity|split; [reflexivity|]]].
    + split; [split|split].
      * unfold wf. rewrite !HP. unfold R; cbn [cp cj cx crow]. repeat split; try assumption; try lia.
        intros i Hi. apply (P7 i Hi).
      * exact Hsorted.
      * intros k Hk. apply P6. exact Hk.
      * unfold dims_ok, R; cbn [crow ccol]. lia.
    + intros i c Hi Hcc. unfold CsrSpec.entry. rewrite Hrow by assumption.
      apply frow_lookup; lia.
Qed.

End Jac.
