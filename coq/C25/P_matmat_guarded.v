(* C25 obligation: csr_matmat_pass1 + csr_matmat_pass2 when B has no more columns than A: success, well-formed arrays, no duplicate column in a row, every entry is the dense matrix product (rows are NOT sorted: see the refutation). *)
From SE Require Import C25.CsrMatmat.
Local Open Scope N_scope.
Theorem C25_matmat_guarded :
  forall (E : Type) (Ops : eops E) (A B : csr E),
    semiring Ops -> zero_test_sound Ops ->
    Inv A -> Inv B -> ccol A = crow B -> ccol B <= ccol A -> crow A * ccol B < 2 ^ 31 ->
    exists C : csr E,
      matmat Ops A B = Ok C /\ crow C = crow A /\ ccol C = ccol B /\ wf C /\ cols_ok C /\
      (forall i : N, i < crow A -> NoDup (map fst (row_of Ops C i))) /\
      (forall i k : N, i < crow A -> k < ccol B ->
         entry Ops C i k = dsum Ops (ccol A) (fun j : N => emul Ops (entry Ops A i j) (entry Ops B j k))).
Proof. exact @matmat_guarded. Qed.
Print Assumptions C25_matmat_guarded.
