(* C25 obligation: csr_sum_duplicates on rows with non-decreasing columns: canonical result, each row is the input row with adjacent equal columns merged (values added left to right). *)
From SE Require Import C25.CsrFromCoo.
Local Open Scope N_scope.
Theorem C25_sum_duplicates_spec :
  forall (E : Type) (Ops : eops E) (m : csr E),
    wf m -> lenN (cj m) < 2 ^ 31 -> crow m < 2 ^ 31 ->
    (forall i : N, i < crow m -> row_nondecr m i) ->
    exists (p' j' : list N) (x' : list E),
      sum_duplicates Ops (cp m) (cj m) (cx m) (crow m) = Ok (p', j', x') /\
      (let m' := {| cp := p'; cj := j'; cx := x'; crow := crow m; ccol := ccol m |} in
       canon m' /\
       (forall i : N, i < crow m -> row_of Ops m' i = group Ops (row_of Ops m i)) /\
       (forall i c : N, i < crow m -> entry Ops m' i c = lsum Ops (colvals c (row_of Ops m i)))).
Proof. exact @sum_duplicates_spec. Qed.
Print Assumptions C25_sum_duplicates_spec.
