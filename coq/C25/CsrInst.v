(* C25 -- the Gaussian-integer instance used for extraction satisfies the laws assumed by the
   theorems; a boolean checker for the invariant (to exhibit concrete matrices); the inputs
   that refuted the properties on the unrepaired code, now evaluated on the repaired model. *)
From SE Require Export C25.CsrJac.
Local Open Scope N_scope.

(* ---------- laws of Z[i] ---------- *)
Lemma gi_zero_test_sound : zero_test_sound gi_ops.
Proof.
  intros [a b]. unfold gi_ops, gi_is_zero; cbn [eis_zero ezero fst snd]. intros H.
  apply andb_true_iff in H. destruct H as (H1 & H2). apply Z.eqb_eq in H1, H2. subst. reflexivity.
Qed.

Lemma gi_zero_is_zero : zero_is_zero gi_ops.
Proof. reflexivity. Qed.

Lemma gi_conj_zero : conj_zero gi_ops.
Proof. reflexivity. Qed.

Lemma gi_comm_monoid : comm_monoid gi_ops.
Proof.
  split; unfold gi_ops, gi_add, gi_zero; cbn [eadd ezero].
  - intros [a b] [c d]; cbn [fst snd]; f_equal; lia.
  - intros [a b] [c d] [e f]; cbn [fst snd]; f_equal; lia.
  - intros [a b]; cbn [fst snd]; f_equal; lia.
Qed.

Lemma gi_semiring : semiring gi_ops.
Proof.
  split; [exact gi_comm_monoid| | | |]; unfold gi_ops, gi_add, gi_mul, gi_zero; cbn [eadd emul ezero].
  - intros [a b]; cbn [fst snd]; f_equal; lia.
  - intros [a b]; cbn [fst snd]; f_equal; lia.
  - intros [a b] [c d] [e f]; cbn [fst snd]; f_equal; ring.
  - intros [a b] [c d] [e f]; cbn [fst snd]; f_equal; ring.
Qed.

Lemma gi_mul_0_l : forall a, emul gi_ops (ezero gi_ops) a = ezero gi_ops.
Proof. exact (mul_0_l gi_ops gi_semiring). Qed.

(* ---------- a boolean checker for Inv (to exhibit concrete matrices) ---------- *)
Section Checker.
Context {E : Type}.
Definition inv_b (m : csr E) : bool :=
  match is_canonical m with Ok true => true | _ => false end
  && forallb (fun c => c <? ccol m) (cj m)
  && (crow m <? 2 ^ 31) && (ccol m <? 2 ^ 31) && (crow m * ccol m <? 2 ^ 31) && (lenN (cj m) <? 2 ^ 31).

Lemma inv_b_sound (m : csr E) : inv_b m = true -> Inv m.
Proof.
  unfold inv_b. rewrite !andb_true_iff.
  intros (((((H1 & H4) & H5) & H6) & H7) & H8).
  destruct (is_canonical m) as [[|]| | |] eqn:Hc; try discriminate.
  apply N.ltb_lt in H5, H6, H7, H8.
  split; [|split].
  - apply is_canonical_sound; assumption.
  - intros k Hk. rewrite forallb_forall in H4.
    apply N.ltb_lt. apply H4. unfold nthN. apply nth_In. unfold lenN in Hk. lia.
  - repeat split; assumption.
Qed.
End Checker.

(* ---------- the inputs that exposed the defects of the unrepaired code ---------- *)
(* (conjugate of a non-square matrix, csr_diagonal on the empty matrix / on [[0,1]] / with an empty
   row, csr_matmat with B wider than A and with an unsorted product, is_canonical with
   non-monotone row pointers of an empty matrix): the repaired code handles them *)
Local Open Scope Z_scope.
Definition g (a : Z) : gi := (a, 0).

Definition W_conj : csr gi := Build_csr [0; 1]%N [1]%N [(1, 2)] 1 2.
Definition W_diag1 : csr gi := Build_csr [0; 1]%N [1]%N [g 1] 1 2.
Definition W_diag2 : csr gi := Build_csr [0; 0; 1]%N [0]%N [g (-2)] 2 1.
Definition W_mmA1 : csr gi := Build_csr [0; 1; 2]%N [0; 0]%N [g 1; g 2] 2 1.
Definition W_mmB1 : csr gi := Build_csr [0; 2]%N [0; 2]%N [g 3; g 4] 1 3.
Definition W_mmA2 : csr gi := Build_csr [0; 2; 3]%N [0; 1; 1]%N [g 1; g 2; g 5] 2 2.
Definition W_mmB2 : csr gi := Build_csr [0; 2; 4]%N [0; 1; 0; 1]%N [g 3; g 4; g 1; g 1] 2 2.
Definition W_canon : csr gi := Build_csr [0; 5; 0]%N [] [] 2 2.

Example former_witnesses_repaired :
  conjugate gi_ops W_conj = Build_csr [0; 1]%N [1]%N [(1, -2)] 1 2 /\
  diagonal gi_ops (mk_zero 2 2) = Ok [g 0; g 0] /\
  diagonal gi_ops W_diag1 = Ok [g 0] /\
  diagonal gi_ops W_diag2 = Ok [g 0] /\
  matmat gi_ops W_mmA1 W_mmB1 = Ok (Build_csr [0; 2; 4]%N [0; 2; 0; 2]%N [g 3; g 4; g 6; g 8] 2 3) /\
  matmat gi_ops W_mmA2 W_mmB2 = Ok (Build_csr [0; 2; 4]%N [0; 1; 0; 1]%N [g 5; g 6; g 5; g 5] 2 2) /\
  is_canonical W_canon = Ok false.
Proof. vm_compute. repeat split; reflexivity. Qed.
Local Close Scope Z_scope.

(* every history of set/get operations that starts from the empty matrix CSRMatrix(row, col) *)
Theorem history_from_zero {E : Type} (Ops : eops E) : zero_test_sound Ops ->
  forall (row col : N) (ops : list (hop (E:=E))),
    (row < 2 ^ 31)%N -> (col < 2 ^ 31)%N -> (row * col < 2 ^ 31)%N ->
    Forall (hop_in_range row col) ops ->
    hist_ok Ops row col (fun _ _ => ezero Ops) ops (hrun Ops (mk_zero row col) ops).
Proof.
  intros Hz row col ops Hr Hc Hrc Hops.
  destruct (mk_zero_Inv Ops row col Hr Hc Hrc) as (HI & He).
  exact (history_gen Ops Hz ops (mk_zero row col) (fun _ _ => ezero Ops) HI (fun i c _ => He i c) Hops).
Qed.
