(* C25 -- the Gaussian-integer instance used for extraction satisfies the laws assumed by the
   theorems; a boolean checker for the invariant (to exhibit concrete matrices); and the
   witnesses refuting the properties that the transcribed code does not have. *)
From SE Require Export C25.CsrJac.
Local Open Scope N_scope.

(* ---------- laws of Z[i] ---------- *)
Lemma gi_zero_test_sound : zero_test_sound gi_ops.
Proof.
  intros [a b]. unfold gi_ops, gi_is_zero; cbn [eis_zero ezero fst snd]. intros H.
  apply andb_true_iff in H. destruct H as (H1 & H2). apply Z.eqb_eq in H1, H2. subst. reflexivity.
Qed.

Lemma gi_zero_is_zero : zero_is_zero gi_ops.
Proof. reflexivity. Qed.

Lemma gi_conj_zero : conj_zero gi_ops.
Proof. reflexivity. Qed.

Lemma gi_comm_monoid : comm_monoid gi_ops.
Proof.
  split; unfold gi_ops, gi_add, gi_zero; cbn [eadd ezero].
  - intros [a b] [c d]; cbn [fst snd]; f_equal; lia.
  - intros [a b] [c d] [e f]; cbn [fst snd]; f_equal; lia.
  - intros [a b]; cbn [fst snd]; f_equal; lia.
Qed.

Lemma gi_semiring : semiring gi_ops.
Proof.
  split; [exact gi_comm_monoid| | | |]; unfold gi_ops, gi_add, gi_mul, gi_zero; cbn [eadd emul ezero].
  - intros [a b]; cbn [fst snd]; f_equal; lia.
  - intros [a b]; cbn [fst snd]; f_equal; lia.
  - intros [a b] [c d] [e f]; cbn [fst snd]; f_equal; ring.
  - intros [a b] [c d] [e f]; cbn [fst snd]; f_equal; ring.
Qed.

Lemma gi_mul_0_l : forall a, emul gi_ops (ezero gi_ops) a = ezero gi_ops.
Proof. exact (mul_0_l gi_ops gi_semiring). Qed.

(* ---------- a boolean checker for Inv on matrices with at least one stored entry ---------- *)
Section Checker.
Context {E : Type}.
Definition inv_b (m : csr E) : bool :=
  match is_canonical m with Ok true => true | _ => false end
  && (nthN (cp m) 0 0 =? 0) && negb (lenN (cj m) =? 0)
  && forallb (fun c => c <? ccol m) (cj m)
  && (crow m <? 2 ^ 31) && (ccol m <? 2 ^ 31) && (crow m * ccol m <? 2 ^ 31) && (lenN (cj m) <? 2 ^ 31).

Lemma inv_b_sound (m : csr E) : inv_b m = true -> Inv m.
Proof.
  unfold inv_b. rewrite !andb_true_iff.
  intros (((((((H1 & H2) & H3) & H4) & H5) & H6) & H7) & H8).
  destruct (is_canonical m) as [[|]| | |] eqn:Hc; try discriminate.
  apply N.eqb_eq in H2. apply negb_true_iff, N.eqb_neq in H3.
  apply N.ltb_lt in H5, H6, H7, H8.
  split; [|split].
  - apply is_canonical_sound_guarded; assumption.
  - intros k Hk. rewrite forallb_forall in H4.
    apply N.ltb_lt. apply H4. unfold nthN. apply nth_In. unfold lenN in Hk. lia.
  - repeat split; assumption.
Qed.
End Checker.

(* ---------- witnesses ---------- *)
Local Open Scope Z_scope.
Definition g (a : Z) : gi := (a, 0).

(* conjugate: a 1 x 2 matrix comes back as "2 x 1" with the arrays of a 1 x 2 matrix *)
Definition W_conj : csr gi := Build_csr [0; 1]%N [1]%N [(1, 2)] 1 2.

Theorem conjugate_refuted :
  exists m : csr gi, Inv m /\
    (crow (conjugate gi_ops m) <> crow m /\ ~ wf (conjugate gi_ops m) /\ is_canonical (conjugate gi_ops m) = Ok false).
Proof.
  exists W_conj. split; [apply inv_b_sound; vm_compute; reflexivity|].
  split; [vm_compute; discriminate|]. split; [|vm_compute; reflexivity].
  intros (H & _). vm_compute in H. discriminate.
Qed.

(* csr_diagonal: out-of-range read on the empty 2 x 2 matrix ... *)
Theorem diagonal_oob_refuted :
  exists m : csr gi, Inv m /\ diagonal gi_ops m = ErrOOB 0 0.
Proof.
  exists (mk_zero 2 2). split; [apply (mk_zero_Inv gi_ops); vm_compute; reflexivity|].
  vm_compute. reflexivity.
Qed.

(* ... an index that wraps below zero on [[0, 1]] ... *)
Definition W_diag1 : csr gi := Build_csr [0; 1]%N [1]%N [g 1] 1 2.
Theorem diagonal_underflow_refuted :
  exists m : csr gi, Inv m /\ diagonal gi_ops m = ErrOOB 2147483647 1.
Proof.
  exists W_diag1. split; [apply inv_b_sound; vm_compute; reflexivity|]. vm_compute. reflexivity.
Qed.

(* ... and a wrong value: the first entry of the next row is taken for the diagonal of an empty row *)
Definition W_diag2 : csr gi := Build_csr [0; 0; 1]%N [0]%N [g (-2)] 2 1.
Theorem diagonal_value_refuted :
  exists m : csr gi, Inv m /\ diagonal gi_ops m = Ok [g (-2)] /\ entry gi_ops m 0 0 = g 0.
Proof.
  exists W_diag2. split; [apply inv_b_sound; vm_compute; reflexivity|].
  split; vm_compute; reflexivity.
Qed.

(* csr_matmat: temporaries sized by A.col_ are indexed by columns of B ... *)
Definition W_mmA1 : csr gi := Build_csr [0; 1; 2]%N [0; 0]%N [g 1; g 2] 2 1.
Definition W_mmB1 : csr gi := Build_csr [0; 2]%N [0; 2]%N [g 3; g 4] 1 3.
Theorem matmat_oob_refuted :
  exists A B : csr gi, Inv A /\ Inv B /\ ccol A = crow B /\ matmat gi_ops A B = ErrOOB 2 1.
Proof.
  exists W_mmA1, W_mmB1.
  split; [apply inv_b_sound; vm_compute; reflexivity|].
  split; [apply inv_b_sound; vm_compute; reflexivity|].
  split; vm_compute; reflexivity.
Qed.

(* ... and within the guard the rows of the product come out unsorted, so that get() misses
   entries that are stored *)
Definition W_mmA2 : csr gi := Build_csr [0; 2; 3]%N [0; 1; 1]%N [g 1; g 2; g 5] 2 2.
Definition W_mmB2 : csr gi := Build_csr [0; 2; 4]%N [0; 1; 0; 1]%N [g 3; g 4; g 1; g 1] 2 2.
Theorem matmat_canonical_refuted :
  exists A B C : csr gi, Inv A /\ Inv B /\ ccol A = crow B /\ (ccol B <= ccol A)%N /\
    matmat gi_ops A B = Ok C /\ ~ canon C /\ is_canonical C = Ok false /\
    entry gi_ops C 0 1 = g 6 /\ get gi_ops C 0 1 = Ok (g 0).
Proof.
  exists W_mmA2, W_mmB2. eexists.
  split; [apply inv_b_sound; vm_compute; reflexivity|].
  split; [apply inv_b_sound; vm_compute; reflexivity|].
  split; [reflexivity|]. split; [vm_compute; discriminate|].
  split; [vm_compute; reflexivity|].
  split; [|split; [vm_compute; reflexivity|split; vm_compute; reflexivity]].
  intros (_ & Hs). specialize (Hs 0%N ltac:(vm_compute; reflexivity) 0%N 1%N).
  vm_compute in Hs. specialize (Hs ltac:(discriminate) eq_refl eq_refl). discriminate.
Qed.

(* is_canonical: when nothing is stored the row pointers are not inspected *)
Definition W_canon : csr gi := Build_csr [0; 5; 0]%N [] [] 2 2.
Theorem is_canonical_sound_refuted :
  exists m : csr gi, is_canonical m = Ok true /\ ~ wf m /\ get gi_ops m 0 0 = ErrOOB 2 0.
Proof.
  exists W_canon. split; [vm_compute; reflexivity|]. split; [|vm_compute; reflexivity].
  intros (_ & _ & H & _). specialize (H 1%N ltac:(vm_compute; reflexivity)). vm_compute in H. apply H. reflexivity.
Qed.

(* every history of set/get operations that starts from the empty matrix CSRMatrix(row, col) *)
Theorem history_from_zero {E : Type} (Ops : eops E) : zero_test_sound Ops ->
  forall (row col : N) (ops : list (hop (E:=E))),
    (row < 2 ^ 31)%N -> (col < 2 ^ 31)%N -> (row * col < 2 ^ 31)%N ->
    Forall (hop_in_range row col) ops ->
    hist_ok Ops row col (fun _ _ => ezero Ops) ops (hrun Ops (mk_zero row col) ops).
Proof.
  intros Hz row col ops Hr Hc Hrc Hops.
  destruct (mk_zero_Inv Ops row col Hr Hc Hrc) as (HI & He).
  exact (history_gen Ops Hz ops (mk_zero row col) (fun _ _ => ezero Ops) HI (fun i c _ => He i c) Hops).
Qed.
