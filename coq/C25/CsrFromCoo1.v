(* C25 -- proofs, from_coo part 1: row segments as lists, grouping of adjacent equal columns,
   csr_sum_duplicates. *)
From SE Require Export C25.CsrProofs.
From Coq Require Export Permutation.
Local Open Scope N_scope.
Local Open Scope res_scope.

Lemma lenN_cons {A} (a : A) l : lenN (a :: l) = lenN l + 1.
Proof. unfold lenN; cbn [length]; lia. Qed.

Lemma lenN_nil {A} : lenN (@nil A) = 0.
Proof. reflexivity. Qed.

Lemma mono_le (p : list N) n : (forall i, i < n -> nthN p i 0 <= nthN p (i + 1) 0) ->
  forall b a, a <= b -> b <= n -> nthN p a 0 <= nthN p b 0.
Proof.
  intros Hm b. induction b using N.peano_ind; intros a Hab Hb.
  - replace a with 0 by lia. lia.
  - destruct (N.eq_dec a (N.succ b)) as [->|]; [lia|].
    specialize (IHb a). specialize (Hm b). replace (N.succ b) with (b + 1) in * by lia. lia.
Qed.

Section FromCoo1.
Context {E : Type}.
Variable Ops : eops E.
Notation mat := (csr E).
Notation entry := (entry Ops).
Notation row_of := (row_of Ops).
Notation lookup := (lookup Ops).
Notation e0 := (ezero Ops).

(* ---------- the (column, value) pairs stored at positions a .. b-1 ---------- *)
Definition segN (j : list N) (x : list E) (a b : N) : list (N * E) :=
  map (fun k => (nthN j k 0, nthN x k e0)) (Nseq a (N.to_nat (b - a))).

Lemma row_of_seg (m : mat) i : row_of m i = segN (cj m) (cx m) (pN m i) (pN m (i + 1)).
Proof. reflexivity. Qed.

Lemma segN_nil j x a b : b <= a -> segN j x a b = [].
Proof. intros; unfold segN. replace (N.to_nat (b - a)) with 0%nat by lia. reflexivity. Qed.

Lemma segN_cons j x a b : a < b -> segN j x a b = (nthN j a 0, nthN x a e0) :: segN j x (a + 1) b.
Proof.
  intros; unfold segN. replace (N.to_nat (b - a)) with (S (N.to_nat (b - (a + 1)))) by lia.
  reflexivity.
Qed.

Lemma segN_app j x a b c : a <= b -> b <= c -> segN j x a c = segN j x a b ++ segN j x b c.
Proof.
  intros; unfold segN. replace (N.to_nat (c - a)) with (N.to_nat (b - a) + N.to_nat (c - b))%nat by lia.
  rewrite Nseq_app, map_app. do 3 f_equal. lia.
Qed.

Lemma segN_snoc j x a b : a <= b -> segN j x a (b + 1) = segN j x a b ++ [(nthN j b 0, nthN x b e0)].
Proof.
  intros. rewrite (segN_app j x a b (b + 1)) by lia. f_equal.
  rewrite segN_cons by lia. rewrite segN_nil by lia. reflexivity.
Qed.

Lemma segN_length j x a b : lenN (segN j x a b) = b - a.
Proof. unfold segN, lenN. rewrite map_length, Nseq_length. lia. Qed.

Lemma in_segN e j x a b :
  In e (segN j x a b) <-> exists k, a <= k /\ k < b /\ e = (nthN j k 0, nthN x k e0).
Proof.
  unfold segN. rewrite in_map_iff. split.
  - intros (k & <- & Hk). apply in_Nseq in Hk. exists k. repeat split; lia.
  - intros (k & H1 & H2 & ->). exists k. split; [reflexivity|]. apply in_Nseq. lia.
Qed.

Lemma segN_ext j x j' x' a b :
  (forall k, a <= k -> k < b -> nthN j' k 0 = nthN j k 0 /\ nthN x' k e0 = nthN x k e0) ->
  segN j' x' a b = segN j x a b.
Proof.
  intros H. unfold segN. apply map_ext_in. intros k Hk. apply in_Nseq in Hk.
  destruct (H k) as (-> & ->); [lia|lia|reflexivity].
Qed.

(* ---------- ordered lists of pairs ---------- *)
Fixpoint srt (R : N -> N -> Prop) (l : list (N * E)) : Prop :=
  match l with
  | [] => True
  | a :: r => (forall b, In b r -> R (fst a) (fst b)) /\ srt R r
  end.

Lemma srt_seg R j x a b :
  srt R (segN j x a b) <->
  forall s t, a <= s -> s < t -> t < b -> R (nthN j s 0) (nthN j t 0).
Proof.
  remember (N.to_nat (b - a)) as n eqn:Hn. revert a Hn. induction n; intros a Hn.
  - rewrite segN_nil by lia. cbn [srt]. split; [intros; lia|auto].
  - rewrite segN_cons by lia. cbn [srt fst]. rewrite (IHn (a + 1)) by lia. split.
    + intros (H1 & H2) s t Hs Hst Ht. destruct (N.eq_dec s a) as [->|].
      * apply (H1 (nthN j t 0, nthN x t e0)). apply in_segN. exists t. repeat split; lia.
      * apply H2; lia.
    + intros H. split.
      * intros e He. apply in_segN in He as (k & K1 & K2 & ->). cbn [fst]. apply H; lia.
      * intros s t ? ? ?. apply H; lia.
Qed.

Definition row_nondecr (m : mat) (i : N) : Prop :=
  forall a b, pN m i <= a -> a < b -> b < pN m (i + 1) -> nthN (cj m) a 0 <= nthN (cj m) b 0.

Lemma row_nondecr_srt (m : mat) i : row_nondecr m i <-> srt N.le (row_of m i).
Proof. rewrite row_of_seg, srt_seg. reflexivity. Qed.

Lemma row_sorted_srt (m : mat) i : row_sorted m i <-> srt N.lt (row_of m i).
Proof. rewrite row_of_seg, srt_seg. reflexivity. Qed.

(* ---------- grouping adjacent equal columns, values added left to right ---------- *)
Fixpoint group_acc (c : N) (acc : E) (l : list (N * E)) : list (N * E) :=
  match l with
  | [] => [(c, acc)]
  | (c', v) :: r =>
      if c' =? c then group_acc c (eadd Ops acc v) r else (c, acc) :: group_acc c' v r
  end.

Definition group (l : list (N * E)) : list (N * E) :=
  match l with
  | [] => []
  | (c, v) :: r => group_acc c v r
  end.

(* v1 + v2 + ... + vn bracketed to the left; the zero element for the empty list *)
Definition lsum (l : list E) : E :=
  match l with
  | [] => e0
  | v :: r => fold_left (eadd Ops) r v
  end.

Definition colvals (c : N) (l : list (N * E)) : list E :=
  map snd (filter (fun e => fst e =? c) l).

Lemma colvals_cons c a l :
  colvals c (a :: l) = if fst a =? c then snd a :: colvals c l else colvals c l.
Proof. unfold colvals. cbn [filter]. destruct (fst a =? c); reflexivity. Qed.

Lemma colvals_none c l : (forall b, In b l -> fst b <> c) -> colvals c l = [].
Proof.
  induction l as [|a l IH]; intros H; [reflexivity|].
  rewrite colvals_cons. destruct (N.eqb_spec (fst a) c) as [Heq|Hne].
  - exfalso. apply (H a); [left; reflexivity|assumption].
  - apply IH. intros b Hb. apply H. right; assumption.
Qed.

Lemma group_acc_in c acc l e :
  In e (group_acc c acc l) -> fst e = c \/ exists e', In e' l /\ fst e = fst e'.
Proof.
  revert c acc. induction l as [|[c' v] r IH]; intros c acc; cbn [group_acc].
  - intros [<-|[]]. left; reflexivity.
  - destruct (N.eqb_spec c' c) as [->|Hne].
    + intros H. apply IH in H as [H|(e' & H1 & H2)]; [left; assumption|].
      right. exists e'. split; [right; assumption|assumption].
    + intros [<-|H]; [left; reflexivity|].
      apply IH in H as [H|(e' & H1 & H2)].
      * right. exists (c', v). split; [left; reflexivity|assumption].
      * right. exists e'. split; [right; assumption|assumption].
Qed.

Lemma group_in l e : In e (group l) -> exists e', In e' l /\ fst e = fst e'.
Proof.
  destruct l as [|[c v] r]; cbn [group]; [intros []|].
  intros H. apply group_acc_in in H as [H|(e' & H1 & H2)].
  - exists (c, v). split; [left; reflexivity|assumption].
  - exists e'. split; [right; assumption|assumption].
Qed.

Lemma group_acc_srt l : forall c acc,
  srt N.le l -> (forall b, In b l -> c <= fst b) -> srt N.lt (group_acc c acc l).
Proof.
  induction l as [|[c' v] r IH]; intros c acc Hs Hc; cbn [group_acc].
  - cbn [srt]. split; [intros b []|exact I].
  - cbn [srt fst] in Hs. destruct Hs as (Hs1 & Hs2).
    destruct (N.eqb_spec c' c) as [->|Hne].
    + apply IH; [assumption|]. intros b Hb. apply Hc. right; assumption.
    + assert (Hlt : c < c') by (specialize (Hc (c', v) (or_introl eq_refl)); cbn [fst] in Hc; lia).
      cbn [srt fst]. split.
      * intros b Hb. apply group_acc_in in Hb as [Hb|(e' & H1 & H2)]; [lia|].
        specialize (Hs1 e' H1). lia.
      * apply IH; assumption.
Qed.

Lemma group_srt l : srt N.le l -> srt N.lt (group l).
Proof.
  destruct l as [|[c v] r]; cbn [group]; [auto|].
  cbn [srt fst]. intros (H1 & H2). apply group_acc_srt; assumption.
Qed.

Lemma lookup_cons c a l :
  lookup c (a :: l) = if fst a =? c then snd a else lookup c l.
Proof. unfold CsrSpec.lookup. cbn [find]. destruct (fst a =? c); reflexivity. Qed.

Lemma lookup_group_acc_same l : forall c acc,
  srt N.le l -> (forall b, In b l -> c <= fst b) ->
  lookup c (group_acc c acc l) = fold_left (eadd Ops) (colvals c l) acc.
Proof.
  induction l as [|[c' v] r IH]; intros c acc Hs Hc; cbn [group_acc].
  - rewrite lookup_cons. cbn [fst snd]. rewrite N.eqb_refl. reflexivity.
  - cbn [srt fst] in Hs. destruct Hs as (Hs1 & Hs2). rewrite colvals_cons. cbn [fst snd].
    destruct (N.eqb_spec c' c) as [->|Hne].
    + cbn [fold_left]. apply IH; [assumption|]. intros b Hb. apply Hc. right; assumption.
    + assert (Hlt : c < c') by (specialize (Hc (c', v) (or_introl eq_refl)); cbn [fst] in Hc; lia).
      rewrite lookup_cons. cbn [fst snd]. rewrite N.eqb_refl.
      rewrite colvals_none; [reflexivity|]. intros b Hb. specialize (Hs1 b Hb). lia.
Qed.

Lemma lookup_group_acc_other l : forall c acc c',
  c' <> c -> srt N.le l -> (forall b, In b l -> c <= fst b) ->
  lookup c' (group_acc c acc l) = lsum (colvals c' l).
Proof.
  induction l as [|[c1 v] r IH]; intros c acc c' Hne Hs Hc; cbn [group_acc].
  - rewrite lookup_cons. cbn [fst]. destruct (N.eqb_spec c c'); [congruence|reflexivity].
  - cbn [srt fst] in Hs. destruct Hs as (Hs1 & Hs2). rewrite colvals_cons. cbn [fst snd].
    destruct (N.eqb_spec c1 c) as [->|Hne1].
    + destruct (N.eqb_spec c c'); [congruence|].
      apply IH; [assumption|assumption|]. intros b Hb. apply Hc. right; assumption.
    + rewrite lookup_cons. cbn [fst]. destruct (N.eqb_spec c c'); [congruence|].
      destruct (N.eqb_spec c1 c') as [->|Hne2].
      * rewrite lookup_group_acc_same by assumption. reflexivity.
      * apply IH; [congruence|assumption|assumption].
Qed.

Lemma lookup_group l c : srt N.le l -> lookup c (group l) = lsum (colvals c l).
Proof.
  destruct l as [|[c1 v] r]; cbn [group]; [reflexivity|].
  cbn [srt fst]. intros (H1 & H2). rewrite colvals_cons. cbn [fst snd].
  destruct (N.eqb_spec c1 c) as [->|Hne].
  - rewrite lookup_group_acc_same by assumption. reflexivity.
  - apply lookup_group_acc_other; [congruence|assumption|assumption].
Qed.

(* ---------- dup_run ---------- *)
Lemma dup_run_spec js xs c row_end :
  row_end <= lenN js -> lenN xs = lenN js -> lenN js < 2 ^ 31 ->
  forall fuel jj acc, (N.to_nat (row_end - jj) < fuel)%nat -> jj <= row_end ->
  exists jj' acc', dup_run Ops fuel js xs c row_end jj acc = Ok (jj', acc') /\
    jj <= jj' /\ jj' <= row_end /\
    group_acc c acc (segN js xs jj row_end) = (c, acc') :: group (segN js xs jj' row_end).
Proof.
  intros Hre Hx Hsmall. induction fuel; intros jj acc Hf Hjj; [lia|].
  cbn [dup_run].
  destruct (N.ltb_spec jj row_end) as [Hlt|Hge].
  - rewrite (getN_ok js jj 0) by lia. cbn [bind].
    rewrite (segN_cons js xs jj row_end) by lia. cbn [group_acc].
    destruct (N.eqb_spec (nthN js jj 0) c) as [Heq|Hne].
    + rewrite (getN_ok xs jj e0) by lia. cbn [bind]. rewrite uadd_small by lia.
      destruct (IHfuel (jj + 1) (eadd Ops acc (nthN xs jj e0))) as (jj' & acc' & H1 & H2 & H3 & H4); [lia|lia|].
      exists jj', acc'. repeat split; try assumption; lia.
    + exists jj, acc. repeat split; try lia.
      rewrite (segN_cons js xs jj row_end) by lia. reflexivity.
  - exists jj, acc. repeat split; try lia.
    rewrite segN_nil by lia. reflexivity.
Qed.

(* ---------- sumdup_row ---------- *)
Lemma sumdup_row_spec row_end : forall fuel js xs jj nnz,
  row_end <= lenN js -> lenN xs = lenN js -> lenN js < 2 ^ 31 ->
  (N.to_nat (row_end - jj) < fuel)%nat -> nnz <= jj -> jj <= row_end ->
  exists js' xs' nnz', sumdup_row Ops fuel js xs row_end jj nnz = Ok (js', xs', nnz') /\
    lenN js' = lenN js /\ lenN xs' = lenN xs /\ nnz <= nnz' /\ nnz' <= row_end /\
    segN js' xs' nnz nnz' = group (segN js xs jj row_end) /\
    (forall k, k < nnz \/ row_end <= k ->
               nthN js' k 0 = nthN js k 0 /\ nthN xs' k e0 = nthN xs k e0).
Proof.
  induction fuel; intros js xs jj nnz Hre Hx Hsmall Hf Hn Hjj; [lia|].
  cbn [sumdup_row].
  destruct (N.ltb_spec jj row_end) as [Hlt|Hge].
  - rewrite (getN_ok js jj 0) by lia. cbn [bind].
    rewrite (getN_ok xs jj e0) by lia. cbn [bind].
    rewrite uadd_small by lia.
    destruct (dup_run_spec js xs (nthN js jj 0) row_end Hre Hx Hsmall
                (S (N.to_nat (row_end - jj))) (jj + 1) (nthN xs jj e0))
      as (jj' & acc' & D1 & D2 & D3 & D4); [lia|lia|].
    rewrite D1. cbn [bind].
    rewrite (setN_ok js nnz) by lia. cbn [bind].
    rewrite (setN_ok xs nnz) by lia. cbn [bind].
    rewrite uadd_small by lia.
    set (c := nthN js jj 0) in *.
    set (js1 := updn (N.to_nat nnz) js c).
    set (xs1 := updn (N.to_nat nnz) xs acc').
    assert (L1 : lenN js1 = lenN js) by (apply lenN_updn; lia).
    assert (L2 : lenN xs1 = lenN xs) by (apply lenN_updn; lia).
    destruct (IHfuel js1 xs1 jj' (nnz + 1)) as (js' & xs' & nnz' & S1 & S2 & S3 & S4 & S5 & S6 & S7);
      try lia.
    exists js', xs', nnz'. split; [exact S1|].
    split; [lia|]. split; [lia|]. split; [lia|]. split; [lia|]. split.
    + rewrite (segN_cons js' xs' nnz nnz') by lia.
      destruct (S7 nnz) as (E1 & E2); [lia|]. rewrite E1, E2.
      unfold js1 at 1, xs1 at 1. rewrite !nthN_updn by lia. rewrite !N.eqb_refl.
      rewrite S6.
      rewrite (segN_ext js xs js1 xs1 jj' row_end).
      * rewrite (segN_cons js xs jj row_end) by lia. cbn [group]. fold c. rewrite D4. reflexivity.
      * intros k K1 K2. unfold js1, xs1. rewrite !nthN_updn by lia.
        destruct (N.eqb_spec k nnz); [lia|]. split; reflexivity.
    + intros k Hk. destruct (S7 k) as (E1 & E2); [lia|]. rewrite E1, E2.
      unfold js1, xs1. rewrite !nthN_updn by lia.
      destruct (N.eqb_spec k nnz); [lia|]. split; reflexivity.
  - exists js, xs, nnz. split; [reflexivity|].
    repeat split; try lia.
    rewrite !segN_nil by lia. reflexivity.
Qed.

(* ---------- v.resize(n) with n <= size ---------- *)
Lemma resizeN_le {A} (l : list A) n d : n <= lenN l -> resizeN l n d = firstn (N.to_nat n) l.
Proof.
  intros; unfold resizeN. replace (N.to_nat n - length l)%nat with 0%nat by (unfold lenN in *; lia).
  cbn [repeat]. apply app_nil_r.
Qed.

Lemma nthN_firstn {A} (l : list A) n k d : k < n -> nthN (firstn (N.to_nat n) l) k d = nthN l k d.
Proof. intros; unfold nthN. apply nth_firstn'. lia. Qed.

Lemma lenN_firstn {A} (l : list A) n : n <= lenN l -> lenN (firstn (N.to_nat n) l) = n.
Proof. intros; unfold lenN in *. rewrite firstn_length. lia. Qed.

(* ---------- csr_sum_duplicates ---------- *)
Theorem sum_duplicates_spec (m : mat) :
  wf m -> lenN (cj m) < 2 ^ 31 -> crow m < 2 ^ 31 ->
  (forall i, i < crow m -> row_nondecr m i) ->
  exists p' j' x', sum_duplicates Ops (cp m) (cj m) (cx m) (crow m) = Ok (p', j', x') /\
    let m' := Build_csr p' j' x' (crow m) (ccol m) in
    canon m' /\
    (forall i, i < crow m -> row_of m' i = group (row_of m i)) /\
    (forall i c, i < crow m -> entry m' i c = lsum (colvals c (row_of m i))).
Proof.
  intros Hwf Hsmall Hrow Hnd.
  assert (Hsrt : forall i, i < crow m -> srt N.le (segN (cj m) (cx m) (pN m i) (pN m (i + 1)))).
  { intros i Hi. rewrite <- row_of_seg. apply row_nondecr_srt. apply Hnd; assumption. }
  clear Hnd.
  assert (Hmono : forall a b, a <= b -> b <= crow m -> pN m a <= pN m b).
  { intros; apply pN_mono; assumption. }
  destruct m as [p j x row col]. unfold wf, pN in *.
  cbn [cp cj cx crow ccol] in *.
  destruct Hwf as (W1 & W2 & W3 & W4 & W5).
  set (P := fun (i : N) (s : list N * list N * list E * N * N) =>
     let '(p', js', xs', nnz, re) := s in
     lenN p' = row + 1 /\ lenN js' = lenN j /\ lenN xs' = lenN x /\
     re = nthN p i 0 /\ nnz = nthN p' i 0 /\ nnz <= re /\ nthN p' 0 0 = 0 /\
     (forall k, i < k -> k <= row -> nthN p' k 0 = nthN p k 0) /\
     (forall r, r <= i -> nthN p' r 0 <= nnz) /\
     (forall r, r < i -> nthN p' r 0 <= nthN p' (r + 1) 0 /\
        segN js' xs' (nthN p' r 0) (nthN p' (r + 1) 0) = group (segN j x (nthN p r 0) (nthN p (r + 1) 0))) /\
     (forall k, re <= k -> nthN js' k 0 = nthN j k 0 /\ nthN xs' k e0 = nthN x k e0)).
  unfold sum_duplicates.
  match goal with |- context [for_range 0 row ?body ?s] =>
    destruct (for_range_inv P body 0 row s) as (s' & Hf & HP) end.
  - lia.
  - unfold P. repeat split; intros; try lia.
    replace r with 0 by lia. lia.
  - intros i [[[[p' js'] xs'] nnz] re] _ Hi HP. unfold P in HP.
    destruct HP as (L1 & L2 & L3 & -> & Hnz & Hle & H0 & Hrest & Hbnd & Hdone & Hsame).
    rewrite uadd_small by lia.
    rewrite (getN_ok p' (i + 1) 0) by lia. cbn [bind].
    rewrite (Hrest (i + 1)) by lia.
    assert (M1 : nthN p i 0 <= nthN p (i + 1) 0) by (apply W3; lia).
    assert (M2 : nthN p (i + 1) 0 <= lenN j) by (rewrite <- W4; apply Hmono; lia).
    destruct (sumdup_row_spec (nthN p (i + 1) 0) (S (N.to_nat (nthN p (i + 1) 0 - nthN p i 0)))
                js' xs' (nthN p i 0) nnz) as (js2 & xs2 & nnz2 & S1 & S2 & S3 & S4 & S5 & S6 & S7); try lia.
    rewrite S1. cbn [bind].
    rewrite (setN_ok p' (i + 1)) by lia. cbn [bind].
    eexists. split; [reflexivity|]. unfold P.
    assert (Hp2 : forall k, nthN (updn (N.to_nat (i + 1)) p' nnz2) k 0 = if k =? i + 1 then nnz2 else nthN p' k 0).
    { intros k. apply nthN_updn. lia. }
    split; [rewrite lenN_updn by lia; assumption|].
    split; [lia|]. split; [lia|]. split; [reflexivity|].
    split; [rewrite Hp2, N.eqb_refl; reflexivity|].
    split; [lia|].
    split; [rewrite Hp2; destruct (N.eqb_spec 0 (i + 1)); [lia|assumption]|].
    split; [|split; [|split]].
    + intros k K1 K2. rewrite Hp2. destruct (N.eqb_spec k (i + 1)); [lia|]. apply Hrest; lia.
    + intros r Hr. rewrite Hp2. destruct (N.eqb_spec r (i + 1)); [lia|].
      specialize (Hbnd r ltac:(lia)). lia.
    + intros r Hr. rewrite !Hp2.
      destruct (N.eqb_spec r (i + 1)); [lia|].
      destruct (N.eqb_spec (r + 1) (i + 1)) as [Heq|Hne].
      * assert (r = i) by lia. subst r. rewrite <- Hnz. split; [lia|].
        rewrite S6. f_equal. apply segN_ext. intros k K1 K2. apply Hsame. lia.
      * destruct (Hdone r ltac:(lia)) as (D1 & D2). split; [assumption|].
        rewrite <- D2. apply segN_ext. intros k K1 K2. apply S7. left.
        specialize (Hbnd (r + 1) ltac:(lia)). lia.
    + intros k Hk. destruct (S7 k) as (E1 & E2); [lia|]. rewrite E1, E2. apply Hsame. lia.
  - rewrite Hf. cbn [bind]. destruct s' as [[[[p' js'] xs'] nnz] re]. unfold P in HP.
    destruct HP as (L1 & L2 & L3 & -> & Hnz & Hle & H0 & Hrest & Hbnd & Hdone & Hsame).
    rewrite W4 in Hle.
    rewrite !resizeN_le by lia.
    eexists _, _, _. split; [reflexivity|]. cbn zeta.
    set (m' := Build_csr p' (firstn (N.to_nat nnz) js') (firstn (N.to_nat nnz) xs') row col).
    assert (Hrows : forall i, i < row -> row_of m' i = group (segN j x (nthN p i 0) (nthN p (i + 1) 0))).
    { intros i Hi. rewrite row_of_seg. unfold pN, m'. cbn [cp cj cx].
      destruct (Hdone i Hi) as (D1 & D2). rewrite <- D2. apply segN_ext.
      intros k K1 K2. specialize (Hbnd (i + 1) ltac:(lia)).
      rewrite !nthN_firstn by lia. split; reflexivity. }
    split; [|split].
    + split.
      * unfold wf, pN, m'. cbn [cp cj cx crow]. rewrite !lenN_firstn by lia.
        repeat split; try assumption; try lia.
        intros i Hi. apply Hdone; assumption.
      * intros i Hi. cbn [crow m'] in Hi. apply row_sorted_srt. rewrite Hrows by assumption.
        apply group_srt. apply Hsrt; assumption.
    + intros i Hi. rewrite Hrows by assumption. reflexivity.
    + intros i c Hi. unfold CsrSpec.entry. rewrite Hrows by assumption.
      rewrite lookup_group by (apply Hsrt; assumption). reflexivity.
Qed.

End FromCoo1.
