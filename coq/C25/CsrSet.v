(* C25 -- proofs, part 2: CSRMatrix::set (position search, insertion, replacement, deletion)
   and every history of set/get operations. *)
From SE Require Export C25.CsrProofs.
Local Open Scope N_scope.
Local Open Scope res_scope.

Section SetProofs.
Context {E : Type}.
Variable Ops : eops E.
Notation mat := (csr E).
Notation entry := (entry Ops).
Notation Inv := (Inv (E:=E)).

(* ---------- the position search ---------- *)
Lemma set_search_spec (m : mat) i c : wf m -> i < crow m -> row_sorted m i -> lenN (cj m) < 2 ^ 31 ->
  forall fuel k en,
    (N.to_nat (en - k) < fuel)%nat ->
    pN m i <= k -> k <= en -> en <= pN m (i + 1) ->
    (forall t, pN m i <= t -> t < k -> nthN (cj m) t 0 < c) ->
    (forall t, en <= t -> t < pN m (i + 1) -> c <= nthN (cj m) t 0) ->
    exists k', set_search fuel (cj m) c k en = Ok k' /\
      pN m i <= k' /\ k' <= pN m (i + 1) /\
      (forall t, pN m i <= t -> t < k' -> nthN (cj m) t 0 < c) /\
      (forall t, k' <= t -> t < pN m (i + 1) -> c <= nthN (cj m) t 0).
Proof.
  intros Hwf Hi Hs Hsmall.
  assert (Hn : pN m (i + 1) <= lenN (cj m)) by (apply pN_le_nnz; [assumption|lia]).
  induction fuel; intros k en Hf H1 H2 H3 Hlo Hhi; [lia|].
  cbn [set_search].
  destruct (N.ltb_spec k en) as [Hlt|Hge].
  - rewrite uadd_small by lia.
    set (mid := (k + en) / 2). assert (Hmid : k <= mid /\ mid < en) by (unfold mid; lia).
    destruct (N.eqb_spec mid k) as [Heq|Hne].
    + rewrite (getN_ok (cj m) k 0) by lia. cbn [bind].
      assert (en = k + 1) by (unfold mid in Heq; lia). subst en.
      destruct (N.ltb_spec (nthN (cj m) k 0) c) as [Hl|Hg].
      * rewrite uadd_small by lia. eexists; split; [reflexivity|]. repeat split; try lia.
        -- intros t T1 T2. destruct (N.eq_dec t k) as [->|]; [assumption|]. apply Hlo; lia.
        -- assumption.
      * eexists; split; [reflexivity|]. repeat split; try lia.
        -- assumption.
        -- intros t T1 T2. destruct (N.eq_dec t k) as [->|]; [assumption|]. apply Hhi; lia.
    + rewrite (getN_ok (cj m) mid 0) by lia. cbn [bind].
      rewrite usub_small by lia.
      rewrite (getN_ok (cj m) (mid - 1) 0) by lia. cbn [bind].
      destruct (N.leb_spec c (nthN (cj m) mid 0)) as [Hc1|Hc1];
        destruct (N.ltb_spec (nthN (cj m) (mid - 1) 0) c) as [Hc2|Hc2]; cbn [andb].
      * (* found: j[mid-1] < c <= j[mid] *)
        eexists; split; [reflexivity|]. repeat split; try lia.
        -- intros t T1 T2. destruct (N.eq_dec t (mid - 1)) as [->|]; [assumption|].
           specialize (Hs t (mid - 1) T1 ltac:(lia) ltac:(lia)). lia.
        -- intros t T1 T2. destruct (N.eq_dec t mid) as [->|]; [assumption|].
           specialize (Hs mid t ltac:(lia) ltac:(lia) T2). lia.
      * (* c <= j[mid-1] *)
        destruct (N.leb_spec c (nthN (cj m) (mid - 1) 0)); [|lia].
        apply IHfuel; try lia; [assumption|].
        intros t T1 T2. destruct (N.eq_dec t (mid - 1)) as [->|]; [assumption|].
        specialize (Hs (mid - 1) t ltac:(lia) ltac:(lia) T2). lia.
      * (* j[mid] < c *)
        destruct (N.leb_spec c (nthN (cj m) (mid - 1) 0)); [lia|].
        rewrite uadd_small by lia.
        apply IHfuel; try lia; [|assumption].
        intros t T1 T2. destruct (N.eq_dec t mid) as [->|]; [assumption|].
        specialize (Hs t mid T1 ltac:(lia) ltac:(lia)). lia.
      * (* c <= j[mid-1] and j[mid] < c: impossible for a sorted row, the code takes the second branch *)
        destruct (N.leb_spec c (nthN (cj m) (mid - 1) 0)); [|lia].
        apply IHfuel; try lia; [assumption|].
        intros t T1 T2. destruct (N.eq_dec t (mid - 1)) as [->|]; [assumption|].
        specialize (Hs (mid - 1) t ltac:(lia) ltac:(lia) T2). lia.
  - exists k. split; [reflexivity|]. repeat split; try lia; [assumption|].
    intros t T1 T2. apply Hhi; lia.
Qed.

(* ---------- the row-pointer adjustment loop ---------- *)
Lemma bump_spec (p : list N) (from row : N) (f : N -> N) : row < lenN p -> from <= row + 1 ->
  exists p', bump p from row f = Ok p' /\ lenN p' = lenN p /\
    forall t, nthN p' t 0 = if (from <=? t) && (t <=? row) then f (nthN p t 0) else nthN p t 0.
Proof.
  intros Hrow Hfrom. unfold bump.
  destruct (for_range_inv
    (fun l (s : list N) => lenN s = lenN p /\
       forall t, nthN s t 0 = if (from <=? t) && (t <? l) then f (nthN p t 0) else nthN p t 0)
    (fun l p => do v <- getN p l; setN p l (f v)) from (row + 1) p) as (p' & Hr & Hl & Hv).
  - lia.
  - split; [reflexivity|]. intros t.
    destruct (N.leb_spec from t), (N.ltb_spec t from); cbn [andb]; try reflexivity; lia.
  - intros l s L1 L2 (Sl & Sv).
    rewrite (getN_ok s l 0) by lia. cbn [bind]. rewrite setN_ok by lia.
    eexists; split; [reflexivity|]. split.
    + rewrite lenN_updn by lia. assumption.
    + intros t. rewrite nthN_updn by lia. rewrite (Sv t), (Sv l).
      destruct (N.eqb_spec t l) as [->|].
      * destruct (N.leb_spec from l), (N.ltb_spec l l), (N.ltb_spec l (l + 1)); cbn [andb]; try lia; reflexivity.
      * destruct (N.leb_spec from t), (N.ltb_spec t l), (N.ltb_spec t (l + 1)); cbn [andb]; try lia; reflexivity.
  - exists p'. split; [assumption|]. split; [assumption|].
    intros t. rewrite Hv.
    destruct (N.leb_spec from t), (N.ltb_spec t (row + 1)), (N.leb_spec t row); cbn [andb]; try lia; reflexivity.
Qed.


(* ---------- the three ways set changes the arrays ---------- *)
Lemma Inv_facts (m : mat) : Inv m ->
  wf m /\ (forall i, i < crow m -> row_sorted m i) /\ cols_ok m /\ dims_ok m /\
  lenN (cj m) < 2 ^ 31 /\ crow m < 2 ^ 31 /\ lenN (cx m) = lenN (cj m) /\ lenN (cp m) = crow m + 1 /\
  pN m (crow m) = lenN (cj m).
Proof.
  intros HI. pose proof (Inv_small m HI) as (S1 & S2).
  destruct HI as ((Hwf & Hs) & Hc & Hd). pose proof Hwf as (W1 & W2 & W3 & W4 & W5).
  repeat split; try assumption; apply Hd.
Qed.

(* replacement of a stored value *)
Lemma set_replace_ok (m : mat) i c e k : Inv m -> i < crow m ->
  pN m i <= k -> k < pN m (i + 1) -> nthN (cj m) k 0 = c ->
  let m' := Build_csr (cp m) (cj m) (updn (N.to_nat k) (cx m) e) (crow m) (ccol m) in
  Inv m' /\ forall i' c', i' < crow m -> entry m' i' c' = upd (entry m) i c e i' c'.
Proof.
  intros HI Hi K1 K2 K3 m'.
  destruct (Inv_facts m HI) as (Hwf & Hs & Hc & Hd & S1 & S2 & Lx & Lp & Pn).
  assert (Hk : k < lenN (cx m)).
  { pose proof (pN_le_nnz m Hwf (i + 1) ltac:(lia)). lia. }
  assert (Hwf' : wf m').
  { destruct Hwf as (W1 & W2 & W3 & W4 & W5). unfold wf, m', pN in *; cbn [cp cj cx crow ccol].
    repeat split; try assumption. rewrite lenN_updn by assumption. assumption. }
  assert (Hs' : forall i', i' < crow m -> row_sorted m' i').
  { intros i' Hi'. exact (Hs i' Hi'). }
  split.
  - split; [split; assumption|]. split; [exact Hc|exact Hd].
  - intros i' c' Hi'. unfold upd.
    destruct (N.eqb_spec i' i) as [->|Hne]; cbn [andb].
    + destruct (N.eqb_spec c' c) as [->|Hnc].
      * rewrite (entry_hit Ops m' i c k (Hs' i Hi) K1 K2 K3).
        unfold m'; cbn [cx]. rewrite nthN_updn by assumption. rewrite N.eqb_refl. reflexivity.
      * destruct (entry_cases Ops m i c') as [(t & T1 & T2 & T3 & T4 & T5)|(T1 & T2)].
        -- rewrite T5. rewrite (entry_hit Ops m' i c' t (Hs' i Hi) T1 T2 T3).
           unfold m'; cbn [cx]. rewrite nthN_updn by assumption.
           destruct (N.eqb_spec t k) as [->|]; [congruence|reflexivity].
        -- rewrite T2. apply entry_miss. exact T1.
    + destruct (entry_cases Ops m i' c') as [(t & T1 & T2 & T3 & T4 & T5)|(T1 & T2)].
      * rewrite T5. rewrite (entry_hit Ops m' i' c' t (Hs' i' Hi') T1 T2 T3).
        unfold m'; cbn [cx]. rewrite nthN_updn by assumption.
        destruct (N.eqb_spec t k) as [->|]; [|reflexivity].
        exfalso.
        destruct (N.lt_ge_cases i' i).
        -- pose proof (pN_mono m Hwf i (i' + 1) ltac:(lia) ltac:(lia)). lia.
        -- pose proof (pN_mono m Hwf i' (i + 1) ltac:(lia) ltac:(lia)). lia.
      * rewrite T2. apply entry_miss. exact T1.
Qed.


(* insertion of a new stored entry at position k of row i *)
Lemma set_insert_ok (m : mat) i c e k p' : Inv m -> i < crow m -> c < ccol m ->
  pN m i <= k -> k <= pN m (i + 1) ->
  (forall t, pN m i <= t -> t < k -> nthN (cj m) t 0 < c) ->
  (forall t, k <= t -> t < pN m (i + 1) -> c < nthN (cj m) t 0) ->
  lenN p' = lenN (cp m) ->
  (forall t, nthN p' t 0 = if (i + 1 <=? t) && (t <=? crow m) then pN m t + 1 else pN m t) ->
  let m' := Build_csr p' (insn (N.to_nat k) (cj m) c) (insn (N.to_nat k) (cx m) e) (crow m) (ccol m) in
  Inv m' /\ forall i' c', i' < crow m -> entry m' i' c' = upd (entry m) i c e i' c'.
Proof.
  intros HI Hi Hcc K1 K2 Klo Khi Lp' Vp' m'.
  destruct (Inv_facts m HI) as (Hwf & Hs & Hc & Hd & S1 & S2 & Lx & Lp & Pn).
  assert (Hmono := pN_mono m Hwf).
  assert (Hk : k <= lenN (cj m)).
  { pose proof (pN_le_nnz m Hwf (i + 1) ltac:(lia)). lia. }
  assert (P' : forall t, pN m' t = if (i + 1 <=? t) && (t <=? crow m) then pN m t + 1 else pN m t).
  { intros t. unfold pN at 1. unfold m'; cbn [cp]. apply Vp'. }
  assert (J' : forall t, nthN (cj m') t 0 = if t <? k then nthN (cj m) t 0 else if t =? k then c else nthN (cj m) (t - 1) 0).
  { intros t. unfold m'; cbn [cj]. apply nthN_insn. assumption. }
  assert (X' : forall t, nthN (cx m') t (ezero Ops) =
                         if t <? k then nthN (cx m) t (ezero Ops) else if t =? k then e else nthN (cx m) (t - 1) (ezero Ops)).
  { intros t. unfold m'; cbn [cx]. apply nthN_insn. lia. }
  assert (LJ' : lenN (cj m') = lenN (cj m) + 1) by (unfold m'; cbn [cj]; apply lenN_insn; assumption).
  assert (LX' : lenN (cx m') = lenN (cx m) + 1) by (unfold m'; cbn [cx]; apply lenN_insn; lia).
  (* row pointers of m' *)
  assert (Plo : forall t, t <= i -> pN m' t = pN m t).
  { intros t Ht. rewrite P'. destruct (N.leb_spec (i + 1) t); [lia|reflexivity]. }
  assert (Phi : forall t, i < t -> t <= crow m -> pN m' t = pN m t + 1).
  { intros t Ht1 Ht2. rewrite P'. destruct (N.leb_spec (i + 1) t), (N.leb_spec t (crow m)); cbn [andb]; lia. }
  assert (Hwf' : wf m').
  { unfold wf. replace (crow m') with (crow m) by reflexivity. repeat split.
    - unfold m'; cbn [cp]. lia.
    - rewrite Plo by lia. apply Hwf.
    - intros t Ht. destruct Hwf as (_ & _ & W3 & _). specialize (W3 t Ht).
      destruct (N.le_gt_cases (t + 1) i).
      + rewrite !Plo by lia. assumption.
      + destruct (N.eq_dec t i) as [->|].
        * rewrite Plo by lia. rewrite Phi by lia. lia.
        * rewrite !Phi by lia. lia.
    - rewrite Phi by lia. lia.
    - lia. }
  assert (Hs' : forall i', i' < crow m -> row_sorted m' i').
  { intros i' Hi' a b A1 A2 A3. rewrite !J'.
    pose proof (Hs i' Hi') as Hsi.
    destruct (N.lt_trichotomy i' i) as [Hlt|[->|Hgt]].
    - (* rows before i: untouched *)
      rewrite Plo in A1, A3 by lia.
      pose proof (Hmono i (i' + 1) ltac:(lia) ltac:(lia)).
      destruct (N.ltb_spec a k), (N.ltb_spec b k); try lia.
      apply Hsi; lia.
    - (* row i *)
      rewrite Plo in A1 by lia. rewrite Phi in A3 by lia.
      destruct (N.ltb_spec a k), (N.ltb_spec b k); try lia.
      + apply Hsi; lia.
      + destruct (N.eqb_spec b k); [apply Klo; lia|]. apply Hsi; lia.
      + destruct (N.eqb_spec a k), (N.eqb_spec b k); try lia.
        * apply Khi; lia.
        * apply Hsi; lia.
    - (* rows after i: shifted by one *)
      rewrite Phi in A1, A3 by lia.
      pose proof (Hmono i' (i + 1) ltac:(lia) ltac:(lia)).
      destruct (N.ltb_spec a k), (N.ltb_spec b k); try lia.
      destruct (N.eqb_spec a k), (N.eqb_spec b k); try lia.
      apply Hsi; lia. }
  split.
  - split; [split; assumption|]. split; [|exact Hd].
    intros t Ht. rewrite J'. replace (ccol m') with (ccol m) by reflexivity.
    destruct (N.ltb_spec t k); [apply Hc; lia|].
    destruct (N.eqb_spec t k); [assumption|]. apply Hc; lia.
  - intros i' c' Hi'. unfold upd.
    destruct (N.eqb_spec i' i) as [->|Hne]; cbn [andb].
    + destruct (N.eqb_spec c' c) as [->|Hnc].
      * rewrite (entry_hit Ops m' i c k (Hs' i Hi)).
        -- rewrite X'. rewrite N.ltb_irrefl, N.eqb_refl. reflexivity.
        -- rewrite Plo by lia. assumption.
        -- rewrite Phi by lia. lia.
        -- rewrite J'. rewrite N.ltb_irrefl, N.eqb_refl. reflexivity.
      * destruct (entry_cases Ops m i c') as [(t & T1 & T2 & T3 & T4 & T5)|(T1 & T2)].
        -- rewrite T5.
           destruct (N.lt_ge_cases t k).
           ++ rewrite (entry_hit Ops m' i c' t (Hs' i Hi)).
              ** rewrite X'. destruct (N.ltb_spec t k); [reflexivity|lia].
              ** rewrite Plo by lia. assumption.
              ** rewrite Phi by lia. lia.
              ** rewrite J'. destruct (N.ltb_spec t k); [assumption|lia].
           ++ rewrite (entry_hit Ops m' i c' (t + 1) (Hs' i Hi)).
              ** rewrite X'. destruct (N.ltb_spec (t + 1) k); [lia|].
                 destruct (N.eqb_spec (t + 1) k); [lia|]. f_equal; lia.
              ** rewrite Plo by lia. lia.
              ** rewrite Phi by lia. lia.
              ** rewrite J'. destruct (N.ltb_spec (t + 1) k); [lia|].
                 destruct (N.eqb_spec (t + 1) k); [lia|]. rewrite <- T3. f_equal; lia.
        -- rewrite T2. apply entry_miss. intros t A1 A2.
           rewrite Plo in A1 by lia. rewrite Phi in A2 by lia. rewrite J'.
           destruct (N.ltb_spec t k); [apply T1; lia|].
           destruct (N.eqb_spec t k); [congruence|]. apply T1; lia.
    + destruct (entry_cases Ops m i' c') as [(t & T1 & T2 & T3 & T4 & T5)|(T1 & T2)].
      * rewrite T5.
        destruct (N.lt_ge_cases i' i).
        -- pose proof (Hmono i (i' + 1) ltac:(lia) ltac:(lia)).
           rewrite (entry_hit Ops m' i' c' t (Hs' i' Hi')).
           ++ rewrite X'. destruct (N.ltb_spec t k); [reflexivity|lia].
           ++ rewrite Plo by lia. assumption.
           ++ rewrite Plo by lia. assumption.
           ++ rewrite J'. destruct (N.ltb_spec t k); [assumption|lia].
        -- pose proof (Hmono i' (i + 1) ltac:(lia) ltac:(lia)).
           rewrite (entry_hit Ops m' i' c' (t + 1) (Hs' i' Hi')).
           ++ rewrite X'. destruct (N.ltb_spec (t + 1) k); [lia|].
              destruct (N.eqb_spec (t + 1) k); [lia|]. f_equal; lia.
           ++ rewrite Phi by lia. lia.
           ++ rewrite Phi by lia. lia.
           ++ rewrite J'. destruct (N.ltb_spec (t + 1) k); [lia|].
              destruct (N.eqb_spec (t + 1) k); [lia|]. rewrite <- T3. f_equal; lia.
      * rewrite T2. apply entry_miss. intros t A1 A2. rewrite J'.
        destruct (N.lt_ge_cases i' i).
        -- pose proof (Hmono i (i' + 1) ltac:(lia) ltac:(lia)).
           rewrite Plo in A1, A2 by lia.
           destruct (N.ltb_spec t k); [apply T1; lia|lia].
        -- pose proof (Hmono i' (i + 1) ltac:(lia) ltac:(lia)).
           rewrite Phi in A1, A2 by lia.
           destruct (N.ltb_spec t k); [lia|].
           destruct (N.eqb_spec t k); [lia|]. apply T1; lia.
Qed.


(* deletion of the stored entry at position k of row i *)
Lemma set_erase_ok (m : mat) i c k p' : Inv m -> i < crow m ->
  pN m i <= k -> k < pN m (i + 1) -> nthN (cj m) k 0 = c ->
  lenN p' = lenN (cp m) ->
  (forall t, nthN p' t 0 = if (i + 1 <=? t) && (t <=? crow m) then pN m t - 1 else pN m t) ->
  let m' := Build_csr p' (deln (N.to_nat k) (cj m)) (deln (N.to_nat k) (cx m)) (crow m) (ccol m) in
  Inv m' /\ forall i' c', i' < crow m -> entry m' i' c' = upd (entry m) i c (ezero Ops) i' c'.
Proof.
  intros HI Hi K1 K2 K3 Lp' Vp' m'.
  destruct (Inv_facts m HI) as (Hwf & Hs & Hc & Hd & S1 & S2 & Lx & Lp & Pn).
  assert (Hmono := pN_mono m Hwf).
  assert (Hk : k < lenN (cj m)).
  { pose proof (pN_le_nnz m Hwf (i + 1) ltac:(lia)). lia. }
  assert (P' : forall t, pN m' t = if (i + 1 <=? t) && (t <=? crow m) then pN m t - 1 else pN m t).
  { intros t. unfold pN at 1. unfold m'; cbn [cp]. apply Vp'. }
  assert (J' : forall t, nthN (cj m') t 0 = if t <? k then nthN (cj m) t 0 else nthN (cj m) (t + 1) 0).
  { intros t. unfold m'; cbn [cj]. apply nthN_deln. assumption. }
  assert (X' : forall t, nthN (cx m') t (ezero Ops) =
                         if t <? k then nthN (cx m) t (ezero Ops) else nthN (cx m) (t + 1) (ezero Ops)).
  { intros t. unfold m'; cbn [cx]. apply nthN_deln. lia. }
  assert (LJ' : lenN (cj m') = lenN (cj m) - 1) by (unfold m'; cbn [cj]; apply lenN_deln; assumption).
  assert (LX' : lenN (cx m') = lenN (cx m) - 1) by (unfold m'; cbn [cx]; apply lenN_deln; lia).
  assert (Plo : forall t, t <= i -> pN m' t = pN m t).
  { intros t Ht. rewrite P'. destruct (N.leb_spec (i + 1) t); [lia|reflexivity]. }
  assert (Phi : forall t, i < t -> t <= crow m -> pN m' t = pN m t - 1).
  { intros t Ht1 Ht2. rewrite P'. destruct (N.leb_spec (i + 1) t), (N.leb_spec t (crow m)); cbn [andb]; lia. }
  assert (Pge : forall t, i < t -> t <= crow m -> k < pN m t).
  { intros t Ht1 Ht2. pose proof (Hmono t (i + 1) ltac:(lia) ltac:(lia)). lia. }
  assert (Hwf' : wf m').
  { unfold wf. replace (crow m') with (crow m) by reflexivity. repeat split.
    - unfold m'; cbn [cp]. lia.
    - rewrite Plo by lia. apply Hwf.
    - intros t Ht. destruct Hwf as (_ & _ & W3 & _). specialize (W3 t Ht).
      destruct (N.le_gt_cases (t + 1) i).
      + rewrite !Plo by lia. assumption.
      + destruct (N.eq_dec t i) as [->|].
        * rewrite Plo by lia. rewrite Phi by lia. lia.
        * pose proof (Pge t ltac:(lia) ltac:(lia)). rewrite !Phi by lia. lia.
    - rewrite Phi by lia. lia.
    - lia. }
  assert (Hs' : forall i', i' < crow m -> row_sorted m' i').
  { intros i' Hi' a b A1 A2 A3. rewrite !J'.
    pose proof (Hs i' Hi') as Hsi.
    destruct (N.lt_trichotomy i' i) as [Hlt|[->|Hgt]].
    - rewrite Plo in A1, A3 by lia.
      pose proof (Hmono i (i' + 1) ltac:(lia) ltac:(lia)).
      destruct (N.ltb_spec a k), (N.ltb_spec b k); try lia.
      apply Hsi; lia.
    - rewrite Plo in A1 by lia. rewrite Phi in A3 by lia.
      destruct (N.ltb_spec a k), (N.ltb_spec b k); try lia; apply Hsi; lia.
    - pose proof (Pge i' ltac:(lia) ltac:(lia)). pose proof (Pge (i' + 1) ltac:(lia) ltac:(lia)).
      rewrite Phi in A1, A3 by lia.
      destruct (N.ltb_spec a k), (N.ltb_spec b k); try lia.
      apply Hsi; lia. }
  split.
  - split; [split; assumption|]. split; [|exact Hd].
    intros t Ht. rewrite J'. replace (ccol m') with (ccol m) by reflexivity.
    destruct (N.ltb_spec t k); apply Hc; lia.
  - intros i' c' Hi'. unfold upd.
    destruct (N.eqb_spec i' i) as [->|Hne]; cbn [andb].
    + destruct (N.eqb_spec c' c) as [->|Hnc].
      * apply entry_miss. intros t A1 A2.
        rewrite Plo in A1 by lia. rewrite Phi in A2 by lia. rewrite J'.
        destruct (N.ltb_spec t k).
        -- specialize (Hs i Hi t k ltac:(lia) ltac:(lia) ltac:(lia)). lia.
        -- specialize (Hs i Hi k (t + 1) ltac:(lia) ltac:(lia) ltac:(lia)). lia.
      * destruct (entry_cases Ops m i c') as [(t & T1 & T2 & T3 & T4 & T5)|(T1 & T2)].
        -- rewrite T5. assert (t <> k) by congruence.
           destruct (N.lt_ge_cases t k).
           ++ rewrite (entry_hit Ops m' i c' t (Hs' i Hi)).
              ** rewrite X'. destruct (N.ltb_spec t k); [reflexivity|lia].
              ** rewrite Plo by lia. assumption.
              ** rewrite Phi by lia. lia.
              ** rewrite J'. destruct (N.ltb_spec t k); [assumption|lia].
           ++ rewrite (entry_hit Ops m' i c' (t - 1) (Hs' i Hi)).
              ** rewrite X'. destruct (N.ltb_spec (t - 1) k); [lia|]. f_equal; lia.
              ** rewrite Plo by lia. lia.
              ** rewrite Phi by lia. lia.
              ** rewrite J'. destruct (N.ltb_spec (t - 1) k); [lia|]. rewrite <- T3. f_equal; lia.
        -- rewrite T2. apply entry_miss. intros t A1 A2.
           rewrite Plo in A1 by lia. rewrite Phi in A2 by lia. rewrite J'.
           destruct (N.ltb_spec t k); apply T1; lia.
    + destruct (entry_cases Ops m i' c') as [(t & T1 & T2 & T3 & T4 & T5)|(T1 & T2)].
      * rewrite T5.
        destruct (N.lt_ge_cases i' i).
        -- pose proof (Hmono i (i' + 1) ltac:(lia) ltac:(lia)).
           rewrite (entry_hit Ops m' i' c' t (Hs' i' Hi')).
           ++ rewrite X'. destruct (N.ltb_spec t k); [reflexivity|lia].
           ++ rewrite Plo by lia. assumption.
           ++ rewrite Plo by lia. assumption.
           ++ rewrite J'. destruct (N.ltb_spec t k); [assumption|lia].
        -- pose proof (Pge i' ltac:(lia) ltac:(lia)). pose proof (Pge (i' + 1) ltac:(lia) ltac:(lia)).
           rewrite (entry_hit Ops m' i' c' (t - 1) (Hs' i' Hi')).
           ++ rewrite X'. destruct (N.ltb_spec (t - 1) k); [lia|]. f_equal; lia.
           ++ rewrite Phi by lia. lia.
           ++ rewrite Phi by lia. lia.
           ++ rewrite J'. destruct (N.ltb_spec (t - 1) k); [lia|]. rewrite <- T3. f_equal; lia.
      * rewrite T2. apply entry_miss. intros t A1 A2. rewrite J'.
        destruct (N.lt_ge_cases i' i).
        -- pose proof (Hmono i (i' + 1) ltac:(lia) ltac:(lia)).
           rewrite Plo in A1, A2 by lia.
           destruct (N.ltb_spec t k); [apply T1; lia|lia].
        -- pose proof (Pge i' ltac:(lia) ltac:(lia)). pose proof (Pge (i' + 1) ltac:(lia) ltac:(lia)).
           rewrite Phi in A1, A2 by lia.
           destruct (N.ltb_spec t k); [lia|]. apply T1; lia.
Qed.


(* ---------- CSRMatrix::set ---------- *)
Theorem set_spec (m : mat) i c e : zero_test_sound Ops -> Inv m -> i < crow m -> c < ccol m ->
  exists m', set Ops m i c e = Ok m' /\ Inv m' /\ crow m' = crow m /\ ccol m' = ccol m /\
    forall i' c', i' < crow m -> entry m' i' c' = upd (entry m) i c e i' c'.
Proof.
  intros Hz HI Hi Hc.
  destruct (Inv_facts m HI) as (Hwf & Hs & Hcols & Hd & S1 & S2 & Lx & Lp & Pn).
  assert (Hmono := pN_mono m Hwf).
  assert (Hn : pN m (i + 1) <= lenN (cj m)) by (apply pN_le_nnz; [assumption|lia]).
  assert (W3 : pN m i <= pN m (i + 1)) by (apply Hwf; assumption).
  unfold set.
  rewrite (getN_p m i Hwf) by lia. cbn [bind].
  rewrite uadd_small by lia. rewrite (getN_p m (i + 1) Hwf) by lia. cbn [bind].
  destruct (set_search_spec m i c Hwf Hi (Hs i Hi) S1 (S (N.to_nat (pN m (i + 1) - pN m i))) (pN m i) (pN m (i + 1)))
    as (k & Hk & K1 & K2 & Klo & Khi); try lia; try (intros; lia).
  rewrite Hk. cbn [bind].
  (* the bumped row pointers *)
  assert (Bplus : exists p', bump (cp m) (i + 1) (crow m) (fun v => uadd v 1) = Ok p' /\ lenN p' = lenN (cp m) /\
            forall t, nthN p' t 0 = if (i + 1 <=? t) && (t <=? crow m) then pN m t + 1 else pN m t).
  { destruct (bump_spec (cp m) (i + 1) (crow m) (fun v => uadd v 1)) as (p' & B1 & B2 & B3); try lia.
    exists p'. split; [assumption|]. split; [assumption|]. intros t. rewrite B3.
    destruct (N.leb_spec (i + 1) t), (N.leb_spec t (crow m)); cbn [andb]; try reflexivity.
    pose proof (pN_le_nnz m Hwf t ltac:(lia)). unfold pN in *. apply uadd_small. lia. }
  assert (Bminus : k < pN m (i + 1) ->
            exists p', bump (cp m) (i + 1) (crow m) (fun v => usub v 1) = Ok p' /\ lenN p' = lenN (cp m) /\
            forall t, nthN p' t 0 = if (i + 1 <=? t) && (t <=? crow m) then pN m t - 1 else pN m t).
  { intros Hlt. destruct (bump_spec (cp m) (i + 1) (crow m) (fun v => usub v 1)) as (p' & B1 & B2 & B3); try lia.
    exists p'. split; [assumption|]. split; [assumption|]. intros t. rewrite B3.
    destruct (N.leb_spec (i + 1) t), (N.leb_spec t (crow m)); cbn [andb]; try reflexivity.
    pose proof (pN_le_nnz m Hwf t ltac:(lia)). pose proof (Hmono t (i + 1) ltac:(lia) ltac:(lia)).
    unfold pN in *. apply usub_small; lia. }
  (* is position k a hit? *)
  assert (Hhit : (k < pN m (i + 1) /\ nthN (cj m) k 0 = c /\
                  (if k <? pN m (i + 1) then do jk <- getN (cj m) k; Ok (jk =? c) else Ok false) = Ok true)
              \/ ((forall t, k <= t -> t < pN m (i + 1) -> c < nthN (cj m) t 0) /\
                  (if k <? pN m (i + 1) then do jk <- getN (cj m) k; Ok (jk =? c) else Ok false) = Ok false)).
  { destruct (N.ltb_spec k (pN m (i + 1))) as [Hlt|Hge].
    - rewrite (getN_ok (cj m) k 0) by lia. cbn [bind].
      destruct (N.eqb_spec (nthN (cj m) k 0) c) as [Heq|Hne].
      + left. auto.
      + right. split; [|reflexivity]. intros t T1 T2.
        destruct (N.eq_dec t k) as [->|]; [specialize (Khi k ltac:(lia) T2); lia|].
        specialize (Hs i Hi k t ltac:(lia) ltac:(lia) T2). specialize (Khi k ltac:(lia) ltac:(lia)). lia.
    - right. split; [intros; lia|reflexivity]. }
  destruct Hhit as [(Hlt & Hjk & ->)|(Hgt & ->)]; cbn [bind].
  - (* position k holds column c *)
    destruct (eis_zero Ops e) eqn:Hez; cbn [negb].
    + (* delete *)
      rewrite eraseN_ok by lia. cbn [bind]. rewrite eraseN_ok by lia. cbn [bind].
      destruct (Bminus Hlt) as (p' & B1 & B2 & B3). rewrite B1. cbn [bind].
      destruct (set_erase_ok m i c k p' HI Hi K1 Hlt Hjk B2 B3) as (I' & En).
      eexists; split; [reflexivity|]. split; [exact I'|]. split; [reflexivity|]. split; [reflexivity|].
      rewrite (Hz e Hez). exact En.
    + (* replace *)
      rewrite setN_ok by lia. cbn [bind].
      destruct (set_replace_ok m i c e k HI Hi K1 Hlt Hjk) as (I' & En).
      eexists; split; [reflexivity|]. split; [exact I'|]. split; [reflexivity|]. split; [reflexivity|]. exact En.
  - (* column c is not stored in row i *)
    destruct (eis_zero Ops e) eqn:Hez; cbn [negb].
    + (* nothing to do *)
      exists m. split; [reflexivity|]. split; [assumption|]. split; [reflexivity|]. split; [reflexivity|].
      intros i' c' Hi'. unfold upd.
      destruct (N.eqb_spec i' i) as [->|]; cbn [andb]; [|reflexivity].
      destruct (N.eqb_spec c' c) as [->|]; [|reflexivity].
      rewrite (Hz e Hez). apply entry_miss. intros t T1 T2.
      destruct (N.lt_ge_cases t k).
      * specialize (Klo t T1 ltac:(lia)). lia.
      * specialize (Hgt t ltac:(lia) T2). lia.
    + (* insert *)
      rewrite insertN_ok by lia. cbn [bind]. rewrite insertN_ok by lia. cbn [bind].
      destruct Bplus as (p' & B1 & B2 & B3). rewrite B1. cbn [bind].
      destruct (set_insert_ok m i c e k p' HI Hi Hc K1 K2 Klo Hgt B2 B3) as (I' & En).
      eexists; split; [reflexivity|]. split; [exact I'|]. split; [reflexivity|]. split; [reflexivity|]. exact En.
Qed.

(* ---------- every history of set/get operations ---------- *)
Lemma history_gen : zero_test_sound Ops ->
  forall (ops : list (hop (E:=E))) (m : mat) (D : N -> N -> E),
    Inv m -> (forall i c, i < crow m -> entry m i c = D i c) ->
    Forall (hop_in_range (crow m) (ccol m)) ops ->
    hist_ok Ops (crow m) (ccol m) D ops (hrun Ops m ops).
Proof.
  intros Hz. induction ops as [|o ops IH]; intros m D HI HD Hr.
  - constructor.
  - inversion Hr as [|? ? Ho Hr']; subst.
    destruct o as [i c e|i c]; cbn [hop_in_range] in Ho; destruct Ho as (Hi & Hc); cbn [hrun hstep].
    + destruct (set_spec m i c e Hz HI Hi Hc) as (m' & Hset & I' & R' & C' & En).
      rewrite Hset. cbn [bind].
      assert (En' : forall i' c', i' < crow m -> entry m' i' c' = upd D i c e i' c').
      { intros i' c' Hi'. rewrite En by assumption. unfold upd.
        destruct ((i' =? i) && (c' =? c)); [reflexivity|]. apply HD; assumption. }
      apply hok_set; try assumption.
      specialize (IH m' (upd D i c e) I'). rewrite R', C' in IH. apply IH; assumption.
    + rewrite (get_spec Ops m i c HI Hi). cbn [bind].
      rewrite (HD i c Hi).
      apply hok_get. apply IH; assumption.
Qed.

Theorem history_spec : zero_test_sound Ops ->
  forall (ops : list (hop (E:=E))) (m : mat),
    Inv m -> Forall (hop_in_range (crow m) (ccol m)) ops ->
    hist_ok Ops (crow m) (ccol m) (entry m) ops (hrun Ops m ops).
Proof.
  intros Hz ops m HI Hr. apply history_gen; auto.
Qed.

(* the empty matrix CSRMatrix(row, col) is a valid start of a history *)
Lemma mk_zero_Inv (row col : N) : row < 2 ^ 31 -> col < 2 ^ 31 -> row * col < 2 ^ 31 ->
  Inv (mk_zero row col) /\ forall i c, entry (mk_zero row col) i c = ezero Ops.
Proof.
  intros Hr Hc Hrc. unfold mk_zero. rewrite uadd_small by lia.
  assert (P : forall t, pN (Build_csr (repeat 0 (N.to_nat (row + 1))) [] ([] : list E) row col) t = 0).
  { intros t. unfold pN; cbn [cp]. destruct (N.ltb_spec t (N.of_nat (N.to_nat (row + 1)))).
    - apply nthN_repeat. assumption.
    - apply nthN_overflow. rewrite lenN_repeat. assumption. }
  split.
  - split; [split|split].
    + unfold wf. rewrite !P. cbn [crow cj cx cp]. rewrite lenN_repeat.
      split; [lia|]. split; [reflexivity|]. split; [intros; rewrite !P; lia|]. split; reflexivity.
    + intros i Hi a b A1 A2 A3. rewrite !P in *. lia.
    + intros k Hk. cbn [cj] in Hk. unfold lenN in Hk; cbn in Hk. lia.
    + unfold dims_ok; cbn [crow ccol]. lia.
  - intros i c. apply entry_miss. intros t T1 T2. rewrite !P in *. lia.
Qed.

End SetProofs.
