(* C25 obligation: csr_has_canonical_format (with csr_has_sorted_indices and csr_has_duplicates) decides: monotone row pointers and strictly increasing column indices in every row. *)
From SE Require Import C25.CsrInst.
Local Open Scope N_scope.
Theorem C25_has_canonical_format_spec :
  forall (E : Type) (m : csr E),
    lenN (cp m) = crow m + 1 -> crow m < 2 ^ 31 -> lenN (cj m) < 2 ^ 31 -> pN m (crow m) = lenN (cj m) ->
    exists r : bool,
      has_canonical_format (cp m) (cj m) (crow m) = Ok r /\
      (r = true <->
       (forall i : N, i < crow m -> pN m i <= pN m (i + 1)) /\ (forall i : N, i < crow m -> row_sorted m i)).
Proof. exact @has_canonical_format_spec. Qed.
Print Assumptions C25_has_canonical_format_spec.
