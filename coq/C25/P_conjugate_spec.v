(* C25 obligation: CSRMatrix::conjugate, any shape: canonical result of the same dimensions with conjugated entries. *)
From SE Require Import C25.CsrInst.
Local Open Scope N_scope.
Theorem C25_conjugate_spec :
  forall (E : Type) (Ops : eops E) (m : csr E),
    conj_zero Ops -> Inv m ->
    Inv (conjugate Ops m) /\ crow (conjugate Ops m) = crow m /\ ccol (conjugate Ops m) = ccol m /\
    (forall i c : N, i < crow m -> entry Ops (conjugate Ops m) i c = econj Ops (entry Ops m i c)).
Proof. exact @conjugate_spec. Qed.
Print Assumptions C25_conjugate_spec.
