(* C25 -- proofs, part 3: csr_has_sorted_indices, csr_has_duplicates, csr_has_canonical_format and
   CSRMatrix::is_canonical decide the canonical-format predicate [canon]. *)
From SE Require Export C25.CsrSet.
Local Open Scope N_scope.
Local Open Scope res_scope.

(* ---------- loops that accumulate a flag ---------- *)
Lemma for_range_all (test : N -> res bool) (Q : N -> Prop) a b : a <= b ->
  (forall i, a <= i -> i < b -> exists r, test i = Ok r /\ (r = true <-> Q i)) ->
  exists r, for_range a b (fun i (ok : bool) => if ok then test i else Ok false) true = Ok r /\
            (r = true <-> forall i, a <= i -> i < b -> Q i).
Proof.
  intros Hab Ht.
  destruct (for_range_inv (fun l (ok : bool) => ok = true <-> forall i, a <= i -> i < l -> Q i)
              (fun i (ok : bool) => if ok then test i else Ok false) a b true) as (r & Hr & Hp).
  - assumption.
  - split; [intros; lia|reflexivity].
  - intros k s K1 K2 Hs. destruct s.
    + destruct (Ht k K1 K2) as (r & Hr & Hq). exists r. split; [assumption|].
      rewrite Hq. split.
      * intros Hk i I1 I2. destruct (N.eq_dec i k) as [->|]; [assumption|]. apply Hs; [reflexivity|lia|lia].
      * intros H. apply H; lia.
    + exists false. split; [reflexivity|]. split; [discriminate|].
      intros H. apply Hs. intros i I1 I2. apply H; lia.
  - exists r. auto.
Qed.

Lemma for_range_any (test : N -> res bool) (Q : N -> Prop) a b : a <= b ->
  (forall i, a <= i -> i < b -> exists r, test i = Ok r /\ (r = true <-> Q i)) ->
  exists r, for_range a b (fun i (found : bool) => if found then Ok true else test i) false = Ok r /\
            (r = true <-> exists i, a <= i /\ i < b /\ Q i).
Proof.
  intros Hab Ht.
  destruct (for_range_inv (fun l (fd : bool) => fd = true <-> exists i, a <= i /\ i < l /\ Q i)
              (fun i (found : bool) => if found then Ok true else test i) a b false) as (r & Hr & Hp).
  - assumption.
  - split; [discriminate|]. intros (i & I1 & I2 & _). lia.
  - intros k s K1 K2 Hs. destruct s.
    + exists true. split; [reflexivity|]. split; [|reflexivity].
      intros _. destruct Hs as (Hs & _). destruct (Hs eq_refl) as (i & I1 & I2 & I3).
      exists i. repeat split; try assumption; lia.
    + destruct (Ht k K1 K2) as (r & Hr & Hq). exists r. split; [assumption|].
      rewrite Hq. split.
      * intros Hk. exists k. repeat split; try assumption; lia.
      * intros (i & I1 & I2 & I3). destruct (N.eq_dec i k) as [->|]; [assumption|].
        destruct Hs as (_ & Hs). discriminate Hs. exists i. repeat split; try assumption; lia.
  - exists r. auto.
Qed.

(* ---------- the inner loops over one row ---------- *)
Lemma sorted_loop_spec (j : list N) pe : pe <= lenN j -> lenN j < 2 ^ 31 ->
  forall fuel jj, (N.to_nat (pe - jj) < fuel)%nat -> jj <= pe ->
  exists r, sorted_loop fuel j jj pe = Ok r /\
            (r = true <-> forall t, jj <= t -> t + 1 < pe -> nthN j t 0 <= nthN j (t + 1) 0).
Proof.
  intros Hpe Hs. induction fuel; intros jj Hf Hjj; [lia|].
  cbn [sorted_loop]. rewrite uadd_small by lia.
  destruct (N.ltb_spec (jj + 1) pe) as [Hlt|Hge].
  - rewrite (getN_ok j jj 0) by lia. cbn [bind].
    rewrite (getN_ok j (jj + 1) 0) by lia. cbn [bind].
    destruct (N.ltb_spec (nthN j (jj + 1) 0) (nthN j jj 0)) as [Hb|Hb].
    + exists false. split; [reflexivity|]. split; [discriminate|].
      intros H. specialize (H jj ltac:(lia) Hlt). lia.
    + destruct (IHfuel (jj + 1) ltac:(lia) ltac:(lia)) as (r & Hr & Hq). exists r. split; [assumption|].
      rewrite Hq. split.
      * intros H t T1 T2. destruct (N.eq_dec t jj) as [->|]; [assumption|]. apply H; lia.
      * intros H t T1 T2. apply H; lia.
  - exists true. split; [reflexivity|]. split; [|reflexivity]. intros _ t T1 T2. lia.
Qed.

Lemma dup_loop_spec (j : list N) pe : pe <= lenN j -> lenN j < 2 ^ 31 ->
  forall fuel jj, (N.to_nat (pe - jj) < fuel)%nat -> jj <= pe ->
  exists r, dup_loop fuel j jj pe = Ok r /\
            (r = true <-> exists t, jj <= t /\ t + 1 < pe /\ nthN j t 0 = nthN j (t + 1) 0).
Proof.
  intros Hpe Hs. induction fuel; intros jj Hf Hjj; [lia|].
  cbn [dup_loop]. rewrite uadd_small by lia.
  destruct (N.ltb_spec (jj + 1) pe) as [Hlt|Hge].
  - rewrite (getN_ok j jj 0) by lia. cbn [bind].
    rewrite (getN_ok j (jj + 1) 0) by lia. cbn [bind].
    destruct (N.eqb_spec (nthN j jj 0) (nthN j (jj + 1) 0)) as [Hb|Hb].
    + exists true. split; [reflexivity|]. split; [|reflexivity].
      intros _. exists jj. repeat split; try assumption; lia.
    + destruct (IHfuel (jj + 1) ltac:(lia) ltac:(lia)) as (r & Hr & Hq). exists r. split; [assumption|].
      rewrite Hq. split.
      * intros (t & T1 & T2 & T3). exists t. repeat split; try assumption; lia.
      * intros (t & T1 & T2 & T3). destruct (N.eq_dec t jj) as [->|]; [contradiction|].
        exists t. repeat split; try assumption; lia.
  - exists false. split; [reflexivity|]. split; [discriminate|]. intros (t & T1 & T2 & T3). lia.
Qed.

(* ---------- the three checkers on arrays with monotone row pointers ---------- *)
Section Arrays.
Variables (p j : list N) (row : N).
Hypothesis Hlen : lenN p = row + 1.
Hypothesis Hrow : row < 2 ^ 31.
Hypothesis Hj : lenN j < 2 ^ 31.

Definition mono_p : Prop := forall i, i < row -> nthN p i 0 <= nthN p (i + 1) 0.
Definition adj_sorted : Prop :=
  forall i, i < row -> forall t, nthN p i 0 <= t -> t + 1 < nthN p (i + 1) 0 -> nthN j t 0 <= nthN j (t + 1) 0.
Definition adj_dup : Prop :=
  exists i, i < row /\ exists t, nthN p i 0 <= t /\ t + 1 < nthN p (i + 1) 0 /\ nthN j t 0 = nthN j (t + 1) 0.

Lemma p_monotone_spec : exists r, p_monotone p row = Ok r /\ (r = true <-> mono_p).
Proof.
  unfold p_monotone.
  destruct (for_range_all
    (fun i => do a <- getN p i; do b <- getN p (uadd i 1); Ok (negb (b <? a)))
    (fun i => nthN p i 0 <= nthN p (i + 1) 0) 0 row) as (r & Hr & Hq).
  - lia.
  - intros i _ Hi. rewrite (getN_ok p i 0) by lia. cbn [bind]. rewrite uadd_small by lia.
    rewrite (getN_ok p (i + 1) 0) by lia. cbn [bind].
    eexists; split; [reflexivity|].
    destruct (N.ltb_spec (nthN p (i + 1) 0) (nthN p i 0)); cbn [negb]; split; intros; try lia; try discriminate; reflexivity.
  - exists r. split; [assumption|]. rewrite Hq. unfold mono_p. split; intros H i; [intros; apply H; lia|intros _; apply H].
Qed.

Hypothesis Hmono : mono_p.
Hypothesis Hnnz : nthN p row 0 <= lenN j.

Lemma p_le (i : N) : i <= row -> nthN p i 0 <= lenN j.
Proof.
  intros Hi.
  assert (H : forall d, (d <= N.to_nat row)%nat -> nthN p (row - N.of_nat d) 0 <= lenN j).
  { induction d; intros Hd.
    - replace (row - N.of_nat 0) with row by lia. assumption.
    - specialize (IHd ltac:(lia)). specialize (Hmono (row - N.of_nat (S d)) ltac:(lia)).
      replace (row - N.of_nat (S d) + 1) with (row - N.of_nat d) in Hmono by lia. lia. }
  specialize (H (N.to_nat (row - i)) ltac:(lia)). replace (row - N.of_nat (N.to_nat (row - i))) with i in H by lia.
  assumption.
Qed.

Lemma has_sorted_indices_spec : exists r, has_sorted_indices p j row = Ok r /\ (r = true <-> adj_sorted).
Proof.
  unfold has_sorted_indices.
  destruct (for_range_all
    (fun i => do ps <- getN p i; do pe <- getN p (uadd i 1); sorted_loop (S (N.to_nat (pe - ps))) j ps pe)
    (fun i => forall t, nthN p i 0 <= t -> t + 1 < nthN p (i + 1) 0 -> nthN j t 0 <= nthN j (t + 1) 0)
    0 row) as (r & Hr & Hq).
  - lia.
  - intros i _ Hi. rewrite (getN_ok p i 0) by lia. cbn [bind]. rewrite uadd_small by lia.
    rewrite (getN_ok p (i + 1) 0) by lia. cbn [bind].
    apply sorted_loop_spec; [apply p_le; lia|assumption|lia|apply Hmono; lia].
  - exists r. split; [assumption|]. rewrite Hq. unfold adj_sorted.
    split; intros H i.
    + intros Hi t T1 T2. apply (H i); [lia|assumption|assumption|assumption].
    + intros _ Hi. apply H; assumption.
Qed.

Lemma has_duplicates_spec : exists r, has_duplicates p j row = Ok r /\ (r = true <-> adj_dup).
Proof.
  unfold has_duplicates.
  destruct (for_range_any
    (fun i => do ps <- getN p i; do pe <- getN p (uadd i 1); dup_loop (S (N.to_nat (pe - ps))) j ps pe)
    (fun i => exists t, nthN p i 0 <= t /\ t + 1 < nthN p (i + 1) 0 /\ nthN j t 0 = nthN j (t + 1) 0)
    0 row) as (r & Hr & Hq).
  - lia.
  - intros i _ Hi. rewrite (getN_ok p i 0) by lia. cbn [bind]. rewrite uadd_small by lia.
    rewrite (getN_ok p (i + 1) 0) by lia. cbn [bind].
    apply dup_loop_spec; [apply p_le; lia|assumption|lia|apply Hmono; lia].
  - exists r. split; [assumption|]. rewrite Hq. unfold adj_dup.
    split; intros (i & I1 & I2); exists i; [tauto|]. split; [lia|]. tauto.
Qed.

End Arrays.

Section Canon.
Context {E : Type}.
Variable Ops : eops E.
Notation mat := (csr E).

(* adjacent strictly increasing = pairwise strictly increasing *)
Lemma adjacent_strict_sorted (m : mat) i :
  (forall t, pN m i <= t -> t + 1 < pN m (i + 1) -> nthN (cj m) t 0 < nthN (cj m) (t + 1) 0) ->
  row_sorted m i.
Proof.
  intros H a b A1 A2 A3.
  assert (G : forall d, a + N.of_nat d + 1 < pN m (i + 1) -> nthN (cj m) a 0 < nthN (cj m) (a + N.of_nat d + 1) 0).
  { induction d; intros Hd.
    - replace (a + N.of_nat 0) with a by lia. apply H; lia.
    - specialize (IHd ltac:(lia)). specialize (H (a + N.of_nat d + 1) ltac:(lia) ltac:(lia)).
      replace (a + N.of_nat (S d) + 1) with (a + N.of_nat d + 1 + 1) by lia. lia. }
  specialize (G (N.to_nat (b - a - 1))). replace (a + N.of_nat (N.to_nat (b - a - 1)) + 1) with b in G by lia.
  apply G; lia.
Qed.

(* csr_has_canonical_format decides: monotone row pointers and strictly increasing rows *)
Theorem has_canonical_format_spec (m : mat) :
  lenN (cp m) = crow m + 1 -> crow m < 2 ^ 31 -> lenN (cj m) < 2 ^ 31 -> pN m (crow m) = lenN (cj m) ->
  exists r, has_canonical_format (cp m) (cj m) (crow m) = Ok r /\
    (r = true <-> ((forall i, i < crow m -> pN m i <= pN m (i + 1)) /\ forall i, i < crow m -> row_sorted m i)).
Proof.
  intros Hlen Hrow Hj Hn. unfold has_canonical_format.
  destruct (p_monotone_spec (cp m) (cj m) (crow m) Hlen Hrow Hj) as (r1 & Hr1 & Hq1). rewrite Hr1. cbn [bind].
  destruct r1.
  - assert (Hmono : mono_p (cp m) (crow m)) by (apply Hq1; reflexivity).
    assert (Hnn : nthN (cp m) (crow m) 0 <= lenN (cj m)) by (unfold pN in Hn; lia).
    destruct (has_sorted_indices_spec (cp m) (cj m) (crow m) Hlen Hrow Hj Hmono Hnn) as (r2 & Hr2 & Hq2).
    rewrite Hr2. cbn [bind]. destruct r2.
    + destruct (has_duplicates_spec (cp m) (cj m) (crow m) Hlen Hrow Hj Hmono Hnn) as (r3 & Hr3 & Hq3).
      rewrite Hr3. cbn [bind]. eexists; split; [reflexivity|].
      assert (Hsort : adj_sorted (cp m) (cj m) (crow m)) by (apply Hq2; reflexivity).
      destruct r3; cbn [negb].
      * split; [discriminate|]. intros (_ & Hs). exfalso.
        destruct Hq3 as (Hq3 & _). destruct (Hq3 eq_refl) as (i & Hi & t & T1 & T2 & T3).
        specialize (Hs i Hi t (t + 1)). unfold pN in Hs. lia.
      * split; [|reflexivity]. intros _. split; [exact Hmono|].
        intros i Hi. apply adjacent_strict_sorted. intros t T1 T2.
        specialize (Hsort i Hi t T1 T2).
        destruct (N.eq_dec (nthN (cj m) t 0) (nthN (cj m) (t + 1) 0)) as [Heq|]; [|lia].
        exfalso. destruct Hq3 as (_ & Hq3). discriminate Hq3.
        exists i. split; [assumption|]. exists t. auto.
    + eexists; split; [reflexivity|]. split; [discriminate|]. intros (_ & Hs). exfalso.
      destruct Hq2 as (_ & Hq2). discriminate Hq2.
      intros i Hi t T1 T2. specialize (Hs i Hi t (t + 1)). unfold pN in Hs. lia.
  - eexists; split; [reflexivity|]. split; [discriminate|]. intros (Hm & _). exfalso.
    destruct Hq1 as (_ & Hq1). discriminate Hq1. exact Hm.
Qed.

(* CSRMatrix::is_canonical accepts every canonical matrix ... *)
Theorem is_canonical_complete (m : mat) :
  canon m -> crow m < 2 ^ 31 -> lenN (cj m) < 2 ^ 31 -> is_canonical m = Ok true.
Proof.
  intros ((W1 & W2 & W3 & W4 & W5) & Hs) Hrow Hj. unfold is_canonical.
  rewrite uadd_small by lia.
  destruct (N.eqb_spec (lenN (cp m)) (crow m + 1)); [|contradiction]. cbn [negb].
  rewrite (getN_ok (cp m) 0 0) by lia. cbn [bind]. fold (pN m 0). rewrite W2. cbn [N.eqb negb].
  rewrite (getN_ok (cp m) (crow m) 0) by lia. cbn [bind]. fold (pN m (crow m)). rewrite W4.
  rewrite N.eqb_refl. rewrite W5, N.eqb_refl. cbn [negb orb].
  destruct (has_canonical_format_spec m W1 Hrow Hj W4) as (r & Hr & Hq). rewrite Hr.
  f_equal. apply Hq. split; assumption.
Qed.

(* ... and only those: it checks the sizes, p_[0] = 0, the row pointers and the rows *)
Theorem is_canonical_sound (m : mat) :
  is_canonical m = Ok true -> crow m < 2 ^ 31 -> lenN (cj m) < 2 ^ 31 -> canon m.
Proof.
  intros H Hrow Hj. unfold is_canonical in H.
  rewrite uadd_small in H by lia.
  destruct (N.eqb_spec (lenN (cp m)) (crow m + 1)) as [Hlen|]; [|discriminate]. cbn [negb] in H.
  rewrite (getN_ok (cp m) 0 0) in H by lia. cbn [bind] in H. fold (pN m 0) in H.
  destruct (N.eqb_spec (pN m 0) 0) as [H0|]; [|discriminate]. cbn [negb] in H.
  rewrite (getN_ok (cp m) (crow m) 0) in H by lia. cbn [bind] in H. fold (pN m (crow m)) in H.
  destruct (N.eqb_spec (lenN (cj m)) (pN m (crow m))) as [Hn|]; [|discriminate].
  destruct (N.eqb_spec (lenN (cx m)) (pN m (crow m))) as [Hx|]; [|discriminate]. cbn [negb orb] in H.
  destruct (has_canonical_format_spec m Hlen Hrow Hj ltac:(lia)) as (r & Hr & Hq).
  rewrite Hr in H. injection H as ->. destruct Hq as (Hq & _). destruct (Hq eq_refl) as (Hm & Hs).
  split; [|assumption]. unfold wf. repeat split; try assumption; lia.
Qed.

(* CSRMatrix::is_canonical always answers on arrays of bounded size, and decides [canon] *)
Theorem is_canonical_spec (m : mat) :
  crow m < 2 ^ 31 -> lenN (cj m) < 2 ^ 31 ->
  exists r, is_canonical m = Ok r /\ (r = true <-> canon m).
Proof.
  intros Hrow Hj.
  assert (Hdec : (exists r, is_canonical m = Ok r)).
  { unfold is_canonical. rewrite uadd_small by lia.
    destruct (N.eqb_spec (lenN (cp m)) (crow m + 1)) as [Hlen|]; cbn [negb]; [|eauto].
    rewrite (getN_ok (cp m) 0 0) by lia. cbn [bind].
    destruct (negb (nthN (cp m) 0 0 =? 0)); [eauto|].
    rewrite (getN_ok (cp m) (crow m) 0) by lia. cbn [bind]. fold (pN m (crow m)).
    destruct (N.eqb_spec (lenN (cj m)) (pN m (crow m))) as [Hn|]; cbn [negb orb]; [|eauto].
    destruct (negb (lenN (cx m) =? pN m (crow m))); [eauto|].
    destruct (has_canonical_format_spec m Hlen Hrow Hj ltac:(lia)) as (r & Hr & _). eauto. }
  destruct Hdec as (r & Hr). exists r. split; [assumption|]. split.
  - intros ->. apply is_canonical_sound; assumption.
  - intros Hc. rewrite (is_canonical_complete m Hc Hrow Hj) in Hr. injection Hr as <-. reflexivity.
Qed.

End Canon.
