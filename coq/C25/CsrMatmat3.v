(* C25 -- csr_matmat, part 3: csr_matmat_pass2 (accumulation with the linked list, emission). *)
From SE Require Export C25.CsrMatmat2.
Local Open Scope N_scope.
Local Open Scope res_scope.

(* ---------- the linked list threaded through next[] ---------- *)
Fixpoint chain (next : list Z) (h : Z) (D : list N) : Prop :=
  match D with
  | [] => h = (-2)%Z
  | k :: D' => h = Z.of_N k /\ chain next (nthN next k (-1)%Z) D'
  end.

Lemma chain_head_ne next h D : chain next h D -> h <> (-1)%Z.
Proof. destruct D; cbn [chain]; intros; lia. Qed.

Lemma chain_next_ne next D : forall h, chain next h D ->
  forall x, In x D -> nthN next x (-1)%Z <> (-1)%Z.
Proof.
  induction D as [|k D IH]; intros h Hc x Hx; [destruct Hx|].
  destruct Hc as (_ & Hc). destruct Hx as [<-|Hx].
  - eapply chain_head_ne; eassumption.
  - eapply IH; eassumption.
Qed.

Lemma chain_ext next next' D : forall h,
  (forall x, In x D -> nthN next' x (-1)%Z = nthN next x (-1)%Z) ->
  chain next h D -> chain next' h D.
Proof.
  induction D as [|k D IH]; intros h He Hc; [exact Hc|].
  destruct Hc as (Hh & Hc). split; [exact Hh|].
  rewrite (He k (or_introl eq_refl)). apply IH; [|exact Hc].
  intros x Hx. apply He. right. exact Hx.
Qed.

Lemma lenN_filter_le {X} (f : X -> bool) l : lenN (filter f l) <= lenN l.
Proof.
  unfold lenN. induction l as [|a l IH]; cbn [filter length]; [lia|].
  destruct (f a); cbn [length]; lia.
Qed.

Section Pass2.
Context {E : Type}.
Variable Ops : eops E.
Hypothesis Hsr : semiring Ops.
Variables A B : csr E.
Hypothesis HA : @Inv E A.
Hypothesis HB : @Inv E B.
Hypothesis Hd : ccol A = crow B.
Hypothesis Hsz : crow A * ccol B < 2 ^ 31.
Notation zero := (ezero Ops).
Notation items := (items Ops A B).
Notation items_at := (items_at Ops A B).
Notation csum := (csum Ops).
Notation cnt := (cnt Ops A B).
Notation psum := (psum Ops A B).

(* ---------- what a row emits ---------- *)
Definition nzb (x : N * E) : bool := negb (eis_zero Ops (snd x)).
Definition em_of (D : list N) (h : N -> E) : list (N * E) :=
  filter nzb (map (fun k => (k, h k)) D).

Lemma em_of_ext D h h' : (forall x, In x D -> h x = h' x) -> em_of D h = em_of D h'.
Proof.
  intros H. unfold em_of. f_equal. apply map_ext_in. intros x Hx. rewrite (H x Hx). reflexivity.
Qed.

Lemma em_of_cons k D h :
  em_of (k :: D) h = if negb (eis_zero Ops (h k)) then (k, h k) :: em_of D h else em_of D h.
Proof. unfold em_of. cbn [map filter]. unfold nzb at 1. cbn [snd]. reflexivity. Qed.

Lemma em_of_len D h : lenN (em_of D h) <= lenN D.
Proof.
  unfold em_of. etransitivity; [apply lenN_filter_le|]. unfold lenN. rewrite map_length. lia.
Qed.

Lemma em_of_fst D h : map fst (em_of D h) = filter (fun k => negb (eis_zero Ops (h k))) D.
Proof.
  unfold em_of. induction D as [|k D IH]; cbn [map filter]; [reflexivity|].
  unfold nzb at 1. cbn [snd]. destruct (eis_zero Ops (h k)); cbn [negb map fst]; rewrite IH; reflexivity.
Qed.

Lemma em_of_in D h x : In x (em_of D h) -> In (fst x) D.
Proof.
  intros Hx. apply (in_map fst) in Hx. rewrite em_of_fst in Hx. apply filter_In in Hx. tauto.
Qed.

Definition em (i : N) : list (N * E) :=
  em_of (disc (map fst (items i))) (fun k => csum k (items i)).
Definition cnt2 (i : N) : N := lenN (em i).
Definition psum2 (i : N) : N := sumN cnt2 i.

Lemma cnt2_le i : cnt2 i <= cnt i.
Proof. unfold cnt2, em, CsrMatmat2.cnt. apply em_of_len. Qed.

Lemma psum2_le i : psum2 i <= psum i.
Proof. apply sumN_le. intros; apply cnt2_le. Qed.

Lemma psum_succ i : psum (i + 1) = psum i + cnt i.
Proof. apply sumN_succ. Qed.
Lemma psum2_succ i : psum2 (i + 1) = psum2 i + cnt2 i.
Proof. apply sumN_succ. Qed.
Lemma psum_mono a b : a <= b -> psum a <= psum b.
Proof. apply sumN_mono. Qed.
Lemma psum2_mono a b : a <= b -> psum2 a <= psum2 b.
Proof. apply sumN_mono. Qed.
Lemma psum_lt i : i <= crow A -> psum i < 2 ^ 31.
Proof. apply psum_small; assumption. Qed.
Lemma colA_lt : ccol A < 2 ^ 31.
Proof. apply (colA_small A HA). Qed.
Lemma colB_lt : ccol B < 2 ^ 31.
Proof. apply (colB_small B HB). Qed.
Lemma rowA_lt : crow A < 2 ^ 31.
Proof. apply (rowA_small A HA). Qed.
Lemma wfA' : @wf E A. Proof. apply HA. Qed.
Lemma wfB' : @wf E B. Proof. apply HB. Qed.
Lemma pA_le' i : i < crow A -> pN A i <= pN A (i + 1).
Proof. apply (pA_le A B); assumption. Qed.
Lemma pB_le' j : j < crow B -> pN B j <= pN B (j + 1).
Proof. apply (pB_le A B); assumption. Qed.
Lemma posA' i jj : i < crow A -> pN A i <= jj -> jj < pN A (i + 1) ->
  jj < lenN (cj A) /\ lenN (cx A) = lenN (cj A) /\ nthN (cj A) jj 0 < crow B.
Proof. apply (posA A B); assumption. Qed.
Lemma posB' j kk : j < crow B -> pN B j <= kk -> kk < pN B (j + 1) ->
  kk < lenN (cj B) /\ lenN (cx B) = lenN (cj B) /\ nthN (cj B) kk 0 < ccol B.
Proof. apply (posB A B); assumption. Qed.

(* ---------- the emission loop ---------- *)
Lemma emit_spec : forall D head next sums oj ox nnz,
  NoDup D -> chain next head D -> (forall k, In k D -> k < lenN next) ->
  lenN sums = lenN next -> lenN next < 2 ^ 31 -> lenN ox = lenN oj ->
  nnz + lenN D <= lenN oj -> lenN oj < 2 ^ 31 ->
  let e := em_of D (fun k => nthN sums k zero) in
  exists next' sums' oj' ox',
    emit_loop Ops (length D) head next sums oj ox nnz = Ok (next', sums', oj', ox', nnz + lenN e) /\
    lenN next' = lenN next /\ lenN sums' = lenN sums /\ lenN oj' = lenN oj /\ lenN ox' = lenN ox /\
    (forall k, nthN next' k (-1)%Z = if memN k D then (-1)%Z else nthN next k (-1)%Z) /\
    (forall k, nthN sums' k zero = if memN k D then zero else nthN sums k zero) /\
    (forall t, t < nnz -> nthN oj' t 0 = nthN oj t 0 /\ nthN ox' t zero = nthN ox t zero) /\
    (forall t, (t < length e)%nat ->
       nthN oj' (nnz + N.of_nat t) 0 = fst (nth t e (0, zero)) /\
       nthN ox' (nnz + N.of_nat t) zero = snd (nth t e (0, zero))).
Proof.
  induction D as [|k D IH]; intros head next sums oj ox nnz Hnd Hch Hin Hls Hln Hlx Hfit Hlo e.
  - cbn [length emit_loop]. exists next, sums, oj, ox. subst e. cbn [em_of map filter].
    rewrite lenN_nil, N.add_0_r. repeat split; try reflexivity.
    + cbn [length] in H. lia.
    + cbn [length] in H. lia.
  - destruct Hch as (-> & Hch). inversion Hnd as [|? ? Hnk Hnd']; subst.
    assert (Hk : k < lenN next) by (apply Hin; left; reflexivity).
    rewrite lenN_cons in Hfit.
    cbn [length emit_loop]. rewrite zidx_of_N.
    rewrite (getN_ok sums k zero) by lia. cbn [bind].
    rewrite u32_small by lia.
    set (s := nthN sums k zero) in *.
    set (next1 := updn (N.to_nat k) next (-1)%Z).
    set (sums1 := updn (N.to_nat k) sums zero).
    assert (Hch1 : chain next1 (nthN next k (-1)%Z) D).
    { apply (chain_ext next); [|exact Hch]. intros x Hx. unfold next1. rewrite nthN_updn by lia.
      destruct (N.eqb_spec x k); [subst; tauto|reflexivity]. }
    assert (Hin1 : forall x, In x D -> x < lenN next1).
    { intros x Hx. unfold next1. rewrite lenN_updn by lia. apply Hin. right. exact Hx. }
    assert (Hls1 : lenN sums1 = lenN next1).
    { unfold sums1, next1. rewrite !lenN_updn by lia. exact Hls. }
    assert (Hln1 : lenN next1 < 2 ^ 31) by (unfold next1; rewrite lenN_updn by lia; exact Hln).
    assert (He1 : em_of D (fun x => nthN sums1 x zero) = em_of D (fun x => nthN sums x zero)).
    { apply em_of_ext. intros x Hx. unfold sums1. rewrite nthN_updn by lia.
      destruct (N.eqb_spec x k); [subst; tauto|reflexivity]. }
    assert (Hnext1 : forall c, (if memN c D then (-1)%Z else nthN next1 c (-1)%Z) =
                               (if memN c (k :: D) then (-1)%Z else nthN next c (-1)%Z)).
    { intros c. unfold next1. rewrite nthN_updn by lia. unfold memN. cbn [existsb].
      destruct (N.eqb_spec c k); cbn [orb]; [destruct (existsb (N.eqb c) D)|]; reflexivity. }
    assert (Hsums1 : forall c, (if memN c D then zero else nthN sums1 c zero) =
                               (if memN c (k :: D) then zero else nthN sums c zero)).
    { intros c. unfold sums1. rewrite nthN_updn by lia. unfold memN. cbn [existsb].
      destruct (N.eqb_spec c k); cbn [orb]; [destruct (existsb (N.eqb c) D)|]; reflexivity. }
    subst e. rewrite em_of_cons. fold s.
    destruct (eis_zero Ops s) eqn:Hz; cbn [negb].
    + (* a zero sum is dropped *)
      cbn [bind]. rewrite (getN_ok next k (-1)%Z) by lia. cbn [bind].
      rewrite !setN_ok by lia. cbn [bind]. fold next1 sums1.
      destruct (IH (nthN next k (-1)%Z) next1 sums1 oj ox nnz Hnd' Hch1 Hin1 Hls1 Hln1 Hlx
                   ltac:(lia) Hlo)
        as (next' & sums' & oj' & ox' & Hrun & L1 & L2 & L3 & L4 & N1 & S1 & O1 & O2).
      rewrite He1 in Hrun, O2.
      exists next', sums', oj', ox'. split; [exact Hrun|].
      split; [unfold next1 in L1; rewrite lenN_updn in L1 by lia; exact L1|].
      split; [unfold sums1 in L2; rewrite lenN_updn in L2 by lia; exact L2|].
      split; [exact L3|]. split; [exact L4|].
      split; [intros c; rewrite N1; apply Hnext1|].
      split; [intros c; rewrite S1; apply Hsums1|].
      split; [exact O1|exact O2].
    + (* a nonzero sum is stored *)
      rewrite !setN_ok by lia. cbn [bind].
      rewrite uadd_small by lia.
      rewrite (getN_ok next k (-1)%Z) by lia. cbn [bind].
      rewrite ?setN_ok by lia. cbn [bind]. fold next1 sums1.
      set (oj1 := updn (N.to_nat nnz) oj k). set (ox1 := updn (N.to_nat nnz) ox s).
      assert (Hlo1 : lenN oj1 = lenN oj) by (unfold oj1; rewrite lenN_updn by lia; reflexivity).
      assert (Hlx1 : lenN ox1 = lenN oj1) by (unfold ox1, oj1; rewrite !lenN_updn by lia; exact Hlx).
      destruct (IH (nthN next k (-1)%Z) next1 sums1 oj1 ox1 (nnz + 1) Hnd' Hch1 Hin1 Hls1 Hln1 Hlx1
                   ltac:(lia) ltac:(lia))
        as (next' & sums' & oj' & ox' & Hrun & L1 & L2 & L3 & L4 & N1 & S1 & O1 & O2).
      rewrite He1 in Hrun, O2.
      exists next', sums', oj', ox'. split.
      { rewrite Hrun. rewrite lenN_cons. do 2 f_equal. lia. }
      split; [unfold next1 in L1; rewrite lenN_updn in L1 by lia; exact L1|].
      split; [unfold sums1 in L2; rewrite lenN_updn in L2 by lia; exact L2|].
      split; [lia|]. split; [unfold ox1 in L4; rewrite lenN_updn in L4 by lia; exact L4|].
      split; [intros c; rewrite N1; apply Hnext1|].
      split; [intros c; rewrite S1; apply Hsums1|].
      split.
      * intros t Ht. destruct (O1 t ltac:(lia)) as (-> & ->). unfold oj1, ox1.
        rewrite !nthN_updn by lia. destruct (N.eqb_spec t nnz); [lia|]. split; reflexivity.
      * intros t Ht. destruct t as [|t].
        -- cbn [nth fst snd]. rewrite N.add_0_r. destruct (O1 nnz ltac:(lia)) as (-> & ->).
           unfold oj1, ox1. rewrite !nthN_updn by lia. rewrite N.eqb_refl. split; reflexivity.
        -- cbn [nth]. cbn [length] in Ht.
           replace (nnz + N.of_nat (S t)) with (nnz + 1 + N.of_nat t) by lia.
           apply O2. lia.
Qed.

(* ---------- the accumulation loops of one row ---------- *)
Definition Q2 (L : list (N * E)) (st : list Z * list E * Z * N) : Prop :=
  let '(next, sums, head, len) := st in
  lenN next = ccol B /\ lenN sums = ccol B /\
  (forall k, In k (map fst L) -> k < ccol B) /\
  chain next head (disc (map fst L)) /\
  (forall k, k < ccol B -> ~ In k (map fst L) -> nthN next k (-1)%Z = (-1)%Z) /\
  len = lenN (disc (map fst L)) /\
  (forall k, k < ccol B -> nthN sums k zero = csum k L).

Lemma p2_inner jj L st :
  nthN (cj A) jj 0 < crow B ->
  Q2 L st ->
  exists st',
    for_range (pN B (nthN (cj A) jj 0)) (pN B (nthN (cj A) jj 0 + 1)) (fun kk st =>
            let '(next, sums, head, length) := st in
            do k <- getN (cj B) kk;
            do sk <- getN sums k;
            do bv <- getN (cx B) kk;
            do sums' <- setN sums k (eadd Ops sk (emul Ops (nthN (cx A) jj zero) bv));
            do nk <- getN next k;
            if (nk =? -1)%Z then
              do next' <- setN next k head;
              Ok (next', sums', Z.of_N k, uadd length 1)
            else Ok (next, sums', head, length)) st = Ok st' /\
    Q2 (L ++ items_at jj) st'.
Proof.
  intros Hj HQ. unfold CsrMatmat1.items_at.
  apply (for_range_acc1 Q2); [apply pB_le'; assumption|assumption|].
  clear L st HQ. intros kk L [[[next sums] head] len] K1 K2 (Qa & Qb & Qc & Qd & Qe & Qf & Qg).
  destruct (posB' _ kk Hj K1 K2) as (P1 & P2 & P3).
  set (k := nthN (cj B) kk 0) in *.
  set (x := emul Ops (nthN (cx A) jj zero) (nthN (cx B) kk zero)).
  rewrite (getN_ok (cj B) kk 0) by lia. cbn [bind]. fold k.
  rewrite (getN_ok sums k zero) by lia. cbn [bind].
  rewrite (getN_ok (cx B) kk zero) by lia. cbn [bind]. fold x.
  rewrite setN_ok by lia. cbn [bind].
  rewrite (getN_ok next k (-1)%Z) by lia. cbn [bind].
  assert (Hin : forall c, In c (map fst (L ++ [(k, x)])) -> c < ccol B).
  { intros c. rewrite map_app, in_app_iff. cbn [map fst In]. intros [H|[<-|[]]]; auto. }
  assert (Hsum : forall c, c < ccol B ->
            nthN (updn (N.to_nat k) sums (eadd Ops (nthN sums k zero) x)) c zero = csum c (L ++ [(k, x)])).
  { intros c Hc. rewrite nthN_updn by lia. rewrite (csum_snoc Ops Hsr). cbn [fst snd].
    destruct (N.eqb_spec c k) as [->|Hne].
    - rewrite N.eqb_refl. rewrite Qg by lia. reflexivity.
    - destruct (N.eqb_spec k c); [congruence|]. apply Qg; assumption. }
  destruct (memN k (map fst L)) eqn:Hmem.
  - (* k already in the list *)
    assert (Hk : In k (disc (map fst L))) by (apply disc_in, memN_spec; assumption).
    pose proof (chain_next_ne next _ head Qd k Hk) as Hne.
    destruct (Z.eqb_spec (nthN next k (-1)%Z) (-1)%Z) as [|_]; [contradiction|].
    eexists. split; [reflexivity|].
    assert (Hdisc : disc (map fst (L ++ [(k, x)])) = disc (map fst L)).
    { rewrite map_app. cbn [map fst]. rewrite disc_snoc. unfold disc_step.
      rewrite memN_disc, Hmem. reflexivity. }
    unfold Q2. rewrite Hdisc.
    split; [assumption|]. split; [rewrite lenN_updn; lia|]. split; [assumption|].
    split; [assumption|]. split; [|split; [assumption|assumption]].
    intros c Hc Hnc. apply Qe; [assumption|]. intros Hc'. apply Hnc.
    rewrite map_app, in_app_iff. left. assumption.
  - (* a new column *)
    assert (Hk : ~ In k (map fst L)) by (apply memN_false; assumption).
    rewrite (Qe k) by (assumption || lia). cbn [Z.eqb].
    replace ((-1 =? -1)%Z) with true by reflexivity.
    rewrite setN_ok by lia. cbn [bind].
    assert (Hdisc : disc (map fst (L ++ [(k, x)])) = k :: disc (map fst L)).
    { rewrite map_app. cbn [map fst]. rewrite disc_snoc. unfold disc_step.
      rewrite memN_disc, Hmem. reflexivity. }
    assert (Hb : lenN (disc (map fst (L ++ [(k, x)]))) <= ccol B).
    { apply nodup_bounded; [apply disc_nodup|]. intros c Hc. rewrite disc_in in Hc. apply Hin. exact Hc. }
    rewrite Hdisc, lenN_cons in Hb.
    pose proof colB_lt.
    rewrite uadd_small by lia.
    eexists. split; [reflexivity|].
    unfold Q2. rewrite Hdisc.
    split; [rewrite lenN_updn; lia|]. split; [rewrite lenN_updn; lia|]. split; [assumption|].
    split; [|split; [|split; [rewrite lenN_cons; lia|assumption]]].
    + cbn [chain]. split; [reflexivity|]. rewrite nthN_updn by lia. rewrite N.eqb_refl.
      apply (chain_ext next); [|assumption].
      intros c Hc. rewrite nthN_updn by lia. destruct (N.eqb_spec c k) as [->|]; [|reflexivity].
      rewrite disc_in in Hc. contradiction.
    + intros c Hc Hnc. rewrite map_app, in_app_iff in Hnc. cbn [map fst In] in Hnc.
      rewrite nthN_updn by lia. destruct (N.eqb_spec c k) as [->|]; [tauto|].
      apply Qe; [assumption|tauto].
Qed.

Lemma p2_row i st :
  i < crow A ->
  Q2 [] st ->
  exists st',
    for_range (pN A i) (pN A (i + 1)) (fun jj st =>
          do j <- getN (cj A) jj;
          do v <- getN (cx A) jj;
          do ka <- getN (cp B) j;
          do kb <- getN (cp B) (uadd j 1);
          for_range ka kb (fun kk st =>
            let '(next, sums, head, length) := st in
            do k <- getN (cj B) kk;
            do sk <- getN sums k;
            do bv <- getN (cx B) kk;
            do sums' <- setN sums k (eadd Ops sk (emul Ops v bv));
            do nk <- getN next k;
            if (nk =? -1)%Z then
              do next' <- setN next k head;
              Ok (next', sums', Z.of_N k, uadd length 1)
            else Ok (next, sums', head, length)) st) st = Ok st' /\
    Q2 (items i) st'.
Proof.
  intros Hi HQ. unfold CsrMatmat1.items.
  apply (for_range_accl Q2 items_at _ _ _ _ []); [apply pA_le'; assumption|assumption|].
  clear st HQ. intros jj L st K1 K2 HQ.
  destruct (posA' i jj Hi K1 K2) as (P1 & P2 & P3).
  rewrite (getN_ok (cj A) jj 0) by lia. cbn [bind].
  rewrite (getN_ok (cx A) jj zero) by lia. cbn [bind].
  set (j := nthN (cj A) jj 0) in *.
  rewrite (getN_p B j wfB') by lia. cbn [bind].
  pose proof colA_lt.
  rewrite uadd_small by lia.
  rewrite (getN_p B (j + 1) wfB') by lia. cbn [bind].
  apply p2_inner; assumption.
Qed.

(* ---------- the whole pass ---------- *)
Definition R2 (i : N) (st : list N * list N * list E * list Z * list E * N) : Prop :=
  let '(p, oj, ox, next, sums, nnz) := st in
  lenN p = crow A + 1 /\ lenN oj = psum (crow A) /\ lenN ox = psum (crow A) /\
  lenN next = ccol B /\ lenN sums = ccol B /\
  (forall k, k < ccol B -> nthN next k (-1)%Z = (-1)%Z) /\
  (forall k, k < ccol B -> nthN sums k zero = zero) /\
  nnz = psum2 i /\
  (forall r, r <= i -> nthN p r 0 = psum2 r) /\
  (forall t, t < nnz -> nthN oj t 0 < ccol B) /\
  (forall r t, r < i -> (t < length (em r))%nat ->
     nthN oj (psum2 r + N.of_nat t) 0 = fst (nth t (em r) (0, zero)) /\
     nthN ox (psum2 r + N.of_nat t) zero = snd (nth t (em r) (0, zero))).

Theorem pass2_spec (C0 : csr E) :
  lenN (cp C0) = crow A + 1 -> lenN (cj C0) = psum (crow A) -> lenN (cx C0) = psum (crow A) ->
  exists p2 j2 x2,
    matmat_pass2 Ops A B C0 = Ok (Build_csr p2 j2 x2 (crow C0) (ccol C0)) /\
    lenN p2 = crow A + 1 /\ lenN j2 = psum2 (crow A) /\ lenN x2 = psum2 (crow A) /\
    (forall r, r <= crow A -> nthN p2 r 0 = psum2 r) /\
    (forall i, i < crow A ->
       Permutation (segN Ops j2 x2 (psum2 i) (psum2 (i + 1))) (em i) /\
       srt N.le (segN Ops j2 x2 (psum2 i) (psum2 (i + 1)))).
Proof.
  intros HC1 HC2 HC3. unfold matmat_pass2.
  rewrite setN_ok by lia. cbn [bind].
  match goal with |- context [for_range 0 (crow A) ?body ?s] =>
    destruct (for_range_inv R2 body 0 (crow A) s) as (st' & Hrun & HR) end.
  - lia.
  - unfold R2. split; [rewrite lenN_updn; lia|]. split; [assumption|]. split; [assumption|].
    split; [rewrite lenN_repeat; lia|]. split; [rewrite lenN_repeat; lia|].
    split; [intros; apply nthN_repeat; lia|]. split; [intros; apply nthN_repeat; lia|].
    split; [reflexivity|]. split; [|split; [|intros; lia]].
    + intros r Hr. replace r with 0 by lia. rewrite nthN_updn by lia. reflexivity.
    + intros t Ht. lia.
  - intros i [[[[[p oj] ox] next] sums] nnz] _ Hi (Ra & Rb & Rc & Rd & Re & Rf & Rg & Rh & Ri & Rj & Rk).
    pose proof rowA_lt as Hrow. pose proof colA_lt as Hcol. pose proof colB_lt as HcolB.
    rewrite (getN_p A i wfA') by lia. cbn [bind].
    rewrite uadd_small by lia.
    rewrite (getN_p A (i + 1) wfA') by lia. cbn [bind].
    destruct (p2_row i (next, sums, (-2)%Z, 0) Hi)
      as ([[[next1 sums1] head] len] & Hrow' & (Qa & Qb & Qc & Qd & Qe & Qf & Qg)).
    { unfold Q2. cbn [map]. split; [assumption|]. split; [assumption|].
      split; [intros ? []|]. split; [reflexivity|]. split; [intros; apply Rf; assumption|].
      split; [reflexivity|]. intros k Hk. rewrite csum_nil. apply Rg; assumption. }
    rewrite Hrow'. cbn [bind].
    set (D := disc (map fst (items i))) in *.
    assert (HDlt : forall k, In k D -> k < ccol B).
    { intros k Hk. unfold D in Hk. rewrite disc_in in Hk. apply Qc; assumption. }
    assert (Hfit : psum2 i + cnt i <= psum (crow A)).
    { pose proof (psum2_le i). pose proof (psum_succ i). pose proof (psum_mono (i + 1) (crow A) ltac:(lia)). lia. }
    pose proof (psum_lt (crow A) ltac:(lia)) as Hn1.
    replace (N.to_nat len) with (length D) by (rewrite Qf; unfold lenN; lia).
    destruct (emit_spec D head next1 sums1 oj ox nnz (disc_nodup _) Qd)
      as (next2 & sums2 & oj' & ox' & Hemit & L1 & L2 & L3 & L4 & N1 & S1 & O1 & O2).
    { intros k Hk. specialize (HDlt k Hk). lia. }
    { lia. } { lia. } { lia. }
    { change (lenN D) with (cnt i). lia. }
    { lia. }
    assert (Hem : em_of D (fun k => nthN sums1 k zero) = em i).
    { unfold em. fold D. apply em_of_ext. intros k Hk. apply Qg. specialize (HDlt k Hk). lia. }
    rewrite Hem in Hemit, O2.
    rewrite Hemit. cbn [bind].
    rewrite setN_ok by lia. cbn [bind]. eexists. split; [reflexivity|].
    assert (Hnn : nnz + lenN (em i) = psum2 (i + 1)).
    { rewrite psum2_succ. unfold cnt2. lia. }
    unfold R2. split; [rewrite lenN_updn; lia|]. split; [lia|]. split; [lia|].
    split; [lia|]. split; [lia|].
    split; [|split; [|split; [exact Hnn|split; [|split]]]].
    + intros k Hk. rewrite N1. destruct (memN k D) eqn:Hm; [reflexivity|].
      apply Qe; [assumption|]. apply memN_false in Hm. unfold D in Hm. rewrite disc_in in Hm. exact Hm.
    + intros k Hk. rewrite S1. destruct (memN k D) eqn:Hm; [reflexivity|].
      rewrite Qg by assumption. apply csum_notin.
      apply memN_false in Hm. unfold D in Hm. rewrite disc_in in Hm. exact Hm.
    + intros r Hr. rewrite nthN_updn by lia.
      destruct (N.eqb_spec r (i + 1)) as [->|]; [exact Hnn|]. apply Ri. lia.
    + intros t Ht. destruct (N.lt_ge_cases t nnz) as [Hlt|Hge].
      * destruct (O1 t Hlt) as (-> & _). apply Rj. exact Hlt.
      * unfold lenN in Ht. destruct (O2 (N.to_nat (t - nnz)) ltac:(lia)) as (Ho & _).
        replace (nnz + N.of_nat (N.to_nat (t - nnz))) with t in Ho by lia. rewrite Ho.
        apply HDlt. apply (em_of_in D (fun k => csum k (items i))). apply nth_In. change (em_of D (fun k => csum k (items i))) with (em i). lia.
    + intros r t Hr Ht. destruct (N.eq_dec r i) as [->|Hne].
      * rewrite <- Rh. apply O2. exact Ht.
      * assert (Hlt : psum2 r + N.of_nat t < nnz).
        { pose proof (psum2_succ r). pose proof (psum2_mono (r + 1) i ltac:(lia)).
          unfold cnt2, lenN in *. lia. }
        destruct (O1 _ Hlt) as (-> & ->). apply Rk; [lia|exact Ht].
  - rewrite Hrun. destruct st' as [[[[[p2 oj] ox] next] sums] nnz]. cbn [bind].
    destruct HR as (Ra & Rb & Rc & _ & _ & _ & _ & Rh & Ri & Rj & Rk).
    pose proof (psum2_le (crow A)) as Hle. pose proof (psum_lt (crow A) ltac:(lia)) as Hn1.
    pose proof rowA_lt as Hrow.
    destruct (sort_indices_gen Ops p2 (resizeN oj nnz 0) (resizeN ox nnz zero) (crow A))
      as (j2 & x2 & Hs & Lj & Lx & Hperm & _).
    + exact Ra.
    + intros i Hi. rewrite !Ri by lia. rewrite psum2_succ. lia.
    + rewrite Ri by lia. rewrite lenN_resizeN. lia.
    + rewrite !lenN_resizeN. reflexivity.
    + rewrite lenN_resizeN. lia.
    + exact Hrow.
    + rewrite Hs. cbn [bind]. rewrite lenN_resizeN in Lj. rewrite lenN_resizeN in Lx.
      exists p2, j2, x2. split; [reflexivity|]. split; [exact Ra|].
      split; [lia|]. split; [lia|]. split; [exact Ri|].
      intros i Hi. destruct (Hperm i Hi) as (P1 & P2). rewrite !Ri in P1, P2 by lia.
      split; [|exact P2]. eapply Permutation_trans; [exact P1|].
      match goal with |- Permutation ?l _ => assert (Hseg : l = em i) end; [|rewrite Hseg; apply Permutation_refl].
      unfold segN. rewrite psum2_succ.
      replace (psum2 i + cnt2 i - psum2 i) with (cnt2 i) by lia.
      unfold cnt2. rewrite lenN_nat.
      apply (map_Nseq_eq _ _ _ (0, zero)).
      intros t Ht.
      assert (Hlt : psum2 i + N.of_nat t < nnz).
      { pose proof (psum2_succ i). pose proof (psum2_mono (i + 1) (crow A) ltac:(lia)).
        unfold cnt2, lenN in *. lia. }
      rewrite !nthN_resizeN by lia.
      destruct (Rk i t Hi Ht) as (-> & ->). symmetry. apply surjective_pairing.
Qed.

End Pass2.
