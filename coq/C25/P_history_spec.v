(* C25 obligation: after EVERY history of in-range set/get operations from any canonical matrix: every call succeeds, every intermediate matrix satisfies the invariant and equals the dense mirror, every get returns the mirror's value. *)
From SE Require Import C25.CsrInst.
Local Open Scope N_scope.
Theorem C25_history_spec :
  forall (E : Type) (Ops : eops E),
    zero_test_sound Ops ->
    forall (ops : list hop) (m : csr E),
      Inv m -> Forall (hop_in_range (crow m) (ccol m)) ops ->
      hist_ok Ops (crow m) (ccol m) (entry Ops m) ops (hrun Ops m ops).
Proof. exact @history_spec. Qed.
Print Assumptions C25_history_spec.
