(* C25 obligation: csr_scale_columns with non-zero factors: same pattern, canonical, every entry multiplied by its column's factor. *)
From SE Require Import C25.CsrInst.
Local Open Scope N_scope.
Theorem C25_scale_columns_spec :
  forall (E : Type) (Ops : eops E) (A : csr E) (X : list E),
    (forall a : E, emul Ops (ezero Ops) a = ezero Ops) ->
    Inv A -> lenN X = ccol A ->
    (forall c : N, c < ccol A -> eis_zero Ops (nthN X c (ezero Ops)) = false) ->
    exists R : csr E,
      scale_columns Ops A X = Ok R /\ Inv R /\ crow R = crow A /\ ccol R = ccol A /\ cp R = cp A /\ cj R = cj A /\
      (forall i c : N, i < crow A -> entry Ops R i c = emul Ops (entry Ops A i c) (nthN X c (ezero Ops))).
Proof. exact @scale_columns_spec. Qed.
Print Assumptions C25_scale_columns_spec.
