(* C25 -- specification: what a CSR triple (p, j, x) means as a matrix, the canonical-format
   predicate, and the dense ("schoolbook") operations the CSR operations must agree with. *)
From SE Require Export C25.CsrModel.
Local Open Scope N_scope.

Definition nthN {A} (l : list A) (i : N) (d : A) : A := nth (N.to_nat i) l d.

(* a, a+1, ..., a+n-1 *)
Fixpoint Nseq (a : N) (n : nat) : list N :=
  match n with
  | O => []
  | S n' => a :: Nseq (a + 1) n'
  end.

Section Spec.
Context {E : Type}.
Variable Ops : eops E.
Notation mat := (csr E).

Definition pN (m : mat) (i : N) : N := nthN (cp m) i 0.

(* row i = the (column, value) pairs stored at positions p[i] .. p[i+1]-1 *)
Definition row_of (m : mat) (i : N) : list (N * E) :=
  map (fun k => (nthN (cj m) k 0, nthN (cx m) k (ezero Ops)))
      (Nseq (pN m i) (N.to_nat (pN m (i + 1) - pN m i))).

Definition lookup (c : N) (r : list (N * E)) : E :=
  match find (fun e => fst e =? c) r with
  | Some e => snd e
  | None => ezero Ops
  end.

(* the dense matrix denoted by a canonical CSR matrix *)
Definition entry (m : mat) (i c : N) : E := lookup c (row_of m i).

(* the dense matrix denoted by any well-formed CSR matrix: duplicates are summed *)
Definition esum (l : list E) : E := fold_right (eadd Ops) (ezero Ops) l.
Definition entry_sum (m : mat) (i c : N) : E :=
  esum (map snd (filter (fun e => fst e =? c) (row_of m i))).

(* well-formed arrays *)
Definition wf (m : mat) : Prop :=
  lenN (cp m) = crow m + 1 /\
  pN m 0 = 0 /\
  (forall i, i < crow m -> pN m i <= pN m (i + 1)) /\
  pN m (crow m) = lenN (cj m) /\
  lenN (cx m) = lenN (cj m).

(* canonical format: within every row the column indices are strictly increasing
   (sorted, no duplicates) *)
Definition row_sorted (m : mat) (i : N) : Prop :=
  forall a b, pN m i <= a -> a < b -> b < pN m (i + 1) -> nthN (cj m) a 0 < nthN (cj m) b 0.

Definition canon (m : mat) : Prop :=
  wf m /\ forall i, i < crow m -> row_sorted m i.

(* column indices inside the matrix *)
Definition cols_ok (m : mat) : Prop :=
  forall k, k < lenN (cj m) -> nthN (cj m) k 0 < ccol m.

(* "bounded size": no 32-bit index computation can wrap *)
Definition dims_ok (m : mat) : Prop :=
  crow m < 2 ^ 31 /\ ccol m < 2 ^ 31 /\ crow m * ccol m < 2 ^ 31.

Definition Inv (m : mat) : Prop := canon m /\ cols_ok m /\ dims_ok m.

(* no explicitly stored zero *)
Definition no_stored_zero (m : mat) : Prop :=
  forall k, k < lenN (cx m) -> eis_zero Ops (nthN (cx m) k (ezero Ops)) = false.

(* dense update *)
Definition upd (D : N -> N -> E) (i c : N) (e : E) : N -> N -> E :=
  fun i' c' => if (i' =? i) && (c' =? c) then e else D i' c'.

(* a history of set/get operations against the dense mirror D (rows below [row] matter) *)
Definition hop_in_range (row col : N) (o : hop (E:=E)) : Prop :=
  match o with
  | HSet i c _ => i < row /\ c < col
  | HGet i c => i < row /\ c < col
  end.

Inductive hist_ok (row col : N) : (N -> N -> E) -> list (hop (E:=E)) -> list (res (hout (E:=E))) -> Prop :=
| hok_nil D : hist_ok row col D [] []
| hok_get D i c ops outs :
    hist_ok row col D ops outs ->
    hist_ok row col D (HGet i c :: ops) (Ok (HVal (D i c)) :: outs)
| hok_set D i c e ops outs m' :
    Inv m' -> crow m' = row -> ccol m' = col ->
    (forall i' c', i' < row -> entry m' i' c' = upd D i c e i' c') ->
    hist_ok row col (upd D i c e) ops outs ->
    hist_ok row col D (HSet i c e :: ops) (Ok (HMat m') :: outs).

(* the laws of the element type used by the theorems (hypotheses, never axioms) *)
Definition zero_test_sound : Prop := forall e, eis_zero Ops e = true -> e = ezero Ops.
Definition zero_is_zero : Prop := eis_zero Ops (ezero Ops) = true.

Record comm_monoid : Prop := {
  add_comm : forall a b, eadd Ops a b = eadd Ops b a;
  add_assoc : forall a b c, eadd Ops a (eadd Ops b c) = eadd Ops (eadd Ops a b) c;
  add_0_r : forall a, eadd Ops a (ezero Ops) = a
}.

Record semiring : Prop := {
  sr_monoid : comm_monoid;
  mul_0_l : forall a, emul Ops (ezero Ops) a = ezero Ops;
  mul_0_r : forall a, emul Ops a (ezero Ops) = ezero Ops;
  mul_add_l : forall a b c, emul Ops a (eadd Ops b c) = eadd Ops (emul Ops a b) (emul Ops a c);
  mul_add_r : forall a b c, emul Ops (eadd Ops a b) c = eadd Ops (emul Ops a c) (emul Ops b c)
}.

Definition conj_zero : Prop := econj Ops (ezero Ops) = ezero Ops.

(* the values given for position (i, c) in a coordinate list, in list order *)
Fixpoint coo_values (is js : list N) (xs : list E) (i c : N) : list E :=
  match is, js, xs with
  | a :: is', b :: js', v :: xs' =>
      if (a =? i) && (b =? c) then v :: coo_values is' js' xs' i c else coo_values is' js' xs' i c
  | _, _, _ => []
  end.

(* dense sum over k = 0 .. n-1 *)
Definition dsum (n : N) (f : N -> E) : E := esum (map f (Nseq 0 (N.to_nat n))).

End Spec.
