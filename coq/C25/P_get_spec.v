(* C25 obligation: CSRMatrix::get returns the dense entry of every canonical matrix of bounded size (binary search never leaves the row, no wrap, enough fuel). *)
From SE Require Import C25.CsrInst.
Local Open Scope N_scope.
Theorem C25_get_spec :
  forall (E : Type) (Ops : eops E) (m : csr E) (i c : N),
    Inv m -> i < crow m -> get Ops m i c = Ok (entry Ops m i c).
Proof. exact @get_spec. Qed.
Print Assumptions C25_get_spec.
