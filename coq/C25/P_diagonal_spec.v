(* C25 obligation: csr_diagonal on every canonical matrix of bounded size: succeeds (no out-of-range access) and returns the diagonal of the dense matrix. *)
From SE Require Import C25.CsrInst.
Local Open Scope N_scope.
Theorem C25_diagonal_spec :
  forall (E : Type) (Ops : eops E) (A : csr E),
    Inv A ->
    diagonal Ops A = Ok (map (fun i : N => entry Ops A i i) (Nseq 0 (N.to_nat (N.min (crow A) (ccol A))))).
Proof. exact @diagonal_spec. Qed.
Print Assumptions C25_diagonal_spec.
