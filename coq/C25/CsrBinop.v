(* C25 -- proofs, part 4: csr_binop_csr_canonical (add, subtract, elementwise product ...):
   the result is canonical and is the pointwise operation on the dense matrices. *)
From SE Require Export C25.CsrCanon.
Local Open Scope N_scope.
Local Open Scope res_scope.

Section Binop.
Context {E : Type}.
Variable Ops : eops E.
Notation mat := (csr E).
Notation entry := (entry Ops).
Notation lookup := (lookup Ops).
Notation Inv := (Inv (E:=E)).
Variable f : E -> E -> E.

(* ---------- rows as lists ---------- *)
Definition seg (js : list N) (xs : list E) (a : N) (n : nat) : list (N * E) :=
  map (fun k => (nthN js k 0, nthN xs k (ezero Ops))) (Nseq a n).

Lemma row_of_seg (m : mat) i :
  row_of Ops m i = seg (cj m) (cx m) (pN m i) (N.to_nat (pN m (i + 1) - pN m i)).
Proof. reflexivity. Qed.

Lemma seg_S js xs a n : seg js xs a (S n) = (nthN js a 0, nthN xs a (ezero Ops)) :: seg js xs (a + 1) n.
Proof. reflexivity. Qed.

Lemma seg_length js xs a n : length (seg js xs a n) = n.
Proof. unfold seg. rewrite map_length. apply Nseq_length. Qed.

Lemma seg_ext js xs js' xs' a n :
  (forall k, a <= k -> k < a + N.of_nat n -> nthN js' k 0 = nthN js k 0 /\ nthN xs' k (ezero Ops) = nthN xs k (ezero Ops)) ->
  seg js' xs' a n = seg js xs a n.
Proof.
  intros H. unfold seg. apply map_ext_in. intros k Hk. apply in_Nseq in Hk.
  destruct (H k) as (-> & ->); [lia|lia|reflexivity].
Qed.

(* the segment written by appending r at the end *)
Lemma seg_appended (r : list (N * E)) : forall js xs, lenN xs = lenN js ->
  seg (js ++ map fst r) (xs ++ map snd r) (lenN js) (length r) = r.
Proof.
  induction r as [|e r IH]; intros js xs Hl; [reflexivity|].
  cbn [length map]. rewrite seg_S. f_equal.
  - rewrite nthN_app2 by lia. rewrite <- Hl at 2. rewrite nthN_app2 by lia.
    rewrite Hl. replace (lenN js - lenN js) with 0 by lia. destruct e; reflexivity.
  - replace (js ++ fst e :: map fst r) with ((js ++ [fst e]) ++ map fst r) by (rewrite <- app_assoc; reflexivity).
    replace (xs ++ snd e :: map snd r) with ((xs ++ [snd e]) ++ map snd r) by (rewrite <- app_assoc; reflexivity).
    replace (lenN js + 1) with (lenN (js ++ [fst e])) by (rewrite lenN_app; reflexivity).
    apply IH. rewrite !lenN_app. unfold lenN at 2 4; cbn [length]. lia.
Qed.

(* ---------- sorted rows with columns in [lo, hi) ---------- *)
Fixpoint bsorted (lo hi : N) (l : list (N * E)) : Prop :=
  match l with
  | [] => True
  | e :: r => lo <= fst e /\ fst e < hi /\ bsorted (fst e + 1) hi r
  end.

Lemma bsorted_weaken lo lo' hi l : lo' <= lo -> bsorted lo hi l -> bsorted lo' hi l.
Proof. destruct l; cbn [bsorted]; [tauto|]. intros ? (? & ? & ?). repeat split; try assumption; lia. Qed.

Lemma bsorted_length lo hi l : lo <= hi -> bsorted lo hi l -> lo + lenN l <= hi.
Proof.
  revert lo; induction l as [|e r IH]; intros lo Hlh Hb; [unfold lenN; cbn; lia|].
  cbn [bsorted] in Hb. destruct Hb as (B1 & B2 & B3). specialize (IH (fst e + 1) ltac:(lia) B3).
  unfold lenN in *; cbn [length]. lia.
Qed.

Lemma lookup_below lo hi l c : bsorted lo hi l -> c < lo -> lookup c l = ezero Ops.
Proof.
  revert lo; induction l as [|e r IH]; intros lo Hb Hc; [reflexivity|].
  cbn [bsorted] in Hb. destruct Hb as (B1 & B2 & B3).
  unfold CsrSpec.lookup; cbn [find]. destruct (N.eqb_spec (fst e) c); [lia|].
  apply (IH (fst e + 1)); [assumption|lia].
Qed.

Lemma lookup_cons e r c : lookup c (e :: r) = if fst e =? c then snd e else lookup c r.
Proof. unfold CsrSpec.lookup; cbn [find]. destruct (fst e =? c); reflexivity. Qed.

Lemma bsorted_nth lo hi l : bsorted lo hi l ->
  forall s, (s < length l)%nat ->
    lo + N.of_nat s <= fst (nth s l (0, ezero Ops)) /\ fst (nth s l (0, ezero Ops)) < hi.
Proof.
  revert lo; induction l as [|e r IH]; intros lo Hb s Hs; [cbn in Hs; lia|].
  cbn [bsorted] in Hb. destruct Hb as (B1 & B2 & B3).
  destruct s; cbn [nth]; [lia|].
  cbn [length] in Hs. destruct (IH (fst e + 1) B3 s ltac:(lia)). lia.
Qed.

Lemma bsorted_nth_lt lo hi l : bsorted lo hi l ->
  forall s t, (s < t)%nat -> (t < length l)%nat ->
    fst (nth s l (0, ezero Ops)) < fst (nth t l (0, ezero Ops)).
Proof.
  revert lo; induction l as [|e r IH]; intros lo Hb s t Hst Ht; [cbn in Ht; lia|].
  cbn [bsorted] in Hb. destruct Hb as (B1 & B2 & B3). cbn [length] in Ht.
  destruct t; [lia|]. destruct s; cbn [nth].
  - destruct (bsorted_nth _ _ _ B3 t ltac:(lia)). lia.
  - apply (IH _ B3); lia.
Qed.

(* a row of a canonical matrix is such a list *)
Lemma seg_bsorted js xs hi : forall n a,
  (forall s t, a <= s -> s < t -> t < a + N.of_nat n -> nthN js s 0 < nthN js t 0) ->
  (forall s, a <= s -> s < a + N.of_nat n -> nthN js s 0 < hi) ->
  bsorted 0 hi (seg js xs a n).
Proof.
  induction n; intros a Hs Hc; [exact I|].
  rewrite seg_S. cbn [bsorted fst]. split; [lia|]. split; [apply Hc; lia|].
  assert (G : forall lo, (forall s, a + 1 <= s -> s < a + 1 + N.of_nat n -> lo <= nthN js s 0) ->
                         bsorted 0 hi (seg js xs (a + 1) n) -> bsorted lo hi (seg js xs (a + 1) n)).
  { intros lo Hlo Hb. destruct n; [exact I|]. rewrite seg_S in *. cbn [bsorted fst] in *.
    destruct Hb as (_ & B2 & B3). split; [apply Hlo; lia|]. split; assumption. }
  apply G.
  - intros s S1 S2. specialize (Hs a s ltac:(lia) ltac:(lia) ltac:(lia)). lia.
  - apply IHn; [intros; apply Hs; lia|intros; apply Hc; lia].
Qed.

Lemma row_bsorted (m : mat) i : @CsrSpec.Inv E m -> i < crow m -> bsorted 0 (ccol m) (row_of Ops m i).
Proof.
  intros HI Hi. destruct (Inv_facts m HI) as (Hwf & Hs & Hc & Hd & S1 & S2 & Lx & Lp & Pn).
  rewrite row_of_seg. pose proof (pN_le_nnz m Hwf (i + 1) ltac:(lia)).
  apply seg_bsorted.
  - intros s t T1 T2 T3. apply (Hs i Hi); lia.
  - intros s T1 T2. apply Hc. lia.
Qed.

(* ---------- the merge of two rows ---------- *)
Definition keep (c : N) (r : E) (l : list (N * E)) : list (N * E) :=
  if negb (eis_zero Ops r) then (c, r) :: l else l.

Fixpoint merge (ra rb : list (N * E)) {struct ra} : list (N * E) :=
  match ra with
  | [] => (fix tl (rb : list (N * E)) : list (N * E) :=
             match rb with
             | [] => []
             | eb :: rb' => keep (fst eb) (f (ezero Ops) (snd eb)) (tl rb')
             end) rb
  | ea :: ra' =>
      (fix go (rb : list (N * E)) : list (N * E) :=
         match rb with
         | [] => keep (fst ea) (f (snd ea) (ezero Ops)) (merge ra' [])
         | eb :: rb' =>
             if fst ea =? fst eb then keep (fst ea) (f (snd ea) (snd eb)) (merge ra' rb')
             else if fst ea <? fst eb then keep (fst ea) (f (snd ea) (ezero Ops)) (merge ra' rb)
             else keep (fst eb) (f (ezero Ops) (snd eb)) (go rb')
         end) rb
  end.

Lemma merge_nil_cons eb rb : merge [] (eb :: rb) = keep (fst eb) (f (ezero Ops) (snd eb)) (merge [] rb).
Proof. reflexivity. Qed.
Lemma merge_cons_nil ea ra : merge (ea :: ra) [] = keep (fst ea) (f (snd ea) (ezero Ops)) (merge ra []).
Proof. reflexivity. Qed.
Lemma merge_cons_cons ea ra eb rb :
  merge (ea :: ra) (eb :: rb) =
    if fst ea =? fst eb then keep (fst ea) (f (snd ea) (snd eb)) (merge ra rb)
    else if fst ea <? fst eb then keep (fst ea) (f (snd ea) (ezero Ops)) (merge ra (eb :: rb))
    else keep (fst eb) (f (ezero Ops) (snd eb)) (merge (ea :: ra) rb).
Proof. reflexivity. Qed.

Lemma keep_bsorted lo hi c r l : lo <= c -> c < hi -> bsorted (c + 1) hi l -> bsorted lo hi (keep c r l).
Proof.
  intros H1 H2 Hb. unfold keep. destruct (eis_zero Ops r); cbn [negb].
  - eapply bsorted_weaken; [|eassumption]. lia.
  - cbn [bsorted fst]. auto.
Qed.

Lemma merge_bsorted hi : forall ra rb lo, bsorted lo hi ra -> bsorted lo hi rb -> bsorted lo hi (merge ra rb).
Proof.
  induction ra as [|ea ra IHa].
  - induction rb as [|eb rb IHb]; intros lo Ha Hb; [exact I|].
    rewrite merge_nil_cons. cbn [bsorted] in Hb. destruct Hb as (B1 & B2 & B3).
    apply keep_bsorted; try assumption. apply IHb; [exact I|assumption].
  - induction rb as [|eb rb IHb]; intros lo Ha Hb.
    + rewrite merge_cons_nil. cbn [bsorted] in Ha. destruct Ha as (A1 & A2 & A3).
      apply keep_bsorted; try assumption. apply IHa; [assumption|exact I].
    + rewrite merge_cons_cons. pose proof Ha as Ha0. pose proof Hb as Hb0.
      cbn [bsorted] in Ha, Hb. destruct Ha as (A1 & A2 & A3). destruct Hb as (B1 & B2 & B3).
      destruct (N.eqb_spec (fst ea) (fst eb)) as [Heq|Hne].
      * apply keep_bsorted; try assumption. apply IHa; [assumption|]. rewrite Heq. assumption.
      * destruct (N.ltb_spec (fst ea) (fst eb)).
        -- apply keep_bsorted; try assumption. apply IHa; [assumption|].
           cbn [bsorted]. repeat split; [lia|assumption|assumption].
        -- apply keep_bsorted; try assumption. apply IHb; [|assumption].
           cbn [bsorted]. repeat split; [lia|assumption|assumption].
Qed.

Hypothesis f00 : f (ezero Ops) (ezero Ops) = ezero Ops.
Hypothesis Hz : zero_test_sound Ops.

Lemma lookup_keep hi c r l c' : bsorted (c + 1) hi l ->
  lookup c' (keep c r l) = if c =? c' then r else lookup c' l.
Proof.
  intros Hb. unfold keep. destruct (eis_zero Ops r) eqn:Hr; cbn [negb].
  - destruct (N.eqb_spec c c') as [->|]; [|reflexivity].
    rewrite (Hz r Hr). apply (lookup_below (c' + 1) hi); [assumption|lia].
  - rewrite lookup_cons. reflexivity.
Qed.

Lemma merge_lookup hi c : forall ra rb lo, bsorted lo hi ra -> bsorted lo hi rb ->
  lookup c (merge ra rb) = f (lookup c ra) (lookup c rb).
Proof.
  induction ra as [|ea ra IHa].
  - induction rb as [|eb rb IHb]; intros lo Ha Hb.
    + cbn. unfold CsrSpec.lookup; cbn. symmetry; exact f00.
    + rewrite merge_nil_cons. cbn [bsorted] in Hb. destruct Hb as (B1 & B2 & B3).
      rewrite (lookup_keep hi) by (apply merge_bsorted; [exact I|assumption]).
      rewrite lookup_cons. destruct (N.eqb_spec (fst eb) c); [reflexivity|].
      apply (IHb (fst eb + 1)); [exact I|assumption].
  - induction rb as [|eb rb IHb]; intros lo Ha Hb.
    + rewrite merge_cons_nil. cbn [bsorted] in Ha. destruct Ha as (A1 & A2 & A3).
      rewrite (lookup_keep hi) by (apply merge_bsorted; [assumption|exact I]).
      rewrite lookup_cons. destruct (N.eqb_spec (fst ea) c); [reflexivity|].
      apply (IHa [] (fst ea + 1)); [assumption|exact I].
    + rewrite merge_cons_cons. pose proof Ha as Ha0. pose proof Hb as Hb0.
      cbn [bsorted] in Ha, Hb. destruct Ha as (A1 & A2 & A3). destruct Hb as (B1 & B2 & B3).
      destruct (N.eqb_spec (fst ea) (fst eb)) as [Heq|Hne].
      * rewrite (lookup_keep hi) by (apply merge_bsorted; [assumption|rewrite Heq; assumption]).
        rewrite !lookup_cons. rewrite <- Heq.
        destruct (N.eqb_spec (fst ea) c); [reflexivity|].
        apply (IHa rb (fst ea + 1)); [assumption|rewrite Heq; assumption].
      * destruct (N.ltb_spec (fst ea) (fst eb)).
        -- assert (Hb1 : bsorted (fst ea + 1) hi (eb :: rb)) by (cbn [bsorted]; repeat split; [lia|assumption|assumption]).
           rewrite (lookup_keep hi) by (apply merge_bsorted; assumption).
           rewrite (lookup_cons ea). destruct (N.eqb_spec (fst ea) c) as [Hc|].
           ++ rewrite (lookup_below (fst ea + 1) hi (eb :: rb)) by (try assumption; lia). reflexivity.
           ++ apply (IHa (eb :: rb) (fst ea + 1)); assumption.
        -- assert (Ha1 : bsorted (fst eb + 1) hi (ea :: ra)) by (cbn [bsorted]; repeat split; [lia|assumption|assumption]).
           rewrite (lookup_keep hi) by (apply merge_bsorted; assumption).
           rewrite (lookup_cons eb). destruct (N.eqb_spec (fst eb) c) as [Hc|].
           ++ rewrite (lookup_below (fst eb + 1) hi (ea :: ra)) by (try assumption; lia). reflexivity.
           ++ apply (IHb (fst eb + 1)); assumption.
Qed.

(* ---------- the merge loop of one row ---------- *)
Lemma push_nz_keep a b c oj ox nnz : nnz + lenN (keep c (f a b) []) < 4294967296 ->
  push_nz Ops f a b c (oj, ox, nnz) =
    (oj ++ map fst (keep c (f a b) []), ox ++ map snd (keep c (f a b) []), nnz + lenN (keep c (f a b) [])).
Proof.
  unfold push_nz, keep. destruct (eis_zero Ops (f a b)); cbn [negb map fst snd]; intros Hn.
  - rewrite !app_nil_r. f_equal. unfold lenN; cbn; lia.
  - unfold lenN in Hn; cbn [length] in Hn. rewrite uadd_small by lia. f_equal.
Qed.

Lemma keep_app c r l : keep c r l = keep c r [] ++ l.
Proof. unfold keep. destruct (eis_zero Ops r); reflexivity. Qed.

Lemma binop_row_spec (A B : mat) :
  lenN (cx A) = lenN (cj A) -> lenN (cj A) < 2 ^ 31 -> lenN (cx B) = lenN (cj B) -> lenN (cj B) < 2 ^ 31 ->
  forall fuel ap ae bp be oj ox nnz,
    (N.to_nat (ae - ap) + N.to_nat (be - bp) < fuel)%nat ->
    ap <= ae -> ae <= lenN (cj A) -> bp <= be -> be <= lenN (cj B) ->
    forall r, r = merge (seg (cj A) (cx A) ap (N.to_nat (ae - ap))) (seg (cj B) (cx B) bp (N.to_nat (be - bp))) ->
    nnz + lenN r < 4294967296 ->
    binop_row Ops fuel f A B ap ae bp be (oj, ox, nnz) = Ok (oj ++ map fst r, ox ++ map snd r, nnz + lenN r).
Proof.
  intros LA SA LB SB. induction fuel; intros ap ae bp be oj ox nnz Hf A1 A2 B1 B2 r Er Hr; [lia|].
  cbn [binop_row].
  assert (Hk : forall c v, lenN (keep c v []) <= 1).
  { intros c v. unfold keep. destruct (eis_zero Ops v); unfold lenN; cbn; lia. }
  destruct (N.ltb_spec ap ae) as [Ha|Ha]; destruct (N.ltb_spec bp be) as [Hb|Hb]; cbn [andb].
  - (* both rows have entries left *)
    replace (N.to_nat (ae - ap)) with (S (N.to_nat (ae - (ap + 1)))) in Er by lia.
    replace (N.to_nat (be - bp)) with (S (N.to_nat (be - (bp + 1)))) in Er by lia.
    rewrite !seg_S in Er. rewrite merge_cons_cons in Er. cbn [fst snd] in Er.
    rewrite (getN_ok (cj A) ap 0) by lia. cbn [bind].
    rewrite (getN_ok (cj B) bp 0) by lia. cbn [bind].
    destruct (N.eqb_spec (nthN (cj A) ap 0) (nthN (cj B) bp 0)) as [Heq|Hne].
    + rewrite (getN_ok (cx A) ap (ezero Ops)) by lia. cbn [bind].
      rewrite (getN_ok (cx B) bp (ezero Ops)) by lia. cbn [bind].
      rewrite !uadd_small by lia. rewrite keep_app in Er. subst r. rewrite lenN_app in Hr.
      match goal with |- context [keep ?c ?v []] => pose proof (Hk c v) end.
      rewrite push_nz_keep by lia.
      erewrite IHfuel; [|lia|lia|lia|lia|lia|reflexivity|lia].
      rewrite !map_app, !app_assoc, lenN_app. f_equal. f_equal. lia.
    + destruct (N.ltb_spec (nthN (cj A) ap 0) (nthN (cj B) bp 0)) as [Hlt|Hge].
      * rewrite (getN_ok (cx A) ap (ezero Ops)) by lia. cbn [bind].
        rewrite !uadd_small by lia. rewrite keep_app in Er. rewrite <- seg_S in Er.
        replace (S (N.to_nat (be - (bp + 1)))) with (N.to_nat (be - bp)) in Er by lia.
        subst r. rewrite lenN_app in Hr.
        match goal with |- context [keep ?c ?v []] => pose proof (Hk c v) end.
        rewrite push_nz_keep by lia.
        erewrite IHfuel; [|lia|lia|lia|lia|lia|reflexivity|lia].
        rewrite !map_app, !app_assoc, lenN_app. f_equal. f_equal. lia.
      * rewrite (getN_ok (cx B) bp (ezero Ops)) by lia. cbn [bind].
        rewrite !uadd_small by lia. rewrite keep_app in Er. rewrite <- seg_S in Er.
        replace (S (N.to_nat (ae - (ap + 1)))) with (N.to_nat (ae - ap)) in Er by lia.
        subst r. rewrite lenN_app in Hr.
        match goal with |- context [keep ?c ?v []] => pose proof (Hk c v) end.
        rewrite push_nz_keep by lia.
        erewrite IHfuel; [|lia|lia|lia|lia|lia|reflexivity|lia].
        rewrite !map_app, !app_assoc, lenN_app. f_equal. f_equal. lia.
  - (* only A *)
    replace (N.to_nat (ae - ap)) with (S (N.to_nat (ae - (ap + 1)))) in Er by lia.
    replace (N.to_nat (be - bp)) with 0%nat in Er by lia.
    rewrite seg_S in Er. cbn [seg Nseq map] in Er. rewrite merge_cons_nil in Er. cbn [fst snd] in Er.
    rewrite (getN_ok (cx A) ap (ezero Ops)) by lia. cbn [bind].
    rewrite (getN_ok (cj A) ap 0) by lia. cbn [bind].
    rewrite !uadd_small by lia. rewrite keep_app in Er. subst r. rewrite lenN_app in Hr.
    match goal with |- context [keep ?c ?v []] => pose proof (Hk c v) end.
    rewrite push_nz_keep by lia.
    erewrite IHfuel; [|lia|lia|lia|lia|lia|reflexivity|].
    + replace (N.to_nat (be - bp)) with 0%nat by lia. cbn [seg Nseq map].
      rewrite !map_app, !app_assoc, lenN_app. f_equal. f_equal. lia.
    + replace (N.to_nat (be - bp)) with 0%nat by lia. cbn [seg Nseq map]. lia.
  - (* only B *)
    replace (N.to_nat (be - bp)) with (S (N.to_nat (be - (bp + 1)))) in Er by lia.
    replace (N.to_nat (ae - ap)) with 0%nat in Er by lia.
    rewrite seg_S in Er. cbn [seg Nseq map] in Er. rewrite merge_nil_cons in Er. cbn [fst snd] in Er.
    rewrite (getN_ok (cx B) bp (ezero Ops)) by lia. cbn [bind].
    rewrite (getN_ok (cj B) bp 0) by lia. cbn [bind].
    rewrite !uadd_small by lia. rewrite keep_app in Er. subst r. rewrite lenN_app in Hr.
    match goal with |- context [keep ?c ?v []] => pose proof (Hk c v) end.
    rewrite push_nz_keep by lia.
    erewrite IHfuel; [|lia|lia|lia|lia|lia|reflexivity|].
    + replace (N.to_nat (ae - ap)) with 0%nat by lia. cbn [seg Nseq map].
      rewrite !map_app, !app_assoc, lenN_app. f_equal. f_equal. lia.
    + replace (N.to_nat (ae - ap)) with 0%nat by lia. cbn [seg Nseq map]. lia.
  - (* done *)
    replace (N.to_nat (ae - ap)) with 0%nat in Er by lia. replace (N.to_nat (be - bp)) with 0%nat in Er by lia.
    cbn [seg Nseq map merge] in Er. subst r. cbn [map]. rewrite !app_nil_r. f_equal. f_equal. unfold lenN; cbn; lia.
Qed.

Lemma nth_seg js xs : forall n a s, (s < n)%nat ->
  nth s (seg js xs a n) (0, ezero Ops) = (nthN js (a + N.of_nat s) 0, nthN xs (a + N.of_nat s) (ezero Ops)).
Proof.
  induction n; intros a s Hs; [lia|]. rewrite seg_S. destruct s as [|s']; cbn [nth].
  - replace (a + N.of_nat 0) with a by lia. reflexivity.
  - rewrite (IHn (a + 1) s') by lia. replace (a + 1 + N.of_nat s') with (a + N.of_nat (S s')) by lia. reflexivity.
Qed.

Lemma lenN_map {A B} (g : A -> B) (l : list A) : lenN (map g l) = lenN l.
Proof. unfold lenN. rewrite map_length. reflexivity. Qed.

(* ---------- csr_binop_csr_canonical ---------- *)
Theorem binop_spec (A B C : mat) :
  Inv A -> Inv B -> crow B = crow A -> ccol B = ccol A ->
  lenN (cp C) = crow A + 1 -> crow C = crow A -> ccol C = ccol A ->
  exists R, binop Ops f A B C = Ok R /\ Inv R /\ crow R = crow A /\ ccol R = ccol A /\
    forall i c, i < crow A -> entry R i c = f (entry A i c) (entry B i c).
Proof.
  intros HA HB Hrow Hcol HpC HrC HcC.
  destruct (Inv_facts A HA) as (WA & SA & CA & DA & A1 & A2 & LxA & LpA & PnA).
  destruct (Inv_facts B HB) as (WB & SB & CB & DB & B1 & B2 & LxB & LpB & PnB).
  set (row := crow A) in *. set (col := ccol A) in *.
  assert (Hdims : row < 2 ^ 31 /\ col < 2 ^ 31 /\ row * col < 2 ^ 31) by exact DA.
  assert (Hm : forall i, i < row -> bsorted 0 col (merge (row_of Ops A i) (row_of Ops B i))).
  { intros i Hi. apply merge_bsorted; [apply row_bsorted; assumption|].
    rewrite <- Hcol. apply row_bsorted; [assumption|lia]. }
  unfold binop. rewrite setN_ok by lia. cbn [bind].
  set (p0 := updn (N.to_nat 0) (cp C) 0).
  set (body := fun (i : N) (st : list N * list N * list E * N) =>
      let '(p, oj, ox, nnz) := st in
      do ap <- getN (cp A) i;
      do bp <- getN (cp B) i;
      do ae <- getN (cp A) (uadd i 1);
      do be <- getN (cp B) (uadd i 1);
      do '(oj', ox', nnz') <-
         binop_row Ops (S (N.to_nat (ae - ap) + N.to_nat (be - bp))) f A B ap ae bp be (oj, ox, nnz);
      do p' <- setN p (uadd i 1) nnz';
      Ok (p', oj', ox', nnz')).
  pose (Pinv := fun (i : N) (st : list N * list N * list E * N) =>
      let '(p, oj, ox, nnz) := st in
      lenN p = row + 1 /\ nthN p 0 0 = 0 /\ lenN ox = lenN oj /\ nnz = lenN oj /\ nthN p i 0 = nnz /\
      nnz <= i * col /\ (forall k, k < lenN oj -> nthN oj k 0 < col) /\
      forall i', i' < i ->
        nthN p i' 0 <= nthN p (i' + 1) 0 /\ nthN p (i' + 1) 0 <= nnz /\
        seg oj ox (nthN p i' 0) (N.to_nat (nthN p (i' + 1) 0 - nthN p i' 0)) = merge (row_of Ops A i') (row_of Ops B i')).
  destruct (for_range_inv Pinv body 0 row (p0, [], [], 0)) as (st & Hrun & Hfin).
  - lia.
  - unfold Pinv, p0.
    split; [rewrite lenN_updn by lia; assumption|].
    split; [rewrite nthN_updn by lia; reflexivity|].
    split; [reflexivity|]. split; [reflexivity|].
    split; [rewrite nthN_updn by lia; reflexivity|].
    split; [lia|].
    split; [intros k Hk; unfold lenN in Hk; cbn in Hk; lia|].
    intros; lia.
  - intros i [[[p oj] ox] nnz] I1 I2 (P1 & P2 & P3 & P4 & P5 & P6 & P7 & P8).
    unfold body.
    rewrite (getN_p A i WA) by lia. cbn [bind].
    rewrite (getN_p B i WB) by lia. cbn [bind].
    rewrite uadd_small by lia.
    rewrite (getN_p A (i + 1) WA) by lia. cbn [bind].
    rewrite (getN_p B (i + 1) WB) by lia. cbn [bind].
    pose proof (pN_le_nnz A WA (i + 1) ltac:(lia)). pose proof (pN_le_nnz B WB (i + 1) ltac:(lia)).
    assert (pN A i <= pN A (i + 1)) by (apply WA; lia).
    assert (pN B i <= pN B (i + 1)) by (apply WB; lia).
    set (r := merge (row_of Ops A i) (row_of Ops B i)).
    assert (Hr : lenN r <= col).
    { pose proof (bsorted_length 0 col r ltac:(lia) (Hm i I2)). lia. }
    erewrite (binop_row_spec A B LxA A1 LxB B1) with (r := r); [|lia|lia|lia|lia|lia|reflexivity|nia].
    cbn [bind]. rewrite setN_ok by lia. cbn [bind].
    eexists; split; [reflexivity|].
    unfold Pinv.
    split; [rewrite lenN_updn by lia; assumption|].
    split; [rewrite nthN_updn by lia; destruct (N.eqb_spec 0 (i + 1)); [lia|assumption]|].
    split; [rewrite !lenN_app, !lenN_map; lia|].
    split; [rewrite lenN_app, lenN_map; lia|].
    split; [rewrite nthN_updn by lia; rewrite N.eqb_refl; reflexivity|].
    split; [nia|].
    split.
    { intros k Hk. rewrite lenN_app in Hk.
      destruct (N.lt_ge_cases k (lenN oj)).
      * rewrite nthN_app1 by assumption. apply P7; assumption.
      * rewrite nthN_app2 by assumption. unfold nthN.
        unfold lenN in Hk at 2. rewrite map_length in Hk.
        rewrite (nth_indep _ 0 (fst (0, ezero Ops))) by (rewrite map_length; lia).
        rewrite map_nth. apply (bsorted_nth 0 col r (Hm i I2)). lia. }
    intros i' Hi'.
    destruct (N.eq_dec i' i) as [->|Hne].
    + rewrite !nthN_updn by lia. rewrite N.eqb_refl.
      destruct (N.eqb_spec i (i + 1)); [lia|]. rewrite P5.
      split; [lia|]. split; [lia|].
      replace (N.to_nat (nnz + lenN r - nnz)) with (length r) by (unfold lenN; lia).
      rewrite P4. apply seg_appended. assumption.
    + destruct (P8 i' ltac:(lia)) as (Q1 & Q2 & Q3). rewrite !nthN_updn by lia.
      destruct (N.eqb_spec i' (i + 1)); [lia|]. destruct (N.eqb_spec (i' + 1) (i + 1)); [lia|].
      split; [assumption|]. split; [lia|].
      rewrite <- Q3. apply seg_ext. intros k K1 K2.
      rewrite !nthN_app1 by lia. auto.
  - destruct st as [[[p1 oj] ox] nnz].
    match goal with |- context [for_range 0 ?rw ?b ?s0] =>
      change (for_range 0 rw b s0) with (for_range 0 row body (p0, [], [], 0)) end.
    rewrite Hrun. cbn [bind]. change (crow A) with row.
    destruct Hfin as (P1 & P2 & P3 & P4 & P5 & P6 & P7 & P8).
    (* the duplicate check finds nothing *)
    assert (Hsorted : forall i, i < row -> forall a b, nthN p1 i 0 <= a -> a < b -> b < nthN p1 (i + 1) 0 ->
                                  nthN oj a 0 < nthN oj b 0).
    { intros i Hi a b T1 T2 T3. destruct (P8 i Hi) as (Q1 & Q2 & Q3).
      pose proof (Hm i Hi) as Hb. rewrite <- Q3 in Hb.
      pose proof (bsorted_nth_lt 0 col _ Hb (N.to_nat (a - nthN p1 i 0)) (N.to_nat (b - nthN p1 i 0)) ltac:(lia)) as Hlt.
      rewrite seg_length in Hlt. specialize (Hlt ltac:(lia)).
      rewrite !nth_seg in Hlt by lia. cbn [fst] in Hlt.
      replace (nthN p1 i 0 + N.of_nat (N.to_nat (a - nthN p1 i 0))) with a in Hlt by lia.
      replace (nthN p1 i 0 + N.of_nat (N.to_nat (b - nthN p1 i 0))) with b in Hlt by lia.
      assumption. }
    assert (Hmono : mono_p p1 row) by (intros i Hi; apply (P8 i Hi)).
    assert (Hnn : nthN p1 row 0 <= lenN oj) by lia.
    assert (Hoj : lenN oj < 2 ^ 31) by nia.
    destruct (has_duplicates_spec p1 oj row P1 ltac:(lia) Hoj Hmono Hnn) as (d & Hd & Hq).
    rewrite Hd. cbn [bind].
    destruct d.
    { exfalso. destruct Hq as (Hq & _). destruct (Hq eq_refl) as (i & Hi & t & T1 & T2 & T3).
      specialize (Hsorted i Hi t (t + 1) T1 ltac:(lia) T2). lia. }
    eexists; split; [reflexivity|].
    set (R := Build_csr p1 oj ox (crow C) (ccol C)).
    assert (HP : forall t, pN R t = nthN p1 t 0) by reflexivity.
    assert (HrowR : forall i, i < row -> row_of Ops R i = merge (row_of Ops A i) (row_of Ops B i)).
    { intros i Hi. rewrite row_of_seg. rewrite !HP. apply (P8 i Hi). }
    split; [|split; [assumption|split; [assumption|]]].
    + split; [split|split].
      * unfold wf. rewrite !HP. replace (crow R) with (crow C) by reflexivity. rewrite HrC.
        unfold R; cbn [cp cj cx]. repeat split; try assumption; try lia.
      * intros i Hi a b. rewrite !HP. replace (crow R) with (crow C) in Hi by reflexivity. rewrite HrC in Hi.
        apply Hsorted; assumption.
      * intros k Hk. unfold R in *; cbn [cj ccol] in *. rewrite HcC. apply P7; assumption.
      * unfold dims_ok. unfold R; cbn [crow ccol]. rewrite HrC, HcC. exact DA.
    + intros i c Hi. unfold CsrSpec.entry. rewrite HrowR by assumption.
      apply (merge_lookup col c _ _ 0).
      * apply row_bsorted; assumption.
      * rewrite <- Hcol. apply row_bsorted; [assumption|lia].
Qed.

End Binop.
