(* C25 obligation: CSRMatrix::is_canonical (sizes, p_[0] = 0, csr_has_canonical_format) always answers on arrays of bounded size and decides exactly the canonical-format predicate. *)
From SE Require Import C25.CsrInst.
Local Open Scope N_scope.
Theorem C25_is_canonical_spec :
  forall (E : Type) (m : csr E),
    crow m < 2 ^ 31 -> lenN (cj m) < 2 ^ 31 ->
    exists r : bool, is_canonical m = Ok r /\ (r = true <-> canon m).
Proof. exact @is_canonical_spec. Qed.
Print Assumptions C25_is_canonical_spec.
