(* C25 obligation: CSRMatrix::is_canonical accepts every canonical matrix. *)
From SE Require Import C25.CsrInst.
Local Open Scope N_scope.
Theorem C25_is_canonical_complete :
  forall (E : Type) (m : csr E),
    canon m -> crow m < 2 ^ 31 -> lenN (cj m) < 2 ^ 31 -> is_canonical m = Ok true.
Proof. exact @is_canonical_complete. Qed.
Print Assumptions C25_is_canonical_complete.
