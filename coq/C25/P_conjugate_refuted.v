(* C25 obligation: REFUTED: conjugate of a non-square canonical matrix records swapped dimensions: the result is not well formed and is_canonical rejects it. *)
From SE Require Import C25.CsrInst.
Local Open Scope N_scope.
Theorem C25_conjugate_refuted :
  exists m : csr gi, Inv m /\
    (crow (conjugate gi_ops m) <> crow m /\ ~ wf (conjugate gi_ops m) /\ is_canonical (conjugate gi_ops m) = Ok false).
Proof. exact conjugate_refuted. Qed.
Print Assumptions C25_conjugate_refuted.
