(* C25 obligation: csr_scale_rows throws (SymEngineException) as soon as a scaling factor is zero. *)
From SE Require Import C25.CsrInst.
Local Open Scope N_scope.
Theorem C25_scale_rows_zero :
  forall (E : Type) (Ops : eops E) (A : csr E) (X : list E) (i0 : N),
    Inv A -> lenN X = crow A -> i0 < crow A ->
    eis_zero Ops (nthN X i0 (ezero Ops)) = true ->
    (forall i : N, i < i0 -> eis_zero Ops (nthN X i (ezero Ops)) = false) ->
    scale_rows Ops A X = ErrExn EXN_SYMENGINE.
Proof. exact @scale_rows_zero. Qed.
Print Assumptions C25_scale_rows_zero.
