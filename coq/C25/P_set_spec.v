(* C25 obligation: CSRMatrix::set (search, insertion, replacement, deletion with row-pointer updates) keeps the canonical-format invariant and performs exactly the dense update. *)
From SE Require Import C25.CsrInst.
Local Open Scope N_scope.
Theorem C25_set_spec :
  forall (E : Type) (Ops : eops E) (m : csr E) (i c : N) (e : E),
    zero_test_sound Ops -> Inv m -> i < crow m -> c < ccol m ->
    exists m' : csr E,
      set Ops m i c e = Ok m' /\ Inv m' /\ crow m' = crow m /\ ccol m' = ccol m /\
      (forall i' c' : N, i' < crow m -> entry Ops m' i' c' = upd (entry Ops m) i c e i' c').
Proof. exact @set_spec. Qed.
Print Assumptions C25_set_spec.
