(* C25 -- proofs, part 1: rows and entries, CSRMatrix::get, CSRMatrix::set, histories. *)
From SE Require Export C25.CsrBase.
Local Open Scope N_scope.
Local Open Scope res_scope.

Section Proofs.
Context {E : Type}.
Variable Ops : eops E.
Notation mat := (csr E).
Notation entry := (entry Ops).
Notation row_of := (row_of Ops).
Notation lookup := (lookup Ops).
Notation Inv := (Inv (E:=E)).

(* ---------- lookup in a row given by index functions ---------- *)
Lemma lookup_seq_cases (fj : N -> N) (fx : N -> E) c : forall n a,
  (exists k, a <= k /\ k < a + N.of_nat n /\ fj k = c /\ (forall t, a <= t -> t < k -> fj t <> c) /\
             lookup c (map (fun t => (fj t, fx t)) (Nseq a n)) = fx k)
  \/ ((forall t, a <= t -> t < a + N.of_nat n -> fj t <> c) /\
      lookup c (map (fun t => (fj t, fx t)) (Nseq a n)) = ezero Ops).
Proof.
  induction n; intros a.
  - right. split; [intros; lia|reflexivity].
  - cbn [Nseq map]. unfold CsrSpec.lookup. cbn [find fst].
    destruct (N.eqb_spec (fj a) c) as [Heq|Hne].
    + left. exists a. repeat split; try lia.
    + destruct (IHn (a + 1)) as [(k & H1 & H2 & H3 & H4 & H5)|(H1 & H2)].
      * left. exists k. repeat split; try lia.
        -- intros t Ht1 Ht2. destruct (N.eq_dec t a) as [->|]; [assumption|]. apply H4; lia.
        -- exact H5.
      * right. split; [|exact H2].
        intros t Ht1 Ht2. destruct (N.eq_dec t a) as [->|]; [assumption|]. apply H1; lia.
Qed.

Lemma entry_cases (m : mat) i c :
  (exists k, pN m i <= k /\ k < pN m (i + 1) /\ nthN (cj m) k 0 = c /\
             (forall t, pN m i <= t -> t < k -> nthN (cj m) t 0 <> c) /\
             entry m i c = nthN (cx m) k (ezero Ops))
  \/ ((forall t, pN m i <= t -> t < pN m (i + 1) -> nthN (cj m) t 0 <> c) /\ entry m i c = ezero Ops).
Proof.
  unfold CsrSpec.entry, CsrSpec.row_of.
  destruct (lookup_seq_cases (fun t => nthN (cj m) t 0) (fun t => nthN (cx m) t (ezero Ops)) c
              (N.to_nat (pN m (i + 1) - pN m i)) (pN m i)) as [(k & H1 & H2 & H3 & H4 & H5)|(H1 & H2)].
  - left. exists k. repeat split; try assumption; lia.
  - right. split; [|assumption]. intros; apply H1; lia.
Qed.

Lemma entry_hit (m : mat) i c k :
  row_sorted m i -> pN m i <= k -> k < pN m (i + 1) -> nthN (cj m) k 0 = c ->
  entry m i c = nthN (cx m) k (ezero Ops).
Proof.
  intros Hs H1 H2 H3.
  destruct (entry_cases m i c) as [(k' & K1 & K2 & K3 & K4 & K5)|(K1 & K2)].
  - assert (k' = k); [|subst; assumption].
    destruct (N.lt_trichotomy k' k) as [Hlt|[Heq|Hgt]]; [|assumption|].
    + specialize (Hs k' k K1 Hlt H2). lia.
    + specialize (Hs k k' H1 Hgt K2). lia.
  - exfalso. apply (K1 k); assumption.
Qed.

Lemma entry_miss (m : mat) i c :
  (forall t, pN m i <= t -> t < pN m (i + 1) -> nthN (cj m) t 0 <> c) -> entry m i c = ezero Ops.
Proof.
  intros H.
  destruct (entry_cases m i c) as [(k' & K1 & K2 & K3 & K4 & K5)|(K1 & K2)]; [|assumption].
  exfalso. apply (H k'); assumption.
Qed.

(* ---------- row pointers ---------- *)
Lemma pN_mono (m : mat) : wf m -> forall b a, a <= b -> b <= crow m -> pN m a <= pN m b.
Proof.
  intros (_ & _ & Hm & _) b. induction b using N.peano_ind; intros a Hab Hb.
  - replace a with 0 by lia. lia.
  - destruct (N.eq_dec a (N.succ b)) as [->|]; [lia|].
    specialize (IHb a). specialize (Hm b). replace (N.succ b) with (b + 1) in * by lia. lia.
Qed.

Lemma pN_le_nnz (m : mat) : wf m -> forall a, a <= crow m -> pN m a <= lenN (cj m).
Proof.
  intros Hwf a Ha. destruct Hwf as (H1 & H2 & H3 & H4 & H5) eqn:?. rewrite <- H4.
  apply pN_mono; [assumption|assumption|lia].
Qed.

(* a strictly increasing row with columns below col has at most col entries *)
Lemma row_length_bound (m : mat) i : wf m -> i < crow m -> row_sorted m i -> cols_ok m ->
  pN m (i + 1) - pN m i <= ccol m.
Proof.
  intros Hwf Hi Hs Hc.
  assert (Hn : pN m (i + 1) <= lenN (cj m)) by (apply pN_le_nnz; [assumption|lia]).
  assert (H : forall n, pN m i + N.of_nat n < pN m (i + 1) ->
                        N.of_nat n <= nthN (cj m) (pN m i + N.of_nat n) 0).
  { induction n; intros Hlt; [lia|].
    specialize (Hs (pN m i + N.of_nat n) (pN m i + N.of_nat (S n))). lia. }
  destruct (N.le_gt_cases (pN m (i + 1)) (pN m i)) as [|Hgt]; [lia|].
  specialize (H (N.to_nat (pN m (i + 1) - pN m i - 1))).
  specialize (Hc (pN m i + N.of_nat (N.to_nat (pN m (i + 1) - pN m i - 1)))). lia.
Qed.

Lemma nnz_bound (m : mat) : canon m -> cols_ok m -> lenN (cj m) <= crow m * ccol m.
Proof.
  intros (Hwf & Hs) Hc.
  assert (H : forall i, i <= crow m -> pN m i <= i * ccol m).
  { induction i using N.peano_ind; intros Hi.
    - destruct Hwf as (_ & H0 & _). lia.
    - pose proof (row_length_bound m i Hwf ltac:(lia) (Hs i ltac:(lia)) Hc).
      replace (N.succ i) with (i + 1) in * by lia.
      pose proof (pN_mono m Hwf (i + 1) i ltac:(lia) ltac:(lia)). specialize (IHi ltac:(lia)). nia. }
  destruct Hwf as (_ & _ & _ & H4 & _). rewrite <- H4. apply H; lia.
Qed.

Lemma Inv_small (m : mat) : Inv m -> lenN (cj m) < 2 ^ 31 /\ crow m < 2 ^ 31.
Proof.
  intros (Hc & Hcols & (H1 & H2 & H3)). pose proof (nnz_bound m Hc Hcols). lia.
Qed.

Lemma getN_p (m : mat) a : wf m -> a <= crow m -> getN (cp m) a = Ok (pN m a).
Proof.
  intros (H1 & _) Ha. apply getN_ok. lia.
Qed.

(* ---------- CSRMatrix::get ---------- *)
Lemma get_loop_spec (m : mat) i c : wf m -> i < crow m -> row_sorted m i -> lenN (cj m) < 2 ^ 31 ->
  forall fuel rs re,
    (N.to_nat (re - rs) < fuel)%nat ->
    pN m i <= rs -> re <= pN m (i + 1) ->
    (forall t, pN m i <= t -> t < rs -> nthN (cj m) t 0 < c) ->
    (forall t, re <= t -> t < pN m (i + 1) -> c < nthN (cj m) t 0) ->
    get_loop Ops fuel (cj m) (cx m) c rs re = Ok (entry m i c).
Proof.
  intros Hwf Hi Hs Hsmall.
  assert (Hn : pN m (i + 1) <= lenN (cj m)) by (apply pN_le_nnz; [assumption|lia]).
  assert (Hx : lenN (cx m) = lenN (cj m)) by (destruct Hwf as (_ & _ & _ & _ & H); exact H).
  induction fuel; intros rs re Hf H1 H2 Hlo Hhi; [lia|].
  cbn [get_loop].
  destruct (N.ltb_spec rs re) as [Hlt|Hge].
  - rewrite uadd_small by lia.
    set (k := (rs + re) / 2). assert (Hk : rs <= k /\ k < re) by (unfold k; lia).
    rewrite (getN_ok (cj m) k 0) by lia. cbn [bind].
    destruct (N.eqb_spec (nthN (cj m) k 0) c) as [Heq|Hne].
    + rewrite (getN_ok (cx m) k (ezero Ops)) by lia. f_equal. symmetry.
      apply entry_hit; [assumption|lia|lia|assumption].
    + destruct (N.ltb_spec (nthN (cj m) k 0) c) as [Hl|Hg].
      * rewrite uadd_small by lia. apply IHfuel; [lia|lia|lia| |assumption].
        intros t T1 T2. destruct (N.eq_dec t k) as [->|]; [assumption|].
        specialize (Hs t k T1 ltac:(lia) ltac:(lia)). lia.
      * apply IHfuel; [lia|lia|lia|assumption|].
        intros t T1 T2. destruct (N.eq_dec t k) as [->|]; [lia|].
        specialize (Hs k t ltac:(lia) ltac:(lia) T2). lia.
  - f_equal. symmetry. apply entry_miss. intros t T1 T2.
    destruct (N.lt_ge_cases t rs).
    + specialize (Hlo t T1 ltac:(lia)). lia.
    + specialize (Hhi t ltac:(lia) T2). lia.
Qed.

Theorem get_correct (m : mat) i c : wf m -> lenN (cj m) < 2 ^ 31 -> crow m < 2 ^ 31 ->
  i < crow m -> row_sorted m i -> get Ops m i c = Ok (entry m i c).
Proof.
  intros Hwf Hsmall Hrow Hi Hs. unfold get.
  rewrite (getN_p m i Hwf) by lia. cbn [bind].
  rewrite uadd_small by lia. rewrite (getN_p m (i + 1) Hwf) by lia. cbn [bind].
  destruct (N.eqb_spec (pN m i) (pN m (i + 1))) as [Heq|Hne].
  - f_equal. symmetry. apply entry_miss. intros; lia.
  - apply (get_loop_spec m i c Hwf Hi Hs Hsmall); try lia; intros; lia.
Qed.

Theorem get_spec (m : mat) i c : Inv m -> i < crow m -> get Ops m i c = Ok (entry m i c).
Proof.
  intros HI Hi. destruct (Inv_small m HI) as (H1 & H2). destruct HI as ((Hwf & Hs) & _).
  apply get_correct; auto.
Qed.

End Proofs.
