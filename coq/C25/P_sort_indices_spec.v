(* C25 obligation: csr_sort_indices: every row of the result is a permutation of the input row with non-decreasing columns; sizes and row pointers unchanged. *)
From SE Require Import C25.CsrFromCoo.
Local Open Scope N_scope.
Theorem C25_sort_indices_spec :
  forall (E : Type) (Ops : eops E) (m : csr E),
    wf m -> lenN (cj m) < 2 ^ 31 -> crow m < 2 ^ 31 ->
    exists (j' : list N) (x' : list E),
      sort_indices (cp m) (cj m) (cx m) (crow m) = Ok (j', x') /\
      (let m' := {| cp := cp m; cj := j'; cx := x'; crow := crow m; ccol := ccol m |} in
       lenN j' = lenN (cj m) /\ lenN x' = lenN (cx m) /\ wf m' /\
       (forall i : N, i < crow m -> Permutation (row_of Ops m' i) (row_of Ops m i) /\ row_nondecr m' i)).
Proof. exact @sort_indices_spec. Qed.
Print Assumptions C25_sort_indices_spec.
