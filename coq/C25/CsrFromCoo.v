(* C25 -- proofs, from_coo part 3: the counting sort by row of CSRMatrix::from_coo and the
   composition with csr_sort_indices and csr_sum_duplicates.
   Compile after C25/CsrFromCoo1.v (sum_duplicates_spec) and C25/CsrFromCoo2.v (sort_indices_spec). *)
From SE Require Export C25.CsrFromCoo2.
Local Open Scope N_scope.
Local Open Scope res_scope.

Lemma firstn_succ_nth {A} (l : list A) d : forall n, (n < length l)%nat ->
  firstn (S n) l = firstn n l ++ [nth n l d].
Proof.
  induction l as [|a l IH]; intros n Hn; cbn [length] in Hn; [lia|].
  destruct n; [reflexivity|]. cbn [firstn nth app]. f_equal. apply IH. lia.
Qed.

Section FromCoo3.
Context {E : Type}.
Variable Ops : eops E.
Notation mat := (csr E).
Notation entry := (entry Ops).
Notation row_of := (row_of Ops).
Notation segN := (segN Ops).
Notation e0 := (ezero Ops).
Notation esum := (esum Ops).
Notation lsum := (lsum Ops).
Notation tri := (N * (N * E))%type.

(* ---------- sums in a commutative monoid ---------- *)
Lemma fold_left_esum : comm_monoid Ops -> forall r v, fold_left (eadd Ops) r v = eadd Ops v (esum r).
Proof.
  intros [Hc Ha H0]. induction r as [|a r IH]; intros v; cbn [fold_left CsrSpec.esum fold_right].
  - symmetry. apply H0.
  - rewrite IH. symmetry. apply Ha.
Qed.

Lemma lsum_esum : comm_monoid Ops -> forall l, lsum l = esum l.
Proof.
  intros H [|v r]; [reflexivity|]. cbn [CsrFromCoo1.lsum]. apply fold_left_esum. assumption.
Qed.

Lemma esum_perm : comm_monoid Ops -> forall l l', Permutation l l' -> esum l = esum l'.
Proof.
  intros [Hc Ha H0] l l' HP. induction HP; cbn [CsrSpec.esum fold_right].
  - reflexivity.
  - f_equal. exact IHHP.
  - fold (esum l). rewrite !Ha. f_equal. apply Hc.
  - congruence.
Qed.

Lemma colvals_perm c (l l' : list (N * E)) : Permutation l l' -> Permutation (colvals c l) (colvals c l').
Proof.
  intros HP. induction HP.
  - apply Permutation_refl.
  - rewrite !colvals_cons. destruct (fst x =? c); [apply perm_skip|]; assumption.
  - rewrite !colvals_cons. destruct (fst x =? c), (fst y =? c);
      try apply perm_swap; try apply perm_skip; apply Permutation_refl.
  - eapply perm_trans; eassumption.
Qed.

(* ---------- the coordinate list as a list of triples ---------- *)
Definition rowl (L : list tri) (r : N) : list (N * E) := map snd (filter (fun t => fst t =? r) L).
Definition cntL (L : list tri) (r : N) : N := lenN (filter (fun t => fst t =? r) L).
Definition belowL (L : list tri) (i : N) : N := lenN (filter (fun t => fst t <? i) L).
Definition pre (L : list tri) (n : N) : list tri := firstn (N.to_nat n) L.

Lemma coo_values_rowl is js (xs : list E) i c :
  coo_values is js xs i c = colvals c (rowl (combine is (combine js xs)) i).
Proof.
  revert js xs. induction is as [|a is IH]; intros js xs; [reflexivity|].
  destruct js as [|b js]; [reflexivity|]. destruct xs as [|v xs]; [reflexivity|].
  cbn [coo_values combine]. unfold rowl. cbn [filter fst].
  destruct (a =? i); cbn [andb map snd].
  - rewrite colvals_cons. cbn [fst snd]. destruct (b =? c); [f_equal|]; apply IH.
  - apply IH.
Qed.

Lemma cntL_cons t L r : cntL (t :: L) r = (if fst t =? r then 1 else 0) + cntL L r.
Proof. unfold cntL. cbn [filter]. destruct (fst t =? r); [rewrite lenN_cons|]; lia. Qed.

Lemma belowL_cons t L i : belowL (t :: L) i = (if fst t <? i then 1 else 0) + belowL L i.
Proof. unfold belowL. cbn [filter]. destruct (fst t <? i); [rewrite lenN_cons|]; lia. Qed.

Lemma cntL_app L1 L2 r : cntL (L1 ++ L2) r = cntL L1 r + cntL L2 r.
Proof. unfold cntL. rewrite filter_app, lenN_app. reflexivity. Qed.

Lemma rowl_app L1 L2 r : rowl (L1 ++ L2) r = rowl L1 r ++ rowl L2 r.
Proof. unfold rowl. rewrite filter_app, map_app. reflexivity. Qed.

Lemma cntL_le L r : cntL L r <= lenN L.
Proof.
  induction L as [|t L IH]; [unfold cntL; cbn; lia|].
  rewrite cntL_cons, lenN_cons. destruct (fst t =? r); lia.
Qed.

Lemma belowL_le L i : belowL L i <= lenN L.
Proof.
  induction L as [|t L IH]; [unfold belowL; cbn; lia|].
  rewrite belowL_cons, lenN_cons. destruct (fst t <? i); lia.
Qed.

Lemma belowL_succ L i : belowL L (i + 1) = belowL L i + cntL L i.
Proof.
  induction L as [|t L IH]; [reflexivity|].
  rewrite !belowL_cons, cntL_cons, IH.
  destruct (N.ltb_spec (fst t) (i + 1)), (N.ltb_spec (fst t) i), (N.eqb_spec (fst t) i); lia.
Qed.

Lemma belowL_0 L : belowL L 0 = 0.
Proof.
  induction L as [|t L IH]; [reflexivity|].
  rewrite belowL_cons, IH. destruct (N.ltb_spec (fst t) 0); lia.
Qed.

Lemma belowL_all L i : (forall t, In t L -> fst t < i) -> belowL L i = lenN L.
Proof.
  induction L as [|t L IH]; intros H; [reflexivity|].
  rewrite belowL_cons, lenN_cons, IH by (intros; apply H; right; assumption).
  specialize (H t (or_introl eq_refl)). destruct (N.ltb_spec (fst t) i); lia.
Qed.

Lemma belowL_mono L i i' : i <= i' -> belowL L i <= belowL L i'.
Proof.
  intros Hi. induction L as [|t L IH]; [unfold belowL; cbn; lia|].
  rewrite !belowL_cons. destruct (N.ltb_spec (fst t) i), (N.ltb_spec (fst t) i'); lia.
Qed.

Lemma cntL_nil r : cntL [] r = 0.
Proof. reflexivity. Qed.

Lemma rowl_nil r : rowl [] r = [].
Proof. reflexivity. Qed.

Lemma cntL_single t r : cntL [t] r = if fst t =? r then 1 else 0.
Proof. rewrite cntL_cons, cntL_nil. lia. Qed.

Lemma rowl_single t r : rowl [t] r = if fst t =? r then [snd t] else [].
Proof. unfold rowl. cbn [filter]. destruct (fst t =? r); reflexivity. Qed.

Lemma pre_0 L : pre L 0 = [].
Proof. reflexivity. Qed.

Lemma pre_succ L n d : n < lenN L -> pre L (n + 1) = pre L n ++ [nthN L n d].
Proof.
  intros H. unfold pre, nthN. replace (N.to_nat (n + 1)) with (S (N.to_nat n)) by lia.
  apply firstn_succ_nth. unfold lenN in H. lia.
Qed.

Lemma pre_all L : pre L (lenN L) = L.
Proof. unfold pre. rewrite lenN_nat. apply firstn_all. Qed.

Lemma cntL_pre_le L n r : cntL (pre L n) r <= cntL L r.
Proof.
  assert (H : cntL L r = cntL (pre L n) r + cntL (skipn (N.to_nat n) L) r).
  { rewrite <- cntL_app. unfold pre. rewrite firstn_skipn. reflexivity. }
  lia.
Qed.

Lemma cntL_pre_lt L n d : n < lenN L -> cntL (pre L n) (fst (nthN L n d)) < cntL L (fst (nthN L n d)).
Proof.
  intros H. pose proof (cntL_pre_le L (n + 1) (fst (nthN L n d))) as Hle.
  rewrite (pre_succ L n d H), cntL_app, cntL_single, N.eqb_refl in Hle. lia.
Qed.

(* ---------- the loops of from_coo ---------- *)
Section Loops.
Variables (row col : N) (is js : list N) (xs : list E).
Hypothesis HM : comm_monoid Ops.
Hypothesis Hrow : row < 2 ^ 31.
Hypothesis Hcol : col < 2 ^ 31.
Hypothesis Hrc : row * col < 2 ^ 31.
Hypothesis Hnnz : lenN xs < 2 ^ 31.
Hypothesis Hli : length is = length xs.
Hypothesis Hlj : length js = length xs.
Hypothesis His : Forall (fun i => i < row) is.
Hypothesis Hjs : Forall (fun c => c < col) js.

Let T : list tri := combine is (combine js xs).
Let nnz : N := lenN xs.
Let d : tri := (0, (0, e0)).
Let B (i : N) : N := belowL T i.

Lemma T_len : lenN T = nnz.
Proof. unfold T, nnz, lenN. rewrite !combine_length. lia. Qed.

Lemma T_nth n : nthN T n d = (nthN is n 0, (nthN js n 0, nthN xs n e0)).
Proof.
  unfold T, d, nthN. rewrite combine_nth by (rewrite combine_length; lia).
  rewrite combine_nth by lia. reflexivity.
Qed.

Lemma is_lt n : n < nnz -> nthN is n 0 < row.
Proof.
  intros H. rewrite Forall_forall in His. apply His. unfold nthN. apply nth_In.
  unfold nnz, lenN in H. lia.
Qed.

Lemma T_rows t : In t T -> fst t < row.
Proof.
  destruct t as [a bv]. intros H. apply in_combine_l in H.
  rewrite Forall_forall in His. apply His. assumption.
Qed.

Lemma T_cols t : In t T -> In (fst (snd t)) js.
Proof.
  destruct t as [a [b v]]. intros H. apply in_combine_r in H. apply in_combine_l in H. exact H.
Qed.

Lemma B_0 : B 0 = 0.
Proof. apply belowL_0. Qed.

Lemma B_row : B row = nnz.
Proof. unfold B. rewrite belowL_all by (apply T_rows). apply T_len. Qed.

Lemma B_row1 : B (row + 1) = nnz.
Proof.
  unfold B. rewrite belowL_all; [apply T_len|]. intros t Ht. apply T_rows in Ht. lia.
Qed.

Lemma B_le i : B i <= nnz.
Proof. unfold B. rewrite <- T_len. apply belowL_le. Qed.

(* (a) the histogram *)
Lemma phase_hist :
  exists p1,
    for_range 0 nnz (fun n p => do r <- getN is n; do v <- getN p r; setN p r (uadd v 1))
      (repeat 0 (N.to_nat (row + 1))) = Ok p1 /\
    lenN p1 = row + 1 /\ forall r, r <= row -> nthN p1 r 0 = cntL T r.
Proof.
  match goal with |- context [for_range 0 nnz ?body ?s] =>
    destruct (for_range_inv
      (fun n p => lenN p = row + 1 /\ forall r, r <= row -> nthN p r 0 = cntL (pre T n) r)
      body 0 nnz s) as (p1 & Hf & L1 & HP) end.
  - lia.
  - split; [rewrite lenN_repeat; lia|]. intros r Hr. rewrite nthN_repeat by lia. reflexivity.
  - intros n p _ Hn (L & HP).
    assert (Hn' : n < lenN T) by (rewrite T_len; assumption).
    rewrite (getN_ok is n 0) by (unfold nnz, lenN in *; lia). cbn [bind].
    pose proof (is_lt n Hn) as Hr. set (r := nthN is n 0) in *.
    rewrite (getN_ok p r 0) by lia. cbn [bind].
    pose proof (cntL_pre_lt T n d Hn') as Hlt. rewrite T_nth in Hlt. cbn [fst] in Hlt. fold r in Hlt.
    pose proof (cntL_le T r) as Hle. rewrite T_len in Hle.
    rewrite (HP r) by lia. rewrite uadd_small by lia.
    rewrite setN_ok by lia. eexists. split; [reflexivity|].
    split; [rewrite lenN_updn by lia; assumption|].
    intros r' Hr'. rewrite nthN_updn by lia.
    rewrite (pre_succ T n d Hn'), cntL_app, cntL_single, T_nth. cbn [fst]. fold r.
    rewrite (N.eqb_sym r r').
    destruct (N.eqb_spec r' r) as [->|Hne]; [reflexivity|]. rewrite HP by lia. lia.
  - exists p1. split; [exact Hf|]. split; [exact L1|].
    intros r Hr. rewrite HP by assumption. rewrite <- T_len, pre_all. reflexivity.
Qed.

(* (b) the cumulative sum *)
Lemma phase_cumsum p1 :
  lenN p1 = row + 1 -> (forall r, r <= row -> nthN p1 r 0 = cntL T r) ->
  exists p2 cs,
    for_range 0 row (fun i st =>
             let '(p, cumsum) := st in
             do temp <- getN p i;
             do p' <- setN p i cumsum;
             Ok (p', uadd cumsum temp)) (p1, 0) = Ok (p2, cs) /\
    lenN p2 = row + 1 /\ forall r, r < row -> nthN p2 r 0 = B r.
Proof.
  intros L1 H1.
  match goal with |- context [for_range 0 row ?body ?s] =>
    destruct (for_range_inv
      (fun i (st : list N * N) => let '(p, cs) := st in
         lenN p = row + 1 /\ cs = B i /\ (forall r, r < i -> nthN p r 0 = B r) /\
         (forall r, i <= r -> r <= row -> nthN p r 0 = cntL T r))
      body 0 row s) as ([p2 cs] & Hf & L2 & _ & HP & _) end.
  - lia.
  - split; [assumption|]. split; [symmetry; apply B_0|]. split; [intros; lia|].
    intros; apply H1; assumption.
  - intros i [p cs] _ Hi (L & -> & HA & HB).
    rewrite (getN_ok p i 0) by lia. cbn [bind].
    rewrite setN_ok by lia. cbn [bind].
    eexists. split; [reflexivity|].
    split; [rewrite lenN_updn by lia; assumption|].
    pose proof (B_le (i + 1)) as Hle. unfold B in Hle. rewrite belowL_succ in Hle. fold (B i) in Hle.
    split; [|split].
    + rewrite HB by lia. rewrite uadd_small by (unfold nnz in Hle; lia).
      unfold B. rewrite belowL_succ. reflexivity.
    + intros r Hr. rewrite nthN_updn by lia.
      destruct (N.eqb_spec r i) as [->|Hne]; [reflexivity|]. apply HA. lia.
    + intros r R1 R2. rewrite nthN_updn by lia.
      destruct (N.eqb_spec r i) as [->|Hne]; [lia|]. apply HB; lia.
  - exists p2, cs. split; [exact Hf|]. split; assumption.
Qed.

(* (c) the scatter: a stable counting sort by row *)
Lemma phase_scatter p3 :
  lenN p3 = row + 1 -> (forall r, r <= row -> nthN p3 r 0 = B r) ->
  exists p4 j4 x4,
    for_range 0 nnz (fun n st =>
             let '(p, j_, x_) := st in
             do r <- getN is n;
             do dest <- getN p r;
             do c <- getN js n;
             do j' <- setN j_ dest c;
             do v <- getN xs n;
             do x' <- setN x_ dest v;
             do p' <- setN p r (uadd dest 1);
             Ok (p', j', x')) (p3, repeat 0 (N.to_nat nnz), repeat e0 (N.to_nat nnz)) = Ok (p4, j4, x4) /\
    lenN p4 = row + 1 /\ lenN j4 = nnz /\ lenN x4 = nnz /\
    (forall r, r <= row -> nthN p4 r 0 = B (r + 1)) /\
    (forall r, r < row -> segN j4 x4 (B r) (B (r + 1)) = rowl T r).
Proof.
  intros L3 H3.
  match goal with |- context [for_range 0 nnz ?body ?s] =>
    destruct (for_range_inv
      (fun n (st : list N * list N * list E) => let '(p, j_, x_) := st in
         lenN p = row + 1 /\ lenN j_ = nnz /\ lenN x_ = nnz /\
         (forall r, r < row -> nthN p r 0 = B r + cntL (pre T n) r) /\
         nthN p row 0 = nnz /\
         (forall r, r < row -> segN j_ x_ (B r) (B r + cntL (pre T n) r) = rowl (pre T n) r))
      body 0 nnz s) as ([[p4 j4] x4] & Hf & L4 & L5 & L6 & HA & HB & HC) end.
  - lia.
  - split; [assumption|]. split; [rewrite lenN_repeat; lia|]. split; [rewrite lenN_repeat; lia|].
    split; [|split].
    + intros r Hr. rewrite H3 by lia. rewrite pre_0, cntL_nil. lia.
    + rewrite H3 by lia. apply B_row.
    + intros r Hr. rewrite pre_0, cntL_nil, rowl_nil. apply segN_nil. lia.
  - intros n [[p j_] x_] _ Hn (L & Lj & Lx & HA & HB & HC).
    assert (Hn' : n < lenN T) by (rewrite T_len; assumption).
    rewrite (getN_ok is n 0) by (unfold nnz, lenN in *; lia). cbn [bind].
    pose proof (is_lt n Hn) as Hr. set (r := nthN is n 0) in *.
    rewrite (getN_ok p r 0) by lia. cbn [bind].
    pose proof (cntL_pre_lt T n d Hn') as Hlt. rewrite T_nth in Hlt. cbn [fst] in Hlt. fold r in Hlt.
    assert (Hsucc : forall r', B (r' + 1) = B r' + cntL T r') by (intros; apply belowL_succ).
    pose proof (B_le (r + 1)) as Hle.
    rewrite (HA r Hr). set (dest := B r + cntL (pre T n) r).
    assert (Hdest : dest < nnz) by (unfold dest; rewrite Hsucc in Hle; lia).
    rewrite (getN_ok js n 0) by (unfold nnz, lenN in *; lia). cbn [bind].
    rewrite setN_ok by lia. cbn [bind].
    rewrite (getN_ok xs n e0) by (unfold nnz, lenN in *; lia). cbn [bind].
    rewrite setN_ok by lia. cbn [bind].
    rewrite uadd_small by (unfold nnz in Hdest; lia).
    rewrite setN_ok by lia. cbn [bind].
    eexists. split; [reflexivity|].
    split; [rewrite lenN_updn by lia; assumption|].
    split; [rewrite lenN_updn by lia; assumption|].
    split; [rewrite lenN_updn by lia; assumption|].
    assert (Hcnt : forall r', cntL (pre T (n + 1)) r' = cntL (pre T n) r' + if r =? r' then 1 else 0).
    { intros r'. rewrite (pre_succ T n d Hn'), cntL_app, cntL_single, T_nth. reflexivity. }
    assert (Hrl : forall r', rowl (pre T (n + 1)) r' =
               rowl (pre T n) r' ++ if r =? r' then [(nthN js n 0, nthN xs n e0)] else []).
    { intros r'. rewrite (pre_succ T n d Hn'), rowl_app, rowl_single, T_nth. reflexivity. }
    split; [|split].
    + intros r' Hr'. rewrite nthN_updn by lia. rewrite Hcnt, (N.eqb_sym r r').
      destruct (N.eqb_spec r' r) as [->|Hne]; [unfold dest; lia|]. rewrite HA by assumption. lia.
    + rewrite nthN_updn by lia. destruct (N.eqb_spec row r); [lia|assumption].
    + intros r' Hr'. rewrite Hcnt, Hrl.
      destruct (N.eqb_spec r r') as [<-|Hne].
      * replace (B r + (cntL (pre T n) r + 1)) with (dest + 1) by (unfold dest; lia).
        rewrite segN_snoc by (unfold dest; lia).
        rewrite !nthN_updn by lia. rewrite !N.eqb_refl. f_equal.
        rewrite <- (HC r Hr). fold dest. apply segN_ext. intros k K1 K2.
        rewrite !nthN_updn by lia. destruct (N.eqb_spec k dest); [lia|]. split; reflexivity.
      * rewrite N.add_0_r, app_nil_r. rewrite <- (HC r' Hr'). apply segN_ext. intros k K1 K2.
        rewrite !nthN_updn by lia.
        pose proof (cntL_pre_le T n r') as Hle'.
        destruct (N.eqb_spec k dest) as [->|]; [exfalso|split; reflexivity].
        destruct (N.lt_ge_cases r' r) as [Hlt'|Hge'].
        -- pose proof (belowL_mono T (r' + 1) r ltac:(lia)) as Hm. fold (B (r' + 1)) (B r) in Hm.
           rewrite Hsucc in Hm. unfold dest in *. lia.
        -- pose proof (belowL_mono T (r + 1) r' ltac:(lia)) as Hm. fold (B (r + 1)) (B r') in Hm.
           rewrite Hsucc in Hm. unfold dest in *. lia.
  - exists p4, j4, x4. split; [exact Hf|]. split; [exact L4|]. split; [exact L5|]. split; [exact L6|].
    rewrite <- T_len, pre_all in *.
    split.
    + intros r Hr. destruct (N.eq_dec r row) as [->|Hne].
      * rewrite HB. rewrite B_row1. apply T_len.
      * rewrite HA by lia. symmetry. apply belowL_succ.
    + intros r Hr. rewrite <- HC by assumption. f_equal. apply belowL_succ.
Qed.

(* (d) shifting the row pointers back *)
Lemma phase_shift p4 :
  lenN p4 = row + 1 -> (forall r, r <= row -> nthN p4 r 0 = B (r + 1)) ->
  exists p5 lst,
    for_range 0 (row + 1) (fun i st =>
             let '(p, last) := st in
             do v <- getN p i;
             do p' <- setN p i last;
             Ok (p', v)) (p4, 0) = Ok (p5, lst) /\
    lenN p5 = row + 1 /\ forall r, r <= row -> nthN p5 r 0 = B r.
Proof.
  intros L4 H4.
  match goal with |- context [for_range 0 (row + 1) ?body ?s] =>
    destruct (for_range_inv
      (fun i (st : list N * N) => let '(p, last) := st in
         lenN p = row + 1 /\ last = B i /\ (forall r, r < i -> nthN p r 0 = B r) /\
         (forall r, i <= r -> r <= row -> nthN p r 0 = B (r + 1)))
      body 0 (row + 1) s) as ([p5 lst] & Hf & L5 & _ & HP & _) end.
  - lia.
  - split; [assumption|]. split; [symmetry; apply B_0|]. split; [intros; lia|].
    intros; apply H4; assumption.
  - intros i [p last] _ Hi (L & -> & HA & HB).
    rewrite (getN_ok p i 0) by lia. cbn [bind].
    rewrite setN_ok by lia. cbn [bind].
    eexists. split; [reflexivity|].
    split; [rewrite lenN_updn by lia; assumption|].
    split; [apply HB; lia|]. split.
    + intros r Hr. rewrite nthN_updn by lia.
      destruct (N.eqb_spec r i) as [->|Hne]; [reflexivity|]. apply HA. lia.
    + intros r R1 R2. rewrite nthN_updn by lia.
      destruct (N.eqb_spec r i) as [->|Hne]; [lia|]. apply HB; lia.
  - exists p5, lst. split; [exact Hf|]. split; [exact L5|]. intros r Hr. apply HP. lia.
Qed.

(* every stored position belongs to a row *)
Lemma find_row (m : mat) k : wf m -> k < lenN (cj m) ->
  exists i, i < crow m /\ pN m i <= k /\ k < pN m (i + 1).
Proof.
  intros (W1 & W2 & W3 & W4 & W5) Hk.
  assert (H : forall b, b <= crow m -> k < pN m b -> exists i, i < b /\ pN m i <= k /\ k < pN m (i + 1)).
  { induction b using N.peano_ind; intros Hb Hlt.
    - lia.
    - replace (N.succ b) with (b + 1) in * by lia. destruct (N.lt_ge_cases k (pN m b)) as [Hl|Hg].
      + destruct IHb as (i & I1 & I2 & I3); [lia|assumption|]. exists i. repeat split; [lia|assumption|assumption].
      + exists b. repeat split; [lia|assumption|assumption]. }
  apply (H (crow m)); lia.
Qed.

Lemma rows_cols_ok (m : mat) : wf m ->
  (forall i e, i < crow m -> In e (row_of m i) -> fst e < ccol m) -> cols_ok m.
Proof.
  intros Hwf H k Hk. destruct (find_row m k Hwf Hk) as (i & I1 & I2 & I3).
  apply (H i (nthN (cj m) k 0, nthN (cx m) k e0) I1).
  rewrite row_of_seg. apply in_segN. exists k. repeat split; assumption.
Qed.

Lemma from_coo_core :
  exists m, from_coo Ops row col is js xs = Ok m /\ crow m = row /\ ccol m = col /\ Inv (E:=E) m /\
    forall i c, i < row -> c < col -> entry m i c = esum (coo_values is js xs i c).
Proof.
  unfold from_coo. rewrite (u32_small (lenN xs)) by lia. rewrite (uadd_small row 1) by lia. cbn zeta.
  destruct phase_hist as (p1 & E1 & L1 & H1). fold nnz. rewrite E1. cbn [bind].
  destruct (phase_cumsum p1 L1 H1) as (p2 & cs & E2 & L2 & H2). rewrite E2. cbn [bind].
  rewrite (setN_ok p2 row) by lia. cbn [bind].
  set (p3 := updn (N.to_nat row) p2 nnz).
  assert (L3 : lenN p3 = row + 1) by (unfold p3; rewrite lenN_updn by lia; assumption).
  assert (H3 : forall r, r <= row -> nthN p3 r 0 = B r).
  { intros r Hr. unfold p3. rewrite nthN_updn by lia.
    destruct (N.eqb_spec r row) as [->|Hne]; [symmetry; apply B_row|apply H2; lia]. }
  destruct (phase_scatter p3 L3 H3) as (p4 & j4 & x4 & E3 & L4 & Lj & Lx & H4 & R4).
  rewrite E3. cbn [bind].
  destruct (phase_shift p4 L4 H4) as (p5 & lst & E4 & L5 & H5). rewrite E4. cbn [bind].
  set (m5 := Build_csr p5 j4 x4 row col).
  assert (Hmono : forall i, i < row -> B i <= B (i + 1)).
  { intros i Hi. apply belowL_mono. lia. }
  assert (W5 : wf m5).
  { unfold wf, pN, m5. cbn [cp cj cx crow]. split; [assumption|]. split; [rewrite H5 by lia; apply B_0|].
    split; [|split].
    - intros i Hi. rewrite !H5 by lia. apply Hmono; assumption.
    - rewrite H5 by lia. rewrite B_row. symmetry; assumption.
    - lia. }
  assert (R5 : forall i, i < row -> row_of m5 i = rowl T i).
  { intros i Hi. rewrite row_of_seg. unfold pN, m5. cbn [cp cj cx]. rewrite !H5 by lia. apply R4; assumption. }
  destruct (sort_indices_spec Ops m5 W5) as (j6 & x6 & E5 & S5); [cbn [cj m5]; lia|cbn [crow m5]; lia|].
  cbn [cp cj cx crow ccol m5] in E5, S5. cbn zeta in S5. rewrite E5. cbn [bind].
  set (m6 := Build_csr p5 j6 x6 row col) in *.
  destruct S5 as (Lj6 & Lx6 & W6 & R6).
  destruct (sum_duplicates_spec Ops m6 W6) as (p7 & j7 & x7 & E6 & S6).
  { cbn [cj m6]. lia. }
  { cbn [crow m6]. lia. }
  { intros i Hi. apply R6. exact Hi. }
  cbn [cp cj cx crow ccol m6] in E6, S6. cbn zeta in S6. rewrite E6. cbn [bind].
  set (m7 := Build_csr p7 j7 x7 row col) in *.
  destruct S6 as (C7 & R7 & V7).
  exists m7. split; [reflexivity|]. split; [reflexivity|]. split; [reflexivity|]. split.
  - split; [exact C7|]. split.
    + apply rows_cols_ok; [apply C7|]. cbn [crow ccol m7]. intros i e Hi He.
      rewrite R7 in He by assumption. apply group_in in He as (e1 & He1 & ->).
      destruct (R6 i Hi) as (P6 & _).
      apply (Permutation_in _ P6) in He1.
      rewrite R5 in He1 by assumption. unfold rowl in He1.
      apply in_map_iff in He1 as (t & <- & Ht). apply filter_In in Ht as (Ht & _).
      apply T_cols in Ht. rewrite Forall_forall in Hjs. apply Hjs. assumption.
    + unfold dims_ok. cbn [crow ccol m7]. repeat split; assumption.
  - intros i c Hi Hc. rewrite V7 by assumption. rewrite lsum_esum by assumption.
    destruct (R6 i Hi) as (P6 & _).
    rewrite (esum_perm HM _ _ (colvals_perm c _ _ P6)).
    rewrite R5 by assumption. rewrite coo_values_rowl. reflexivity.
Qed.

End Loops.

Theorem from_coo_spec (row col : N) (is js : list N) (xs : list E) :
  comm_monoid Ops ->
  row < 2 ^ 31 -> col < 2 ^ 31 -> row * col < 2 ^ 31 -> lenN xs < 2 ^ 31 ->
  length is = length xs -> length js = length xs ->
  Forall (fun i => i < row) is -> Forall (fun c => c < col) js ->
  exists m, from_coo Ops row col is js xs = Ok m /\ crow m = row /\ ccol m = col /\ Inv m /\
    forall i c, i < row -> c < col -> entry m i c = esum (coo_values is js xs i c).
Proof. intros. apply from_coo_core; assumption. Qed.

End FromCoo3.

Print Assumptions from_coo_spec.
