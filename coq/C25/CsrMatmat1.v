(* C25 -- csr_matmat, part 1: generic lemmas (accumulating loops, discovery lists, sums over
   a commutative monoid, the algebra behind the entry equation). *)
From SE Require Export C25.CsrFromCoo2.
From Coq Require Import Sorted.
Local Open Scope N_scope.
Local Open Scope res_scope.

(* ---------- loops that process a list of items ---------- *)
Lemma for_range_accl {St X} (Q : list X -> St -> Prop) (g : N -> list X)
      (body : N -> St -> res St) a b s L0 :
  a <= b -> Q L0 s ->
  (forall k L s, a <= k -> k < b -> Q L s -> exists s', body k s = Ok s' /\ Q (L ++ g k) s') ->
  exists s', for_range a b body s = Ok s' /\ Q (L0 ++ flat_map g (Nseq a (N.to_nat (b - a)))) s'.
Proof.
  intros Hab H0 Hstep.
  destruct (for_range_inv (fun k s => Q (L0 ++ flat_map g (Nseq a (N.to_nat (k - a)))) s) body a b s Hab)
    as (s' & Hr & Hq).
  - replace (N.to_nat (a - a)) with 0%nat by lia. cbn [Nseq flat_map]. rewrite app_nil_r. exact H0.
  - intros k s0 Hk1 Hk2 Hq.
    destruct (Hstep k _ s0 Hk1 Hk2 Hq) as (s1 & Hb & Hq1). exists s1. split; [exact Hb|].
    replace (N.to_nat (k + 1 - a)) with (S (N.to_nat (k - a))) by lia.
    rewrite Nseq_S, flat_map_app. cbn [flat_map]. rewrite app_nil_r, app_assoc.
    replace (a + N.of_nat (N.to_nat (k - a))) with k by lia. exact Hq1.
  - exists s'. split; assumption.
Qed.

Lemma flat_map_single {X Y} (f : X -> Y) l : flat_map (fun x => [f x]) l = map f l.
Proof. induction l; cbn [flat_map map app]; [reflexivity|]. f_equal; assumption. Qed.

Lemma for_range_acc1 {St X} (Q : list X -> St -> Prop) (f : N -> X)
      (body : N -> St -> res St) a b s L0 :
  a <= b -> Q L0 s ->
  (forall k L s, a <= k -> k < b -> Q L s -> exists s', body k s = Ok s' /\ Q (L ++ [f k]) s') ->
  exists s', for_range a b body s = Ok s' /\ Q (L0 ++ map f (Nseq a (N.to_nat (b - a)))) s'.
Proof.
  intros Hab H0 Hstep. rewrite <- flat_map_single.
  apply (for_range_accl Q (fun k => [f k])); assumption.
Qed.

Lemma flat_map_map {X Y Z} (f : Y -> list Z) (h : X -> Y) l :
  flat_map f (map h l) = flat_map (fun x => f (h x)) l.
Proof. induction l; cbn [flat_map map]; [reflexivity|]. f_equal; assumption. Qed.

Lemma map_flat_map {X Y Z} (f : X -> list Y) (h : Y -> Z) l :
  map h (flat_map f l) = flat_map (fun x => map h (f x)) l.
Proof. induction l; cbn [flat_map map]; [reflexivity|]. rewrite map_app. f_equal; assumption. Qed.

Lemma in_flat_map_fst {X Y} (g : X -> list (N * Y)) l k :
  In k (map fst (flat_map g l)) <-> exists x, In x l /\ In k (map fst (g x)).
Proof.
  rewrite in_map_iff. split.
  - intros (y & <- & Hy). apply in_flat_map in Hy as (x & Hx & Hy). exists x. split; [assumption|].
    apply in_map. assumption.
  - intros (x & Hx & Hk). apply in_map_iff in Hk as (y & <- & Hy). exists y. split; [reflexivity|].
    apply in_flat_map. exists x. split; assumption.
Qed.

(* ---------- vectors ---------- *)
Lemma lenN_resizeN {A} (l : list A) n fill : lenN (resizeN l n fill) = n.
Proof.
  unfold resizeN, lenN. rewrite app_length, firstn_length, repeat_length. lia.
Qed.

Lemma nthN_resizeN {A} (l : list A) n fill k d : k < n -> n <= lenN l ->
  nthN (resizeN l n fill) k d = nthN l k d.
Proof.
  intros Hk Hn. unfold resizeN, nthN, lenN in *.
  rewrite app_nth1 by (rewrite firstn_length; lia). apply nth_firstn'. lia.
Qed.

Lemma lenN_length {A} (l : list A) : N.of_nat (length l) = lenN l.
Proof. reflexivity. Qed.

Lemma map_Nseq_eq {X} (f : N -> X) a (l : list X) d :
  (forall t, (t < length l)%nat -> f (a + N.of_nat t) = nth t l d) ->
  map f (Nseq a (length l)) = l.
Proof.
  revert a. induction l as [|x l IH]; intros a H; cbn [length Nseq map]; [reflexivity|].
  f_equal.
  - specialize (H 0%nat ltac:(cbn [length]; lia)). cbn [nth] in H. rewrite <- H. f_equal. lia.
  - apply IH. intros t Ht. specialize (H (S t) ltac:(cbn [length]; lia)). cbn [nth] in H.
    rewrite <- H. f_equal. lia.
Qed.

Lemma zidx_of_N k : zidx (Z.of_N k) = k.
Proof. unfold zidx. destruct (Z.ltb_spec (Z.of_N k) 0); lia. Qed.

(* ---------- discovery list: distinct elements, most recent first ---------- *)
Definition memN (k : N) (D : list N) : bool := existsb (N.eqb k) D.

Lemma memN_spec k D : memN k D = true <-> In k D.
Proof.
  unfold memN. rewrite existsb_exists. split.
  - intros (x & Hx & He). apply N.eqb_eq in He. subst. assumption.
  - intros H. exists k. split; [assumption|apply N.eqb_refl].
Qed.

Lemma memN_false k D : memN k D = false <-> ~ In k D.
Proof. rewrite <- memN_spec. destruct (memN k D); split; congruence. Qed.

Definition disc_step (D : list N) (k : N) : list N := if memN k D then D else k :: D.
Definition disc (L : list N) : list N := fold_left disc_step L [].

Lemma disc_snoc L k : disc (L ++ [k]) = disc_step (disc L) k.
Proof. unfold disc. rewrite fold_left_app. reflexivity. Qed.

Lemma disc_in L k : In k (disc L) <-> In k L.
Proof.
  induction L as [|x L IH] using rev_ind; [reflexivity|].
  rewrite disc_snoc, in_app_iff. unfold disc_step. cbn [In].
  destruct (memN x (disc L)) eqn:Hm.
  - apply memN_spec in Hm. split; [tauto|]. intros [H|[<-|[]]]; tauto.
  - cbn [In]. tauto.
Qed.

Lemma disc_nodup L : NoDup (disc L).
Proof.
  induction L as [|x L IH] using rev_ind; [constructor|].
  rewrite disc_snoc. unfold disc_step.
  destruct (memN x (disc L)) eqn:Hm; [assumption|].
  apply memN_false in Hm. constructor; assumption.
Qed.

Lemma nodup_bounded (D : list N) m : NoDup D -> (forall k, In k D -> k < m) -> lenN D <= m.
Proof.
  intros Hn Hb.
  assert (H : (length D <= length (Nseq 0 (N.to_nat m)))%nat).
  { apply NoDup_incl_length; [assumption|]. intros k Hk. apply in_Nseq. specialize (Hb k Hk). lia. }
  rewrite Nseq_length in H. unfold lenN. lia.
Qed.

(* ---------- sums ---------- *)
Section Alg.
Context {E : Type}.
Variable Ops : eops E.
Hypothesis Hsr : semiring Ops.
Notation zero := (ezero Ops).
Notation esum := (esum Ops).
Notation lookup := (lookup Ops).

Let Hm : comm_monoid Ops := sr_monoid Ops Hsr.

Lemma add_0_l a : eadd Ops zero a = a.
Proof. rewrite (add_comm Ops Hm). apply (add_0_r Ops Hm). Qed.

Lemma esum_app l1 l2 : esum (l1 ++ l2) = eadd Ops (esum l1) (esum l2).
Proof.
  induction l1 as [|a l1 IH]; cbn [app CsrSpec.esum fold_right].
  - symmetry. apply add_0_l.
  - fold (esum (l1 ++ l2)). fold (esum l1). rewrite IH. apply (add_assoc Ops Hm).
Qed.

Lemma esum_cons a l : esum (a :: l) = eadd Ops a (esum l).
Proof. reflexivity. Qed.

(* the sum of the values given for column k in a list of (column, value) items *)
Definition csum (k : N) (L : list (N * E)) : E :=
  esum (map snd (filter (fun x => fst x =? k) L)).

Lemma csum_nil k : csum k [] = zero.
Proof. reflexivity. Qed.

Lemma csum_app k L1 L2 : csum k (L1 ++ L2) = eadd Ops (csum k L1) (csum k L2).
Proof. unfold csum. rewrite filter_app, map_app. apply esum_app. Qed.

Lemma csum_cons k x L :
  csum k (x :: L) = if fst x =? k then eadd Ops (snd x) (csum k L) else csum k L.
Proof. unfold csum. cbn [filter]. destruct (fst x =? k); reflexivity. Qed.

Lemma csum_snoc k L x :
  csum k (L ++ [x]) = if fst x =? k then eadd Ops (csum k L) (snd x) else csum k L.
Proof.
  rewrite csum_app, csum_cons, csum_nil.
  destruct (fst x =? k); rewrite (add_0_r Ops Hm); reflexivity.
Qed.

Lemma csum_notin k L : ~ In k (map fst L) -> csum k L = zero.
Proof.
  induction L as [|x L IH]; intros H; [reflexivity|].
  rewrite csum_cons. cbn [map In] in H.
  destruct (N.eqb_spec (fst x) k); [tauto|]. apply IH. tauto.
Qed.

Lemma csum_flat_map {X} k (g : X -> list (N * E)) l :
  csum k (flat_map g l) = esum (map (fun x => csum k (g x)) l).
Proof.
  induction l as [|x l IH]; cbn [flat_map map]; [reflexivity|].
  rewrite csum_app, esum_cons, IH. reflexivity.
Qed.

(* ---------- lookup ---------- *)
Lemma lookup_nil c : lookup c [] = zero.
Proof. reflexivity. Qed.

Lemma lookup_notin c l : ~ In c (map fst l) -> lookup c l = zero.
Proof.
  induction l as [|x l IH]; intros H; [reflexivity|].
  rewrite lookup_cons. cbn [map In] in H.
  destruct (N.eqb_spec (fst x) c); [tauto|]. apply IH; tauto.
Qed.

(* a row scaled by v, summed at column k *)
Lemma csum_scaled k v (l : list (N * E)) : NoDup (map fst l) ->
  csum k (map (fun y => (fst y, emul Ops v (snd y))) l) = emul Ops v (lookup k l).
Proof.
  induction l as [|a l IH]; intros Hn.
  - cbn [map]. rewrite csum_nil, lookup_nil. symmetry. apply (mul_0_r Ops Hsr).
  - cbn [map] in *. inversion Hn as [|? ? Hni Hn']; subst.
    rewrite csum_cons, lookup_cons. cbn [fst snd].
    destruct (N.eqb_spec (fst a) k) as [Heq|Hne].
    + rewrite csum_notin; [apply (add_0_r Ops Hm)|].
      rewrite map_map. cbn [fst]. subst k. exact Hni.
    + apply IH; assumption.
Qed.

Lemma ssorted_nodup (l : list N) : StronglySorted N.lt l -> NoDup l.
Proof.
  induction 1 as [|a l Hs IH Hf]; constructor; [|assumption].
  intros Hin. rewrite Forall_forall in Hf. specialize (Hf a Hin). lia.
Qed.

(* a sum over the stored entries of a sorted row = the sum over all columns *)
Lemma esum_sorted_row (G : N -> E) : forall n a (l : list (N * E)),
  StronglySorted N.lt (map fst l) ->
  (forall x, In x l -> a <= fst x /\ fst x < a + N.of_nat n) ->
  esum (map (fun x => emul Ops (snd x) (G (fst x))) l) =
  esum (map (fun j => emul Ops (lookup j l) (G j)) (Nseq a n)).
Proof.
  induction n; intros a l Hs Hb.
  - destruct l as [|x l]; [reflexivity|]. specialize (Hb x (or_introl eq_refl)). lia.
  - cbn [Nseq map]. rewrite esum_cons.
    destruct l as [|x l].
    + rewrite lookup_nil, (mul_0_l Ops Hsr), add_0_l.
      apply (IHn (a + 1) []); [constructor|intros ? []].
    + cbn [map] in Hs. inversion Hs as [|? ? Hs' Hf]; subst. rewrite Forall_forall in Hf.
      rewrite lookup_cons.
      destruct (N.eqb_spec (fst x) a) as [Heq|Hne].
      * cbn [map]. rewrite esum_cons, Heq. f_equal.
        rewrite (IHn (a + 1) l Hs').
        -- f_equal. apply map_ext_in. intros j Hj. apply in_Nseq in Hj.
           rewrite lookup_cons. destruct (N.eqb_spec (fst x) j); [lia|reflexivity].
        -- intros y Hy. pose proof (Hb y (or_intror Hy)) as Hy'.
           specialize (Hf (fst y) (in_map fst _ _ Hy)). lia.
      * pose proof (Hb x (or_introl eq_refl)) as Hx.
        rewrite lookup_notin, (mul_0_l Ops Hsr), add_0_l.
        -- apply (IHn (a + 1) (x :: l)); [exact Hs|].
           intros y [<-|Hy]; [lia|]. pose proof (Hb y (or_intror Hy)).
           specialize (Hf (fst y) (in_map fst _ _ Hy)). lia.
        -- intros Hin. apply in_map_iff in Hin as (y & Hy1 & Hy2).
           specialize (Hf (fst y) (in_map fst _ _ Hy2)). lia.
Qed.

(* ---------- rows of a canonical matrix ---------- *)
Notation row_of := (row_of Ops).

Lemma row_of_fst (m : csr E) i :
  map fst (row_of m i) =
  map (fun t => nthN (cj m) t 0) (Nseq (pN m i) (N.to_nat (pN m (i + 1) - pN m i))).
Proof. unfold CsrSpec.row_of. rewrite map_map. reflexivity. Qed.

Lemma ssorted_map_Nseq (f : N -> N) : forall n a,
  (forall s t, a <= s -> s < t -> t < a + N.of_nat n -> f s < f t) ->
  StronglySorted N.lt (map f (Nseq a n)).
Proof.
  induction n; intros a H; cbn [Nseq map]; constructor.
  - apply IHn. intros s t ? ? ?. apply H; lia.
  - rewrite Forall_forall. intros y Hy. apply in_map_iff in Hy as (t & <- & Ht).
    apply in_Nseq in Ht. apply H; lia.
Qed.

Lemma row_of_sorted (m : csr E) i : row_sorted m i -> StronglySorted N.lt (map fst (row_of m i)).
Proof.
  intros Hs. rewrite row_of_fst. apply ssorted_map_Nseq.
  intros s t ? ? ?. apply Hs; lia.
Qed.

Lemma row_of_in (m : csr E) i x : In x (row_of m i) ->
  exists t, pN m i <= t /\ t < pN m (i + 1) /\ x = (nthN (cj m) t 0, nthN (cx m) t zero).
Proof.
  unfold CsrSpec.row_of. intros H. apply in_map_iff in H as (t & <- & Ht).
  apply in_Nseq in Ht. exists t. repeat split; lia.
Qed.

Lemma row_of_col_lt (m : csr E) i x : wf m -> cols_ok m -> i < crow m ->
  In x (row_of m i) -> fst x < ccol m.
Proof.
  intros Hwf Hc Hi Hx. apply row_of_in in Hx as (t & H1 & H2 & ->). cbn [fst].
  apply Hc. pose proof (pN_le_nnz m Hwf (i + 1) ltac:(lia)). lia.
Qed.

(* ---------- the items of row i of the product, in the order the loops visit them ---------- *)
Definition items_at (A B : csr E) (jj : N) : list (N * E) :=
  map (fun kk => (nthN (cj B) kk 0, emul Ops (nthN (cx A) jj zero) (nthN (cx B) kk zero)))
      (Nseq (pN B (nthN (cj A) jj 0))
            (N.to_nat (pN B (nthN (cj A) jj 0 + 1) - pN B (nthN (cj A) jj 0)))).

Definition items (A B : csr E) (i : N) : list (N * E) :=
  flat_map (items_at A B) (Nseq (pN A i) (N.to_nat (pN A (i + 1) - pN A i))).

Lemma items_rows (A B : csr E) i :
  items A B i =
  flat_map (fun x => map (fun y => (fst y, emul Ops (snd x) (snd y))) (row_of B (fst x))) (row_of A i).
Proof.
  unfold items, items_at, CsrSpec.row_of. rewrite flat_map_map.
  apply flat_map_ext. intros jj. cbn [fst snd]. rewrite map_map. reflexivity.
Qed.

Lemma items_col_lt (A B : csr E) i k : Inv A -> Inv B -> ccol A = crow B -> i < crow A ->
  In k (map fst (items A B i)) -> k < ccol B.
Proof.
  intros ((HwA & _) & HcA & _) ((HwB & _) & HcB & _) Hd Hi Hk.
  rewrite items_rows in Hk. apply in_flat_map_fst in Hk as (x & Hx & Hk).
  rewrite map_map in Hk. cbn [fst] in Hk. apply in_map_iff in Hk as (y & <- & Hy).
  apply (row_of_col_lt B (fst x)); try assumption.
  rewrite <- Hd. apply (row_of_col_lt A i); assumption.
Qed.

Theorem csum_items (A B : csr E) i k : Inv A -> Inv B -> ccol A = crow B -> i < crow A ->
  csum k (items A B i) =
  dsum Ops (ccol A) (fun j => emul Ops (entry Ops A i j) (entry Ops B j k)).
Proof.
  intros ((HwA & HsA) & HcA & _) ((HwB & HsB) & HcB & _) Hd Hi.
  rewrite items_rows, csum_flat_map.
  rewrite (map_ext_in _ (fun x => emul Ops (snd x) (entry Ops B (fst x) k))).
  - unfold CsrSpec.dsum, CsrSpec.entry.
    apply (esum_sorted_row (fun j => lookup k (row_of B j))).
    + apply row_of_sorted, HsA, Hi.
    + intros x Hx. pose proof (row_of_col_lt A i x HwA HcA Hi Hx). lia.
  - intros x Hx. apply csum_scaled. apply ssorted_nodup, row_of_sorted, HsB.
    rewrite <- Hd. apply (row_of_col_lt A i); assumption.
Qed.

End Alg.
