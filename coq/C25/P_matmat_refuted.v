(* C25 obligation: REFUTED: csr_matmat indexes temporaries of size A.col_ by columns of B (out of range when B is wider), and within the guard the product's rows are unsorted, so is_canonical fails and get() misses a stored entry. *)
From SE Require Import C25.CsrInst.
Local Open Scope N_scope.
Theorem C25_matmat_refuted :
  (exists A B : csr gi, Inv A /\ Inv B /\ ccol A = crow B /\ matmat gi_ops A B = ErrOOB 2 1) /\
  (exists A B C : csr gi, Inv A /\ Inv B /\ ccol A = crow B /\ ccol B <= ccol A /\
     matmat gi_ops A B = Ok C /\ ~ canon C /\ is_canonical C = Ok false /\
     entry gi_ops C 0 1 = g 6 /\ get gi_ops C 0 1 = Ok (g 0)).
Proof. exact (conj matmat_oob_refuted matmat_canonical_refuted). Qed.
Print Assumptions C25_matmat_refuted.
