(* C25 obligation: csr_diagonal when every diagonal position is stored: the diagonal of the dense matrix (guard: see the refutations). *)
From SE Require Import C25.CsrInst.
Local Open Scope N_scope.
Theorem C25_diagonal_guarded :
  forall (E : Type) (Ops : eops E) (A : csr E),
    Inv A -> diag_present A ->
    diagonal Ops A = Ok (map (fun i : N => entry Ops A i i) (Nseq 0 (N.to_nat (N.min (crow A) (ccol A))))).
Proof. exact @diagonal_guarded. Qed.
Print Assumptions C25_diagonal_guarded.
