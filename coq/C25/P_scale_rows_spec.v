(* C25 obligation: csr_scale_rows with non-zero factors: same pattern, canonical, every entry multiplied by its row's factor. *)
From SE Require Import C25.CsrInst.
Local Open Scope N_scope.
Theorem C25_scale_rows_spec :
  forall (E : Type) (Ops : eops E) (A : csr E) (X : list E),
    (forall a : E, emul Ops (ezero Ops) a = ezero Ops) ->
    Inv A -> lenN X = crow A ->
    (forall i : N, i < crow A -> eis_zero Ops (nthN X i (ezero Ops)) = false) ->
    exists R : csr E,
      scale_rows Ops A X = Ok R /\ Inv R /\ crow R = crow A /\ ccol R = ccol A /\ cp R = cp A /\ cj R = cj A /\
      (forall i c : N, i < crow A -> entry Ops R i c = emul Ops (entry Ops A i c) (nthN X i (ezero Ops))).
Proof. exact @scale_rows_spec. Qed.
Print Assumptions C25_scale_rows_spec.
