(* C25: the hypotheses of the theorems are met by concrete non-trivial inputs (Gaussian-integer
   entries), and the model computes the expected results on them (evaluated by the kernel). *)
From SE Require Import C25.CsrInst C25.CsrTranspose C25.CsrFromCoo.
Local Open Scope N_scope.

(* the element laws assumed by the theorems hold for the instance that is extracted and run *)
Example C25_gi_laws :
  zero_test_sound gi_ops /\ zero_is_zero gi_ops /\ conj_zero gi_ops /\ comm_monoid gi_ops /\ semiring gi_ops /\
  gi_add gi_zero gi_zero = gi_zero /\ gi_sub gi_zero gi_zero = gi_zero /\ gi_mul gi_zero gi_zero = gi_zero.
Proof.
  repeat split; try reflexivity;
    first [exact gi_zero_test_sound | apply gi_comm_monoid | apply gi_semiring].
Qed.
Print Assumptions C25_gi_laws.

(* the library's own 3 x 3 test matrix satisfies the invariant *)
Definition M3 : csr gi :=
  Build_csr [0; 2; 3; 6] [0; 2; 2; 0; 1; 2] [g 1; g 2; g 3; g 4; g 5; g 6] 3 3.
Example C25_Inv_M3 : Inv M3.
Proof. apply inv_b_sound. vm_compute. reflexivity. Qed.

(* a history with insertions at the front, in the middle and at the end of a row, a replacement,
   two deletions and reads: in range, and the model's outputs *)
Definition H1 : list (hop (E:=gi)) :=
  [HSet 1 1 (7, 1)%Z; HSet 0 1 (g 9); HGet 0 1; HSet 0 1 (g 0); HSet 2 2 (g 0); HSet 2 0 (g (-4)); HGet 2 2; HGet 1 1].
Example C25_history_example :
  Forall (hop_in_range (crow M3) (ccol M3)) H1 /\
  map (fun r => match r with Ok (HVal v) => Some v | _ => None end) (hrun gi_ops M3 H1)
    = [None; None; Some (g 9); None; None; None; Some (g 0); Some (7, 1)%Z] /\
  last (hrun gi_ops M3 H1) ErrFuel = Ok (HVal (7, 1)%Z) /\
  nth 5 (hrun gi_ops M3 H1) ErrFuel
    = Ok (HMat (Build_csr [0; 2; 4; 6] [0; 2; 1; 2; 0; 1] [g 1; g 2; (7, 1)%Z; g 3; g (-4); g 5] 3 3)).
Proof.
  split; [repeat constructor; vm_compute; reflexivity|]. vm_compute. repeat split; reflexivity.
Qed.
Print Assumptions C25_history_example.

(* from_coo: unsorted coordinates with duplicates (one pair cancels) *)
Example C25_from_coo_example :
  let is := [2; 0; 2; 0; 2; 0; 1] in let js := [1; 1; 1; 1; 0; 1; 2] in
  let xs := [g 2; g 1; g 4; g 3; g 5; g (-4); (0, 1)%Z] in
  length is = length xs /\ length js = length xs /\ Forall (fun i => i < 3) is /\ Forall (fun c => c < 3) js /\
  from_coo gi_ops 3 3 is js xs = Ok (Build_csr [0; 1; 2; 4] [1; 2; 0; 1] [g 0; (0, 1)%Z; g 5; g 6] 3 3).
Proof. cbv zeta. repeat split; try (repeat constructor; vm_compute; reflexivity). Qed.

(* binop / transpose / scaling / jacobian on concrete operands *)
Example C25_binop_example :
  Inv M3 /\ lenN (cp (mk_zero (E:=gi) 3 3)) = crow M3 + 1 /\
  binop gi_ops gi_sub M3 M3 (mk_zero 3 3) = Ok (mk_zero 3 3) /\
  binop gi_ops gi_add M3 M3 (mk_zero 3 3)
    = Ok (Build_csr [0; 2; 3; 6] [0; 2; 2; 0; 1; 2] [g 2; g 4; g 6; g 8; g 10; g 12] 3 3).
Proof. split; [exact C25_Inv_M3|]. vm_compute. repeat split; reflexivity. Qed.

Example C25_transpose_example :
  transpose gi_ops M3 false
    = Ok (Build_csr [0; 2; 3; 6] [0; 2; 2; 0; 1; 2] [g 1; g 4; g 5; g 2; g 3; g 6] 3 3).
Proof. vm_compute. reflexivity. Qed.

Example C25_scale_example :
  lenN [g 1; g (-1); g 3] = crow M3 /\
  (forall i, i < crow M3 -> eis_zero gi_ops (nthN [g 1; g (-1); g 3] i (ezero gi_ops)) = false) /\
  scale_rows gi_ops M3 [g 1; g (-1); g 3]
    = Ok (Build_csr [0; 2; 3; 6] [0; 2; 2; 0; 1; 2] [g 1; g 2; g (-3); g 12; g 15; g 18] 3 3).
Proof.
  split; [reflexivity|]. split; [|vm_compute; reflexivity].
  intros i Hi. change (crow M3) with 3 in Hi.
  assert (i = 0 \/ i = 1 \/ i = 2) as [->|[->| ->]] by lia; reflexivity.
Qed.

Example C25_jacobian_example :
  let d := [[g 1; g 0; g 2]; [g 0; g 0; (3, 1)%Z]] in
  (forall i, i < lenN d -> lenN (nthN d i []) = 3) /\
  jacobian gi_ops d 3 = Ok (Build_csr [0; 2; 3] [0; 2; 2] [g 1; g 2; (3, 1)%Z] 2 3).
Proof.
  cbv zeta. split; [|vm_compute; reflexivity].
  intros i Hi. change (lenN _) with 2 in Hi. assert (i = 0 \/ i = 1) as [->| ->] by lia; reflexivity.
Qed.

(* conjugate on a non-square matrix, csr_diagonal with empty rows and missing diagonal entries,
   csr_matmat with B wider than A: hypotheses of the (now unconditional) theorems, and results *)
Example C25_conjugate_diagonal_example :
  Inv W_conj /\ Inv W_diag2 /\
  conjugate gi_ops W_conj = Build_csr [0; 1] [1] [(1, -2)%Z] 1 2 /\
  diagonal gi_ops W_diag2 = Ok [g 0] /\ diagonal gi_ops M3 = Ok [g 1; g 0; g 6].
Proof.
  split; [apply inv_b_sound; vm_compute; reflexivity|].
  split; [apply inv_b_sound; vm_compute; reflexivity|].
  vm_compute. repeat split; reflexivity.
Qed.

Example C25_matmat_example :
  Inv W_mmA1 /\ Inv W_mmB1 /\ ccol W_mmA1 = crow W_mmB1 /\ crow W_mmA1 * ccol W_mmB1 < 2 ^ 31 /\
  matmat gi_ops W_mmA1 W_mmB1 = Ok (Build_csr [0; 2; 4] [0; 2; 0; 2] [g 3; g 4; g 6; g 8] 2 3) /\
  Inv W_mmA2 /\ Inv W_mmB2 /\
  matmat gi_ops W_mmA2 W_mmB2 = Ok (Build_csr [0; 2; 4] [0; 1; 0; 1] [g 5; g 6; g 5; g 5] 2 2).
Proof.
  split; [apply inv_b_sound; vm_compute; reflexivity|].
  split; [apply inv_b_sound; vm_compute; reflexivity|].
  split; [reflexivity|]. split; [vm_compute; reflexivity|]. split; [vm_compute; reflexivity|].
  split; [apply inv_b_sound; vm_compute; reflexivity|].
  split; [apply inv_b_sound; vm_compute; reflexivity|].
  vm_compute. reflexivity.
Qed.

(* is_canonical rejects non-monotone row pointers even when nothing is stored *)
Example C25_is_canonical_example :
  is_canonical M3 = Ok true /\ is_canonical W_canon = Ok false /\
  is_canonical (Build_csr [0; 2] [1; 1] [g 1; g 2] 1 2) = Ok false.
Proof. vm_compute. repeat split; reflexivity. Qed.
