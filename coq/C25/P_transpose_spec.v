(* C25 obligation: CSRMatrix::transpose(conjugate): canonical result of swapped shape whose entries are the (conjugated) transposed entries. *)
From SE Require Import C25.CsrTranspose.
Local Open Scope N_scope.
Theorem C25_transpose_spec :
  forall (E : Type) (Ops : eops E) (m : csr E) (cf : bool),
    conj_zero Ops -> Inv m ->
    exists t : csr E,
      transpose Ops m cf = Ok t /\ crow t = ccol m /\ ccol t = crow m /\ Inv t /\
      (forall i c : N, i < crow m -> c < ccol m ->
         entry Ops t c i = (if cf then econj Ops (entry Ops m i c) else entry Ops m i c)).
Proof. exact @transpose_spec. Qed.
Print Assumptions C25_transpose_spec.
