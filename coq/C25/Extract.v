(* Extraction of the C25 model (run from the output directory; not part of `make`). *)
From SE Require Import C25.CsrModel.
Require Import ExtrOcamlBasic.
Extraction "csr_model.ml" mk_zero is_canonical has_canonical_format has_sorted_indices
  has_duplicates get set hstep hrun sort_indices sum_duplicates from_coo transpose conjugate
  binop elementwise_mul matmat_pass1 matmat_pass2 matmat diagonal scale_rows scale_columns
  jacobian csr_eq not_implemented gi_ops gi_add gi_sub gi_mul.
