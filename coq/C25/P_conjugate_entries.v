(* C25 obligation: CSRMatrix::conjugate, any shape: the three arrays denote the conjugated entries (only the recorded dimensions are wrong). *)
From SE Require Import C25.CsrInst.
Local Open Scope N_scope.
Theorem C25_conjugate_entries :
  forall (E : Type) (Ops : eops E) (m : csr E) (i c : N),
    conj_zero Ops -> canon m -> i < crow m ->
    entry Ops (conjugate Ops m) i c = econj Ops (entry Ops m i c).
Proof. exact @conjugate_entries. Qed.
Print Assumptions C25_conjugate_entries.
