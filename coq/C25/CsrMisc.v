(* C25 -- proofs, part 5: csr_scale_rows, csr_scale_columns, CSRMatrix::conjugate, csr_diagonal. *)
From SE Require Export C25.CsrBinop.
Local Open Scope N_scope.
Local Open Scope res_scope.

Section Misc.
Context {E : Type}.
Variable Ops : eops E.
Notation mat := (csr E).
Notation entry := (entry Ops).
Notation Inv := (Inv (E:=E)).

(* a stored position belongs to exactly one row *)
Lemma row_unique (m : mat) i i' k : wf m -> i < crow m -> i' < crow m ->
  pN m i <= k -> k < pN m (i + 1) -> pN m i' <= k -> k < pN m (i' + 1) -> i' = i.
Proof.
  intros Hwf Hi Hi' K1 K2 K3 K4.
  destruct (N.lt_trichotomy i' i) as [Hlt|[Heq|Hgt]]; [|assumption|]; exfalso.
  - pose proof (pN_mono m Hwf i (i' + 1) ltac:(lia) ltac:(lia)). lia.
  - pose proof (pN_mono m Hwf i' (i + 1) ltac:(lia) ltac:(lia)). lia.
Qed.

(* replacing the values only: same pattern, hence same canonical format *)
Lemma same_pattern_Inv (m : mat) (xs : list E) : Inv m -> lenN xs = lenN (cx m) ->
  Inv (Build_csr (cp m) (cj m) xs (crow m) (ccol m)).
Proof.
  intros ((Hwf & Hs) & Hc & Hd) Hl. destruct Hwf as (W1 & W2 & W3 & W4 & W5).
  split; [split|split]; try assumption.
  unfold wf, pN in *; cbn [cp cj cx crow ccol]. repeat split; try assumption. lia.
Qed.

Lemma same_pattern_entry (m : mat) (xs : list E) (g : N -> E -> E) i c :
  wf m -> i < crow m -> row_sorted m i ->
  (forall k, pN m i <= k -> k < pN m (i + 1) -> nthN xs k (ezero Ops) = g (nthN (cj m) k 0) (nthN (cx m) k (ezero Ops))) ->
  g c (ezero Ops) = ezero Ops ->
  entry (Build_csr (cp m) (cj m) xs (crow m) (ccol m)) i c = g c (entry m i c).
Proof.
  intros Hwf Hi Hs Hx Hg.
  set (R := Build_csr (cp m) (cj m) xs (crow m) (ccol m)).
  destruct (entry_cases Ops m i c) as [(t & T1 & T2 & T3 & T4 & T5)|(T1 & T2)].
  - rewrite T5. rewrite (entry_hit Ops R i c t); try assumption.
    unfold R; cbn [cx]. rewrite Hx by assumption. rewrite T3. reflexivity.
  - rewrite T2, Hg. apply entry_miss. exact T1.
Qed.

(* ---------- csr_scale_rows ---------- *)
Theorem scale_rows_spec (A : mat) (X : list E) :
  (forall a, emul Ops (ezero Ops) a = ezero Ops) ->
  Inv A -> lenN X = crow A ->
  (forall i, i < crow A -> eis_zero Ops (nthN X i (ezero Ops)) = false) ->
  exists R, scale_rows Ops A X = Ok R /\ Inv R /\ crow R = crow A /\ ccol R = ccol A /\
    cp R = cp A /\ cj R = cj A /\
    forall i c, i < crow A -> entry R i c = emul Ops (entry A i c) (nthN X i (ezero Ops)).
Proof.
  intros Hm0 HA HX Hnz.
  destruct (Inv_facts A HA) as (WA & SA & CA & DA & A1 & A2 & LxA & LpA & PnA).
  unfold scale_rows.
  set (scaled := fun (i' k : N) => emul Ops (nthN (cx A) k (ezero Ops)) (nthN X i' (ezero Ops))).
  destruct (for_range_inv
    (fun i (xs : list E) => lenN xs = lenN (cx A) /\
       forall i' k, i' < crow A -> pN A i' <= k -> k < pN A (i' + 1) ->
         nthN xs k (ezero Ops) = if i' <? i then scaled i' k else nthN (cx A) k (ezero Ops))
    (fun i xs =>
      do s <- getN X i;
      if eis_zero Ops s then ErrExn EXN_SYMENGINE
      else
        do a <- getN (cp A) i;
        do b <- getN (cp A) (uadd i 1);
        for_range a b (fun jj xs => do v <- getN xs jj; setN xs jj (emul Ops v s)) xs)
    0 (crow A) (cx A)) as (xs & Hrun & Hl & Hv).
  - lia.
  - split; [reflexivity|]. intros i' k _ _ _. destruct (N.ltb_spec i' 0); [lia|reflexivity].
  - intros i xs I1 I2 (Ql & Qv).
    rewrite (getN_ok X i (ezero Ops)) by lia. cbn [bind]. rewrite Hnz by assumption.
    rewrite (getN_p A i WA) by lia. cbn [bind]. rewrite uadd_small by lia.
    rewrite (getN_p A (i + 1) WA) by lia. cbn [bind].
    pose proof (pN_le_nnz A WA (i + 1) ltac:(lia)).
    assert (pN A i <= pN A (i + 1)) by (apply WA; lia).
    destruct (for_range_inv
      (fun jj (ys : list E) => lenN ys = lenN (cx A) /\
         forall i' k, i' < crow A -> pN A i' <= k -> k < pN A (i' + 1) ->
           nthN ys k (ezero Ops) = if (i' <? i) || ((i' =? i) && (k <? jj)) then scaled i' k else nthN (cx A) k (ezero Ops))
      (fun jj ys => do v <- getN ys jj; setN ys jj (emul Ops v (nthN X i (ezero Ops))))
      (pN A i) (pN A (i + 1)) xs) as (ys & Hr2 & Hl2 & Hv2).
    + assumption.
    + split; [assumption|]. intros i' k H1 H2 H3. rewrite (Qv i' k H1 H2 H3).
      destruct (N.ltb_spec i' i); cbn [orb]; [reflexivity|].
      destruct (N.eqb_spec i' i) as [->|]; cbn [andb]; [|reflexivity].
      destruct (N.ltb_spec k (pN A i)); [lia|reflexivity].
    + intros jj ys J1 J2 (Rl & Rv).
      rewrite (getN_ok ys jj (ezero Ops)) by lia. cbn [bind]. rewrite setN_ok by lia.
      eexists; split; [reflexivity|]. split; [rewrite lenN_updn by lia; assumption|].
      intros i' k H1 H2 H3. rewrite nthN_updn by lia.
      destruct (N.eqb_spec k jj) as [->|Hne].
      * assert (i' = i) by (eapply row_unique; eauto). subst i'.
        rewrite (Rv i jj H1 H2 H3).
        destruct (N.ltb_spec i i); [lia|]. rewrite N.eqb_refl. cbn [orb andb].
        destruct (N.ltb_spec jj jj); [lia|]. destruct (N.ltb_spec jj (jj + 1)); [|lia]. reflexivity.
      * rewrite (Rv i' k H1 H2 H3).
        destruct (N.ltb_spec i' i); cbn [orb]; [reflexivity|].
        destruct (N.eqb_spec i' i); cbn [andb]; [|reflexivity].
        destruct (N.ltb_spec k jj), (N.ltb_spec k (jj + 1)); try lia; reflexivity.
    + exists ys. split; [exact Hr2|]. split; [assumption|].
      intros i' k H1 H2 H3. rewrite (Hv2 i' k H1 H2 H3).
      destruct (N.ltb_spec i' i), (N.ltb_spec i' (i + 1)); cbn [orb]; try lia; try reflexivity.
      destruct (N.eqb_spec i' i) as [->|]; cbn [andb]; [|lia].
      * destruct (N.ltb_spec k (pN A (i + 1))); [reflexivity|lia].
      * destruct (N.eqb_spec i' i); cbn [andb]; [lia|reflexivity].
  - rewrite Hrun. cbn [bind]. eexists; split; [reflexivity|].
    split; [apply same_pattern_Inv; assumption|].
    repeat split.
    intros i c Hi.
    rewrite (same_pattern_entry A xs (fun _ v => emul Ops v (nthN X i (ezero Ops))) i c WA Hi (SA i Hi)).
    + reflexivity.
    + intros k K1 K2. rewrite (Hv i k Hi K1 K2). destruct (N.ltb_spec i (crow A)); [reflexivity|lia].
    + apply Hm0.
Qed.

(* a zero scaling factor makes csr_scale_rows throw *)
Theorem scale_rows_zero (A : mat) (X : list E) i0 :
  Inv A -> lenN X = crow A -> i0 < crow A -> eis_zero Ops (nthN X i0 (ezero Ops)) = true ->
  (forall i, i < i0 -> eis_zero Ops (nthN X i (ezero Ops)) = false) ->
  scale_rows Ops A X = ErrExn EXN_SYMENGINE.
Proof.
  intros HA HX Hi0 Hz Hnz.
  destruct (Inv_facts A HA) as (WA & SA & CA & DA & A1 & A2 & LxA & LpA & PnA).
  unfold scale_rows, for_range.
  replace (N.to_nat (crow A - 0)) with (N.to_nat i0 + S (N.to_nat (crow A - i0 - 1)))%nat by lia.
  set (body := fun i xs =>
      do s <- getN X i;
      if eis_zero Ops s then ErrExn EXN_SYMENGINE
      else
        do a <- getN (cp A) i;
        do b <- getN (cp A) (uadd i 1);
        for_range a b (fun jj xs => do v <- getN xs jj; setN xs jj (emul Ops v s)) xs).
  assert (Hsplit : forall n1 n2 a (s : list E), for_n (n1 + n2) a body s = do s' <- for_n n1 a body s; for_n n2 (a + N.of_nat n1) body s').
  { induction n1; intros n2 a s; cbn [for_n Nat.add].
    - cbn [bind]. f_equal. lia.
    - destruct (body a s); cbn [bind]; try reflexivity. rewrite IHn1. f_equal.
      replace (a + 1 + N.of_nat n1) with (a + N.of_nat (S n1)) by lia. reflexivity. }
  rewrite Hsplit.
  (* the first i0 rows succeed *)
  destruct (for_n_inv (fun i (xs : list E) => lenN xs = lenN (cx A)) body (N.to_nat i0) 0 (cx A)) as (xs & Hr & Hl).
  - reflexivity.
  - intros i xs I1 I2 Ql. unfold body.
    rewrite (getN_ok X i (ezero Ops)) by lia. cbn [bind]. rewrite Hnz by lia.
    rewrite (getN_p A i WA) by lia. cbn [bind]. rewrite uadd_small by lia.
    rewrite (getN_p A (i + 1) WA) by lia. cbn [bind].
    pose proof (pN_le_nnz A WA (i + 1) ltac:(lia)).
    assert (pN A i <= pN A (i + 1)) by (apply WA; lia).
    destruct (for_range_inv (fun jj (ys : list E) => lenN ys = lenN (cx A))
      (fun jj ys => do v <- getN ys jj; setN ys jj (emul Ops v (nthN X i (ezero Ops))))
      (pN A i) (pN A (i + 1)) xs) as (ys & Hr2 & Hl2); try assumption.
    + intros jj ys J1 J2 Rl. rewrite (getN_ok ys jj (ezero Ops)) by lia. cbn [bind]. rewrite setN_ok by lia.
      eexists; split; [reflexivity|]. rewrite lenN_updn by lia. assumption.
    + exists ys. auto.
  - rewrite Hr. cbn [bind for_n]. replace (0 + N.of_nat (N.to_nat i0)) with i0 by lia.
    unfold body at 1. rewrite (getN_ok X i0 (ezero Ops)) by lia. cbn [bind]. rewrite Hz. reflexivity.
Qed.

(* ---------- csr_scale_columns ---------- *)
Theorem scale_columns_spec (A : mat) (X : list E) :
  (forall a, emul Ops (ezero Ops) a = ezero Ops) ->
  Inv A -> lenN X = ccol A ->
  (forall c, c < ccol A -> eis_zero Ops (nthN X c (ezero Ops)) = false) ->
  exists R, scale_columns Ops A X = Ok R /\ Inv R /\ crow R = crow A /\ ccol R = ccol A /\
    cp R = cp A /\ cj R = cj A /\
    forall i c, i < crow A -> entry R i c = emul Ops (entry A i c) (nthN X c (ezero Ops)).
Proof.
  intros Hm0 HA HX Hnz.
  destruct (Inv_facts A HA) as (WA & SA & CA & DA & A1 & A2 & LxA & LpA & PnA).
  unfold scale_columns.
  rewrite (getN_p A (crow A) WA) by lia. cbn [bind].
  destruct (for_range_inv (fun _ (_ : unit) => True)
    (fun i (u : unit) => do s <- getN X i; if eis_zero Ops s then ErrExn EXN_SYMENGINE else Ok tt)
    0 (ccol A) tt) as (u & Hu & _).
  - lia.
  - exact I.
  - intros c u C1 C2 _. rewrite (getN_ok X c (ezero Ops)) by lia. cbn [bind]. rewrite Hnz by assumption.
    exists tt. auto.
  - rewrite Hu. cbn [bind].
    destruct (for_range_inv
      (fun i (xs : list E) => lenN xs = lenN (cx A) /\
         forall k, nthN xs k (ezero Ops) =
           if k <? i then emul Ops (nthN (cx A) k (ezero Ops)) (nthN X (nthN (cj A) k 0) (ezero Ops))
           else nthN (cx A) k (ezero Ops))
      (fun i xs => do v <- getN xs i; do c <- getN (cj A) i; do s <- getN X c; setN xs i (emul Ops v s))
      0 (pN A (crow A)) (cx A)) as (xs & Hrun & Hl & Hv).
    + lia.
    + split; [reflexivity|]. intros k. destruct (N.ltb_spec k 0); [lia|reflexivity].
    + intros i xs I1 I2 (Ql & Qv).
      rewrite (getN_ok xs i (ezero Ops)) by lia. cbn [bind].
      rewrite (getN_ok (cj A) i 0) by lia. cbn [bind].
      rewrite (getN_ok X (nthN (cj A) i 0) (ezero Ops)) by (rewrite HX; apply CA; lia). cbn [bind].
      rewrite setN_ok by lia. eexists; split; [reflexivity|].
      split; [rewrite lenN_updn by lia; assumption|].
      intros k. rewrite nthN_updn by lia. rewrite !Qv.
      destruct (N.eqb_spec k i) as [->|].
      * destruct (N.ltb_spec i i); [lia|]. destruct (N.ltb_spec i (i + 1)); [reflexivity|lia].
      * destruct (N.ltb_spec k i), (N.ltb_spec k (i + 1)); try lia; reflexivity.
    + rewrite Hrun. cbn [bind]. eexists; split; [reflexivity|].
      split; [apply same_pattern_Inv; assumption|].
      repeat split.
      intros i c Hi.
      rewrite (same_pattern_entry A xs (fun c v => emul Ops v (nthN X c (ezero Ops))) i c WA Hi (SA i Hi)).
      * reflexivity.
      * intros k K1 K2. rewrite Hv. pose proof (pN_mono A WA (crow A) (i + 1) ltac:(lia) ltac:(lia)).
        destruct (N.ltb_spec k (pN A (crow A))); [reflexivity|lia].
      * apply Hm0.
Qed.

(* ---------- CSRMatrix::conjugate ---------- *)
Theorem conjugate_entries (m : mat) i c : conj_zero Ops -> canon m -> i < crow m ->
  entry (conjugate Ops m) i c = econj Ops (entry m i c).
Proof.
  intros Hc0 (Hwf & Hs) Hi.
  set (R := conjugate Ops m).
  assert (HP : forall t, pN R t = pN m t) by reflexivity.
  assert (HX : forall k, k < lenN (cx m) -> nthN (cx R) k (ezero Ops) = econj Ops (nthN (cx m) k (ezero Ops))).
  { intros k Hk. unfold R, conjugate; cbn [cx]. unfold nthN.
    rewrite (nth_indep _ (ezero Ops) (econj Ops (ezero Ops))) by (rewrite map_length; unfold lenN in Hk; lia).
    apply map_nth. }
  pose proof (pN_le_nnz m Hwf (i + 1) ltac:(lia)).
  assert (Lx : lenN (cx m) = lenN (cj m)) by apply Hwf.
  destruct (entry_cases Ops m i c) as [(t & T1 & T2 & T3 & T4 & T5)|(T1 & T2)].
  - rewrite T5. rewrite (entry_hit Ops R i c t); try assumption.
    + apply HX. lia.
    + exact (Hs i Hi).
  - rewrite T2, Hc0. apply entry_miss. exact T1.
Qed.

(* any shape: canonical, same dimensions, conjugated entries *)
Theorem conjugate_spec (m : mat) : conj_zero Ops -> Inv m ->
  Inv (conjugate Ops m) /\ crow (conjugate Ops m) = crow m /\ ccol (conjugate Ops m) = ccol m /\
  forall i c, i < crow m -> entry (conjugate Ops m) i c = econj Ops (entry m i c).
Proof.
  intros Hc0 HI. pose proof HI as ((Hwf & Hs) & Hc & Hd).
  split; [|split; [reflexivity|split; [reflexivity|]]].
  - destruct Hwf as (W1 & W2 & W3 & W4 & W5).
    unfold conjugate. split; [split|split].
    + unfold wf, pN in *; cbn [cp cj cx crow ccol]. repeat split; try assumption.
      rewrite lenN_map. assumption.
    + exact Hs.
    + exact Hc.
    + exact Hd.
  - intros i c Hi. apply conjugate_entries; [assumption|split; assumption|assumption].
Qed.

(* ---------- csr_diagonal ---------- *)
(* the repaired search is the binary search of CSRMatrix::get *)
Lemma diag_loop_get_loop (A : mat) i : forall fuel rs re,
  diag_loop Ops fuel A i rs re = get_loop Ops fuel (cj A) (cx A) i rs re.
Proof.
  induction fuel; intros rs re; [reflexivity|].
  cbn [diag_loop get_loop]. destruct (rs <? re); [|reflexivity].
  destruct (getN (cj A) (uadd rs re / 2)); cbn [bind]; try reflexivity.
  destruct (a =? i); [reflexivity|]. destruct (a <? i); apply IHfuel.
Qed.

Theorem diagonal_spec (A : mat) : Inv A ->
  diagonal Ops A = Ok (map (fun i => entry A i i) (Nseq 0 (N.to_nat (N.min (crow A) (ccol A))))).
Proof.
  intros HA.
  destruct (Inv_facts A HA) as (WA & SA & CA & DA & A1 & A2 & LxA & LpA & PnA).
  unfold diagonal.
  destruct (for_range_inv
    (fun i (acc : list E) => acc = rev (map (fun i => entry A i i) (Nseq 0 (N.to_nat i))))
    (fun i acc =>
      do rs <- getN (cp A) i;
      do re <- getN (cp A) (uadd i 1);
      do d <- diag_loop Ops (S (N.to_nat (re - rs))) A i rs re;
      Ok (d :: acc))
    0 (N.min (crow A) (ccol A)) []) as (acc & Hrun & Hacc).
  - lia.
  - reflexivity.
  - intros i acc I1 I2 ->.
    rewrite (getN_p A i WA) by lia. cbn [bind]. rewrite uadd_small by lia.
    rewrite (getN_p A (i + 1) WA) by lia. cbn [bind].
    rewrite diag_loop_get_loop.
    rewrite (get_loop_spec Ops A i i WA ltac:(lia) (SA i ltac:(lia)) A1) by (try lia; intros; lia).
    cbn [bind]. eexists; split; [reflexivity|].
    replace (N.to_nat (i + 1)) with (S (N.to_nat i)) by lia.
    rewrite Nseq_S, map_app, rev_app_distr. cbn [map rev app].
    replace (0 + N.of_nat (N.to_nat i)) with i by lia. reflexivity.
  - rewrite Hrun. cbn [bind]. rewrite Hacc, rev_involutive. reflexivity.
Qed.

End Misc.
