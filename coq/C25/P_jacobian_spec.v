(* C25 obligation: CSRMatrix::jacobian, given the table d of the derivatives exprs[i]->diff(x[c]): canonical matrix whose entries are the table's entries (zeros not stored). *)
From SE Require Import C25.CsrInst.
Local Open Scope N_scope.
Theorem C25_jacobian_spec :
  forall (E : Type) (Ops : eops E),
    zero_test_sound Ops ->
    forall (d : list (list E)) (ncols : N),
      lenN d < 2 ^ 31 -> ncols < 2 ^ 31 -> lenN d * ncols < 2 ^ 31 ->
      (forall i : N, i < lenN d -> lenN (nthN d i []) = ncols) ->
      exists R : csr E,
        jacobian Ops d ncols = Ok R /\ Inv R /\ crow R = lenN d /\ ccol R = ncols /\
        (forall i c : N, i < lenN d -> c < ncols -> entry Ops R i c = nthN (nthN d i []) c (ezero Ops)).
Proof. exact @jacobian_spec. Qed.
Print Assumptions C25_jacobian_spec.
