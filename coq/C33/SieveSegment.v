(* C33 -- one segment of the sieve and the loop over segments (mark_slices, collect, segment_body, seg_loop). *)
From SE Require Import C33.SieveSpec C33.SieveArith.
From Coq Require Import ZifyN ZifyBool Lia Sorted.
Local Open Scope N_scope.
Local Open Scope res_scope.

(* ---------- the first odd multiple of n above start ---------- *)
Definition first_mult (n start : N) : N :=
  let m0 := (start / n + 1) * n in if N.even m0 then m0 + n else m0.

Lemma first_mult_spec n start :
  n mod 2 = 1 ->
  let m := first_mult n start in
  m mod 2 = 1 /\ (n | m) /\ start < m /\ m <= start + 2 * n /\
  (start / n + 1) * n <= start + n /\
  forall y, y mod 2 = 1 -> (n | y) -> start < y -> m <= y.
Proof.
  intros Hn. assert (n <> 0) by lia.
  pose proof (N.div_mod start n H) as DM.
  pose proof (N.mod_lt start n H) as ML.
  set (q := start / n) in *. set (r := start mod n) in *.
  assert (M0 : forall y, (n | y) -> start < y -> (q + 1) * n <= y /\
                 (y <> (q + 1) * n -> (q + 1) * n + n <= y)).
  { intros y [k ->] Hy.
    assert (q < k).
    { destruct (N.lt_ge_cases q k); auto.
      assert (k * n <= q * n) by (apply N.mul_le_mono_r; auto). lia. }
    split.
    - apply N.mul_le_mono_r; lia.
    - intros Ne. assert (k <> q + 1) by (intros ->; auto).
      assert ((q + 2) * n <= k * n) by (apply N.mul_le_mono_r; lia). lia. }
  unfold first_mult. fold q.
  destruct (N.even ((q + 1) * n)) eqn:E.
  - apply even_true_mod in E. repeat split; try lia.
    + apply N.divide_add_r; [apply N.divide_factor_r | apply N.divide_refl].
    + intros y Hy D L. apply M0; auto. intros ->. lia.
  - apply even_false_mod in E. repeat split; try lia.
    + apply N.divide_factor_r.
    + intros y Hy D L. apply M0; auto.
Qed.

Lemma in_slice_char n start m finish i :
  n mod 2 = 1 -> start mod 2 = 0 -> m mod 2 = 1 -> (n | m) -> start < m -> m <= finish ->
  (forall y, y mod 2 = 1 -> (n | y) -> start < y -> m <= y) ->
  start + 2 * i + 1 <= finish ->
  (in_slice i ((m - start) / 2, 1 + (finish - m) / (2 * n), n) = true
   <-> (n | start + 2 * i + 1)).
Proof.
  intros Hn Hs Hm D L1 L2 Least Hx.
  assert (Hn0 : n <> 0) by lia.
  set (st := (m - start) / 2).
  assert (Hst : m = start + 2 * st + 1) by (unfold st; lia).
  unfold in_slice. rewrite !andb_true_iff. split.
  - intros [[A B] C].
    assert (Dk : (n | i - st)) by (apply mod0_divide; auto; lia).
    replace (start + 2 * i + 1) with (m + 2 * (i - st)) by lia.
    apply N.divide_add_r; auto. apply N.divide_mul_r; auto.
  - intros Dx.
    assert (Lx : m <= start + 2 * i + 1) by (apply Least; auto; lia).
    assert (Dk : (n | i - st)).
    { apply odd_coprime_half; auto.
      replace (2 * (i - st)) with (start + 2 * i + 1 - m) by lia.
      apply N.divide_sub_r; auto. }
    split; [split |].
    + lia.
    + apply N.eqb_eq. apply divide_mod0; auto.
    + destruct Dk as [k Hk]. rewrite Hk. rewrite N.div_mul by auto.
      assert (k <= (finish - m) / (2 * n)); [| lia].
      apply N.div_le_lower_bound; [lia |]. 
      replace (2 * n * k) with (2 * (k * n)) by lia. rewrite <- Hk. lia.
Qed.

Lemma slice_last_bound n start m finish seg :
  n <> 0 -> start mod 2 = 0 -> m mod 2 = 1 -> start < m -> m <= finish ->
  finish <= start + 2 * seg - 1 ->
  (m - start) / 2 + (finish - m) / (2 * n) * n < seg.
Proof.
  intros Hn Hs Hm L1 L2 L3.
  pose proof (N.mul_div_le (finish - m) (2 * n) ltac:(lia)) as Q.
  set (q := (finish - m) / (2 * n)) in *.
  replace (2 * n * q) with (2 * (q * n)) in Q by lia.
  set (qn := q * n) in *. lia.
Qed.

Lemma div_le_self a b : a / b <= a.
Proof.
  destruct (N.eq_dec b 0) as [-> | Hb]; [lia |].
  pose proof (N.mul_div_le a b Hb).
  assert (1 * (a / b) <= b * (a / b)) by (apply N.mul_le_mono_r; lia). lia.
Qed.

Lemma one_plus_eqb q : (1 + q =? 0) = false.
Proof. lia. Qed.
Lemma one_plus_sub q : 1 + q - 1 = q.
Proof. lia. Qed.

Definition the_slice (n start finish : N) : slice :=
  let m := first_mult n start in ((m - start) / 2, 1 + (finish - m) / (2 * n), n).

Lemma mark_slices_cons n rest start finish seg :
  n mod 2 = 1 -> n < 65536 -> start mod 2 = 0 -> start <= finish -> finish < 2147483648 ->
  finish <= start + 2 * seg - 1 ->
  mark_slices (n :: rest) start finish seg =
    if n * n <=? finish then
      if finish <? first_mult n start then mark_slices rest start finish seg
      else do more <- mark_slices rest start finish seg; Ok (the_slice n start finish :: more)
    else Ok [].
Proof.
  intros Hn Hn16 Hs L1 L2 L3.
  destruct (first_mult_spec n start Hn) as (M1 & M2 & M3 & M4 & M5 & M6).
  cbn [mark_slices].
  assert (n * n <= 65535 * 65535) by (apply N.mul_le_mono; lia).
  assert (n * n < W32) by (unfold W32; lia).
  rewrite (umul_small n n) by auto.
  destruct (n * n <=? finish) eqn:E1; [| reflexivity].
  pose proof (div_le_self start n).
  unfold the_slice, first_mult in *.
  set (q0 := start / n) in *. set (m0 := (q0 + 1) * n) in *.
  rewrite (uadd_small q0 1) by (unfold W32; lia).
  rewrite (umul_small (q0 + 1) n) by (fold m0; unfold W32; lia).
  fold m0.
  rewrite (uadd_small m0 n) by (unfold W32; lia).
  set (m := if N.even m0 then m0 + n else m0) in *.
  destruct (finish <? m) eqn:E2; [reflexivity |].
  rewrite (usub_small m start) by (unfold W32; lia).
  rewrite (usub_small finish m) by (unfold W32; lia).
  rewrite (umul_small 2 n) by (unfold W32; lia).
  pose proof (div_le_self (finish - m) (2 * n)).
  pose proof (slice_last_bound n start m finish seg ltac:(lia) Hs M1 M3 ltac:(lia) L3) as B.
  set (q := (finish - m) / (2 * n)) in *.
  rewrite (uadd_small 1 q) by (unfold W32; lia).
  unfold slice_last.
  rewrite one_plus_eqb, one_plus_sub.
  set (st := (m - start) / 2) in *. set (qn := q * n) in *.
  replace (st + qn <? seg) with true by lia.
  reflexivity.
Qed.

Lemma mark_slices_spec seg start finish :
  start mod 2 = 0 -> start <= finish -> finish < 2147483648 ->
  finish <= start + 2 * seg - 1 ->
  forall ps,
  StronglySorted N.lt ps ->
  (forall n, In n ps -> n mod 2 = 1 /\ 1 < n /\ n < start) ->
  (forall n, In n ps -> (forall n', In n' ps -> n' < n -> n' * n' <= finish) -> n < 65536) ->
  exists marks, mark_slices ps start finish seg = Ok marks /\
    forall i, start + 2 * i + 1 <= finish ->
      (existsb (in_slice i) marks = true <->
       exists n, In n ps /\ n * n <= finish /\ (n | start + 2 * i + 1)).
Proof.
  intros Hs L1 L2 L3.
  induction ps as [| n rest IH]; intros S Hps Hwrap.
  - exists []. split; [reflexivity |]. intros i Hi. cbn. split; [discriminate |].
    intros (n & [] & _).
  - destruct (Hps n (or_introl eq_refl)) as (Hn & Hn1 & Hn2).
    assert (Hn16 : n < 65536).
    { apply Hwrap; [left; auto |]. intros n' [<- | I] Hl; [lia |].
      pose proof (SS_lt_head _ _ _ S I). lia. }
    rewrite mark_slices_cons by auto.
    destruct (n * n <=? finish) eqn:E1.
    + destruct IH as (marks & Hm & Hmarks).
      * apply StronglySorted_inv in S; tauto.
      * intros; apply Hps; right; auto.
      * intros n2 I2 Hsm. apply Hwrap; [right; auto |].
        intros n' [<- | I'] Hl; [lia | apply Hsm; auto].
      * destruct (first_mult_spec n start Hn) as (M1 & M2 & M3 & M4 & M5 & M6).
        destruct (finish <? first_mult n start) eqn:E2.
        -- exists marks. split; auto. intros i Hi. rewrite (Hmarks i Hi). split.
           ++ intros (n' & I & Q & D). exists n'. split; [right |]; auto.
           ++ intros (n' & [<- | I] & Q & D).
              ** exfalso. assert (first_mult n start <= start + 2 * i + 1); [| lia].
                 apply M6; auto; lia.
              ** exists n'; auto.
        -- rewrite Hm. cbn [bind]. eexists. split; [reflexivity |].
           intros i Hi. cbn [existsb]. rewrite orb_true_iff.
           unfold the_slice.
           rewrite (in_slice_char n start (first_mult n start) finish i) by (auto; lia).
           rewrite (Hmarks i Hi). split.
           ++ intros [D | (n' & I & Q & D)].
              ** exists n. split; [left; auto | split; [lia | auto]].
              ** exists n'. split; [right |]; auto.
           ++ intros (n' & [<- | I] & Q & D); [left; auto | right; exists n'; auto].
    + exists []. split; [reflexivity |]. intros i Hi. cbn [existsb]. split; [discriminate |].
      intros (n' & [<- | I] & Q & D); [lia |].
      pose proof (SS_lt_head _ _ _ S I).
      assert (n * n <= n' * n') by (apply N.mul_le_mono; lia). lia.
Qed.

(* ---------- the collecting loop ---------- *)
Lemma collect_iter marks start finish seg :
  start <= finish -> finish < 2147483648 -> finish <= start + 2 * seg - 1 ->
  forall k, 2 * k <= finish - start + 1 ->
  exists acc,
    N.iter k (collect_step marks start finish seg) (Ok (start + 1, [])) =
      Ok (start + 1 + 2 * k, acc) /\
    StronglySorted (fun a b => b < a) acc /\
    forall x, In x acc <->
      exists i, i < k /\ x = start + 2 * i + 1 /\ existsb (in_slice i) marks = false.
Proof.
  intros L1 L2 L3. induction k as [| k IH] using N.peano_ind; intros Hk.
  - exists []. split; [cbn; f_equal; f_equal; lia |]. split; [constructor |].
    intros x; split; [intros [] | intros (i & Hi & _); lia].
  - destruct IH as (acc & E & S & M); [lia |].
    rewrite N.iter_succ, E. unfold collect_step. cbn [bind].
    replace (start + 1 + 2 * k <=? finish) with true by lia.
    rewrite (usub_small (start + 1 + 2 * k) start) by (unfold W32; lia).
    replace ((start + 1 + 2 * k - start) / 2) with k by lia.
    unfold is_prime_read. replace (k <? seg) with true by lia. cbn [bind].
    rewrite uadd_small by (unfold W32; lia).
    replace (start + 1 + 2 * k + 2) with (start + 1 + 2 * N.succ k) by lia.
    eexists. split; [reflexivity |].
    destruct (existsb (in_slice k) marks) eqn:Ex; cbn [negb].
    + split; auto. intros x. rewrite M. split.
      * intros (i & Hi & Hx & Hm). exists i. repeat split; auto; lia.
      * intros (i & Hi & Hx & Hm). exists i. repeat split; auto.
        destruct (N.eq_dec i k) as [-> | Ne]; [congruence | lia].
    + split.
      * constructor; auto. apply Forall_forall. intros y Hy. apply M in Hy.
        destruct Hy as (i & Hi & -> & _). lia.
      * intros x. cbn [In]. rewrite M. split.
        -- intros [<- | (i & Hi & Hx & Hm)].
           ++ exists k. repeat split; auto; lia.
           ++ exists i. repeat split; auto; lia.
        -- intros (i & Hi & Hx & Hm).
           destruct (N.eq_dec i k) as [-> | Ne]; [left; lia | right].
           exists i. repeat split; auto; lia.
Qed.

Lemma collect_spec marks start finish seg :
  start <= finish -> finish < 2147483648 -> finish <= start + 2 * seg - 1 ->
  exists news, collect marks start finish seg = Ok news /\
    StronglySorted N.lt news /\
    forall x, In x news <->
      exists i, x = start + 2 * i + 1 /\ x <= finish /\ existsb (in_slice i) marks = false.
Proof.
  intros L1 L2 L3. unfold collect.
  rewrite uadd_small by (unfold W32; lia).
  set (cnt := (finish - start + 1) / 2).
  destruct (collect_iter marks start finish seg L1 L2 L3 cnt) as (acc & E & S & M);
    [unfold cnt; lia |].
  rewrite E. cbn [bind].
  replace (start + 1 + 2 * cnt <=? finish) with false by (unfold cnt; lia).
  exists (rev acc). split; auto. split; [apply SS_rev; auto |].
  intros x. rewrite <- in_rev, M. split.
  - intros (i & Hi & Hx & Hm). exists i. repeat split; auto. unfold cnt in Hi. lia.
  - intros (i & Hx & Hf & Hm). exists i. repeat split; auto. unfold cnt. lia.
Qed.

(* ---------- one segment ---------- *)
Lemma segment_body_spec l start limit seg :
  primes_upto l (start - 1) ->
  (exists ps, l = 2 :: ps) ->
  start mod 2 = 0 -> 4 <= start -> start <= limit -> limit < 2147483648 ->
  0 < seg -> seg <= 268435456 ->
  (forall p, Nprime p -> p * p <= limit -> p < start) ->
  exists news, segment_body l start limit seg = Ok news /\
    StronglySorted N.lt news /\
    forall x, In x news <->
      (start - 1 < x /\ x <= N.min (start + 2 * seg - 1) limit /\ Nprime x).
Proof.
  intros [S H] [ps ->] Hs H4 L1 L2 Hseg1 Hseg2 Hsq.
  unfold segment_body.
  rewrite (umul_small seg 2) by (unfold W32; lia).
  rewrite (uadd_small start (seg * 2)) by (unfold W32; lia).
  rewrite (usub_small (start + seg * 2) 1) by (unfold W32; lia).
  replace (start + seg * 2 - 1) with (start + 2 * seg - 1) by lia.
  set (finish := N.min (start + 2 * seg - 1) limit).
  assert (F1 : start <= finish) by (unfold finish; lia).
  assert (F2 : finish < 2147483648) by (unfold finish; lia).
  assert (F3 : finish <= start + 2 * seg - 1) by (unfold finish; lia).
  assert (F4 : finish <= limit) by (unfold finish; lia).
  clearbody finish. cbn [tl].
  assert (Hps : forall n, In n ps -> Nprime n /\ n mod 2 = 1 /\ 2 < n /\ n < start).
  { intros n I. pose proof (SS_lt_head _ _ _ S I).
    destruct (proj1 (H n) (or_intror I)) as [P L].
    split; [auto | split; [apply prime_odd; auto | split; [auto | lia]]]. }
  destruct (mark_slices_spec seg start finish Hs F1 F2 F3 ps) as (marks & Em & Hmarks).
  - apply StronglySorted_inv in S; tauto.
  - intros n I. destruct (Hps n I) as (_ & ? & ? & ?). repeat split; auto; lia.
  - intros n I Hsm. destruct (N.lt_ge_cases n 65536) as [|G]; auto. exfalso.
    destruct (Hps n I) as (_ & _ & _ & Ln).
    assert (I' : In 46349 (2 :: ps)) by (apply H; split; [apply prime_46349 | lia]).
    destruct I' as [E | I']; [discriminate |].
    specialize (Hsm 46349 I' ltac:(lia)). lia.
  - rewrite Em. cbn [bind].
    destruct (collect_spec marks start finish seg F1 F2 F3) as (news & Ec & Sn & Hn).
    exists news. split; auto. split; auto.
    intros x. rewrite Hn. split.
    + intros (i & -> & Hf & Hm). split; [lia |]. split; auto.
      destruct (prime_or_factor (start + 2 * i + 1)) as [P | (p & Pp & D & Q)]; [lia | auto |].
      exfalso. assert (Ex : existsb (in_slice i) marks = true); [| congruence].
      apply Hmarks; auto. exists p. split; [| split; [lia | auto]].
      assert (I : In p (2 :: ps)).
      { apply H. split; auto. assert (p < start) by (apply Hsq; auto; lia). lia. }
      destruct I as [<- | I]; auto.
      exfalso. apply divide_mod0 in D; lia.
    + intros (Lx & Lf & P).
      assert (x <> start).
      { intros ->. apply (Nprime_no_divisor start 2 P); try lia.
        apply mod0_divide; lia. }
      assert (Ox : x mod 2 = 1) by (apply prime_odd; auto; lia).
      set (i := (x - start) / 2).
      assert (Hi : x = start + 2 * i + 1) by (unfold i; lia).
      clearbody i. subst x.
      exists i. split; auto. split; auto.
      destruct (existsb (in_slice i) marks) eqn:Ex; auto. exfalso.
      apply Hmarks in Ex; auto. destruct Ex as (n & I & Q & D).
      destruct (Hps n I) as (_ & _ & ? & ?).
      apply (Nprime_no_divisor _ n P D); lia.
Qed.

(* ---------- the vector ---------- *)
Lemma vec_push_nil v : vec_push_list v [] = v.
Proof. destruct v as [l]. unfold vec_push_list. cbn. rewrite app_nil_r. reflexivity. Qed.

Lemma vec_push_push v a b :
  vec_push_list (vec_push_list v a) b = vec_push_list v (a ++ b).
Proof. unfold vec_push_list. cbn. rewrite app_assoc. reflexivity. Qed.

Lemma live_push v a : live (vec_push_list v a) = live v ++ a.
Proof. reflexivity. Qed.

(* ---------- the loop over segments ---------- *)
Lemma seg_loop_spec v start limit seg :
  (exists ps, live v = 2 :: ps) -> primes_upto (live v) (start - 1) ->
  start mod 2 = 0 -> 4 <= start -> start <= limit -> limit < 2147483648 ->
  0 < seg -> seg <= 268435456 ->
  (forall p, Nprime p -> p * p <= limit -> p < start) ->
  exists news, seg_loop v start limit seg = Ok (vec_push_list v news) /\
               primes_upto (live v ++ news) limit.
Proof.
  intros [ps Hps] P0 Hs H4 L1 L2 Hseg1 Hseg2 Hsq.
  unfold seg_loop.
  set (q := (limit - start) / (2 * seg)).
  assert (Hq : 2 * seg * q <= limit - start) by (apply N.mul_div_le; lia).
  assert (Hq' : limit - start < 2 * seg * N.succ q) by (apply N.mul_succ_div_gt; lia).
  assert (It : forall k, k <= q + 1 ->
    exists news,
      N.iter k (seg_loop_step limit seg) (Ok (start, v)) =
        Ok (start + 2 * seg * k, vec_push_list v news) /\
      primes_upto (live v ++ news) (N.min (start + 2 * seg * k - 1) limit)).
  { induction k as [| k IH] using N.peano_ind; intros Hk.
    - exists []. rewrite vec_push_nil, app_nil_r. split.
      + cbn. f_equal. f_equal. lia.
      + replace (N.min (start + 2 * seg * 0 - 1) limit) with (start - 1) by lia. auto.
    - destruct IH as (news & E & P); [lia |].
      assert (2 * seg * k <= 2 * seg * q) by (apply N.mul_le_mono_l; lia).
      set (cur := start + 2 * seg * k) in *.
      assert (Hc : cur <= limit) by (unfold cur; lia).
      assert (Hc2 : cur mod 2 = 0).
      { unfold cur. replace (2 * seg * k) with (2 * (seg * k)) by lia.
        set (sk := seg * k). lia. }
      rewrite N.iter_succ, E. unfold seg_loop_step. cbn [bind].
      replace (cur <=? limit) with true by lia.
      rewrite live_push.
      assert (Hc0 : start <= cur) by (unfold cur; apply N.le_add_r).
      assert (A1 : primes_upto (live v ++ news) (cur - 1)).
      { replace (cur - 1) with (N.min (cur - 1) limit) by lia. auto. }
      assert (A2 : exists ps', live v ++ news = 2 :: ps').
      { exists (ps ++ news). rewrite Hps. reflexivity. }
      assert (A3 : 4 <= cur) by lia.
      assert (A4 : forall p, Nprime p -> p * p <= limit -> p < cur).
      { intros p Pp Q. specialize (Hsq p Pp Q). lia. }
      destruct (segment_body_spec _ cur limit seg A1 A2 Hc2 A3 Hc L2 Hseg1 Hseg2 A4)
        as (news2 & Eb & S2 & H2).
      rewrite Eb. cbn [bind].
      rewrite (umul_small 2 seg) by (unfold W32; lia).
      rewrite (uadd_small cur (2 * seg)) by (unfold W32; lia).
      rewrite vec_push_push. exists (news ++ news2). split.
      + f_equal. f_equal. unfold cur. lia.
      + rewrite app_assoc.
        replace (start + 2 * seg * N.succ k - 1) with (cur + 2 * seg - 1) by (unfold cur; lia).
        apply primes_upto_extend with (a := cur - 1); auto. lia. }
  destruct (It (q + 1) ltac:(lia)) as (news & E & P).
  rewrite E. cbn [bind].
  replace (start + 2 * seg * (q + 1) <=? limit) with false by lia.
  exists news. split; auto.
  replace (N.min (start + 2 * seg * (q + 1) - 1) limit) with limit in P by lia. auto.
Qed.
