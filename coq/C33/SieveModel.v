(* C33 -- executable model of symengine/prime_sieve.cpp (class Sieve).
   Transcription conventions: DESIGN.md appendix B.1.  The model is of the code
   that exists: 32-bit unsigned arithmetic wraps, the is_prime valarray has exactly
   [segment] entries and every access outside it is an observable [ErrOOB].

   The valarray is represented by the list of slice assignments made to it since
   it was filled with [true]:  is_prime[i] = false  iff  i lies in one of the
   slices (start, count, stride).  This is the meaning std::valarray gives to
   `is_prime[std::slice(s, c, d)] = false`.                                        *)
From SE Require Export Base.Prelude.
Local Open Scope N_scope.
Local Open Scope res_scope.

(* ---------- the static vector `primes` ---------- *)
Record vec := { live : list N }.

Definition first10 : list N := [2; 3; 5; 7; 11; 13; 17; 19; 23; 29].

Definition vec_back (v : vec) : N := last (live v) 0.
Definition vec_size (v : vec) : N := N.of_nat (length (live v)).
Definition vec_push_list (v : vec) (xs : list N) : vec := {| live := live v ++ xs |}.
(* _primes.erase(_primes.begin() + 10, _primes.end()) *)
Definition vec_clear (v : vec) : vec := {| live := firstn 10 (live v) |}.
(* _primes[i]; with the library's checked build an index >= size() aborts *)
Definition vec_get (v : vec) (i : N) : res N :=
  match nth_error (live v) (N.to_nat i) with
  | Some x => Ok x
  | None => ErrOOB i (vec_size v)
  end.

(* ---------- one segment ---------- *)
Definition slice := (N * N * N)%type.          (* start, count, stride *)

Definition in_slice (i : N) (s : slice) : bool :=
  let '(st, cnt, stride) := s in
  (st <=? i) && ((i - st) mod stride =? 0) && ((i - st) / stride <? cnt).

(* the largest index a slice touches, if it touches any *)
Definition slice_last (s : slice) : option N :=
  let '(st, cnt, stride) := s in
  if cnt =? 0 then None else Some (st + (cnt - 1) * stride).

(* for (index = 1; index < size and p*p <= finish; ++index) { ... }   over `ps` =
   _primes without its first element; returns the slices assigned [false]      *)
Fixpoint mark_slices (ps : list N) (start finish segment : N) : res (list slice) :=
  match ps with
  | [] => Ok []
  | n :: rest =>
      if umul n n <=? finish then
        let multiple0 := umul (uadd (start / n) 1) n in
        let multiple := if N.even multiple0 then uadd multiple0 n else multiple0 in
        if finish <? multiple then mark_slices rest start finish segment
        else
          let sl := (usub multiple start / 2,
                     uadd 1 (usub finish multiple / umul 2 n), n) in
          match slice_last sl with
          | Some l =>
              if l <? segment then
                do more <- mark_slices rest start finish segment; Ok (sl :: more)
              else ErrOOB l segment
          | None => mark_slices rest start finish segment
          end
      else Ok []
  end.

Definition is_prime_read (marks : list slice) (segment i : N) : res bool :=
  if i <? segment then Ok (negb (existsb (in_slice i) marks)) else ErrOOB i segment.

(* for (n = start + 1; n <= finish; n += 2) if (is_prime[(n - start) / 2]) push n
   [cnt] is the number of iterations; acc is reversed *)
Definition collect_step (marks : list slice) (start finish segment : N)
           (st : res (N * list N)) : res (N * list N) :=
  do '(n, acc) <- st;
  if n <=? finish then
    do b <- is_prime_read marks segment (usub n start / 2);
    Ok (uadd n 2, if b then n :: acc else acc)
  else Ok (n, acc).

Definition collect (marks : list slice) (start finish segment : N) : res (list N) :=
  let cnt := (finish - start + 1) / 2 in
  do '(n, acc) <- N.iter cnt (collect_step marks start finish segment)
                         (Ok (uadd start 1, []));
  if n <=? finish then ErrFuel else Ok (rev acc).

(* body of the segment loop: returns the primes found in (start, finish] *)
Definition segment_body (primes : list N) (start limit segment : N) : res (list N) :=
  let finish := N.min (usub (uadd start (umul segment 2)) 1) limit in
  do marks <- mark_slices (tl primes) start finish segment;
  collect marks start finish segment.

(* for (; start <= limit; start += 2 * segment) *)
Definition seg_loop_step (limit segment : N) (st : res (N * vec)) : res (N * vec) :=
  do '(start, v) <- st;
  if start <=? limit then
    do news <- segment_body (live v) start limit segment;
    Ok (uadd start (umul 2 segment), vec_push_list v news)
  else Ok (start, v).

Definition seg_loop (v : vec) (start limit segment : N) : res vec :=
  let iters := (limit - start) / (2 * segment) + 1 in
  do '(start', v') <- N.iter iters (seg_loop_step limit segment) (Ok (start, v));
  if start' <=? limit then ErrFuel else Ok v'.

(* Sieve::_extend.  The recursion on floor(sqrt(limit)) is on explicit fuel.
   std::floor(std::sqrt(double(limit))) is exact for 32-bit arguments = N.sqrt. *)
Fixpoint extend (fuel : nat) (segment : N) (v : vec) (limit : N) : res vec :=
  match fuel with
  | O => ErrFuel
  | S fuel' =>
      let sqrt_limit := N.sqrt limit in
      let start := uadd (vec_back v) 1 in
      if limit <=? start then Ok v
      else
        do v1 <- (if start <=? sqrt_limit then extend fuel' segment v sqrt_limit else Ok v);
        let start1 := uadd (vec_back v1) 1 in
        if segment =? 0 then ErrFuel   (* start += 0: the C++ loop never ends *)
        else seg_loop v1 start1 limit segment
  end.

Definition extend_fuel : nat := 8.   (* sqrt chain of a 32-bit number: < 6 steps *)

(* ---------- the whole class as a state machine ---------- *)
Record iter := { it_index : N; it_limit : N }.

Record state := {
  primes : vec;
  sieve_size : N;                      (* _sieve_size, in bits *)
  clear_flag : bool;                   (* _clear *)
  iters : list (N * iter)              (* live Sieve::iterator objects, by handle *)
}.

Definition init : state :=
  {| primes := {| live := first10 |};
     sieve_size := 262144; clear_flag := true; iters := [] |}.

Inductive op :=
| OGen (limit : N)                     (* Sieve::generate_primes(out, limit) *)
| OClear                               (* Sieve::clear() *)
| OSetSize (k : N)                     (* Sieve::set_sieve_size(k) *)
| OSetClear (b : bool)                 (* Sieve::set_clear(b) *)
| ONew (id limit : N)                  (* new Sieve::iterator(limit); limit 0 = unbounded *)
| ONext (id : N)                       (* it->next_prime() *)
| ODel (id : N).                       (* delete it *)

Inductive out :=
| OutPrimes (ps : list N)
| OutPrime (p : N)
| OutUnit.

Definition set_primes (s : state) (v : vec) : state :=
  {| primes := v; sieve_size := sieve_size s; clear_flag := clear_flag s; iters := iters s |}.

Definition do_clear (s : state) : state := set_primes s (vec_clear (primes s)).

Fixpoint find_iter (id : N) (l : list (N * iter)) : option iter :=
  match l with
  | [] => None
  | (k, it) :: r => if k =? id then Some it else find_iter id r
  end.

Fixpoint remove_iter (id : N) (l : list (N * iter)) : list (N * iter) :=
  match l with
  | [] => []
  | (k, it) :: r => if k =? id then r else (k, it) :: remove_iter id r
  end.

Definition set_iter (s : state) (id : N) (it : iter) : state :=
  {| primes := primes s; sieve_size := sieve_size s; clear_flag := clear_flag s;
     iters := (id, it) :: remove_iter id (iters s) |}.

(* std::upper_bound on the (sorted) vector, then copy of the prefix *)
Fixpoint take_le (limit : N) (l : list N) : list N :=
  match l with
  | [] => []
  | x :: r => if x <=? limit then x :: take_le limit r else []
  end.

(* while (_index >= _primes.size()) {
     extend_to = _primes.back() * 2;  if (_limit > 0 and _limit < extend_to) extend_to = _limit;
     _extend(extend_to);
     if (extend_to == _limit and _index >= _primes.size()) return _limit + 1;  }
   on explicit fuel: the vector's last element at least doubles per round *)
Fixpoint next_loop (fuel : nat) (segment : N) (v : vec) (it : iter) : res (vec * option N) :=
  match fuel with
  | O => ErrFuel
  | S fuel' =>
      if vec_size v <=? it_index it then
        let e0 := umul (vec_back v) 2 in
        let extend_to :=
          if (0 <? it_limit it) && (it_limit it <? e0) then it_limit it else e0 in
        do v1 <- extend extend_fuel segment v extend_to;
        if (extend_to =? it_limit it) && (vec_size v1 <=? it_index it)
        then Ok (v1, Some (uadd (it_limit it) 1))
        else next_loop fuel' segment v1 it
      else Ok (v, None)
  end.

Definition next_fuel : nat := 40.

Definition next_prime (s : state) (id : N) (it : iter) : res (state * out) :=
  do '(v, early) <- next_loop next_fuel (sieve_size s) (primes s) it;
  let s1 := set_primes s v in
  match early with
  | Some r => Ok (s1, OutPrime r)
  | None =>
      do p <- vec_get v (it_index it);
      Ok (set_iter s1 id {| it_index := it_index it + 1; it_limit := it_limit it |}, OutPrime p)
  end.

Definition step (s : state) (o : op) : res (state * out) :=
  match o with
  | OGen limit =>
      do v <- extend extend_fuel (sieve_size s) (primes s) limit;
      let s1 := set_primes s v in
      let outp := take_le limit (live v) in
      Ok (if clear_flag s then do_clear s1 else s1, OutPrimes outp)
  | OClear => Ok (do_clear s, OutUnit)
  | OSetSize k =>
      Ok ({| primes := primes s; sieve_size := umul (umul k 1024) 8;
             clear_flag := clear_flag s; iters := iters s |}, OutUnit)
  | OSetClear b =>
      Ok ({| primes := primes s; sieve_size := sieve_size s;
             clear_flag := b; iters := iters s |}, OutUnit)
  | ONew id limit =>
      Ok (set_iter s id {| it_index := 0; it_limit := limit |}, OutUnit)
  | ONext id =>
      match find_iter id (iters s) with
      | Some it => next_prime s id it
      | None => Ok (s, OutUnit)
      end
  | ODel id =>
      let s1 := {| primes := primes s; sieve_size := sieve_size s;
                   clear_flag := clear_flag s; iters := remove_iter id (iters s) |} in
      Ok (if clear_flag s then do_clear s1 else s1, OutUnit)
  end.

(* run a history, collecting the outputs; stops at the first error *)
Fixpoint run (s : state) (ops : list op) : list (res out) :=
  match ops with
  | [] => []
  | o :: rest =>
      match step s o with
      | Ok (s', x) => Ok x :: run s' rest
      | ErrOOB i l => [ErrOOB i l]
      | ErrFuel => [ErrFuel]
      | ErrExn c => [ErrExn c]
      end
  end.
