(* C33 -- arithmetic, primality and sorted-list facts used by SieveProofs.v.
   Nothing here depends on the shape of the [vec] record. *)
From SE Require Import C33.SieveSpec.
From Coq Require Import ZifyN ZifyBool Lia Sorted.
Local Open Scope N_scope.

(* ---------- 32-bit operations that do not wrap ---------- *)
Lemma uadd_small a b : a + b < W32 -> uadd a b = a + b.
Proof. intros; unfold uadd; apply N.mod_small; auto. Qed.
Lemma umul_small a b : a * b < W32 -> umul a b = a * b.
Proof. intros; unfold umul; apply N.mod_small; auto. Qed.
Lemma usub_small a b : b <= a -> a < W32 -> usub a b = a - b.
Proof. unfold usub, W32. intros. lia. Qed.

Lemma even_true_mod a : N.even a = true -> a mod 2 = 0.
Proof. intros H. apply N.even_spec in H. destruct H as [k ->]. lia. Qed.
Lemma even_false_mod a : N.even a = false -> a mod 2 = 1.
Proof.
  intros H. assert (O : N.odd a = true) by (unfold N.odd; rewrite H; reflexivity).
  apply N.odd_spec in O. destruct O as [k ->]. lia.
Qed.

(* ---------- divisibility and primes ---------- *)
Lemma divide_mod0 n d : d <> 0 -> (d | n) -> n mod d = 0.
Proof. intros; apply N.mod_divide; auto. Qed.
Lemma mod0_divide n d : d <> 0 -> n mod d = 0 -> (d | n).
Proof. intros; apply N.mod_divide; auto. Qed.

Lemma Nprime_no_divisor n d : Nprime n -> (d | n) -> 1 < d -> d < n -> False.
Proof. intros [_ H] D H1 H2. apply (H d H1 H2). apply divide_mod0; [lia|auto]. Qed.

Lemma least_divisor n : 1 < n ->
  exists d, 1 < d /\ d <= n /\ (d | n) /\ forall e, 1 < e -> e < d -> ~ (e | n).
Proof.
  intros Hn.
  assert (K : forall k,
             (exists d, 1 < d /\ d <= k /\ (d | n) /\ forall e, 1 < e -> e < d -> ~ (e | n))
             \/ (forall e, 1 < e -> e <= k -> ~ (e | n))).
  { induction k using N.peano_ind.
    - right; intros; lia.
    - destruct IHk as [(d & H1 & H2 & H3 & H4) | No].
      + left; exists d; repeat split; auto; lia.
      + destruct (N.eq_dec (n mod N.succ k) 0) as [E | E].
        * destruct (N.le_gt_cases (N.succ k) 1) as [L | L].
          -- right; intros; lia.
          -- left; exists (N.succ k); repeat split; auto; try lia.
             ++ apply mod0_divide; [lia | auto].
             ++ intros e He1 He2; apply No; lia.
        * right; intros e He1 He2.
          destruct (N.eq_dec e (N.succ k)) as [-> | Ne].
          -- intros D; apply E; apply divide_mod0; [lia | auto].
          -- apply No; lia. }
  destruct (K n) as [(d & H1 & H2 & H3 & H4) | No].
  - exists d; auto.
  - exfalso; apply (No n Hn (N.le_refl n)); apply N.divide_refl.
Qed.

Lemma prime_or_factor n : 1 < n ->
  Nprime n \/ exists p, Nprime p /\ (p | n) /\ p * p <= n.
Proof.
  intros Hn. destruct (least_divisor n Hn) as (d & H1 & H2 & H3 & H4).
  assert (Pd : Nprime d).
  { split; auto. intros e He1 He2 M. apply (H4 e He1 He2).
    apply N.divide_trans with d; auto. apply mod0_divide; [lia | auto]. }
  destruct (N.eq_dec d n) as [-> | Ne]; [left; auto | right].
  exists d; split; [exact Pd | split; [exact H3 |]].
  destruct H3 as [k Hk].
  assert (Hk1 : 1 < k).
  { destruct (N.le_gt_cases k 1) as [L | L]; auto.
    assert (k = 0 \/ k = 1) as [-> | ->] by lia; lia. }
  destruct (N.le_gt_cases d k) as [L | L].
  - rewrite Hk. apply N.mul_le_mono_r; auto.
  - exfalso. apply (H4 k Hk1 L). exists d. rewrite Hk. apply N.mul_comm.
Qed.

(* trial division, sound for primality *)
Fixpoint trial (fuel : nat) (d n : N) : bool :=
  match fuel with
  | O => false
  | S f => if n <? d * d then true
           else if n mod d =? 0 then false else trial f (d + 1) n
  end.

Definition is_prime (n : N) : bool :=
  (1 <? n) && trial (S (N.to_nat (N.sqrt n))) 2 n.

Lemma trial_sound fuel : forall d n, 1 < d -> trial fuel d n = true ->
  (forall e, 1 < e -> e < d -> n mod e <> 0) ->
  forall e, 1 < e -> e < n -> n mod e <> 0.
Proof.
  induction fuel as [| f IH]; intros d n Hd T Hsmall; [discriminate |].
  cbn [trial] in T.
  destruct (n <? d * d) eqn:E1.
  - intros e He1 He2 M.
    destruct (N.lt_ge_cases e d) as [L | L]; [apply (Hsmall e He1 L M) |].
    apply mod0_divide in M; [| lia]. destruct M as [k Hk].
    assert (Hk1 : 1 < k).
    { destruct (N.le_gt_cases k 1) as [L1 | L1]; auto.
      assert (k = 0 \/ k = 1) as [-> | ->] by lia; lia. }
    assert (Hkd : k < d).
    { destruct (N.lt_ge_cases k d) as [L2 | L2]; auto.
      assert (d * d <= k * e) by (apply N.mul_le_mono; auto). lia. }
    apply (Hsmall k Hk1 Hkd). apply divide_mod0; [lia |].
    exists e. rewrite Hk. apply N.mul_comm.
  - destruct (n mod d =? 0) eqn:E2; [discriminate |].
    apply (IH (d + 1) n); auto; [lia |].
    intros e He1 He2. destruct (N.eq_dec e d) as [-> | Ne]; [lia |].
    apply Hsmall; lia.
Qed.

Lemma is_prime_sound n : is_prime n = true -> Nprime n.
Proof.
  unfold is_prime. intros H. apply andb_true_iff in H. destruct H as [H1 H2].
  split; [lia |].
  refine (trial_sound _ 2 n _ H2 _); [lia | intros; lia].
Qed.

(* a prime whose square exceeds 2^31 while staying below 2^32 *)
Lemma prime_46349 : Nprime 46349.
Proof. apply is_prime_sound. vm_compute. reflexivity. Qed.

Lemma prime_odd p : Nprime p -> 2 < p -> p mod 2 = 1.
Proof. intros [_ H] H2. specialize (H 2). lia. Qed.

Lemma odd_coprime_half n t : n mod 2 = 1 -> (n | 2 * t) -> (n | t).
Proof.
  intros Hn D.
  assert (G : N.gcd n 2 = 1).
  { pose proof (N.gcd_divide_l n 2) as Gl. pose proof (N.gcd_divide_r n 2) as Gr.
    set (g := N.gcd n 2) in *.
    assert (g <= 2) by (apply N.divide_pos_le; [lia | auto]).
    assert (g = 0 \/ g = 1 \/ g = 2) as [-> | [-> | ->]] by lia; auto.
    - destruct Gr as [k Hk]. lia.
    - apply divide_mod0 in Gl; lia. }
  apply N.gauss with 2; auto.
Qed.

(* ---------- sorted lists ---------- *)
Section SortedFacts.
  Context {A : Type} (R : A -> A -> Prop).

  Lemma SS_app l1 l2 :
    StronglySorted R l1 -> StronglySorted R l2 ->
    (forall x y, In x l1 -> In y l2 -> R x y) ->
    StronglySorted R (l1 ++ l2).
  Proof.
    induction l1 as [| a l1 IH]; intros S1 S2 H; [exact S2 |].
    apply StronglySorted_inv in S1. destruct S1 as [S1 F1].
    cbn [app]. constructor.
    - apply IH; auto. intros; apply H; [right |]; auto.
    - apply Forall_app; split; auto.
      apply Forall_forall. intros y Hy. apply H; [left |]; auto.
  Qed.

  Lemma SS_rev l :
    StronglySorted (fun a b => R b a) l -> StronglySorted R (rev l).
  Proof.
    induction l as [| a l IH]; intros S; [constructor |].
    apply StronglySorted_inv in S. destruct S as [S F].
    cbn [rev]. apply SS_app; auto.
    - repeat constructor.
    - intros x y Hx [<- | []]. apply in_rev in Hx.
      rewrite Forall_forall in F. apply F; auto.
  Qed.
End SortedFacts.

Lemma SS_lt_head a l x : StronglySorted N.lt (a :: l) -> In x l -> a < x.
Proof.
  intros S Hx. apply StronglySorted_inv in S. destruct S as [_ F].
  rewrite Forall_forall in F; auto.
Qed.

Lemma sorted_ext_eq : forall l1 l2,
  StronglySorted N.lt l1 -> StronglySorted N.lt l2 ->
  (forall x, In x l1 <-> In x l2) -> l1 = l2.
Proof.
  induction l1 as [| a l1 IH]; intros [| b l2] S1 S2 H; auto.
  - exfalso; apply (proj2 (H b)); left; auto.
  - exfalso; apply (proj1 (H a)); left; auto.
  - assert (a = b).
    { destruct (proj1 (H a) (or_introl eq_refl)) as [E | I1]; auto.
      destruct (proj2 (H b) (or_introl eq_refl)) as [E | I2]; auto.
      pose proof (SS_lt_head _ _ _ S2 I1). pose proof (SS_lt_head _ _ _ S1 I2). lia. }
    subst b. f_equal. apply IH.
    + apply StronglySorted_inv in S1; tauto.
    + apply StronglySorted_inv in S2; tauto.
    + intros x; split; intros I.
      * destruct (proj1 (H x) (or_intror I)) as [E | I']; auto.
        pose proof (SS_lt_head _ _ _ S1 I). lia.
      * destruct (proj2 (H x) (or_intror I)) as [E | I']; auto.
        pose proof (SS_lt_head _ _ _ S2 I). lia.
Qed.

Lemma last_in (l : list N) d : l <> [] -> In (last l d) l.
Proof.
  induction l as [| a l IH]; intros H; [congruence |].
  destruct l as [| b l]; [left; auto |].
  right. apply IH. discriminate.
Qed.

Lemma sorted_last_max l x : StronglySorted N.lt l -> In x l -> x <= last l 0.
Proof.
  induction l as [| a l IH]; intros S I; [destruct I |].
  destruct l as [| b l].
  - destruct I as [<- | []]. cbn. lia.
  - assert (S' : StronglySorted N.lt (b :: l)) by (apply StronglySorted_inv in S; tauto).
    change (last (a :: b :: l) 0) with (last (b :: l) 0).
    destruct I as [<- | I]; [| apply IH; auto].
    assert (In (last (b :: l) 0) (b :: l)) by (apply last_in; discriminate).
    pose proof (SS_lt_head _ _ _ S H). lia.
Qed.

(* ---------- take_le ---------- *)
Lemma take_le_incl m l x : In x (take_le m l) -> In x l /\ x <= m.
Proof.
  induction l as [| a l IH]; cbn [take_le]; [intros [] |].
  destruct (a <=? m) eqn:E; [| intros []].
  intros [<- | I]; [split; [left; auto | lia] |].
  destruct (IH I); split; auto. right; auto.
Qed.

Lemma take_le_sorted m l : StronglySorted N.lt l -> StronglySorted N.lt (take_le m l).
Proof.
  induction l as [| a l IH]; intros S; cbn [take_le]; [constructor |].
  destruct (a <=? m); [| constructor].
  pose proof S as S0. apply StronglySorted_inv in S. destruct S as [S F]. constructor; auto.
  apply Forall_forall. intros x I. apply take_le_incl in I. destruct I as [I _].
  apply (SS_lt_head _ _ _ S0 I).
Qed.

Lemma take_le_complete m l x :
  StronglySorted N.lt l -> In x l -> x <= m -> In x (take_le m l).
Proof.
  induction l as [| a l IH]; intros S I Hx; [destruct I |].
  cbn [take_le]. destruct (a <=? m) eqn:E.
  - destruct I as [<- | I]; [left; auto | right].
    apply IH; auto. apply StronglySorted_inv in S; tauto.
  - destruct I as [<- | I]; [lia |]. pose proof (SS_lt_head _ _ _ S I). lia.
Qed.

(* ---------- primes_upto ---------- *)
Lemma primes_upto_unique l1 l2 m : primes_upto l1 m -> primes_upto l2 m -> l1 = l2.
Proof.
  intros [S1 H1] [S2 H2]. apply sorted_ext_eq; auto.
  intros x. rewrite H1, H2. tauto.
Qed.

Lemma primes_upto_take l m m' : primes_upto l m' -> m <= m' -> primes_upto (take_le m l) m.
Proof.
  intros [S H] Hm. split; [apply take_le_sorted; auto |].
  intros p; split.
  - intros I. apply take_le_incl in I. destruct I as [I L]. apply H in I. tauto.
  - intros [P L]. apply take_le_complete; auto. apply H. split; auto. lia.
Qed.

Lemma primes_upto_last l m : primes_upto l m -> l <> [] -> primes_upto l (last l 0).
Proof.
  intros [S H] Hl. split; auto. intros p; split.
  - intros I. split; [apply H; auto | apply sorted_last_max; auto].
  - intros [P L]. apply H. split; auto.
    assert (In (last l 0) l) by (apply last_in; auto).
    apply H in H0. lia.
Qed.

Lemma primes_upto_weaken l a b :
  primes_upto l a -> a <= b -> (forall x, a < x -> x <= b -> ~ Nprime x) -> primes_upto l b.
Proof.
  intros [S H] Hab No. split; auto. intros p; split.
  - intros I. apply H in I. split; [tauto | lia].
  - intros [P L]. apply H. split; auto.
    destruct (N.le_gt_cases p a); auto. exfalso. apply (No p); auto.
Qed.

Lemma primes_upto_extend l a b news :
  primes_upto l a -> StronglySorted N.lt news ->
  (forall x, In x news <-> (a < x /\ x <= b /\ Nprime x)) -> a <= b ->
  primes_upto (l ++ news) b.
Proof.
  intros [S H] Sn Hn Hab. split.
  - apply SS_app; auto. intros x y Ix Iy. apply H in Ix. apply Hn in Iy. lia.
  - intros p. rewrite in_app_iff, H, Hn. split.
    + intros [[P L] | (L1 & L2 & P)]; split; auto; lia.
    + intros [P L]. destruct (N.le_gt_cases p a); [left | right]; auto.
Qed.

(* ---------- the ten initial primes ---------- *)
Lemma first10_sorted : StronglySorted N.lt first10.
Proof. unfold first10. repeat constructor. Qed.

Lemma primes_upto_first10 : primes_upto first10 29.
Proof.
  split; [apply first10_sorted |]. intros p; split.
  - intros I. unfold first10 in I. cbn [In] in I.
    repeat (destruct I as [<- | I];
            [split; [apply is_prime_sound; vm_compute; reflexivity | lia] |]).
    destruct I.
  - intros [[H1 H] L].
    pose proof (H 2). pose proof (H 3). pose proof (H 5).
    unfold first10. cbn [In]. lia.
Qed.

(* ---------- two lists of primes: one is a prefix of the other ---------- *)
Lemma take_le_prefix m l : exists c, l = take_le m l ++ c.
Proof.
  induction l as [| a l [c IH]]; cbn [take_le]; [exists []; reflexivity |].
  destruct (a <=? m); [| exists (a :: l); reflexivity].
  exists c. cbn [app]. f_equal. exact IH.
Qed.

Lemma SS_app_lt l1 l2 x y :
  StronglySorted N.lt (l1 ++ l2) -> In x l1 -> In y l2 -> x < y.
Proof.
  induction l1 as [| a l1 IH]; intros S Ix Iy; [destruct Ix |].
  cbn [app] in S. destruct Ix as [<- | Ix].
  - apply (SS_lt_head _ _ _ S). apply in_or_app. right; auto.
  - apply IH; auto. apply StronglySorted_inv in S; tauto.
Qed.

Lemma primes_upto_prefix l1 l2 m1 m2 :
  primes_upto l1 m1 -> primes_upto l2 m2 -> m1 <= m2 ->
  exists c, l2 = l1 ++ c /\ forall y, In y c -> m1 < y.
Proof.
  intros P1 P2 L.
  pose proof (primes_upto_take l2 m1 m2 P2 L) as P1'.
  destruct (take_le_prefix m1 l2) as [c Hc].
  rewrite <- (primes_upto_unique _ _ _ P1 P1') in Hc.
  exists c. split; auto. intros y Iy.
  destruct (N.lt_ge_cases m1 y) as [| G]; auto. exfalso.
  destruct P2 as [S2 H2]. destruct P1 as [S1 H1].
  assert (I1 : In y l1).
  { apply H1. split; auto. apply H2. rewrite Hc. apply in_or_app. right; auto. }
  rewrite Hc in S2. pose proof (SS_app_lt _ _ _ _ S2 I1 Iy). lia.
Qed.

Lemma primes_upto_exists m : exists l, primes_upto l m.
Proof.
  induction m as [| m [l IH]] using N.peano_ind.
  - exists []. split; [constructor |]. intros p; split; [intros [] |].
    intros [[H _] L]. lia.
  - assert (D : Nprime (N.succ m) \/ ~ Nprime (N.succ m)).
    { destruct (N.le_gt_cases (N.succ m) 1) as [L | L].
      - right. intros [H _]. lia.
      - destruct (prime_or_factor _ L) as [P | (p & Pp & D & Q)]; [left; auto | right].
        intros P. destruct Pp as [Hp1 Hp2].
        assert (2 * p <= p * p) by (apply N.mul_le_mono_r; lia).
        apply (Nprime_no_divisor _ p P D); lia. }
    destruct D as [P | NP].
    + exists (l ++ [N.succ m]). apply primes_upto_extend with (a := m); auto; [| | lia].
      * repeat constructor.
      * intros x; split.
        -- intros [<- | []]. split; [lia | split; [lia | auto]].
        -- intros (L1 & L2 & _). left. lia.
    + exists l. apply primes_upto_weaken with (a := m); auto; [lia |].
      intros x L1 L2. assert (x = N.succ m) by lia. subst x. auto.
Qed.
