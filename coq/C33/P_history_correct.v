(* C33 obligation: after ANY history of generate_primes / clear / set_sieve_size /
   set_clear calls (limits < 2^31, sieve sizes 1..2^15 KB), every call succeeds (no
   out-of-range array access, termination) and generate_primes returns exactly the primes
   up to its limit in increasing order. *)
From SE Require Import C33.SieveSpec C33.SieveProofs.
Theorem C33_history_correct :
  forall ops : list op, Forall op_ok_gen ops -> run_ok init ops.
Proof. exact history_correct. Qed.
Print Assumptions C33_history_correct.
