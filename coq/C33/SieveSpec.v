(* C33 -- specification side: what "exactly the primes up to the limit, in increasing
   order" means, and the well-formedness conditions on histories under which the
   theorems are stated (32-bit arithmetic must not wrap: limits below 2^31, sieve
   sizes between 1 and 2^15 kilobytes). *)
From SE Require Export C33.SieveModel.
From Coq Require Import Sorted.
Local Open Scope N_scope.

Definition Nprime (n : N) : Prop :=
  1 < n /\ forall d, 1 < d -> d < n -> n mod d <> 0.

(* l is the increasing list of all primes <= m *)
Definition primes_upto (l : list N) (m : N) : Prop :=
  StronglySorted N.lt l /\ forall p, In p l <-> (Nprime p /\ p <= m).

(* the vector holds all primes up to its last element, at least the ten initial ones;
   its entries are 32-bit values (std::vector<unsigned>): without this bound
   `_primes.back() + 1` wraps and _extend re-sieves from a small start *)
Definition vec_inv (v : vec) : Prop :=
  firstn 10 (live v) = first10 /\
  primes_upto (live v) (vec_back v) /\
  vec_back v < W32.

Definition LIMIT_MAX : N := 2147483648.      (* 2^31 *)
Definition SIZE_MAX : N := 32768.            (* kilobytes: segment <= 2^28 bits *)

Definition seg_ok (segment : N) : Prop := 0 < segment /\ segment <= 268435456.

Definition op_ok (o : op) : Prop :=
  match o with
  | OGen limit => limit < LIMIT_MAX
  | OSetSize k => 1 <= k /\ k <= SIZE_MAX
  | ONew _ limit => 0 < limit /\ limit < LIMIT_MAX     (* bounded iterators *)
  | _ => True
  end.

Definition state_inv (s : state) : Prop :=
  vec_inv (primes s) /\ seg_ok (sieve_size s) /\
  Forall (fun p => 0 < it_limit (snd p) /\ it_limit (snd p) < LIMIT_MAX) (iters s).

(* what a correct output looks like, given the operation *)
Definition out_ok (s : state) (o : op) (x : out) : Prop :=
  match o, x with
  | OGen limit, OutPrimes l => primes_upto l limit
  | OGen _, _ => False
  | ONext id, OutPrime p =>
      match find_iter id (iters s) with
      | Some it =>
          (* the it_index-th prime (0-based) when it is within the limit; otherwise
             some value above the limit (callers loop `while (p <= limit)`) *)
          exists l, primes_upto l (it_limit it) /\
            ((N.to_nat (it_index it) < length l)%nat -> p = nth (N.to_nat (it_index it)) l 0) /\
            ((length l <= N.to_nat (it_index it))%nat -> it_limit it < p)
      | None => False
      end
  | ONext id, OutUnit => find_iter id (iters s) = None
  | ONext _, _ => False
  | _, OutUnit => True
  | _, _ => False
  end.

(* every step of a history succeeds (no out-of-range access, no exhausted fuel) and
   returns a correct output *)
Fixpoint run_ok (s : state) (ops : list op) : Prop :=
  match ops with
  | [] => True
  | o :: rest =>
      match step s o with
      | Ok (s', x) => out_ok s o x /\ run_ok s' rest
      | _ => False
      end
  end.

(* histories without iterator operations *)
Definition op_ok_gen (o : op) : Prop :=
  match o with
  | OGen limit => limit < LIMIT_MAX
  | OSetSize k => 1 <= k /\ k <= SIZE_MAX
  | OClear | OSetClear _ => True
  | _ => False
  end.

(* Sieve::iterator::next_prime extends the sieve to twice the last prime it returned: that
   the next prime lies below that bound is Bertrand's postulate, needed here only below 2^31 *)
Definition bertrand_31 : Prop :=
  forall n, 1 <= n -> n < LIMIT_MAX -> exists p, Nprime p /\ n < p /\ p <= 2 * n.
