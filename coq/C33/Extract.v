(* Extraction of the C33 model (run from the output directory; not part of `make`). *)
From SE Require Import C33.SieveModel.
Require Import ExtrOcamlBasic.
Extraction "sieve_model.ml" run init step.
