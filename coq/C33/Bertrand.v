(* C33 -- Bertrand's postulate below 2^31, by an explicit chain of primes each at most
   twice its predecessor, checked by trial division inside the kernel (vm_compute);
   and the counting measure on that chain that bounds the iterator's extension loop. *)
From SE Require Import C33.SieveSpec C33.SieveArith.
From Coq Require Import ZifyN ZifyBool Lia.
Local Open Scope N_scope.

Definition chain : list N :=
  [2; 3; 5; 7; 13; 23; 43; 83; 163; 317; 631; 1259; 2503; 5003; 9973; 19937; 39869;
   79699; 159389; 318751; 637499; 1274989; 2549951; 5099893; 10199767; 20399531;
   40799041; 81598067; 163196129; 326392249; 652784471; 1305568919; 2611137817].

Lemma chain_prime c : In c chain -> Nprime c.
Proof.
  assert (H : forallb is_prime chain = true) by (vm_compute; reflexivity).
  rewrite forallb_forall in H. intros I. apply is_prime_sound. auto.
Qed.

Fixpoint chain_ok (l : list N) : bool :=
  match l with
  | a :: ((b :: _) as r) => (a <? b) && (b <=? 2 * a) && chain_ok r
  | _ => true
  end.

Lemma chain_next_gen : forall l a, chain_ok (a :: l) = true ->
  forall n, a <= n -> n < last (a :: l) 0 ->
  exists c, In c (a :: l) /\ n < c /\ c <= 2 * n.
Proof.
  induction l as [| b l IH]; intros a H n L1 L2.
  - cbn in L2. lia.
  - cbn [chain_ok] in H. apply andb_true_iff in H. destruct H as [H H3].
    apply andb_true_iff in H. destruct H as [H1 H2].
    destruct (N.lt_ge_cases n b) as [L | L].
    + exists b. split; [right; left; auto | lia].
    + change (last (a :: b :: l) 0) with (last (b :: l) 0) in L2.
      destruct (IH b H3 n L L2) as (c & I & C). exists c. split; [right; auto | auto].
Qed.

Lemma chain_next n : 2 <= n -> n < LIMIT_MAX ->
  exists c, In c chain /\ n < c /\ c <= 2 * n.
Proof.
  intros L1 L2. apply (chain_next_gen (tl chain) 2); auto.
  unfold LIMIT_MAX in L2. change (last (2 :: tl chain) 0) with 2611137817. lia.
Qed.

Theorem bertrand_31_holds : bertrand_31.
Proof.
  intros n L1 L2. destruct (N.eq_dec n 1) as [-> | Ne].
  - exists 2. split; [apply chain_prime; left; reflexivity | lia].
  - destruct (chain_next n ltac:(lia) L2) as (c & I & C).
    exists c. split; [apply chain_prime; auto | auto].
Qed.

(* ---------- number of chain elements above b ---------- *)
Definition mu (b : N) : nat := length (filter (fun c => b <? c) chain).

Lemma filter_len_le {A} (f g : A -> bool) l :
  (forall x, In x l -> f x = true -> g x = true) ->
  (length (filter f l) <= length (filter g l))%nat.
Proof.
  induction l as [| a l IH]; intros H; cbn [filter]; auto.
  assert (IH' : (length (filter f l) <= length (filter g l))%nat).
  { apply IH. intros x I. apply H. right; auto. }
  destruct (f a) eqn:Fa.
  - rewrite (H a (or_introl eq_refl) Fa). cbn [length]. lia.
  - destruct (g a); cbn [length]; lia.
Qed.

Lemma filter_len_lt {A} (f g : A -> bool) l :
  (forall x, In x l -> f x = true -> g x = true) ->
  (exists x, In x l /\ g x = true /\ f x = false) ->
  (length (filter f l) < length (filter g l))%nat.
Proof.
  induction l as [| a l IH]; intros H (x & I & Gx & Fx); [destruct I |].
  assert (Hl : forall x, In x l -> f x = true -> g x = true).
  { intros y Iy. apply H. right; auto. }
  pose proof (filter_len_le f g l Hl) as LE.
  cbn [filter]. destruct I as [<- | I].
  - rewrite Gx, Fx. cbn [length]. lia.
  - assert (IH' : (length (filter f l) < length (filter g l))%nat).
    { apply IH; auto. exists x; auto. }
    destruct (f a) eqn:Fa.
    + rewrite (H a (or_introl eq_refl) Fa). cbn [length]. lia.
    + destruct (g a); cbn [length]; lia.
Qed.

Lemma mu_decr b b' c : b <= b' -> In c chain -> b < c -> c <= b' -> (mu b' < mu b)%nat.
Proof.
  intros L I L1 L2. unfold mu. apply filter_len_lt.
  - intros x _ Hx. lia.
  - exists c. split; auto. lia.
Qed.

Lemma mu_bound b : (mu b <= 33)%nat.
Proof.
  assert (E : mu 0 = 33%nat) by (vm_compute; reflexivity).
  rewrite <- E. unfold mu. apply filter_len_le. intros x _ Hx. lia.
Qed.
