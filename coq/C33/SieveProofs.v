(* C33 -- proofs about the segmented sieve model (SieveModel.v) against SieveSpec.v:
   Sieve::_extend, and histories of calls. *)
From SE Require Import C33.SieveSpec C33.SieveArith C33.SieveSegment C33.Bertrand.
From Coq Require Import ZifyN ZifyBool Lia Sorted.
Local Open Scope N_scope.
Local Open Scope res_scope.

(* ---------- the vector invariant, in a more convenient form ---------- *)
Definition vinv (v : vec) : Prop :=
  (exists r, live v = first10 ++ r) /\
  primes_upto (live v) (vec_back v) /\
  vec_back v < W32.

Lemma vec_inv_vinv v : vec_inv v <-> vinv v.
Proof.
  unfold vec_inv, vinv. split; intros (A & B & C); (split; [| split; auto]).
  - exists (skipn 10 (live v)). rewrite <- A. symmetry. apply firstn_skipn.
  - destruct A as [r ->]. reflexivity.
Qed.

Lemma vinv_facts v : vinv v ->
  In (vec_back v) (live v) /\ Nprime (vec_back v) /\ 29 <= vec_back v /\
  vec_back v mod 2 = 1 /\ vec_back v + 1 < W32 /\ exists ps, live v = 2 :: ps.
Proof.
  intros ([r Hr] & [S H] & W).
  assert (I : In (vec_back v) (live v)).
  { unfold vec_back. apply last_in. rewrite Hr. discriminate. }
  assert (P : Nprime (vec_back v)) by (apply H in I; tauto).
  assert (L : 29 <= vec_back v).
  { unfold vec_back. apply sorted_last_max; auto. rewrite Hr. apply in_or_app. left.
    unfold first10. cbn. tauto. }
  split; auto. split; auto. split; auto.
  split; [apply prime_odd; auto; lia |]. split.
  - destruct (N.eq_dec (vec_back v) 4294967295) as [E | Ne]; [| unfold W32 in *; lia].
    exfalso. rewrite E in P. apply (Nprime_no_divisor _ 3 P); [| lia | lia].
    exists 1431655765. reflexivity.
  - exists (tl first10 ++ r). rewrite Hr. reflexivity.
Qed.

(* what one call of _extend achieves *)
Definition post (v : vec) (limit : N) (v' : vec) : Prop :=
  (exists news, v' = vec_push_list v news) /\
  primes_upto (live v') (N.max limit (vec_back v)).

Lemma post_vinv v limit v' : vinv v -> limit < W32 -> post v limit v' -> vinv v'.
Proof.
  intros V L [[news ->] P].
  destruct V as ([r Hr] & _ & W).
  assert (Ne : live (vec_push_list v news) <> []).
  { rewrite live_push, Hr. discriminate. }
  split; [| split].
  - exists (r ++ news). rewrite live_push, Hr, app_assoc. reflexivity.
  - unfold vec_back. eapply primes_upto_last; eauto.
  - assert (I : In (vec_back (vec_push_list v news)) (live (vec_push_list v news)))
      by (unfold vec_back; apply last_in; auto).
    apply P in I. lia.
Qed.

(* ---------- Sieve::_extend ---------- *)
Definition ext_upto (fuel : nat) (B : N) : Prop :=
  forall seg v limit, seg_ok seg -> vinv v -> limit < B -> limit < 2147483648 ->
    exists v', extend fuel seg v limit = Ok v' /\ post v limit v'.

Lemma ext_upto_step f B' B :
  ext_upto f B' ->
  (forall limit, limit < B -> N.sqrt limit < N.max B' 30) ->
  ext_upto (S f) B.
Proof.
  intros IH HB seg v limit [Sg1 Sg2] V LB L31.
  destruct (vinv_facts v V) as (Ib & Pb & B29 & Bodd & Bw & [ps Hps]).
  cbn [extend]. rewrite (uadd_small (vec_back v) 1) by auto.
  set (back := vec_back v) in *.
  destruct (limit <=? back + 1) eqn:E0.
  - exists v. split; auto. split; [exists []; symmetry; apply vec_push_nil |].
    destruct V as (_ & P & _). fold back in P.
    apply primes_upto_weaken with (a := back); auto; [lia |]. intros x X1 X2 Px.
    assert (x = back + 1) by lia. subst x.
    apply (Nprime_no_divisor _ 2 Px); [apply mod0_divide; lia | lia | lia].
  - set (sq := N.sqrt limit).
    pose proof (N.sqrt_spec limit ltac:(lia)) as Sq. cbv zeta in Sq. fold sq in Sq.
    pose proof (N.sqrt_le_lin limit) as Sq2. fold sq in Sq2.
    assert (M : exists v1,
               (if back + 1 <=? sq then extend f seg v sq else Ok v) = Ok v1 /\
               (exists news, v1 = vec_push_list v news) /\ vinv v1 /\
               (forall p, Nprime p -> p <= sq -> In p (live v1)) /\
               vec_back v1 < limit).
    { destruct (back + 1 <=? sq) eqn:E1.
      - destruct (IH seg v sq) as (v1 & Ev & Post); auto; [split; auto | | lia |].
        { specialize (HB limit LB). fold sq in HB. lia. }
        exists v1. split; auto. pose proof Post as [Pn Pp]. split; auto.
        assert (V1 : vinv v1) by (apply (post_vinv v sq); auto; unfold W32; lia).
        split; auto. split.
        + intros p Pp' Lp. apply Pp. split; auto. lia.
        + destruct (vinv_facts v1 V1) as (I1 & _).
          apply Pp in I1. fold back in I1.
          assert (2 * sq <= sq * sq) by (apply N.mul_le_mono_r; lia). lia.
      - exists v. split; auto. split; [exists []; symmetry; apply vec_push_nil |].
        split; auto. split.
        + intros p Pp' Lp. destruct V as (_ & P & _). apply P. split; auto. fold back. lia.
        + fold back. lia. }
    destruct M as (v1 & Ev & [news1 Hn1] & V1 & Hall & Hb1).
    rewrite Ev. cbn [bind].
    destruct (vinv_facts v1 V1) as (I1 & P1 & B1 & O1 & W1 & Hps1).
    rewrite (uadd_small (vec_back v1) 1) by auto.
    replace (seg =? 0) with false by lia.
    assert (A1 : primes_upto (live v1) (vec_back v1 + 1 - 1)).
    { replace (vec_back v1 + 1 - 1) with (vec_back v1) by lia. apply V1. }
    assert (A2 : (vec_back v1 + 1) mod 2 = 0) by lia.
    assert (A3 : forall p, Nprime p -> p * p <= limit -> p < vec_back v1 + 1).
    { intros p Pp Q.
      assert (p <= sq).
      { destruct (N.le_gt_cases p sq); auto. exfalso.
        assert (N.succ sq * N.succ sq <= p * p) by (apply N.mul_le_mono; lia). lia. }
      assert (p <= vec_back v1); [| lia].
      unfold vec_back. apply sorted_last_max; [apply V1 | auto]. }
    destruct (seg_loop_spec v1 (vec_back v1 + 1) limit seg Hps1 A1 A2
                ltac:(lia) ltac:(lia) L31 Sg1 Sg2 A3) as (news2 & E2 & P2).
    exists (vec_push_list v1 news2). split; auto. split.
    + exists (news1 ++ news2). rewrite Hn1, vec_push_push. reflexivity.
    + rewrite live_push. fold back. replace (N.max limit back) with limit by lia. auto.
Qed.

Lemma ext_upto_0 : ext_upto 0 0.
Proof. intros seg v limit _ _ L. lia. Qed.

Lemma ext_upto_1 : ext_upto 1 900.
Proof.
  apply (ext_upto_step _ _ _ ext_upto_0). intros limit L.
  apply N.sqrt_lt_square. change (N.max 0 30) with 30. lia.
Qed.

Lemma ext_upto_2 : ext_upto 2 810000.
Proof.
  apply (ext_upto_step _ _ _ ext_upto_1). intros limit L.
  apply N.sqrt_lt_square. change (N.max 900 30) with 900. lia.
Qed.

Lemma ext_upto_3 : ext_upto 3 2147483648.
Proof.
  apply (ext_upto_step _ _ _ ext_upto_2). intros limit L.
  apply N.sqrt_lt_square. change (N.max 810000 30) with 810000. lia.
Qed.

Lemma ext_upto_more f : ext_upto f 2147483648 -> ext_upto (S f) 2147483648.
Proof.
  intros H. apply (ext_upto_step _ _ _ H). intros limit L.
  pose proof (N.sqrt_le_lin limit). lia.
Qed.

Lemma ext_upto_fuel : ext_upto extend_fuel 2147483648.
Proof. unfold extend_fuel. do 5 apply ext_upto_more. apply ext_upto_3. Qed.

Theorem extend_correct :
  forall (v : vec) (segment limit : N),
    vec_inv v -> seg_ok segment -> limit < LIMIT_MAX ->
    exists v', extend extend_fuel segment v limit = Ok v' /\
               vec_inv v' /\
               primes_upto (live v') (N.max limit (vec_back v)).
Proof.
  intros v seg limit V Sg L. apply vec_inv_vinv in V. unfold LIMIT_MAX in L.
  destruct (ext_upto_fuel seg v limit Sg V L L) as (v' & E & Post).
  exists v'. split; auto. split; [| apply Post].
  apply vec_inv_vinv. apply (post_vinv v limit); auto. unfold W32. lia.
Qed.

(* ---------- states and histories ---------- *)
(* the invariant of histories: the specification's [state_inv] plus the fact that the
   vector never grows beyond 2^31 (all limits are below 2^31) *)
Definition hinv (s : state) : Prop := state_inv s /\ vec_back (primes s) < LIMIT_MAX.

Lemma vec_inv_first10 : vec_inv {| live := first10 |}.
Proof.
  split; [reflexivity |]. split; [exact primes_upto_first10 | reflexivity].
Qed.

Theorem init_inv : state_inv init.
Proof.
  split; [exact vec_inv_first10 |]. split; [unfold seg_ok; cbn; lia | constructor].
Qed.

Lemma hinv_init : hinv init.
Proof. split; [exact init_inv | reflexivity]. Qed.

Lemma vec_clear_inv v : vec_inv v -> vec_clear v = {| live := first10 |}.
Proof. intros (A & _ & _). unfold vec_clear. rewrite A. reflexivity. Qed.

Lemma hinv_do_clear s : hinv s -> hinv (do_clear s).
Proof.
  intros [(V & Sg & It) Bk]. unfold do_clear, set_primes, hinv, state_inv.
  cbn [primes sieve_size iters clear_flag].
  rewrite (vec_clear_inv _ V).
  split; [split; [exact vec_inv_first10 | split; auto] | reflexivity].
Qed.

Lemma step_gen_ok s limit : hinv s -> limit < LIMIT_MAX ->
  exists s' l, step s (OGen limit) = Ok (s', OutPrimes l) /\ primes_upto l limit /\ hinv s'.
Proof.
  intros [(V & Sg & It) Bk] L. cbn [step].
  destruct (extend_correct (primes s) (sieve_size s) limit V Sg L) as (v' & E & V' & P).
  rewrite E. cbn [bind]. eexists; eexists. split; [reflexivity |]. split.
  - apply (primes_upto_take _ _ _ P). lia.
  - assert (H1 : hinv (set_primes s v')).
    { split; [split; [exact V' | split; [exact Sg | exact It]] |]. cbn.
      apply vec_inv_vinv in V'. destruct (vinv_facts v' V') as (I & _).
      apply P in I. lia. }
    destruct (clear_flag s); [apply hinv_do_clear |]; auto.
Qed.

Lemma step_setsize_ok s k : hinv s -> 1 <= k /\ k <= SIZE_MAX ->
  exists s', step s (OSetSize k) = Ok (s', OutUnit) /\ hinv s'.
Proof.
  intros [(V & Sg & It) Bk] [K1 K2]. unfold SIZE_MAX in K2. cbn [step].
  eexists. split; [reflexivity |].
  split; [split; [exact V | split; [| exact It]] | exact Bk]. cbn.
  rewrite (umul_small k 1024) by (unfold W32; lia).
  rewrite (umul_small (k * 1024) 8) by (unfold W32; lia).
  unfold seg_ok. lia.
Qed.

Lemma step_ok_gen s o : hinv s -> op_ok_gen o ->
  exists s' x, step s o = Ok (s', x) /\ out_ok s o x /\ hinv s'.
Proof.
  intros H O. destruct o; cbn [op_ok_gen] in O; try contradiction.
  - destruct (step_gen_ok s limit H O) as (s' & l & E & P & H').
    exists s', (OutPrimes l). auto.
  - exists (do_clear s), OutUnit. split; [reflexivity |]. split; [exact I |].
    apply hinv_do_clear; auto.
  - destruct (step_setsize_ok s k H O) as (s' & E & H').
    exists s', OutUnit. split; auto. split; [exact I | auto].
  - eexists; eexists. split; [reflexivity |]. split; [exact I |].
    destruct H as [(V & Sg & It) Bk]. split; [split; [exact V | split; [exact Sg | exact It]] | exact Bk].
Qed.

Lemma run_ok_gen : forall ops s, hinv s -> Forall op_ok_gen ops -> run_ok s ops.
Proof.
  induction ops as [| o ops IH]; intros s H F; cbn [run_ok]; auto.
  inversion F as [| ? ? O F']; subst.
  destruct (step_ok_gen s o H O) as (s' & x & E & Ok' & H'). rewrite E. split; auto.
Qed.

Theorem history_correct :
  forall ops : list op, Forall op_ok_gen ops -> run_ok init ops.
Proof. intros ops F. apply run_ok_gen; auto. exact hinv_init. Qed.

(* ---------- iterators ---------- *)
Definition it_ok (it : iter) : Prop := 0 < it_limit it /\ it_limit it < LIMIT_MAX.

Lemma find_iter_in id l it : find_iter id l = Some it -> exists k, In (k, it) l.
Proof.
  induction l as [| [k i] l IH]; cbn [find_iter]; [discriminate |].
  destruct (k =? id).
  - intros [= ->]. exists k. left; auto.
  - intros H. destruct (IH H) as [k' I]. exists k'. right; auto.
Qed.

Lemma remove_iter_forall (P : N * iter -> Prop) id l :
  Forall P l -> Forall P (remove_iter id l).
Proof.
  induction l as [| [k i] l IH]; intros F; cbn [remove_iter]; [constructor |].
  inversion F; subst. destruct (k =? id); auto.
Qed.

(* the extension loop of next_prime: it ends within its fuel because each round that does
   not reach the iterator's limit moves the last prime past one more element of [chain] *)
Lemma next_loop_ok seg it : seg_ok seg -> it_ok it ->
  forall fuel v, vinv v -> vec_back v < LIMIT_MAX ->
  (1 <= fuel)%nat ->
  ((vec_size v <=? it_index it) = true -> (mu (vec_back v) + 2 <= fuel)%nat) ->
  exists v' r, next_loop fuel seg v it = Ok (v', r) /\ vinv v' /\ vec_back v' < LIMIT_MAX /\
    match r with
    | Some p => p = it_limit it + 1 /\
                forall l, primes_upto l (it_limit it) ->
                          (length l <= N.to_nat (it_index it))%nat
    | None => (N.to_nat (it_index it) < length (live v'))%nat
    end.
Proof.
  intros Sg [Lim1 Lim2]. unfold LIMIT_MAX in *.
  induction fuel as [| fuel IH]; intros v V Bk F1 F2; [lia |].
  cbn [next_loop]. destruct (vec_size v <=? it_index it) eqn:E.
  2: { exists v, None. split; auto. split; auto. split; auto. unfold vec_size in E. lia. }
  specialize (F2 eq_refl).
  destruct (vinv_facts v V) as (Ib & Pb & B29 & _).
  set (back := vec_back v) in *. set (limit := it_limit it) in *. set (idx := it_index it) in *.
  rewrite (umul_small back 2) by (unfold W32; lia).
  replace (0 <? limit) with true by lia. cbn [andb].
  set (E' := if limit <? back * 2 then limit else back * 2).
  assert (HE : E' <= limit /\ (E' = limit \/ E' = back * 2)).
  { unfold E'. destruct (limit <? back * 2) eqn:?; lia. }
  destruct HE as [HE1 HE2]. clearbody E'.
  destruct (ext_upto_fuel seg v E' Sg V ltac:(lia) ltac:(lia)) as (v1 & Ev & Post).
  rewrite Ev. cbn [bind].
  assert (V1 : vinv v1) by (apply (post_vinv v E'); auto; unfold W32; lia).
  destruct Post as [_ P1]. fold back in P1.
  destruct (vinv_facts v1 V1) as (I1 & _).
  assert (Bk1 : vec_back v1 < 2147483648) by (apply P1 in I1; lia).
  destruct ((E' =? limit) && (vec_size v1 <=? idx)) eqn:T.
  - apply andb_true_iff in T. destruct T as [T1 T2]. assert (E' = limit) by lia. subst E'.
    exists v1, (Some (uadd limit 1)). split; auto. split; auto. split; auto.
    rewrite uadd_small by (unfold W32; lia). split; auto.
    intros l Pl.
    destruct (primes_upto_prefix l (live v1) limit _ Pl P1 ltac:(lia)) as (c & Hc & _).
    unfold vec_size in T2. rewrite Hc, app_length in T2. lia.
  - apply IH; auto; [lia |].
    intros T2. fold idx in T2. rewrite T2, andb_true_r in T.
    assert (E' = back * 2) by lia.
    destruct (chain_next back ltac:(lia) Bk) as (c & Ic & C1 & C2).
    assert (I2 : In c (live v1)) by (apply P1; split; [apply chain_prime; auto | lia]).
    assert (c <= vec_back v1) by (apply sorted_last_max; [apply V1 | auto]).
    assert (back <= vec_back v1) by lia.
    pose proof (mu_decr back (vec_back v1) c H1 Ic C1 H0). lia.
Qed.

Lemma next_prime_ok s id it : hinv s -> find_iter id (iters s) = Some it ->
  exists s' p, next_prime s id it = Ok (s', OutPrime p) /\ hinv s' /\
    exists l, primes_upto l (it_limit it) /\
      ((N.to_nat (it_index it) < length l)%nat -> p = nth (N.to_nat (it_index it)) l 0) /\
      ((length l <= N.to_nat (it_index it))%nat -> it_limit it < p).
Proof.
  intros [(V & Sg & It) Bk] F.
  destruct (find_iter_in _ _ _ F) as [k Ik].
  assert (Hit : it_ok it) by (rewrite Forall_forall in It; apply (It _ Ik)).
  apply vec_inv_vinv in V.
  destruct (next_loop_ok (sieve_size s) it Sg Hit next_fuel (primes s) V Bk)
    as (v' & r & E & V' & Bk' & R).
  - unfold next_fuel; lia.
  - intros _. pose proof (mu_bound (vec_back (primes s))). unfold next_fuel. lia.
  - unfold next_prime. rewrite E. cbn [bind].
    destruct (primes_upto_exists (it_limit it)) as [l Pl].
    assert (H1 : hinv (set_primes s v')).
    { split; [split; [apply vec_inv_vinv; exact V' | split; [exact Sg | exact It]] | exact Bk']. }
    destruct r as [p |].
    + destruct R as [-> R]. exists (set_primes s v'), (it_limit it + 1).
      split; auto. split; auto.
      exists l. split; auto. specialize (R l Pl). split; intros; lia.
    + assert (G : vec_get v' (it_index it) = Ok (nth (N.to_nat (it_index it)) (live v') 0)).
      { unfold vec_get. rewrite (nth_error_nth' _ 0 R). reflexivity. }
      rewrite G. cbn [bind]. eexists; eexists. split; [reflexivity |]. split.
      * destruct H1 as [(A & B & C) D].
        split; [split; [exact A | split; [exact B |]] | exact D].
        cbn [iters set_iter set_primes]. constructor; [exact Hit |].
        apply remove_iter_forall; exact It.
      * exists l. split; auto.
        pose proof (proj1 (proj2 V')) as Pv.
        destruct (N.le_ge_cases (it_limit it) (vec_back v')) as [L | L].
        -- destruct (primes_upto_prefix l (live v') _ _ Pl Pv L) as (c & Hc & Hy).
           rewrite Hc. rewrite Hc, app_length in R. split; intros Hl.
           ++ apply app_nth1; auto.
           ++ rewrite app_nth2 by lia. apply Hy. apply nth_In. lia.
        -- destruct (primes_upto_prefix (live v') l _ _ Pv Pl L) as (c & Hc & Hy).
           split; intros Hl.
           ++ rewrite Hc. symmetry. apply app_nth1. auto.
           ++ rewrite Hc, app_length in Hl. lia.
Qed.

Lemma step_ok s o : hinv s -> op_ok o ->
  exists s' x, step s o = Ok (s', x) /\ out_ok s o x /\ hinv s'.
Proof.
  intros H O. destruct o; cbn [op_ok] in O.
  - apply step_ok_gen; auto.
  - apply step_ok_gen; auto.
  - apply step_ok_gen; auto.
  - apply step_ok_gen; auto.
  - eexists; eexists. split; [reflexivity |]. split; [exact I |].
    destruct H as [(A & B & C) D].
    split; [split; [exact A | split; [exact B |]] | exact D].
    cbn [iters set_iter]. constructor; [exact O | apply remove_iter_forall; exact C].
  - cbn [step]. destruct (find_iter id (iters s)) as [it |] eqn:F.
    + destruct (next_prime_ok s id it H F) as (s' & p & E & H' & Out).
      exists s', (OutPrime p). split; auto. split; auto.
      cbn [out_ok]. rewrite F. exact Out.
    + exists s, OutUnit. split; [reflexivity |]. split; [| exact H]. cbn [out_ok]. exact F.
  - cbn [step]. eexists; eexists. split; [reflexivity |]. split; [exact I |].
    destruct H as [(A & B & C) D].
    assert (H1 : hinv {| primes := primes s; sieve_size := sieve_size s;
                         clear_flag := clear_flag s; iters := remove_iter id (iters s) |}).
    { split; [split; [exact A | split; [exact B |]] | exact D].
      cbn [iters]. apply remove_iter_forall; exact C. }
    destruct (clear_flag s); [apply hinv_do_clear |]; exact H1.
Qed.

Lemma run_ok_all : forall ops s, hinv s -> Forall op_ok ops -> run_ok s ops.
Proof.
  induction ops as [| o ops IH]; intros s H F; cbn [run_ok]; auto.
  inversion F as [| ? ? O F']; subst.
  destruct (step_ok s o H O) as (s' & x & E & Ok' & H'). rewrite E. split; auto.
Qed.

Theorem iterator_correct :
  forall ops : list op, Forall op_ok ops -> run_ok init ops.
Proof. intros ops F. apply run_ok_all; auto. exact hinv_init. Qed.
