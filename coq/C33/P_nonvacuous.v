(* C33: the hypotheses of the theorems are met by concrete non-trivial states/histories,
   and the model computes the expected primes on them (evaluated by the kernel). *)
From SE Require Import C33.SieveSpec C33.SieveProofs.
Local Open Scope N_scope.
Example C33_init_inv : state_inv init.
Proof. exact init_inv. Qed.
Example C33_history_example :
  Forall op_ok [OSetSize 1; OSetClear false; OGen 20000; ONew 1 50; ONext 1; OClear; OGen 100]
  /\ map (fun r => match r with Ok (OutPrimes l) => Some (length l, last l 0) | Ok (OutPrime p) => Some (1%nat, p) | Ok OutUnit => Some (0%nat, 0) | _ => None end)
       (run init [OSetSize 1; OSetClear false; OGen 20000; ONew 1 50; ONext 1; OClear; OGen 100])
     = [Some (0%nat,0); Some (0%nat,0); Some (2262%nat, 19997); Some (0%nat,0); Some (1%nat,2); Some (0%nat,0); Some (25%nat, 97)].
Proof. split; [repeat constructor; cbv; intuition discriminate | vm_compute; reflexivity]. Qed.
Print Assumptions C33_history_example.
