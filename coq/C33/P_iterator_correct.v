(* C33 obligation: histories that also create, advance and destroy bounded iterators
   (interleaved with everything else): every next_prime returns the next prime of that
   iterator's sequence, without gaps or repeats, or a value above the iterator's limit. *)
From SE Require Import C33.SieveSpec C33.SieveProofs.
Theorem C33_iterator_correct :
  forall ops : list op, Forall op_ok ops -> run_ok init ops.
Proof. exact iterator_correct. Qed.
Print Assumptions C33_iterator_correct.
