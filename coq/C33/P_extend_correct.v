(* C33 obligation: Sieve::_extend never leaves its arrays, terminates, and leaves the
   vector holding exactly the primes up to max(limit, previous last prime). *)
From SE Require Import C33.SieveSpec C33.SieveProofs.
Local Open Scope N_scope.
Theorem C33_extend_correct :
  forall (v : vec) (segment limit : N),
    vec_inv v -> seg_ok segment -> limit < LIMIT_MAX ->
    exists v', extend extend_fuel segment v limit = Ok v' /\
               vec_inv v' /\
               primes_upto (live v') (N.max limit (vec_back v)).
Proof. exact extend_correct. Qed.
Print Assumptions C33_extend_correct.
