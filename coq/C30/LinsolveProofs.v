(* C30 -- linsolve returns the solution of every uniquely solvable square system and throws
   "Matrix is rank deficient" otherwise.  Built on the theorems of property C24 about
   fraction_free_gauss_jordan_solve (C24.DenseFFGJ2.ffgj_solve_dichotomy) and submatrix_dense. *)
From SE Require Import C24.DenseModel C24.DenseBase C24.DenseSpec C24.DenseOps C24.DenseOps2
  C24.DenseGJ C24.DenseGJ2 C24.DenseFFGJ C24.DenseFFGJ2 C30.LinsolveModel.
From Coq Require Import List Lia.
Import ListNotations.
Local Open Scope N_scope.
Local Open Scope res_scope.

Lemma collect_col0_spec : forall M, wf M -> dcol M = 1 ->
  forall k i, i + N.of_nat k <= drow M ->
  exists xs, collect_col0 M i k = Ok xs /\ length xs = k /\
             forall j, (j < k)%nat -> nth j xs x0 = entry M (i + N.of_nat j) 0.
Proof.
  intros M W C1. induction k as [|k IH]; intros i Hi.
  - exists []. repeat split. intros j Hj. lia.
  - cbn [collect_col0]. unfold mget. rewrite C1.
    assert (Hlt : i * 1 + 0 < lenN (dm M)) by (unfold wf in W; rewrite W, C1; lia).
    rewrite (rd_ok _ _ Hlt). cbn [bind].
    destruct (IH (i + 1)) as [xs [E [L Hn]]]; [lia|].
    rewrite E. cbn [bind]. exists (nthx (dm M) (i * 1 + 0) :: xs). split; [reflexivity|]. split; [cbn; lia|].
    intros [|j] Hj.
    + cbn [nth]. unfold entry, ent. rewrite C1. f_equal. lia.
    + cbn [nth]. rewrite Hn by lia. f_equal. lia.
Qed.

Theorem linsolve_helper_dichotomy : forall A b n,
  good A n n -> good b n 1 ->
  (exists xs, linsolve_helper A b = Ok xs /\ length xs = N.to_nat n /\
      (forall k, k < n -> is_fin (nthx xs k)) /\
      forall i, i < n -> sumN n (fun k => (val A i k * qv (nthx xs k))%Qc) = val b i 0)
  \/ (linsolve_helper A b = ErrExn EXN_RANKDEF /\ ~ nonsingular n (fm_of A)).
Proof.
  intros A b n GA Gb.
  assert (HrA : drow A = n) by (destruct GA as [_ [_ [H _]]]; exact H).
  destruct (ffgj_solve_dichotomy A b (mzero n 1) n 1 GA Gb (wf_mzero n 1) eq_refl eq_refl)
    as [[x' [E [[Wx [Fx [Rx Cx]]] HM]]] | [E HS]].
  - left. unfold linsolve_helper. rewrite HrA, E. cbn [bind]. rewrite Rx.
    destruct (collect_col0_spec x' Wx Cx (N.to_nat n) 0) as [xs [Ec [L Hn]]]; [lia|].
    exists xs. split; [exact Ec|]. split; [exact L|].
    assert (Hx : forall k, k < n -> nthx xs k = entry x' k 0).
    { intros k Hk. unfold nthx. rewrite Hn by lia. f_equal. lia. }
    split.
    + intros k Hk. rewrite (Hx k Hk). unfold entry, ent. apply Fx.
      unfold wf in Wx. rewrite Wx, Rx, Cx. lia.
    + intros i Hi. specialize (HM i 0 Hi ltac:(lia)). unfold fm_mul, fm_of in HM.
      rewrite <- HM. apply sumN_ext. intros k Hk. rewrite (Hx k Hk). reflexivity.
  - right. split; [|exact HS]. unfold linsolve_helper. rewrite HrA, E. reflexivity.
Qed.

(* ---------------------------------------------------------------- linsolve(DenseMatrix) *)
Lemma fin_mat_of_entries : forall M, wf M ->
  (forall i j, i < drow M -> j < dcol M -> is_fin (entry M i j)) -> fin_mat M.
Proof.
  intros M W H k Hk. unfold wf in W. rewrite W in Hk.
  destruct (N.eq_dec (dcol M) 0) as [Z | NZ]; [rewrite Z in Hk; lia|].
  assert (Ek : k = k / dcol M * dcol M + k mod dcol M) by (rewrite N.mul_comm; apply N.div_mod; exact NZ).
  assert (Hj : k mod dcol M < dcol M) by (apply N.mod_lt; exact NZ).
  assert (Hi : k / dcol M < drow M).
  { apply N.div_lt_upper_bound; try exact NZ; lia. }
  specialize (H _ _ Hi Hj). unfold entry, ent in H. rewrite <- Ek in H. exact H.
Qed.

Lemma nonsingular_ext : forall n A B, fm_eq n n A B -> nonsingular n A -> nonsingular n B.
Proof.
  intros n A B HE HA y Hy k Hk. apply (HA y); [|exact Hk].
  intros i j Hi Hj. specialize (Hy i j Hi Hj). unfold fm_mul in *. cbv beta in *.
  rewrite <- Hy. apply sumN_ext. intros t Ht. rewrite (HE i t Hi Ht). reflexivity.
Qed.

(* the n x (n+1) augmented system: columns 0..n-1 are A, column n is b *)
Theorem linsolve_dense_dichotomy : forall sys n,
  good sys n (n + 1) -> 0 < n ->
  (exists xs, linsolve_dense sys = Ok xs /\ length xs = N.to_nat n /\
      (forall k, k < n -> is_fin (nthx xs k)) /\
      forall i, i < n -> sumN n (fun k => (val sys i k * qv (nthx xs k))%Qc) = val sys i n)
  \/ (linsolve_dense sys = ErrExn EXN_RANKDEF /\ ~ nonsingular n (fm_of sys)).
Proof.
  intros sys n [W [Fs [R C]]] Hn.
  unfold linsolve_dense. rewrite R, C.
  replace ((n =? 0) || (n + 1 <? 2)) with false
    by (symmetry; apply Bool.orb_false_iff; split; [apply N.eqb_neq | apply N.ltb_ge]; lia).
  replace (n + 1 - 1) with n by lia. replace (n + 1 - 2) with (n - 1) by lia.
  destruct (submatrix_dense_spec sys (mzero n n) 0 0 (n - 1) (n - 1)) as [A [EA [WA [RA [CA HA]]]]];
    try (apply wf_mzero); try exact W; try (cbn [mzero drow dcol]; lia).
  destruct (submatrix_dense_spec sys (mzero n 1) 0 n (n - 1) n) as [b [Eb [Wb [Rb [Cb Hb]]]]];
    try (apply wf_mzero); try exact W; try (cbn [mzero drow dcol]; lia).
  rewrite EA. cbn [bind]. rewrite Eb. cbn [bind].
  cbn [mzero drow dcol] in RA, CA, Rb, Cb, HA, Hb.
  assert (Fin_sys : forall i j, i < n -> j < n + 1 -> is_fin (entry sys i j)).
  { intros i j Hi Hj. unfold entry, ent. apply Fs. unfold wf in W. rewrite W, R, C. nia. }
  assert (GA : good A n n).
  { split; [exact WA|]. split; [|split; assumption].
    apply fin_mat_of_entries; [exact WA|]. rewrite RA, CA. intros i j Hi Hj.
    rewrite HA by assumption. apply Fin_sys; lia. }
  assert (Gb : good b n 1).
  { split; [exact Wb|]. split; [|split; assumption].
    apply fin_mat_of_entries; [exact Wb|]. rewrite Rb, Cb. intros i j Hi Hj.
    rewrite Hb by assumption. apply Fin_sys; lia. }
  assert (VA : forall i k, i < n -> k < n -> val A i k = val sys i k).
  { intros i k Hi Hk. unfold val. rewrite HA by assumption. reflexivity. }
  assert (Vb : forall i, i < n -> val b i 0 = val sys i n).
  { intros i Hi. unfold val. rewrite Hb by lia. rewrite N.add_0_r. reflexivity. }
  destruct (linsolve_helper_dichotomy A b n GA Gb) as [[xs [E [L [Fx Hx]]]] | [E HS]].
  - left. exists xs. split; [exact E|]. split; [exact L|]. split; [exact Fx|].
    intros i Hi. rewrite <- (Vb i Hi), <- (Hx i Hi). apply sumN_ext. intros k Hk.
    rewrite (VA i k Hi Hk). reflexivity.
  - right. split; [exact E|]. intro NS. apply HS.
    apply (nonsingular_ext n (fm_of sys)); [|exact NS].
    intros i k Hi Hk. unfold fm_of. symmetry. apply VA; assumption.
Qed.
