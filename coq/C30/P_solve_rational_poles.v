(* C30 obligation: "poles excluded".
   _refuted: the set difference is taken on trees, so a pole written in another closed form is
   returned: for (x^2 - 2)/(x^3 - x^2 - 2x + 2) the model (and the library: known finding
   C30/rational-pole-other-closed-form) returns sqrt(2), a zero of the denominator in every field.
   _guarded: when all roots of numerator and denominator are rational numbers the returned set is
   exactly { x | num(x) = 0 and den(x) <> 0 }. *)
From Coq Require Import QArith List.
From SE Require Import Base.Prelude C30.SolveModel C30.SolveProofs C30.SolveSpec.
Import ListNotations.
Theorem C30_solve_rational_poles_excluded_refuted :
  forall (K : radfield),
  (exists alt, solve_rational [-2#1; 0; 1] [2#1; -2#1; -1#1; 1] = Ok (SFinite [alt]) /\ In (RSqrt (RQ (2#1))) alt)
  /\ (rad_okK K (RSqrt (RQ (2#1))) -> pevalK K [2#1; -2#1; -1#1; 1] (evalK K (RSqrt (RQ (2#1)))) = f0 K).
Proof. exact K_rational_pole_witness. Qed.
Print Assumptions C30_solve_rational_poles_excluded_refuted.

Theorem C30_solve_rational_poles_excluded_guarded :
  forall (K : radfield), radicals_total K ->
  forall (num den : list Q) (la lb : list rx),
  has_symbol_poly den = true ->
  solve_poly num = Ok (SFinite [la]) -> solve_poly den = Ok (SFinite [lb]) ->
  forallb is_rq la = true -> forallb is_rq lb = true ->
  forall x : K, valsK K (set_diff la lb) x <-> (pevalK K num x = f0 K /\ pevalK K den x <> f0 K).
Proof. exact K_solve_rational_exact_guarded. Qed.
Print Assumptions C30_solve_rational_poles_excluded_guarded.
