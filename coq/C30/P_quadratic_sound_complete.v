(* C30 obligation: the two expressions root1, root2 computed by solve_poly_quadratic factor the
   polynomial: c2 x^2 + c1 x + c0 = c2 (x - root1)(x - root2) identically, in any field of
   characteristic 0 and for any value of the square root occurring in them whose square is its
   argument.  Hence both are roots, every root is one of them, and multiplicities are right. *)
From Coq Require Import QArith List.
From SE Require Import Base.Prelude C30.SolveModel C30.SolveProofs C30.SolveSpec.
Import ListNotations.
Theorem C30_quadratic_sound_complete :
  forall (K : radfield) (c0 c1 c2 : Q), ~ (c2 == 0)%Q ->
    let rr := quadratic_roots c0 c1 c2 in
    rad_okK K (fst rr) -> rad_okK K (snd rr) ->
    forall x : K, pevalK K [c0; c1; c2] x
                  = fmul K (fmul K (ofQK K c2) (fsub K x (evalK K (fst rr)))) (fsub K x (evalK K (snd rr))).
Proof. exact K_quadratic_factor. Qed.
Print Assumptions C30_quadratic_sound_complete.
