(* C30 obligation: solve_rational (roots of the numerator minus roots of the denominator, as sets
   of trees) returns every zero of num/den that is not a pole, and only zeros of the numerator. *)
From Coq Require Import QArith List.
From SE Require Import Base.Prelude C30.SolveModel C30.SolveProofs C30.SolveSpec.
Import ListNotations.
Theorem C30_solve_rational_complete :
  forall (K : radfield), radicals_total K ->
  forall (num den : list Q) (s : sres),
  has_symbol_poly den = true -> solve_rational num den = Ok s ->
  match s with
  | SFinite alts => forall alt, In alt alts ->
       (forall x : K, pevalK K num x = f0 K -> pevalK K den x <> f0 K -> valsK K alt x) /\
       (forall x : K, valsK K alt x -> pevalK K num x = f0 K)
  | SEmpty => forall x : K, pevalK K num x = f0 K -> pevalK K den x <> f0 K -> False
  | _ => True
  end.
Proof. exact K_solve_rational_complete. Qed.
Print Assumptions C30_solve_rational_complete.
