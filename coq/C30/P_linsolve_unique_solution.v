(* C30 obligation: linsolve returns the solution of every uniquely solvable square linear
   system (n equations, n unknowns, rational entries) and throws "Matrix is rank deficient"
   exactly when the coefficient matrix is singular; it never leaves its vectors.
   [sys] is the augmented n x (n+1) matrix: columns 0..n-1 = A, column n = b;
   [nonsingular n A]: the only y with A y = 0 is y = 0 (C24.DenseFFGJ2).
   The second theorem is the same for the (A, b) pair that linsolve(equations, syms) passes to
   linsolve_helper. *)
From SE Require Import C24.DenseModel C24.DenseBase C24.DenseSpec C24.DenseFFGJ2 C30.LinsolveModel C30.LinsolveProofs.
Local Open Scope N_scope.
Theorem C30_linsolve_unique_solution :
  forall (sys : dmat) (n : N),
  good sys n (n + 1) -> 0 < n ->
  (exists xs, linsolve_dense sys = Ok xs /\ length xs = N.to_nat n /\
      (forall k, k < n -> is_fin (nthx xs k)) /\
      forall i, i < n -> sumN n (fun k => (val sys i k * qv (nthx xs k))%Qc) = val sys i n)
  \/ (linsolve_dense sys = ErrExn EXN_RANKDEF /\ ~ nonsingular n (fm_of sys)).
Proof. exact linsolve_dense_dichotomy. Qed.
Print Assumptions C30_linsolve_unique_solution.

Theorem C30_linsolve_helper_unique_solution :
  forall (A b : dmat) (n : N),
  good A n n -> good b n 1 ->
  (exists xs, linsolve_helper A b = Ok xs /\ length xs = N.to_nat n /\
      (forall k, k < n -> is_fin (nthx xs k)) /\
      forall i, i < n -> sumN n (fun k => (val A i k * qv (nthx xs k))%Qc) = val b i 0)
  \/ (linsolve_helper A b = ErrExn EXN_RANKDEF /\ ~ nonsingular n (fm_of A)).
Proof. exact linsolve_helper_dichotomy. Qed.
Print Assumptions C30_linsolve_helper_unique_solution.
