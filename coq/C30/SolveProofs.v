(* C30 -- semantics of the expression templates of SolveModel.v in an arbitrary field of
   characteristic 0, and the proofs about the model.

   One section over a field (F, 0, 1, +, *, -, /) given by plain variables (the [field] and
   [nsatz] tactics work on them directly).  Radicals are interpreted by arbitrary functions
   [fsqrt], [fcbrt] and an arbitrary element [fi]; [rad_ok e] says that every radical
   *occurring in e* satisfies its defining relation (sqrt(a)^2 = a, cbrt(a)^3 = a, i^2 = -1).
   Nothing is assumed about which branch a radical denotes.  SolveSpec.v packages the field
   into a record and restates the theorems. *)
From Coq Require Import Field Ring Setoid Morphisms Nsatz Ncring Cring Integral_domain InitialRing.
From Coq Require Import QArith ZArith List Bool Lia.
From SE Require Import Base.Prelude C30.SolveModel.
Import ListNotations.

Section Sem.
Variable F : Type.
Variables (f0 f1 : F) (fadd fmul fsub : F -> F -> F) (fopp : F -> F) (fdiv : F -> F -> F) (finv : F -> F).
Hypothesis Fth : field_theory f0 f1 fadd fmul fsub fopp fdiv finv (@eq F).
Hypothesis feq_dec : forall x y : F, {x = y} + {x <> y}.
(* characteristic 0 *)
Hypothesis fchar0 : forall p : positive, gen_phiZ f0 f1 fadd fmul fopp (Zpos p) <> f0.

Notation "0" := f0.
Notation "1" := f1.
Infix "+" := fadd.
Infix "*" := fmul.
Infix "-" := fsub.
Infix "/" := fdiv.
Notation "- x" := (fopp x).

Add Field Kfield : Fth.

Global Instance K_ops : @Ring_ops F 0 1 fadd fmul fsub fopp (@eq F) := {}.
Global Instance K_ring : @Ring F 0 1 fadd fmul fsub fopp (@eq F) K_ops.
Proof.
  constructor.
  all: try exact eq_equivalence.
  all: try (cbv; intros; subst; reflexivity).
  all: intros; cbv; try ring.
Qed.
Global Instance K_cring : @Cring F 0 1 fadd fmul fsub fopp (@eq F) K_ops K_ring.
Proof. intros x y. cbv. ring. Qed.

Lemma F_integral : forall x y : F, x * y = 0 -> x = 0 \/ y = 0.
Proof.
  intros x y H.
  destruct (feq_dec x 0) as [Hx | Hx]; [left; exact Hx|].
  right.
  assert (E : y = (x * y) / x) by (field; exact Hx).
  rewrite E, H. field. exact Hx.
Qed.

Global Instance K_id : @Integral_domain F 0 1 fadd fmul fsub fopp (@eq F) K_ops K_ring K_cring.
Proof.
  constructor.
  - intros x y H. apply F_integral. exact H.
  - intro H. apply (F_1_neq_0 Fth). exact H.
Qed.

(* ---------------------------------------------------------------- Z and Q inside F *)
Definition ofZ (z : Z) : F := gen_phiZ 0 1 fadd fmul fopp z.

Definition Zmorph := gen_phiZ_morph (Eqsth F) (Eq_ext fadd fmul fopp) (F_R Fth).

Lemma ofZ_0 : ofZ 0%Z = 0. Proof. exact (morph0 Zmorph). Qed.
Lemma ofZ_1 : ofZ 1%Z = 1. Proof. exact (morph1 Zmorph). Qed.
Lemma ofZ_add : forall a b, ofZ (a + b)%Z = ofZ a + ofZ b. Proof. exact (morph_add Zmorph). Qed.
Lemma ofZ_sub : forall a b, ofZ (a - b)%Z = ofZ a - ofZ b. Proof. exact (morph_sub Zmorph). Qed.
Lemma ofZ_mul : forall a b, ofZ (a * b)%Z = ofZ a * ofZ b. Proof. exact (morph_mul Zmorph). Qed.
Lemma ofZ_opp : forall a, ofZ (- a)%Z = - ofZ a. Proof. exact (morph_opp Zmorph). Qed.

Lemma ofZ_pos_neq0 : forall p, ofZ (Zpos p) <> 0.
Proof. exact fchar0. Qed.

Lemma ofZ_neq0 : forall z, z <> 0%Z -> ofZ z <> 0.
Proof.
  intros [|p|p] H; [congruence | apply ofZ_pos_neq0 |].
  change (Zneg p) with (- Zpos p)%Z. rewrite ofZ_opp. intro E.
  apply (ofZ_pos_neq0 p).
  transitivity (- - ofZ (Zpos p)); [ring | rewrite E; ring].
Qed.

Lemma ofZ_inj : forall a b, ofZ a = ofZ b -> a = b.
Proof.
  intros a b H.
  destruct (Z.eq_dec (a - b) 0) as [E | E]; [lia|].
  exfalso. apply (ofZ_neq0 _ E). rewrite ofZ_sub, H. ring.
Qed.

Definition ofQ (q : Q) : F := ofZ (Qnum q) / ofZ (Zpos (Qden q)).

Lemma ofQ_Qeq : forall p q, (p == q)%Q -> ofQ p = ofQ q.
Proof.
  intros [a b] [c d] H. unfold Qeq in H. cbn [Qnum Qden] in H. unfold ofQ. cbn [Qnum Qden].
  assert (E : ofZ a * ofZ (Zpos d) = ofZ c * ofZ (Zpos b)) by (rewrite <- !ofZ_mul; f_equal; exact H).
  pose proof (ofZ_pos_neq0 b). pose proof (ofZ_pos_neq0 d).
  field_simplify_eq; [rewrite E; ring | split; assumption].
Qed.

Lemma ofQ_inj : forall p q, ofQ p = ofQ q -> (p == q)%Q.
Proof.
  intros [a b] [c d] H. unfold ofQ in H. cbn [Qnum Qden] in H. unfold Qeq. cbn [Qnum Qden].
  apply ofZ_inj. rewrite !ofZ_mul.
  pose proof (ofZ_pos_neq0 b) as Hb. pose proof (ofZ_pos_neq0 d) as Hd.
  transitivity ((ofZ a / ofZ (Zpos b)) * (ofZ (Zpos b) * ofZ (Zpos d))); [field; exact Hb|].
  rewrite H. field. exact Hd.
Qed.

Lemma ofQ_Qred : forall q, ofQ (Qred q) = ofQ q.
Proof. intro q. apply ofQ_Qeq. apply Qred_correct. Qed.

Lemma ofQ_inject_Z : forall z, ofQ (inject_Z z) = ofZ z.
Proof. intro z. unfold ofQ, inject_Z. cbn [Qnum Qden]. rewrite ofZ_1. field. apply (F_1_neq_0 Fth). Qed.

Lemma ofQ_0 : ofQ 0%Q = 0.
Proof. change 0%Q with (inject_Z 0). rewrite ofQ_inject_Z. apply ofZ_0. Qed.

Lemma ofQ_1 : ofQ 1%Q = 1.
Proof. change 1%Q with (inject_Z 1). rewrite ofQ_inject_Z. apply ofZ_1. Qed.

Lemma ofQ_add : forall p q, ofQ (p + q)%Q = ofQ p + ofQ q.
Proof.
  intros [a b] [c d]. unfold ofQ, Qplus. cbn [Qnum Qden].
  rewrite Pos2Z.inj_mul, ofZ_add, !ofZ_mul.
  pose proof (ofZ_pos_neq0 b). pose proof (ofZ_pos_neq0 d).
  field. split; assumption.
Qed.

Lemma ofQ_mul : forall p q, ofQ (p * q)%Q = ofQ p * ofQ q.
Proof.
  intros [a b] [c d]. unfold ofQ, Qmult. cbn [Qnum Qden].
  rewrite Pos2Z.inj_mul, !ofZ_mul.
  pose proof (ofZ_pos_neq0 b). pose proof (ofZ_pos_neq0 d).
  field. split; assumption.
Qed.

Lemma ofQ_opp : forall p, ofQ (- p)%Q = - ofQ p.
Proof.
  intros [a b]. unfold ofQ, Qopp. cbn [Qnum Qden]. rewrite ofZ_opp.
  pose proof (ofZ_pos_neq0 b). field. assumption.
Qed.

Lemma ofQ_sub : forall p q, ofQ (p - q)%Q = ofQ p - ofQ q.
Proof. intros. unfold Qminus. rewrite ofQ_add, ofQ_opp. ring. Qed.

Lemma ofQ_neq0 : forall q, ~ (q == 0)%Q -> ofQ q <> 0.
Proof. intros q H E. apply H. apply ofQ_inj. rewrite E. symmetry. apply ofQ_0. Qed.

Lemma ofQ_eq0 : forall q, (q == 0)%Q -> ofQ q = 0.
Proof. intros q H. rewrite (ofQ_Qeq _ _ H). apply ofQ_0. Qed.

Lemma ofQ_inv : forall p, ~ (p == 0)%Q -> ofQ (/ p)%Q = 1 / ofQ p.
Proof.
  intros p Hp.
  assert (E : ofQ (/ p)%Q * ofQ p = 1).
  { rewrite <- ofQ_mul. rewrite <- ofQ_1. apply ofQ_Qeq. rewrite Qmult_comm. apply Qmult_inv_r. exact Hp. }
  pose proof (ofQ_neq0 _ Hp) as Hn.
  transitivity ((ofQ (/ p)%Q * ofQ p) / ofQ p); [field; exact Hn | rewrite E; reflexivity].
Qed.

Lemma ofQ_div : forall p q, ~ (q == 0)%Q -> ofQ (p / q)%Q = ofQ p / ofQ q.
Proof.
  intros p q Hq. unfold Qdiv. rewrite ofQ_mul, ofQ_inv by exact Hq.
  field. apply ofQ_neq0. exact Hq.
Qed.

Lemma is0_true : forall q, is0 q = true -> (q == 0)%Q.
Proof. intros q H. apply Qeq_bool_iff. exact H. Qed.

Lemma is0_false : forall q, is0 q = false -> ~ (q == 0)%Q.
Proof. intros q H E. apply Qeq_bool_iff in E. unfold is0 in H. congruence. Qed.

(* ---------------------------------------------------------------- evaluation of templates *)
Variable fsqrt : F -> F.
Variable fcbrt : F -> F.
Variable fi : F.

Fixpoint eval (e : rx) : F :=
  match e with
  | RQ q => ofQ q
  | RI => fi
  | RNeg a => - eval a
  | RAdd a b => eval a + eval b
  | RSub a b => eval a - eval b
  | RMul a b => eval a * eval b
  | RDiv a b => eval a / eval b
  | RSqrt a => fsqrt (eval a)
  | RCbrt a => fcbrt (eval a)
  | RAdd4 a b c d => eval a + eval b + eval c + eval d
  | RMul3 a b c => eval a * eval b * eval c
  end.

(* every radical occurring in e satisfies its defining relation *)
Fixpoint rad_ok (e : rx) : Prop :=
  match e with
  | RQ _ => True
  | RI => fi * fi = - (1)
  | RNeg a => rad_ok a
  | RAdd a b | RSub a b | RMul a b | RDiv a b => rad_ok a /\ rad_ok b
  | RSqrt a => rad_ok a /\ fsqrt (eval a) * fsqrt (eval a) = eval a
  | RCbrt a => rad_ok a /\ fcbrt (eval a) * fcbrt (eval a) * fcbrt (eval a) = eval a
  | RAdd4 a b c d => rad_ok a /\ rad_ok b /\ rad_ok c /\ rad_ok d
  | RMul3 a b c => rad_ok a /\ rad_ok b /\ rad_ok c
  end.

(* with total radical functions every template is fine *)
Lemma rad_ok_total :
  (forall x, fsqrt x * fsqrt x = x) -> (forall x, fcbrt x * fcbrt x * fcbrt x = x) -> fi * fi = - (1) ->
  forall e, rad_ok e.
Proof.
  intros Hs Hc Hi. induction e; cbn [rad_ok]; auto.
Qed.

Lemma rx_eqb_eval : forall a b, rx_eqb a b = true -> eval a = eval b.
Proof.
  induction a; destruct b; cbn [rx_eqb eval]; intro H; try discriminate;
    repeat match goal with
           | H : _ && _ = true |- _ => apply andb_prop in H; destruct H
           end;
    repeat match goal with
           | IH : forall b, rx_eqb ?a b = true -> _, H : rx_eqb ?a _ = true |- _ =>
               rewrite (IH _ H); clear IH
           end; try reflexivity.
  apply ofQ_Qeq. apply Qeq_bool_iff. exact H.
Qed.

(* ---------------------------------------------------------------- the folding constructors *)
Lemma eval_rq : forall q, eval (rq q) = ofQ q.
Proof. intro q. unfold rq. cbn [eval]. apply ofQ_Qred. Qed.

Lemma eval_rneg : forall a, eval (rneg a) = - eval a.
Proof. destruct a; cbn [rneg eval]; try reflexivity. rewrite eval_rq. apply ofQ_opp. Qed.

Lemma eval_radd : forall a b, eval (radd a b) = eval a + eval b.
Proof. destruct a, b; cbn [radd eval]; try reflexivity. rewrite eval_rq. apply ofQ_add. Qed.

Lemma eval_rsub : forall a b, eval (rsub a b) = eval a - eval b.
Proof. destruct a, b; cbn [rsub eval]; try reflexivity. rewrite eval_rq. apply ofQ_sub. Qed.

Lemma eval_rmul : forall a b, eval (rmul a b) = eval a * eval b.
Proof. destruct a, b; cbn [rmul eval]; try reflexivity. rewrite eval_rq. apply ofQ_mul. Qed.

Lemma eval_rdiv : forall a b, eval b <> 0 -> eval (rdiv a b) = eval a / eval b.
Proof.
  destruct a, b; cbn [rdiv eval]; try reflexivity. intro H. rewrite eval_rq. apply ofQ_div.
  intro E. apply H. apply ofQ_eq0. exact E.
Qed.

Lemma rad_ok_rq : forall q, rad_ok (rq q). Proof. intro; exact I. Qed.

Lemma rad_ok_rneg : forall a, rad_ok (rneg a) <-> rad_ok a.
Proof. destruct a; cbn [rneg rad_ok]; tauto. Qed.

Lemma rad_ok_radd : forall a b, rad_ok (radd a b) <-> rad_ok a /\ rad_ok b.
Proof. destruct a, b; cbn [radd rad_ok rq]; tauto. Qed.
Lemma rad_ok_rsub : forall a b, rad_ok (rsub a b) <-> rad_ok a /\ rad_ok b.
Proof. destruct a, b; cbn [rsub rad_ok rq]; tauto. Qed.
Lemma rad_ok_rmul : forall a b, rad_ok (rmul a b) <-> rad_ok a /\ rad_ok b.
Proof. destruct a, b; cbn [rmul rad_ok rq]; tauto. Qed.
Lemma rad_ok_rdiv : forall a b, rad_ok (rdiv a b) <-> rad_ok a /\ rad_ok b.
Proof. destruct a, b; cbn [rdiv rad_ok rq]; tauto. Qed.

(* exact square roots *)
Lemma sqrt_exact_sound : forall q t, sqrt_exact q = Some t -> (t * t == q)%Q.
Proof.
  intros [n d] t. unfold sqrt_exact. cbn [Qnum Qden].
  destruct (n * Zpos d <? 0)%Z eqn:Hneg; [discriminate|].
  destruct (Z.sqrt (n * Zpos d) * Z.sqrt (n * Zpos d) =? n * Zpos d)%Z eqn:Hsq; [|discriminate].
  intro H. injection H as <-. apply Z.eqb_eq in Hsq.
  transitivity ((Z.sqrt (n * Zpos d) # d) * (Z.sqrt (n * Zpos d) # d))%Q.
  { apply Qmult_comp; exact (Qred_correct (Z.sqrt (n * Zpos d) # d)). }
  unfold Qeq, Qmult. cbn [Qnum Qden].
  rewrite Hsq. rewrite Pos2Z.inj_mul. ring.
Qed.

Lemma rsqrt_sq : forall a, rad_ok (rsqrt a) -> eval (rsqrt a) * eval (rsqrt a) = eval a.
Proof.
  intros a H. destruct a; cbn [rsqrt] in *; try (cbn [rad_ok eval] in *; tauto).
  destruct (sqrt_exact q) as [t|] eqn:E.
  - cbn [eval]. rewrite <- ofQ_mul. apply ofQ_Qeq. apply sqrt_exact_sound. exact E.
  - cbn [rad_ok eval] in *. tauto.
Qed.

Lemma rad_ok_rsqrt : forall a, rad_ok (rsqrt a) -> rad_ok a.
Proof.
  intros a H. destruct a; cbn [rsqrt] in *; try (cbn [rad_ok] in *; tauto).
Qed.

Lemma cbrt_exact_sound : forall q t, cbrt_exact q = Some t -> (t * t * t == q)%Q.
Proof.
  intros [n d] t. unfold cbrt_exact. cbn [Qnum Qden].
  destruct (0 <? n)%Z; [|discriminate].
  set (a := icbrt n). set (b := icbrt (Zpos d)).
  destruct ((a * a * a =? n)%Z && (b * b * b =? Zpos d)%Z && (0 <? b)%Z) eqn:E; [|discriminate].
  apply andb_prop in E. destruct E as [E Eb]. apply andb_prop in E. destruct E as [Ea Ed].
  apply Z.eqb_eq in Ea. apply Z.eqb_eq in Ed. apply Z.ltb_lt in Eb.
  intro H. injection H as <-.
  transitivity ((a # Z.to_pos b) * (a # Z.to_pos b) * (a # Z.to_pos b))%Q.
  { apply Qmult_comp; [apply Qmult_comp|]; exact (Qred_correct (a # Z.to_pos b)). }
  unfold Qeq, Qmult. cbn [Qnum Qden]. rewrite !Pos2Z.inj_mul, Z2Pos.id by exact Eb.
  rewrite Ea, Ed. ring.
Qed.

Lemma rcbrt_cube : forall a, rad_ok (rcbrt a) ->
  eval (rcbrt a) * eval (rcbrt a) * eval (rcbrt a) = eval a.
Proof.
  intros a H. destruct a; cbn [rcbrt] in *; try (cbn [rad_ok eval] in *; tauto).
  destruct (cbrt_exact q) as [t|] eqn:E.
  - cbn [eval]. rewrite <- !ofQ_mul. apply ofQ_Qeq. apply cbrt_exact_sound. exact E.
  - cbn [rad_ok eval] in *. tauto.
Qed.

Lemma rad_ok_rcbrt : forall a, rad_ok (rcbrt a) -> rad_ok a.
Proof.
  intros a H. destruct a; cbn [rcbrt] in *; try (cbn [rad_ok] in *; tauto).
Qed.

Lemma eval_radd4 : forall a b c d, eval (radd4 a b c d) = eval a + eval b + eval c + eval d.
Proof.
  intros a b c d. unfold radd4.
  destruct a; try reflexivity. destruct b; try reflexivity. destruct c; try reflexivity.
  destruct d; try reflexivity. rewrite eval_rq. cbn [eval]. rewrite !ofQ_add. reflexivity.
Qed.

Lemma eval_rmul3 : forall a b c, eval (rmul3 a b c) = eval a * eval b * eval c.
Proof.
  intros a b c. unfold rmul3.
  destruct a; try reflexivity. destruct b; try reflexivity. destruct c; try reflexivity.
  rewrite eval_rq. cbn [eval]. rewrite !ofQ_mul. reflexivity.
Qed.

Lemma rad_ok_radd4 : forall a b c d,
  rad_ok (radd4 a b c d) <-> rad_ok a /\ rad_ok b /\ rad_ok c /\ rad_ok d.
Proof.
  intros a b c d. unfold radd4.
  destruct a; try (cbn [rad_ok]; tauto). destruct b; try (cbn [rad_ok]; tauto).
  destruct c; try (cbn [rad_ok]; tauto). destruct d; cbn [rad_ok rq]; tauto.
Qed.

Lemma rad_ok_rmul3 : forall a b c, rad_ok (rmul3 a b c) <-> rad_ok a /\ rad_ok b /\ rad_ok c.
Proof.
  intros a b c. unfold rmul3.
  destruct a; try (cbn [rad_ok]; tauto). destruct b; try (cbn [rad_ok]; tauto).
  destruct c; cbn [rad_ok rq]; tauto.
Qed.

(* sets *)
Lemma set_mem_eval : forall x l, set_mem x l = true -> exists y, In y l /\ eval x = eval y.
Proof.
  intros x l H. unfold set_mem in H. apply existsb_exists in H. destruct H as [y [Hy E]].
  exists y. split; [exact Hy | apply rx_eqb_eval; exact E].
Qed.

Lemma rx_eqb_refl : forall a, rx_eqb a a = true.
Proof.
  induction a; cbn [rx_eqb]; rewrite ?IHa, ?IHa1, ?IHa2, ?IHa3, ?IHa4; try reflexivity.
  apply Qeq_bool_iff. reflexivity.
Qed.

Lemma set_insert_in : forall x l y, In y (set_insert x l) <-> (In y l \/ (y = x /\ set_mem x l = false)).
Proof.
  intros x l y. unfold set_insert. destruct (set_mem x l) eqn:E.
  - split; [tauto | intros [H | [_ H]]; [exact H | discriminate]].
  - rewrite in_app_iff. cbn [In]. split.
    + intros [H | [H | []]]; [left; exact H | right; split; [symmetry; exact H | reflexivity]].
    + intros [H | [H _]]; [left; exact H | right; left; symmetry; exact H].
Qed.

(* the values denoted by the members of a list *)
Definition vals (l : list rx) (v : F) : Prop := exists r, In r l /\ eval r = v.

Lemma vals_set_insert : forall x l v, vals (set_insert x l) v <-> (vals l v \/ v = eval x).
Proof.
  intros x l v. unfold vals. split.
  - intros [r [Hr E]]. apply set_insert_in in Hr. destruct Hr as [Hr | [-> _]].
    + left. exists r. tauto.
    + right. symmetry. exact E.
  - intros [[r [Hr E]] | ->].
    + exists r. split; [apply set_insert_in; left; exact Hr | exact E].
    + destruct (set_mem x l) eqn:M.
      * destruct (set_mem_eval _ _ M) as [y [Hy Ey]]. exists y.
        split; [apply set_insert_in; left; exact Hy | symmetry; exact Ey].
      * exists x. split; [apply set_insert_in; right; split; reflexivity || exact M | reflexivity].
Qed.

Lemma vals_fold_insert : forall l s v,
  vals (fold_left (fun s x => set_insert x s) l s) v <-> (vals s v \/ vals l v).
Proof.
  induction l as [|x l IH]; intros s v; cbn [fold_left].
  - unfold vals at 3. split; [tauto | intros [H | [r [[] _]]]; exact H].
  - rewrite IH, vals_set_insert. unfold vals at 3 4. cbn [In]. split.
    + intros [[H | ->] | [r [Hr E]]]; [tauto | right; exists x; tauto | right; exists r; tauto].
    + intros [H | [r [[-> | Hr] E]]]; [tauto | left; right; symmetry; exact E | right; exists r; tauto].
Qed.

Lemma vals_set_of : forall l v, vals (set_of l) v <-> vals l v.
Proof.
  intros l v. unfold set_of. rewrite vals_fold_insert. unfold vals at 1. cbn [In].
  split; [intros [[r [[] _]] | H]; exact H | tauto].
Qed.

Lemma in_set_insert_sub : forall x l y, In y (set_insert x l) -> In y l \/ y = x.
Proof. intros x l y H. apply set_insert_in in H. tauto. Qed.

Lemma in_fold_insert_sub : forall l s y,
  In y (fold_left (fun s x => set_insert x s) l s) -> In y s \/ In y l.
Proof.
  induction l as [|x l IH]; intros s y H; cbn [fold_left] in H; [left; exact H|].
  apply IH in H. destruct H as [H | H]; [|right; right; exact H].
  apply in_set_insert_sub in H. cbn [In]. destruct H as [H | ->]; [left; exact H | right; left; reflexivity].
Qed.

Lemma in_set_of_sub : forall l y, In y (set_of l) -> In y l.
Proof. intros l y H. apply in_fold_insert_sub in H. destruct H as [[] | H]; exact H. Qed.


(* ---------------------------------------------------------------- pure field algebra *)
Notation Z_ := ofZ.
Ltac numerals := unfold ofZ in *; cbn [gen_phiZ gen_phiPOS gen_phiPOS1] in *.

Ltac unfold_cls :=
  cbv [R2 one zero addition multiplication subtraction opposite equality K_ops add_notation
       mul_notation sub_notation opp_notation eq_notation one_notation zero_notation] in *.

Ltac nsatz_side :=
  match goal with
  | |- ~ _ (interpret3 (PEc ?z) _) _ =>
      let E := fresh "E" in
      intro E; apply (ofZ_neq0 z); [lia|];
      etransitivity; [|exact E]; cbn; unfold ofZ; cbn [gen_phiZ gen_phiPOS gen_phiPOS1];
      unfold_cls; ring
  end.

Ltac nsatz' := nsatz; try nsatz_side.

Lemma mul_neq0 : forall a b : F, a <> 0 -> b <> 0 -> a * b <> 0.
Proof. intros a b Ha Hb E. destruct (F_integral _ _ E); contradiction. Qed.

Ltac solve_nz := repeat split; repeat (apply mul_neq0); assumption.

Lemma two_neq0 : Z_ 2 <> 0. Proof. apply ofZ_pos_neq0. Qed.
Lemma three_neq0 : Z_ 3 <> 0. Proof. apply ofZ_pos_neq0. Qed.

Lemma quad_factor : forall b c s x, s * s = b * b - Z_ 4 * c ->
  x * x + b * x + c = (x - (- b / Z_ 2 + s / Z_ 2)) * (x - (- b / Z_ 2 - s / Z_ 2)).
Proof.
  intros b c s x H. pose proof two_neq0 as H2. numerals.
  field_simplify_eq; [|exact H2]. nsatz.
Qed.

Lemma cubic_core : forall b c d u v w1 w2,
  w1 * w2 = 1 -> w1 + w2 = - (1) ->
  u * v = b * b - Z_ 3 * c ->
  u * u * u + v * v * v = b * b * b * Z_ 2 - Z_ 9 * b * c + Z_ 27 * d ->
  let r1 := - ((b + (u + v)) / Z_ 3) in
  let r2 := - ((b + (w1 * u + w2 * v)) / Z_ 3) in
  let r3 := - ((b + (w2 * u + w1 * v)) / Z_ 3) in
  r1 + r2 + r3 = - b /\ r1 * r2 + r1 * r3 + r2 * r3 = c /\ r1 * r2 * r3 = - d.
Proof.
  intros b c d u v w1 w2 H1 H2 H3 H4 r1 r2 r3. subst r1 r2 r3.
  pose proof three_neq0 as N3. numerals.
  repeat split; (field_simplify_eq; [|exact N3]); nsatz.
Qed.

Lemma omega_facts : forall i s3, i * i = - (1) -> s3 * s3 = Z_ 3 ->
  let w1 := - (1 / Z_ 2) + (i * s3) / Z_ 2 in
  let w2 := - (1 / Z_ 2) - (i * s3) / Z_ 2 in
  w1 * w2 = 1 /\ w1 + w2 = - (1).
Proof.
  intros i s3 Hi Hs w1 w2. subst w1 w2. pose proof two_neq0 as N2. numerals.
  split; (field_simplify_eq; [|exact N2]); nsatz.
Qed.

Lemma cubic_uv : forall d0 d1 t C,
  t * t = d1 * d1 - Z_ 4 * (d0 * d0 * d0) ->
  (C * C * C = (d1 + t) / Z_ 2 \/ C * C * C = (d1 - t) / Z_ 2) -> C <> 0 ->
  C * (d0 / C) = d0 /\ C * C * C + (d0 / C) * (d0 / C) * (d0 / C) = d1.
Proof.
  intros d0 d1 t C Ht HC HC0. pose proof two_neq0 as N2.
  split; [field; exact HC0|].
  assert (E : C * C * C * (C * C * C) - d1 * (C * C * C) + d0 * d0 * d0 = 0).
  { destruct HC as [HC | HC]; rewrite HC; numerals; (field_simplify_eq; [|exact N2]); nsatz. }
  field_simplify_eq; [|exact HC0]. nsatz.
Qed.

Lemma cubic_general : forall b c d t C i s3,
  let d0 := b * b - Z_ 3 * c in
  let d1 := b * b * b * Z_ 2 - Z_ 9 * b * c + Z_ 27 * d in
  t * t = d1 * d1 - Z_ 4 * (d0 * d0 * d0) ->
  (C * C * C = (d1 + t) / Z_ 2 \/ C * C * C = (d1 - t) / Z_ 2) -> C <> 0 ->
  i * i = - (1) -> s3 * s3 = Z_ 3 ->
  let w1 := - (1 / Z_ 2) + (i * s3) / Z_ 2 in
  let w2 := - (1 / Z_ 2) - (i * s3) / Z_ 2 in
  let r1 := - ((b + (C + d0 / C)) / Z_ 3) in
  let r2 := - ((b + (w1 * C + d0 / (w1 * C))) / Z_ 3) in
  let r3 := - ((b + (w2 * C + d0 / (w2 * C))) / Z_ 3) in
  (w1 * C <> 0 /\ w2 * C <> 0) /\
  r1 + r2 + r3 = - b /\ r1 * r2 + r1 * r3 + r2 * r3 = c /\ r1 * r2 * r3 = - d.
Proof.
  intros b c d t C i s3 d0 d1 Ht HC HC0 Hi Hs w1 w2 r1 r2 r3.
  destruct (omega_facts i s3 Hi Hs) as [W12 Wsum]. fold w1 w2 in W12, Wsum.
  assert (W1 : w1 <> 0).
  { intro E. rewrite E in W12. apply (F_1_neq_0 Fth). rewrite <- W12. ring. }
  assert (W2 : w2 <> 0).
  { intro E. rewrite E in W12. apply (F_1_neq_0 Fth). rewrite <- W12. ring. }
  assert (N1 : w1 * C <> 0).
  { intro E. destruct (F_integral _ _ E); contradiction. }
  assert (N2 : w2 * C <> 0).
  { intro E. destruct (F_integral _ _ E); contradiction. }
  split; [split; assumption|].
  destruct (cubic_uv d0 d1 t C Ht HC HC0) as [Huv Hsum].
  assert (E1 : d0 / (w1 * C) = w2 * (d0 / C)).
  { field_simplify_eq; [|split; assumption]. nsatz. }
  assert (E2 : d0 / (w2 * C) = w1 * (d0 / C)).
  { field_simplify_eq; [|split; assumption]. nsatz. }
  subst r2 r3. rewrite E1, E2.
  exact (cubic_core b c d C (d0 / C) w1 w2 W12 Wsum Huv Hsum).
Qed.

Lemma cubic_double : forall b c d,
  let d0 := b * b - Z_ 3 * c in
  let d1 := b * b * b * Z_ 2 - Z_ 9 * b * c + Z_ 27 * d in
  d0 <> 0 -> Z_ 4 * (d0 * d0 * d0) - d1 * d1 = 0 ->
  let r12 := (Z_ 9 * d - b * c) / (Z_ 2 * d0) in
  let r3 := (Z_ 4 * b * c - (d * Z_ 9 + b * b * b)) / d0 in
  r12 + r12 + r3 = - b /\ r12 * r12 + r12 * r3 + r12 * r3 = c /\ r12 * r12 * r3 = - d.
Proof.
  intros b c d d0 d1 Hd0 Hdelta r12 r3.
  pose proof two_neq0 as N2.
  set (j := 1 / d0). set (h := 1 / Z_ 2).
  assert (Hj : j * d0 = 1) by (unfold j; field; exact Hd0).
  assert (Hh : h * Z_ 2 = 1) by (unfold h; field; exact N2).
  assert (E12 : r12 = (Z_ 9 * d - b * c) * j * h) by (unfold r12, j, h; field; split; assumption).
  assert (E3 : r3 = (Z_ 4 * b * c - (d * Z_ 9 + b * b * b)) * j) by (unfold r3, j; field; assumption).
  rewrite E12, E3. clearbody j h. clear E12 E3 r12 r3 N2 Hd0. subst d0 d1. numerals.
  repeat split; nsatz'.
Qed.

Lemma cubic_triple : forall b c d,
  let d0 := b * b - Z_ 3 * c in
  let d1 := b * b * b * Z_ 2 - Z_ 9 * b * c + Z_ 27 * d in
  d0 = 0 -> d1 = 0 ->
  let r := - b / Z_ 3 in
  r + r + r = - b /\ r * r + r * r + r * r = c /\ r * r * r = - d.
Proof.
  intros b c d d0 d1 Hd0 Hd1 r. subst r d0 d1.
  pose proof three_neq0 as N3. numerals.
  repeat split; (field_simplify_eq; [|assumption]); nsatz.
Qed.

Lemma vieta3_factor : forall b c d r1 r2 r3 x,
  r1 + r2 + r3 = - b -> r1 * r2 + r1 * r3 + r2 * r3 = c -> r1 * r2 * r3 = - d ->
  x * x * x + b * x * x + c * x + d = (x - r1) * (x - r2) * (x - r3).
Proof. intros. nsatz. Qed.

Lemma depress : forall a b c d x,
  let sqa := a * a in
  let cba := sqa * a in
  let e := b - (Z_ 3 * sqa) / Z_ 8 in
  let ff := (c + cba / Z_ 8) - (a * b) / Z_ 2 in
  let g := (d + (sqa * b) / Z_ 16) - ((a * c) / Z_ 4 + (Z_ 3 * cba * a) / Z_ 256) in
  let y := x + a / Z_ 4 in
  x * x * x * x + a * x * x * x + b * x * x + c * x + d
  = y * y * y * y + e * y * y + ff * y + g.
Proof.
  intros. subst sqa cba e ff g y. pose proof two_neq0 as N2. numerals.
  field. solve_nz.
Qed.

Lemma euler : forall e ff g z1 z2 z3 p q y,
  z1 + z2 + z3 = - (e / Z_ 2) ->
  z1 * z2 + z1 * z3 + z2 * z3 = (e * e - Z_ 4 * g) / Z_ 16 ->
  z1 * z2 * z3 = (ff * ff) / Z_ 64 ->
  p * p = z1 -> q * q = z2 -> ff <> 0 ->
  let r := (- ff) / (Z_ 8 * p * q) in
  (Z_ 8 * p * q <> 0) /\
  y * y * y * y + e * y * y + ff * y + g
  = (y - (p + q + r)) * (y - (p + - q + - r)) * (y - (- p + q + - r)) * (y - (- p + - q + r)).
Proof.
  intros e ff g z1 z2 z3 p q y H1 H2 H3 Hp Hq Hff r. subst r.
  pose proof two_neq0 as N2.
  assert (E1 : Z_ 2 * (z1 + z2 + z3) = - e) by (rewrite H1; numerals; field; solve_nz).
  assert (E2 : Z_ 16 * (z1 * z2 + z1 * z3 + z2 * z3) = e * e - Z_ 4 * g)
    by (rewrite H2; numerals; field; solve_nz).
  assert (E3 : Z_ 64 * (z1 * z2 * z3) = ff * ff) by (rewrite H3; numerals; field; solve_nz).
  clear H1 H2 H3.
  assert (Np : p <> 0).
  { intro E. apply Hff. subst p. assert (Z0 : z1 = 0) by (rewrite <- Hp; ring).
    assert (E4 : ff * ff = 0) by (rewrite <- E3, Z0; ring).
    destruct (F_integral _ _ E4); assumption. }
  assert (Nq : q <> 0).
  { intro E. apply Hff. subst q. assert (Z0 : z2 = 0) by (rewrite <- Hq; ring).
    assert (E4 : ff * ff = 0) by (rewrite <- E3, Z0; ring).
    destruct (F_integral _ _ E4); assumption. }
  assert (N8 : Z_ 8 * p * q <> 0).
  { repeat apply mul_neq0; try assumption; try apply ofZ_pos_neq0. }
  split; [exact N8|].
  numerals.
  field_simplify_eq; [|solve_nz].
  nsatz'.
Qed.

(* ---------------------------------------------------------------- helpers *)
Lemma ofQ_int : forall z, ofQ (z # 1) = ofZ z.
Proof. intro z. exact (ofQ_inject_Z z). Qed.

Lemma rx_eqb_rad_ok : forall a b, rx_eqb a b = true -> (rad_ok a <-> rad_ok b).
Proof.
  induction a; destruct b; cbn [rx_eqb]; intro H; try discriminate; cbn [rad_ok];
    repeat match goal with
           | H : _ && _ = true |- _ => apply andb_prop in H; destruct H
           end; try tauto.
  - apply IHa; assumption.
  - rewrite (IHa1 _ H), (IHa2 _ H0). tauto.
  - rewrite (IHa1 _ H), (IHa2 _ H0). tauto.
  - rewrite (IHa1 _ H), (IHa2 _ H0). tauto.
  - rewrite (IHa1 _ H), (IHa2 _ H0). tauto.
  - rewrite (IHa _ H). cbn [eval]. rewrite (rx_eqb_eval _ _ H). tauto.
  - rewrite (IHa _ H). cbn [eval]. rewrite (rx_eqb_eval _ _ H). tauto.
  - rewrite (IHa1 _ H), (IHa2 _ H2), (IHa3 _ H1), (IHa4 _ H0). tauto.
  - rewrite (IHa1 _ H), (IHa2 _ H1), (IHa3 _ H0). tauto.
Qed.

Ltac qnz := first [ assumption
                  | let X := fresh in intro X; unfold Qeq in X; cbn in X; lia ].

Ltac pushQ :=
  repeat (rewrite ?ofQ_add, ?ofQ_mul, ?ofQ_sub, ?ofQ_opp, ?ofQ_int, ?ofZ_1, ?ofZ_0;
          try (rewrite ofQ_div by qnz)).

(* a perfect square times a square is a square only if ... : completeness of sqrt_exact *)
Lemma Zsquare_factor : forall m k b : Z, (0 < b)%Z -> (m * (b * b) = k * k)%Z -> exists j, (m = j * j)%Z.
Proof.
  intros m k b Hb H.
  set (g := Z.gcd k b).
  assert (Hg : (g <> 0)%Z) by (unfold g; intro E; apply Z.gcd_eq_0_r in E; lia).
  assert (Hg0 : (0 < g)%Z) by (pose proof (Z.gcd_nonneg k b); unfold g in *; lia).
  destruct (Z.gcd_divide_l k b) as [k' Hk]. destruct (Z.gcd_divide_r k b) as [b' Hb'].
  fold g in Hk, Hb'.
  assert (Hcop : Z.gcd k' b' = 1%Z).
  { pose proof (Z.gcd_div_gcd k b g Hg eq_refl) as X.
    assert (X1 : (k / g = k')%Z) by (rewrite Hk; apply Z.div_mul; exact Hg).
    assert (X2 : (b / g = b')%Z) by (rewrite Hb'; apply Z.div_mul; exact Hg).
    rewrite X1, X2 in X. exact X. }
  assert (E : (m * (b' * b') = k' * k')%Z).
  { apply (Z.mul_reg_r _ _ (g * g)); [nia|]. rewrite Hk, Hb' in H. nia. }
  assert (D : (b' | k')%Z).
  { apply (Z.gauss b' k' k'); [exists (m * b')%Z; lia | rewrite Z.gcd_comm; exact Hcop]. }
  assert (D1 : (b' | 1)%Z).
  { rewrite <- Hcop. apply Z.gcd_greatest; [exact D | apply Z.divide_refl]. }
  apply Z.divide_1_r in D1.
  exists k'. destruct D1 as [-> | ->]; lia.
Qed.

Lemma sqrt_exact_complete : forall q r : Q, (r * r == q)%Q -> sqrt_exact q <> None.
Proof.
  intros [n d] [a b] H. unfold Qeq, Qmult in H. cbn [Qnum Qden] in H.
  unfold sqrt_exact. cbn [Qnum Qden].
  assert (E : (n * Zpos d * (Zpos b * Zpos b) = (a * Zpos d) * (a * Zpos d))%Z).
  { rewrite Pos2Z.inj_mul in H. nia. }
  destruct (Zsquare_factor _ _ _ (Pos2Z.is_pos b) E) as [j Hj].
  rewrite Hj.
  assert (Hn : (j * j <? 0)%Z = false) by (apply Z.ltb_ge; nia).
  rewrite Hn.
  assert (Hs : (Z.sqrt (j * j) * Z.sqrt (j * j) =? j * j)%Z = true).
  { apply Z.eqb_eq. replace (j * j)%Z with (Z.abs j * Z.abs j)%Z by nia.
    rewrite Z.sqrt_square by apply Z.abs_nonneg. reflexivity. }
  rewrite Hs. discriminate.
Qed.

(* an unfolded square root of a rational is not rational *)
Lemma rsqrt_unfolded_irrational : forall q r,
  sqrt_exact q = None -> fsqrt (ofQ q) * fsqrt (ofQ q) = ofQ q -> fsqrt (ofQ q) <> ofQ r.
Proof.
  intros q r Hn Hs E. apply (sqrt_exact_complete q r); [|exact Hn].
  apply ofQ_inj. rewrite ofQ_mul, <- E. exact Hs.
Qed.

(* ---------------------------------------------------------------- polynomials *)
Fixpoint peval (cs : list Q) (x : F) : F :=
  match cs with
  | [] => 0
  | c :: r => ofQ c + x * peval r x
  end.

(* ---------------------------------------------------------------- linear *)
Theorem linear_exact : forall c0 c1, ~ (c1 == 0)%Q ->
  exists r, solve_poly_linear [c0; c1] = Ok [r] /\
            forall x, peval [c0; c1] x = 0 <-> x = eval r.
Proof.
  intros c0 c1 H1. eexists. split; [reflexivity|].
  intro x. cbn [peval]. rewrite eval_rneg, eval_rdiv, !eval_rq by (rewrite eval_rq; apply ofQ_neq0; exact H1).
  pose proof (ofQ_neq0 _ H1) as N1.
  split; intro H.
  - assert (E : x = - (ofQ c0) / ofQ c1).
    { transitivity ((ofQ c0 + x * (ofQ c1 + x * 0) - ofQ c0) / ofQ c1); [field; exact N1|]. rewrite H. field. exact N1. }
    rewrite E. field. exact N1.
  - rewrite H. field. exact N1.
Qed.

(* ---------------------------------------------------------------- quadratic *)
Lemma quadratic_vieta : forall c0 c1 c2, ~ (c2 == 0)%Q ->
  let rr := quadratic_roots c0 c1 c2 in
  rad_ok (fst rr) -> rad_ok (snd rr) ->
  eval (fst rr) + eval (snd rr) = - (ofQ c1 / ofQ c2) /\ eval (fst rr) * eval (snd rr) = ofQ c0 / ofQ c2.
Proof.
  intros c0 c1 c2 H2 rr. subst rr. unfold quadratic_roots. cbv zeta.
  pose proof (ofQ_neq0 _ H2) as N2. pose proof two_neq0 as T2.
  assert (EB : ofQ (c1 / c2) = ofQ c1 / ofQ c2) by (apply ofQ_div; exact H2).
  assert (EC : ofQ (c0 / c2) = ofQ c0 / ofQ c2) by (apply ofQ_div; exact H2).
  destruct (is0 (c0 / c2)) eqn:Ec; [|destruct (is0 (c1 / c2)) eqn:Eb]; cbn [fst snd]; intros O1 O2.
  - rewrite !eval_rq. rewrite ofQ_opp, ofQ_0, EB.
    apply is0_true in Ec. apply ofQ_eq0 in Ec. rewrite EC in Ec. rewrite Ec.
    split; ring.
  - apply is0_true in Eb. apply ofQ_eq0 in Eb. rewrite EB in Eb.
    rewrite eval_rneg. pose proof (rsqrt_sq _ O1) as S. rewrite eval_rq, ofQ_opp, EC in S.
    set (s := eval (rsqrt (rq (- (c0 / c2))))) in *. clearbody s.
    rewrite Eb. split; [ring|].
    transitivity (- (s * s)); [ring|]. rewrite S. ring.
  - apply rad_ok_radd in O1. destruct O1 as [_ O1]. apply rad_ok_rdiv in O1. destruct O1 as [O1 _].
    pose proof (rsqrt_sq _ O1) as S. rewrite eval_rq in S.
    assert (N : eval (rq 2) <> 0) by (rewrite eval_rq, ofQ_int; exact T2).
    rewrite eval_radd, eval_rsub, !eval_rdiv, !eval_rq by exact N.
    set (s := eval (rsqrt (rq (c1 / c2 * (c1 / c2) - 4 * (c0 / c2))))) in *. clearbody s.
    revert S. pushQ. rewrite ?EB, ?EC.
    set (B := ofQ c1 / ofQ c2). set (C := ofQ c0 / ofQ c2). clearbody B C. intro S.
    numerals.
    split; (field_simplify_eq; [|exact T2]); nsatz'.
Qed.

Theorem quadratic_factor : forall c0 c1 c2, ~ (c2 == 0)%Q ->
  let rr := quadratic_roots c0 c1 c2 in
  rad_ok (fst rr) -> rad_ok (snd rr) ->
  forall x, peval [c0; c1; c2] x = ofQ c2 * (x - eval (fst rr)) * (x - eval (snd rr)).
Proof.
  intros c0 c1 c2 H2 rr O1 O2 x.
  destruct (quadratic_vieta _ _ _ H2 O1 O2) as [V1 V2]. fold rr in V1, V2.
  pose proof (ofQ_neq0 _ H2) as N2. cbn [peval].
  assert (E1 : ofQ c1 = - (ofQ c2 * (eval (fst rr) + eval (snd rr)))) by (rewrite V1; field; exact N2).
  assert (E0 : ofQ c0 = ofQ c2 * (eval (fst rr) * eval (snd rr))) by (rewrite V2; field; exact N2).
  rewrite E1, E0. ring.
Qed.


(* ---------------------------------------------------------------- cubic *)
Definition t1 (t : rx * rx * rx) : rx := fst (fst t).
Definition t2 (t : rx * rx * rx) : rx := snd (fst t).
Definition t3 (t : rx * rx * rx) : rx := snd t.

Lemma is_zero_eval : forall e, is_zero e = true -> eval e = 0.
Proof.
  intros e H. destruct e; cbn [is_zero] in H; try discriminate.
  cbn [eval]. apply ofQ_eq0. apply is0_true. exact H.
Qed.

Lemma three_neq0' : eval (rq 3) <> 0.
Proof. rewrite eval_rq, ofQ_int. apply ofZ_pos_neq0. Qed.
Lemma two_neq0' : eval (rq 2) <> 0.
Proof. rewrite eval_rq, ofQ_int. apply ofZ_pos_neq0. Qed.

Ltac rad_dec H :=
  repeat (rewrite ?rad_ok_rneg, ?rad_ok_rdiv, ?rad_ok_radd, ?rad_ok_rsub, ?rad_ok_rmul in H).

Lemma cubic_vieta : forall c0 c1 c2 c3, ~ (c3 == 0)%Q ->
  let t := cubic_roots c0 c1 c2 c3 in
  rad_ok (t1 t) -> rad_ok (t2 t) -> rad_ok (t3 t) ->
  eval (t1 t) + eval (t2 t) + eval (t3 t) = - (ofQ c2 / ofQ c3) /\
  eval (t1 t) * eval (t2 t) + eval (t1 t) * eval (t3 t) + eval (t2 t) * eval (t3 t) = ofQ c1 / ofQ c3 /\
  eval (t1 t) * eval (t2 t) * eval (t3 t) = - (ofQ c0 / ofQ c3).
Proof.
  intros c0 c1 c2 c3 H3 t. subst t. unfold cubic_roots. cbv zeta.
  pose proof (ofQ_neq0 _ H3) as N3. pose proof two_neq0 as T2. pose proof three_neq0 as T3.
  assert (EB : ofQ (c2 / c3) = ofQ c2 / ofQ c3) by (apply ofQ_div; exact H3).
  assert (EC : ofQ (c1 / c3) = ofQ c1 / ofQ c3) by (apply ofQ_div; exact H3).
  assert (ED : ofQ (c0 / c3) = ofQ c0 / ofQ c3) by (apply ofQ_div; exact H3).
  set (b := (c2 / c3)%Q) in *. set (c := (c1 / c3)%Q) in *. set (d := (c0 / c3)%Q) in *.
  set (B := ofQ c2 / ofQ c3) in *. set (C := ofQ c1 / ofQ c3) in *. set (D := ofQ c0 / ofQ c3) in *.
  clearbody b c d B C D.
  destruct (is0 d) eqn:Ed.
  - (* d == 0 *)
    apply is0_true in Ed. apply ofQ_eq0 in Ed. rewrite ED in Ed.
    assert (H1 : ~ (1 == 0)%Q) by qnz.
    assert (X1 : forall z, z / 1 = z) by (intro z; field; apply (F_1_neq_0 Fth)).
    pose proof (quadratic_vieta c b 1 H1) as QV. cbv zeta in QV.
    destruct (quadratic_roots c b 1) as [q1 q2]. cbn [fst snd] in QV.
    unfold set_of, set_insert, set_mem. cbn [fold_left existsb app orb].
    destruct (rx_eqb q2 q1) eqn:E21; cbn [orb app t1 t2 t3 fst snd]; intros O1 O2 O3.
    + assert (O2' : rad_ok q2) by (apply (rx_eqb_rad_ok _ _ E21); exact O2).
      destruct (QV O2 O2') as [V1 V2]. rewrite (rx_eqb_eval _ _ E21) in V1, V2.
      rewrite ofQ_1, EB, X1 in V1. rewrite ofQ_1, EC, X1 in V2. rewrite eval_rq, ofQ_0, Ed.
      set (v := eval q1) in *. clearbody v.
      repeat split; nsatz'.
    + destruct (QV O2 O3) as [V1 V2].
      rewrite ofQ_1, EB, X1 in V1. rewrite ofQ_1, EC, X1 in V2. rewrite eval_rq, ofQ_0, Ed.
      set (v := eval q1) in *. set (w := eval q2) in *. clearbody v w.
      repeat split; nsatz'.
  - (* d <> 0 *)
    set (delta0 := (b * b - 3 * c)%Q).
    set (delta1 := (b * b * b * 2 - 9 * b * c + 27 * d)%Q).
    set (delta := ((4 * (delta0 * delta0 * delta0) - delta1 * delta1) / 27)%Q).
    assert (ED0 : ofQ delta0 = B * B - Z_ 3 * C) by (unfold delta0; pushQ; rewrite EB, EC; reflexivity).
    assert (ED1 : ofQ delta1 = B * B * B * Z_ 2 - Z_ 9 * B * C + Z_ 27 * D)
      by (unfold delta1; pushQ; rewrite EB, EC, ED; reflexivity).
    assert (EDl : ofQ delta = (Z_ 4 * (ofQ delta0 * ofQ delta0 * ofQ delta0) - ofQ delta1 * ofQ delta1) / Z_ 27)
      by (unfold delta; pushQ; reflexivity).
    set (D0 := ofQ delta0) in *. set (D1 := ofQ delta1) in *.
    assert (T27 : Z_ 27 <> 0) by apply ofZ_pos_neq0.
    destruct (is0 delta) eqn:Edl.
    + apply is0_true in Edl. apply ofQ_eq0 in Edl. rewrite EDl in Edl.
      assert (Edisc : Z_ 4 * (D0 * D0 * D0) - D1 * D1 = 0).
      { transitivity (((Z_ 4 * (D0 * D0 * D0) - D1 * D1) / Z_ 27) * Z_ 27); [field; exact T27|].
        rewrite Edl. ring. }
      destruct (is0 delta0) eqn:Ed0; cbn [t1 t2 t3 fst snd]; intros _ _ _.
      * apply is0_true in Ed0. apply ofQ_eq0 in Ed0. fold D0 in Ed0.
        assert (Ed1 : D1 = 0).
        { assert (X : D1 * D1 = 0) by (rewrite Ed0 in Edisc; nsatz').
          destruct (F_integral _ _ X); assumption. }
        rewrite eval_rq. pushQ. rewrite EB.
        rewrite ED0 in Ed0. rewrite ED1 in Ed1.
        exact (cubic_triple B C D Ed0 Ed1).
      * apply is0_false in Ed0.
        assert (N0 : D0 <> 0) by (apply ofQ_neq0; exact Ed0).
        assert (Q2 : ~ (2 * delta0 == 0)%Q).
        { intro X. apply Ed0. apply (Qmult_integral_l 2); [qnz | exact X]. }
        rewrite !eval_rq. pushQ. rewrite EB, EC, ED. fold D0.
        rewrite ED0 in N0, Edisc |- *. rewrite ED1 in Edisc.
        exact (cubic_double B C D N0 Edisc).
    + (* general branch *)
      apply is0_false in Edl. assert (NDl : ofQ delta <> 0) by (apply ofQ_neq0; exact Edl).
      set (temp := rsqrt (rq (- (27) * delta))).
      set (Cexpr0 := rdiv (radd (rq delta1) temp) (rq 2)).
      set (Cexpr := if is_zero Cexpr0 then rdiv (rsub (rq delta1) temp) (rq 2) else Cexpr0).
      set (CC := rcbrt Cexpr).
      set (s3 := rsqrt (rq 3)).
      set (coef := rdiv (rmul RI s3) (rq 2)).
      set (cbrt1 := radd (rq (- (1 / 2))) coef).
      set (cbrt2 := rsub (rq (- (1 / 2))) coef).
      cbn [t1 t2 t3 fst snd]. intros O1 O2 _.
      (* the radicals *)
      rad_dec O1. destruct O1 as [[_ [OC _]] _].
      rad_dec O2. destruct O2 as [[_ [[[_ Ocoef] _] _]] _].
      unfold coef in Ocoef. rad_dec Ocoef. destruct Ocoef as [[Oi Os3] _].
      cbn [rad_ok] in Oi.
      pose proof (rsqrt_sq _ Os3) as HS3. rewrite eval_rq, ofQ_int in HS3. fold s3 in HS3.
      pose proof (rcbrt_cube _ OC) as HC. fold CC in HC.
      apply rad_ok_rcbrt in OC.
      assert (Otemp : rad_ok temp).
      { unfold Cexpr in OC. destruct (is_zero Cexpr0); [|unfold Cexpr0 in OC]; rad_dec OC; tauto. }
      pose proof (rsqrt_sq _ Otemp) as HT. fold temp in HT. rewrite eval_rq in HT.
      assert (HT' : eval temp * eval temp = - Z_ 27 * ofQ delta) by (rewrite HT; pushQ; reflexivity).
      assert (HT2 : eval temp * eval temp = D1 * D1 - Z_ 4 * (D0 * D0 * D0)).
      { rewrite HT', EDl. field. exact T27. }
      assert (E0 : eval Cexpr0 = (D1 + eval temp) / Z_ 2).
      { unfold Cexpr0. rewrite eval_rdiv by exact two_neq0'. rewrite eval_radd, !eval_rq, ofQ_int. reflexivity. }
      assert (HCC : (eval CC * eval CC * eval CC = (D1 + eval temp) / Z_ 2
                     \/ eval CC * eval CC * eval CC = (D1 - eval temp) / Z_ 2) /\ eval CC <> 0).
      { unfold Cexpr in HC. destruct (is_zero Cexpr0) eqn:Ez.
        - apply is_zero_eval in Ez. rewrite E0 in Ez.
          rewrite eval_rdiv in HC by exact two_neq0'. rewrite eval_rsub, !eval_rq, ofQ_int in HC. fold D1 in HC.
          split; [right; exact HC|].
          intro X. rewrite X in HC.
          assert (X1 : D1 + eval temp = 0).
          { transitivity (((D1 + eval temp) / Z_ 2) * Z_ 2); [field; exact T2 | rewrite Ez; ring]. }
          assert (X2 : D1 - eval temp = 0).
          { transitivity (((D1 - eval temp) / Z_ 2) * Z_ 2); [field; exact T2 | rewrite <- HC; ring]. }
          assert (X3 : eval temp * Z_ 2 = 0) by nsatz'.
          destruct (F_integral _ _ X3) as [X4 | X4]; [|contradiction].
          apply NDl. rewrite X4 in HT'.
          assert (X5 : Z_ 27 * ofQ delta = 0).
          { transitivity (- (- Z_ 27 * ofQ delta)); [ring | rewrite <- HT'; ring]. }
          destruct (F_integral _ _ X5); [contradiction | assumption].
        - rewrite E0 in HC. split; [left; exact HC|].
          intro X. rewrite X in HC.
          assert (X1 : eval temp = - D1).
          { transitivity (((D1 + eval temp) / Z_ 2) * Z_ 2 - D1); [field; exact T2 | rewrite <- HC; ring]. }
          revert Ez X1 Otemp. unfold Cexpr0, temp, rsqrt, rq.
          destruct (sqrt_exact (Qred (- (27) * delta))) as [tq|] eqn:Es.
          + cbn [radd rdiv rq is_zero eval]. intros Ez X1 _.
            apply is0_false in Ez. apply Ez.
            apply ofQ_inj. rewrite ofQ_0, ofQ_Qred.
            rewrite ofQ_div by qnz. rewrite !ofQ_Qred, ofQ_add, !ofQ_Qred, X1, ofQ_int. fold D1. field. exact T2.
          + cbn [rad_ok eval]. intros _ X1 [_ Osq].
            apply (rsqrt_unfolded_irrational _ (- delta1)%Q Es Osq).
            rewrite ofQ_opp. exact X1. }
      destruct HCC as [HCC HC0].
      destruct (cubic_general B C D (eval temp) (eval CC) fi (eval s3)) as [[NW1 NW2] V];
        try assumption.
      { rewrite <- ED0, <- ED1. exact HT2. }
      { rewrite <- ED1. exact HCC. }
      cbv zeta in NW1, NW2, V.
      (* the three returned templates denote the expressions of cubic_general *)
      assert (Ecoef : eval coef = (fi * eval s3) / Z_ 2).
      { unfold coef. rewrite eval_rdiv by exact two_neq0'. rewrite eval_rmul, eval_rq, ofQ_int. reflexivity. }
      assert (Ehalf : eval (rq (- (1 / 2))) = - (1 / Z_ 2)) by (rewrite eval_rq; pushQ; reflexivity).
      assert (Ew1 : eval cbrt1 = - (1 / Z_ 2) + (fi * eval s3) / Z_ 2)
        by (unfold cbrt1; rewrite eval_radd, Ehalf, Ecoef; reflexivity).
      assert (Ew2 : eval cbrt2 = - (1 / Z_ 2) - (fi * eval s3) / Z_ 2)
        by (unfold cbrt2; rewrite eval_rsub, Ehalf, Ecoef; reflexivity).
      assert (NM1 : eval (rmul cbrt1 CC) <> 0) by (rewrite eval_rmul, Ew1; exact NW1).
      assert (NM2 : eval (rmul cbrt2 CC) <> 0) by (rewrite eval_rmul, Ew2; exact NW2).
      rewrite !eval_rneg.
      rewrite !(eval_rdiv _ (rq 3)) by exact three_neq0'.
      rewrite !eval_radd.
      rewrite (eval_rdiv (rq delta0) CC) by exact HC0.
      rewrite (eval_rdiv (rq delta0) (rmul cbrt1 CC)) by exact NM1.
      rewrite (eval_rdiv (rq delta0) (rmul cbrt2 CC)) by exact NM2.
      rewrite !eval_rmul, !eval_rq, Ew1, Ew2, EB, ofQ_int. fold D0. rewrite ED0.
      exact V.
Qed.

Theorem cubic_factor : forall c0 c1 c2 c3, ~ (c3 == 0)%Q ->
  let t := cubic_roots c0 c1 c2 c3 in
  rad_ok (t1 t) -> rad_ok (t2 t) -> rad_ok (t3 t) ->
  forall x, peval [c0; c1; c2; c3] x
            = ofQ c3 * (x - eval (t1 t)) * (x - eval (t2 t)) * (x - eval (t3 t)).
Proof.
  intros c0 c1 c2 c3 H3 t O1 O2 O3 x.
  destruct (cubic_vieta _ _ _ _ H3 O1 O2 O3) as [V1 [V2 V3]]. fold t in V1, V2, V3.
  pose proof (ofQ_neq0 _ H3) as N3. cbn [peval].
  set (r1 := eval (t1 t)) in *. set (r2 := eval (t2 t)) in *. set (r3 := eval (t3 t)) in *.
  assert (E2 : ofQ c2 = - (ofQ c3 * (r1 + r2 + r3))) by (rewrite V1; field; exact N3).
  assert (E1 : ofQ c1 = ofQ c3 * (r1 * r2 + r1 * r3 + r2 * r3)) by (rewrite V2; field; exact N3).
  assert (E0 : ofQ c0 = - (ofQ c3 * (r1 * r2 * r3))) by (rewrite V3; field; exact N3).
  rewrite E2, E1, E0. ring.
Qed.

(* ---------------------------------------------------------------- sets of three, pairs *)
Lemma mul_eq0_iff : forall a b : F, a * b = 0 <-> a = 0 \/ b = 0.
Proof.
  intros a b. split; [apply F_integral|]. intros [-> | ->]; ring.
Qed.

Lemma sub_eq0_iff : forall x v : F, x - v = 0 <-> x = v.
Proof.
  intros x v. split; intro H.
  - transitivity ((x - v) + v); [ring | rewrite H; ring].
  - rewrite H. ring.
Qed.

Lemma set_of3_shape : forall a b c,
  let s := set_of [a; b; c] in
  (rx_eqb b a = true /\ rx_eqb c a = true /\ s = [a]) \/
  (rx_eqb b a = true /\ rx_eqb c a = false /\ s = [a; c]) \/
  (rx_eqb b a = false /\ (rx_eqb c a = true \/ rx_eqb c b = true) /\ s = [a; b]) \/
  (rx_eqb b a = false /\ rx_eqb c a = false /\ rx_eqb c b = false /\ s = [a; b; c]).
Proof.
  intros a b c. unfold set_of, set_insert, set_mem. cbn [fold_left existsb app orb].
  destruct (rx_eqb b a) eqn:Eba; cbn [orb app existsb].
  - destruct (rx_eqb c a) eqn:Eca; cbn [orb app]; tauto.
  - destruct (rx_eqb c a) eqn:Eca; cbn [orb app existsb].
    + right; right; left. tauto.
    + destruct (rx_eqb c b) eqn:Ecb; cbn [orb app]; tauto.
Qed.

Lemma pairs_vieta : forall a b c z1 z2,
  In (z1, z2) (pairs_of (set_of [a; b; c])) ->
  exists v3,
    eval z1 + eval z2 + v3 = eval a + eval b + eval c /\
    eval z1 * eval z2 + eval z1 * v3 + eval z2 * v3
      = eval a * eval b + eval a * eval c + eval b * eval c /\
    eval z1 * eval z2 * v3 = eval a * eval b * eval c.
Proof.
  intros a b c z1 z2 H.
  destruct (set_of3_shape a b c) as [[Eb [Ec S]] | [[Eb [Ec S]] | [[Eb [Ec S]] | [Eb [Ec [Ecb S]]]]]];
    cbv zeta in S; rewrite S in H; cbn [pairs_of In] in H.
  - destruct H as [H | []]. injection H as <- <-.
    exists (eval a). rewrite (rx_eqb_eval _ _ Eb), (rx_eqb_eval _ _ Ec). repeat split; ring.
  - rewrite (rx_eqb_eval _ _ Eb).
    destruct H as [H | [H | []]]; injection H as <- <-; exists (eval a); repeat split; ring.
  - assert (X : eval c = eval a \/ eval c = eval b) by (destruct Ec as [E | E]; [left | right]; apply rx_eqb_eval; exact E).
    destruct H as [H | [H | []]]; injection H as <- <-; exists (eval c); repeat split; ring.
  - destruct H as [H | [H | [H | [H | [H | [H | []]]]]]]; injection H as <- <-;
      [exists (eval c) | exists (eval b) | exists (eval a) | exists (eval c) | exists (eval b) | exists (eval a)];
      repeat split; ring.
Qed.

Lemma pairs_nonempty : forall a b c, pairs_of (set_of [a; b; c]) <> [].
Proof.
  intros a b c.
  destruct (set_of3_shape a b c) as [[_ [_ S]] | [[_ [_ S]] | [[_ [_ S]] | [_ [_ [_ S]]]]]];
    cbv zeta in S; rewrite S; cbn [pairs_of]; discriminate.
Qed.

Lemma vals_map : forall (f : rx -> rx) l v,
  vals (map f l) v <-> exists r, In r l /\ eval (f r) = v.
Proof.
  intros f l v. unfold vals. split.
  - intros [m [Hm E]]. apply in_map_iff in Hm. destruct Hm as [r [<- Hr]]. exists r. tauto.
  - intros [r [Hr E]]. exists (f r). split; [apply in_map; exact Hr | exact E].
Qed.

Lemma vals_flat_map : forall (f : rx -> list rx) l v,
  vals (flat_map f l) v <-> exists r, In r l /\ vals (f r) v.
Proof.
  intros f l v. unfold vals. split.
  - intros [m [Hm E]]. apply in_flat_map in Hm. destruct Hm as [r [Hr Hm]]. exists r. split; [exact Hr|]. exists m. tauto.
  - intros [r [Hr [m [Hm E]]]]. exists m. split; [apply in_flat_map; exists r; tauto | exact E].
Qed.

Lemma vals_cons : forall a l v, vals (a :: l) v <-> (v = eval a \/ vals l v).
Proof.
  intros a l v. unfold vals. cbn [In]. split.
  - intros [r [[<- | Hr] E]]; [left; symmetry; exact E | right; exists r; tauto].
  - intros [-> | [r [Hr E]]]; [exists a; tauto | exists r; tauto].
Qed.

Lemma vals_nil : forall v, vals [] v <-> False.
Proof. intro v. unfold vals. cbn [In]. split; [intros [r [[] _]] | tauto]. Qed.

Lemma cubic_set_vals : forall c0 c1 c2 c3 v,
  vals (cubic_set c0 c1 c2 c3) v <->
  (v = eval (t1 (cubic_roots c0 c1 c2 c3)) \/ v = eval (t2 (cubic_roots c0 c1 c2 c3))
   \/ v = eval (t3 (cubic_roots c0 c1 c2 c3))).
Proof.
  intros c0 c1 c2 c3 v. unfold cubic_set. destruct (cubic_roots c0 c1 c2 c3) as [[r1 r2] r3].
  rewrite vals_set_of, !vals_cons, vals_nil. cbn [t1 t2 t3 fst snd]. tauto.
Qed.

(* the two quadratic roots coincide exactly when the discriminant vanishes *)
Theorem quadratic_double_iff : forall c0 c1 c2, ~ (c2 == 0)%Q ->
  let rr := quadratic_roots c0 c1 c2 in
  rad_ok (fst rr) -> rad_ok (snd rr) ->
  (eval (fst rr) = eval (snd rr) <-> (c1 * c1 - 4 * c0 * c2 == 0)%Q).
Proof.
  intros c0 c1 c2 H2 rr O1 O2.
  destruct (quadratic_vieta _ _ _ H2 O1 O2) as [V1 V2]. fold rr in V1, V2.
  pose proof (ofQ_neq0 _ H2) as N2. pose proof two_neq0 as T2.
  set (u := eval (fst rr)) in *. set (w := eval (snd rr)) in *. clearbody u w.
  assert (E : (u - w) * (u - w) * (ofQ c2 * ofQ c2) = ofQ (c1 * c1 - 4 * c0 * c2)).
  { pushQ.
    assert (E1 : ofQ c1 = - (ofQ c2 * (u + w))) by (rewrite V1; field; exact N2).
    assert (E0 : ofQ c0 = ofQ c2 * (u * w)) by (rewrite V2; field; exact N2).
    rewrite E1, E0. numerals. ring. }
  split.
  - intro H. apply ofQ_inj. rewrite ofQ_0, <- E, H. ring.
  - intro H. rewrite (ofQ_eq0 _ H) in E.
    apply mul_eq0_iff in E. destruct E as [E | E].
    + apply mul_eq0_iff in E. apply sub_eq0_iff. tauto.
    + apply mul_eq0_iff in E. tauto.
Qed.

(* a pole that is returned: f = (x^2 - 2)/(x^3 - x^2 - 2x + 2); sqrt(2) is a member of the
   model's answer and a zero of the denominator in every field *)
Lemma rational_pole_witness :
  (exists alt, solve_rational [-2#1; 0%Q; 1%Q] [2#1; -2#1; -1#1; 1%Q] = Ok (SFinite [alt]) /\ In (RSqrt (RQ (2#1))) alt)
  /\ (rad_ok (RSqrt (RQ (2#1))) -> peval [2#1; -2#1; -1#1; 1%Q] (eval (RSqrt (RQ (2#1)))) = 0).
Proof.
  split.
  - eexists. split; [vm_compute; reflexivity | cbn [In]; left; reflexivity].
  - cbn [rad_ok eval peval]. intros [_ H]. rewrite !ofQ_int in *. rewrite ofZ_1.
    set (s := fsqrt (ofZ 2)) in *. clearbody s.
    change (-2)%Z with (- (2))%Z. change (-1)%Z with (- (1))%Z. rewrite !ofZ_opp, ofZ_1.
    numerals. nsatz'.
Qed.

(* the templates whose radicals solve_poly_quartic relies on *)
Definition quartic_radicals (c0 c1 c2 c3 c4 : Q) : list rx :=
  let lc := c4 in
  let a := (c3 / lc)%Q in
  let b := (c2 / lc)%Q in
  let c := (c1 / lc)%Q in
  let d := (c0 / lc)%Q in
  if is0 d then
    let t := cubic_roots c b a 1 in [t1 t; t2 t; t3 t]
  else
    let sqa := (a * a)%Q in
    let cba := (sqa * a)%Q in
    let aby4 := (a / 4)%Q in
    let e := (b - (3 * sqa) / 8)%Q in
    let ff := ((c + cba / 8) - (a * b) / 2)%Q in
    let g := ((d + (sqa * b) / 16) - ((a * c) / 4 + (3 * cba * a) / 256))%Q in
    if is0 g then
      let t := cubic_roots ff e 0 1 in [t1 t; t2 t; t3 t]
    else if is0 ff then
      let qq := quadratic_roots g e 1 in [fst qq; snd qq; rsqrt (fst qq); rsqrt (snd qq)]
    else
      let t := cubic_roots (- ((ff * ff) / 64)) ((e * e - 4 * g) / 16) (e / 2) 1 in
      [t1 t; t2 t; t3 t; rsqrt (t1 t); rsqrt (t2 t); rsqrt (t3 t)].

Lemma cubic_roots_iff_local : forall c0 c1 c2 c3, ~ (c3 == 0)%Q ->
  rad_ok (t1 (cubic_roots c0 c1 c2 c3)) -> rad_ok (t2 (cubic_roots c0 c1 c2 c3)) ->
  rad_ok (t3 (cubic_roots c0 c1 c2 c3)) ->
  forall x, peval [c0; c1; c2; c3] x = 0 <-> vals (cubic_set c0 c1 c2 c3) x.
Proof.
  intros c0 c1 c2 c3 H3 O1 O2 O3 x.
  rewrite (cubic_factor c0 c1 c2 c3 H3 O1 O2 O3 x).
  rewrite cubic_set_vals. pose proof (ofQ_neq0 _ H3) as N3.
  rewrite !mul_eq0_iff, !sub_eq0_iff. tauto.
Qed.

Lemma pairs_in : forall s z1 z2, In (z1, z2) (pairs_of s) -> In z1 s /\ In z2 s.
Proof.
  intros s z1 z2 H. destruct s as [|x [|y [|z [|w s']]]]; cbn [pairs_of In] in *; try tauto.
  - destruct H as [H | []]. injection H as <- <-. tauto.
  - destruct H as [H | [H | []]]; injection H as <- <-; tauto.
  - destruct H as [H | [H | [H | [H | [H | [H | []]]]]]]; injection H as <- <-; tauto.
Qed.

Theorem quartic_exact_local : forall c0 c1 c2 c3 c4, ~ (c4 == 0)%Q ->
  (forall e, In e (quartic_radicals c0 c1 c2 c3 c4) -> rad_ok e) ->
  forall alt, In alt (quartic_alts c0 c1 c2 c3 c4) ->
  forall x, peval [c0; c1; c2; c3; c4] x = 0 <-> vals alt x.
Proof.
  intros c0 c1 c2 c3 c4 H4 Hloc alt Halt x.
  pose proof (ofQ_neq0 _ H4) as N4. pose proof two_neq0 as T2.
  assert (EA : ofQ (c3 / c4) = ofQ c3 / ofQ c4) by (apply ofQ_div; exact H4).
  assert (EB : ofQ (c2 / c4) = ofQ c2 / ofQ c4) by (apply ofQ_div; exact H4).
  assert (EC : ofQ (c1 / c4) = ofQ c1 / ofQ c4) by (apply ofQ_div; exact H4).
  assert (ED : ofQ (c0 / c4) = ofQ c0 / ofQ c4) by (apply ofQ_div; exact H4).
  unfold quartic_alts in Halt. cbv zeta in Halt. unfold quartic_radicals in Hloc. cbv zeta in Hloc.
  set (a := (c3 / c4)%Q) in *. set (b := (c2 / c4)%Q) in *. set (c := (c1 / c4)%Q) in *. set (d := (c0 / c4)%Q) in *.
  assert (Emonic : peval [c0; c1; c2; c3; c4] x
                   = ofQ c4 * (x * x * x * x + ofQ a * x * x * x + ofQ b * x * x + ofQ c * x + ofQ d)).
  { cbn [peval]. rewrite EA, EB, EC, ED. field. exact N4. }
  rewrite Emonic. rewrite mul_eq0_iff.
  assert (X1 : forall z, z / 1 = z) by (intro z; field; apply (F_1_neq_0 Fth)).
  assert (H1 : ~ (1 == 0)%Q) by qnz.
  clearbody a b c d. clear Emonic EA EB EC ED.
  set (A := ofQ a) in *. set (B := ofQ b) in *. set (C := ofQ c) in *. set (D := ofQ d) in *.
  destruct (is0 d) eqn:Ed.
  - (* d == 0 *)
    destruct Halt as [<- | []].
    assert (Oc : rad_ok (t1 (cubic_roots c b a 1)) /\ rad_ok (t2 (cubic_roots c b a 1)) /\ rad_ok (t3 (cubic_roots c b a 1)))
      by (repeat split; apply Hloc; cbn [In]; tauto).
    destruct Oc as [Oc1 [Oc2 Oc3]].
    apply is0_true in Ed. apply ofQ_eq0 in Ed. fold D in Ed.
    rewrite vals_set_insert, eval_rq, ofQ_0.
    rewrite <- (cubic_roots_iff_local c b a 1 H1 Oc1 Oc2 Oc3 x). cbn [peval]. rewrite ofQ_1. fold A B C.
    assert (E : x * x * x * x + A * x * x * x + B * x * x + C * x + D
                = x * (C + x * (B + x * (A + x * (1 + x * 0))))) by (rewrite Ed; ring).
    rewrite E, mul_eq0_iff. tauto.
  - set (sqa := (a * a)%Q) in *. set (cba := (sqa * a)%Q) in *. set (aby4 := (a / 4)%Q) in *.
    set (e := (b - 3 * sqa / 8)%Q) in *.
    set (ff := (c + cba / 8 - a * b / 2)%Q) in *.
    set (g := (d + sqa * b / 16 - (a * c / 4 + 3 * cba * a / 256))%Q) in *.
    assert (Ee : ofQ e = B - (Z_ 3 * (A * A)) / Z_ 8) by (unfold e, sqa; pushQ; reflexivity).
    assert (Eff : ofQ ff = (C + (A * A * A) / Z_ 8) - (A * B) / Z_ 2) by (unfold ff, cba, sqa; pushQ; reflexivity).
    assert (Eg : ofQ g = (D + (A * A * B) / Z_ 16) - ((A * C) / Z_ 4 + (Z_ 3 * (A * A * A) * A) / Z_ 256))
      by (unfold g, cba, sqa; pushQ; reflexivity).
    assert (Eaby4 : ofQ aby4 = A / Z_ 4) by (unfold aby4; pushQ; reflexivity).
    pose proof (depress A B C D x) as Edep. cbv zeta in Edep.
    rewrite <- Ee, <- Eff, <- Eg, <- Eaby4 in Edep. rewrite Edep. clear Edep.
    set (y := x + ofQ aby4).
    assert (Exy : forall v, y = v <-> x = v - ofQ aby4).
    { intro v. unfold y. split; intro H; [rewrite <- H | rewrite H]; ring. }
    clearbody e ff g aby4. clear Ee Eff Eg Eaby4.
    destruct (is0 g) eqn:Eg0.
    + (* g == 0 *)
      destruct Halt as [<- | []].
      assert (Oc : rad_ok (t1 (cubic_roots ff e 0 1)) /\ rad_ok (t2 (cubic_roots ff e 0 1)) /\ rad_ok (t3 (cubic_roots ff e 0 1)))
        by (repeat split; apply Hloc; cbn [In]; tauto).
      destruct Oc as [Oc1 [Oc2 Oc3]].
      apply is0_true in Eg0. apply ofQ_eq0 in Eg0.
      rewrite vals_set_insert, vals_set_of, vals_map.
      assert (E : y * y * y * y + ofQ e * y * y + ofQ ff * y + ofQ g = y * peval [ff; e; 0%Q; 1%Q] y).
      { cbn [peval]. rewrite Eg0, ofQ_0, ofQ_1. ring. }
      rewrite E, mul_eq0_iff, (cubic_roots_iff_local ff e 0 1 H1 Oc1 Oc2 Oc3 y).
      rewrite eval_rneg, eval_rq.
      split.
      * intros [X | [X | [r [Hr Er]]]]; [contradiction | right | left].
        -- apply (Exy 0) in X. rewrite X. ring.
        -- exists r. split; [exact Hr|]. rewrite eval_rsub, eval_rq. symmetry. apply Exy. symmetry. exact Er.
      * intros [[r [Hr Er]] | X]; right.
        -- right. exists r. split; [exact Hr|]. rewrite eval_rsub, eval_rq in Er. symmetry. apply Exy. symmetry. exact Er.
        -- left. apply Exy. rewrite X. ring.
    + destruct (is0 ff) eqn:Eff0.
      * (* ff == 0 : biquadratic *)
        apply is0_true in Eff0. apply ofQ_eq0 in Eff0.
        pose proof (quadratic_vieta g e 1 H1) as QV. cbv zeta in QV.
        destruct (quadratic_roots g e 1) as [q1 q2]. cbn [fst snd] in QV, Hloc.
        destruct (QV (Hloc q1 ltac:(cbn [In]; tauto)) (Hloc q2 ltac:(cbn [In]; tauto))) as [V1 V2].
        rewrite ofQ_1, X1 in V1, V2.
        destruct Halt as [<- | []].
        rewrite vals_set_of, vals_flat_map.
        assert (E : y * y * y * y + ofQ e * y * y + ofQ ff * y + ofQ g
                    = (y * y - eval q1) * (y * y - eval q2)).
        { rewrite Eff0. set (u := eval q1) in *. set (w := eval q2) in *. clearbody u w. nsatz'. }
        rewrite E, mul_eq0_iff, !sub_eq0_iff.
        assert (Esq : forall r, In r (set_of [q1; q2]) -> (y * y = eval r <-> (y = eval (rsqrt r) \/ y = - eval (rsqrt r)))).
        { intros r Hr0. apply in_set_of_sub in Hr0.
          assert (Or : rad_ok (rsqrt r)) by (apply Hloc; cbn [In] in *; destruct Hr0 as [<- | [<- | []]]; tauto).
          pose proof (rsqrt_sq r Or) as S. set (s := eval (rsqrt r)) in *. clearbody s.
          split.
          - intro H. assert (X : (y - s) * (y + s) = 0) by (rewrite <- S in H; nsatz').
            apply mul_eq0_iff in X. destruct X as [X | X]; [left | right].
            + apply sub_eq0_iff. exact X.
            + transitivity ((y + s) - s); [ring | rewrite X; ring].
          - intros [-> | ->]; rewrite <- S; ring. }
        split.
        -- intros [X | [X | X]]; [contradiction | |].
           ++ assert (Hv : vals (set_of [q1; q2]) (eval q1)) by (rewrite vals_set_of, !vals_cons; tauto).
              destruct Hv as [r [Hr Er]]. rewrite <- Er in X. apply (Esq r Hr) in X.
              exists r. split; [exact Hr|]. rewrite !vals_cons, vals_nil, !eval_rsub, eval_rneg, eval_rq.
              destruct X as [X | X]; [left | right; left]; apply Exy; exact X.
           ++ assert (Hv : vals (set_of [q1; q2]) (eval q2)) by (rewrite vals_set_of, !vals_cons; tauto).
              destruct Hv as [r [Hr Er]]. rewrite <- Er in X. apply (Esq r Hr) in X.
              exists r. split; [exact Hr|]. rewrite !vals_cons, vals_nil, !eval_rsub, eval_rneg, eval_rq.
              destruct X as [X | X]; [left | right; left]; apply Exy; exact X.
        -- intros [r [Hr Hv]]. right.
           rewrite !vals_cons, vals_nil, !eval_rsub, eval_rneg, eval_rq in Hv.
           assert (Y : y * y = eval r).
           { apply (Esq r Hr). destruct Hv as [Hv | [Hv | []]]; [left | right]; apply Exy; exact Hv. }
           assert (Hm : vals (set_of [q1; q2]) (eval r)) by (exists r; tauto).
           rewrite vals_set_of, !vals_cons, vals_nil in Hm. rewrite Y.
           destruct Hm as [Hm | [Hm | []]]; [left | right]; exact Hm.
      * (* Euler *)
        apply is0_false in Eff0. assert (NFF : ofQ ff <> 0) by (apply ofQ_neq0; exact Eff0).
        apply in_map_iff in Halt. destruct Halt as [[z1 z2] [<- Hp]]. cbn [fst snd].
        unfold cubic_set in Hp.
        pose proof (cubic_vieta (- (ff * ff / 64)) ((e * e - 4 * g) / 16) (e / 2) 1 H1) as CV. cbv zeta in CV.
        destruct (cubic_roots (- (ff * ff / 64)) ((e * e - 4 * g) / 16) (e / 2) 1) as [[u1 u2] u3].
        cbn [t1 t2 t3 fst snd] in CV, Hloc.
        destruct (CV (Hloc u1 ltac:(cbn [In]; tauto)) (Hloc u2 ltac:(cbn [In]; tauto)) (Hloc u3 ltac:(cbn [In]; tauto)))
          as [CV1 [CV2 CV3]].
        destruct (pairs_in _ _ _ Hp) as [Hz1 Hz2].
        apply in_set_of_sub in Hz1. apply in_set_of_sub in Hz2.
        destruct (pairs_vieta u1 u2 u3 z1 z2 Hp) as [v3 [PV1 [PV2 PV3]]].
        rewrite CV1 in PV1. rewrite CV2 in PV2. rewrite CV3 in PV3.
        rewrite ofQ_1, X1 in PV1, PV2, PV3.
        assert (K1 : eval z1 + eval z2 + v3 = - (ofQ e / Z_ 2)) by (rewrite PV1; pushQ; reflexivity).
        assert (K2 : eval z1 * eval z2 + eval z1 * v3 + eval z2 * v3 = (ofQ e * ofQ e - Z_ 4 * ofQ g) / Z_ 16)
          by (rewrite PV2; pushQ; reflexivity).
        assert (K3 : eval z1 * eval z2 * v3 = (ofQ ff * ofQ ff) / Z_ 64)
          by (rewrite PV3; pushQ; field; apply ofZ_pos_neq0).
        assert (Oz1 : rad_ok (rsqrt z1)) by (apply Hloc; cbn [In] in *; destruct Hz1 as [<- | [<- | [<- | []]]]; tauto).
        assert (Oz2 : rad_ok (rsqrt z2)) by (apply Hloc; cbn [In] in *; destruct Hz2 as [<- | [<- | [<- | []]]]; tauto).
        pose proof (rsqrt_sq z1 Oz1) as SP. pose proof (rsqrt_sq z2 Oz2) as SQ.
        destruct (euler (ofQ e) (ofQ ff) (ofQ g) (eval z1) (eval z2) v3 (eval (rsqrt z1)) (eval (rsqrt z2)) y
                    K1 K2 K3 SP SQ NFF) as [N8 EU].
        cbv zeta in EU. rewrite EU. clear EU.
        unfold euler_roots. rewrite vals_set_of, !vals_cons, vals_nil.
        assert (N8' : eval (rmul3 (rq 8) (rsqrt z1) (rsqrt z2)) <> 0)
          by (rewrite eval_rmul3, eval_rq, ofQ_int; exact N8).
        rewrite !eval_radd4, !eval_rneg, !eval_rdiv, eval_rmul3, !eval_rneg, !eval_rq, ofQ_int by exact N8'.
        set (P := eval (rsqrt z1)) in *. set (Q := eval (rsqrt z2)) in *.
        set (R := - ofQ ff / (Z_ 8 * P * Q)) in *.
        rewrite !mul_eq0_iff, !sub_eq0_iff, !Exy.
        assert (Y1 : P + Q + R - ofQ aby4 = P + Q + R + - ofQ aby4) by ring.
        assert (Y2 : P + - Q + - R - ofQ aby4 = P + - Q + - R + - ofQ aby4) by ring.
        assert (Y3 : - P + Q + - R - ofQ aby4 = - P + Q + - R + - ofQ aby4) by ring.
        assert (Y4 : - P + - Q + R - ofQ aby4 = - P + - Q + R + - ofQ aby4) by ring.
        rewrite Y1, Y2, Y3, Y4. tauto.
Qed.

Lemma quartic_alts_nonempty : forall c0 c1 c2 c3 c4, quartic_alts c0 c1 c2 c3 c4 <> [].
Proof.
  intros. unfold quartic_alts. cbv zeta.
  destruct (is0 (c0 / c4)); [discriminate|].
  match goal with |- context [is0 ?g] => destruct (is0 g) end; [discriminate|].
  match goal with |- context [is0 ?g] => destruct (is0 g) end.
  - destruct (quadratic_roots _ _ _). discriminate.
  - unfold cubic_set. destruct (cubic_roots _ _ _ _) as [[u1 u2] u3].
    intro H. apply map_eq_nil in H. revert H. apply pairs_nonempty.
Qed.

(* ---------------------------------------------------------------- dispatch *)
Lemma peval_strip : forall cs x, peval (strip_high cs) x = peval cs x.
Proof.
  induction cs as [|c rest IH]; intro x; [reflexivity|].
  cbn [strip_high]. specialize (IH x).
  destruct (strip_high rest) as [|s r] eqn:E.
  - cbn [peval] in IH. destruct (is0 c) eqn:Ec; cbn [peval]; rewrite <- IH.
    + apply is0_true in Ec. rewrite (ofQ_eq0 _ Ec). ring.
    + reflexivity.
  - cbn [peval] in *. rewrite IH. reflexivity.
Qed.

Lemma strip_last_nz : forall cs l c, strip_high cs = l ++ [c] -> ~ (c == 0)%Q.
Proof.
  induction cs as [|c' rest IH]; intros l c H.
  - destruct l; discriminate.
  - cbn [strip_high] in H. destruct (strip_high rest) as [|s r] eqn:E.
    + destruct (is0 c') eqn:Ec; [destruct l; discriminate|].
      destruct l as [|x l]; [injection H as ->; apply is0_false; exact Ec|].
      destruct l; discriminate.
    + destruct l as [|x l]; [discriminate|]. injection H as -> H. exact (IH l c H).
Qed.

Lemma peval_extract : forall cs x, peval (extract_coeffs cs) x = peval cs x.
Proof.
  intros cs x. unfold extract_coeffs. pose proof (peval_strip cs x) as H.
  destruct (strip_high cs) as [|s r]; [|exact H].
  cbn [peval] in *. rewrite <- H, ofQ_0. ring.
Qed.

Lemma extract_last_nz : forall cs l c, (1 <= length l)%nat -> extract_coeffs cs = l ++ [c] -> ~ (c == 0)%Q.
Proof.
  intros cs l c Hl H. unfold extract_coeffs in H.
  destruct (strip_high cs) as [|s r] eqn:E.
  - destruct l as [|x l]; [cbn in Hl; lia|]. destruct l; discriminate.
  - apply (strip_last_nz cs l c). rewrite E. exact H.
Qed.

Definition sres_spec (cs : list Q) (s : sres) : Prop :=
  match s with
  | SDomain => forall x, peval cs x = 0
  | SEmpty => forall x, peval cs x <> 0
  | SFinite alts => alts <> [] /\ forall alt, In alt alts -> forall x, peval cs x = 0 <-> vals alt x
  | SCondition => (5 < length (extract_coeffs cs))%nat
  end.

Definition solve_poly_radicals (cs : list Q) : list rx :=
  match extract_coeffs cs with
  | [c0; c1; c2] => let qq := quadratic_roots c0 c1 c2 in [fst qq; snd qq]
  | [c0; c1; c2; c3] => let t := cubic_roots c0 c1 c2 c3 in [t1 t; t2 t; t3 t]
  | [c0; c1; c2; c3; c4] => quartic_radicals c0 c1 c2 c3 c4
  | _ => []
  end.

(* the dispatch theorem under the local hypothesis: only the radicals that the computation
   for this polynomial relies on have to satisfy their defining relations *)
Theorem solve_poly_exact_local : forall cs s,
  (forall e, In e (solve_poly_radicals cs) -> rad_ok e) ->
  solve_poly cs = Ok s -> sres_spec cs s.
Proof.
  intros cs s Hloc H. unfold solve_poly in H. unfold solve_poly_radicals in Hloc.
  pose proof (peval_extract cs) as Hpe. pose proof (extract_last_nz cs) as Hnz.
  destruct (extract_coeffs cs) as [|c0 [|c1 [|c2 [|c3 [|c4 [|c5 rest]]]]]] eqn:Eco;
    cbn [length Nat.leb solve_poly_heuristics lift1 solve_poly_linear solve_poly_quadratic solve_poly_cubic solve_poly_quartic] in H.
  - discriminate.
  - injection H as <-. destruct (is0 c0) eqn:E0; cbn [sres_spec]; intro x; rewrite <- Hpe; cbn [peval].
    + apply is0_true in E0. rewrite (ofQ_eq0 _ E0). ring.
    + apply is0_false in E0. intro X. apply (ofQ_neq0 _ E0). rewrite <- X. ring.
  - injection H as <-. cbn [sres_spec]. split; [discriminate|].
    intros alt [<- | []] x. rewrite <- Hpe.
    assert (N1 : ~ (c1 == 0)%Q) by (apply (Hnz [c0] c1); [cbn; lia | reflexivity]).
    destruct (linear_exact c0 c1 N1) as [r [Hr Hx]]. cbn [solve_poly_linear] in Hr. injection Hr as <-.
    rewrite Hx, vals_cons, vals_nil. tauto.
  - assert (N2 : ~ (c2 == 0)%Q) by (apply (Hnz [c0; c1] c2); [cbn; lia | reflexivity]).
    cbv zeta in Hloc.
    pose proof (quadratic_factor c0 c1 c2 N2
                  (Hloc (fst (quadratic_roots c0 c1 c2)) ltac:(cbn [In]; tauto))
                  (Hloc (snd (quadratic_roots c0 c1 c2)) ltac:(cbn [In]; tauto))) as QF.
    cbv zeta in QF.
    destruct (quadratic_roots c0 c1 c2) as [r1 r2]. cbn [fst snd] in QF.
    injection H as <-. cbn [sres_spec]. split; [discriminate|].
    intros alt [<- | []] x. rewrite <- Hpe, QF, vals_set_of, !vals_cons, vals_nil.
    pose proof (ofQ_neq0 _ N2) as NN. rewrite !mul_eq0_iff, !sub_eq0_iff. tauto.
  - assert (N3 : ~ (c3 == 0)%Q) by (apply (Hnz [c0; c1; c2] c3); [cbn; lia | reflexivity]).
    cbv zeta in Hloc.
    injection H as <-. cbn [sres_spec]. split; [discriminate|].
    intros alt [<- | []] x. rewrite <- Hpe.
    apply cubic_roots_iff_local; [exact N3 | | |]; apply Hloc; cbn [In]; tauto.
  - assert (N4 : ~ (c4 == 0)%Q) by (apply (Hnz [c0; c1; c2; c3] c4); [cbn; lia | reflexivity]).
    injection H as <-. cbn [sres_spec]. split; [apply quartic_alts_nonempty|].
    intros alt Ha x. rewrite <- Hpe. apply quartic_exact_local; assumption.
  - injection H as <-. cbn [sres_spec]. rewrite Eco. cbn [length]. lia.
Qed.

(* ---------------------------------------------------------------- quartic (total radicals) *)
Section Total.
Hypothesis Hsqrt : forall x, fsqrt x * fsqrt x = x.
Hypothesis Hcbrt : forall x, fcbrt x * fcbrt x * fcbrt x = x.
Hypothesis Hi : fi * fi = - (1).

Lemma all_ok : forall e, rad_ok e.
Proof. exact (rad_ok_total Hsqrt Hcbrt Hi). Qed.

Lemma cubic_roots_iff : forall c0 c1 c2 c3, ~ (c3 == 0)%Q ->
  forall x, peval [c0; c1; c2; c3] x = 0 <-> vals (cubic_set c0 c1 c2 c3) x.
Proof.
  intros c0 c1 c2 c3 H3 x.
  rewrite (cubic_factor c0 c1 c2 c3 H3 (all_ok _) (all_ok _) (all_ok _) x).
  rewrite cubic_set_vals. pose proof (ofQ_neq0 _ H3) as N3.
  rewrite !mul_eq0_iff, !sub_eq0_iff. tauto.
Qed.

Lemma quadratic_roots_iff : forall c0 c1 c2, ~ (c2 == 0)%Q ->
  forall x, peval [c0; c1; c2] x = 0 <->
            (x = eval (fst (quadratic_roots c0 c1 c2)) \/ x = eval (snd (quadratic_roots c0 c1 c2))).
Proof.
  intros c0 c1 c2 H2 x.
  rewrite (quadratic_factor c0 c1 c2 H2 (all_ok _) (all_ok _) x).
  pose proof (ofQ_neq0 _ H2) as N2.
  rewrite !mul_eq0_iff, !sub_eq0_iff. tauto.
Qed.

Theorem quartic_exact : forall c0 c1 c2 c3 c4, ~ (c4 == 0)%Q ->
  forall alt, In alt (quartic_alts c0 c1 c2 c3 c4) ->
  forall x, peval [c0; c1; c2; c3; c4] x = 0 <-> vals alt x.
Proof.
  intros c0 c1 c2 c3 c4 H4. apply quartic_exact_local; [exact H4|]. intros e _. apply all_ok.
Qed.





Theorem solve_poly_exact : forall cs s, solve_poly cs = Ok s -> sres_spec cs s.
Proof.
  intros cs s. apply solve_poly_exact_local. intros e _. apply all_ok.
Qed.

Theorem solve_poly_total : forall cs, exists s, solve_poly cs = Ok s.
Proof.
  intro cs. unfold solve_poly.
  assert (Hne : extract_coeffs cs <> []) by (unfold extract_coeffs; destruct (strip_high cs); discriminate).
  destruct (extract_coeffs cs) as [|c0 [|c1 [|c2 [|c3 [|c4 [|c5 rest]]]]]]; [congruence| | | | | |];
    cbn [length Nat.leb solve_poly_heuristics lift1 solve_poly_linear solve_poly_quadratic solve_poly_cubic solve_poly_quartic].
  - eexists; reflexivity.
  - eexists; reflexivity.
  - destruct (quadratic_roots c0 c1 c2). eexists; reflexivity.
  - eexists; reflexivity.
  - eexists; reflexivity.
  - eexists; reflexivity.
Qed.

(* ---------------------------------------------------------------- rational equations *)
Lemma set_diff_sub : forall a b v, vals (set_diff a b) v -> vals a v.
Proof.
  intros a b v [r [Hr E]]. unfold set_diff in Hr. apply filter_In in Hr. exists r. tauto.
Qed.

Lemma set_diff_complete : forall a b v, vals a v -> ~ vals b v -> vals (set_diff a b) v.
Proof.
  intros a b v [r [Hr E]] Hb. exists r. split; [|exact E].
  unfold set_diff. apply filter_In. split; [exact Hr|].
  destruct (set_mem r b) eqn:M; [|reflexivity].
  exfalso. apply Hb. destruct (set_mem_eval _ _ M) as [y [Hy Ey]]. exists y. split; [exact Hy|]. congruence.
Qed.

Definition is_rq (e : rx) : bool := match e with RQ _ => true | _ => false end.

Lemma set_diff_rq_excl : forall a b v,
  forallb is_rq a = true -> forallb is_rq b = true -> vals (set_diff a b) v -> ~ vals b v.
Proof.
  intros a b v Ha Hb [r [Hr E]] [y [Hy Ey]].
  unfold set_diff in Hr. apply filter_In in Hr. destruct Hr as [Hr M].
  rewrite forallb_forall in Ha, Hb. specialize (Ha r Hr). specialize (Hb y Hy).
  destruct r; try discriminate. destruct y; try discriminate.
  cbn [eval] in *. assert (X : (q == q0)%Q) by (apply ofQ_inj; congruence).
  apply Bool.negb_true_iff in M. unfold set_mem in M.
  assert (M' : existsb (rx_eqb (RQ q)) b = true).
  { apply existsb_exists. exists (RQ q0). split; [exact Hy|]. cbn [rx_eqb]. apply Qeq_bool_iff. exact X. }
  congruence.
Qed.

Lemma solve_polyexpr_eq : forall cs, solve_polyexpr cs = solve_poly cs.
Proof.
  intro cs. unfold solve_polyexpr, solve_poly.
  destruct (extract_coeffs cs) as [|c0 [|c1 rest]]; reflexivity.
Qed.

(* every solution of num = 0 that is not a pole is returned, in every alternative;
   everything returned is a zero of the numerator *)
Theorem solve_rational_complete : forall num den s,
  has_symbol_poly den = true -> solve_rational num den = Ok s ->
  match s with
  | SFinite alts => forall alt, In alt alts ->
       (forall x, peval num x = 0 -> peval den x <> 0 -> vals alt x) /\
       (forall x, vals alt x -> peval num x = 0)
  | SEmpty => forall x, peval num x = 0 -> peval den x <> 0 -> False
  | _ => True
  end.
Proof.
  intros num den s Hsym H. unfold solve_rational in H. rewrite Hsym, !solve_polyexpr_eq in H.
  destruct (solve_poly num) as [a| | |] eqn:Ea; try discriminate.
  destruct (solve_poly den) as [b| | |] eqn:Eb; try discriminate.
  injection H as <-.
  pose proof (solve_poly_exact _ _ Ea) as Sa. pose proof (solve_poly_exact _ _ Eb) as Sb.
  destruct a as [| |aa|]; cbn [complement norm_empty]; try exact I.
  - cbn [sres_spec] in Sa. intros x Hx _. exact (Sa x Hx).
  - cbn [sres_spec] in Sa. destruct Sa as [Hne Sa].
    destruct b as [| |bb|]; cbn [complement norm_empty]; try exact I.
    + (* the denominator never vanishes *)
      destruct (forallb _ aa) eqn:Eall.
      * intros x Hx _. destruct aa as [|al aa']; [congruence|].
        cbn [forallb] in Eall. apply andb_prop in Eall. destruct Eall as [Eal _].
        destruct al; [|discriminate]. apply (Sa [] (or_introl eq_refl) x) in Hx. apply vals_nil in Hx. exact Hx.
      * intros alt Ha. split; intros x; [intros Hx _|intro Hv]; apply (Sa alt Ha x); assumption.
    + cbn [sres_spec] in Sb. destruct Sb as [Hneb Sb].
      set (alts := flat_map (fun x => map (fun y => set_diff x y) bb) aa).
      assert (Hin : forall alt, In alt alts -> exists xa yb, In xa aa /\ In yb bb /\ alt = set_diff xa yb).
      { intros alt Ha. unfold alts in Ha. apply in_flat_map in Ha. destruct Ha as [xa [Hxa Ha]].
        apply in_map_iff in Ha. destruct Ha as [yb [<- Hyb]]. exists xa, yb. tauto. }
      assert (Hall : forall alt, In alt alts ->
                (forall x, peval num x = 0 -> peval den x <> 0 -> vals alt x) /\
                (forall x, vals alt x -> peval num x = 0)).
      { intros alt Ha. destruct (Hin alt Ha) as [xa [yb [Hxa [Hyb ->]]]]. split.
        - intros x Hx Hd. apply set_diff_complete; [apply (Sa xa Hxa x); exact Hx|].
          intro Hv. apply Hd. apply (Sb yb Hyb x). exact Hv.
        - intros x Hv. apply (Sa xa Hxa x). eapply set_diff_sub. exact Hv. }
      destruct (forallb _ alts) eqn:Eall; [|exact Hall].
      intros x Hx Hd.
      destruct aa as [|xa aa']; [congruence|]. destruct bb as [|yb bb']; [congruence|].
      assert (Ha : In (set_diff xa yb) alts) by (unfold alts; cbn [flat_map map]; left; reflexivity).
      rewrite forallb_forall in Eall. specialize (Eall _ Ha).
      destruct (Hall _ Ha) as [Hc _]. specialize (Hc x Hx Hd).
      destruct (set_diff xa yb); [apply vals_nil in Hc; exact Hc | discriminate].
Qed.

(* with rational roots only, poles are excluded exactly *)
Theorem solve_rational_exact_guarded : forall num den la lb,
  has_symbol_poly den = true ->
  solve_poly num = Ok (SFinite [la]) -> solve_poly den = Ok (SFinite [lb]) ->
  forallb is_rq la = true -> forallb is_rq lb = true ->
  forall x, vals (set_diff la lb) x <-> (peval num x = 0 /\ peval den x <> 0).
Proof.
  intros num den la lb Hsym Ea Eb Ga Gb x.
  pose proof (solve_poly_exact _ _ Ea) as [_ Sa]. pose proof (solve_poly_exact _ _ Eb) as [_ Sb].
  specialize (Sa la (or_introl eq_refl) x). specialize (Sb lb (or_introl eq_refl) x).
  split.
  - intro Hv. split; [apply Sa; eapply set_diff_sub; exact Hv|].
    intro Hd. apply Sb in Hd. exact (set_diff_rq_excl la lb x Ga Gb Hv Hd).
  - intros [Hn Hd]. apply set_diff_complete; [apply Sa; exact Hn|]. intro Hv. apply Hd. apply Sb. exact Hv.
Qed.

End Total.

End Sem.
