(* C30 -- linsolve (symengine/solve.cpp) on top of the model of DenseMatrix of property C24
   (coq/C24/DenseModel.v: checked flat vectors, exact entries Fin q | zoo | nan, the
   transcription of fraction_free_gauss_jordan_solve and submatrix_dense).  Model file: imports
   no proofs. *)
From SE Require Import Base.Prelude C24.DenseModel.
From Coq Require Import List.
Import ListNotations.
Local Open Scope N_scope.
Local Open Scope res_scope.

(* for (i = 0; i < res.nrows(); i++) fs.push_back(res.get(i, 0)) *)
Fixpoint collect_col0 (M : dmat) (i : N) (n : nat) : res (list qx) :=
  match n with
  | O => Ok []
  | S k => do v <- mget M i 0; do r <- collect_col0 M (i + 1) k; Ok (v :: r)
  end.

(* linsolve_helper(A, b): DenseMatrix res(A.nrows(), 1);
   fraction_free_gauss_jordan_solve(A, b, res) (pivot = true by default) *)
Definition linsolve_helper (A b : dmat) : res (list qx) :=
  do r <- fraction_free_gauss_jordan_solve A b (mzero (drow A) 1) true;
  collect_col0 r 0 (N.to_nat (drow r)).

(* linsolve(const DenseMatrix &system, syms):
     DenseMatrix A(nrows, ncols - 1), b(nrows, 1);
     system.submatrix(A, 0, 0, nrows - 1, ncols - 2);
     system.submatrix(b, 0, ncols - 1, nrows - 1, ncols - 1);
   (0u - 1 wraps for an empty dimension: refused, as in C24) *)
Definition linsolve_dense (sys : dmat) : res (list qx) :=
  let nrows := drow sys in
  let ncols := dcol sys in
  if (nrows =? 0) || (ncols <? 2) then ErrExn EXN_EMPTY else
  do A <- submatrix_dense sys (mzero nrows (ncols - 1)) 0 0 (nrows - 1) (ncols - 2) 1 1;
  do b <- submatrix_dense sys (mzero nrows 1) 0 (ncols - 1) (nrows - 1) (ncols - 1) 1 1;
  linsolve_helper A b.
