(* C30 obligation: solve_poly (degree detection, dispatch, closed forms) returns exactly the
   solution set: for every coefficient list the result is
     the whole domain  and every x is a root,   or
     EmptySet          and no x is a root,      or
     a FiniteSet       whose members denote exactly the roots (for each alternative), or
     a ConditionSet    and the degree is above 4.
   See SolveSpec.sres_specK_unfold for the definition of sres_specK. *)
From Coq Require Import QArith List.
From SE Require Import Base.Prelude C30.SolveModel C30.SolveProofs C30.SolveSpec.
Import ListNotations.
Theorem C30_solve_poly_exact :
  forall (K : radfield), radicals_total K ->
  forall (cs : list Q) (s : sres), solve_poly cs = Ok s -> sres_specK K cs s.
Proof. exact K_solve_poly_exact. Qed.
Print Assumptions C30_solve_poly_exact.
