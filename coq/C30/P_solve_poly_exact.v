(* C30 obligation: solve_poly (degree detection, dispatch, closed forms) returns exactly the
   solution set: for every coefficient list the result is
     the whole domain  and every x is a root,   or
     EmptySet          and no x is a root,      or
     a FiniteSet       whose members denote exactly the roots (for each alternative), or
     a ConditionSet    and the degree is above 4
   (SolveSpec.sres_specK_unfold spells out sres_specK), in every field of characteristic 0 in
   which the radicals used by the computation (solve_poly_radicals cs) satisfy their defining
   relations.  Second form: radicals total.  solve_poly never fails. *)
From Coq Require Import QArith List.
From SE Require Import Base.Prelude C30.SolveModel C30.SolveProofs C30.SolveSpec.
Import ListNotations.
Theorem C30_solve_poly_exact :
  forall (K : radfield) (cs : list Q) (s : sres),
  (forall e, In e (solve_poly_radicals cs) -> rad_okK K e) ->
  solve_poly cs = Ok s -> sres_specK K cs s.
Proof. exact K_solve_poly_exact_local. Qed.
Print Assumptions C30_solve_poly_exact.

Theorem C30_solve_poly_exact_total :
  forall (K : radfield), radicals_total K ->
  forall (cs : list Q) (s : sres), solve_poly cs = Ok s -> sres_specK K cs s.
Proof. exact K_solve_poly_exact. Qed.
Print Assumptions C30_solve_poly_exact_total.

Theorem C30_solve_poly_never_fails : forall cs : list Q, exists s, solve_poly cs = Ok s.
Proof. exact solve_poly_total. Qed.
Print Assumptions C30_solve_poly_never_fails.
