(* C30 obligation: solve_poly_linear returns exactly the root of c1*x + c0 (any field of
   characteristic 0). *)
From Coq Require Import QArith List.
From SE Require Import Base.Prelude C30.SolveModel C30.SolveProofs C30.SolveSpec.
Import ListNotations.
Theorem C30_linear_sound_complete :
  forall (K : radfield) (c0 c1 : Q), ~ (c1 == 0)%Q ->
    exists r, solve_poly_linear [c0; c1] = Ok [r] /\
              forall x : K, pevalK K [c0; c1] x = f0 K <-> x = evalK K r.
Proof. exact K_linear_exact. Qed.
Print Assumptions C30_linear_sound_complete.
