(* C30 obligation: whichever two resolvent roots Euler's method picks (every alternative of the
   model), the members of the set returned by solve_poly_quartic denote exactly the roots of the
   quartic (all branches: d == 0, g == 0, ff == 0, Euler), provided the radicals that the
   computation relies on (quartic_radicals: the nested cubic / quadratic roots and their square
   roots) satisfy their defining relations.  Second form: radicals total. *)
From Coq Require Import QArith List.
From SE Require Import Base.Prelude C30.SolveModel C30.SolveProofs C30.SolveSpec.
Import ListNotations.
Theorem C30_quartic_roots_sound :
  forall (K : radfield) (c0 c1 c2 c3 c4 : Q), ~ (c4 == 0)%Q ->
  (forall e, In e (quartic_radicals c0 c1 c2 c3 c4) -> rad_okK K e) ->
  forall alt, In alt (quartic_alts c0 c1 c2 c3 c4) ->
  forall x : K, pevalK K [c0; c1; c2; c3; c4] x = f0 K <-> valsK K alt x.
Proof. exact K_quartic_exact_local. Qed.
Print Assumptions C30_quartic_roots_sound.

Theorem C30_quartic_roots_sound_total :
  forall (K : radfield), radicals_total K ->
  forall (c0 c1 c2 c3 c4 : Q), ~ (c4 == 0)%Q ->
  forall alt, In alt (quartic_alts c0 c1 c2 c3 c4) ->
  forall x : K, pevalK K [c0; c1; c2; c3; c4] x = f0 K <-> valsK K alt x.
Proof. exact K_quartic_exact. Qed.
Print Assumptions C30_quartic_roots_sound_total.
