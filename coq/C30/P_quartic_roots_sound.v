(* C30 obligation: whichever two resolvent roots Euler's method picks (every alternative of the
   model), the members of the set returned by solve_poly_quartic denote exactly the roots of the
   quartic (all branches: d == 0, g == 0, ff == 0, Euler). *)
From Coq Require Import QArith List.
From SE Require Import Base.Prelude C30.SolveModel C30.SolveProofs C30.SolveSpec.
Import ListNotations.
Theorem C30_quartic_roots_sound :
  forall (K : radfield), radicals_total K ->
  forall (c0 c1 c2 c3 c4 : Q), ~ (c4 == 0)%Q ->
  forall alt, In alt (quartic_alts c0 c1 c2 c3 c4) ->
  forall x : K, pevalK K [c0; c1; c2; c3; c4] x = f0 K <-> valsK K alt x.
Proof. exact K_quartic_exact. Qed.
Print Assumptions C30_quartic_roots_sound.
