(* Extraction of the C30 model (run from the output directory; not part of `make`). *)
From Coq Require Import QArith ZArith.
From SE Require Import C30.SolveModel.
Require Import ExtrOcamlBasic.
Extraction "solve_model.ml" solve_poly solve_polyexpr solve_poly_heuristics solve_rational linsolve
  Qred Z.add Z.mul Z.opp Z.div_eucl.
