(* Extraction of the C30 model (run from the output directory; not part of `make`). *)
From Coq Require Import QArith ZArith Qcanon.
From SE Require Import C30.SolveModel C24.DenseModel C30.LinsolveModel.
Require Import ExtrOcamlBasic.
Extraction "solve_model.ml" solve_poly solve_polyexpr solve_poly_heuristics solve_rational
  linsolve_dense linsolve_helper mkmat Q2Qc this
  Qred Z.add Z.mul Z.opp Z.div_eucl.
