(* C30 -- the vocabulary of the property theorems.

   [radfield]: a field of characteristic 0 (decidable equality) together with three arbitrary
   "radical" operations: fsqrt, fcbrt : F -> F and an element fi.  Nothing is assumed about them
   in the record; a theorem either asks [rad_ok e] for the templates e it talks about (every
   radical occurring in e satisfies sqrt(a)^2 = a, cbrt(a)^3 = a, i^2 = -1) or [radicals_total]
   (the three laws hold everywhere, as in the complex numbers with any choice of branches).

   [evalK K e]  : the value of a template of SolveModel.v
   [pevalK K cs x] : sum_i cs[i] x^i
   [valsK K l v]  : v is the value of a member of the list l *)
From Coq Require Import Field_theory InitialRing QArith ZArith List.
From SE Require Import Base.Prelude C30.SolveModel C30.SolveProofs.
Import ListNotations.

Record radfield : Type := {
  carrier :> Type;
  f0 : carrier;
  f1 : carrier;
  fadd : carrier -> carrier -> carrier;
  fmul : carrier -> carrier -> carrier;
  fsub : carrier -> carrier -> carrier;
  fopp : carrier -> carrier;
  fdiv : carrier -> carrier -> carrier;
  finv : carrier -> carrier;
  Fth : field_theory f0 f1 fadd fmul fsub fopp fdiv finv (@eq carrier);
  feq_dec : forall x y : carrier, {x = y} + {x <> y};
  fchar0 : forall p : positive, gen_phiZ f0 f1 fadd fmul fopp (Zpos p) <> f0;
  fsqrt : carrier -> carrier;
  fcbrt : carrier -> carrier;
  fi : carrier;
}.

Definition ofQK (K : radfield) : Q -> K := ofQ K (f0 K) (f1 K) (fadd K) (fmul K) (fopp K) (fdiv K).
Definition evalK (K : radfield) : rx -> K :=
  eval K (f0 K) (f1 K) (fadd K) (fmul K) (fsub K) (fopp K) (fdiv K) (fsqrt K) (fcbrt K) (fi K).
Definition rad_okK (K : radfield) : rx -> Prop :=
  rad_ok K (f0 K) (f1 K) (fadd K) (fmul K) (fsub K) (fopp K) (fdiv K) (fsqrt K) (fcbrt K) (fi K).
Definition pevalK (K : radfield) : list Q -> K -> K :=
  peval K (f0 K) (f1 K) (fadd K) (fmul K) (fopp K) (fdiv K).
Definition valsK (K : radfield) : list rx -> K -> Prop :=
  vals K (f0 K) (f1 K) (fadd K) (fmul K) (fsub K) (fopp K) (fdiv K) (fsqrt K) (fcbrt K) (fi K).
Definition sres_specK (K : radfield) : list Q -> sres -> Prop :=
  sres_spec K (f0 K) (f1 K) (fadd K) (fmul K) (fsub K) (fopp K) (fdiv K) (fsqrt K) (fcbrt K) (fi K).

Definition radicals_total (K : radfield) : Prop :=
  (forall x : K, fmul K (fsqrt K x) (fsqrt K x) = x) /\
  (forall x : K, fmul K (fmul K (fcbrt K x) (fcbrt K x)) (fcbrt K x) = x) /\
  fmul K (fi K) (fi K) = fopp K (f1 K).

(* unfolding of [sres_specK], for reading the theorems:
   SDomain      : every x is a root
   SEmpty       : no x is a root
   SFinite alts : alts is not empty and the members of every alternative denote exactly the roots
   SCondition   : the degree is above 4 *)
Lemma sres_specK_unfold : forall K cs s,
  sres_specK K cs s =
  match s with
  | SDomain => forall x, pevalK K cs x = f0 K
  | SEmpty => forall x, pevalK K cs x <> f0 K
  | SFinite alts => alts <> [] /\ forall alt, In alt alts -> forall x, pevalK K cs x = f0 K <-> valsK K alt x
  | SCondition => (5 < length (extract_coeffs cs))%nat
  end.
Proof. intros K cs s. destruct s; reflexivity. Qed.

(* ---------------------------------------------------------------- the theorems, packaged *)
Section Packaged.
Variable K : radfield.
Notation "a * b" := (fmul K a b).
Notation "a - b" := (fsub K a b).

Lemma K_linear_exact : forall c0 c1, ~ (c1 == 0)%Q ->
  exists r, solve_poly_linear [c0; c1] = Ok [r] /\
            forall x, pevalK K [c0; c1] x = f0 K <-> x = evalK K r.
Proof. exact (linear_exact K _ _ _ _ _ _ _ _ (Fth K) (fchar0 K) (fsqrt K) (fcbrt K) (fi K)). Qed.

Lemma K_quadratic_factor : forall c0 c1 c2, ~ (c2 == 0)%Q ->
  let rr := quadratic_roots c0 c1 c2 in
  rad_okK K (fst rr) -> rad_okK K (snd rr) ->
  forall x, pevalK K [c0; c1; c2] x = ofQK K c2 * (x - evalK K (fst rr)) * (x - evalK K (snd rr)).
Proof. exact (quadratic_factor K _ _ _ _ _ _ _ _ (Fth K) (feq_dec K) (fchar0 K) (fsqrt K) (fcbrt K) (fi K)). Qed.

Lemma K_quadratic_double_iff : forall c0 c1 c2, ~ (c2 == 0)%Q ->
  let rr := quadratic_roots c0 c1 c2 in
  rad_okK K (fst rr) -> rad_okK K (snd rr) ->
  (evalK K (fst rr) = evalK K (snd rr) <-> (c1 * c1 - 4 * c0 * c2 == 0)%Q).
Proof. exact (quadratic_double_iff K _ _ _ _ _ _ _ _ (Fth K) (feq_dec K) (fchar0 K) (fsqrt K) (fcbrt K) (fi K)). Qed.

Lemma K_cubic_factor : forall c0 c1 c2 c3, ~ (c3 == 0)%Q ->
  let t := cubic_roots c0 c1 c2 c3 in
  rad_okK K (t1 t) -> rad_okK K (t2 t) -> rad_okK K (t3 t) ->
  forall x, pevalK K [c0; c1; c2; c3] x
            = ofQK K c3 * (x - evalK K (t1 t)) * (x - evalK K (t2 t)) * (x - evalK K (t3 t)).
Proof. exact (cubic_factor K _ _ _ _ _ _ _ _ (Fth K) (feq_dec K) (fchar0 K) (fsqrt K) (fcbrt K) (fi K)). Qed.

Lemma K_quartic_exact : radicals_total K ->
  forall c0 c1 c2 c3 c4, ~ (c4 == 0)%Q ->
  forall alt, In alt (quartic_alts c0 c1 c2 c3 c4) ->
  forall x, pevalK K [c0; c1; c2; c3; c4] x = f0 K <-> valsK K alt x.
Proof.
  intros [Hs [Hc Hi]].
  exact (quartic_exact K _ _ _ _ _ _ _ _ (Fth K) (feq_dec K) (fchar0 K) (fsqrt K) (fcbrt K) (fi K) Hs Hc Hi).
Qed.

Lemma K_quartic_exact_local :
  forall c0 c1 c2 c3 c4, ~ (c4 == 0)%Q ->
  (forall e, In e (quartic_radicals c0 c1 c2 c3 c4) -> rad_okK K e) ->
  forall alt, In alt (quartic_alts c0 c1 c2 c3 c4) ->
  forall x, pevalK K [c0; c1; c2; c3; c4] x = f0 K <-> valsK K alt x.
Proof. exact (quartic_exact_local K _ _ _ _ _ _ _ _ (Fth K) (feq_dec K) (fchar0 K) (fsqrt K) (fcbrt K) (fi K)). Qed.

Lemma K_solve_poly_exact_local :
  forall cs s, (forall e, In e (solve_poly_radicals cs) -> rad_okK K e) ->
  solve_poly cs = Ok s -> sres_specK K cs s.
Proof. exact (solve_poly_exact_local K _ _ _ _ _ _ _ _ (Fth K) (feq_dec K) (fchar0 K) (fsqrt K) (fcbrt K) (fi K)). Qed.

Lemma K_solve_poly_exact : radicals_total K ->
  forall cs s, solve_poly cs = Ok s -> sres_specK K cs s.
Proof.
  intros [Hs [Hc Hi]].
  exact (solve_poly_exact K _ _ _ _ _ _ _ _ (Fth K) (feq_dec K) (fchar0 K) (fsqrt K) (fcbrt K) (fi K) Hs Hc Hi).
Qed.

Lemma K_solve_rational_complete : radicals_total K ->
  forall num den s,
  has_symbol_poly den = true -> solve_rational num den = Ok s ->
  match s with
  | SFinite alts => forall alt, In alt alts ->
       (forall x, pevalK K num x = f0 K -> pevalK K den x <> f0 K -> valsK K alt x) /\
       (forall x, valsK K alt x -> pevalK K num x = f0 K)
  | SEmpty => forall x, pevalK K num x = f0 K -> pevalK K den x <> f0 K -> False
  | _ => True
  end.
Proof.
  intros [Hs [Hc Hi]].
  exact (solve_rational_complete K _ _ _ _ _ _ _ _ (Fth K) (feq_dec K) (fchar0 K) (fsqrt K) (fcbrt K) (fi K) Hs Hc Hi).
Qed.

Lemma K_solve_rational_exact_guarded : radicals_total K ->
  forall num den la lb,
  has_symbol_poly den = true ->
  solve_poly num = Ok (SFinite [la]) -> solve_poly den = Ok (SFinite [lb]) ->
  forallb is_rq la = true -> forallb is_rq lb = true ->
  forall x, valsK K (set_diff la lb) x <-> (pevalK K num x = f0 K /\ pevalK K den x <> f0 K).
Proof.
  intros [Hs [Hc Hi]].
  exact (solve_rational_exact_guarded K _ _ _ _ _ _ _ _ (Fth K) (feq_dec K) (fchar0 K) (fsqrt K) (fcbrt K) (fi K) Hs Hc Hi).
Qed.

Lemma K_rational_pole_witness :
  (exists alt, solve_rational [-2#1; 0; 1] [2#1; -2#1; -1#1; 1] = Ok (SFinite [alt]) /\ In (RSqrt (RQ (2#1))) alt)
  /\ (rad_okK K (RSqrt (RQ (2#1))) -> pevalK K [2#1; -2#1; -1#1; 1] (evalK K (RSqrt (RQ (2#1)))) = f0 K).
Proof. exact (rational_pole_witness K _ _ _ _ _ _ _ _ (Fth K) (feq_dec K) (fsqrt K) (fcbrt K) (fi K)). Qed.

End Packaged.
