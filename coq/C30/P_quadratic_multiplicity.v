(* C30 obligation: the two returned quadratic roots coincide exactly when the discriminant
   c1^2 - 4 c0 c2 is zero (so the FiniteSet has one member exactly for a double root). *)
From Coq Require Import QArith List.
From SE Require Import Base.Prelude C30.SolveModel C30.SolveProofs C30.SolveSpec.
Import ListNotations.
Theorem C30_quadratic_multiplicity :
  forall (K : radfield) (c0 c1 c2 : Q), ~ (c2 == 0)%Q ->
    let rr := quadratic_roots c0 c1 c2 in
    rad_okK K (fst rr) -> rad_okK K (snd rr) ->
    (evalK K (fst rr) = evalK K (snd rr) <-> (c1 * c1 - 4 * c0 * c2 == 0)%Q).
Proof. exact K_quadratic_double_iff. Qed.
Print Assumptions C30_quadratic_multiplicity.
