(* C30 -- executable model of symengine/solve.cpp (closed-form polynomial solving, rational
   equations).

   The polynomial solvers receive rational coefficients (low degree first, as produced by
   extract_coeffs) and return *expression templates* [rx]: the sequence of public arithmetic
   calls (add/sub/mul/div/neg/sqrt/pow(.,1/3)) that solve.cpp performs on them.  Everything the
   C++ computes on plain numbers is computed here in Q (the library folds numbers eagerly), so a
   template only contains the radicals that the library leaves symbolic.  The branch tests
   eq(e, zero) of the C++ are decided on these folded templates ([is_zero]).

   Sets (std::set ordered by hash) are duplicate-free lists; the only place where the hash order
   is observable (Euler's method takes the first two elements of the resolvent's root set) makes
   the model return all *alternatives* ([SFinite alts]).

   Model files import no proofs. *)
From Coq Require Import QArith List ZArith Bool.
From SE Require Import Base.Prelude.
Import ListNotations.
Local Open Scope Q_scope.

(* ------------------------------------------------------------------ templates *)
Inductive rx : Type :=
| RQ (q : Q)                    (* a Rational / Integer *)
| RI                            (* the imaginary unit I *)
| RNeg (a : rx)                 (* neg(a) *)
| RAdd (a b : rx)               (* add(a, b) *)
| RSub (a b : rx)               (* sub(a, b) *)
| RMul (a b : rx)               (* mul(a, b) *)
| RDiv (a b : rx)               (* div(a, b) *)
| RSqrt (a : rx)                (* sqrt(a) *)
| RCbrt (a : rx)                (* pow(a, 1/3) *)
| RAdd4 (a b c d : rx)          (* add({a, b, c, d}) *)
| RMul3 (a b c : rx).           (* mul({a, b, c}) *)

Fixpoint rx_eqb (x y : rx) : bool :=
  match x, y with
  | RQ p, RQ q => Qeq_bool p q
  | RI, RI => true
  | RNeg a, RNeg b => rx_eqb a b
  | RAdd a1 a2, RAdd b1 b2 => rx_eqb a1 b1 && rx_eqb a2 b2
  | RSub a1 a2, RSub b1 b2 => rx_eqb a1 b1 && rx_eqb a2 b2
  | RMul a1 a2, RMul b1 b2 => rx_eqb a1 b1 && rx_eqb a2 b2
  | RDiv a1 a2, RDiv b1 b2 => rx_eqb a1 b1 && rx_eqb a2 b2
  | RSqrt a, RSqrt b => rx_eqb a b
  | RCbrt a, RCbrt b => rx_eqb a b
  | RAdd4 a1 a2 a3 a4, RAdd4 b1 b2 b3 b4 =>
      rx_eqb a1 b1 && rx_eqb a2 b2 && rx_eqb a3 b3 && rx_eqb a4 b4
  | RMul3 a1 a2 a3, RMul3 b1 b2 b3 => rx_eqb a1 b1 && rx_eqb a2 b2 && rx_eqb a3 b3
  | _, _ => false
  end.

(* ------------------------------------------------------------------ number folding *)
Definition rq (q : Q) : rx := RQ (Qred q).
Definition qz (z : Z) : Q := inject_Z z.

Definition is0 (q : Q) : bool := Qeq_bool q 0.

(* eq( *e, *zero): only a number can be structurally zero *)
Definition is_zero (e : rx) : bool :=
  match e with RQ q => is0 q | _ => false end.

Definition rneg (a : rx) : rx :=
  match a with RQ p => rq (- p) | _ => RNeg a end.
Definition radd (a b : rx) : rx :=
  match a, b with RQ p, RQ q => rq (p + q) | _, _ => RAdd a b end.
Definition rsub (a b : rx) : rx :=
  match a, b with RQ p, RQ q => rq (p - q) | _, _ => RSub a b end.
Definition rmul (a b : rx) : rx :=
  match a, b with RQ p, RQ q => rq (p * q) | _, _ => RMul a b end.
Definition rdiv (a b : rx) : rx :=
  match a, b with RQ p, RQ q => rq (p / q) | _, _ => RDiv a b end.

(* sqrt of a rational folds to a rational exactly when it is the square of one:
   n/d is a square iff n*d is (n/d = n*d/d^2) *)
Definition sqrt_exact (q : Q) : option Q :=
  let m := (Qnum q * Zpos (Qden q))%Z in
  if (m <? 0)%Z then None
  else let s := Z.sqrt m in
       if (s * s =? m)%Z then Some (Qred (s # Qden q)) else None.

Definition rsqrt (a : rx) : rx :=
  match a with
  | RQ q => match sqrt_exact q with Some t => RQ t | None => RSqrt a end
  | _ => RSqrt a
  end.

(* pow(q, 1/3) of a positive rational folds to a rational when numerator and denominator are
   perfect cubes (negative bases keep a factor (-1)**(1/3) and stay symbolic) *)
Fixpoint icbrt_aux (fuel : nat) (n r bit : Z) : Z :=
  match fuel with
  | O => r
  | S f =>
      let r' := (r + bit)%Z in
      icbrt_aux f n (if (r' * r' * r' <=? n)%Z then r' else r) (bit / 2)%Z
  end.
Definition icbrt (n : Z) : Z :=
  let k := (Z.log2 n / 3 + 1)%Z in
  icbrt_aux (Z.to_nat k + 1) n 0%Z (2 ^ k)%Z.

Definition cbrt_exact (q : Q) : option Q :=
  let n := Qnum q in
  let d := Zpos (Qden q) in
  if (0 <? n)%Z then
    let a := icbrt n in
    let b := icbrt d in
    if ((a * a * a =? n) && (b * b * b =? d) && (0 <? b))%Z
    then Some (Qred (a # Z.to_pos b)) else None
  else None.

Definition rcbrt (a : rx) : rx :=
  match a with
  | RQ q => match cbrt_exact q with Some t => RQ t | None => RCbrt a end
  | _ => RCbrt a
  end.

Definition radd4 (a b c d : rx) : rx :=
  match a, b, c, d with
  | RQ p, RQ q, RQ r, RQ s => rq (p + q + r + s)
  | _, _, _, _ => RAdd4 a b c d
  end.
Definition rmul3 (a b c : rx) : rx :=
  match a, b, c with
  | RQ p, RQ q, RQ r => rq (p * q * r)
  | _, _, _ => RMul3 a b c
  end.

(* ------------------------------------------------------------------ sets of templates *)
Definition set_mem (x : rx) (l : list rx) : bool := existsb (rx_eqb x) l.
Definition set_insert (x : rx) (l : list rx) : list rx :=
  if set_mem x l then l else l ++ [x].
Definition set_of (l : list rx) : list rx := fold_left (fun s x => set_insert x s) l [].
Definition set_union_l (a b : list rx) : list rx := fold_left (fun s x => set_insert x s) b a.
(* set_complement(a, b) on finite sets: the members of a that are not members of b *)
Definition set_diff (a b : list rx) : list rx := filter (fun x => negb (set_mem x b)) a.

(* ------------------------------------------------------------------ solve_poly_linear *)
Definition solve_poly_linear (cs : list Q) : res (list rx) :=
  match cs with
  | [c0; c1] => Ok [rneg (rdiv (rq c0) (rq c1))]
  | _ => ErrExn EXN_SYMENGINE
  end.

(* ------------------------------------------------------------------ solve_poly_quadratic *)
(* the two roots in the order root1, root2 (with multiplicity) *)
Definition quadratic_roots (c0 c1 c2 : Q) : rx * rx :=
  let a := c2 in
  let b := c1 / a in
  let c := c0 / a in
  if is0 c then (rq (- b), rq 0)
  else if is0 b then
    let root1 := rsqrt (rq (- c)) in (root1, rneg root1)
  else
    let discriminant := b * b - 4 * c in
    let lterm := rq (- b / 2) in
    let rterm := rdiv (rsqrt (rq discriminant)) (rq 2) in
    (radd lterm rterm, rsub lterm rterm).

Definition solve_poly_quadratic (cs : list Q) : res (list rx) :=
  match cs with
  | [c0; c1; c2] => let '(r1, r2) := quadratic_roots c0 c1 c2 in Ok (set_of [r1; r2])
  | _ => ErrExn EXN_SYMENGINE
  end.

(* ------------------------------------------------------------------ solve_poly_cubic *)
Definition cubic_roots (c0 c1 c2 c3 : Q) : rx * rx * rx :=
  let a := c3 in
  let b := c2 / a in
  let c := c1 / a in
  let d := c0 / a in
  if is0 d then
    let root1 := rq 0 in
    let '(q1, q2) := quadratic_roots c b 1 in
    let cont := set_of [q1; q2] in
    match cont with
    | [x; y] => (root1, x, y)
    | x :: _ => (root1, x, x)
    | [] => (root1, root1, root1)        (* unreachable: the set has one or two members *)
    end
  else
    let delta0 := b * b - 3 * c in
    let delta1 := (b * b * b) * 2 - 9 * b * c + 27 * d in
    let delta := (4 * (delta0 * delta0 * delta0) - delta1 * delta1) / 27 in
    if is0 delta then
      if is0 delta0 then
        let r := rq (- b / 3) in (r, r, r)
      else
        let r12 := rq ((9 * d - b * c) / (2 * delta0)) in
        let r3 := rq ((4 * b * c - (d * 9 + b * b * b)) / delta0) in
        (r12, r12, r3)
    else
      let temp := rsqrt (rq (- (27) * delta)) in
      let Cexpr0 := rdiv (radd (rq delta1) temp) (rq 2) in
      let Cexpr := if is_zero Cexpr0 then rdiv (rsub (rq delta1) temp) (rq 2) else Cexpr0 in
      let C := rcbrt Cexpr in
      let root1 := rneg (rdiv (radd (rq b) (radd C (rdiv (rq delta0) C))) (rq 3)) in
      let coef := rdiv (rmul RI (rsqrt (rq 3))) (rq 2) in
      let temp2 := rq (- (1 / 2)) in
      let cbrt1 := radd temp2 coef in
      let cbrt2 := rsub temp2 coef in
      let root2 := rneg (rdiv (radd (rq b) (radd (rmul cbrt1 C) (rdiv (rq delta0) (rmul cbrt1 C)))) (rq 3)) in
      let root3 := rneg (rdiv (radd (rq b) (radd (rmul cbrt2 C) (rdiv (rq delta0) (rmul cbrt2 C)))) (rq 3)) in
      (root1, root2, root3).

Definition cubic_set (c0 c1 c2 c3 : Q) : list rx :=
  let '(r1, r2, r3) := cubic_roots c0 c1 c2 c3 in set_of [r1; r2; r3].

Definition solve_poly_cubic (cs : list Q) : res (list rx) :=
  match cs with
  | [c0; c1; c2; c3] => Ok (cubic_set c0 c1 c2 c3)
  | _ => ErrExn EXN_SYMENGINE
  end.

(* ------------------------------------------------------------------ solve_poly_quartic *)
(* Euler's method: p, q are the square roots of the first two members (hash order, not
   modelled) of the resolvent's root set; every choice of two positions is an alternative *)
Definition euler_roots (ff aby4 : Q) (z1 z2 : rx) : list rx :=
  let p := rsqrt z1 in
  let q := rsqrt z2 in
  let r := rdiv (rneg (rq ff)) (rmul3 (rq 8) p q) in
  let na := rneg (rq aby4) in
  set_of [radd4 p q r na; radd4 p (rneg q) (rneg r) na;
          radd4 (rneg p) q (rneg r) na; radd4 (rneg p) (rneg q) r na].

Definition pairs_of (s : list rx) : list (rx * rx) :=
  match s with
  | [x] => [(x, x)]
  | [x; y] => [(x, y); (y, x)]
  | [x; y; z] => [(x, y); (x, z); (y, z); (y, x); (z, x); (z, y)]
  | _ => []
  end.

Definition quartic_alts (c0 c1 c2 c3 c4 : Q) : list (list rx) :=
  let lc := c4 in
  let a := c3 / lc in
  let b := c2 / lc in
  let c := c1 / lc in
  let d := c0 / lc in
  if is0 d then
    [set_insert (rq 0) (cubic_set c b a 1)]
  else
    let sqa := a * a in
    let cba := sqa * a in
    let aby4 := a / 4 in
    let e := b - (3 * sqa) / 8 in
    let ff := (c + cba / 8) - (a * b) / 2 in
    let g := (d + (sqa * b) / 16) - ((a * c) / 4 + (3 * cba * a) / 256) in
    if is0 g then
      let rtemp := cubic_set ff e 0 1 in
      [set_insert (rneg (rq aby4)) (set_of (map (fun r => rsub r (rq aby4)) rtemp))]
    else if is0 ff then
      let '(q1, q2) := quadratic_roots g e 1 in
      let rtemp := set_of [q1; q2] in
      [set_of (flat_map (fun r => let sqrtr := rsqrt r in
                                  [rsub sqrtr (rq aby4); rsub (rneg sqrtr) (rq aby4)]) rtemp)]
    else
      let rs := cubic_set (- ((ff * ff) / 64)) ((e * e - 4 * g) / 16) (e / 2) 1 in
      map (fun pq => euler_roots ff aby4 (fst pq) (snd pq)) (pairs_of rs).

(* ------------------------------------------------------------------ dispatch *)
Inductive sres : Type :=
| SDomain                              (* the whole domain *)
| SEmpty                               (* EmptySet *)
| SFinite (alts : list (list rx))      (* a FiniteSet; one member list per alternative *)
| SCondition.                          (* ConditionSet (degree above 4) *)

Definition lift1 (r : res (list rx)) : res sres :=
  match r with
  | Ok l => Ok (SFinite [l])
  | ErrOOB i l => ErrOOB i l
  | ErrFuel => ErrFuel
  | ErrExn c => ErrExn c
  end.

Definition solve_poly_quartic (cs : list Q) : res sres :=
  match cs with
  | [c0; c1; c2; c3; c4] => Ok (SFinite (quartic_alts c0 c1 c2 c3 c4))
  | _ => ErrExn EXN_SYMENGINE
  end.

Definition solve_poly_heuristics (cs : list Q) : res sres :=
  match cs with
  | [] => ErrExn EXN_SYMENGINE
  | [c0] => Ok (if is0 c0 then SDomain else SEmpty)
  | [_; _] => lift1 (solve_poly_linear cs)
  | [_; _; _] => lift1 (solve_poly_quadratic cs)
  | [_; _; _; _] => lift1 (solve_poly_cubic cs)
  | [_; _; _; _; _] => solve_poly_quartic cs
  | _ => ErrExn EXN_SYMENGINE
  end.

(* extract_coeffs of the UExprPoly: coefficients 0 .. degree, degree = largest exponent with a
   non-zero coefficient (0 for the zero polynomial) *)
Fixpoint strip_high (cs : list Q) : list Q :=
  match cs with
  | [] => []
  | c :: rest =>
      match strip_high rest with
      | [] => if is0 c then [] else [c]
      | r => c :: r
      end
  end.

Definition extract_coeffs (cs : list Q) : list Q :=
  match strip_high cs with [] => [0] | l => l end.

Definition solve_poly (cs : list Q) : res sres :=
  let co := extract_coeffs cs in
  if Nat.leb (length co) 5 then solve_poly_heuristics co else Ok SCondition.

(* ------------------------------------------------------------------ solve_rational *)
(* f = num/den with den depending on the symbol: set_complement(solve(num), solve(den));
   both polynomials given by their coefficient lists (the case where solve() reaches
   solve_poly for each of them) *)
Definition has_symbol_poly (cs : list Q) : bool := Nat.ltb 1 (length (extract_coeffs cs)).

Definition complement (a b : sres) : sres :=
  match a, b with
  | SEmpty, _ => SEmpty
  | SFinite aa, SFinite bb =>
      SFinite (flat_map (fun x => map (fun y => set_diff x y) bb) aa)
  | SFinite aa, SEmpty => SFinite aa
  | _, _ => SCondition                   (* not modelled *)
  end.

(* solve() on a polynomial expression: numbers are handled before solve_poly *)
Definition solve_polyexpr (cs : list Q) : res sres :=
  match extract_coeffs cs with
  | [c0] => Ok (if is0 c0 then SDomain else SEmpty)
  | _ => solve_poly cs
  end.

Definition norm_empty (s : sres) : sres :=
  match s with
  | SFinite alts => if forallb (fun l => match l with [] => true | _ => false end) alts
                    then SEmpty else s
  | _ => s
  end.

Definition solve_rational (num den : list Q) : res sres :=
  if has_symbol_poly den then
    match solve_polyexpr num, solve_polyexpr den with
    | Ok a, Ok b => Ok (norm_empty (complement a b))
    | Ok _, e => e
    | e, _ => e
    end
  else solve_poly num.

(* linsolve: see LinsolveModel.v (built on the DenseMatrix model of property C24) *)
