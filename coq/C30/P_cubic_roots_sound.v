(* C30 obligation: the three expressions computed by solve_poly_cubic (all branches: zero
   constant term, triple root, double root, Cardano with the Cexpr == 0 swap) factor the
   polynomial identically: c3 x^3 + ... + c0 = c3 (x - r1)(x - r2)(x - r3), for any values of
   the radicals occurring in them that satisfy sqrt(a)^2 = a, cbrt(a)^3 = a, i^2 = -1. *)
From Coq Require Import QArith List.
From SE Require Import Base.Prelude C30.SolveModel C30.SolveProofs C30.SolveSpec.
Import ListNotations.
Theorem C30_cubic_roots_sound :
  forall (K : radfield) (c0 c1 c2 c3 : Q), ~ (c3 == 0)%Q ->
    let t := cubic_roots c0 c1 c2 c3 in
    rad_okK K (t1 t) -> rad_okK K (t2 t) -> rad_okK K (t3 t) ->
    forall x : K, pevalK K [c0; c1; c2; c3] x
      = fmul K (fmul K (fmul K (ofQK K c3) (fsub K x (evalK K (t1 t)))) (fsub K x (evalK K (t2 t))))
               (fsub K x (evalK K (t3 t))).
Proof. exact K_cubic_factor. Qed.
Print Assumptions C30_cubic_roots_sound.
