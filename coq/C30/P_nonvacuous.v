(* C30: the hypotheses of the theorems are satisfiable.
   The rational numbers Qc (canonical fractions, Leibniz equality) form a [radfield] (the radical
   operations are never consulted when no radical occurs in a template); on it the hypotheses of
   the linear / quadratic / cubic theorems hold for concrete polynomials whose closed forms fold
   to rationals, and the conclusions can be evaluated.  [radicals_total] (quartic and dispatch
   theorems) asks for square and cube roots of every element: it holds in the complex numbers
   for any choice of branches, which are not constructed here. *)
From Coq Require Import QArith Qcanon List Field_theory InitialRing Lia Lqa.
From SE Require Import Base.Prelude C30.SolveModel C30.SolveProofs C30.SolveSpec.
Import ListNotations.

Lemma this_plus : forall x y : Qc, (this (x + y)%Qc == this x + this y)%Q.
Proof. intros x y. unfold Qcplus, Q2Qc. cbn [this]. apply Qred_correct. Qed.
Lemma this_mult : forall x y : Qc, (this (x * y)%Qc == this x * this y)%Q.
Proof. intros x y. unfold Qcmult, Q2Qc. cbn [this]. apply Qred_correct. Qed.

Lemma Qc_pos1 : forall p, (0 < this (gen_phiPOS1 1%Qc Qcplus Qcmult p))%Q.
Proof.
  induction p; cbn [gen_phiPOS1].
  - rewrite this_plus, this_mult, this_plus.
    set (v := this (gen_phiPOS1 1%Qc Qcplus Qcmult p)) in *. change (this 1%Qc) with 1%Q. lra.
  - rewrite this_mult, this_plus.
    set (v := this (gen_phiPOS1 1%Qc Qcplus Qcmult p)) in *. change (this 1%Qc) with 1%Q. lra.
  - reflexivity.
Qed.

Lemma Qc_char0 : forall p, gen_phiZ 0%Qc 1%Qc Qcplus Qcmult Qcopp (Zpos p) <> 0%Qc.
Proof.
  intros p H. cbn [gen_phiZ] in H.
  rewrite <- (same_gen (Eqsth Qc) (Eq_ext Qcplus Qcmult Qcopp) (Rth_ARth (Eqsth Qc) (Eq_ext Qcplus Qcmult Qcopp) (F_R Qcft))) in H.
  pose proof (Qc_pos1 p) as X. rewrite H in X. change (this 0%Qc) with 0%Q in X. lra.
Qed.

Local Open Scope Q_scope.

Definition QcK : radfield :=
  {| carrier := Qc; f0 := 0%Qc; f1 := 1%Qc; fadd := Qcplus; fmul := Qcmult; fsub := Qcminus;
     fopp := Qcopp; fdiv := Qcdiv; finv := Qcinv; Fth := Qcft; feq_dec := Qc_eq_dec;
     fchar0 := Qc_char0; fsqrt := fun x => x; fcbrt := fun x => x; fi := 0%Qc |}.

(* x^2 - 5x + 6: the hypotheses of C30_quadratic_sound_complete hold, the roots are 3 and 2 *)
Example nv_quadratic_hyps :
  ~ (1 == 0)%Q /\ rad_okK QcK (fst (quadratic_roots 6 (-5) 1)) /\ rad_okK QcK (snd (quadratic_roots 6 (-5) 1)).
Proof. split; [discriminate | vm_compute; tauto]. Qed.
Example nv_quadratic_roots :
  evalK QcK (fst (quadratic_roots 6 (-5) 1)) = Q2Qc 3 /\ evalK QcK (snd (quadratic_roots 6 (-5) 1)) = Q2Qc 2.
Proof. split; apply Qc_is_canon; vm_compute; reflexivity. Qed.
Example nv_quadratic_model : solve_poly [6; -5; 1] = Ok (SFinite [[RQ 3; RQ 2]]).
Proof. vm_compute. reflexivity. Qed.

(* (x - 1)^2 (x + 2) = x^3 - 3x + 2: double-root branch of the cubic *)
Example nv_cubic_hyps :
  let t := cubic_roots 2 (-3) 0 1 in
  ~ (1 == 0)%Q /\ rad_okK QcK (t1 t) /\ rad_okK QcK (t2 t) /\ rad_okK QcK (t3 t).
Proof. split; [discriminate | vm_compute; tauto]. Qed.
Example nv_cubic_model : solve_poly [2; -3; 0; 1] = Ok (SFinite [[RQ 1; RQ (-2)]]).
Proof. vm_compute. reflexivity. Qed.

(* x^3 - x: zero constant term *)
Example nv_cubic_d0_hyps :
  let t := cubic_roots 0 (-1) 0 1 in
  rad_okK QcK (t1 t) /\ rad_okK QcK (t2 t) /\ rad_okK QcK (t3 t).
Proof. vm_compute. tauto. Qed.

(* the quartic branches of the model on concrete inputs *)
Example nv_quartic_biquadratic : solve_poly [4; 0; -5; 0; 1] = Ok (SFinite [[RQ 2; RQ (-2); RQ 1; RQ (-1)]]).
Proof. vm_compute. reflexivity. Qed.
Example nv_quartic_euler_alternatives :
  exists alts, solve_poly [1; 1; 1; 1; 1] = Ok (SFinite alts) /\ length alts = 6%nat.
Proof. eexists. split; [vm_compute; reflexivity | reflexivity]. Qed.
Example nv_degree0 : solve_poly [0] = Ok SDomain /\ solve_poly [5] = Ok SEmpty /\ solve_poly [1; 0; 0; 0; 0; 1] = Ok SCondition.
Proof. repeat split; vm_compute; reflexivity. Qed.

(* the hypotheses of C30_quartic_roots_sound / C30_solve_poly_exact hold on Qc for quartics
   whose closed forms fold to rationals: biquadratic branch, zero constant term, and Euler's
   branch with a double root (the resolvent then has rational roots that are squares) *)
Example nv_quartic_local_hyps_biquadratic :
  forall e, In e (solve_poly_radicals [4; 0; -5; 0; 1]) -> rad_okK QcK e.
Proof. intros e H. vm_compute in H. repeat (destruct H as [<- | H]; [exact I|]). contradiction. Qed.
Example nv_quartic_local_hyps_euler :
  forall e, In e (solve_poly_radicals [-10; 23; -15; 1; 1]) -> rad_okK QcK e.
Proof. intros e H. vm_compute in H. repeat (destruct H as [<- | H]; [exact I|]). contradiction. Qed.
Example nv_quartic_euler_model :
  solve_poly [-10; 23; -15; 1; 1] = Ok (SFinite [[RQ 1; RQ 2; RQ (-5)]; [RQ 1; RQ 2; RQ (-5)]]).
Proof. vm_compute. reflexivity. Qed.
(* and the conclusion of C30_solve_poly_exact, instantiated: over Qc the roots of
   x^4 - 5x^2 + 4 are exactly 2, -2, 1, -1 *)
Example nv_solve_poly_exact_instance :
  forall x : Qc, pevalK QcK [4; 0; -5; 0; 1] x = 0%Qc <-> valsK QcK [RQ 2; RQ (-2); RQ 1; RQ (-1)] x.
Proof.
  pose proof (K_solve_poly_exact_local QcK [4; 0; -5; 0; 1] _ nv_quartic_local_hyps_biquadratic nv_quartic_biquadratic) as H.
  rewrite sres_specK_unfold in H. destruct H as [_ H]. apply H. left. reflexivity.
Qed.
