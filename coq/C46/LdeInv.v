(* C46 -- invariants of the abstract loop: everything put into the basis is a non-zero
   non-negative solution, and the basis stays an antichain.  The argument is local to the
   stack: an entry above another one has a frozen component on which it is strictly
   smaller, and is not below it. *)
From SE Require Export C46.LdeRefine.
From Coq Require Import Lia.
Local Open Scope Z_scope.

(* relation between an entry and one deeper in the stack *)
Definition Rst (u l : entry) : Prop :=
  (exists i, nth i (snd u) false = true /\ nth i (fst u) 0 < nth i (fst l) 0) /\
  ~ le_vec (fst u) (fst l).

Definition sep (x : list Z) (basis : list (list Z)) : Prop :=
  forall b, In b basis -> ~ le_vec x b /\ ~ le_vec b x.

Record core (A : mat) (Zs : list entry) (basis : list (list Z)) : Prop := {
  co_entries : Forall (entry_ok (m_q A)) Zs;
  co_nonneg : forall e, In e Zs -> nonneg (fst e);
  co_sep : forall e, In e Zs -> sep (fst e) basis;
  co_pairs : pairs_ok Rst Zs
}.

Record ainv (A : mat) (Zs : list entry) (basis : list (list Z)) : Prop := {
  ai_core : core A Zs basis;
  ai_sols : Forall (is_solution A) basis;
  ai_anti : antichain basis
}.

Lemma nonneg_bump t i : nonneg t -> nonneg (bump t i).
Proof. intros H j. pose proof (nth_bump_ge t i j). specialize (H j). lia. Qed.

Lemma nth_true_lt (F : list bool) j : nth j F false = true -> (j < length F)%nat.
Proof.
  intros H. destruct (Nat.ltb_spec j (length F)); auto. rewrite nth_overflow in H by lia. discriminate.
Qed.

Lemma nth_default_bool (F : list bool) j : (j < length F)%nat -> nth j F true = nth j F false.
Proof. intros. apply nth_indep. assumption. Qed.

Lemma nth_set_true (F : list bool) i j : nth j F false = true -> nth j (set_nth F i true) false = true.
Proof.
  intros H. rewrite nth_set_nth. destruct (Nat.eqb j i && Nat.ltb i (length F))%bool; auto.
Qed.

Lemma all_zero_map_solves A t : all_zero (prod_of A t) = true -> solves A t.
Proof.
  unfold all_zero, prod_of, solves. rewrite forallb_forall, Forall_forall.
  intros H r Hr. apply Z.eqb_eq. apply H. apply in_map_iff. exists r. auto.
Qed.

Lemma solves_all_zero A t : solves A t -> all_zero (prod_of A t) = true.
Proof.
  unfold all_zero, prod_of, solves. rewrite forallb_forall, Forall_forall.
  intros H x Hx. apply in_map_iff in Hx. destruct Hx as [r [<- Hr]]. apply Z.eqb_eq. auto.
Qed.

Lemma le_vec_zero q b : length b = q -> nonneg b -> le_vec (vec_zero q) b.
Proof.
  intros L N. split; [rewrite vec_zero_length; auto|]. intros i. rewrite nth_vec_zero. apply N.
Qed.

(* ---------- what pushing means ---------- *)
Lemma push_cond_true A basis product tzero t F i :
  push_cond A basis product tzero t F i = true ->
  nth i F true = false /\ (tzero = true \/ amin (bump t i) basis = true).
Proof.
  unfold push_cond. intros H. apply Bool.andb_true_iff in H. destruct H as [H1 H2].
  split; [destruct (nth i F true); [discriminate|reflexivity]|].
  apply Bool.orb_true_iff in H2. destruct H2 as [H2|H2]; [right|left; exact H2].
  apply Bool.andb_true_iff in H2. tauto.
Qed.

Lemma amin_true T basis : amin T basis = true -> forall b, In b basis -> ~ lt_vec b T.
Proof.
  unfold amin. rewrite forallb_forall. intros H b Hb L. specialize (H b Hb).
  apply lt_vecb_spec in L. rewrite L in H. discriminate.
Qed.

Lemma amin_intro T basis : (forall b, In b basis -> ~ lt_vec b T) -> amin T basis = true.
Proof.
  unfold amin. rewrite forallb_forall. intros H b Hb. destruct (lt_vecb b T) eqn:E; auto.
  apply lt_vecb_spec in E. exfalso. eapply H; eauto.
Qed.

(* ---------- the for loop keeps the core invariant ---------- *)
Section ForLoop.
Variable A : mat.
Variable basis : list (list Z).
Variable product : list Z.
Variable tzero : bool.
Variable t : list Z.
Variable Fr : list bool.
Variable Z1 : list entry.

Hypothesis Lt : length t = m_q A.
Hypothesis LFr : length Fr = m_q A.
Hypothesis Nt : nonneg t.
Hypothesis St : sep t basis.
Hypothesis Rt : Forall (Rst (t, Fr)) Z1.
Hypothesis Hsols : Forall (is_solution A) basis.
Hypothesis Htz : tzero = vec_eqb t (vec_zero (m_q A)).

Record forinv (i : nat) (F : list bool) (Zs : list entry) : Prop := {
  fi_len : length F = m_q A;
  fi_sup : forall j, nth j Fr false = true -> nth j F false = true;
  fi_kids : forall e, In e Zs -> In e Z1 \/ exists j, (j < i)%nat /\ nth j F false = true /\ fst e = bump t j;
  fi_core : core A Zs basis
}.

Lemma forinv_step i F Zs : (i < m_q A)%nat -> forinv i F Zs ->
  forinv (S i) (snd (fnext A basis product tzero t i F Zs)) (fst (fnext A basis product tzero t i F Zs)).
Proof.
  intros Hi [Il Is Ik [Ce Cn Cs Cp]]. unfold fnext.
  destruct (push_cond A basis product tzero t F i) eqn:Epc; cbn [fst snd].
  - apply push_cond_true in Epc. destruct Epc as [HFi Hwhy].
    assert (HFi' : nth i F false = false).
    { rewrite <- nth_default_bool by (eapply nth_false_lt; eauto). exact HFi. }
    assert (Sc : sep (bump t i) basis).
    { intros b Hb. destruct (St b Hb) as [S1 S2].
      assert (N1 : ~ le_vec (bump t i) b).
      { intros L. apply S1. eapply le_vec_trans; [apply le_vec_bump|exact L]. }
      split; [exact N1|].
      destruct Hwhy as [Hz|Hm].
      - (* t is the zero vector: nothing is in the basis yet *)
        exfalso. apply S1. rewrite Hz in Htz. symmetry in Htz. apply vec_eqb_spec in Htz. rewrite Htz.
        rewrite Forall_forall in Hsols. destruct (Hsols b Hb) as [Lb [Nb _]].
        apply le_vec_zero; auto.
      - intros L. pose proof (amin_true _ _ Hm b Hb) as NL.
        apply NL. split; [exact L|]. intros E. apply N1. rewrite E. apply le_vec_refl. }
    constructor.
    + rewrite set_nth_length. exact Il.
    + intros j Hj. apply nth_set_true. auto.
    + intros e [<-|He].
      * right. exists i. split; [lia|]. split; [|reflexivity].
        rewrite nth_set_nth_eq; auto. lia.
      * destruct (Ik e He) as [H1|[j [Hj [HF E]]]]; [left; exact H1|].
        right. exists j. split; [lia|]. split; [apply nth_set_true; exact HF|exact E].
    + constructor.
      * constructor; auto. split; cbn [fst snd]; [rewrite bump_length; exact Lt|exact Il].
      * intros e [<-|He]; [apply nonneg_bump; exact Nt|auto].
      * intros e [<-|He]; [exact Sc|auto].
      * cbn [pairs_ok]. split; [|exact Cp].
        apply Forall_forall. intros e He. unfold Rst. cbn [fst snd].
        destruct (Ik e He) as [H1|[j [Hj [HF E]]]].
        -- rewrite Forall_forall in Rt. destruct (Rt e H1) as [[i0 [Hi0 Hlt]] Nle]. cbn [fst snd] in *.
           split.
           ++ exists i0. split; [auto|]. rewrite nth_bump_neq; [exact Hlt|].
              intros ->. rewrite (Is _ Hi0) in HFi'. discriminate.
           ++ intros L. apply Nle. eapply le_vec_trans; [apply le_vec_bump|exact L].
        -- rewrite E. split.
           ++ exists j. split; [exact HF|]. rewrite nth_bump_neq by lia. rewrite nth_bump_eq by lia. lia.
           ++ intros [_ L]. specialize (L i). rewrite nth_bump_eq in L by lia.
              rewrite nth_bump_neq in L by lia. lia.
  - constructor; auto.
    + intros e He. destruct (Ik e He) as [H1|[j [Hj [HF E]]]]; [left; exact H1|].
      right. exists j. split; [lia|]. auto.
    + constructor; auto.
Qed.

Lemma afor_forinv : forall cnt i F Zs, (i + cnt = m_q A)%nat -> forinv i F Zs ->
  forinv (m_q A) (snd (afor A basis product tzero t i cnt F Zs)) (fst (afor A basis product tzero t i cnt F Zs)).
Proof.
  induction cnt as [|c IH]; intros i F Zs Hic I.
  - simpl. assert (E : i = m_q A) by lia. rewrite <- E at 1. exact I.
  - rewrite afor_step. apply IH; [lia|]. apply forinv_step; [lia|exact I].
Qed.

End ForLoop.

(* ---------- one iteration of the while loop ---------- *)
Lemma pairs_ok_tail {T} (R : T -> T -> Prop) a l : pairs_ok R (a :: l) -> pairs_ok R l.
Proof. simpl. tauto. Qed.

Lemma astep_ainv A Zs basis Z' b' : wf_mat A -> ainv A Zs basis -> astep A Zs basis = Some (Z', b') ->
  ainv A Z' b'.
Proof.
  intros Hwf [[Ce Cn Cs Cp] Hs Ha] E. destruct Zs as [|[t Fr] Z1]; [discriminate|].
  unfold astep in E.
  inversion Ce as [|? ? [Lt LFr] Ce1]; subst. cbn [fst snd] in Lt, LFr.
  destruct Cp as [Rt Cp1].
  assert (Nt : nonneg t) by (apply (Cn (t, Fr)); left; reflexivity).
  assert (St : sep t basis) by (apply (Cs (t, Fr)); left; reflexivity).
  destruct (all_zero (prod_of A t) && negb (vec_eqb t (vec_zero (m_q A)))) eqn:Ebr.
  - inversion E; subst Z' b'. clear E.
    apply Bool.andb_true_iff in Ebr. destruct Ebr as [Ez Enz].
    assert (Sol : is_solution A t).
    { split; [exact Lt|]. split; [exact Nt|]. split.
      - intros Eq. rewrite Eq in Enz. 
        assert (vec_eqb (vec_zero (m_q A)) (vec_zero (m_q A)) = true) by (apply vec_eqb_spec; reflexivity).
        rewrite H in Enz. discriminate.
      - apply all_zero_map_solves. exact Ez. }
    constructor.
    + constructor.
      * exact Ce1.
      * intros e He. apply Cn. right. exact He.
      * intros e He b Hb. apply in_app_or in Hb. destruct Hb as [Hb|[<-|[]]].
        -- apply (Cs e); [right; exact He|exact Hb].
        -- rewrite Forall_forall in Rt. destruct (Rt e He) as [[i0 [_ Hlt]] Nle]. cbn [fst] in *.
           split; [|exact Nle]. intros [_ L]. specialize (L i0). lia.
      * exact Cp1.
    + apply Forall_app. split; [exact Hs|]. constructor; [exact Sol|constructor].
    + unfold antichain in *. apply pairs_ok_app. split; [exact Ha|]. split; [simpl; auto|].
      intros a b Ha' [<-|[]]. destruct (St a Ha') as [S1 S2]. split; assumption.
  - inversion E; subst Z' b'. clear E.
    constructor; [|exact Hs|exact Ha].
    assert (I0 : forinv A basis t Fr Z1 0 Fr Z1).
    { constructor; auto.
      constructor; auto.
      - intros e He. apply Cn. right. exact He.
      - intros e He. apply Cs. right. exact He. }
    pose proof (afor_forinv A basis (prod_of A t) (vec_eqb t (vec_zero (m_q A))) t Fr Z1
                  Lt LFr Nt St Rt Hs eq_refl (m_q A) 0%nat Fr Z1 ltac:(lia) I0) as I.
    destruct I as [_ _ _ C]. exact C.
Qed.

Lemma ainv_start A : ainv A (astart A) [].
Proof.
  unfold astart. constructor; [|constructor|exact I].
  constructor.
  - constructor; [|constructor]. split; simpl; [apply vec_zero_length|apply repeat_length].
  - intros e [<-|[]]. intros i. simpl. rewrite nth_vec_zero. lia.
  - intros e _ b [].
  - simpl. auto.
Qed.

Lemma aloop_ainv A : wf_mat A -> forall fuel Zs basis B, ainv A Zs basis -> aloop fuel A Zs basis = Ok B ->
  ainv A [] B.
Proof.
  intros Hwf. induction fuel as [|f IH]; intros Zs basis B I E; [discriminate|].
  cbn [aloop] in E. destruct (astep A Zs basis) as [[Z' b']|] eqn:Es.
  - eapply IH; [|exact E]. eapply astep_ainv; eauto.
  - inversion E; subst. destruct Zs as [|[t Fr] Z1]; [exact I|].
    unfold astep in Es. destruct (all_zero (prod_of A t) && negb (vec_eqb t (vec_zero (m_q A)))); discriminate.
Qed.

(* ---------- soundness and the antichain property ---------- *)
Theorem lde_sound A fuel B : wf_mat A -> homogeneous_lde fuel A = Ok B ->
  forall x, In x B -> is_solution A x.
Proof.
  intros Hwf E. unfold homogeneous_lde in E. rewrite lde_refines in E by (auto; constructor).
  pose proof (aloop_ainv A Hwf fuel _ _ B (ainv_start A) E) as [_ Hs _].
  rewrite Forall_forall in Hs. exact Hs.
Qed.

Lemma antichain_incomparable B : antichain B ->
  forall i j x y, nth_error B i = Some x -> nth_error B j = Some y -> i <> j -> ~ le_vec x y.
Proof.
  intros Ha i j x y Hi Hj Nij.
  destruct (Nat.lt_ge_cases i j) as [L|L].
  - destruct (pairs_ok_In _ _ Ha i j x y L Hi Hj) as [H _]. exact H.
  - assert (L' : (j < i)%nat) by lia.
    destruct (pairs_ok_In _ _ Ha j i y x L' Hj Hi) as [_ H]. exact H.
Qed.

Lemma antichain_NoDup B : antichain B -> NoDup B.
Proof.
  induction B as [|a B IH]; intros H; constructor.
  - destruct H as [H _]. rewrite Forall_forall in H. intros Hin. destruct (H a Hin) as [N _].
    apply N. apply le_vec_refl.
  - apply IH. destruct H; assumption.
Qed.

Lemma antichain_le_eq B : antichain B -> forall x y, In x B -> In y B -> le_vec x y -> x = y.
Proof.
  intros Ha x y Hx Hy L.
  apply In_nth_error in Hx. apply In_nth_error in Hy. destruct Hx as [i Hi], Hy as [j Hj].
  destruct (Nat.eq_dec i j) as [->|N]; [congruence|].
  exfalso. exact (antichain_incomparable B Ha i j x y Hi Hj N L).
Qed.

Theorem lde_antichain A fuel B : wf_mat A -> homogeneous_lde fuel A = Ok B ->
  NoDup B /\ forall x y, In x B -> In y B -> le_vec x y -> x = y.
Proof.
  intros Hwf E. unfold homogeneous_lde in E. rewrite lde_refines in E by (auto; constructor).
  pose proof (aloop_ainv A Hwf fuel _ _ B (ainv_start A) E) as [_ _ Ha].
  split; [apply antichain_NoDup; exact Ha | apply antichain_le_eq; exact Ha].
Qed.
