(* C46 -- the model refines the abstract loop of LdeAbs.v: every index stays in range
   (the stack entry at index k has at least k frozen components, so the stack never
   holds more than q vectors and Frozen[n] is always a row of the q x q matrix). *)
From SE Require Export C46.LdeAbs.
From Coq Require Import Lia.
Local Open Scope Z_scope.

Definition count_true (F : list bool) : nat := length (filter (fun b => b) F).

Lemma count_true_le F : (count_true F <= length F)%nat.
Proof. unfold count_true. induction F as [|[] F]; simpl; lia. Qed.

Lemma count_true_lt F i : nth i F true = false -> (count_true F < length F)%nat.
Proof.
  unfold count_true. revert i; induction F as [|b F IH]; intros i H.
  - destruct i; discriminate.
  - destruct i; simpl in H.
    + subst. simpl. pose proof (count_true_le F). unfold count_true in *. lia.
    + specialize (IH _ H). destruct b; simpl; lia.
Qed.

Lemma count_true_set F i : nth i F true = false -> count_true (set_nth F i true) = S (count_true F).
Proof.
  unfold count_true. revert i; induction F as [|b F IH]; intros i H.
  - destruct i; discriminate.
  - destruct i; simpl in H.
    + subst. reflexivity.
    + simpl. destruct b; simpl; rewrite (IH _ H); reflexivity.
Qed.

Lemma nth_false_lt (F : list bool) i : nth i F true = false -> (i < length F)%nat.
Proof.
  intros H. destruct (Nat.ltb_spec i (length F)); auto. rewrite nth_overflow in H by lia. discriminate.
Qed.

Lemma count_true_repeat_false q : count_true (repeat false q) = 0%nat.
Proof. unfold count_true. induction q; simpl; auto. Qed.

(* ---------- shapes and views ---------- *)
Definition shape (q : nat) (Frozen : list (list bool)) : Prop :=
  length Frozen = q /\ Forall (fun r => length r = q) Frozen.

Definition entry_ok (q : nat) (e : entry) : Prop := length (fst e) = q /\ length (snd e) = q.

Fixpoint depth_ok (Zs : list entry) : Prop :=
  match Zs with
  | [] => True
  | e :: r => (length r <= count_true (snd e))%nat /\ depth_ok r
  end.

(* row k of Frozen belongs to the stack entry of index k (the head of Zs is the top) *)
Definition frozen_view (Frozen : list (list bool)) (Zs : list entry) : Prop :=
  firstn (length Zs) Frozen = rev (map snd Zs).

Lemma nth_error_firstn_lt {T} (l : list T) k j : (j < k)%nat -> nth_error (firstn k l) j = nth_error l j.
Proof.
  revert k j; induction l; intros k j H; destruct k, j; simpl; auto; try lia.
  apply IHl. lia.
Qed.

Lemma frozen_view_top Frozen e Zs : frozen_view Frozen (e :: Zs) -> nth_error Frozen (length Zs) = Some (snd e).
Proof.
  unfold frozen_view. cbn [length map rev]. intros H.
  rewrite <- (nth_error_firstn_lt Frozen (S (length Zs))) by lia. rewrite H.
  rewrite nth_error_app2 by (rewrite rev_length, map_length; lia).
  rewrite rev_length, map_length, Nat.sub_diag. reflexivity.
Qed.

Lemma frozen_view_pop Frozen e Zs : frozen_view Frozen (e :: Zs) -> frozen_view Frozen Zs.
Proof.
  unfold frozen_view. cbn [length map rev]. intros H.
  assert (E : firstn (length Zs) (firstn (S (length Zs)) Frozen) = firstn (length Zs) Frozen).
  { rewrite firstn_firstn. f_equal. lia. }
  rewrite <- E, H. rewrite firstn_app, rev_length, map_length, Nat.sub_diag. cbn [firstn].
  rewrite app_nil_r.
  replace (length Zs) with (length (rev (map snd Zs))) by (rewrite rev_length, map_length; reflexivity).
  apply firstn_all.
Qed.

Lemma frozen_view_push Frozen Zs T F : frozen_view Frozen Zs -> (length Zs < length Frozen)%nat ->
  frozen_view (set_nth Frozen (length Zs) F) ((T, F) :: Zs).
Proof.
  unfold frozen_view. intros H L. cbn [length map rev snd]. rewrite firstn_S_set_nth by assumption. rewrite H. reflexivity.
Qed.

(* ---------- the vector T along the for loop ---------- *)
Definition Tprev (t : list Z) (i : nat) : list Z :=
  match i with O => t | S k => bump t k end.

Definition Tnext (Tin : list Z) (i : nat) : list Z :=
  let T1 := set_nth Tin i (nth i Tin 0 + 1) in
  if Nat.ltb 0 i then set_nth T1 (i - 1) (nth (i - 1) T1 0 - 1) else T1.

Lemma Tnext_bump t i : (i < length t)%nat -> Tnext (Tprev t i) i = bump t i.
Proof.
  intros Hi. unfold Tnext. destruct i as [|k]; simpl.
  - reflexivity.
  - rewrite Nat.sub_0_r.
    apply vec_ext.
    + rewrite !set_nth_length, !bump_length. reflexivity.
    + intros j.
      assert (Lk : (k < length t)%nat) by lia.
      destruct (Nat.eq_dec j k) as [->|Njk].
      * rewrite nth_set_nth_eq by (rewrite set_nth_length, bump_length; lia).
        rewrite nth_set_nth_neq by lia. rewrite nth_bump_eq by lia.
        rewrite nth_bump_neq by lia. lia.
      * rewrite nth_set_nth_neq by assumption.
        destruct (Nat.eq_dec j (S k)) as [->|Njk'].
        -- rewrite nth_set_nth_eq by (rewrite bump_length; lia).
           rewrite nth_bump_neq by lia. rewrite nth_bump_eq by lia. reflexivity.
        -- rewrite nth_set_nth_neq by assumption. rewrite !nth_bump_neq by assumption. reflexivity.
Qed.

Lemma Tprev_length t i : length (Tprev t i) = length t.
Proof. destruct i; simpl; auto. apply bump_length. Qed.

(* ---------- the for loop ---------- *)
Record fview (q : nat) (t : list Z) (i : nat) (s : fstate) (F : list bool) (Zs : list entry) : Prop := {
  fv_T : fT s = Tprev t i;
  fv_F : fF s = F;
  fv_Flen : length F = q;
  fv_P : fP s = map fst Zs;
  fv_n : fn s = length Zs;
  fv_shape : shape q (fFrozen s);
  fv_view : frozen_view (fFrozen s) Zs;
  fv_count : (length Zs <= count_true F)%nat;
  fv_depth : depth_ok Zs;
  fv_entries : Forall (entry_ok q) Zs
}.

Definition fnext (A : mat) basis product tzero t i (F : list bool) (Zs : list entry) : list entry * list bool :=
  if push_cond A basis product tzero t F i then ((bump t i, F) :: Zs, set_nth F i true) else (Zs, F).

Lemma afor_step A basis product tzero t i c F Zs :
  afor A basis product tzero t i (S c) F Zs =
  afor A basis product tzero t (S i) c (snd (fnext A basis product tzero t i F Zs)) (fst (fnext A basis product tzero t i F Zs)).
Proof. unfold fnext. cbn [afor]. destruct (push_cond A basis product tzero t F i); reflexivity. Qed.

Lemma for_body_refines A basis t tzero i s F Zs :
  wf_mat A -> length t = m_q A -> Forall (fun b => length b = m_q A) basis ->
  (i < m_q A)%nat -> fview (m_q A) t i s F Zs ->
  exists s', for_body A basis (prod_of A t) tzero i s = Ok s' /\
             fview (m_q A) t (S i) s' (snd (fnext A basis (prod_of A t) tzero t i F Zs))
                                      (fst (fnext A basis (prod_of A t) tzero t i F Zs)).
Proof.
  intros Hwf Lt Hb Hi V. destruct V as [VT VF VFl VP Vn [Vs1 Vs2] Vv Vc Vd Ve].
  unfold for_body.
  assert (LT : length (fT s) = m_q A) by (rewrite VT, Tprev_length; exact Lt).
  rewrite (vget_nth _ _ 0) by lia. cbn [bind].
  rewrite vset_ok by lia. cbn [bind].
  assert (ET : (if Nat.ltb 0 i
                then bind (vget (set_nth (fT s) i (nth i (fT s) 0 + 1)) (i - 1))
                       (fun Tp => vset (set_nth (fT s) i (nth i (fT s) 0 + 1)) (i - 1) (Tp - 1))
                else Ok (set_nth (fT s) i (nth i (fT s) 0 + 1))) = Ok (bump t i)).
  { rewrite <- (Tnext_bump t i) by lia. unfold Tnext. rewrite <- VT.
    destruct (Nat.ltb_spec 0 i); [|reflexivity].
    rewrite (vget_nth _ _ 0) by (rewrite set_nth_length; lia). cbn [bind].
    rewrite vset_ok by (rewrite set_nth_length; lia). reflexivity. }
  rewrite ET. cbn [bind].
  rewrite dot_col_spec by assumption. cbn [bind].
  rewrite VF. rewrite (vget_nth _ _ true) by lia. cbn [bind].
  assert (EP : (if nth i F true then Ok false
                else if colsum (m_rows A) (prod_of A t) i <? 0
                     then bind (is_minimum (bump t i) basis (length basis))
                            (fun m => if m then Ok true else Ok tzero)
                     else Ok tzero) = Ok (push_cond A basis (prod_of A t) tzero t F i)).
  { unfold push_cond. destruct (nth i F true); [reflexivity|]. cbn [negb andb].
    destruct (colsum (m_rows A) (prod_of A t) i <? 0); [|reflexivity].
    rewrite is_minimum_full.
    - cbn [bind andb]. destruct (amin (bump t i) basis); reflexivity.
    - eapply Forall_impl; [|exact Hb]. simpl. intros b Lb. rewrite bump_length. lia. }
  rewrite EP. cbn [bind]. unfold fnext.
  destruct (push_cond A basis (prod_of A t) tzero t F i) eqn:Epc.
  - (* pushed *)
    assert (HFi : nth i F true = false).
    { unfold push_cond in Epc. destruct (nth i F true); [discriminate|reflexivity]. }
    assert (Hn : (length Zs < m_q A)%nat).
    { pose proof (count_true_lt F i HFi). lia. }
    rewrite Vn. cbn [Nat.sub]. rewrite Nat.sub_0_r.
    destruct (nth_error (fFrozen s) (length Zs)) as [row|] eqn:Erow;
      [|apply nth_error_None in Erow; lia].
    assert (Lrow : length row = m_q A).
    { rewrite Forall_forall in Vs2. apply Vs2. eapply nth_error_In; eauto. }
    assert (ES : store_F (fFrozen s) (length Zs) F 0 (m_q A) = Ok (set_nth (fFrozen s) (length Zs) F)).
    { rewrite <- VFl. apply (store_F_full F (length Zs) (fFrozen s) row Erow). lia. }
    rewrite ES. cbn [bind].
    rewrite vset_ok by lia. cbn [bind].
    eexists. split; [reflexivity|]. cbn [fst snd].
    constructor; cbn [fT fF fP fn fFrozen].
    + reflexivity.
    + reflexivity.
    + rewrite set_nth_length. exact VFl.
    + simpl. rewrite VP. reflexivity.
    + reflexivity.
    + split; [rewrite set_nth_length; exact Vs1|]. apply Forall_set_nth; auto.
    + apply frozen_view_push; auto. lia.
    + rewrite count_true_set by assumption. simpl. lia.
    + simpl. split; auto.
    + constructor; auto. split; simpl; [rewrite bump_length; exact Lt | exact VFl].
  - eexists. split; [reflexivity|]. cbn [fst snd].
    constructor; cbn [fT fF fP fn fFrozen]; auto. split; auto.
Qed.

Lemma for_loop_refines A basis t tzero : 
  wf_mat A -> length t = m_q A -> Forall (fun b => length b = m_q A) basis ->
  forall cnt i s F Zs, (i + cnt = m_q A)%nat -> fview (m_q A) t i s F Zs ->
  exists s', for_loop A basis (prod_of A t) tzero i cnt s = Ok s' /\
             fview (m_q A) t (m_q A) s' (snd (afor A basis (prod_of A t) tzero t i cnt F Zs))
                                        (fst (afor A basis (prod_of A t) tzero t i cnt F Zs)).
Proof.
  intros Hwf Lt Hb. induction cnt as [|c IH]; intros i s F Zs Hic V.
  - exists s. split; [reflexivity|]. simpl. assert (E : i = m_q A) by lia. rewrite <- E at 2. exact V.
  - destruct (for_body_refines A basis t tzero i s F Zs Hwf Lt Hb ltac:(lia) V) as [s1 [E1 V1]].
    cbn [for_loop]. rewrite E1. cbn [bind]. rewrite afor_step.
    apply IH; [lia | exact V1].
Qed.

(* ---------- the while loop ---------- *)
Record wview (q : nat) (s : wstate) (Zs : list entry) : Prop := {
  wv_P : wP s = map fst Zs;
  wv_shape : shape q (wFrozen s);
  wv_view : q = 0%nat \/ frozen_view (wFrozen s) Zs;
  wv_F : length (wF s) = q;
  wv_depth : depth_ok Zs;
  wv_entries : Forall (entry_ok q) Zs
}.

Definition basis_shape (q : nat) (basis : list (list Z)) : Prop := Forall (fun b => length b = q) basis.

Lemma while_body_refines A s Zs :
  wf_mat A -> basis_shape (m_q A) (wbasis s) -> wview (m_q A) s Zs ->
  match astep A Zs (wbasis s) with
  | None => while_body A s = None
  | Some (Z', b') =>
      exists s', while_body A s = Some (Ok s') /\ wview (m_q A) s' Z' /\ wbasis s' = b' /\
                 basis_shape (m_q A) b'
  end.
Proof.
  intros Hwf Hb V. destruct V as [VP Vs Vv VF Vd Ve].
  destruct Zs as [|[t Fr] Z1].
  - simpl. unfold while_body. rewrite VP. reflexivity.
  - unfold astep, while_body. rewrite VP. cbn [map fst length].
    inversion Ve as [|? ? [Lt LFr] Ve1]; subst. cbn [fst snd] in Lt, LFr.
    destruct Vd as [Vd0 Vd1]. cbn [snd] in Vd0.
    rewrite mul_matrix_spec by assumption. cbn [bind].
    destruct (all_zero (prod_of A t) && negb (vec_eqb t (vec_zero (m_q A)))) eqn:Ebr.
    + eexists. split; [reflexivity|]. split; [|split; [reflexivity|]].
      * constructor; cbn [wP wFrozen wF]; auto.
        destruct Vv as [Vv|Vv]; [left; exact Vv | right; eapply frozen_view_pop; eauto].
      * cbn [wbasis]. apply Forall_app. split; auto.
    + cbn [Nat.sub]. rewrite Nat.sub_0_r, map_length.
      destruct (Nat.eq_dec (m_q A) 0) as [Eq0|Nq0].
      * assert (EL : load_F (wFrozen s) (length Z1) (wF s) 0 (m_q A) = Ok (wF s))
          by (rewrite Eq0; reflexivity).
        rewrite EL. cbn [bind].
        assert (EF : forall s0, for_loop A (wbasis s) (prod_of A t) (vec_eqb t (vec_zero (m_q A))) 0 (m_q A) s0 = Ok s0)
          by (intros; rewrite Eq0; reflexivity).
        rewrite EF. cbn [bind fP fFrozen fF].
        assert (EA : afor A (wbasis s) (prod_of A t) (vec_eqb t (vec_zero (m_q A))) t 0 (m_q A) Fr Z1 = (Z1, Fr))
          by (rewrite Eq0; reflexivity).
        rewrite EA. cbn [fst].
        eexists. split; [reflexivity|]. split; [|split; [reflexivity|exact Hb]].
        constructor; cbn [wP wFrozen wF]; auto.
      * destruct Vv as [Vv|Vv]; [contradiction|].
        pose proof (frozen_view_top _ _ _ Vv) as Htop. cbn [snd] in Htop.
        assert (EL : load_F (wFrozen s) (length Z1) (wF s) 0 (m_q A) = Ok Fr).
        { rewrite <- VF. apply load_F_full; auto. lia. }
        rewrite EL. cbn [bind].
        set (s0 := {| fT := t; fF := Fr; fP := map fst Z1; fn := length Z1; fFrozen := wFrozen s |}).
        assert (V0 : fview (m_q A) t 0 s0 Fr Z1).
        { constructor; cbn [fT fF fP fn fFrozen s0]; auto. eapply frozen_view_pop; eauto. }
        destruct (for_loop_refines A (wbasis s) t (vec_eqb t (vec_zero (m_q A))) Hwf Lt Hb
                    (m_q A) 0%nat s0 Fr Z1 ltac:(lia) V0) as [s1 [E1 V1]].
        rewrite E1. cbn [bind].
        eexists. split; [reflexivity|]. split; [|split; [reflexivity|exact Hb]].
        destruct V1 as [WT WF WFl WP Wn Ws Wv Wc Wd We].
        constructor; cbn [wP wFrozen wF]; auto. rewrite WF. exact WFl.
Qed.

Lemma lde_loop_refines A : wf_mat A ->
  forall fuel s Zs, basis_shape (m_q A) (wbasis s) -> wview (m_q A) s Zs ->
  lde_loop fuel A s = aloop fuel A Zs (wbasis s).
Proof.
  intros Hwf. induction fuel as [|f IH]; intros s Zs Hb V.
  - reflexivity.
  - cbn [lde_loop aloop].
    pose proof (while_body_refines A s Zs Hwf Hb V) as R.
    destruct (astep A Zs (wbasis s)) as [[Z' b']|].
    + destruct R as [s' [E [V' [Eb Hb']]]]. rewrite E. cbn [bind]. subst b'. apply IH; auto.
    + rewrite R. reflexivity.
Qed.

Lemma init_state_refines A basis0 :
  exists s0, init_state A basis0 = Ok s0 /\ wview (m_q A) s0 (astart A) /\ wbasis s0 = basis0.
Proof.
  unfold init_state.
  assert (Ez : exists Fz, init_frozen (repeat (repeat true (m_q A)) (m_q A)) 0 (m_q A) = Ok Fz /\
                 shape (m_q A) Fz /\ (m_q A = 0%nat \/ frozen_view Fz (astart A))).
  { destruct (m_q A) as [|k] eqn:Eq.
    - exists []. split; [reflexivity|]. split; [split; [reflexivity|constructor]|left; reflexivity].
    - eexists. split.
      + cbn [repeat].
        pose proof (init_frozen_spec (true :: repeat true k)
                     ((true :: repeat true k) :: repeat (true :: repeat true k) k) [] eq_refl) as E.
        cbn [length app] in E. rewrite repeat_length in E. exact E.
      + split.
        * split.
          -- rewrite set_nth_length. simpl. rewrite repeat_length. reflexivity.
          -- apply Forall_set_nth.
             ++ change (Forall (fun r : list bool => length r = S k) (repeat (repeat true (S k)) (S k))).
                apply Forall_forall. intros r Hr. apply repeat_spec in Hr. subst. apply repeat_length.
             ++ simpl. rewrite repeat_length. reflexivity.
        * right. unfold frozen_view, astart. rewrite Eq. reflexivity. }
  destruct Ez as [Fz [E [Hs Hv]]]. rewrite E. cbn [bind].
  eexists. split; [reflexivity|]. split; [|reflexivity].
  constructor; cbn [wP wFrozen wF]; auto.
  - apply repeat_length.
  - unfold astart. simpl. rewrite count_true_repeat_false. auto.
  - unfold astart. constructor; [|constructor]. split; simpl; [apply vec_zero_length | apply repeat_length].
Qed.

Theorem lde_refines A fuel basis0 : wf_mat A -> basis_shape (m_q A) basis0 ->
  lde_from fuel A basis0 = aloop fuel A (astart A) basis0.
Proof.
  intros Hwf Hb. unfold lde_from.
  destruct (init_state_refines A basis0) as [s0 [E [V Eb]]].
  rewrite E. cbn [bind]. rewrite <- Eb in Hb |- *. apply lde_loop_refines; auto.
Qed.

Lemma aloop_no_oob fuel A Zs basis : aloop fuel A Zs basis = ErrFuel \/ exists B, aloop fuel A Zs basis = Ok B.
Proof.
  revert Zs basis; induction fuel as [|f IH]; intros Zs basis; cbn [aloop].
  - left; reflexivity.
  - destruct (astep A Zs basis) as [[Z' b']|]; [apply IH | right; eexists; reflexivity].
Qed.

(* every index used by homogeneous_lde is in range *)
Theorem lde_indices_in_bounds A fuel : wf_mat A ->
  homogeneous_lde fuel A = ErrFuel \/ exists B, homogeneous_lde fuel A = Ok B.
Proof.
  intros Hwf. unfold homogeneous_lde. rewrite lde_refines by (auto; constructor). apply aloop_no_oob.
Qed.
