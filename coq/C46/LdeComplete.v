(* C46 -- completeness of the abstract loop (Contejean-Devie): a run that ends has put
   every minimal solution into the basis.  Invariant: a minimal solution s is in the
   basis, or some stack entry (t, Fr) lies below s and agrees with s on the frozen
   components.  Such an entry always has a child with the same property, because
   <A t, A (s - t)> = -|A t|^2 < 0 gives a component j with t_j < s_j and
   <A t, A e_j> < 0, and no basis element can lie strictly below t + e_j <= s. *)
From SE Require Export C46.LdeInv.
From Coq Require Import Lia.
Local Open Scope Z_scope.

(* ---------- sums ---------- *)
Fixpoint wsum (d : list Z) (f : nat -> Z) (k : nat) : Z :=
  match d with
  | [] => 0
  | a :: d' => a * f k + wsum d' f (S k)
  end.

Lemma wsum_ext d f g k : (forall j, f j = g j) -> wsum d f k = wsum d g k.
Proof. revert k; induction d; intros k H; simpl; auto. rewrite H, (IHd (S k) H). reflexivity. Qed.

Lemma wsum_zero d k : wsum d (fun _ => 0) k = 0.
Proof. revert k; induction d; intros k; simpl; auto. rewrite IHd. lia. Qed.

Lemma wsum_lin d c f g k : wsum d (fun j => c * f j + g j) k = c * wsum d f k + wsum d g k.
Proof. revert k; induction d; intros k; simpl; [lia|]. rewrite IHd. lia. Qed.

Lemma wsum_nth d : forall r k, length r = (k + length d)%nat -> wsum d (fun j => nth j r 0) k = dotZ (skipn k r) d.
Proof.
  induction d as [|a d IH]; intros r k L.
  - simpl. destruct (skipn k r); reflexivity.
  - simpl in L. cbn [wsum]. rewrite IH by lia.
    assert (Hk : (k < length r)%nat) by lia.
    destruct (nth_error r k) as [x|] eqn:E; [|apply nth_error_None in E; lia].
    pose proof (nth_error_nth _ _ 0 E) as En.
    assert (Es : skipn k r = x :: skipn (S k) r).
    { clear -E. revert k E; induction r; intros k E; destruct k; simpl in *; try discriminate.
      - inversion E; reflexivity.
      - apply IHr. exact E. }
    rewrite Es, En. simpl. lia.
Qed.

Lemma wsum_neg d f : (forall j, 0 <= nth j d 0) -> forall k, wsum d f k < 0 ->
  exists j, (j < length d)%nat /\ 0 < nth j d 0 /\ f (k + j)%nat < 0.
Proof.
  induction d as [|a d IH]; intros N k H.
  - simpl in H. lia.
  - cbn [wsum] in H.
    destruct (Z_lt_le_dec (a * f k) 0) as [Hneg|Hpos].
    + exists 0%nat. simpl. rewrite Nat.add_0_r. pose proof (N 0%nat) as N0. simpl in N0. split; [apply Nat.lt_0_succ|]. clear -Hneg N0.
      assert (Ha : 0 < a) by (destruct (Z.eq_dec a 0) as [->|]; lia).
      split; [exact Ha|]. destruct (Z_lt_le_dec (f k) 0); [assumption|].
      assert (0 <= a * f k) by (apply Z.mul_nonneg_nonneg; lia). lia.
    + destruct (IH (fun j => N (S j)) (S k)) as [j [Hj [Hd Hf]]]; [lia|].
      exists (S j). simpl. split; [lia|]. split; [exact Hd|].
      replace (k + S j)%nat with (S k + j)%nat by lia. exact Hf.
Qed.

Lemma wsum_colsum d : forall rows P, Forall (fun r => length r = length d) rows -> length P = length rows ->
  wsum d (colsum rows P) 0 = dotZ P (map (fun r => dotZ r d) rows).
Proof.
  induction rows as [|r rows IH]; intros P Hr LP.
  - destruct P; [|discriminate]. simpl. transitivity (wsum d (fun _ => 0) 0); [apply wsum_ext; intros; reflexivity | apply wsum_zero].
  - destruct P as [|p0 P]; [discriminate|]. inversion Hr; subst.
    transitivity (wsum d (fun j => p0 * (fun j => nth j r 0) j + colsum rows P j) 0); [apply wsum_ext; intros; reflexivity|].
    rewrite wsum_lin, IH by (auto; simpl in LP; lia).
    rewrite wsum_nth by (simpl; lia). simpl. reflexivity.
Qed.

(* ---------- s - t ---------- *)
Fixpoint vsub (x y : list Z) : list Z :=
  match x, y with
  | a :: x', b :: y' => (a - b) :: vsub x' y'
  | _, _ => []
  end.

Lemma vsub_length x y : length x = length y -> length (vsub x y) = length x.
Proof. revert y; induction x; destruct y; simpl; intros; try lia. rewrite IHx; lia. Qed.

Lemma nth_vsub x y j : length x = length y -> nth j (vsub x y) 0 = nth j x 0 - nth j y 0.
Proof.
  revert y j; induction x; destruct y; simpl; intros j L; try discriminate.
  - destruct j; reflexivity.
  - destruct j; [reflexivity|]. apply IHx. lia.
Qed.

Lemma dotZ_vsub r x y : length x = length y -> dotZ r (vsub x y) = dotZ r x - dotZ r y.
Proof.
  revert x y; induction r; intros x y L; [destruct x, y; reflexivity|].
  destruct x, y; simpl in *; try discriminate; [lia|]. rewrite IHr by lia. lia.
Qed.

Lemma dotZ_self_neg rows s t : Forall (fun r => dotZ r s = 0) rows -> length s = length t ->
  dotZ (map (fun r => dotZ r t) rows) (map (fun r => dotZ r (vsub s t)) rows)
  = - dotZ (map (fun r => dotZ r t) rows) (map (fun r => dotZ r t) rows).
Proof.
  intros H L. induction rows as [|r rows IH]; [reflexivity|].
  inversion H; subst. simpl. rewrite IH by assumption. rewrite dotZ_vsub by assumption. nia.
Qed.

Lemma dotZ_self_pos P : all_zero P = false -> 0 < dotZ P P.
Proof.
  assert (G : forall Q, 0 <= dotZ Q Q) by (induction Q; simpl; nia).
  induction P as [|a P IH]; simpl; intros H; [discriminate|].
  destruct (Z.eqb_spec a 0).
  - subst. simpl in H. specialize (IH H). lia.
  - pose proof (G P). nia.
Qed.

(* the geometric step of Contejean-Devie *)
Lemma descent A s t : wf_mat A -> length t = m_q A -> length s = m_q A ->
  le_vec t s -> solves A s -> all_zero (prod_of A t) = false ->
  exists j, (j < m_q A)%nat /\ nth j t 0 < nth j s 0 /\ colsum (m_rows A) (prod_of A t) j < 0.
Proof.
  intros [Hp Hr] Lt Ls [_ Hle] Hs Hnz.
  set (d := vsub s t).
  assert (Ld : length d = m_q A) by (unfold d; rewrite vsub_length; lia).
  assert (Hw : wsum d (colsum (m_rows A) (prod_of A t)) 0 < 0).
  { rewrite wsum_colsum.
    - unfold prod_of, d. rewrite dotZ_self_neg by (auto; lia).
      pose proof (dotZ_self_pos _ Hnz). unfold prod_of in H. lia.
    - eapply Forall_impl; [|exact Hr]. simpl. intros. lia.
    - unfold prod_of. apply map_length. }
  destruct (wsum_neg d (colsum (m_rows A) (prod_of A t))) with (k := 0%nat) as [j [Hj [Hd Hf]]].
  - intros j. unfold d. rewrite nth_vsub by lia. specialize (Hle j). lia.
  - exact Hw.
  - exists j. split; [lia|]. unfold d in Hd. rewrite nth_vsub in Hd by lia. split; [lia|exact Hf].
Qed.

Lemma find_lt t s : forall q, (exists j, (j < q)%nat /\ nth j t 0 < nth j s 0) \/ (forall j, (j < q)%nat -> ~ nth j t 0 < nth j s 0).
Proof.
  induction q as [|q IH].
  - right. intros j Hj. lia.
  - destruct IH as [[j [Hj H]]|IH].
    + left. exists j. split; [lia|exact H].
    + destruct (Z_lt_le_dec (nth q t 0) (nth q s 0)) as [H|H].
      * left. exists q. split; [lia|exact H].
      * right. intros j Hj. destruct (Nat.eq_dec j q) as [->|N]; [lia|]. apply IH. lia.
Qed.

(* ---------- the completeness invariant ---------- *)
Definition compat (s : list Z) (e : entry) : Prop :=
  le_vec (fst e) s /\ forall j, nth j (snd e) false = true -> nth j (fst e) 0 = nth j s 0.

Definition cinv (s : list Z) (Zs : list entry) (basis : list (list Z)) : Prop :=
  In s basis \/ exists e, In e Zs /\ compat s e.

Lemma afor_incl A basis product tzero t : forall cnt i F Zs e, In e Zs ->
  In e (fst (afor A basis product tzero t i cnt F Zs)).
Proof.
  induction cnt as [|c IH]; intros i F Zs e He; [exact He|].
  cbn [afor]. destruct (push_cond A basis product tzero t F i); apply IH; [right|]; exact He.
Qed.

Lemma le_vec_bump_le t s i : le_vec t s -> nth i t 0 < nth i s 0 -> le_vec (bump t i) s.
Proof.
  intros [L H] Hi. split; [rewrite bump_length; exact L|].
  intros j. destruct (Nat.eq_dec j i) as [->|N].
  - destruct (Nat.ltb_spec i (length t)).
    + rewrite nth_bump_eq by assumption. lia.
    + unfold bump. rewrite nth_set_nth. destruct (Nat.ltb_spec i (length t)); [lia|].
      rewrite Bool.andb_false_r. apply H.
  - rewrite nth_bump_neq by assumption. apply H.
Qed.

Section ForLoopC.
Variable A : mat.
Variable basis : list (list Z).
Variable t s : list Z.
Variable Fr : list bool.

Hypothesis Hwf : wf_mat A.
Hypothesis Lt : length t = m_q A.
Hypothesis Hmin : minimal_solution A s.
Hypothesis Hsols : Forall (is_solution A) basis.
Hypothesis Hts : le_vec t s.

Let product := prod_of A t.
Let tzero := vec_eqb t (vec_zero (m_q A)).

(* either a child compatible with s has been pushed, or s is still compatible with
   (t, F) and no component below i on which t < s could have been pushed *)
Definition cfor (i : nat) (F : list bool) (Zs : list entry) : Prop :=
  (exists e, In e Zs /\ compat s e) \/
  (compat s (t, F) /\
   forall j, (j < i)%nat -> nth j t 0 < nth j s 0 -> ~ (colsum (m_rows A) product j < 0) /\ tzero = false).

Lemma cfor_step i F Zs : (i < m_q A)%nat -> length F = m_q A -> cfor i F Zs ->
  cfor (S i) (snd (fnext A basis product tzero t i F Zs)) (fst (fnext A basis product tzero t i F Zs)).
Proof.
  intros Hi LF [[e [He Ce]]|[[_ Cf] Hno]]; unfold fnext.
  - left. exists e. split; [|exact Ce].
    destruct (push_cond A basis product tzero t F i); cbn [fst]; [right|]; exact He.
  - cbn [fst snd] in Cf.
    destruct (Z_lt_le_dec (nth i t 0) (nth i s 0)) as [Hlt|Hge].
    + (* i is a component on which t < s: it is not frozen *)
      assert (HFi : nth i F false = false).
      { destruct (nth i F false) eqn:E; auto. specialize (Cf i E). lia. }
      assert (HFi' : nth i F true = false) by (rewrite nth_default_bool by lia; exact HFi).
      destruct (push_cond A basis product tzero t F i) eqn:Epc; cbn [fst snd].
      * left. exists (bump t i, F). split; [left; reflexivity|]. split; cbn [fst snd].
        -- apply le_vec_bump_le; assumption.
        -- intros j Hj. rewrite nth_bump_neq; [apply Cf; exact Hj|]. intros ->. congruence.
      * right. split; [split; [exact Hts|exact Cf]|].
        intros j Hj Hjs. destruct (Nat.eq_dec j i) as [->|N]; [|apply Hno; [lia|exact Hjs]].
        (* not pushed although not frozen: the test failed *)
        unfold push_cond in Epc. rewrite HFi' in Epc. cbn [negb andb] in Epc.
        apply Bool.orb_false_iff in Epc. destruct Epc as [E1 E2]. split; [|exact E2].
        intros Hneg. apply Bool.andb_false_iff in E1. destruct E1 as [E1|E1].
        -- apply Z.ltb_ge in E1. fold product in Hneg. lia.
        -- (* is_minimum cannot fail below a minimal solution *)
           assert (Ea : amin (bump t i) basis = true).
           { apply amin_intro. intros b Hb [Lb Nb].
             assert (Lbs : le_vec b s) by (eapply le_vec_trans; [exact Lb|apply le_vec_bump_le; assumption]).
             rewrite Forall_forall in Hsols. destruct Hmin as [_ Hm].
             pose proof (Hm b (Hsols b Hb) Lbs) as Eb. subst b.
             apply Nb. apply le_vec_antisym; [exact Lb|apply le_vec_bump_le; assumption]. }
           congruence.
    + (* t_i = s_i: pushing i keeps s compatible with (t, F) *)
      assert (Ei : nth i t 0 = nth i s 0) by (destruct Hts as [_ H]; specialize (H i); lia).
      destruct (push_cond A basis product tzero t F i) eqn:Epc; cbn [fst snd].
      * right. split.
        -- split; [exact Hts|]. cbn [fst snd]. intros j Hj.
           destruct (Nat.eq_dec j i) as [E|N].
           ++ subst j. exact Ei.
           ++ rewrite nth_set_nth_neq in Hj by exact N. apply Cf. exact Hj.
        -- intros j Hj Hjs. destruct (Nat.eq_dec j i) as [->|N]; [lia|apply Hno; [lia|exact Hjs]].
      * right. split; [split; [exact Hts|exact Cf]|].
        intros j Hj Hjs. destruct (Nat.eq_dec j i) as [->|N]; [lia|apply Hno; [lia|exact Hjs]].
Qed.

Lemma fnext_len i F Zs : length F = m_q A -> length (snd (fnext A basis product tzero t i F Zs)) = m_q A.
Proof.
  intros L. unfold fnext. destruct (push_cond A basis product tzero t F i); cbn [snd]; [rewrite set_nth_length|]; exact L.
Qed.

Lemma afor_cfor : forall cnt i F Zs, (i + cnt = m_q A)%nat -> length F = m_q A -> cfor i F Zs ->
  cfor (m_q A) (snd (afor A basis product tzero t i cnt F Zs)) (fst (afor A basis product tzero t i cnt F Zs)).
Proof.
  induction cnt as [|c IH]; intros i F Zs Hic LF C.
  - simpl. assert (E : i = m_q A) by lia. rewrite <- E at 1. exact C.
  - rewrite afor_step. apply IH; [lia|apply fnext_len; exact LF|]. apply cfor_step; [lia|exact LF|exact C].
Qed.

(* at the end of the for loop the second alternative is impossible *)
Lemma cfor_end F Zs : t <> s -> all_zero product && negb tzero = false ->
  cfor (m_q A) F Zs -> exists e, In e Zs /\ compat s e.
Proof.
  intros Nts Ebr [H|[_ Hno]]; [exact H|]. exfalso.
  destruct Hmin as [[Ls [Ns [Nzs Ss]]] _].
  apply Bool.andb_false_iff in Ebr. destruct Ebr as [Ez|Ez].
  - destruct (descent A s t Hwf Lt Ls Hts Ss Ez) as [j [Hj [Hlt Hneg]]].
    destruct (Hno j Hj Hlt) as [H _]. apply H. exact Hneg.
  - apply Bool.negb_false_iff in Ez.
    (* t = 0 <> s: some component of s is positive *)
    assert (Ex : exists j, (j < m_q A)%nat /\ nth j t 0 < nth j s 0).
    { destruct (find_lt t s (m_q A)) as [H|H].
      - exact H.
      - exfalso. apply Nts. apply vec_ext; [lia|]. intros j.
        destruct (Nat.ltb_spec j (m_q A)).
        + destruct Hts as [_ Hle]. specialize (Hle j). specialize (H j). lia.
        + rewrite !nth_overflow by lia. reflexivity. }
    destruct Ex as [j [Hj Hlt]]. destruct (Hno j Hj Hlt) as [_ H]. rewrite H in Ez. discriminate.
Qed.

End ForLoopC.

(* ---------- one iteration of the while loop ---------- *)
Lemma astep_cinv A Zs basis Z' b' s : wf_mat A -> ainv A Zs basis -> minimal_solution A s ->
  cinv s Zs basis -> astep A Zs basis = Some (Z', b') -> cinv s Z' b'.
Proof.
  intros Hwf [[Ce Cn _ _] Hs _] Hmin C E.
  destruct Zs as [|[t Fr] Z1]; [discriminate|]. unfold astep in E.
  inversion Ce as [|? ? [Lt LFr] Ce1]; subst. cbn [fst snd] in Lt, LFr.
  assert (Nt : nonneg t) by (apply (Cn (t, Fr)); left; reflexivity).
  destruct (all_zero (prod_of A t) && negb (vec_eqb t (vec_zero (m_q A)))) eqn:Ebr.
  - inversion E; subst Z' b'. clear E.
    destruct C as [C|[e [[<-|He] Ce']]].
    + left. apply in_or_app. left. exact C.
    + (* the popped vector is a solution below s: it is s *)
      left. apply in_or_app. right. left.
      destruct Ce' as [Lts _]. cbn [fst] in Lts.
      apply Bool.andb_true_iff in Ebr. destruct Ebr as [Ez Enz].
      destruct Hmin as [_ Hm]. apply Hm; [|exact Lts].
      split; [exact Lt|]. split; [exact Nt|]. split.
      * intros Eq. rewrite Eq in Enz.
        assert (H : vec_eqb (vec_zero (m_q A)) (vec_zero (m_q A)) = true) by (apply vec_eqb_spec; reflexivity).
        rewrite H in Enz. discriminate.
      * apply all_zero_map_solves. exact Ez.
    + right. exists e. split; [exact He|exact Ce'].
  - inversion E; subst Z' b'. clear E.
    destruct C as [C|[e [[<-|He] Ce']]].
    + left. exact C.
    + right. destruct Ce' as [Lts Cf]. cbn [fst snd] in Lts, Cf.
      assert (Nts : t <> s).
      { intros ->. destruct Hmin as [[Ls [Ns [Nzs Ss]]] _].
        rewrite (solves_all_zero _ _ Ss) in Ebr. cbn [andb] in Ebr.
        apply Bool.negb_false_iff in Ebr. apply vec_eqb_spec in Ebr. contradiction. }
      assert (C0 : cfor A t s 0 Fr Z1).
      { right. split; [split; [exact Lts|exact Cf]|]. intros j Hj. lia. }
      pose proof (afor_cfor A basis t s Lt Hmin Hs Lts (m_q A) 0%nat Fr Z1 ltac:(lia) LFr C0) as C1.
      exact (cfor_end A t s Hwf Lt Hmin Lts _ _ Nts Ebr C1).
    + right. exists e. split; [apply afor_incl; exact He|exact Ce'].
Qed.

Lemma aloop_cinv A s : wf_mat A -> minimal_solution A s ->
  forall fuel Zs basis B, ainv A Zs basis -> cinv s Zs basis -> aloop fuel A Zs basis = Ok B -> In s B.
Proof.
  intros Hwf Hmin. induction fuel as [|f IH]; intros Zs basis B I C E; [discriminate|].
  cbn [aloop] in E. destruct (astep A Zs basis) as [[Z' b']|] eqn:Es.
  - eapply IH; [| |exact E].
    + eapply astep_ainv; eauto.
    + eapply astep_cinv; eauto.
  - inversion E; subst. destruct Zs as [|[t Fr] Z1].
    + destruct C as [C|[e [[] _]]]. exact C.
    + unfold astep in Es. destruct (all_zero (prod_of A t) && negb (vec_eqb t (vec_zero (m_q A)))); discriminate.
Qed.

(* every minimal solution is returned *)
Theorem lde_complete A fuel B : wf_mat A -> homogeneous_lde fuel A = Ok B ->
  forall s, minimal_solution A s -> In s B.
Proof.
  intros Hwf E s Hmin. unfold homogeneous_lde in E. rewrite lde_refines in E by (auto; constructor).
  apply (aloop_cinv A s Hwf Hmin fuel _ _ B (ainv_start A)); [|exact E].
  right. exists (vec_zero (m_q A), repeat false (m_q A)). split; [left; reflexivity|].
  destruct Hmin as [[Ls [Ns _]] _]. split; cbn [fst snd].
  - apply le_vec_zero; assumption.
  - intros j Hj. exfalso. clear -Hj. revert j Hj. induction (m_q A); intros [|j] Hj; simpl in Hj; try discriminate. eauto.
Qed.

