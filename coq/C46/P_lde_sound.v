(* C46 obligation: every vector returned by homogeneous_lde is a non-zero, non-negative
   integer solution of A x = 0 (of length q). *)
From SE Require Import C46.LdeSpec C46.LdeProofs.
Theorem C46_lde_sound :
  forall (A : mat) (fuel : nat) (B : list (list Z)),
    wf_mat A -> homogeneous_lde fuel A = Ok B ->
    forall x, In x B -> is_solution A x.
Proof. exact lde_sound. Qed.
Print Assumptions C46_lde_sound.
