(* C46 obligation: the brute-force enumerator that the check uses as completeness oracle is
   correct: hilbert_box A B is exactly the set of minimal solutions with entries <= B. *)
From SE Require Import C46.LdeSpec C46.LdeProofs.
Local Open Scope Z_scope.
Theorem C46_hilbert_box_correct :
  forall (A : mat) (B : nat) (x : list Z),
    In x (hilbert_box A B) <-> minimal_solution A x /\ forall i, nth i x 0 <= Z.of_nat B.
Proof. exact hilbert_box_correct. Qed.
Print Assumptions C46_hilbert_box_correct.
