(* C46 obligation: the fuel is only a bound on the number of iterations of the while loop:
   once a run has ended, every larger fuel gives the same basis. *)
From SE Require Import C46.LdeSpec C46.LdeProofs.
Theorem C46_lde_fuel_mono :
  forall (A : mat) (f f' : nat) (B : list (list Z)),
    (f <= f')%nat -> homogeneous_lde f A = Ok B -> homogeneous_lde f' A = Ok B.
Proof. exact lde_fuel_mono. Qed.
Print Assumptions C46_lde_fuel_mono.
