(* C46 -- basic lemmas: checked containers, set_nth, vectors, boolean comparisons. *)
From SE Require Export C46.LdeSpec.
From Coq Require Import Lia.
Local Open Scope Z_scope.

(* ---------- vget / vset / set_nth ---------- *)
Lemma vget_nth_error {T} (v : list T) i x : nth_error v i = Some x -> vget v i = Ok x.
Proof. unfold vget; intros ->; reflexivity. Qed.

Lemma vget_nth {T} (v : list T) i d : (i < length v)%nat -> vget v i = Ok (nth i v d).
Proof.
  intros H. unfold vget. destruct (nth_error v i) eqn:E.
  - rewrite (nth_error_nth _ _ d E). reflexivity.
  - apply nth_error_None in E. lia.
Qed.

Lemma vget_app {T} (l1 : list T) x l2 : vget (l1 ++ x :: l2) (length l1) = Ok x.
Proof.
  apply vget_nth_error. rewrite nth_error_app2 by lia. rewrite Nat.sub_diag. reflexivity.
Qed.

Lemma set_nth_length {T} (v : list T) i x : length (set_nth v i x) = length v.
Proof. revert i; induction v; destruct i; simpl; auto. Qed.

Lemma vset_ok {T} (v : list T) i x : (i < length v)%nat -> vset v i x = Ok (set_nth v i x).
Proof. intros H. unfold vset. destruct (Nat.ltb_spec i (length v)); [reflexivity | lia]. Qed.

Lemma set_nth_app {T} (l1 : list T) x l2 y : set_nth (l1 ++ x :: l2) (length l1) y = l1 ++ y :: l2.
Proof. induction l1; simpl; congruence. Qed.

Lemma vset_app {T} (l1 : list T) x l2 y : vset (l1 ++ x :: l2) (length l1) y = Ok (l1 ++ y :: l2).
Proof. rewrite vset_ok by (rewrite app_length; simpl; lia). rewrite set_nth_app. reflexivity. Qed.

Lemma nth_set_nth {T} (v : list T) i x j d :
  nth j (set_nth v i x) d = if Nat.eqb j i && Nat.ltb i (length v) then x else nth j v d.
Proof.
  revert i j; induction v; intros i j; simpl.
  - rewrite Bool.andb_false_r. reflexivity.
  - destruct i, j; simpl; auto.
    rewrite IHv. reflexivity.
Qed.

Lemma nth_set_nth_eq {T} (v : list T) i x d : (i < length v)%nat -> nth i (set_nth v i x) d = x.
Proof.
  intros. rewrite nth_set_nth, Nat.eqb_refl. destruct (Nat.ltb_spec i (length v)); [reflexivity | lia].
Qed.

Lemma nth_set_nth_neq {T} (v : list T) i x j d : j <> i -> nth j (set_nth v i x) d = nth j v d.
Proof.
  intros. rewrite nth_set_nth. destruct (Nat.eqb_spec j i); [contradiction | reflexivity].
Qed.

Lemma set_nth_set_nth {T} (v : list T) i x y : set_nth (set_nth v i x) i y = set_nth v i y.
Proof. revert i; induction v; destruct i; simpl; auto. rewrite IHv; reflexivity. Qed.

Lemma nth_error_set_nth_eq {T} (v : list T) i x : (i < length v)%nat -> nth_error (set_nth v i x) i = Some x.
Proof. revert i; induction v; destruct i; simpl; intros; try lia; auto. apply IHv; lia. Qed.

Lemma nth_error_set_nth_neq {T} (v : list T) i x j : j <> i -> nth_error (set_nth v i x) j = nth_error v j.
Proof. revert i j; induction v; destruct i, j; simpl; intros; try congruence; auto. Qed.

Lemma firstn_set_nth_ge {T} (v : list T) i x n : (n <= i)%nat -> firstn n (set_nth v i x) = firstn n v.
Proof.
  revert i n; induction v; intros i n H; destruct i, n; simpl; auto; try lia.
  rewrite IHv by lia. reflexivity.
Qed.

Lemma firstn_S_set_nth {T} (v : list T) n x : (n < length v)%nat -> firstn (S n) (set_nth v n x) = firstn n v ++ [x].
Proof.
  revert n; induction v; intros n H; simpl in H; [lia|].
  destruct n; simpl; [reflexivity|]. f_equal. apply IHv. lia.
Qed.

Lemma Forall_set_nth {T} (P : T -> Prop) v i x : Forall P v -> P x -> Forall P (set_nth v i x).
Proof.
  revert i; induction v; intros i Hv Hx; destruct i; simpl; auto; inversion Hv; subst; constructor; auto.
Qed.

(* ---------- extensionality of vectors ---------- *)
Lemma vec_ext (x y : list Z) : length x = length y -> (forall i, nth i x 0 = nth i y 0) -> x = y.
Proof.
  intros L H. apply nth_ext with (d := 0) (d' := 0); auto.
Qed.

Lemma nth_repeat_Z (q i : nat) (a : Z) : nth i (repeat a q) a = a.
Proof. revert i; induction q; destruct i; simpl; auto. Qed.

Lemma nth_vec_zero q i : nth i (vec_zero q) 0 = 0.
Proof. apply nth_repeat_Z. Qed.

Lemma vec_zero_length q : length (vec_zero q) = q.
Proof. apply repeat_length. Qed.

(* ---------- boolean comparisons ---------- *)
Lemma vec_eqb_spec x y : vec_eqb x y = true <-> x = y.
Proof.
  revert y; induction x; destruct y; simpl; split; intros; try congruence; auto.
  - apply Bool.andb_true_iff in H. destruct H as [H1 H2]. apply Z.eqb_eq in H1. apply IHx in H2. congruence.
  - inversion H; subst. rewrite Z.eqb_refl. simpl. apply IHx. reflexivity.
Qed.

Lemma le_vecb_spec x y : le_vecb x y = true <-> le_vec x y.
Proof.
  unfold le_vec. revert y; induction x; destruct y; simpl; split; intros H; try discriminate.
  - split; auto. intros []; lia.
  - reflexivity.
  - destruct H; discriminate.
  - destruct H; discriminate.
  - apply Bool.andb_true_iff in H. destruct H as [H1 H2]. apply Z.leb_le in H1. apply IHx in H2.
    destruct H2 as [L N]. split; [lia|]. intros [|i]; simpl; auto.
  - destruct H as [L N]. apply Bool.andb_true_iff. split.
    + apply Z.leb_le. apply (N O).
    + apply IHx. split; [lia|]. intros i. apply (N (S i)).
Qed.

Definition lt_vec (x y : list Z) : Prop := le_vec x y /\ x <> y.

Lemma lt_vecb_spec x y : lt_vecb x y = true <-> lt_vec x y.
Proof.
  unfold lt_vecb, lt_vec. rewrite Bool.andb_true_iff, le_vecb_spec, Bool.negb_true_iff.
  split; intros [H1 H2]; split; auto.
  - intros E. apply vec_eqb_spec in E. congruence.
  - destruct (vec_eqb x y) eqn:E; auto. apply vec_eqb_spec in E. contradiction.
Qed.

Lemma le_vec_refl x : le_vec x x.
Proof. split; auto. intros; lia. Qed.

Lemma le_vec_trans x y z : le_vec x y -> le_vec y z -> le_vec x z.
Proof. intros [L1 H1] [L2 H2]. split; [congruence|]. intros i. specialize (H1 i). specialize (H2 i). lia. Qed.

Lemma le_vec_antisym x y : le_vec x y -> le_vec y x -> x = y.
Proof. intros [L1 H1] [L2 H2]. apply vec_ext; auto. intros i. specialize (H1 i). specialize (H2 i). lia. Qed.

Lemma all_zero_spec x : all_zero x = true <-> x = vec_zero (length x).
Proof.
  unfold all_zero, vec_zero. induction x; simpl; split; intros H; auto.
  - apply Bool.andb_true_iff in H. destruct H as [H1 H2]. apply Z.eqb_eq in H1. subst. f_equal. apply IHx. auto.
  - inversion H. rewrite <- H2. simpl. apply IHx. congruence.
Qed.

(* ---------- bump: t + e_i ---------- *)
Definition bump (t : list Z) (i : nat) : list Z := set_nth t i (nth i t 0 + 1).

Lemma bump_length t i : length (bump t i) = length t.
Proof. apply set_nth_length. Qed.

Lemma nth_bump_eq t i : (i < length t)%nat -> nth i (bump t i) 0 = nth i t 0 + 1.
Proof. intros. unfold bump. apply nth_set_nth_eq. auto. Qed.

Lemma nth_bump_neq t i j : j <> i -> nth j (bump t i) 0 = nth j t 0.
Proof. intros. unfold bump. apply nth_set_nth_neq. auto. Qed.

Lemma nth_bump_ge t i j : nth j t 0 <= nth j (bump t i) 0.
Proof.
  unfold bump. rewrite nth_set_nth. destruct (Nat.eqb_spec j i); simpl; [|lia].
  subst. destruct (Nat.ltb i (length t)); lia.
Qed.

Lemma le_vec_bump t i : le_vec t (bump t i).
Proof. split; [symmetry; apply bump_length | intros; apply nth_bump_ge]. Qed.

(* ---------- pairs_ok ---------- *)
Lemma pairs_ok_app {T} (R : T -> T -> Prop) l1 l2 :
  pairs_ok R (l1 ++ l2) <-> pairs_ok R l1 /\ pairs_ok R l2 /\ (forall a b, In a l1 -> In b l2 -> R a b).
Proof.
  induction l1; simpl.
  - intuition.
  - rewrite Forall_app, IHl1. split.
    + intros [[H1 H2] [H3 [H4 H5]]]. repeat split; auto.
      intros x b [->|Hx] Hb; auto. rewrite Forall_forall in H2. auto.
    + intros [[H1 H2] [H3 H4]]. repeat split; auto.
      apply Forall_forall. intros b Hb. apply H4; auto.
Qed.

Lemma pairs_ok_In {T} (R : T -> T -> Prop) l : pairs_ok R l ->
  forall i j a b, (i < j)%nat -> nth_error l i = Some a -> nth_error l j = Some b -> R a b.
Proof.
  induction l; intros H i j x y Hij Hi Hj.
  - destruct i; discriminate.
  - destruct H as [H1 H2]. destruct j; [lia|]. destruct i; simpl in *.
    + inversion Hi; subst. rewrite Forall_forall in H1. apply H1. eapply nth_error_In; eauto.
    + apply (IHl H2 i j x y); auto; lia.
Qed.
