(* Extraction of the C46 model (run from the output directory; not part of `make`). *)
From SE Require Import C46.LdeModel.
Require Import ExtrOcamlBasic.
Extraction "lde_model.ml" lde_from homogeneous_lde hilbert_box is_minimal_sol mat_wfb guard_basis_empty.
