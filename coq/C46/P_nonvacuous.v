(* C46: the hypotheses of the theorems are met by concrete non-trivial inputs, and the model
   computes the expected bases on them (evaluated by the kernel). *)
From SE Require Import C46.LdeSpec C46.LdeProofs.
Local Open Scope Z_scope.
Definition ex1 : mat := {| m_p := 2; m_q := 4; m_rows := [[1; 1; -1; -1]; [1; -1; 1; -1]] |}.
Definition ex2 : mat := {| m_p := 1; m_q := 3; m_rows := [[2; -3; 1]] |}.
Example C46_ex1_wf : wf_mat ex1.
Proof. split; [reflexivity|repeat constructor]. Qed.
Example C46_ex1_run : homogeneous_lde 100 ex1 = Ok [[0; 1; 1; 0]; [1; 0; 0; 1]].
Proof. vm_compute. reflexivity. Qed.
Example C46_ex2_run : wf_mat ex2 /\ homogeneous_lde 100 ex2 = Ok [[0; 1; 3]; [1; 1; 1]; [3; 2; 0]].
Proof. split; [split; [reflexivity|repeat constructor]|vm_compute; reflexivity]. Qed.
(* a minimal solution exists (the completeness theorem is not vacuous) *)
Example C46_ex2_minimal : minimal_solution ex2 [3; 2; 0].
Proof. apply is_minimal_sol_spec. vm_compute. reflexivity. Qed.
(* the hypothesis of the termination sweep, and the run it promises *)
Example C46_ex2_small : (m_p ex2 <= 1)%nat /\ (m_q ex2 <= 4)%nat /\ bounded 3 ex2.
Proof. split; [simpl; lia|]. split; [simpl; lia|]. repeat constructor; lia. Qed.
(* fuel: 9 iterations are not enough for ex2, 40 are *)
Example C46_ex2_fuel : homogeneous_lde 9 ex2 = ErrFuel /\ is_ok (homogeneous_lde 40 ex2) = true.
Proof. vm_compute. split; reflexivity. Qed.
(* the enumerator on ex2 inside the box [0,4]^3 *)
Example C46_ex2_box : hilbert_box ex2 4 = [[3; 2; 0]; [1; 1; 1]; [0; 1; 3]].
Proof. vm_compute. reflexivity. Qed.
Print Assumptions C46_ex2_minimal.
