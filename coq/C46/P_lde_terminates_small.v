(* C46 obligation (partial termination): the while loop ends within 400 iterations on every
   matrix of the listed finite universes (complete sweeps evaluated by the kernel).
   Termination for all matrices -- Contejean-Devie's theorem, an analytic argument -- is NOT proved. *)
From SE Require Import C46.LdeSpec C46.LdeProofs.
Theorem C46_lde_terminates_small :
  forall A : mat, wf_mat A ->
    ((m_p A <= 2)%nat /\ (m_q A <= 3)%nat /\ bounded 2 A) \/
    ((m_p A <= 1)%nat /\ (m_q A <= 4)%nat /\ bounded 3 A) \/
    ((m_p A <= 3)%nat /\ (m_q A <= 3)%nat /\ bounded 1 A) \/
    ((m_p A <= 2)%nat /\ (m_q A <= 4)%nat /\ bounded 1 A) ->
    exists B, homogeneous_lde 400 A = Ok B.
Proof. exact lde_terminates_small. Qed.
Print Assumptions C46_lde_terminates_small.
