(* C46 obligation: completeness (Contejean-Devie): a run that ends returns every minimal
   non-zero non-negative solution of A x = 0. *)
From SE Require Import C46.LdeSpec C46.LdeProofs.
Theorem C46_lde_complete :
  forall (A : mat) (fuel : nat) (B : list (list Z)),
    wf_mat A -> homogeneous_lde fuel A = Ok B ->
    forall s, minimal_solution A s -> In s B.
Proof. exact lde_complete. Qed.
Print Assumptions C46_lde_complete.
