(* C46 -- executable model of symengine/diophantine.cpp
   (order, is_minimum, homogeneous_lde: the Contejean-Devie stack algorithm).

   Transcription conventions (DESIGN.md appendix B.1):
   - Integer entries are Z (GMP integers, no wrap);
   - a 1 x q DenseMatrix (the vectors t, T, the elements of P and of basis) is a
     [list Z]; the p x q matrix A is a record with its dimensions and its rows;
     every element access is checked: an index outside the container makes the
     whole call return [ErrOOB idx len] (the library, built with
     -D_GLIBCXX_ASSERTIONS, aborts on the same accesses);
   - the std::vector P used as a stack (push_back / pop_back / P[size-1]) is a
     list whose HEAD is the back of the vector; its size is the list length;
   - Frozen is a vector of q vectors of q bools, F a vector of q bools;
   - the while loop is fuelled: one unit of fuel per iteration, [ErrFuel] when
     the loop has not finished.
   The model is of the code that exists; in particular [basis] is an in/out
   argument that the function does not clear, the vectors e_i pushed from the
   zero vector are not tested with is_minimum, and is_minimum accepts a vector
   EQUAL to a basis element (order is strict).                                  *)
From SE Require Export Base.Prelude.
Local Open Scope Z_scope.
Local Open Scope res_scope.

(* ---------- checked containers ---------- *)
Definition oob {A} (i len : nat) : res A := ErrOOB (N.of_nat i) (N.of_nat len).

Definition vget {A} (v : list A) (i : nat) : res A :=
  match nth_error v i with
  | Some x => Ok x
  | None => oob i (length v)
  end.

Fixpoint set_nth {A} (v : list A) (i : nat) (x : A) : list A :=
  match v, i with
  | [], _ => []
  | _ :: r, O => x :: r
  | y :: r, S k => y :: set_nth r k x
  end.

Definition vset {A} (v : list A) (i : nat) (x : A) : res (list A) :=
  if Nat.ltb i (length v) then Ok (set_nth v i x) else oob i (length v).

(* ---------- DenseMatrix of Integers ---------- *)
Record mat := { m_p : nat; m_q : nat; m_rows : list (list Z) }.

(* A.get(j, i) *)
Definition mget (A : mat) (j i : nat) : res Z :=
  do r <- vget (m_rows A) j; vget r i.

Definition vec_zero (q : nat) : list Z := repeat 0 q.

Fixpoint vec_eqb (x y : list Z) : bool :=
  match x, y with
  | [], [] => true
  | a :: x', b :: y' => (a =? b) && vec_eqb x' y'
  | _, _ => false
  end.

(* ---------- order(t, basis, k) ----------
   for (j = 0; j < t.ncols(); j++) { t_ = t[j]; b_ = basis[k][j];
        if (t_ < b_) return false; if (t_ > b_) eq = false; }   return not eq;   *)
Fixpoint order_loop (t : list Z) (basis : list (list Z)) (k j cnt : nat) (eq : bool) : res bool :=
  match cnt with
  | O => Ok (negb eq)
  | S c =>
      do t_ <- vget t j;
      do bk <- vget basis k;
      do b_ <- vget bk j;
      if t_ <? b_ then Ok false
      else order_loop t basis k (S j) c (if t_ >? b_ then false else eq)
  end.

Definition order (t : list Z) (basis : list (list Z)) (k : nat) : res bool :=
  order_loop t basis k 0 (length t) true.

(* is_minimum(t, basis, n) = n == 0 or (not order(t, basis, n-1) and is_minimum(t, basis, n-1)) *)
Fixpoint is_minimum (t : list Z) (basis : list (list Z)) (n : nat) : res bool :=
  match n with
  | O => Ok true
  | S k =>
      do o <- order t basis k;
      if o then Ok false else is_minimum t basis k
  end.

(* ---------- A.mul_matrix(transpose(t), product) ----------
   product[r] = sum_{k<q} A[r][k] * t[k]   (mul_dense_dense, C = p x 1)          *)
Fixpoint mul_row (A : mat) (t : list Z) (r k cnt : nat) (acc : Z) : res Z :=
  match cnt with
  | O => Ok acc
  | S c =>
      do a <- mget A r k;
      do x <- vget t k;
      mul_row A t r (S k) c (acc + a * x)
  end.

Fixpoint mul_rows (A : mat) (t : list Z) (r cnt : nat) : res (list Z) :=
  match cnt with
  | O => Ok []
  | S c =>
      do x <- mul_row A t r 0 (m_q A) 0;
      do rest <- mul_rows A t (S r) c;
      Ok (x :: rest)
  end.

Definition mul_matrix (A : mat) (t : list Z) : res (list Z) := mul_rows A t 0 (m_p A).

(* dot = sum_{j<p} product[j] * A[j][i] *)
Fixpoint dot_loop (A : mat) (product : list Z) (i j cnt : nat) (acc : Z) : res Z :=
  match cnt with
  | O => Ok acc
  | S c =>
      do pj <- vget product j;
      do a <- mget A j i;
      dot_loop A product i (S j) c (acc + pj * a)
  end.

Definition dot_col (A : mat) (product : list Z) (i : nat) : res Z :=
  dot_loop A product i 0 (m_p A) 0.

(* ---------- the Frozen bookkeeping ---------- *)
(* for (i = 0; i < q; i++) F[i] = Frozen[n][i]; *)
Fixpoint load_F (Frozen : list (list bool)) (n : nat) (F : list bool) (i cnt : nat) : res (list bool) :=
  match cnt with
  | O => Ok F
  | S c =>
      do row <- vget Frozen n;
      do x <- vget row i;
      do F' <- vset F i x;
      load_F Frozen n F' (S i) c
  end.

(* for (j = 0; j < q; j++) Frozen[m][j] = F[j]; *)
Fixpoint store_F (Frozen : list (list bool)) (m : nat) (F : list bool) (j cnt : nat) : res (list (list bool)) :=
  match cnt with
  | O => Ok Frozen
  | S c =>
      do x <- vget F j;
      do row <- vget Frozen m;
      do row' <- vset row j x;
      do Frozen' <- vset Frozen m row';
      store_F Frozen' m F (S j) c
  end.

(* ---------- body of `for (i = 0; i < q; i++)` in the else branch ---------- *)
Record fstate := {
  fT : list Z;                 (* T *)
  fF : list bool;              (* F *)
  fP : list (list Z);          (* P, head = back() *)
  fn : nat;                    (* n *)
  fFrozen : list (list bool)   (* Frozen *)
}.

Definition for_body (A : mat) (basis : list (list Z)) (product : list Z) (tzero : bool)
           (i : nat) (s : fstate) : res fstate :=
  let q := m_q A in
  (* T.set(0, i, T[i] + 1) *)
  do Ti <- vget (fT s) i;
  do T1 <- vset (fT s) i (Ti + 1);
  (* if (i > 0) T.set(0, i-1, T[i-1] - 1) *)
  do T2 <- (if Nat.ltb 0 i
            then do Tp <- vget T1 (i - 1); vset T1 (i - 1) (Tp - 1)
            else Ok T1);
  do dot <- dot_col A product i;
  (* F[i] == false and ((dot < 0 and is_minimum(T, basis, basis.size())) or t.eq(row_zero)) *)
  do Fi <- vget (fF s) i;
  do push <- (if Fi then Ok false
              else if dot <? 0
                   then do m <- is_minimum T2 basis (length basis);
                        if m then Ok true else Ok tzero
                   else Ok tzero);
  if push then
    let n' := S (fn s) in
    do Fz <- store_F (fFrozen s) (n' - 1) (fF s) 0 q;
    do F' <- vset (fF s) i true;
    Ok {| fT := T2; fF := F'; fP := T2 :: fP s; fn := n'; fFrozen := Fz |}
  else
    Ok {| fT := T2; fF := fF s; fP := fP s; fn := fn s; fFrozen := fFrozen s |}.

Fixpoint for_loop (A : mat) (basis : list (list Z)) (product : list Z) (tzero : bool)
         (i cnt : nat) (s : fstate) : res fstate :=
  match cnt with
  | O => Ok s
  | S c =>
      do s' <- for_body A basis product tzero i s;
      for_loop A basis product tzero (S i) c s'
  end.

Definition all_zero (v : list Z) : bool := forallb (fun x => x =? 0) v.

(* ---------- while (P.size() > 0) ---------- *)
Record wstate := {
  wP : list (list Z);
  wFrozen : list (list bool);
  wF : list bool;
  wbasis : list (list Z)
}.

(* one iteration; None = the loop condition is false *)
Definition while_body (A : mat) (s : wstate) : option (res wstate) :=
  match wP s with
  | [] => None
  | t :: P1 =>
      Some (
      let q := m_q A in
      let n := (length (wP s) - 1)%nat in
      do product <- mul_matrix A t;
      let tzero := vec_eqb t (vec_zero q) in
      if all_zero product && negb tzero then
        Ok {| wP := P1; wFrozen := wFrozen s; wF := wF s; wbasis := wbasis s ++ [t] |}
      else
        do F1 <- load_F (wFrozen s) n (wF s) 0 q;
        do r <- for_loop A (wbasis s) product tzero 0 q
                  {| fT := t; fF := F1; fP := P1; fn := n; fFrozen := wFrozen s |};
        Ok {| wP := fP r; wFrozen := fFrozen r; wF := fF r; wbasis := wbasis s |})
  end.

Fixpoint lde_loop (fuel : nat) (A : mat) (s : wstate) : res (list (list Z)) :=
  match fuel with
  | O => ErrFuel
  | S f =>
      match while_body A s with
      | None => Ok (wbasis s)
      | Some r => do s' <- r; lde_loop f A s'
      end
  end.

(* for (j = 0; j < q; j++) Frozen[0][j] = false; *)
Fixpoint init_frozen (Frozen : list (list bool)) (j cnt : nat) : res (list (list bool)) :=
  match cnt with
  | O => Ok Frozen
  | S c =>
      do row <- vget Frozen 0;
      do row' <- vset row j false;
      do Frozen' <- vset Frozen 0 row';
      init_frozen Frozen' (S j) c
  end.

Definition init_state (A : mat) (basis0 : list (list Z)) : res wstate :=
  let q := m_q A in
  do Fz <- init_frozen (repeat (repeat true q) q) 0 q;
  Ok {| wP := [vec_zero q]; wFrozen := Fz; wF := repeat false q; wbasis := basis0 |}.

(* homogeneous_lde(basis, A) with `basis` holding basis0 on entry *)
Definition lde_from (fuel : nat) (A : mat) (basis0 : list (list Z)) : res (list (list Z)) :=
  do s <- init_state A basis0; lde_loop fuel A s.

Definition homogeneous_lde (fuel : nat) (A : mat) : res (list (list Z)) := lde_from fuel A [].

(* ---------- brute-force Hilbert basis inside the box [0,B]^q (oracle, not a transcription) ---------- *)
Fixpoint box (q B : nat) : list (list Z) :=
  match q with
  | O => [[]]
  | S k => flat_map (fun v => map (fun x => Z.of_nat x :: v) (seq 0 (S B))) (box k B)
  end.

Fixpoint dotZ (r x : list Z) : Z :=
  match r, x with
  | a :: r', b :: x' => a * b + dotZ r' x'
  | _, _ => 0
  end.

Definition is_sol (A : mat) (x : list Z) : bool :=
  forallb (fun r => dotZ r x =? 0) (m_rows A).

Fixpoint le_vecb (x y : list Z) : bool :=
  match x, y with
  | [], [] => true
  | a :: x', b :: y' => (a <=? b) && le_vecb x' y'
  | _, _ => false
  end.

Definition lt_vecb (x y : list Z) : bool := le_vecb x y && negb (vec_eqb x y).

Definition box_solutions (A : mat) (B : nat) : list (list Z) :=
  filter (fun x => negb (all_zero x) && is_sol A x) (box (m_q A) B).

Definition hilbert_box (A : mat) (B : nat) : list (list Z) :=
  let sols := box_solutions A B in
  filter (fun x => negb (existsb (fun y => lt_vecb y x) sols)) sols.

(* minimality of one vector, by enumerating the box below it (used by the check for
   returned vectors that lie outside the comparison box) *)
Fixpoint box_below (x : list Z) : list (list Z) :=
  match x with
  | [] => [[]]
  | a :: x' => flat_map (fun v => map (fun k => Z.of_nat k :: v) (seq 0 (S (Z.to_nat a)))) (box_below x')
  end.

Definition is_minimal_sol (A : mat) (x : list Z) : bool :=
  negb (all_zero x) && forallb (fun a => 0 <=? a) x && is_sol A x
  && Nat.eqb (length x) (m_q A)
  && negb (existsb (fun y => negb (all_zero y) && is_sol A y && lt_vecb y x) (box_below x)).

(* well-formedness of the input, as a boolean (the driver only builds such matrices) *)
Definition mat_wfb (A : mat) : bool :=
  Nat.eqb (length (m_rows A)) (m_p A) && forallb (fun r => Nat.eqb (length r) (m_q A)) (m_rows A).

(* guard: `basis` is empty on entry (the function appends to it without clearing; the
   property theorems are stated under this guard, see C46_lde_from_refuted) *)
Definition guard_basis_empty (basis0 : list (list Z)) : bool :=
  match basis0 with [] => true | _ => false end.
