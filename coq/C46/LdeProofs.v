(* C46 -- the property theorems about the model of homogeneous_lde. *)
From SE Require Export C46.LdeComplete C46.LdeEnum.
From Coq Require Import Lia.
Local Open Scope Z_scope.

(* the returned list is exactly the set of minimal solutions, each once *)
Theorem lde_exact A fuel B : wf_mat A -> homogeneous_lde fuel A = Ok B ->
  NoDup B /\ forall x, In x B <-> minimal_solution A x.
Proof.
  intros Hwf E. destruct (lde_antichain A fuel B Hwf E) as [Hnd Hanti]. split; [exact Hnd|].
  intros x. split.
  - intros Hx. pose proof (lde_sound A fuel B Hwf E x Hx) as Sx.
    destruct (minimal_below A x Sx) as [s [Ms Ls]].
    pose proof (lde_complete A fuel B Hwf E s Ms) as Hs.
    rewrite <- (Hanti s x Hs Hx Ls). exact Ms.
  - apply (lde_complete A fuel B Hwf E).
Qed.

(* the same under the guard, for the in/out argument *)
Theorem lde_from_guarded A fuel basis0 B : wf_mat A -> guard_basis_empty basis0 = true ->
  lde_from fuel A basis0 = Ok B -> NoDup B /\ forall x, In x B <-> minimal_solution A x.
Proof.
  intros Hwf G E. destruct basis0; [|discriminate]. apply (lde_exact A fuel B Hwf E).
Qed.

(* without the guard: the vectors already in `basis` are kept and can be returned twice *)
Theorem lde_from_refuted :
  exists A basis0 B, wf_mat A /\ Forall (is_solution A) basis0 /\
    lde_from 50 A basis0 = Ok B /\ ~ NoDup B /\ exists x, In x B /\ ~ minimal_solution A x.
Proof.
  exists {| m_p := 1; m_q := 2; m_rows := [[1; -1]] |}, [[1; 1]; [2; 2]], [[1; 1]; [2; 2]; [1; 1]].
  assert (S1 : forall a, 0 < a -> is_solution {| m_p := 1; m_q := 2; m_rows := [[1; -1]] |} [a; a]).
  { intros a Ha. split; [reflexivity|]. split; [intros i; do 3 (destruct i as [|i]; simpl; try lia)|]. split.
    - simpl. intros E. inversion E. lia.
    - constructor; [cbn [dotZ]; lia|constructor]. }
  split; [split; [reflexivity|repeat constructor]|].
  split; [repeat constructor; apply S1; lia|].
  split; [vm_compute; reflexivity|]. split.
  - intros H. inversion H as [|? ? Hn _]; subst. apply Hn. right. left. reflexivity.
  - exists [2; 2]. split; [right; left; reflexivity|].
    intros [_ Hm]. specialize (Hm [1; 1] (S1 1 ltac:(lia))).
    assert (E : [1; 1] = [2; 2]); [|discriminate]. apply Hm. split; [reflexivity|].
    intros i; do 3 (destruct i as [|i]; simpl; try lia).
Qed.

(* ---------- fuel ---------- *)
Lemma lde_loop_fuel_mono A : forall f s B, lde_loop f A s = Ok B -> forall f', (f <= f')%nat -> lde_loop f' A s = Ok B.
Proof.
  induction f as [|f IH]; intros s B E f' Hf; [discriminate|].
  destruct f' as [|f']; [lia|]. cbn [lde_loop] in *.
  destruct (while_body A s) as [r|]; [|exact E].
  destruct r as [s'| | |]; cbn [bind] in *; try discriminate. apply IH; [exact E|lia].
Qed.

(* the result does not depend on the fuel once the loop has ended *)
Theorem lde_fuel_mono A f f' B : (f <= f')%nat -> homogeneous_lde f A = Ok B -> homogeneous_lde f' A = Ok B.
Proof.
  unfold homogeneous_lde, lde_from. intros Hf E.
  destruct (init_state A []) as [s| | |]; cbn [bind] in *; try discriminate.
  eapply lde_loop_fuel_mono; eauto.
Qed.

(* ---------- termination on complete small universes (kernel sweep) ---------- *)
Definition zrange (m : nat) : list Z := map (fun n => Z.of_nat n - Z.of_nat m) (seq 0 (2 * m + 1)).

Fixpoint vecs (q m : nat) : list (list Z) :=
  match q with
  | O => [[]]
  | S k => flat_map (fun v => map (fun a => a :: v) (zrange m)) (vecs k m)
  end.

Fixpoint mats (p q m : nat) : list (list (list Z)) :=
  match p with
  | O => [[]]
  | S k => flat_map (fun M => map (fun r => r :: M) (vecs q m)) (mats k q m)
  end.

Definition mk (p q : nat) (rows : list (list Z)) : mat := {| m_p := p; m_q := q; m_rows := rows |}.

Definition shapes_le (P Q : nat) : list (nat * nat) :=
  flat_map (fun p => map (fun q => (p, q)) (seq 0 (S Q))) (seq 0 (S P)).

Definition sweep (fuel P Q m : nat) : bool :=
  forallb (fun pq => forallb (fun rows => is_ok (homogeneous_lde fuel (mk (fst pq) (snd pq) rows)))
                       (mats (fst pq) (snd pq) m)) (shapes_le P Q).

Definition bounded (m : nat) (A : mat) : Prop :=
  Forall (Forall (fun a => - Z.of_nat m <= a <= Z.of_nat m)) (m_rows A).

Lemma in_zrange m a : - Z.of_nat m <= a <= Z.of_nat m -> In a (zrange m).
Proof.
  intros H. unfold zrange. apply in_map_iff. exists (Z.to_nat (a + Z.of_nat m)). split; [lia|].
  apply in_seq. lia.
Qed.

Lemma in_vecs m : forall q v, length v = q -> Forall (fun a => - Z.of_nat m <= a <= Z.of_nat m) v -> In v (vecs q m).
Proof.
  induction q as [|k IH]; intros v L H.
  - destruct v; [left; reflexivity|discriminate].
  - destruct v as [|a v]; [discriminate|]. inversion H; subst. cbn [vecs]. apply in_flat_map.
    exists v. split; [apply IH; [simpl in L; lia|assumption]|].
    apply in_map_iff. exists a. split; [reflexivity|apply in_zrange; assumption].
Qed.

Lemma in_mats q m : forall p rows, length rows = p -> Forall (fun r => length r = q) rows ->
  Forall (Forall (fun a => - Z.of_nat m <= a <= Z.of_nat m)) rows -> In rows (mats p q m).
Proof.
  induction p as [|k IH]; intros rows L H1 H2.
  - destruct rows; [left; reflexivity|discriminate].
  - destruct rows as [|r rows]; [discriminate|]. inversion H1; inversion H2; subst. cbn [mats]. apply in_flat_map.
    exists rows. split; [apply IH; [simpl in L; lia|assumption|assumption]|].
    apply in_map_iff. exists r. split; [reflexivity|apply in_vecs; auto].
Qed.

Lemma sweep_sound fuel P Q m : sweep fuel P Q m = true ->
  forall A, wf_mat A -> (m_p A <= P)%nat -> (m_q A <= Q)%nat -> bounded m A ->
  exists B, homogeneous_lde fuel A = Ok B.
Proof.
  unfold sweep. rewrite forallb_forall. intros H A [Hp Hr] HP HQ Hb.
  assert (Hpq : In (m_p A, m_q A) (shapes_le P Q)).
  { unfold shapes_le. apply in_flat_map. exists (m_p A). split; [apply in_seq; lia|].
    apply in_map_iff. exists (m_q A). split; [reflexivity|apply in_seq; lia]. }
  specialize (H _ Hpq). cbn [fst snd] in H. rewrite forallb_forall in H.
  specialize (H (m_rows A) (in_mats (m_q A) m (m_p A) (m_rows A) Hp Hr Hb)).
  assert (EA : mk (m_p A) (m_q A) (m_rows A) = A) by (destruct A; reflexivity).
  rewrite EA in H. destruct (homogeneous_lde fuel A) as [B| | |]; try discriminate. exists B. reflexivity.
Qed.

Definition SMALL_FUEL : nat := 400.

(* the loop ends within 400 iterations on every matrix with at most 2 rows, at most 3 columns
   and entries in [-2,2], on every single equation in at most 4 unknowns with coefficients
   in [-3,3], and on every matrix up to 3 x 3 or 2 x 4 with entries in {-1,0,1}
   (complete sweeps, evaluated by the kernel) *)
Theorem lde_terminates_small A : wf_mat A ->
  ((m_p A <= 2)%nat /\ (m_q A <= 3)%nat /\ bounded 2 A) \/
  ((m_p A <= 1)%nat /\ (m_q A <= 4)%nat /\ bounded 3 A) \/
  ((m_p A <= 3)%nat /\ (m_q A <= 3)%nat /\ bounded 1 A) \/
  ((m_p A <= 2)%nat /\ (m_q A <= 4)%nat /\ bounded 1 A) ->
  exists B, homogeneous_lde SMALL_FUEL A = Ok B.
Proof.
  intros Hwf [[HP [HQ Hb]]|[[HP [HQ Hb]]|[[HP [HQ Hb]]|[HP [HQ Hb]]]]].
  - apply (sweep_sound SMALL_FUEL 2 3 2); [vm_compute; reflexivity|assumption..].
  - apply (sweep_sound SMALL_FUEL 1 4 3); [vm_compute; reflexivity|assumption..].
  - apply (sweep_sound SMALL_FUEL 3 3 1); [vm_compute; reflexivity|assumption..].
  - apply (sweep_sound SMALL_FUEL 2 4 1); [vm_compute; reflexivity|assumption..].
Qed.

(* in-bounds for the in/out argument as well: rows of the right width already in `basis` *)
Theorem lde_from_in_bounds A fuel basis0 : wf_mat A -> Forall (fun b => length b = m_q A) basis0 ->
  lde_from fuel A basis0 = ErrFuel \/ exists B, lde_from fuel A basis0 = Ok B.
Proof.
  intros Hwf Hb. rewrite lde_refines by assumption. apply aloop_no_oob.
Qed.

(* order and is_minimum on vectors of equal width: order(t, basis, k) says "basis[k] is strictly
   below t", is_minimum(t, basis, size) says "no basis element is strictly below t" *)
Theorem order_correct t basis k bk : nth_error basis k = Some bk -> length bk = length t ->
  exists o, order t basis k = Ok o /\ (o = true <-> le_vec bk t /\ bk <> t).
Proof.
  intros Hk L. exists (lt_vecb bk t). split; [apply order_spec; assumption|]. apply lt_vecb_spec.
Qed.

Theorem is_minimum_correct t basis : Forall (fun b => length b = length t) basis ->
  exists m, is_minimum t basis (length basis) = Ok m /\
            (m = true <-> forall b, In b basis -> ~ (le_vec b t /\ b <> t)).
Proof.
  intros H. exists (amin t basis). split; [apply is_minimum_full; exact H|]. split.
  - apply amin_true.
  - apply amin_intro.
Qed.
