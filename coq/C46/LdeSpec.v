(* C46 -- specification side: what "the minimal non-zero non-negative integer solutions
   of A x = 0" means (schoolbook definitions over lists of Z), and well-formedness of
   the input matrix. *)
From SE Require Export C46.LdeModel.
Local Open Scope Z_scope.

(* a p x q DenseMatrix: p rows of q entries *)
Definition wf_mat (A : mat) : Prop :=
  length (m_rows A) = m_p A /\ Forall (fun r => length r = m_q A) (m_rows A).

(* componentwise order on vectors of the same length (x_i is [nth i x 0]) *)
Definition le_vec (x y : list Z) : Prop :=
  length x = length y /\ forall i, nth i x 0 <= nth i y 0.

Definition nonneg (x : list Z) : Prop := forall i, 0 <= nth i x 0.

(* A x = 0: every row has scalar product 0 with x ([dotZ] is the sum of the products) *)
Definition solves (A : mat) (x : list Z) : Prop :=
  Forall (fun r => dotZ r x = 0) (m_rows A).

(* a non-zero non-negative solution *)
Definition is_solution (A : mat) (x : list Z) : Prop :=
  length x = m_q A /\ nonneg x /\ x <> vec_zero (m_q A) /\ solves A x.

(* minimal among the non-zero non-negative solutions (the Hilbert basis of the cone) *)
Definition minimal_solution (A : mat) (x : list Z) : Prop :=
  is_solution A x /\ forall y, is_solution A y -> le_vec y x -> y = x.

(* pairwise incomparable (in particular pairwise distinct at different positions) *)
Fixpoint pairs_ok {T} (R : T -> T -> Prop) (l : list T) : Prop :=
  match l with
  | [] => True
  | a :: r => Forall (R a) r /\ pairs_ok R r
  end.

Definition antichain (B : list (list Z)) : Prop :=
  pairs_ok (fun x y => ~ le_vec x y /\ ~ le_vec y x) B.
