(* C46 -- the brute-force enumerator of the model (the completeness oracle of the check)
   is correct: hilbert_box A B is exactly the set of minimal solutions inside [0,B]^q,
   and is_minimal_sol decides minimality.  Also: below every solution lies a minimal one. *)
From SE Require Export C46.LdeBase.
From Coq Require Import Lia.
Local Open Scope Z_scope.

Lemma in_box q B : forall x, In x (box q B) <-> length x = q /\ forall i, 0 <= nth i x 0 <= Z.of_nat B.
Proof.
  induction q as [|k IH]; intros x.
  - simpl. split.
    + intros [<-|[]]. split; [reflexivity|]. intros []; simpl; lia.
    + intros [L _]. destruct x; [left; reflexivity|discriminate].
  - cbn [box]. rewrite in_flat_map. split.
    + intros [v [Hv Hx]]. apply in_map_iff in Hx. destruct Hx as [n [<- Hn]].
      apply IH in Hv. destruct Hv as [L H]. apply in_seq in Hn. split; [simpl; lia|].
      intros [|i]; simpl; [lia|apply H].
    + intros [L H]. destruct x as [|a v]; [discriminate|].
      exists v. split.
      * apply IH. split; [simpl in L; lia|]. intros i. apply (H (S i)).
      * apply in_map_iff. exists (Z.to_nat a). pose proof (H 0%nat) as H0. simpl in H0.
        split; [f_equal; lia|]. apply in_seq. lia.
Qed.

Lemma in_box_below x : nonneg x -> forall y, In y (box_below x) <-> le_vec y x /\ nonneg y.
Proof.
  induction x as [|a x IH]; intros N y.
  - simpl. split.
    + intros [<-|[]]. split; [apply le_vec_refl|]. intros []; simpl; lia.
    + intros [[L _] _]. destruct y; [left; reflexivity|discriminate].
  - assert (Nx : nonneg x) by (intros i; apply (N (S i))).
    pose proof (N 0%nat) as N0. simpl in N0.
    cbn [box_below]. rewrite in_flat_map. split.
    + intros [v [Hv Hy]]. apply in_map_iff in Hy. destruct Hy as [n [<- Hn]].
      apply (IH Nx) in Hv. destruct Hv as [[L H] Nv]. apply in_seq in Hn. split.
      * split; [simpl; lia|]. intros [|i]; simpl; [lia|apply H].
      * intros [|i]; simpl; [lia|apply Nv].
    + intros [[L H] Ny]. destruct y as [|b v]; [discriminate|].
      exists v. split.
      * apply (IH Nx). split; [split; [simpl in L; lia|intros i; apply (H (S i))]|intros i; apply (Ny (S i))].
      * apply in_map_iff. exists (Z.to_nat b). pose proof (H 0%nat) as H0. pose proof (Ny 0%nat) as Ny0.
        simpl in H0, Ny0. split; [f_equal; lia|]. apply in_seq. lia.
Qed.

Lemma is_sol_spec A x : is_sol A x = true <-> solves A x.
Proof.
  unfold is_sol, solves. rewrite forallb_forall, Forall_forall.
  split; intros H r Hr; specialize (H r Hr); apply Z.eqb_eq; exact H.
Qed.

Lemma not_all_zero_spec x : negb (all_zero x) = true <-> x <> vec_zero (length x).
Proof.
  rewrite Bool.negb_true_iff. split.
  - intros H E. apply all_zero_spec in E. congruence.
  - intros H. destruct (all_zero x) eqn:E; auto. apply all_zero_spec in E. contradiction.
Qed.

Lemma nonneg_forallb x : forallb (fun a => 0 <=? a) x = true <-> nonneg x.
Proof.
  unfold nonneg. induction x as [|a x IH]; simpl.
  - split; auto. intros _ []; simpl; lia.
  - rewrite Bool.andb_true_iff, IH, Z.leb_le. split.
    + intros [H1 H2] [|i]; simpl; auto.
    + intros H. split; [apply (H 0%nat)|intros i; apply (H (S i))].
Qed.

(* a solution is minimal or has another solution strictly below it (decided by enumeration) *)
Definition smaller_sol (A : mat) (x y : list Z) : bool := negb (all_zero y) && is_sol A y && lt_vecb y x.

Lemma smaller_sol_spec A x y : is_solution A x -> In y (box_below x) -> smaller_sol A x y = true <->
  is_solution A y /\ le_vec y x /\ y <> x.
Proof.
  intros [Lx [Nx _]] Hy. apply (in_box_below x Nx) in Hy. destruct Hy as [Lyx Ny].
  unfold smaller_sol. rewrite !Bool.andb_true_iff, not_all_zero_spec, is_sol_spec, lt_vecb_spec.
  unfold lt_vec, is_solution. destruct Lyx as [L H]. rewrite L, Lx. intuition.
Qed.

Lemma min_or_smaller A x : is_solution A x ->
  minimal_solution A x \/ exists y, is_solution A y /\ le_vec y x /\ y <> x.
Proof.
  intros Sx. destruct (existsb (smaller_sol A x) (box_below x)) eqn:E.
  - right. apply existsb_exists in E. destruct E as [y [Hy Hs]].
    exists y. apply (smaller_sol_spec A x y Sx Hy). exact Hs.
  - left. split; [exact Sx|]. intros y Sy Ly.
    destruct (vec_eqb y x) eqn:Eq; [apply vec_eqb_spec; exact Eq|]. exfalso.
    assert (Hy : In y (box_below x)).
    { destruct Sx as [_ [Nx _]]. apply (in_box_below x Nx). split; [exact Ly|]. destruct Sy as [_ [Ny _]]. exact Ny. }
    assert (Hs : smaller_sol A x y = true).
    { apply (smaller_sol_spec A x y Sx Hy). split; [exact Sy|]. split; [exact Ly|].
      intros ->. assert (vec_eqb x x = true) by (apply vec_eqb_spec; reflexivity). congruence. }
    assert (existsb (smaller_sol A x) (box_below x) = true) by (apply existsb_exists; eauto).
    congruence.
Qed.

Theorem is_minimal_sol_spec A x : is_minimal_sol A x = true <-> minimal_solution A x.
Proof.
  unfold is_minimal_sol. rewrite !Bool.andb_true_iff, not_all_zero_spec, nonneg_forallb, is_sol_spec,
    Nat.eqb_eq, Bool.negb_true_iff.
  fold (smaller_sol A x). split.
  - intros [[[[Nz Nn] Ss] L] E].
    assert (Sx : is_solution A x) by (split; [exact L|split; [exact Nn|split; [rewrite <- L; exact Nz|exact Ss]]]).
    destruct (min_or_smaller A x Sx) as [H|[y [Sy [Ly Ny]]]]; [exact H|]. exfalso.
    assert (Hy : In y (box_below x)).
    { apply (in_box_below x Nn). split; [exact Ly|]. destruct Sy as [_ [Ny' _]]. exact Ny'. }
    assert (existsb (smaller_sol A x) (box_below x) = true).
    { apply existsb_exists. exists y. split; [exact Hy|]. apply (smaller_sol_spec A x y Sx Hy). auto. }
    congruence.
  - intros [Sx Hm]. pose proof Sx as [L [Nn [Nz Ss]]]. repeat split; auto; [rewrite L; exact Nz|].
    destruct (existsb (smaller_sol A x) (box_below x)) eqn:E; auto. exfalso.
    apply existsb_exists in E. destruct E as [y [Hy Hs]].
    apply (smaller_sol_spec A x y Sx Hy) in Hs. destruct Hs as [Sy [Ly Ny]]. apply Ny. apply Hm; assumption.
Qed.

(* ---------- hilbert_box ---------- *)
Lemma in_box_solutions A B x : In x (box_solutions A B) <-> is_solution A x /\ forall i, nth i x 0 <= Z.of_nat B.
Proof.
  unfold box_solutions. rewrite filter_In, in_box, Bool.andb_true_iff, not_all_zero_spec, is_sol_spec.
  unfold is_solution, nonneg. split.
  - intros [[L H] [Nz Ss]]. split; [|intros i; apply H]. rewrite <- L at 2. repeat split; auto. intros i; apply H.
  - intros [[L [Nn [Nz Ss]]] H]. rewrite L. repeat split; auto; try apply Nn; apply H.
Qed.

Theorem hilbert_box_correct A B x :
  In x (hilbert_box A B) <-> minimal_solution A x /\ forall i, nth i x 0 <= Z.of_nat B.
Proof.
  unfold hilbert_box. rewrite filter_In, in_box_solutions, Bool.negb_true_iff. split.
  - intros [[Sx Hb] E]. split; [|exact Hb]. split; [exact Sx|]. intros y Sy Ly.
    destruct (vec_eqb y x) eqn:Eq; [apply vec_eqb_spec; exact Eq|]. exfalso.
    assert (Hy : In y (box_solutions A B)).
    { apply in_box_solutions. split; [exact Sy|]. intros i. destruct Ly as [_ H]. specialize (H i). specialize (Hb i). lia. }
    assert (existsb (fun y => lt_vecb y x) (box_solutions A B) = true).
    { apply existsb_exists. exists y. split; [exact Hy|]. apply lt_vecb_spec. split; [exact Ly|].
      intros ->. assert (vec_eqb x x = true) by (apply vec_eqb_spec; reflexivity). congruence. }
    congruence.
  - intros [[Sx Hm] Hb]. split; [split; assumption|].
    destruct (existsb (fun y => lt_vecb y x) (box_solutions A B)) eqn:E; auto. exfalso.
    apply existsb_exists in E. destruct E as [y [Hy Hl]]. apply in_box_solutions in Hy. destruct Hy as [Sy _].
    apply lt_vecb_spec in Hl. destruct Hl as [Ly Ny]. apply Ny. apply Hm; assumption.
Qed.

(* below every solution there is a minimal one (induction on the sum of the entries) *)
Fixpoint vsum (x : list Z) : Z := match x with [] => 0 | a :: r => a + vsum r end.

Lemma vsum_le x y : le_vec x y -> vsum x <= vsum y /\ (vsum x = vsum y -> x = y).
Proof.
  revert y; induction x as [|a x IH]; intros y [L H]; destruct y as [|b y]; try discriminate.
  - split; [simpl; lia|reflexivity].
  - simpl in L. assert (Lxy : le_vec x y) by (split; [lia|intros i; apply (H (S i))]).
    destruct (IH y Lxy) as [I1 I2]. pose proof (H 0%nat) as H0. simpl in H0. simpl. split; [lia|].
    intros E. assert (a = b) by lia. subst. f_equal. apply I2. lia.
Qed.

Lemma vsum_nonneg x : nonneg x -> 0 <= vsum x.
Proof.
  induction x as [|a x IH]; intros N; simpl; [lia|].
  pose proof (N 0%nat) as N0. simpl in N0. assert (nonneg x) by (intros i; apply (N (S i))). specialize (IH H). lia.
Qed.

Lemma minimal_below A x : is_solution A x -> exists s, minimal_solution A s /\ le_vec s x.
Proof.
  assert (G : forall n x, Z.to_nat (vsum x) = n -> is_solution A x -> exists s, minimal_solution A s /\ le_vec s x).
  { induction n as [n IH] using lt_wf_ind. intros x0 En Sx.
    destruct (min_or_smaller A x0 Sx) as [Hm|[y [Sy [Ly Ny]]]].
    - exists x0. split; [exact Hm|apply le_vec_refl].
    - destruct (vsum_le y x0 Ly) as [V1 V2].
      destruct Sy as [Ly' [Ny' R]]. pose proof (vsum_nonneg y Ny') as P.
      assert (Hlt : (Z.to_nat (vsum y) < n)%nat).
      { assert (vsum y <> vsum x0) by (intros Ev; apply Ny; apply V2; exact Ev). lia. }
      destruct (IH _ Hlt y eq_refl (conj Ly' (conj Ny' R))) as [s [Ms Ls]].
      exists s. split; [exact Ms|eapply le_vec_trans; eauto]. }
  intros Sx. eapply G; eauto.
Qed.
