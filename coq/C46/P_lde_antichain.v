(* C46 obligation: the returned vectors are pairwise distinct ("each once") and pairwise
   incomparable for the componentwise order ("minimal among the returned"). *)
From SE Require Import C46.LdeSpec C46.LdeProofs.
Theorem C46_lde_antichain :
  forall (A : mat) (fuel : nat) (B : list (list Z)),
    wf_mat A -> homogeneous_lde fuel A = Ok B ->
    NoDup B /\ forall x y, In x B -> In y B -> le_vec x y -> x = y.
Proof. exact lde_antichain. Qed.
Print Assumptions C46_lde_antichain.
