(* C46 obligation: the boolean minimality test of the model (used by the check for returned
   vectors outside the comparison box) decides minimal_solution. *)
From SE Require Import C46.LdeSpec C46.LdeProofs.
Theorem C46_is_minimal_sol_correct :
  forall (A : mat) (x : list Z), is_minimal_sol A x = true <-> minimal_solution A x.
Proof. exact is_minimal_sol_spec. Qed.
Print Assumptions C46_is_minimal_sol_correct.
