(* C46 refutation: homogeneous_lde does not clear its output argument.  With solutions already
   in `basis` the call returns a list with a repeated vector and a non-minimal one
   (A = (1 -1), basis = {(1,1), (2,2)} on entry: result (1,1), (2,2), (1,1)). *)
From SE Require Import C46.LdeSpec C46.LdeProofs.
Theorem C46_lde_from_refuted :
  exists A basis0 B, wf_mat A /\ Forall (is_solution A) basis0 /\
    lde_from 50 A basis0 = Ok B /\ ~ NoDup B /\ exists x, In x B /\ ~ minimal_solution A x.
Proof. exact lde_from_refuted. Qed.
Print Assumptions C46_lde_from_refuted.
