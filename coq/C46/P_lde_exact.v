(* C46 obligation (the property): a run of homogeneous_lde that ends returns exactly the set
   of minimal non-zero non-negative integer solutions of A x = 0, each once. *)
From SE Require Import C46.LdeSpec C46.LdeProofs.
Theorem C46_lde_exact :
  forall (A : mat) (fuel : nat) (B : list (list Z)),
    wf_mat A -> homogeneous_lde fuel A = Ok B ->
    NoDup B /\ forall x, In x B <-> minimal_solution A x.
Proof. exact lde_exact. Qed.
Print Assumptions C46_lde_exact.
