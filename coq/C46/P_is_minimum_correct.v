(* C46 obligation: is_minimum(t, basis, basis.size()) is true exactly when no element of the
   basis lies strictly below t (componentwise <= and different); all indices in range when
   the widths agree. *)
From SE Require Import C46.LdeSpec C46.LdeProofs.
Theorem C46_is_minimum_correct :
  forall (t : list Z) (basis : list (list Z)),
    Forall (fun b => length b = length t) basis ->
    exists m, is_minimum t basis (length basis) = Ok m /\
              (m = true <-> forall b, In b basis -> ~ (le_vec b t /\ b <> t)).
Proof. exact is_minimum_correct. Qed.
Print Assumptions C46_is_minimum_correct.
