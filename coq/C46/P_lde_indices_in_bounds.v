(* C46 obligation: no container is accessed outside its range (Frozen[n] with n < q, P, F, T,
   basis[k], the matrix entries): on a well-formed matrix, and with rows of width q already in
   `basis`, the model never returns ErrOOB (nor an exception) -- it ends with a basis or runs
   out of fuel.  The stack-depth bound behind it is not assumed: it is the invariant
   "the entry at index k has at least k frozen components" of the refinement proof. *)
From SE Require Import C46.LdeSpec C46.LdeProofs.
Theorem C46_lde_indices_in_bounds :
  forall (A : mat) (fuel : nat) (basis0 : list (list Z)),
    wf_mat A -> Forall (fun b => length b = m_q A) basis0 ->
    lde_from fuel A basis0 = ErrFuel \/ exists B, lde_from fuel A basis0 = Ok B.
Proof. exact lde_from_in_bounds. Qed.
Print Assumptions C46_lde_indices_in_bounds.
