(* C46 obligation: order(t, basis, k) is true exactly when basis[k] lies strictly below t. *)
From SE Require Import C46.LdeSpec C46.LdeProofs.
Theorem C46_order_correct :
  forall (t : list Z) (basis : list (list Z)) (k : nat) (bk : list Z),
    nth_error basis k = Some bk -> length bk = length t ->
    exists o, order t basis k = Ok o /\ (o = true <-> le_vec bk t /\ bk <> t).
Proof. exact order_correct. Qed.
Print Assumptions C46_order_correct.
