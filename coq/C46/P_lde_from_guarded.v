(* C46 obligation: the property for the in/out argument under the guard "basis is empty on
   entry" (see C46_lde_from_refuted for what happens otherwise). *)
From SE Require Import C46.LdeSpec C46.LdeProofs.
Theorem C46_lde_from_guarded :
  forall (A : mat) (fuel : nat) (basis0 B : list (list Z)),
    wf_mat A -> guard_basis_empty basis0 = true -> lde_from fuel A basis0 = Ok B ->
    NoDup B /\ forall x, In x B <-> minimal_solution A x.
Proof. exact lde_from_guarded. Qed.
Print Assumptions C46_lde_from_guarded.
