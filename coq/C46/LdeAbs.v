(* C46 -- the checked loops of the model computed as pure functions, and an abstract
   version of the while loop (a stack of pairs (vector, frozen set), no Frozen matrix,
   no indices) that the model refines whenever the input is well formed.  The
   refinement is the in-bounds theorem: the abstract loop has no out-of-range case. *)
From SE Require Export C46.LdeBase.
From Coq Require Import Lia.
Local Open Scope Z_scope.

Notation entry := (list Z * list bool)%type.

(* sum_r P_r * A[r][j] *)
Fixpoint colsum (rows : list (list Z)) (P : list Z) (j : nat) : Z :=
  match rows, P with
  | r :: rs, p0 :: Ps => p0 * nth j r 0 + colsum rs Ps j
  | _, _ => 0
  end.

Definition prod_of (A : mat) (t : list Z) : list Z := map (fun r => dotZ r t) (m_rows A).

Definition amin (T : list Z) (basis : list (list Z)) : bool :=
  forallb (fun b => negb (lt_vecb b T)) basis.

Definition push_cond (A : mat) (basis : list (list Z)) (product : list Z) (tzero : bool)
           (t : list Z) (F : list bool) (i : nat) : bool :=
  negb (nth i F true) && (((colsum (m_rows A) product i <? 0) && amin (bump t i) basis) || tzero).

Fixpoint afor (A : mat) (basis : list (list Z)) (product : list Z) (tzero : bool) (t : list Z)
         (i cnt : nat) (F : list bool) (Zs : list entry) : list entry * list bool :=
  match cnt with
  | O => (Zs, F)
  | S c =>
      if push_cond A basis product tzero t F i
      then afor A basis product tzero t (S i) c (set_nth F i true) ((bump t i, F) :: Zs)
      else afor A basis product tzero t (S i) c F Zs
  end.

Definition astep (A : mat) (Zs : list entry) (basis : list (list Z)) : option (list entry * list (list Z)) :=
  match Zs with
  | [] => None
  | (t, Fr) :: Z1 =>
      let product := prod_of A t in
      let tzero := vec_eqb t (vec_zero (m_q A)) in
      if all_zero product && negb tzero then Some (Z1, basis ++ [t])
      else Some (fst (afor A basis product tzero t 0 (m_q A) Fr Z1), basis)
  end.

Fixpoint aloop (fuel : nat) (A : mat) (Zs : list entry) (basis : list (list Z)) : res (list (list Z)) :=
  match fuel with
  | O => ErrFuel
  | S f =>
      match astep A Zs basis with
      | None => Ok basis
      | Some (Z', b') => aloop f A Z' b'
      end
  end.

Definition astart (A : mat) : list entry := [(vec_zero (m_q A), repeat false (m_q A))].

(* ================= the primitive loops ================= *)

Lemma mul_row_spec A t r row : nth_error (m_rows A) r = Some row ->
  forall r2 r1 t1 t2 acc, row = r1 ++ r2 -> t = t1 ++ t2 -> length r1 = length t1 -> length r2 = length t2 ->
  mul_row A t r (length r1) (length r2) acc = Ok (acc + dotZ r2 t2).
Proof.
  intros Hrow. induction r2 as [|a r2 IH]; intros r1 t1 t2 acc Er Et L1 L2.
  - destruct t2; [|discriminate]. simpl. f_equal. lia.
  - destruct t2 as [|x t2]; [discriminate|].
    cbn [mul_row length]. unfold mget. rewrite (vget_nth_error _ _ _ Hrow). cbn [bind].
    subst row t. rewrite vget_app. cbn [bind]. rewrite L1, vget_app. cbn [bind].
    replace (S (length t1)) with (length (r1 ++ [a])) by (rewrite app_length; simpl; lia).
    rewrite (IH (r1 ++ [a]) (t1 ++ [x]) t2).
    + f_equal. simpl. lia.
    + rewrite <- app_assoc. reflexivity.
    + rewrite <- app_assoc. reflexivity.
    + rewrite !app_length. simpl. lia.
    + simpl in L2. lia.
Qed.

Lemma mul_rows_spec A t : Forall (fun r => length r = length t) (m_rows A) ->
  m_q A = length t ->
  forall rs2 rs1, m_rows A = rs1 ++ rs2 ->
  mul_rows A t (length rs1) (length rs2) = Ok (map (fun r => dotZ r t) rs2).
Proof.
  intros Hall Hq. induction rs2 as [|row rs2 IH]; intros rs1 E.
  - reflexivity.
  - cbn [mul_rows length map].
    assert (Hrow : nth_error (m_rows A) (length rs1) = Some row).
    { rewrite E, nth_error_app2 by lia. rewrite Nat.sub_diag. reflexivity. }
    assert (Lrow : length row = length t).
    { rewrite Forall_forall in Hall. apply Hall. rewrite E. apply in_or_app. right. left. reflexivity. }
    rewrite Hq, <- Lrow.
    change 0%nat with (@length Z []).
    rewrite (mul_row_spec A t (length rs1) row Hrow row [] [] t 0); auto.
    cbn [bind].
    replace (S (length rs1)) with (length (rs1 ++ [row])) by (rewrite app_length; simpl; lia).
    rewrite IH by (rewrite <- app_assoc; exact E).
    cbn [bind]. reflexivity.
Qed.

Lemma mul_matrix_spec A t : wf_mat A -> length t = m_q A -> mul_matrix A t = Ok (prod_of A t).
Proof.
  intros [Hp Hr] Ht. unfold mul_matrix, prod_of. rewrite <- Hp.
  change 0%nat with (@length (list Z) []).
  apply mul_rows_spec with (rs1 := []); auto.
  eapply Forall_impl; [|exact Hr]. simpl. intros. congruence.
Qed.

Lemma dot_loop_spec A product i :
  forall rs2 rs1 P1 P2 acc, m_rows A = rs1 ++ rs2 -> product = P1 ++ P2 ->
  length rs1 = length P1 -> length rs2 = length P2 ->
  Forall (fun r => (i < length r)%nat) rs2 ->
  dot_loop A product i (length rs1) (length rs2) acc = Ok (acc + colsum rs2 P2 i).
Proof.
  induction rs2 as [|row rs2 IH]; intros rs1 P1 P2 acc E EP L1 L2 Hi.
  - simpl. f_equal. lia.
  - destruct P2 as [|pj P2]; [discriminate|].
    cbn [dot_loop length colsum]. subst product. rewrite L1, vget_app. cbn [bind].
    unfold mget. rewrite E, <- L1, vget_app. cbn [bind].
    inversion Hi; subst.
    rewrite (vget_nth _ _ 0) by assumption. cbn [bind].
    replace (S (length rs1)) with (length (rs1 ++ [row])) by (rewrite app_length; simpl; lia).
    rewrite (IH (rs1 ++ [row]) (P1 ++ [pj]) P2).
    + f_equal. lia.
    + rewrite <- app_assoc. exact E.
    + rewrite <- app_assoc. reflexivity.
    + rewrite !app_length. simpl. lia.
    + simpl in L2. lia.
    + assumption.
Qed.

Lemma dot_col_spec A t i : wf_mat A -> (i < m_q A)%nat ->
  dot_col A (prod_of A t) i = Ok (colsum (m_rows A) (prod_of A t) i).
Proof.
  intros [Hp Hr] Hi. unfold dot_col. rewrite <- Hp.
  change 0%nat with (@length (list Z) []).
  rewrite (dot_loop_spec A (prod_of A t) i (m_rows A) [] [] (prod_of A t) 0); auto.
  - unfold prod_of. rewrite map_length. reflexivity.
  - eapply Forall_impl; [|exact Hr]. simpl. intros. lia.
Qed.

(* ---------- order / is_minimum ---------- *)
Lemma order_loop_spec t basis k bk : nth_error basis k = Some bk ->
  forall t2 t1 b1 b2 eq, t = t1 ++ t2 -> bk = b1 ++ b2 -> length t1 = length b1 -> length t2 = length b2 ->
  order_loop t basis k (length t1) (length t2) eq = Ok (le_vecb b2 t2 && negb (eq && vec_eqb b2 t2)).
Proof.
  intros Hk. induction t2 as [|x t2 IH]; intros t1 b1 b2 eq Et Eb L1 L2.
  - destruct b2; [|discriminate]. simpl. rewrite Bool.andb_true_r. reflexivity.
  - destruct b2 as [|y b2]; [discriminate|].
    cbn [order_loop length]. subst t. rewrite vget_app. cbn [bind].
    rewrite (vget_nth_error _ _ _ Hk). cbn [bind]. subst bk. rewrite L1, vget_app. cbn [bind].
    cbn [le_vecb vec_eqb].
    destruct (Z.ltb_spec x y) as [Hlt|Hge].
    + destruct (Z.leb_spec y x); [lia|]. reflexivity.
    + replace (S (length b1)) with (length (t1 ++ [x])) by (rewrite app_length; simpl; lia).
      rewrite (IH (t1 ++ [x]) (b1 ++ [y]) b2).
      * destruct (Z.leb_spec y x); [|lia]. cbn [andb].
        unfold Z.gtb. destruct (Z.compare_spec x y) as [E|E|E]; try lia.
        -- subst. rewrite Z.eqb_refl. reflexivity.
        -- destruct (Z.eqb_spec y x); [lia|]. cbn [andb]. rewrite Bool.andb_false_r. reflexivity.
      * rewrite <- app_assoc. reflexivity.
      * rewrite <- app_assoc. reflexivity.
      * rewrite !app_length. simpl. lia.
      * simpl in L2. lia.
Qed.

Lemma order_spec t basis k bk : nth_error basis k = Some bk -> length bk = length t ->
  order t basis k = Ok (lt_vecb bk t).
Proof.
  intros Hk L. unfold order.
  change 0%nat with (@length Z []).
  rewrite (order_loop_spec t basis k bk Hk t [] [] bk true); auto.
Qed.

Lemma firstn_snoc {T} (l : list T) k x : nth_error l k = Some x -> firstn (S k) l = firstn k l ++ [x].
Proof.
  revert k; induction l; intros k H; destruct k; simpl in *; try discriminate.
  - inversion H; reflexivity.
  - f_equal. apply IHl. exact H.
Qed.

Lemma amin_app T b1 b2 : amin T (b1 ++ b2) = amin T b1 && amin T b2.
Proof. unfold amin. apply forallb_app. Qed.

Lemma is_minimum_spec t basis : Forall (fun b => length b = length t) basis ->
  forall n, (n <= length basis)%nat -> is_minimum t basis n = Ok (amin t (firstn n basis)).
Proof.
  intros Hall. induction n as [|k IH]; intros Hn.
  - reflexivity.
  - cbn [is_minimum].
    destruct (nth_error basis k) as [bk|] eqn:Hk; [|apply nth_error_None in Hk; lia].
    assert (L : length bk = length t).
    { rewrite Forall_forall in Hall. apply Hall. eapply nth_error_In; eauto. }
    rewrite (order_spec t basis k bk Hk L). cbn [bind].
    rewrite (firstn_snoc _ _ _ Hk), amin_app. unfold amin at 2. cbn [forallb].
    rewrite Bool.andb_true_r.
    destruct (lt_vecb bk t); cbn [negb].
    + rewrite Bool.andb_false_r. reflexivity.
    + rewrite Bool.andb_true_r. apply IH. lia.
Qed.

Lemma is_minimum_full t basis : Forall (fun b => length b = length t) basis ->
  is_minimum t basis (length basis) = Ok (amin t basis).
Proof.
  intros. rewrite is_minimum_spec by auto. rewrite firstn_all. reflexivity.
Qed.

(* ---------- load_F / store_F / init_frozen ---------- *)
Lemma load_F_spec (Frozen : list (list bool)) n row : nth_error Frozen n = Some row ->
  forall r2 r1 f1 f2, row = r1 ++ r2 -> length r1 = length f1 -> length r2 = length f2 ->
  load_F Frozen n (f1 ++ f2) (length f1) (length f2) = Ok (f1 ++ r2).
Proof.
  intros Hn. induction r2 as [|x r2 IH]; intros r1 f1 f2 E L1 L2.
  - destruct f2; [|discriminate]. reflexivity.
  - destruct f2 as [|y f2]; [discriminate|].
    cbn [load_F length]. rewrite (vget_nth_error _ _ _ Hn). cbn [bind].
    subst row. rewrite <- L1, vget_app. cbn [bind]. rewrite L1, vset_app. cbn [bind].
    replace (S (length f1)) with (length (f1 ++ [x])) by (rewrite app_length; simpl; lia).
    replace (f1 ++ x :: f2) with ((f1 ++ [x]) ++ f2) by (rewrite <- app_assoc; reflexivity).
    rewrite (IH (r1 ++ [x]) (f1 ++ [x]) f2).
    + rewrite <- app_assoc. reflexivity.
    + rewrite <- app_assoc. reflexivity.
    + rewrite !app_length. simpl. lia.
    + simpl in L2. lia.
Qed.

Lemma load_F_full (Frozen : list (list bool)) n row F : nth_error Frozen n = Some row ->
  length row = length F -> load_F Frozen n F 0 (length F) = Ok row.
Proof.
  intros Hn L. change 0%nat with (@length bool []). change F with ([] ++ F) at 1.
  rewrite (load_F_spec Frozen n row Hn row [] [] F); auto.
Qed.

Lemma set_nth_same {T} (l : list T) m x : nth_error l m = Some x -> set_nth l m x = l.
Proof.
  revert m; induction l; intros m H; destruct m; simpl in *; try discriminate.
  - inversion H; reflexivity.
  - f_equal. apply IHl. exact H.
Qed.

Lemma nth_error_lt {T} (l : list T) m x : nth_error l m = Some x -> (m < length l)%nat.
Proof. intros H. apply nth_error_Some. congruence. Qed.

Lemma store_F_spec (F : list bool) m :
  forall f2 (Frozen : list (list bool)) w1 w2 f1, nth_error Frozen m = Some (w1 ++ w2) -> F = f1 ++ f2 ->
  length w1 = length f1 -> length w2 = length f2 ->
  store_F Frozen m F (length f1) (length f2) = Ok (set_nth Frozen m (w1 ++ f2)).
Proof.
  induction f2 as [|x f2 IH]; intros Frozen w1 w2 f1 Hm EF L1 L2.
  - destruct w2; [|discriminate]. simpl. rewrite set_nth_same; auto.
  - destruct w2 as [|y w2]; [discriminate|].
    cbn [store_F length]. subst F. rewrite vget_app. cbn [bind].
    rewrite (vget_nth_error _ _ _ Hm). cbn [bind].
    rewrite <- L1, vset_app. cbn [bind].
    rewrite vset_ok by (eapply nth_error_lt; eauto). cbn [bind].
    replace (S (length w1)) with (length (f1 ++ [x])) by (rewrite app_length; simpl; lia).
    rewrite (IH (set_nth Frozen m (w1 ++ x :: w2)) (w1 ++ [x]) w2 (f1 ++ [x])).
    + rewrite set_nth_set_nth. rewrite <- app_assoc. reflexivity.
    + rewrite nth_error_set_nth_eq by (eapply nth_error_lt; eauto). rewrite <- app_assoc. reflexivity.
    + rewrite <- app_assoc. reflexivity.
    + rewrite !app_length. simpl. lia.
    + simpl in L2. lia.
Qed.

Lemma store_F_full (F : list bool) m (Frozen : list (list bool)) row : nth_error Frozen m = Some row ->
  length row = length F -> store_F Frozen m F 0 (length F) = Ok (set_nth Frozen m F).
Proof.
  intros Hm L. change 0%nat with (@length bool []).
  rewrite (store_F_spec F m F Frozen [] row []); auto.
Qed.

Lemma init_frozen_spec :
  forall w2 (Frozen : list (list bool)) w1, nth_error Frozen 0 = Some (w1 ++ w2) ->
  init_frozen Frozen (length w1) (length w2) = Ok (set_nth Frozen 0 (w1 ++ repeat false (length w2))).
Proof.
  induction w2 as [|y w2 IH]; intros Frozen w1 H0.
  - simpl. rewrite set_nth_same; auto.
  - cbn [init_frozen length]. rewrite (vget_nth_error _ _ _ H0). cbn [bind].
    rewrite vset_app. cbn [bind].
    rewrite vset_ok by (eapply nth_error_lt; eauto). cbn [bind].
    replace (S (length w1)) with (length (w1 ++ [false])) by (rewrite app_length; simpl; lia).
    rewrite (IH (set_nth Frozen 0 (w1 ++ false :: w2)) (w1 ++ [false])).
    + rewrite set_nth_set_nth. rewrite <- app_assoc. reflexivity.
    + rewrite nth_error_set_nth_eq by (eapply nth_error_lt; eauto). rewrite <- app_assoc. reflexivity.
Qed.
