(* C39 -- atoms<...> is complete up to the library's equality: every selected subexpression
   of e is represented in atoms(e) by a tree related to it by the equivalence closure of
   "eq (either orientation) or RCPBasicKeyLess-equivalent".  (On well-formed trees C01 / C02 prove
   that this closure is eq itself.) *)
From SE Require Export C39.AtomsArgs.
From Coq Require Import Lia Relations.
Local Open Scope N_scope.

Inductive subarg_n : nat -> expr -> expr -> Prop :=
| SN_0 : forall e, subarg_n 0 e e
| SN_S : forall n x p e, In p (get_args e) -> subarg_n n x p -> subarg_n (S n) x e.
Lemma subarg_subarg_n : forall x e, subarg x e -> exists n, subarg_n n x e.
Proof.
  intros x e H. induction H; [exists 0%nat; constructor|]. destruct IHsubarg as [n Hn]. exists (S n). econstructor; eauto.
Qed.
Lemma subarg_n_subarg : forall n x e, subarg_n n x e -> subarg x e.
Proof. intros n x e H. induction H; [apply SA_refl|eapply SA_step; eauto]. Qed.

Lemma subarg_tree_ok : forall x e, subarg x e -> tree_ok e = true -> tree_ok x = true.
Proof. intros x e H. induction H; auto. intros He. apply IHsubarg. eapply tree_ok_args; eauto. Qed.
Lemma subarg_nums_ok : forall x e, subarg x e -> nums_ok e = true -> nums_ok x = true.
Proof. intros x e H. induction H; auto. intros He. apply IHsubarg. eapply nums_ok_args; eauto. Qed.

(* eq trees have eq subexpressions at every depth *)
Lemma sim_subarg : forall n p q x, tree_ok p = true -> tree_ok q = true -> nums_ok p = true -> nums_ok q = true ->
  eqs p q -> subarg_n n x p -> exists x', subarg_n n x' q /\ eqs x x'.
Proof.
  induction n as [|n IH]; intros p q x Tp Tq Np Nq He H; inversion H; subst.
  - exists q. split; [constructor|exact He].
  - destruct (args_sim p q Tp Tq Np Nq He p0 H1) as (q' & Hq' & Hs).
    destruct (IH p0 q' x (tree_ok_args _ _ Tp H1) (tree_ok_args _ _ Tq Hq') (nums_ok_args _ _ Np H1) (nums_ok_args _ _ Nq Hq') Hs H2)
      as (x' & Hx' & Hxs).
    exists x'. split; [econstructor; eauto|exact Hxs].
Qed.

Lemma sel_match_eqs : forall ks x y, eqs x y -> sel_match ks x = sel_match ks y.
Proof. intros ks x y [H|H]; [apply sel_match_cong; exact H|symmetry; apply sel_match_cong; exact H]. Qed.

(* the library's equality, closed to an equivalence *)
Definition same1 (a b : expr) : Prop := eqs a b \/ set_equiv (mk_hx a) (mk_hx b) = true.
Definition same : expr -> expr -> Prop := clos_refl_sym_trans expr same1.

Theorem atoms_complete : forall ks e x, tree_ok e = true -> nums_ok e = true ->
  subarg x e -> sel_match ks x = true -> exists y, In y (atoms ks e) /\ same x y.
Proof.
  intros ks e x Te Ne Hsub Hsel. unfold atoms, atoms_st.
  destruct (at_post_aux ks (weight e) (mk_hx e) v_empty (le_n _) (mk_hx_ok e)) as (_ & _ & P3 & P4).
  destruct (at_sound_aux ks e (weight e) (mk_hx e) v_empty (le_n _) (mk_hx_ok e) (SA_refl e) (a_sound_empty ks e))
    as ((Q1 & Q2) & _).
  cbn [snd mk_hx] in *. set (st := at_visit ks (weight e) (mk_hx e) v_empty) in *.
  assert (ALL : forall r, (r = e \/ In r (map snd (vs_v st))) -> a_done ks (vs_v st) (vs_s st) r /\ subarg r e).
  { intros r [->|Hr]; [split; [exact P3|apply SA_refl]|].
    apply in_map_iff in Hr. destruct Hr as (y & <- & Hy). split; [|apply Q2; exact Hy].
    destruct (P4 y Hy) as [[]|Hd]. exact Hd. }
  assert (COVER : forall n r z, (r = e \/ In r (map snd (vs_v st))) -> subarg_n n z r -> sel_match ks z = true ->
             exists y, In y (vs_s st) /\ same z (snd y)).
  { induction n as [|n IH]; intros r z Hr Hz Hselz; inversion Hz; subst.
    - destruct (ALL r Hr) as [[D1 _] _]. destruct (D1 Hselz) as (y & Hy & Hc). exists y. split; [exact Hy|].
      destruct Hc as [->|Hc]; [apply rst_refl|].
      destruct (Q1 y Hy) as (Y1 & _). rewrite (hx_ok_eq y Y1) in Hc. cbn [snd mk_hx] in Hc.
      apply rst_sym. apply rst_step. right. exact Hc.
    - destruct (ALL r Hr) as [[_ D2] Hre]. destruct (D2 p H0) as (q & Hq & Hc).
      destruct (Q2 q Hq) as (_ & Hqe).
      destruct Hc as [Hc|[_ Hc]].
      + apply (IH p z); [right; rewrite <- Hc; apply in_map; exact Hq|exact H1|exact Hselz].
      + assert (Hpe : subarg p e) by (eapply subarg_trans; [apply subarg_arg; exact H0|exact Hre]).
        destruct (sim_subarg n p (snd q) z (subarg_tree_ok _ _ Hpe Te) (subarg_tree_ok _ _ Hqe Te)
                    (subarg_nums_ok _ _ Hpe Ne) (subarg_nums_ok _ _ Hqe Ne) (or_introl Hc) H1) as (z' & Hz' & Hs).
        destruct (IH (snd q) z') as (y & Hy & Hsame).
        * right. apply in_map. exact Hq.
        * exact Hz'.
        * rewrite <- (sel_match_eqs ks z z' Hs). exact Hselz.
        * exists y. split; [exact Hy|]. eapply rst_trans; [apply rst_step; left; exact Hs|exact Hsame]. }
  destruct (subarg_subarg_n x e Hsub) as [n Hn].
  destruct (COVER n e x (or_introl eq_refl) Hn Hsel) as (y & Hy & Hsame).
  exists (snd y). split; [apply in_map; exact Hy|exact Hsame].
Qed.

Theorem function_symbols_complete : forall e nm args, tree_ok e = true -> nums_ok e = true ->
  subarg (EFunSym nm args) e -> exists y, In y (function_symbols e) /\ same (EFunSym nm args) y.
Proof. intros. apply atoms_complete; auto. Qed.
