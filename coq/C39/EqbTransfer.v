(* C39 -- the library's eq preserves occurrences: if eq(p, q) then a symbol occurs in p
   (mode without set binders, any cost bound) iff it occurs in q.  This is what makes the memo
   set of FreeSymbolsVisitor harmless.  The Add case needs the two dictionaries to be in
   bijection; it is obtained from "the keys of one dictionary have pairwise different hashes"
   (tree_ok) by the pigeonhole principle -- no symmetry/transitivity of eq is assumed. *)
From SE Require Export C39.FsSound.
From SE Require Import Expr.Unfold.
From Coq Require Import Lia.
Local Open Scope N_scope.

(* ---------- raw children and tree_ok ---------- *)
Definition rchildren (e : expr) : list expr :=
  match e with
  | ENum _ | ESym _ | EDummy _ _ | EConst _ | EBool _ | EAtom _ => []
  | EAdd _ d => map fst d
  | EMul _ d => flat d
  | EPow b x => [b; x]
  | EF1 _ a => [a]
  | EF2 _ a b => [a; b]
  | EFN _ l => l
  | EFunSym _ l => l
  | ELex _ a b => [a; b]
  | EDeriv a l => a :: l
  | ESubs a d => a :: flat d
  | EPw l => flat l
  | EInterval s x _ _ => [s; x]
  end.

Lemma existsb_flat : forall (f : expr -> bool) l,
  existsb (fun q => f (fst q) || f (snd q)) l = existsb f (flat l).
Proof.
  induction l as [|[k v] l IH]; [reflexivity|]. unfold flat in *. cbn [existsb flat_map app fst snd].
  rewrite IH. rewrite orb_assoc. reflexivity.
Qed.
Lemma existsb_keys : forall (f : expr -> bool) (l : list (expr * number)),
  existsb (fun q => f (fst q)) l = existsb f (map fst l).
Proof. induction l as [|[k v] l IH]; [reflexivity|]. cbn [existsb map fst]. rewrite IH. reflexivity. Qed.

Lemma any_node_children : forall p e, any_node p e = p e || existsb (any_node p) (rchildren e).
Proof.
  intros p e. destruct e; cbn [any_node rchildren existsb]; rewrite ?orb_false_r; try reflexivity.
  - rewrite existsb_keys. reflexivity.
  - rewrite existsb_flat. reflexivity.
  - rewrite existsb_flat. reflexivity.
  - rewrite existsb_flat. reflexivity.
Qed.

Lemma tree_ok_node : forall e, tree_ok e = true -> bad_node e = false.
Proof.
  intros e. unfold tree_ok. rewrite any_node_children. intros H. apply negb_true_iff in H.
  apply orb_false_iff in H. tauto.
Qed.
Lemma tree_ok_child : forall e c, tree_ok e = true -> In c (rchildren e) -> tree_ok c = true.
Proof.
  intros e c. unfold tree_ok. rewrite any_node_children. intros H Hin. apply negb_true_iff in H.
  apply orb_false_iff in H. destruct H as [_ H]. apply negb_true_iff.
  destruct (any_node bad_node c) eqn:E; [|reflexivity].
  assert (existsb (any_node bad_node) (rchildren e) = true) by (apply existsb_exists; exists c; auto).
  congruence.
Qed.
Lemma in_flat_l : forall (k v : expr) d, In (k, v) d -> In k (flat d).
Proof. intros. unfold flat. apply in_flat_map. exists (k, v). split; [assumption|left; reflexivity]. Qed.
Lemma in_flat_r : forall (k v : expr) d, In (k, v) d -> In v (flat d).
Proof. intros. unfold flat. apply in_flat_map. exists (k, v). split; [assumption|right; left; reflexivity]. Qed.

(* ---------- positionwise lists ---------- *)
Lemma list_eqb_in_l : forall r l1 l2, list_eqb r l1 l2 = true ->
  forall a, In a l1 -> exists b, In b l2 /\ r a b = true.
Proof.
  induction l1 as [|x l1 IH]; destruct l2 as [|y l2]; cbn [list_eqb]; intros H a Ha; try discriminate; [destruct Ha|].
  apply andb_true_iff in H. destruct H as [H1 H2]. destruct Ha as [<-|Ha].
  - exists y. split; [left; reflexivity|exact H1].
  - destruct (IH l2 H2 a Ha) as (b & Hb & Hr). exists b. split; [right; exact Hb|exact Hr].
Qed.
Lemma list_eqb_in_r : forall r l1 l2, list_eqb r l1 l2 = true ->
  forall b, In b l2 -> exists a, In a l1 /\ r a b = true.
Proof.
  induction l1 as [|x l1 IH]; destruct l2 as [|y l2]; cbn [list_eqb]; intros H b Hb; try discriminate; [destruct Hb|].
  apply andb_true_iff in H. destruct H as [H1 H2]. destruct Hb as [<-|Hb].
  - exists x. split; [left; reflexivity|exact H1].
  - destruct (IH l2 H2 b Hb) as (a & Ha & Hr). exists a. split; [right; exact Ha|exact Hr].
Qed.
Lemma pairs_eqb_in_l : forall r d1 d2, pairs_eqb r d1 d2 = true ->
  forall k v, In (k, v) d1 -> exists k' v', In (k', v') d2 /\ r k k' = true /\ r v v' = true.
Proof.
  induction d1 as [|[k1 v1] d1 IH]; destruct d2 as [|[k2 v2] d2]; cbn [pairs_eqb]; intros H k v Hin;
    try discriminate; [destruct Hin|].
  apply andb_true_iff in H. destruct H as [H12 H3]. apply andb_true_iff in H12. destruct H12 as [H1 H2].
  destruct Hin as [Hin|Hin].
  - inversion Hin; subst. exists k2, v2. split; [left; reflexivity|auto].
  - destruct (IH d2 H3 k v Hin) as (k' & v' & Hin' & Hr). exists k', v'. split; [right; exact Hin'|exact Hr].
Qed.
Lemma pairs_eqb_in_r : forall r d1 d2, pairs_eqb r d1 d2 = true ->
  forall k' v', In (k', v') d2 -> exists k v, In (k, v) d1 /\ r k k' = true /\ r v v' = true.
Proof.
  induction d1 as [|[k1 v1] d1 IH]; destruct d2 as [|[k2 v2] d2]; cbn [pairs_eqb]; intros H k v Hin;
    try discriminate; [destruct Hin|].
  apply andb_true_iff in H. destruct H as [H12 H3]. apply andb_true_iff in H12. destruct H12 as [H1 H2].
  destruct Hin as [Hin|Hin].
  - inversion Hin; subst. exists k1, v1. split; [left; reflexivity|auto].
  - destruct (IH d2 H3 k v Hin) as (k' & v' & Hin' & Hr). exists k', v'. split; [right; exact Hin'|exact Hr].
Qed.
(* Subs: with Symbol variables on the left, eq dictionaries have the same variables *)
Lemma pairs_eqb_keys_sym : forall d1 d2, pairs_eqb expr_eqb d1 d2 = true ->
  (forall k v, In (k, v) d1 -> is_sym k = true) -> map fst d2 = map fst d1.
Proof.
  induction d1 as [|[k1 v1] d1 IH]; destruct d2 as [|[k2 v2] d2]; cbn [pairs_eqb]; intros H Hs;
    try discriminate; [reflexivity|].
  apply andb_true_iff in H. destruct H as [H12 H3]. apply andb_true_iff in H12. destruct H12 as [H1 H2].
  cbn [map fst]. f_equal.
  - apply (sym_eqb_l k1 k2); [eapply Hs; left; reflexivity|exact H1].
  - apply IH; [exact H3|]. intros k v Hin. eapply Hs. right. exact Hin.
Qed.
Lemma pairs_eqb_keys_sym_r : forall d1 d2, pairs_eqb expr_eqb d1 d2 = true ->
  (forall k v, In (k, v) d2 -> is_sym k = true) -> map fst d2 = map fst d1.
Proof.
  induction d1 as [|[k1 v1] d1 IH]; destruct d2 as [|[k2 v2] d2]; cbn [pairs_eqb]; intros H Hs;
    try discriminate; [reflexivity|].
  apply andb_true_iff in H. destruct H as [H12 H3]. apply andb_true_iff in H12. destruct H12 as [H1 H2].
  cbn [map fst]. f_equal.
  - symmetry. apply (sym_eqb_r k2 k1); [eapply Hs; left; reflexivity|exact H1].
  - apply IH; [exact H3|]. intros k v Hin. eapply Hs. right. exact Hin.
Qed.

(* ---------- unordered dictionaries ---------- *)
Lemma umap_find_some : forall r k d v, umap_find r k d = Some v ->
  exists k', In (k', v) d /\ hash k' = hash k /\ r k' k = true.
Proof.
  induction d as [|[k' v'] d IH]; cbn [umap_find]; intros v H; [discriminate|].
  destruct ((hash k' =? hash k) && r k' k) eqn:E.
  - inversion H; subst. apply andb_true_iff in E. destruct E as [E1 E2]. apply N.eqb_eq in E1.
    exists k'. split; [left; reflexivity|auto].
  - destruct (IH v H) as (k2 & Hin & Hh). exists k2. split; [right; exact Hin|exact Hh].
Qed.
Lemma umap_eqb_fwd : forall r d1 d2, umap_eqb r d1 d2 = true ->
  forall k1 v1, In (k1, v1) d1 -> exists k2 v2, In (k2, v2) d2 /\ hash k2 = hash k1 /\ r k2 k1 = true.
Proof.
  intros r d1 d2 H k1 v1 Hin. unfold umap_eqb in H. apply andb_true_iff in H. destruct H as [_ H].
  rewrite forallb_forall in H. specialize (H _ Hin). cbn [fst snd] in H.
  destruct (umap_find r k1 d2) as [v2|] eqn:E; [|discriminate].
  apply umap_find_some in E. destruct E as (k2 & Hin2 & Hh). exists k2, v2. auto.
Qed.

Lemma nodupN_NoDup : forall l, nodupN l = true -> NoDup l.
Proof.
  induction l as [|x l IH]; cbn [nodupN]; intros H; [constructor|].
  apply andb_true_iff in H. destruct H as [H1 H2]. constructor; [|apply IH; exact H2].
  intros Hin. apply negb_true_iff in H1.
  assert (existsb (N.eqb x) l = true) by (apply existsb_exists; exists x; split; [exact Hin|apply N.eqb_refl]).
  congruence.
Qed.
Lemma NoDup_map_inj : forall {A B} (f : A -> B) l a b, NoDup (map f l) -> In a l -> In b l -> f a = f b -> a = b.
Proof.
  induction l as [|x l IH]; intros a b Hnd Ha Hb Hf; [destruct Ha|].
  cbn [map] in Hnd. inversion Hnd as [|? ? Hnot Hnd']; subst.
  destruct Ha as [->|Ha]; destruct Hb as [->|Hb]; auto.
  - exfalso. apply Hnot. rewrite Hf. apply in_map. exact Hb.
  - exfalso. apply Hnot. rewrite <- Hf. apply in_map. exact Ha.
Qed.

(* the pigeonhole step: every key of d2 is the partner of a key of d1 *)
Lemma umap_eqb_bwd : forall r d1 d2, umap_eqb r d1 d2 = true ->
  NoDup (map (fun p => hash (fst p)) d1) -> NoDup (map (fun p => hash (fst p)) d2) ->
  forall k2 v2, In (k2, v2) d2 -> exists k1 v1, In (k1, v1) d1 /\ hash k2 = hash k1 /\ r k2 k1 = true.
Proof.
  intros r d1 d2 H N1 N2 k2 v2 Hin2.
  pose proof (umap_eqb_fwd r d1 d2 H) as F.
  unfold umap_eqb in H. apply andb_true_iff in H. destruct H as [HL _]. apply Nat.eqb_eq in HL.
  set (h := fun p : expr * number => hash (fst p)) in *.
  assert (I12 : incl (map h d1) (map h d2)).
  { intros x Hx. apply in_map_iff in Hx. destruct Hx as ([k1 v1] & <- & Hin1).
    destruct (F k1 v1 Hin1) as (k' & v' & Hin' & Hh & _). apply in_map_iff. exists (k', v'). split; [exact Hh|exact Hin']. }
  assert (I21 : incl (map h d2) (map h d1)).
  { apply NoDup_length_incl; [exact N1| |exact I12]. rewrite !map_length. lia. }
  assert (Hx : In (h (k2, v2)) (map h d1)) by (apply I21; apply in_map; exact Hin2).
  apply in_map_iff in Hx. destruct Hx as ([k1 v1] & Hh1 & Hin1).
  destruct (F k1 v1 Hin1) as (k' & v' & Hin' & Hh' & Hr).
  assert (E : (k', v') = (k2, v2)).
  { apply (NoDup_map_inj h d2); auto. unfold h in *. cbn [fst] in *. congruence. }
  inversion E; subst. exists k1, v1. split; [exact Hin1|]. split; [unfold h in Hh1; cbn [fst] in Hh1; congruence|exact Hr].
Qed.

(* ---------- the transfer theorem ---------- *)
Lemma bad_add : forall c d, bad_node (EAdd c d) = false ->
  NoDup (map (fun p => hash (fst p)) d) /\ (forall k v, In (k, v) d -> nis_zero v = false).
Proof.
  intros c d H. cbn [bad_node] in H. apply orb_false_iff in H. destruct H as [H1 H2].
  apply negb_false_iff in H2. split; [apply nodupN_NoDup; exact H2|].
  intros k v Hin. destruct (nis_zero v) eqn:E; [|reflexivity].
  assert (existsb (fun p : expr * number => nis_zero (snd p)) d = true) by (apply existsb_exists; exists (k, v); auto).
  congruence.
Qed.
Lemma bad_subs : forall a d, bad_node (ESubs a d) = false -> forall k v, In (k, v) d -> is_sym k = true.
Proof.
  intros a d H k v Hin. cbn [bad_node] in H. destruct (is_sym k) eqn:E; [reflexivity|].
  assert (existsb (fun p : expr * expr => negb (is_sym (fst p))) d = true).
  { apply existsb_exists. exists (k, v). split; [exact Hin|]. cbn [fst]. rewrite E. reflexivity. }
  congruence.
Qed.

Theorem eqb_occn : forall B, b_sets B = false -> forall n p q s,
  tree_ok p = true -> tree_ok q = true -> expr_eqb p q = true ->
  (occn B s n p <-> occn B s n q).
Proof.
  intros B HB n. induction n as [n IHn] using lt_wf_ind. intros p q s Hp Hq He.
  destruct n as [|m]; [cbn [occn]; tauto|].
  assert (IH : forall j, (j <= m)%nat -> forall a b, In a (rchildren p) -> In b (rchildren q) ->
                 expr_eqb a b = true -> (occn B s j a <-> occn B s j b)).
  { intros j Hj a b Ha Hb Hab. apply IHn; [lia|eapply tree_ok_child; [exact Hp|exact Ha]|eapply tree_ok_child; [exact Hq|exact Hb]|exact Hab]. }
  assert (IH' : forall j, (j <= m)%nat -> forall a b, In a (rchildren p) -> In b (rchildren q) ->
                 expr_eqb b a = true -> (occn B s j a <-> occn B s j b)).
  { intros j Hj a b Ha Hb Hab. symmetry. apply IHn; [lia|eapply tree_ok_child; [exact Hq|exact Hb]|eapply tree_ok_child; [exact Hp|exact Ha]|exact Hab]. }
  cbn [occn].
  assert (SYM : (is_sym s = true /\ p = s) <-> (is_sym s = true /\ q = s)).
  { split; intros [Hs ->]; (split; [exact Hs|]).
    - apply (sym_eqb_l s q Hs He).
    - apply (sym_eqb_r s p Hs He). }
  rewrite expr_eqb_unfold in He.
  destruct p; destruct q; cbn [eqb_body] in He; try discriminate; cbn [rchildren] in IH, IH';
    try (rewrite SYM; tauto).
  - (* Add *)
    apply andb_true_iff in He. destruct He as [_ He].
    destruct (bad_add _ _ (tree_ok_node _ Hp)) as [N1 _]. destruct (bad_add _ _ (tree_ok_node _ Hq)) as [N2 _].
    rewrite SYM. apply or_iff_compat_l.
    destruct m as [|[|m']]; try tauto.
    split; intros (k & v & Hin & Hk).
    + destruct (umap_eqb_fwd _ _ _ He k v Hin) as (k2 & v2 & Hin2 & _ & Hr).
      exists k2, v2. split; [exact Hin2|]. apply (IH' m' ltac:(lia) k k2); auto.
      * apply in_map_iff. exists (k, v). auto.
      * apply in_map_iff. exists (k2, v2). auto.
    + destruct (umap_eqb_bwd _ _ _ He N1 N2 k v Hin) as (k1 & v1 & Hin1 & _ & Hr).
      exists k1, v1. split; [exact Hin1|]. apply (IH' m' ltac:(lia) k1 k); auto.
      * apply in_map_iff. exists (k1, v1). auto.
      * apply in_map_iff. exists (k, v). auto.
  - (* Mul *)
    apply andb_true_iff in He. destruct He as [_ He]. rewrite <- pairs_eqb_flat in He.
    rewrite SYM. apply or_iff_compat_l.
    destruct m as [|m']; try tauto.
    split; intros (k & v & Hin & Hk).
    + destruct (pairs_eqb_in_l _ _ _ He k v Hin) as (k' & v' & Hin' & Hr1 & Hr2).
      exists k', v'. split; [exact Hin'|].
      destruct Hk as [Hk|Hk]; [left; apply (IH m' ltac:(lia) k k')|right; apply (IH m' ltac:(lia) v v')];
        eauto using in_flat_l, in_flat_r.
    + destruct (pairs_eqb_in_r _ _ _ He k v Hin) as (k' & v' & Hin' & Hr1 & Hr2).
      exists k', v'. split; [exact Hin'|].
      destruct Hk as [Hk|Hk]; [left; apply (IH m' ltac:(lia) k' k)|right; apply (IH m' ltac:(lia) v' v)];
        eauto using in_flat_l, in_flat_r.
  - (* Pow *)
    apply andb_true_iff in He. destruct He as [H1 H2]. rewrite SYM. apply or_iff_compat_l.
    rewrite (IH m (le_n _) p1 q1), (IH m (le_n _) p2 q2); cbn [In]; auto; tauto.
  - (* F1 *)
    apply andb_true_iff in He. destruct He as [_ H1]. rewrite SYM. apply or_iff_compat_l.
    apply (IH m (le_n _)); cbn [In]; auto.
  - (* F2 *)
    apply andb_true_iff in He. destruct He as [He H2]. apply andb_true_iff in He. destruct He as [_ H1].
    rewrite SYM. apply or_iff_compat_l.
    rewrite (IH m (le_n _) p1 q1), (IH m (le_n _) p2 q2); cbn [In]; auto; tauto.
  - (* FN *)
    apply andb_true_iff in He. destruct He as [_ He]. rewrite SYM. apply or_iff_compat_l.
    unfold set_binder_node. rewrite HB. cbn [andb].
    split; intros (a & Hin & Ha).
    + destruct (list_eqb_in_l _ _ _ He a Hin) as (b & Hb & Hr). exists b. split; [exact Hb|]. apply (IH m (le_n _) a b); auto.
    + destruct (list_eqb_in_r _ _ _ He a Hin) as (b & Hb & Hr). exists b. split; [exact Hb|]. apply (IH m (le_n _) b a); auto.
  - (* FunSym *)
    apply andb_true_iff in He. destruct He as [_ He]. rewrite SYM. apply or_iff_compat_l.
    split; intros (a & Hin & Ha).
    + destruct (list_eqb_in_l _ _ _ He a Hin) as (b & Hb & Hr). exists b. split; [exact Hb|]. apply (IH m (le_n _) a b); auto.
    + destruct (list_eqb_in_r _ _ _ He a Hin) as (b & Hb & Hr). exists b. split; [exact Hb|]. apply (IH m (le_n _) b a); auto.
  - (* Lex *)
    apply andb_true_iff in He. destruct He as [He H2]. apply andb_true_iff in He. destruct He as [_ H1].
    rewrite SYM. apply or_iff_compat_l.
    rewrite (IH m (le_n _) p1 q1), (IH m (le_n _) p2 q2); cbn [In]; auto; tauto.
  - (* Deriv *)
    apply andb_true_iff in He. destruct He as [H1 He]. rewrite SYM. apply or_iff_compat_l.
    rewrite (IH m (le_n _) p q) by (cbn [In]; auto). apply or_iff_compat_l.
    split; intros (a & Hin & Ha).
    + destruct (list_eqb_in_l _ _ _ He a Hin) as (b & Hb & Hr). exists b. split; [exact Hb|].
      apply (IH m (le_n _) a b); cbn [In]; auto.
    + destruct (list_eqb_in_r _ _ _ He a Hin) as (b & Hb & Hr). exists b. split; [exact Hb|].
      apply (IH m (le_n _) b a); cbn [In]; auto.
  - (* Subs *)
    apply andb_true_iff in He. destruct He as [H1 He]. rewrite <- pairs_eqb_flat in He.
    pose proof (pairs_eqb_keys_sym _ _ He (bad_subs _ _ (tree_ok_node _ Hp))) as Hkeys.
    rewrite SYM. apply or_iff_compat_l.
    rewrite (IH m (le_n _) p q) by (cbn [In]; auto). rewrite Hkeys.
    apply or_iff_compat_l.
    assert (P1 : forall k v, In (k, v) d -> In k (p :: flat d) /\ In v (p :: flat d))
      by (intros; split; right; eauto using in_flat_l, in_flat_r).
    assert (P2 : forall k v, In (k, v) d0 -> In k (q :: flat d0) /\ In v (q :: flat d0))
      by (intros; split; right; eauto using in_flat_l, in_flat_r).
    split.
    + intros [[Hb (k & v & Hin & Hk)]|(k & v & Hin & Hk)];
        destruct (pairs_eqb_in_l _ _ _ He k v Hin) as (k' & v' & Hin' & Hr1 & Hr2).
      * left. split; [exact Hb|]. exists k', v'. split; [exact Hin'|].
        apply (IH m (le_n _) k k'); auto; [apply (P1 k v Hin)|apply (P2 k' v' Hin')].
      * right. exists k', v'. split; [exact Hin'|].
        apply (IH m (le_n _) v v'); auto; [apply (P1 k v Hin)|apply (P2 k' v' Hin')].
    + intros [[Hb (k & v & Hin & Hk)]|(k & v & Hin & Hk)];
        destruct (pairs_eqb_in_r _ _ _ He k v Hin) as (k' & v' & Hin' & Hr1 & Hr2).
      * left. split; [exact Hb|]. exists k', v'. split; [exact Hin'|].
        apply (IH m (le_n _) k' k); auto; [apply (P1 k' v' Hin')|apply (P2 k v Hin)].
      * right. exists k', v'. split; [exact Hin'|].
        apply (IH m (le_n _) v' v); auto; [apply (P1 k' v' Hin')|apply (P2 k v Hin)].
  - (* Pw *)
    rewrite <- pairs_eqb_flat in He. rewrite SYM. apply or_iff_compat_l.
    split; intros (x & c & Hin & Hk).
    + destruct (pairs_eqb_in_l _ _ _ He x c Hin) as (x' & c' & Hin' & Hr1 & Hr2).
      exists x', c'. split; [exact Hin'|].
      destruct Hk as [Hk|Hk]; [left; apply (IH m (le_n _) x x')|right; apply (IH m (le_n _) c c')];
        eauto using in_flat_l, in_flat_r.
    + destruct (pairs_eqb_in_r _ _ _ He x c Hin) as (x' & c' & Hin' & Hr1 & Hr2).
      exists x', c'. split; [exact Hin'|].
      destruct Hk as [Hk|Hk]; [left; apply (IH m (le_n _) x' x)|right; apply (IH m (le_n _) c' c)];
        eauto using in_flat_l, in_flat_r.
  - (* Interval *)
    apply andb_true_iff in He. destruct He as [He H2]. apply andb_true_iff in He. destruct He as [_ H1].
    rewrite SYM. apply or_iff_compat_l.
    rewrite (IH m (le_n _) p1 q1), (IH m (le_n _) p2 q2); cbn [In]; auto; tauto.
Qed.
