(* C39 obligation: for a Symbol x, has_symbol(b, x) is "x occurs somewhere in b", bound
   positions included. *)
From SE Require Import C39.HasSym.
Theorem C39_has_symbol_occurs :
  forall b x, tree_ok b = true -> is_sym x = true ->
  (has_symbol b x = Some true <-> occurs_any x b).
Proof. exact has_symbol_occurs_any. Qed.
Print Assumptions C39_has_symbol_occurs.
