(* C39 obligation: the fuel of the modelled traversals is always enough (ErrFuel unreachable). *)
From SE Require Import C39.Atoms.
Theorem C39_traversals_terminate :
  (forall e, vs_out (free_symbols_st e) = false) /\
  (forall ks e, vs_out (atoms_st ks e) = false) /\
  (forall b x, has_symbol b x <> None).
Proof.
  split; [exact fs_terminates|]. split; [exact atoms_terminates|].
  intros b x H. destruct (has_symbol_spec b x) as (r & Hr & _). congruence.
Qed.
Print Assumptions C39_traversals_terminate.
