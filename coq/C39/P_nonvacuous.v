(* C39: the hypotheses of the theorems are met by concrete non-trivial trees, and the model
   computes the expected answers on them (evaluated by the kernel). *)
From SE Require Import C39.CoeffProofs.
Local Open Scope N_scope.

Definition X := ESym [120].  Definition Y := ESym [121].  Definition Z_ := ESym [122].
(* 5 + 2*x**2 + 3*x*y + sin(x + y) + cos(y + x): eq Adds in different dictionary order *)
Definition e_poly : expr :=
  EAdd (NInt 5)
    [ (EPow X (ENum (NInt 2)), NInt 2);
      (EMul (NInt 1) [(X, E1); (Y, E1)], NInt 3);
      (EF1 TC_Sin (EAdd (NInt 0) [(X, NInt 1); (Y, NInt 1)]), NInt 1);
      (EF1 TC_Cos (EAdd (NInt 0) [(Y, NInt 1); (X, NInt 1)]), NInt 1) ].
Example C39_nonvacuous_free_symbols :
  tree_ok e_poly = true /\ nums_ok e_poly = true /\ guard_set_binder e_poly = false /\ guard_subs e_poly = false /\
  free_symbols e_poly = [X; Y] /\ has_symbol e_poly Y = Some true /\ has_symbol e_poly Z_ = Some false.
Proof. vm_compute. repeat split; reflexivity. Qed.

(* y * Subs(Derivative(f(x, y), x), {x: x + z}): bound variable also free in the point *)
Definition e_subs : expr :=
  EMul (NInt 1) [(Y, E1);
    (ESubs (EDeriv (EFunSym [102] [X; Y]) [X]) [(X, EAdd (NInt 0) [(X, NInt 1); (Z_, NInt 1)])], E1)].
Example C39_nonvacuous_subs :
  tree_ok e_subs = true /\ guard_set_binder e_subs = false /\ guard_subs e_subs = true /\
  (forall s, In s (free_symbols e_subs) <-> occurs_free s e_subs) /\
  length (free_symbols e_subs) = 3%nat.
Proof.
  split; [reflexivity|]. split; [reflexivity|]. split; [reflexivity|].
  split; [apply free_symbols_spec_guarded; reflexivity|vm_compute; reflexivity].
Qed.

(* atoms<Add>: the two eq sums x + y / y + x are represented by one of them (closure_exact fails) *)
Example C39_nonvacuous_atoms_same :
  atoms [KAdd] e_poly = [EAdd (NInt 0) [(X, NInt 1); (Y, NInt 1)]; e_poly] /\
  expr_eqb (EAdd (NInt 0) [(Y, NInt 1); (X, NInt 1)]) (EAdd (NInt 0) [(X, NInt 1); (Y, NInt 1)]) = true.
Proof. vm_compute. split; reflexivity. Qed.

(* atoms: f(x, g(y)) *)
Definition e_fun : expr := EFunSym [102] [X; EFunSym [103] [Y]].
Lemma subarg_leaf : forall x e, get_args e = [] -> subarg x e -> x = e.
Proof. intros x e He H. inversion H; subst; [reflexivity|]. rewrite He in H0. destruct H0. Qed.
Example C39_nonvacuous_closure_exact : closure_exact e_fun /\
  function_symbols e_fun = [EFunSym [103] [Y]; e_fun] /\ atoms [KSymbol] e_fun = [X; Y].
Proof.
  split; [|vm_compute; split; reflexivity].
  assert (SUB : forall p, subarg p e_fun -> p = e_fun \/ p = X \/ p = EFunSym [103] [Y] \/ p = Y).
  { intros p H. inversion H; subst; [auto|]. cbn [e_fun get_args In] in H0. destruct H0 as [<-|[<-|[]]].
    - apply subarg_leaf in H1; [auto|reflexivity].
    - inversion H1; subst; [auto|]. cbn [get_args In] in H0. destruct H0 as [<-|[]].
      apply subarg_leaf in H2; [auto|reflexivity]. }
  intros p q Hp Hq Hh _. apply SUB in Hp. apply SUB in Hq.
  destruct Hp as [ -> | [ -> | [ -> | -> ] ] ]; destruct Hq as [ -> | [ -> | [ -> | -> ] ] ]; try reflexivity;
    vm_compute in Hh; discriminate.
Qed.

(* coeff: p = 5 + 3*x + 2*x**2 - 4*x**7 *)
Example C39_nonvacuous_coeff :
  let l := [(1, 3); (2, 2); (7, -4)]%Z in
  (forall j a, In (j, a) l -> (1 <= j <= 7)%Z) /\
  map (fun n => coeff (upoly_expr X 5 l) X (ENum (NInt n))) [0; 1; 2; 3; 7]%Z
  = map (fun z => Ok (ENum (NInt z))) [5; 3; 2; 0; -4]%Z.
Proof.
  cbn zeta. split; [|vm_compute; reflexivity].
  intros j a [H|[H|[H|[]]]]; inversion H; subst; lia.
Qed.
Print Assumptions C39_nonvacuous_subs.
