(* C39 obligation: atoms<Args...>(e) is complete up to the library's equality: every
   subexpression of a selected class is represented in the result by a tree related to it by the
   equivalence closure of "eq (either orientation) or RCPBasicKeyLess-equivalent" -- the set and the
   memo set of the visitor work modulo exactly this.  (On well-formed trees the closure is eq
   itself: C01_eq_equivalence, C02_keyless_strict_weak_order.)
   tree_ok: no zero value / no hash collision inside one Add dictionary; nums_ok: no Rational with
   denominator 1. *)
From SE Require Import C39.AtomsComplete.
Theorem C39_atoms_complete :
  forall ks e x, tree_ok e = true -> nums_ok e = true ->
  subarg x e -> sel_match ks x = true -> exists y, In y (atoms ks e) /\ same x y.
Proof. exact atoms_complete. Qed.
Print Assumptions C39_atoms_complete.
