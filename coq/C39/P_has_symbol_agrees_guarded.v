(* C39 obligation (guarded): on trees without Subs nodes has_symbol agrees with free_symbols. *)
From SE Require Import C39.HasSym.
Theorem C39_has_symbol_agrees_guarded :
  forall e s, tree_ok e = true -> guard_subs e = false -> is_sym s = true ->
  (has_symbol e s = Some true <-> In s (free_symbols e)).
Proof. exact has_symbol_agrees_guarded. Qed.
Print Assumptions C39_has_symbol_agrees_guarded.
