(* C39 obligation (what makes the memo set of the visitors harmless): two trees that the library
   considers eq contain the same symbols at the same cost -- proved from the transcription of
   __eq__ alone (no symmetry / transitivity of eq assumed; the unordered Add dictionaries are put
   in bijection by the pigeonhole principle on their pairwise different key hashes). *)
From SE Require Import C39.EqbTransfer.
Theorem C39_eq_preserves_occurrences :
  forall B, b_sets B = false -> forall n p q s,
  tree_ok p = true -> tree_ok q = true -> expr_eqb p q = true ->
  (occn B s n p <-> occn B s n q).
Proof. exact eqb_occn. Qed.
Print Assumptions C39_eq_preserves_occurrences.
