(* C39 -- the library's eq is a congruence for get_args: if eq(p, q) (in either orientation)
   then every argument of p has a partner among the arguments of q that is eq to it (in some
   orientation) and of the same class -- also for the Mul / Pow nodes that Add::get_args and
   Mul::get_args build.  Side conditions: tree_ok (Add keys with pairwise different hashes: the
   pigeonhole step) and nums_ok (no Rational with denominator 1, so that is_one agrees on eq
   numbers). *)
From SE Require Export C39.Atoms.
From SE Require Import Expr.Unfold.
From Coq Require Import Lia.
Local Open Scope N_scope.

(* ---------- numbers ---------- *)
Lemma num_eqb_int : forall v1 v2 c, Cmp.num_eqb v1 v2 = true ->
  Cmp.num_eqb v1 (NInt c) = Cmp.num_eqb v2 (NInt c).
Proof.
  intros v1 v2 c H. destruct v1; destruct v2; cbn [Cmp.num_eqb] in *; try discriminate; try reflexivity.
  apply Z.eqb_eq in H. subst. reflexivity.
Qed.
Lemma dbl_eq_zero : forall a b, dbl_eq a b = true -> dbl_eq a 0 = dbl_eq b 0.
Proof.
  intros a b H. unfold dbl_eq in *. apply andb_true_iff in H. destruct H as [H H3].
  apply andb_true_iff in H. destruct H as [H1 H2]. rewrite H1, H2. apply Z.eqb_eq in H3. rewrite H3. reflexivity.
Qed.
Lemma nis_zero_cong : forall v1 v2, Cmp.num_eqb v1 v2 = true -> nis_zero v1 = nis_zero v2.
Proof.
  intros v1 v2 H. destruct v1; destruct v2; cbn [Cmp.num_eqb nis_zero] in *; try discriminate; try reflexivity.
  - apply Z.eqb_eq in H. subst. reflexivity.
  - unfold Qeq_pair in H. apply Z.eqb_eq in H.
    destruct (n =? 0)%Z eqn:E1; destruct (n0 =? 0)%Z eqn:E2; try reflexivity; lia.
  - apply dbl_eq_zero. exact H.
  - apply andb_true_iff in H. destruct H as [H1 H2]. rewrite (dbl_eq_zero _ _ H1), (dbl_eq_zero _ _ H2). reflexivity.
Qed.
Lemma nis_one_cong : forall v1 v2, Cmp.num_eqb v1 v2 = true -> num_ok v1 = true -> num_ok v2 = true ->
  nis_one v1 = nis_one v2.
Proof.
  intros v1 v2 H O1 O2. destruct v1; destruct v2; cbn [Cmp.num_eqb nis_one num_ok] in *; try discriminate; try reflexivity.
  - apply Z.eqb_eq in H. subst. reflexivity.
  - apply negb_true_iff in O1. apply negb_true_iff in O2. rewrite O1, O2, !andb_false_r. reflexivity.
Qed.

(* ---------- eq with an Integer ---------- *)
Lemma eqb_num_l : forall n y, expr_eqb (ENum n) y = true -> exists n', y = ENum n' /\ Cmp.num_eqb n n' = true.
Proof. intros n y. rewrite expr_eqb_unfold. destruct y; cbn [eqb_body]; try discriminate. eauto. Qed.
Lemma eqb_num_r : forall n y, expr_eqb y (ENum n) = true -> exists n', y = ENum n' /\ Cmp.num_eqb n' n = true.
Proof. intros n y. rewrite expr_eqb_unfold. destruct y; cbn [eqb_body]; try discriminate. eauto. Qed.
Lemma is_int_one_cong : forall x1 x2, expr_eqb x1 x2 = true -> is_int_one x1 = is_int_one x2.
Proof.
  intros x1 x2 H. destruct (is_int_one x1) eqn:E1.
  - destruct x1; try discriminate. destruct n; try discriminate. cbn [is_int_one] in E1.
    apply eqb_num_l in H. destruct H as (n' & -> & Hn). destruct n'; cbn [Cmp.num_eqb] in Hn; try discriminate.
    apply Z.eqb_eq in Hn. subst. cbn [is_int_one]. symmetry. exact E1.
  - destruct (is_int_one x2) eqn:E2; [|reflexivity].
    destruct x2; try discriminate. destruct n; try discriminate. cbn [is_int_one] in E2.
    apply eqb_num_r in H. destruct H as (n' & -> & Hn). destruct n'; cbn [Cmp.num_eqb] in Hn; try discriminate.
    apply Z.eqb_eq in Hn. subst. cbn [is_int_one] in E1. congruence.
Qed.

(* ---------- the built arguments, in closed form ---------- *)
Lemma mul_from_dict_single : forall v k x,
  mul_from_dict v [(k, x)] =
  if nis_zero v then ENum v
  else if nis_one v then (if is_int_one x then k else EPow k x) else EMul v [(k, x)].
Proof.
  intros. unfold mul_from_dict. destruct (nis_zero v); [reflexivity|].
  destruct x; try reflexivity. destruct n; reflexivity.
Qed.
Definition as_mul (k : expr) (v : number) : expr :=
  match k with
  | EMul _ dk => mul_from_dict v dk
  | EPow b x => EMul v [(b, x)]
  | _ => EMul v [(k, E1)]
  end.
Lemma add_single_closed : forall k v,
  add_single k v =
  if Cmp.num_eqb v (NInt 0) then ENum v else if Cmp.num_eqb v (NInt 1) then k else as_mul k v.
Proof. intros. unfold add_single, as_mul. destruct v; reflexivity. Qed.
Lemma add_term_arg_closed : forall k v,
  add_term_arg (k, v) =
  if Cmp.num_eqb v (NInt 1) then k
  else if Cmp.num_eqb v (NInt 0) then ENum v else as_mul k v.
Proof.
  intros. unfold add_term_arg, add_from_dict. cbn [fst snd nis_zero Z.eqb]. rewrite add_single_closed.
  destruct (Cmp.num_eqb v (NInt 1)); [reflexivity|]. destruct (Cmp.num_eqb v (NInt 0)); reflexivity.
Qed.

Lemma eqb_nums : forall a b, expr_eqb (ENum a) (ENum b) = Cmp.num_eqb a b.
Proof. intros. rewrite expr_eqb_unfold. reflexivity. Qed.
Lemma eqb_pow : forall b1 x1 b2 x2, expr_eqb (EPow b1 x1) (EPow b2 x2) = expr_eqb b1 b2 && expr_eqb x1 x2.
Proof. intros. rewrite expr_eqb_unfold. reflexivity. Qed.
Lemma eqb_mul : forall c1 d1 c2 d2,
  expr_eqb (EMul c1 d1) (EMul c2 d2) = Cmp.num_eqb c1 c2 && pairs_eqb expr_eqb d1 d2.
Proof. intros. rewrite expr_eqb_unfold. cbn [eqb_body]. rewrite <- pairs_eqb_flat. reflexivity. Qed.
Lemma eqb_E1 : expr_eqb E1 E1 = true.
Proof. unfold E1. rewrite eqb_nums. reflexivity. Qed.

Lemma mul_from_dict_cong : forall v1 v2 dk1 dk2, Cmp.num_eqb v1 v2 = true ->
  num_ok v1 = true -> num_ok v2 = true -> pairs_eqb expr_eqb dk1 dk2 = true ->
  expr_eqb (mul_from_dict v1 dk1) (mul_from_dict v2 dk2) = true.
Proof.
  intros v1 v2 dk1 dk2 Hv O1 O2 Hd.
  destruct dk1 as [|[k1 x1] [|p1 r1]]; destruct dk2 as [|[k2 x2] [|p2 r2]]; cbn [pairs_eqb] in Hd; try discriminate;
    try (destruct p1; discriminate); try (destruct p2; discriminate);
    try (rewrite andb_false_r in Hd; discriminate);
    try (destruct p1; rewrite andb_false_r in Hd; discriminate); try (destruct p2; rewrite andb_false_r in Hd; discriminate).
  - unfold mul_from_dict. rewrite <- (nis_zero_cong _ _ Hv). destruct (nis_zero v1); rewrite eqb_nums; exact Hv.
  - rewrite !mul_from_dict_single. rewrite <- (nis_zero_cong _ _ Hv), <- (nis_one_cong _ _ Hv O1 O2).
    apply andb_true_iff in Hd. destruct Hd as [Hd _]. apply andb_true_iff in Hd. destruct Hd as [Hk Hx].
    rewrite <- (is_int_one_cong _ _ Hx).
    destruct (nis_zero v1); [rewrite eqb_nums; exact Hv|].
    destruct (nis_one v1).
    + destruct (is_int_one x1); [exact Hk|]. rewrite eqb_pow, Hk, Hx. reflexivity.
    + rewrite eqb_mul, Hv. cbn [pairs_eqb]. rewrite Hk, Hx. reflexivity.
  - unfold mul_from_dict. rewrite <- (nis_zero_cong _ _ Hv). destruct (nis_zero v1); [rewrite eqb_nums; exact Hv|].
    cbv iota. rewrite eqb_mul, Hv. cbn [pairs_eqb andb]. exact Hd.
Qed.

Lemma as_mul_cong : forall k1 k2 v1 v2, expr_eqb k1 k2 = true -> Cmp.num_eqb v1 v2 = true ->
  num_ok v1 = true -> num_ok v2 = true -> expr_eqb (as_mul k1 v1) (as_mul k2 v2) = true.
Proof.
  intros k1 k2 v1 v2 Hk Hv O1 O2.
  assert (D : expr_eqb (EMul v1 [(k1, E1)]) (EMul v2 [(k2, E1)]) = true).
  { rewrite eqb_mul, Hv. cbn [pairs_eqb]. rewrite Hk, eqb_E1. reflexivity. }
  pose proof Hk as Hk'. rewrite expr_eqb_unfold in Hk'.
  destruct k1; destruct k2; cbn [eqb_body] in Hk'; try discriminate; cbn [as_mul]; try exact D.
  - apply andb_true_iff in Hk'. destruct Hk' as [_ Hd]. rewrite <- pairs_eqb_flat in Hd.
    apply mul_from_dict_cong; assumption.
  - apply andb_true_iff in Hk'. destruct Hk' as [Hb Hx].
    rewrite eqb_mul, Hv. cbn [pairs_eqb]. rewrite Hb, Hx. reflexivity.
Qed.

Lemma add_term_arg_cong : forall k1 k2 v1 v2, expr_eqb k1 k2 = true -> Cmp.num_eqb v1 v2 = true ->
  num_ok v1 = true -> num_ok v2 = true ->
  expr_eqb (add_term_arg (k1, v1)) (add_term_arg (k2, v2)) = true.
Proof.
  intros k1 k2 v1 v2 Hk Hv O1 O2. rewrite !add_term_arg_closed.
  rewrite <- (num_eqb_int _ _ 1 Hv), <- (num_eqb_int _ _ 0 Hv).
  destruct (Cmp.num_eqb v1 (NInt 1)); [exact Hk|].
  destruct (Cmp.num_eqb v1 (NInt 0)); [rewrite eqb_nums; exact Hv|].
  apply as_mul_cong; assumption.
Qed.
Lemma mul_term_arg_cong : forall k1 k2 x1 x2, expr_eqb k1 k2 = true -> expr_eqb x1 x2 = true ->
  expr_eqb (mul_term_arg (k1, x1)) (mul_term_arg (k2, x2)) = true.
Proof.
  intros k1 k2 x1 x2 Hk Hx. unfold mul_term_arg. cbn [fst snd]. rewrite <- (is_int_one_cong _ _ Hx).
  destruct (is_int_one x1); [exact Hk|]. rewrite eqb_pow, Hk, Hx. reflexivity.
Qed.

(* ---------- class selection is invariant under eq ---------- *)
Lemma kind_match_cong : forall k x y, expr_eqb x y = true -> kind_match k x = kind_match k y.
Proof.
  intros k x y H. rewrite expr_eqb_unfold in H.
  destruct x; destruct y; cbn [eqb_body] in H; try discriminate;
    try (destruct k; reflexivity);
    try (apply andb_true_iff in H; destruct H as [H _]; try (apply andb_true_iff in H; destruct H as [H _]);
         apply N.eqb_eq in H; subst; destruct k; reflexivity).
  - (* numbers *)
    destruct n; destruct n0; cbn [Cmp.num_eqb] in H; try discriminate; destruct k; reflexivity.
  - apply N.eqb_eq in H. subst. destruct k; reflexivity.
Qed.
Lemma sel_match_cong : forall ks x y, expr_eqb x y = true -> sel_match ks x = sel_match ks y.
Proof.
  intros ks x y H. unfold sel_match. induction ks as [|k ks IH]; [reflexivity|].
  cbn [existsb]. rewrite (kind_match_cong k x y H), IH. reflexivity.
Qed.
