(* C39 -- CoeffVisitor / coeff on the univariate integer-polynomial fragment
     p = c0 + sum_i a_i * x^(j_i)        (keys x or Pow(x, j), j >= 2; values Integers)
   coeff_upoly_spec: coeff(p, x, n) is exactly the dictionary content for the exponent n
   (the sum of the values stored under x^n; the Add's coef_ for n = 0);
   coeff_reconstruct_partial: the coefficients reconstruct p (as a polynomial function over Z).
   Plus the entry conditions of coeff.  The general (multivariate, symbolic-coefficient) case is
   covered by the correspondence runs, not by these theorems. *)
From SE Require Export C39.CoeffModel C39.Atoms.
From SE Require Import Expr.Unfold.
From Coq Require Import Lia ZArith.
Local Open Scope Z_scope.

Definition upoly_dict (x : expr) (l : list (Z * Z)) : list (expr * number) :=
  map (fun ja => (xpow x (fst ja), NInt (snd ja))) l.
Definition upoly_expr (x : expr) (c0 : Z) (l : list (Z * Z)) : expr := EAdd (NInt c0) (upoly_dict x l).

(* the sum of the values stored under the exponent n *)
Definition dict_coef (n : Z) (l : list (Z * Z)) : Z :=
  fold_right (fun ja acc => (if fst ja =? n then snd ja else 0) + acc) 0 l.
Definition ucoef (n c0 : Z) (l : list (Z * Z)) : Z := (if n =? 0 then c0 else 0) + dict_coef n l.

Lemma expr_eqb_num : forall a b, expr_eqb (ENum a) (ENum b) = Cmp.num_eqb a b.
Proof. intros. rewrite expr_eqb_unfold. reflexivity. Qed.

Lemma cf_visit_xpow : forall f nm j n, 1 <= j ->
  cf_visit (S f) (ESym nm) (ENum (NInt n)) (xpow (ESym nm) j) = Ok (if j =? n then E1 else E0).
Proof.
  intros f nm j n Hj. unfold xpow. destruct (j =? 1) eqn:E.
  - apply Z.eqb_eq in E. subst j. cbn [cf_visit]. unfold cf_symbol.
    rewrite (sym_eqb_refl (ESym nm) eq_refl). cbn [andb negb is_int_one].
    rewrite (Z.eqb_sym 1 n). destruct (n =? 1); reflexivity.
  - cbn [cf_visit]. rewrite (sym_eqb_refl (ESym nm) eq_refl), expr_eqb_num. cbn [Cmp.num_eqb andb negb].
    destruct (j =? n); reflexivity.
Qed.

Definition cf_add_step (f : nat) (x n : expr) (acc : res (number * list (expr * number))) (p : expr * number) :=
  bind acc (fun st => bind (cf_visit f x n (fst p)) (fun r =>
    if negb (is_int_zero r) then coef_dict_add_term (fst st) (snd st) (snd p) r else Ok st)).

Lemma cf_visit_add : forall f x n c d,
  cf_visit (S f) x n (EAdd c d) =
  bind (fold_left (cf_add_step f x n) d (Ok (NInt 0, [])))
       (fun cd => bind (if is_int_zero n then nadd (fst cd) c else Ok (fst cd))
                       (fun coef => Ok (add_from_dict coef (snd cd)))).
Proof. reflexivity. Qed.

Lemma upoly_fold : forall f nm n l acc, (forall j a, In (j, a) l -> 1 <= j) ->
  fold_left (cf_add_step (S f) (ESym nm) (ENum (NInt n))) (upoly_dict (ESym nm) l) (Ok (NInt acc, [])) =
  Ok (NInt (acc + dict_coef n l), []).
Proof.
  intros f nm n. induction l as [|[j a] l IH]; intros acc Hl.
  - cbn [upoly_dict map fold_left dict_coef fold_right]. rewrite Z.add_0_r. reflexivity.
  - cbn [upoly_dict map fold_left fst snd]. fold (upoly_dict (ESym nm) l).
    unfold cf_add_step at 2. cbn [bind fst snd].
    rewrite (cf_visit_xpow f nm j n (Hl j a (or_introl eq_refl))). cbn [bind].
    cbn [dict_coef fold_right fst snd]. fold (dict_coef n l).
    destruct (j =? n).
    + cbn [E1 is_int_zero Z.eqb negb coef_dict_add_term]. unfold nmul, nadd. cbn [NumModel.num_mul NumModel.mul_step NumModel.num_add NumModel.add_step bind fst snd].
      rewrite IH by (intros j' a' H; eapply Hl; right; exact H).
      replace (acc + a * 1 + dict_coef n l) with (acc + (a + dict_coef n l)) by lia. reflexivity.
    + cbn [E0 is_int_zero Z.eqb negb].
      rewrite IH by (intros j' a' H; eapply Hl; right; exact H).
      replace (acc + (0 + dict_coef n l)) with (acc + dict_coef n l) by lia. reflexivity.
Qed.

Theorem coeff_upoly_spec : forall nm c0 l n, (forall j a, In (j, a) l -> 1 <= j) ->
  coeff (upoly_expr (ESym nm) c0 l) (ESym nm) (ENum (NInt n)) = Ok (ENum (NInt (ucoef n c0 l))).
Proof.
  intros nm c0 l n Hl. unfold coeff, upoly_expr.
  change (weight (EAdd (NInt c0) (upoly_dict (ESym nm) l)))
    with (S (S (S (fold_right (fun p acc => weight (fst p) + 6 + acc)%nat 0%nat (upoly_dict (ESym nm) l))))).
  rewrite cf_visit_add, upoly_fold by exact Hl. cbn [bind fst snd is_int_zero add_from_dict].
  unfold ucoef. destruct (n =? 0).
  - unfold nadd. cbn [NumModel.num_add NumModel.add_step bind]. f_equal. f_equal. f_equal. lia.
  - cbn [bind]. reflexivity.
Qed.

(* ---------- reconstruction ---------- *)
Definition zcoef (r : res expr) : Z := match r with Ok (ENum (NInt z)) => z | _ => 0 end.
(* sum_{k = s}^{s+len-1} g k  and  sum_{k = 0}^{N} g k *)
Definition ssum (g : Z -> Z) (s len : nat) : Z := fold_right (fun k acc => g (Z.of_nat k) + acc) 0 (seq s len).
Definition zsum (N : nat) (g : Z -> Z) : Z := ssum g 0 (S N).
Definition peval (xv c0 : Z) (l : list (Z * Z)) : Z :=
  c0 + fold_right (fun ja acc => snd ja * xv ^ fst ja + acc) 0 l.

Lemma ssum_ext : forall (g h : Z -> Z) s len,
  (forall k, (s <= k < s + len)%nat -> g (Z.of_nat k) = h (Z.of_nat k)) -> ssum g s len = ssum h s len.
Proof.
  intros g h s len. unfold ssum. revert s. induction len as [|len IH]; intros s H; [reflexivity|].
  cbn [seq fold_right]. rewrite (H s) by lia. rewrite IH; [reflexivity|]. intros k Hk. apply H. lia.
Qed.
Lemma ssum_add : forall (g h : Z -> Z) s len, ssum (fun n => g n + h n) s len = ssum g s len + ssum h s len.
Proof.
  intros g h s len. unfold ssum. revert s. induction len as [|len IH]; intros s; [reflexivity|].
  cbn [seq fold_right]. rewrite IH. lia.
Qed.
Lemma ssum_zero : forall (g : Z -> Z) s len, (forall k, (s <= k < s + len)%nat -> g (Z.of_nat k) = 0) -> ssum g s len = 0.
Proof.
  intros g s len. unfold ssum. revert s. induction len as [|len IH]; intros s H; [reflexivity|].
  cbn [seq fold_right]. rewrite (H s) by lia. rewrite IH; [reflexivity|]. intros k Hk. apply H. lia.
Qed.
Lemma ssum_single : forall (j a xv : Z) s len, (Z.of_nat s <= j < Z.of_nat s + Z.of_nat len) ->
  ssum (fun n => (if j =? n then a else 0) * xv ^ n) s len = a * xv ^ j.
Proof.
  intros j a xv s len. revert s. induction len as [|len IH]; intros s H; [lia|].
  unfold ssum. cbn [seq fold_right]. fold (ssum (fun n => (if j =? n then a else 0) * xv ^ n) (S s) len).
  destruct (j =? Z.of_nat s) eqn:E.
  - apply Z.eqb_eq in E. subst j. rewrite ssum_zero; [lia|].
    intros k Hk. destruct (Z.of_nat s =? Z.of_nat k) eqn:E; [apply Z.eqb_eq in E; lia|reflexivity].
  - apply Z.eqb_neq in E. rewrite IH by lia. lia.
Qed.

Lemma zsum_ucoef : forall (N : nat) xv c0 l, (forall j a, In (j, a) l -> 1 <= j <= Z.of_nat N) ->
  zsum N (fun n => ucoef n c0 l * xv ^ n) = peval xv c0 l.
Proof.
  intros N xv c0 l Hl. unfold zsum, peval.
  transitivity (ssum (fun n => (if 0 =? n then c0 else 0) * xv ^ n) 0 (S N) + ssum (fun n => dict_coef n l * xv ^ n) 0 (S N)).
  { rewrite <- ssum_add. apply ssum_ext. intros k Hk. unfold ucoef. rewrite (Z.eqb_sym 0). lia. }
  rewrite (ssum_single 0 c0 xv 0 (S N)) by lia. rewrite Z.pow_0_r, Z.mul_1_r. f_equal.
  induction l as [|[j a] l IH].
  - cbn [fold_right]. apply ssum_zero. intros k Hk. reflexivity.
  - cbn [fold_right fst snd]. rewrite <- IH by (intros j' a' H; apply (Hl j' a'); right; exact H).
    rewrite <- (ssum_single j a xv 0 (S N)) by (specialize (Hl j a (or_introl eq_refl)); lia).
    rewrite <- ssum_add. apply ssum_ext. intros k Hk. cbn [dict_coef fold_right fst snd]. fold (dict_coef (Z.of_nat k) l). lia.
Qed.

(* coeff_reconstruct, full statement wanted: for every expanded polynomial p in x (coefficients
   arbitrary x-free expressions), sum_n coeff(p, x, n) * x^n  is  p  in every commutative ring.
   Proved here: the univariate case with Integer coefficients, as polynomial functions over Z. *)
Theorem coeff_reconstruct_partial : forall nm c0 l (N : nat) (xv : Z),
  (forall j a, In (j, a) l -> 1 <= j <= Z.of_nat N) ->
  zsum N (fun n => zcoef (coeff (upoly_expr (ESym nm) c0 l) (ESym nm) (ENum (NInt n))) * xv ^ n)
  = peval xv c0 l.
Proof.
  intros nm c0 l N xv Hl. rewrite <- (zsum_ucoef N xv c0 l Hl). unfold zsum.
  apply ssum_ext. intros k Hk. rewrite coeff_upoly_spec; [reflexivity|].
  intros j a H. specialize (Hl j a H). lia.
Qed.

(* ---------- entry conditions ---------- *)
Theorem coeff_requires_symbol : forall b x n,
  (forall nm, x <> ESym nm) -> (forall nm args, x <> EFunSym nm args) -> coeff b x n = ErrExn EXN_NOTIMPL.
Proof.
  intros b x n H1 H2. unfold coeff. destruct x; try reflexivity.
  - exfalso. eapply H1. reflexivity.
  - exfalso. eapply H2. reflexivity.
Qed.
(* a Dummy is rejected although it is a Symbol (is_a<Symbol>, not is_a_sub) *)
Example coeff_dummy_rejected : forall b nm i n, coeff b (EDummy nm i) n = ErrExn EXN_NOTIMPL.
Proof. reflexivity. Qed.
