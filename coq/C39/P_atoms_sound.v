(* C39 obligation: atoms<Args...>(e) only returns subexpressions of e (reachable through
   get_args) of a selected class. *)
From SE Require Import C39.Atoms.
Theorem C39_atoms_sound :
  forall ks e x, In x (atoms ks e) -> sel_match ks x = true /\ subarg x e.
Proof. exact atoms_sound. Qed.
Print Assumptions C39_atoms_sound.
