(* C39 -- from a node down to its get_args: tree_ok is inherited by the arguments (also by
   the Mul / Pow nodes that Add::get_args and Mul::get_args build), and an occurrence of cost
   n+1 in a node is an occurrence of cost n in one of its arguments. *)
From SE Require Export C39.EqbTransfer.
From SE Require Import Expr.Unfold.
From Coq Require Import Lia.
Local Open Scope N_scope.

Lemma tree_ok_iff : forall e, tree_ok e = true <->
  bad_node e = false /\ forall c, In c (rchildren e) -> tree_ok c = true.
Proof.
  intros e. split.
  - intros H. split; [apply tree_ok_node; exact H|]. intros c Hc. eapply tree_ok_child; eauto.
  - intros [H1 H2]. unfold tree_ok. rewrite any_node_children, H1. cbn [orb]. apply negb_true_iff.
    destruct (existsb (any_node bad_node) (rchildren e)) eqn:E; [|reflexivity].
    apply existsb_exists in E. destruct E as (c & Hc & Hb). specialize (H2 c Hc). unfold tree_ok in H2.
    rewrite Hb in H2. discriminate.
Qed.
Lemma tree_ok_num : forall n, tree_ok (ENum n) = true.
Proof. reflexivity. Qed.
Lemma tree_ok_bool : forall b, tree_ok (EBool b) = true.
Proof. reflexivity. Qed.
Lemma tree_ok_mul : forall c d, tree_ok (EMul c d) = true <-> forall x, In x (flat d) -> tree_ok x = true.
Proof. intros. rewrite tree_ok_iff. cbn [bad_node rchildren]. tauto. Qed.
Lemma tree_ok_pow : forall b x, tree_ok (EPow b x) = true <-> tree_ok b = true /\ tree_ok x = true.
Proof.
  intros. rewrite tree_ok_iff. cbn [bad_node rchildren In]. split.
  - intros [_ H]. split; apply H; auto.
  - intros [H1 H2]. split; [reflexivity|]. intros c [<-|[<-|[]]]; assumption.
Qed.

Lemma tree_ok_mul_from_dict : forall v dk c, tree_ok (EMul c dk) = true -> tree_ok (mul_from_dict v dk) = true.
Proof.
  intros v dk c H. unfold mul_from_dict. destruct (nis_zero v); [reflexivity|].
  destruct dk as [|[k x] [|p r]]; [reflexivity| |apply (proj2 (tree_ok_mul v _)); apply (proj1 (tree_ok_mul c _)); exact H].
  pose proof (proj1 (tree_ok_mul c _) H) as G. unfold flat in G. cbn [flat_map app fst snd In] in G.
  assert (Gk : tree_ok k = true) by (apply G; auto).
  assert (Gx : tree_ok x = true) by (apply G; auto).
  assert (Gp : tree_ok (EPow k x) = true) by (apply tree_ok_pow; auto).
  assert (Gm : tree_ok (EMul v [(k, x)]) = true).
  { apply tree_ok_mul. unfold flat. cbn [flat_map app fst snd In]. intros y [<-|[<-|[]]]; assumption. }
  case_all; assumption.
Qed.
Lemma tree_ok_add_single : forall k v, tree_ok k = true -> tree_ok (add_single k v) = true.
Proof.
  intros k v H. unfold add_single.
  assert (G : tree_ok match k with
                      | EMul _ dk => mul_from_dict v dk
                      | EPow b x => EMul v [(b, x)]
                      | _ => EMul v [(k, E1)]
                      end = true).
  { assert (D : tree_ok (EMul v [(k, E1)]) = true).
    { apply tree_ok_mul. unfold flat. cbn [flat_map app fst snd In]. intros y [<-|[<-|[]]]; [exact H|reflexivity]. }
    destruct k; try exact D.
    - eapply tree_ok_mul_from_dict. exact H.
    - apply tree_ok_pow in H. destruct H. apply tree_ok_mul. unfold flat. cbn [flat_map app fst snd In].
      intros y [<-|[<-|[]]]; assumption. }
  destruct v; try exact G.
  destruct (z =? 0)%Z; [reflexivity|]. destruct (z =? 1)%Z; [exact H|exact G].
Qed.

Lemma tree_ok_args : forall e p, tree_ok e = true -> In p (get_args e) -> tree_ok p = true.
Proof.
  intros e p He Hin.
  assert (RC : forall c, In c (rchildren e) -> tree_ok c = true) by (intros; eapply tree_ok_child; eauto).
  destruct e; cbn [get_args] in Hin; cbn [rchildren] in RC; try (destruct Hin; fail).
  - destruct n; cbn [In] in Hin; try tauto. destruct Hin as [<-|[]]. reflexivity.
  - apply in_app_or in Hin. destruct Hin as [Hin|Hin].
    + destruct (nis_zero coef); [destruct Hin|]. destruct Hin as [<-|[]]. reflexivity.
    + apply in_map_iff in Hin. destruct Hin as ([k v] & <- & Hin).
      assert (Hk : tree_ok k = true) by (apply RC; apply in_map_iff; exists (k, v); auto).
      unfold add_term_arg. cbn [fst snd]. destruct (Cmp.num_eqb v (NInt 1)); [exact Hk|].
      unfold add_from_dict. cbn [nis_zero Z.eqb]. apply tree_ok_add_single. exact Hk.
  - apply in_app_or in Hin. destruct Hin as [Hin|Hin].
    + destruct (nis_one coef); [destruct Hin|]. destruct Hin as [<-|[]]. reflexivity.
    + apply in_map_iff in Hin. destruct Hin as ([k v] & <- & Hin).
      unfold mul_term_arg. cbn [fst snd].
      destruct (is_int_one v); [apply RC; eapply in_flat_l; eauto|].
      apply tree_ok_pow. split; apply RC; eauto using in_flat_l, in_flat_r.
  - apply RC. exact Hin.
  - apply RC. exact Hin.
  - apply RC. exact Hin.
  - apply RC. exact Hin.
  - apply RC. exact Hin.
  - apply RC. exact Hin.
  - apply RC. exact Hin.
  - destruct Hin as [<-|Hin]; [apply RC; left; reflexivity|]. apply RC. right.
    apply in_app_or in Hin. destruct Hin as [Hin|Hin]; apply in_map_iff in Hin; destruct Hin as ([k v] & <- & Hin);
      eauto using in_flat_l, in_flat_r.
  - apply RC. exact Hin.
  - destruct Hin as [<-|[<-|[<-|[<-|[]]]]]; try reflexivity; apply RC; cbn [In]; auto.
Qed.
Lemma tree_ok_subs_arg : forall a d, tree_ok (ESubs a d) = true -> tree_ok a = true.
Proof. intros a d H. eapply tree_ok_child; [exact H|]. left. reflexivity. Qed.

(* ---------- an occurrence goes down into an argument, one cost unit cheaper ---------- *)
Definition occn_struct (B : bmode) (s : expr) (n : nat) (e : expr) : Prop :=
  occn B s n e /\ ~ (is_sym s = true /\ e = s).

Lemma occn_num : forall B s n x, occn B s n (ENum x) -> False.
Proof.
  intros B s n x H. destruct n; [destruct H|]. cbn [occn] in H. destruct H as [[Hs <-]|[]]. discriminate.
Qed.

(* one-level introduction / inversion (stated with variable indices so that [cbn] unfolds
   exactly one level) *)
Lemma occn_pow_intro : forall B s m b x, occn B s m b \/ occn B s m x -> occn B s (S m) (EPow b x).
Proof. intros. cbn [occn]. right. assumption. Qed.
Lemma occn_mul_intro : forall B s m c d k v, In (k, v) d -> occn B s m k \/ occn B s m v ->
  occn B s (S (S m)) (EMul c d).
Proof. intros. cbn [occn]. right. exists k, v. auto. Qed.
Lemma occn_mul_inv : forall B s n c d, occn B s n (EMul c d) ->
  exists m, n = S (S m) /\ exists k v, In (k, v) d /\ (occn B s m k \/ occn B s m v).
Proof.
  intros B s n c d H. destruct n as [|n]; [destruct H|]. cbn [occn] in H.
  destruct H as [[Hs <-]|H]; [discriminate|]. destruct n as [|m]; [destruct H|]. exists m. auto.
Qed.
Lemma occn_pow_inv : forall B s n b x, occn B s n (EPow b x) ->
  exists m, n = S m /\ (occn B s m b \/ occn B s m x).
Proof.
  intros B s n b x H. destruct n as [|m]; [destruct H|]. cbn [occn] in H.
  destruct H as [[Hs <-]|H]; [discriminate|]. exists m. auto.
Qed.

Lemma occn_mul_from_dict_down : forall B s j v c dk, nis_zero v = false ->
  occn B s j (EMul c dk) -> occn B s j (mul_from_dict v dk).
Proof.
  intros B s j v c dk Hv H. unfold mul_from_dict. rewrite Hv.
  apply occn_mul_inv in H. destruct H as (m & -> & k & x & Hin & Hk).
  destruct dk as [|[k0 x0] [|p r]]; [destruct Hin| |eapply occn_mul_intro; eauto].
  destruct Hin as [Hin|[]]. inversion Hin; subst k0 x0. clear Hin.
  assert (Gm : occn B s (S (S m)) (EMul v [(k, x)])) by (eapply occn_mul_intro; [left; reflexivity|exact Hk]).
  assert (Gp : occn B s (S (S m)) (EPow k x)).
  { apply occn_pow_intro. destruct Hk as [Hk|Hk]; [left|right]; (eapply occn_mono; [|exact Hk]; lia). }
  assert (Gk : is_int_one x = true -> occn B s (S (S m)) k).
  { intros Hx. destruct Hk as [Hk|Hk]; [eapply occn_mono; [|exact Hk]; lia|].
    destruct x; try discriminate. destruct (occn_num _ _ _ _ Hk). }
  destruct x as [nn| | | | | | | | | | | | | | | | |]; try (destruct (nis_one v); [cbn [is_int_one]|]; assumption).
  destruct nn; try (destruct (nis_one v); [cbn [is_int_one]|]; assumption).
  destruct (nis_one v); [|assumption]. destruct (z =? 1)%Z eqn:Ez; [apply Gk; cbn [is_int_one]; exact Ez|assumption].
Qed.

Lemma occn_arg_down : forall B s m e, b_sets B = false -> tree_ok e = true -> is_subs e = false ->
  occn B s (S m) e -> ~ (is_sym s = true /\ e = s) ->
  exists t, In t (get_args e) /\ occn B s m t.
Proof.
  intros B s m e HB Hok Hsub H Hns. cbn [occn] in H. destruct H as [H|H]; [contradiction|].
  destruct e; try (destruct H; fail); cbn [get_args].
  - (* Add *)
    destruct m as [|[|m']]; try (destruct H; fail). destruct H as (k & v & Hin & Hk).
    destruct (bad_add _ _ (tree_ok_node _ Hok)) as [_ NZ]. specialize (NZ k v Hin).
    exists (add_term_arg (k, v)). split; [apply in_or_app; right; apply in_map; exact Hin|].
    unfold add_term_arg. cbn [fst snd].
    destruct (Cmp.num_eqb v (NInt 1)) eqn:Ev1; [eapply occn_mono; [|exact Hk]; lia|].
    unfold add_from_dict. cbn [nis_zero Z.eqb]. unfold add_single.
    assert (G : occn B s (S (S m')) match k with
                                     | EMul _ dk => mul_from_dict v dk
                                     | EPow b x => EMul v [(b, x)]
                                     | _ => EMul v [(k, E1)]
                                     end).
    { assert (D : occn B s (S (S m')) (EMul v [(k, E1)])).
      { eapply occn_mul_intro; [left; reflexivity|left; exact Hk]. }
      destruct k; try exact D.
      - eapply occn_mono; [|eapply occn_mul_from_dict_down; [exact NZ|exact Hk]]. lia.
      - apply occn_pow_inv in Hk. destruct Hk as (j & -> & Hk).
        eapply occn_mono; [|eapply occn_mul_intro; [left; reflexivity|exact Hk]]. lia. }
    destruct v; try exact G.
    cbn [nis_zero] in NZ. rewrite NZ. cbn [Cmp.num_eqb] in Ev1. rewrite Ev1. exact G.
  - (* Mul *)
    destruct m as [|m']; try (destruct H; fail). destruct H as (k & v & Hin & Hk).
    exists (mul_term_arg (k, v)). split; [apply in_or_app; right; apply in_map; exact Hin|].
    unfold mul_term_arg. cbn [fst snd]. destruct (is_int_one v) eqn:E.
    + destruct Hk as [Hk|Hk]; [eapply occn_mono; [|exact Hk]; lia|].
      destruct v; try discriminate. destruct (occn_num _ _ _ _ Hk).
    + apply occn_pow_intro. exact Hk.
  - destruct H as [H|H]; [exists e1|exists e2]; cbn [In]; auto.
  - exists e. cbn [In]. auto.
  - destruct H as [H|H]; [exists e1|exists e2]; cbn [In]; auto.
  - unfold set_binder_node in H. rewrite HB in H. cbn [andb] in H. exact H.
  - exact H.
  - destruct H as [H|H]; [exists e1|exists e2]; cbn [In]; auto.
  - destruct H as [H|(x & Hin & Hx)]; [exists e|exists x]; cbn [In]; auto.
  - discriminate.
  - destruct H as (x & c & Hin & [Hx|Hx]); [exists x|exists c]; (split; [|assumption]);
      apply in_flat_map; exists (x, c); cbn [fst snd In]; auto.
  - destruct H as [H|H]; [exists e1|exists e2]; cbn [In]; auto.
Qed.
