(* C39 -- CoeffVisitor / coeff (visitor.h, visitor.cpp), with Add::coef_dict_add_term,
   Add::dict_add_term, Add::as_coef_term (add.cpp) on the expression AST.  Number arithmetic
   (iaddnum, mulnum) is that of Num/NumModel.v (validated by checks C05/C06).
   umap_basic_num (the dictionary under construction) is a list searched by "same hash and
   eq"; new keys go to the end -- the order is not observable (results are compared with Add
   dictionaries sorted).  No proofs here. *)
From SE Require Export C39.QueryModel.
From SE Require Num.NumModel.
Local Open Scope N_scope.
Local Open Scope res_scope.

Definition nadd (a b : number) : res number := NumModel.num_add a b.   (* a->add(b) *)
Definition nmul (a b : number) : res number := NumModel.num_mul a b.   (* a->mul(b) *)

(* ---------- umap_basic_num ---------- *)
(* [t] is the query with its hash [fst t] computed once *)
Definition ud_hit (t : hx) (k : expr) : bool := (hash k =? fst t) && expr_eqb (snd t) k.
Fixpoint ud_find (t : hx) (d : list (expr * number)) : option number :=
  match d with
  | [] => None
  | (k, v) :: r => if ud_hit t k then Some v else ud_find t r
  end.
Fixpoint ud_set (t : hx) (c : number) (d : list (expr * number)) : list (expr * number) :=
  match d with
  | [] => []
  | (k, v) :: r => if ud_hit t k then (k, c) :: r else (k, v) :: ud_set t c r
  end.
Fixpoint ud_erase (t : hx) (d : list (expr * number)) : list (expr * number) :=
  match d with
  | [] => []
  | (k, v) :: r => if ud_hit t k then r else (k, v) :: ud_erase t r
  end.

(* Add::dict_add_term(d, coef, t) *)
Definition dict_add_term (d : list (expr * number)) (c : number) (t : expr)
  : res (list (expr * number)) :=
  let ht := mk_hx t in
  match ud_find ht d with
  | None => Ok (if nis_zero c then d else d ++ [(t, c)])
  | Some old =>
      do s <- nadd old c;
      Ok (if nis_zero s then ud_erase ht d else ud_set ht s d)
  end.

(* Add::as_coef_term(self) for a self that is neither a Number nor an Add *)
Definition as_coef_term (self : expr) : number * expr :=
  match self with
  | EMul c d => if negb (Cmp.num_eqb c (NInt 1)) then (c, mul_from_dict (NInt 1) d)
                else (NInt 1, self)
  | ENum n => (n, E1)
  | _ => (NInt 1, self)
  end.

(* Add::coef_dict_add_term(coef, d, c, term) *)
Definition coef_dict_add_term (coef : number) (d : list (expr * number)) (c : number) (term : expr)
  : res (number * list (expr * number)) :=
  match term with
  | ENum t => do m <- nmul c t; do s <- nadd coef m; Ok (s, d)
  | EAdd tc td =>
      if nis_one c then
        do d' <- fold_left (fun acc q => do dd <- acc; dict_add_term dd (snd q) (fst q)) td (Ok d);
        do s <- nadd coef tc;
        Ok (s, d')
      else
        do d' <- dict_add_term d c term; Ok (coef, d')
  | _ =>
      let ct := as_coef_term term in
      do m <- nmul c (fst ct);
      do d' <- dict_add_term d m (snd ct);
      Ok (coef, d')
  end.

(* position of the first entry with eq(key, x) and eq(exponent, n) *)
Fixpoint mul_find (x n : expr) (d : list (expr * expr)) : option nat :=
  match d with
  | [] => None
  | (k, v) :: r =>
      if expr_eqb k x && expr_eqb v n then Some O
      else match mul_find x n r with Some i => Some (S i) | None => None end
  end.
Fixpoint remove_nth {A} (i : nat) (l : list A) : list A :=
  match l, i with
  | [], _ => []
  | _ :: r, O => r
  | a :: r, S j => a :: remove_nth j r
  end.

(* the Symbol / FunctionSymbol cases *)
Definition cf_symbol (x n b : expr) : expr :=
  if expr_eqb b x && is_int_one n then E1
  else if negb (expr_eqb b x) && is_int_zero n then b
  else E0.

Fixpoint cf_visit (fuel : nat) (x n b : expr) : res expr :=
  match fuel with
  | O => ErrFuel
  | S f =>
      match b with
      | EAdd c d =>
          do cd <- fold_left
                (fun acc p =>
                   do st <- acc;
                   do r <- cf_visit f x n (fst p);
                   if negb (is_int_zero r)
                   then coef_dict_add_term (fst st) (snd st) (snd p) r
                   else Ok st)
                d (Ok (NInt 0, []));
          do coef <- (if is_int_zero n then nadd (fst cd) c else Ok (fst cd));
          Ok (add_from_dict coef (snd cd))
      | EMul c d =>
          match mul_find x n d with
          | Some i => Ok (mul_from_dict c (remove_nth i d))
          | None =>
              if is_int_zero n then
                match has_symbol b x with
                | None => ErrFuel
                | Some true => Ok E0
                | Some false => Ok b
                end
              else Ok E0
          end
      | EPow bb e =>
          if expr_eqb bb x && expr_eqb e n then Ok E1
          else if negb (expr_eqb bb x) && is_int_zero n then Ok b
          else Ok E0
      | ESym _ | EDummy _ _ | EFunSym _ _ => Ok (cf_symbol x n b)
      | _ =>
          if negb (is_int_zero n) then Ok E0
          else match has_symbol b x with
               | None => ErrFuel
               | Some true => Ok E0
               | Some false => Ok b
               end
      end
  end.

(* coeff(b, x, n): x must be exactly a Symbol or a FunctionSymbol (is_a, not is_a_sub) *)
Definition coeff (b x n : expr) : res expr :=
  match x with
  | ESym _ | EFunSym _ _ => cf_visit (weight b) x n b
  | _ => ErrExn EXN_NOTIMPL
  end.
