(* Extraction of the C39 model (run from the output directory; not part of `make`).  The module
   is called semodel so that ocaml/expr_io.ml (open Semodel) resolves. *)
From SE Require Import Expr.IO C39.QueryModel C39.CoeffModel.
Require Import ExtrOcamlBasic.
Extraction "semodel.ml" N_of_digits Z_of_digits digits_of_N tc_lookup tc_name
  free_symbols_st has_symbol atoms_st function_symbols coeff guard_set_binder guard_subs tree_ok nums_ok
  get_args hash expr_eqb set_equiv mk_hx.
