(* C39 obligation (partial): the coefficients reconstruct the polynomial.
   Full statement: for every expanded polynomial p in x with arbitrary x-free coefficient
   expressions, sum_n coeff(p, x, n) * x^n is p in every commutative ring.
   Proved: univariate p with Integer coefficients, as polynomial functions over Z (any degree).
   Missing: a denotational semantics of Add / Mul / Pow that the dictionary operations of
   coef_dict_add_term preserve (needs "eq implies equal denotation"). *)
From SE Require Import C39.CoeffProofs.
Local Open Scope Z_scope.
Theorem C39_coeff_reconstruct_partial :
  forall nm c0 l (N : nat) (xv : Z),
  (forall j a, In (j, a) l -> 1 <= j <= Z.of_nat N) ->
  zsum N (fun n => zcoef (coeff (upoly_expr (ESym nm) c0 l) (ESym nm) (ENum (NInt n))) * xv ^ n)
  = peval xv c0 l.
Proof. exact coeff_reconstruct_partial. Qed.
Print Assumptions C39_coeff_reconstruct_partial.
