(* C39 -- occurrences and get_args: an occurrence inside an argument is an occurrence in the
   node (for modes that do not honour the set binders), inversion lemmas for [occurs]. *)
From SE Require Export C39.QueryLemmas.
From Coq Require Import Lia.
Local Open Scope N_scope.

Ltac occ_inv H :=
  let k := fresh "idx" in let m := fresh "m" in
  apply occurs_occn in H; destruct H as [k H]; destruct k as [|m]; [destruct H|];
  cbn [occn] in H; destruct H as [[?Hs ?He]|H]; [try (subst; discriminate)|].

Lemma occurs_num_inv : forall B s n, occurs B s (ENum n) -> False.
Proof. intros B s n H. occ_inv H. exact H. Qed.
Lemma occurs_bool_inv : forall B s b, occurs B s (EBool b) -> False.
Proof. intros B s b H. occ_inv H. exact H. Qed.
Lemma occurs_sym_inv : forall B s e, is_sym e = true -> occurs B s e -> s = e.
Proof.
  intros B s e He H. apply occurs_occn in H. destruct H as [n H]. destruct n; [destruct H|].
  cbn [occn] in H. destruct H as [[_ ->]|H]; [reflexivity|]. destruct e; try discriminate; destruct H.
Qed.
Lemma occurs_pow_inv : forall B s b x, occurs B s (EPow b x) -> occurs B s b \/ occurs B s x.
Proof. intros B s b x H. occ_inv H. destruct H as [H|H]; [left|right]; eapply occn_occurs; eauto. Qed.
Lemma occurs_mul_inv : forall B s c d, occurs B s (EMul c d) ->
  exists k v, In (k, v) d /\ (occurs B s k \/ occurs B s v).
Proof.
  intros B s c d H. occ_inv H. destruct m as [|m']; [destruct H|].
  destruct H as (k & v & Hin & [Hk|Hk]); exists k, v; (split; [exact Hin|]);
    [left|right]; eapply occn_occurs; eauto.
Qed.
Lemma occurs_add_inv : forall B s c d, occurs B s (EAdd c d) ->
  exists k v, In (k, v) d /\ occurs B s k.
Proof.
  intros B s c d H. occ_inv H. destruct m as [|[|m']]; try (destruct H; fail).
  destruct H as (k & v & Hin & Hk). exists k, v. split; [exact Hin|]. eapply occn_occurs; eauto.
Qed.
Lemma occurs_subs_inv : forall B s a d, occurs B s (ESubs a d) ->
  (occurs B s a /\ (b_subs B = true -> ~ In s (map fst d)))
  \/ (b_subs B = false /\ exists k v, In (k, v) d /\ occurs B s k)
  \/ (exists k v, In (k, v) d /\ occurs B s v).
Proof.
  intros B s a d H. occ_inv H.
  destruct H as [[H1 H2]|[[H1 (k & v & Hin & Hk)]|(k & v & Hin & Hk)]].
  - left. split; [eapply occn_occurs; eauto|exact H2].
  - right. left. split; [exact H1|]. exists k, v. split; [exact Hin|eapply occn_occurs; eauto].
  - right. right. exists k, v. split; [exact Hin|eapply occn_occurs; eauto].
Qed.

(* the arguments that Add / Mul build *)
Lemma occurs_mul_from_dict : forall B s v dk c,
  occurs B s (mul_from_dict v dk) -> occurs B s (EMul c dk).
Proof.
  intros B s v dk c. unfold mul_from_dict.
  destruct (nis_zero v); [intros H; destruct (occurs_num_inv _ _ _ H)|].
  destruct dk as [|[k x] [|p r]].
  - intros H; destruct (occurs_num_inv _ _ _ H).
  - assert (Gk : occurs B s k -> occurs B s (EMul c [(k, x)])) by (intros; eapply O_mul_key; [left; reflexivity|assumption]).
    assert (Gp : occurs B s (EPow k x) -> occurs B s (EMul c [(k, x)])).
    { intros H. apply occurs_pow_inv in H. destruct H; [eapply O_mul_key|eapply O_mul_exp]; try (left; reflexivity); assumption. }
    assert (Gm : occurs B s (EMul v [(k, x)]) -> occurs B s (EMul c [(k, x)])).
    { intros H. apply occurs_mul_inv in H. destruct H as (k' & v' & Hin & [H|H]); [eapply O_mul_key|eapply O_mul_exp]; eauto. }
    case_all; assumption.
  - intros H. apply occurs_mul_inv in H. destruct H as (k' & v' & Hin & [H|H]); [eapply O_mul_key|eapply O_mul_exp]; eauto.
Qed.
Lemma occurs_add_single : forall B s k v, occurs B s (add_single k v) -> occurs B s k.
Proof.
  intros B s k v. unfold add_single.
  assert (G : occurs B s match k with
                         | EMul _ dk => mul_from_dict v dk
                         | EPow b x => EMul v [(b, x)]
                         | _ => EMul v [(k, E1)]
                         end -> occurs B s k).
  { assert (D : occurs B s (EMul v [(k, E1)]) -> occurs B s k).
    { intros H. apply occurs_mul_inv in H. destruct H as (k' & v' & [Hin|[]] & [H|H]); inversion Hin; subst; [exact H|].
      destruct (occurs_num_inv _ _ _ H). }
    destruct k; try exact D.
    - apply occurs_mul_from_dict.
    - intros H. apply occurs_mul_inv in H. destruct H as (k' & v' & [Hin|[]] & [H|H]); inversion Hin; subst;
        [apply O_pow_base|apply O_pow_exp]; exact H. }
  destruct v; try exact G.
  destruct (z =? 0)%Z; [intros H; destruct (occurs_num_inv _ _ _ H)|].
  destruct (z =? 1)%Z; [auto|exact G].
Qed.
Lemma occurs_add_term_arg : forall B s k v, occurs B s (add_term_arg (k, v)) -> occurs B s k.
Proof.
  intros B s k v. unfold add_term_arg. cbn [fst snd].
  destruct (Cmp.num_eqb v (NInt 1)); [auto|]. unfold add_from_dict. cbn [nis_zero Z.eqb].
  apply occurs_add_single.
Qed.
Lemma occurs_mul_term_arg : forall B s k v, occurs B s (mul_term_arg (k, v)) ->
  occurs B s k \/ occurs B s v.
Proof.
  intros B s k v. unfold mul_term_arg. cbn [fst snd]. destruct (is_int_one v); [auto|apply occurs_pow_inv].
Qed.

(* an occurrence in an argument is an occurrence in the node (not for Subs, whose arguments
   include the bound variables; not when set binders are honoured) *)
Lemma occ_arg_up : forall B s e p, b_sets B = false -> is_subs e = false ->
  In p (get_args e) -> occurs B s p -> occurs B s e.
Proof.
  intros B s e p HB Hsub Hin Hocc. destruct e; cbn [get_args] in Hin; try (destruct Hin; fail).
  - destruct n; cbn [In] in Hin; try tauto. destruct Hin as [<-|[]]. destruct (occurs_num_inv _ _ _ Hocc).
  - apply in_app_or in Hin. destruct Hin as [Hin|Hin].
    + destruct (nis_zero coef); [destruct Hin|]. destruct Hin as [<-|[]]. destruct (occurs_num_inv _ _ _ Hocc).
    + apply in_map_iff in Hin. destruct Hin as ([k v] & <- & Hin). apply occurs_add_term_arg in Hocc.
      eapply O_add; eauto.
  - apply in_app_or in Hin. destruct Hin as [Hin|Hin].
    + destruct (nis_one coef); [destruct Hin|]. destruct Hin as [<-|[]]. destruct (occurs_num_inv _ _ _ Hocc).
    + apply in_map_iff in Hin. destruct Hin as ([k v] & <- & Hin). apply occurs_mul_term_arg in Hocc.
      destruct Hocc; [eapply O_mul_key|eapply O_mul_exp]; eauto.
  - destruct Hin as [<-|[<-|[]]]; [apply O_pow_base|apply O_pow_exp]; assumption.
  - destruct Hin as [<-|[]]. apply O_f1. assumption.
  - destruct Hin as [<-|[<-|[]]]; [apply O_f2_l|apply O_f2_r]; assumption.
  - eapply O_fn; eauto. unfold set_binder_node. rewrite HB. reflexivity.
  - eapply O_funsym; eauto.
  - destruct Hin as [<-|[<-|[]]]; [apply O_lex_l|apply O_lex_r]; assumption.
  - destruct Hin as [<-|Hin]; [apply O_deriv_arg|eapply O_deriv_var]; eauto.
  - discriminate.
  - apply in_flat_map in Hin. destruct Hin as ([x c] & Hin & Hp). cbn [fst snd In] in Hp.
    destruct Hp as [<-|[<-|[]]]; [eapply O_pw_expr|eapply O_pw_cond]; eauto.
  - destruct Hin as [<-|[<-|[<-|[<-|[]]]]];
      [apply O_interval_l|apply O_interval_r|destruct (occurs_bool_inv _ _ _ Hocc)|destruct (occurs_bool_inv _ _ _ Hocc)]; assumption.
Qed.
