(* C39 obligation: coeff rejects every x that is not exactly a Symbol or a FunctionSymbol
   (a Dummy included) with NotImplementedError. *)
From SE Require Import C39.CoeffProofs.
Theorem C39_coeff_requires_symbol :
  forall b x n, (forall nm, x <> ESym nm) -> (forall nm args, x <> EFunSym nm args) ->
  coeff b x n = ErrExn EXN_NOTIMPL.
Proof. exact coeff_requires_symbol. Qed.
Print Assumptions C39_coeff_requires_symbol.
