(* C39 -- structural queries of symengine/visitor.{h,cpp}, transcribed on the expression AST:
     get_args of every modelled class (add.cpp, mul.cpp, pow.cpp, functions.{h,cpp}, logic.cpp,
     sets.{h,cpp}, infinity.h), FreeSymbolsVisitor / free_symbols, HasSymbolVisitor / has_symbol,
     AtomsVisitor / atoms<...> / function_symbols.
   (CoeffVisitor / coeff is in CoeffModel.v: it needs the number arithmetic of Num/NumModel.v.)

   Conventions
   - ImageSet(sym, expr, base) and ConditionSet(sym, cond) are written
       EFN TC_ImageSet [sym; expr; base]     EFN TC_ConditionSet [sym; cond]
     (their get_args, __hash__, __eq__ and compare are exactly those of the EFN node: seed =
     type code, members combined / compared in this order).
   - set_basic (std::set ordered by RCPBasicKeyLess) is a list kept sorted by RCPBasicKeyLess
     with linear insertion; uset_basic (std::unordered_set) is a list searched by
     "same hash and eq" (libstdc++: eq(query, stored)); stored keys carry their cached hash.
   - every traversal is fuelled; exhausted fuel sets the [out] flag of the visitor state
     (printed FUEL); [weight] is always enough (QueryProofs.v).
   No proofs here. *)
From SE Require Export Expr.Cmp.
Local Open Scope N_scope.

Definition E0 : expr := ENum (NInt 0).
Definition E1 : expr := ENum (NInt 1).

(* ---------- Number::is_zero / is_one (integer.h, rational.h, complex.h, real_double.h,
   complex_double.h, infinity.h, nan.h) ---------- *)
Definition nis_zero (a : number) : bool :=
  match a with
  | NInt z => (z =? 0)%Z
  | NRat n _ => (n =? 0)%Z
  | NDbl b => dbl_eq b 0                       (* i == 0.0 : both signed zeros *)
  | NCDbl re im => dbl_eq re 0 && dbl_eq im 0
  | NCplx _ _ _ _ | NInf _ | NNaN => false
  end.
Definition nis_one (a : number) : bool :=
  match a with
  | NInt z => (z =? 1)%Z
  | NRat n d => (n =? 1)%Z && (d =? 1)%positive
  | _ => false                                  (* RealDouble::is_one is `return false` *)
  end.

(* eq(e, one): e.__eq__(Integer 1) *)
Definition is_int_one (e : expr) : bool :=
  match e with ENum (NInt z) => (z =? 1)%Z | _ => false end.
(* eq(zero, e): Integer(0).__eq__(e) *)
Definition is_int_zero (e : expr) : bool :=
  match e with ENum (NInt z) => (z =? 0)%Z | _ => false end.

(* ---------- Mul::from_dict (mul.cpp) ---------- *)
Definition mul_from_dict (coef : number) (d : list (expr * expr)) : expr :=
  if nis_zero coef then ENum coef else
  match d with
  | [] => ENum coef
  | [(k, v)] =>
      match v with
      | ENum (NInt z) =>
          if nis_one coef then
            (if (z =? 1)%Z then k                  (* x**1 -> x *)
             else EPow k v)                        (* falls through to "Create a Pow() here" *)
          else EMul coef d
      | _ =>
          if nis_one coef then (if is_int_one v then k else EPow k v)
          else EMul coef d
      end
  | _ => EMul coef d
  end.

(* ---------- Add::from_dict (add.cpp) ---------- *)
(* the single-term case with zero coefficient: the term  v * k  as a Mul *)
Definition add_single (k : expr) (v : number) : expr :=
  let as_mul :=
    match k with
    | EMul _ dk => mul_from_dict v dk             (* the key's own coefficient is not read *)
    | EPow b x => EMul v [(b, x)]
    | _ => EMul v [(k, E1)]
    end in
  match v with
  | NInt z => if (z =? 0)%Z then ENum v else if (z =? 1)%Z then k else as_mul
  | _ => as_mul
  end.
Definition add_from_dict (coef : number) (d : list (expr * number)) : expr :=
  match d with
  | [] => ENum coef
  | [(k, v)] => if nis_zero coef then add_single k v else EAdd coef d
  | _ => EAdd coef d
  end.

(* ---------- get_args ---------- *)
Definition add_term_arg (p : expr * number) : expr :=
  if Cmp.num_eqb (snd p) (NInt 1) then fst p else add_from_dict (NInt 0) [p].
Definition mul_term_arg (p : expr * expr) : expr :=
  if is_int_one (snd p) then fst p else EPow (fst p) (snd p).

Definition get_args (e : expr) : list expr :=
  match e with
  | ENum (NInf d) => [ENum (NInt d)]            (* Infty::get_args = {_direction} *)
  | ENum _ | ESym _ | EDummy _ _ | EConst _ | EBool _ | EAtom _ => []
  | EAdd c d => (if nis_zero c then [] else [ENum c]) ++ map add_term_arg d
  | EMul c d => (if nis_one c then [] else [ENum c]) ++ map mul_term_arg d
  | EPow b x => [b; x]
  | EF1 _ a => [a]
  | EF2 _ a b => [a; b]
  | EFN _ l => l
  | EFunSym _ l => l
  | ELex _ a b => [a; b]
  | EDeriv a xs => a :: xs
  | ESubs a d => a :: map fst d ++ map snd d
  | EPw l => flat_map (fun p => [fst p; snd p]) l
  | EInterval s x lo ro => [s; x; EBool lo; EBool ro]
  end.

(* a measure that strictly decreases from a node to each of its get_args (which need not be
   subterms: Add and Mul build their arguments); used as fuel *)
Fixpoint weight (e : expr) : nat :=
  match e with
  | ENum (NInf _) => 2
  | ENum _ | ESym _ | EDummy _ _ | EConst _ | EBool _ | EAtom _ => 1
  | EAdd _ d => 3 + fold_right (fun p acc => weight (fst p) + 6 + acc) 0 d
  | EMul _ d => 3 + fold_right (fun p acc => weight (fst p) + weight (snd p) + 1 + acc) 0 d
  | EPow b x => 1 + weight b + weight x
  | EF1 _ a => 1 + weight a
  | EF2 _ a b => 1 + weight a + weight b
  | EFN _ l => 1 + fold_right (fun x acc => weight x + acc) 0 l
  | EFunSym _ l => 1 + fold_right (fun x acc => weight x + acc) 0 l
  | ELex _ a b => 1 + weight a + weight b
  | EDeriv a l => 1 + weight a + fold_right (fun x acc => weight x + acc) 0 l
  | ESubs a d => 1 + weight a + fold_right (fun p acc => weight (fst p) + weight (snd p) + acc) 0 d
  | EPw l => 1 + fold_right (fun p acc => weight (fst p) + weight (snd p) + acc) 0 l
  | EInterval s x _ _ => 2 + weight s + weight x
  end%nat.

(* ---------- containers ---------- *)
(* Every stored key carries its hash (Basic::hash() caches it in hash_): [hx] = (hash, tree). *)
Definition hx : Type := (N * expr)%type.
Definition mk_hx (e : expr) : hx := (hash e, e).

(* uset_basic::find / insert: a stored key with the same hash that is eq(query, stored) *)
Definition uset_mem (p : hx) (v : list hx) : bool :=
  existsb (fun q => (fst q =? fst p) && expr_eqb (snd p) (snd q)) v.
Definition uset_insert (p : hx) (v : list hx) : list hx :=
  if uset_mem p v then v else p :: v.

(* RCPBasicKeyLess on keys with cached hashes (= Cmp.expr_keyless on the trees) *)
Definition keyless_h (a b : hx) : bool :=
  if negb (fst a =? fst b) then fst a <? fst b
  else if expr_eqb (snd a) (snd b) then false
  else (expr_cmp (snd a) (snd b) =? -1)%Z.

(* set_basic::insert: a key equivalent to a stored one is dropped *)
Fixpoint set_insert (k : hx) (m : list hx) : list hx :=
  match m with
  | [] => [k]
  | k' :: r =>
      if keyless_h k' k then k' :: set_insert k r
      else if keyless_h k k' then k :: m
      else m
  end.
Definition set_equiv (a b : hx) : bool := negb (keyless_h a b) && negb (keyless_h b a).
(* set_basic::erase(key) *)
Definition set_erase (k : hx) (m : list hx) : list hx :=
  filter (fun y => negb (set_equiv k y)) m.
Definition set_insert_all (xs m : list hx) : list hx :=
  fold_left (fun m x => set_insert x m) xs m.

(* ---------- visitor state shared by FreeSymbolsVisitor and AtomsVisitor ---------- *)
Record vstate := mkV { vs_s : list hx;        (* set_basic s *)
                       vs_v : list hx;        (* uset_basic v / visited *)
                       vs_out : bool }.       (* fuel exhausted somewhere *)
Definition v_empty : vstate := mkV [] [] false.
Definition v_fuel_out (st : vstate) : vstate := mkV (vs_s st) (vs_v st) true.

(* ---------- FreeSymbolsVisitor (visitor.cpp) ---------- *)
Fixpoint fs_visit (fuel : nat) (he : hx) (st : vstate) : vstate :=
  match fuel with
  | O => v_fuel_out st
  | S f =>
      (* for (p : ...) { auto iter = v.insert(p); if (iter.second) p->accept( this ); } *)
      let visit_list := fun (l : list expr) (st : vstate) =>
        fold_left (fun st p =>
                     let hp := mk_hx p in
                     if uset_mem hp (vs_v st) then st
                     else fs_visit f hp (mkV (vs_s st) (hp :: vs_v st) (vs_out st))) l st in
      match snd he with
      | ESym _ | EDummy _ _ =>                      (* bvisit(const Symbol &) -- also Dummy *)
          mkV (set_insert he (vs_s st)) (vs_v st) (vs_out st)
      | ESubs a d =>                                (* bvisit(const Subs &) *)
          let inner := fs_visit f (mk_hx a) v_empty in   (* free_symbols(arg): a fresh visitor *)
          let set_ := fold_left (fun m p => set_erase (mk_hx p) m) (map fst d) (vs_s inner) in
          let st1 := mkV (set_insert_all set_ (vs_s st)) (vs_v st) (vs_out st || vs_out inner) in
          visit_list (map snd d) st1
      | e => visit_list (get_args e) st             (* bvisit(const Basic &) *)
      end
  end.

Definition free_symbols_st (e : expr) : vstate := fs_visit (weight e) (mk_hx e) v_empty.
Definition free_symbols (e : expr) : list expr := map snd (vs_s (free_symbols_st e)).

(* ---------- HasSymbolVisitor + preorder_traversal_stop ---------- *)
Definition hs_hit (x b : expr) : bool :=
  match b with
  | ESym _ | EDummy _ _ | EFunSym _ _ => expr_eqb x b     (* eq(x_, node) *)
  | _ => false
  end.
(* None = fuel exhausted *)
Fixpoint hs_trav (fuel : nat) (x b : expr) : option bool :=
  match fuel with
  | O => None
  | S f =>
      if hs_hit x b then Some true
      else fold_left (fun acc p => match acc with Some false => hs_trav f x p | _ => acc end)
                     (get_args b) (Some false)
  end.
Definition has_symbol (b x : expr) : option bool := hs_trav (weight b) x b.

(* ---------- AtomsVisitor<Args...> (visitor.h) ---------- *)
(* the template arguments used by the driver; [KCode c] is a leaf class given by its type code *)
Inductive akind :=
| KSymbol          (* Symbol: matches Symbol and Dummy (is_base_of) *)
| KDummy
| KFunSym
| KAdd | KMul | KPow
| KNumber          (* Number: every number class *)
| KInteger
| KCode (c : N).

Definition kind_match (k : akind) (e : expr) : bool :=
  match k, e with
  | KSymbol, (ESym _ | EDummy _ _) => true
  | KDummy, EDummy _ _ => true
  | KFunSym, EFunSym _ _ => true
  | KAdd, EAdd _ _ => true
  | KMul, EMul _ _ => true
  | KPow, EPow _ _ => true
  | KNumber, ENum _ => true
  | KInteger, ENum (NInt _) => true
  | KCode c, (EF1 c' _ | EF2 c' _ _ | EFN c' _ | ELex c' _ _ | EAtom c') => c =? c'
  | KCode c, EDeriv _ _ => c =? TC_Derivative
  | KCode c, ESubs _ _ => c =? TC_Subs
  | KCode c, EPw _ => c =? TC_Piecewise
  | KCode c, EInterval _ _ _ _ => c =? TC_Interval
  | KCode c, EConst _ => c =? TC_Constant
  | KCode c, EBool _ => c =? TC_BooleanAtom
  | _, _ => false
  end.
Definition sel_match (ks : list akind) (e : expr) : bool := existsb (fun k => kind_match k e) ks.

Fixpoint at_visit (ks : list akind) (fuel : nat) (he : hx) (st : vstate) : vstate :=
  match fuel with
  | O => v_fuel_out st
  | S f =>
      (* template bvisit(const T &x): s.insert(x); visited.insert(x); then the generic one *)
      let st1 := if sel_match ks (snd he)
                 then mkV (set_insert he (vs_s st)) (uset_insert he (vs_v st)) (vs_out st)
                 else st in
      fold_left (fun st p =>
                   let hp := mk_hx p in
                   if uset_mem hp (vs_v st) then st
                   else at_visit ks f hp (mkV (vs_s st) (hp :: vs_v st) (vs_out st)))
                (get_args (snd he)) st1
  end.
Definition atoms_st (ks : list akind) (e : expr) : vstate := at_visit ks (weight e) (mk_hx e) v_empty.
Definition atoms (ks : list akind) (e : expr) : list expr := map snd (vs_s (atoms_st ks e)).
Definition function_symbols (e : expr) : list expr := atoms [KFunSym] e.

(* ---------- guards (classes of inputs on which the code departs from the property) ---------- *)
(* no ImageSet / ConditionSet node anywhere in the get_args closure: their bound symbol is not
   handled by FreeSymbolsVisitor (generic bvisit) *)
Definition is_set_binder (e : expr) : bool :=
  match e with EFN c _ => (c =? TC_ImageSet) || (c =? TC_ConditionSet) | _ => false end.
Definition is_subs (e : expr) : bool := match e with ESubs _ _ => true | _ => false end.

(* does some node of the raw tree satisfy p *)
Fixpoint any_node (p : expr -> bool) (e : expr) : bool :=
  p e ||
  match e with
  | ENum _ | ESym _ | EDummy _ _ | EConst _ | EBool _ | EAtom _ => false
  | EAdd _ d => existsb (fun q => any_node p (fst q)) d
  | EMul _ d => existsb (fun q => any_node p (fst q) || any_node p (snd q)) d
  | EPow b x => any_node p b || any_node p x
  | EF1 _ a => any_node p a
  | EF2 _ a b => any_node p a || any_node p b
  | EFN _ l => existsb (any_node p) l
  | EFunSym _ l => existsb (any_node p) l
  | ELex _ a b => any_node p a || any_node p b
  | EDeriv a l => any_node p a || existsb (any_node p) l
  | ESubs a d => any_node p a || existsb (fun q => any_node p (fst q) || any_node p (snd q)) d
  | EPw l => existsb (fun q => any_node p (fst q) || any_node p (snd q)) l
  | EInterval s x _ _ => any_node p s || any_node p x
  end.
Definition guard_set_binder (e : expr) : bool := any_node is_set_binder e.
Definition guard_subs (e : expr) : bool := any_node is_subs e.

(* side conditions of the completeness theorems (met by every tree the library builds; the
   checks count the cases that satisfy them):
   - no value of an Add dictionary is zero (Add::dict_add_term never stores one),
   - the keys of one Add dictionary have pairwise different hashes (no 64-bit collision inside
     one dictionary: then unordered_map lookups by "same hash and eq" are unambiguous),
   - the variables of a Subs are Symbols. *)
Definition is_sym (e : expr) : bool :=
  match e with ESym _ | EDummy _ _ => true | _ => false end.
Fixpoint nodupN (l : list N) : bool :=
  match l with
  | [] => true
  | x :: r => negb (existsb (N.eqb x) r) && nodupN r
  end.
Definition bad_node (e : expr) : bool :=
  match e with
  | EAdd _ d => existsb (fun p => nis_zero (snd p)) d || negb (nodupN (map (fun p => hash (fst p)) d))
  | ESubs _ d => existsb (fun p => negb (is_sym (fst p))) d
  | _ => false
  end.
Definition tree_ok (e : expr) : bool := negb (any_node bad_node e).
(* side condition of atoms_complete: no Rational with denominator 1 (Number::is_one then agrees on
   eq numbers) *)
Definition num_ok (n : number) : bool :=
  match n with NRat _ d => negb (d =? 1)%positive | _ => true end.
Definition bad_num_node (e : expr) : bool :=
  match e with
  | ENum n => negb (num_ok n)
  | EAdd c d => negb (num_ok c) || existsb (fun p => negb (num_ok (snd p))) d
  | EMul c _ => negb (num_ok c)
  | _ => false
  end.
Definition nums_ok (e : expr) : bool := negb (any_node bad_num_node e).

(* ---------- printing helper for the OCaml glue: class name of a type code ---------- *)
Fixpoint tc_rfind (c : N) (t : list (list N * N)) : option (list N) :=
  match t with
  | [] => None
  | (n, c') :: r => if c =? c' then Some n else tc_rfind c r
  end.
Definition tc_name (c : N) : option (list N) := tc_rfind c tc_table.
