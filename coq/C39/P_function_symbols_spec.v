(* C39 obligation: function_symbols(e) = the FunctionSymbol subexpressions of e: everything
   returned is one, and every one is represented (up to the library's equality, see
   P_atoms_complete.v). *)
From SE Require Import C39.AtomsComplete.
Theorem C39_function_symbols_spec :
  (forall e x, In x (function_symbols e) -> (exists nm args, x = EFunSym nm args) /\ subarg x e) /\
  (forall e nm args, tree_ok e = true -> nums_ok e = true -> subarg (EFunSym nm args) e ->
     exists y, In y (function_symbols e) /\ same (EFunSym nm args) y).
Proof. split; [exact function_symbols_sound|exact function_symbols_complete]. Qed.
Print Assumptions C39_function_symbols_spec.
