(* C39 obligation: function_symbols(e) = the FunctionSymbol subexpressions of e (completeness
   under closure_exact, see P_atoms_complete_partial.v). *)
From SE Require Import C39.Atoms.
Theorem C39_function_symbols_spec :
  (forall e x, In x (function_symbols e) -> (exists nm args, x = EFunSym nm args) /\ subarg x e) /\
  (forall e nm args, closure_exact e -> subarg (EFunSym nm args) e -> In (EFunSym nm args) (function_symbols e)).
Proof. split; [exact function_symbols_sound|exact function_symbols_complete_partial]. Qed.
Print Assumptions C39_function_symbols_spec.
