(* C39 -- occurrences with an explicit cost index (used for the inductions of the visitor
   proofs), equivalence with the inductive specification [occurs]. *)
From SE Require Export C39.QuerySpec.
From Coq Require Import Lia.
Local Open Scope N_scope.

(* occn B s n e: s occurs in e (mode B) along a path of cost at most n, where entering a key of
   an Add costs 3, a key or exponent of a Mul costs 2 and any other child costs 1.  (With these
   costs every get_args argument that contains the occurrence is strictly cheaper than the node,
   although Add and Mul wrap their arguments in new Mul / Pow nodes.) *)
Fixpoint occn (B : bmode) (s : expr) (n : nat) (e : expr) {struct n} : Prop :=
  match n with
  | O => False
  | S m =>
    (is_sym s = true /\ e = s) \/
    match e with
    | EAdd c d =>
        match m with
        | S (S m') => exists k v, In (k, v) d /\ occn B s m' k
        | _ => False
        end
    | EMul c d =>
        match m with
        | S m' => exists k v, In (k, v) d /\ (occn B s m' k \/ occn B s m' v)
        | _ => False
        end
    | EPow b x => occn B s m b \/ occn B s m x
    | EF1 _ a => occn B s m a
    | EF2 _ a b => occn B s m a \/ occn B s m b
    | EFN c l =>
        if set_binder_node B c l then
          match l with
          | [sym; body; base] => (occn B s m body /\ s <> sym) \/ occn B s m base
          | [sym; cond] => occn B s m cond /\ s <> sym
          | _ => False
          end
        else exists a, In a l /\ occn B s m a
    | EFunSym _ l => exists a, In a l /\ occn B s m a
    | ELex _ a b => occn B s m a \/ occn B s m b
    | EDeriv a xs => occn B s m a \/ exists x, In x xs /\ occn B s m x
    | ESubs a d =>
        (occn B s m a /\ (b_subs B = true -> ~ In s (map fst d)))
        \/ (b_subs B = false /\ exists k v, In (k, v) d /\ occn B s m k)
        \/ (exists k v, In (k, v) d /\ occn B s m v)
    | EPw l => exists x c, In (x, c) l /\ (occn B s m x \/ occn B s m c)
    | EInterval a b _ _ => occn B s m a \/ occn B s m b
    | _ => False
    end
  end.

Lemma occn_mono_aux : forall B s N n n' e, (n <= N)%nat -> (n <= n')%nat ->
  occn B s n e -> occn B s n' e.
Proof.
  intros B s N. induction N as [|N IH]; intros n n' e HN Hle H.
  - assert (n = 0)%nat by lia. subst. destruct H.
  - destruct n as [|m]; [destruct H|].
    destruct n' as [|m']; [lia|].
    cbn [occn] in *. destruct H as [H|H]; [left; exact H|right].
    assert (Hm : (m <= N)%nat) by lia. assert (Hmm : (m <= m')%nat) by lia.
    assert (G : forall e0, occn B s m e0 -> occn B s m' e0) by (intros; eapply IH; eauto).
    destruct e; try exact H.
    + destruct m as [|[|m2]]; try (destruct H; fail).
      destruct m' as [|[|m2']]; try lia.
      destruct H as (k & v & Hin & Hk). exists k, v. split; [exact Hin|].
      eapply (IH m2); [lia| |exact Hk]. lia.
    + destruct m as [|m2]; try (destruct H; fail).
      destruct m' as [|m2']; try lia.
      destruct H as (k & v & Hin & Hk). exists k, v. split; [exact Hin|].
      destruct Hk as [Hk|Hk]; [left|right]; (eapply (IH m2); [lia| |exact Hk]; lia).
    + destruct H as [H|H]; [left|right]; auto.
    + auto.
    + destruct H as [H|H]; [left|right]; auto.
    + destruct (set_binder_node B code args).
      * destruct args as [|a1 [|a2 [|a3 [|a4 r]]]]; try exact H.
        -- destruct H as [H1 H2]. split; auto.
        -- destruct H as [[H1 H2]|H]; [left; split; auto|right; auto].
      * destruct H as (a & Hin & Ha). exists a. split; auto.
    + destruct H as (a & Hin & Ha). exists a. split; auto.
    + destruct H as [H|H]; [left|right]; auto.
    + destruct H as [H|(x & Hin & Hx)]; [left; auto|right; exists x; split; auto].
    + destruct H as [[H1 H2]|[[H1 (k & v & Hin & Hk)]|(k & v & Hin & Hk)]].
      * left. split; auto.
      * right. left. split; auto. exists k, v. split; auto.
      * right. right. exists k, v. split; auto.
    + destruct H as (x & c & Hin & Hx). exists x, c. split; [exact Hin|]. destruct Hx; [left|right]; auto.
    + destruct H as [H|H]; [left|right]; auto.
Qed.

Lemma occn_mono : forall B s n n' e, (n <= n')%nat -> occn B s n e -> occn B s n' e.
Proof. intros. eapply occn_mono_aux; eauto. Qed.

Lemma set_binder_node_3 : forall B c a1 a2 a3,
  set_binder_node B c [a1; a2; a3] = true -> b_sets B = true /\ c = TC_ImageSet.
Proof.
  unfold set_binder_node. intros B c a1 a2 a3 H. cbn [length Nat.eqb] in H.
  apply andb_true_iff in H. destruct H as [H1 H2]. split; [exact H1|].
  rewrite andb_true_r, andb_false_r, orb_false_r in H2. apply N.eqb_eq in H2. exact H2.
Qed.
Lemma set_binder_node_2 : forall B c a1 a2,
  set_binder_node B c [a1; a2] = true -> b_sets B = true /\ c = TC_ConditionSet.
Proof.
  unfold set_binder_node. intros B c a1 a2 H. cbn [length Nat.eqb] in H.
  apply andb_true_iff in H. destruct H as [H1 H2]. split; [exact H1|].
  rewrite andb_true_r, andb_false_r, orb_false_l in H2. apply N.eqb_eq in H2. exact H2.
Qed.
Lemma set_binder_node_imageset : forall B a1 a2 a3, b_sets B = true ->
  set_binder_node B TC_ImageSet [a1; a2; a3] = true.
Proof. intros. unfold set_binder_node. rewrite H. reflexivity. Qed.
Lemma set_binder_node_condset : forall B a1 a2, b_sets B = true ->
  set_binder_node B TC_ConditionSet [a1; a2] = true.
Proof. intros. unfold set_binder_node. rewrite H. reflexivity. Qed.

Lemma occurs_occn : forall B s e, occurs B s e -> exists n, occn B s n e.
Proof.
  intros B s e H. induction H;
    try (destruct IHoccurs as [n IH]).
  - exists 1%nat. cbn. left. auto.
  - exists (S (S (S n))). cbn [occn]. right. exists k, v. auto.
  - exists (S (S n)). cbn [occn]. right. exists k, v. auto.
  - exists (S (S n)). cbn [occn]. right. exists k, v. auto.
  - exists (S n). cbn [occn]. auto.
  - exists (S n). cbn [occn]. auto.
  - exists (S n). cbn [occn]. auto.
  - exists (S n). cbn [occn]. auto.
  - exists (S n). cbn [occn]. auto.
  - exists (S n). cbn [occn]. right. rewrite H. exists a. auto.
  - exists (S n). cbn [occn]. right. rewrite set_binder_node_imageset by assumption. left. auto.
  - exists (S n). cbn [occn]. right. rewrite set_binder_node_imageset by assumption. right. auto.
  - exists (S n). cbn [occn]. right. rewrite set_binder_node_condset by assumption. auto.
  - exists (S n). cbn [occn]. right. exists a. auto.
  - exists (S n). cbn [occn]. auto.
  - exists (S n). cbn [occn]. auto.
  - exists (S n). cbn [occn]. auto.
  - exists (S n). cbn [occn]. right. right. exists x. auto.
  - exists (S n). cbn [occn]. right. left. auto.
  - exists (S n). cbn [occn]. right. right. left. split; [assumption|]. exists k, v. auto.
  - exists (S n). cbn [occn]. right. right. right. exists k, v. auto.
  - exists (S n). cbn [occn]. right. exists x, c. auto.
  - exists (S n). cbn [occn]. right. exists x, c. auto.
  - exists (S n). cbn [occn]. auto.
  - exists (S n). cbn [occn]. auto.
Qed.

Lemma occn_occurs : forall B s n e, occn B s n e -> occurs B s e.
Proof.
  intros B s n. induction n as [|m IH]; intros e H; [destruct H|].
  cbn [occn] in H. destruct H as [[Hs ->]|H]; [apply O_self; exact Hs|].
  destruct e; try (destruct H; fail).
  - destruct m as [|[|m2]]; try (destruct H; fail).
    destruct H as (k & v & Hin & Hk). eapply O_add; [exact Hin|]. apply IH.
    eapply occn_mono; [|exact Hk]. lia.
  - destruct m as [|m2]; try (destruct H; fail).
    destruct H as (k & v & Hin & [Hk|Hk]).
    + eapply O_mul_key; [exact Hin|]. apply IH. eapply occn_mono; [|exact Hk]. lia.
    + eapply O_mul_exp; [exact Hin|]. apply IH. eapply occn_mono; [|exact Hk]. lia.
  - destruct H; [apply O_pow_base|apply O_pow_exp]; auto.
  - apply O_f1; auto.
  - destruct H; [apply O_f2_l|apply O_f2_r]; auto.
  - destruct (set_binder_node B code args) eqn:Hb.
    + destruct args as [|a1 [|a2 [|a3 [|a4 r]]]]; try (destruct H; fail).
      * apply set_binder_node_2 in Hb. destruct Hb as [Hb ->]. destruct H. apply O_condset; auto.
      * apply set_binder_node_3 in Hb. destruct Hb as [Hb ->]. destruct H as [[H1 H2]|H].
        -- apply O_imageset_expr; auto.
        -- apply O_imageset_base; auto.
    + destruct H as (a & Hin & Ha). eapply O_fn; eauto.
  - destruct H as (a & Hin & Ha). eapply O_funsym; eauto.
  - destruct H; [apply O_lex_l|apply O_lex_r]; auto.
  - destruct H as [H|(x & Hin & Hx)]; [apply O_deriv_arg; auto|eapply O_deriv_var; eauto].
  - destruct H as [[H1 H2]|[[H1 (k & v & Hin & Hk)]|(k & v & Hin & Hk)]].
    + apply O_subs_arg; auto.
    + eapply O_subs_var; eauto.
    + eapply O_subs_point; eauto.
  - destruct H as (x & c & Hin & [Hx|Hx]); [eapply O_pw_expr|eapply O_pw_cond]; eauto.
  - destruct H; [apply O_interval_l|apply O_interval_r]; auto.
Qed.

Theorem occurs_iff_occn : forall B s e, occurs B s e <-> exists n, occn B s n e.
Proof. intros. split; [apply occurs_occn|intros [n H]; eapply occn_occurs; eauto]. Qed.
