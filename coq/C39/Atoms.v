(* C39 -- AtomsVisitor / atoms<...> / function_symbols.
   Soundness (exact): every reported element is a subexpression (reachable through get_args)
   of a selected class.  Termination.  Completeness in its exact form: every selected
   subexpression is reported, on trees on which the library's equality (same hash and eq, or
   RCPBasicKeyLess equivalence) identifies no two different subexpression trees ([closure_exact]).
   The set and the memo set work modulo that equality, so in general "reported" can only mean
   "an equal tree is reported": that is AtomsComplete.atoms_complete. *)
From SE Require Export C39.HasSym.
From Coq Require Import Lia.
Local Open Scope N_scope.

Definition at_pre (ks : list akind) (he : hx) (st : vstate) : vstate :=
  if sel_match ks (snd he)
  then mkV (set_insert he (vs_s st)) (uset_insert he (vs_v st)) (vs_out st)
  else st.
Definition at_step (ks : list akind) (f : nat) (st : vstate) (p : expr) : vstate :=
  let hp := mk_hx p in
  if uset_mem hp (vs_v st) then st
  else at_visit ks f hp (mkV (vs_s st) (hp :: vs_v st) (vs_out st)).
Definition at_list (ks : list akind) (f : nat) (l : list expr) (st : vstate) : vstate :=
  fold_left (at_step ks f) l st.
Lemma at_visit_S : forall ks f he st,
  at_visit ks (S f) he st = at_list ks f (get_args (snd he)) (at_pre ks he st).
Proof. reflexivity. Qed.

Lemma subarg_trans : forall x p e, subarg x p -> subarg p e -> subarg x e.
Proof. intros x p e H1 H2. induction H2; [exact H1|]. eapply SA_step; eauto. Qed.
Lemma subarg_arg : forall p e, In p (get_args e) -> subarg p e.
Proof. intros. eapply SA_step; [eassumption|apply SA_refl]. Qed.

(* ---------- soundness and termination ---------- *)
Definition a_sound (ks : list akind) (root : expr) (st : vstate) : Prop :=
  (forall x, In x (vs_s st) -> hx_ok x /\ sel_match ks (snd x) = true /\ subarg (snd x) root) /\
  (forall r, In r (vs_v st) -> hx_ok r /\ subarg (snd r) root).

Lemma at_sound_aux : forall ks root f he st, (weight (snd he) <= f)%nat -> hx_ok he ->
  subarg (snd he) root -> a_sound ks root st ->
  let st' := at_visit ks f he st in
  a_sound ks root st' /\ vs_out st' = vs_out st /\
  (forall x, In x (vs_s st) -> In x (vs_s st')) /\ (forall x, In x (vs_v st) -> In x (vs_v st')).
Proof.
  intros ks root. induction f as [|f IH]; intros he st Hw Hok Hsub Hs; [pose proof (weight_pos (snd he)); lia|].
  cbn zeta. rewrite at_visit_S.
  assert (PRE : a_sound ks root (at_pre ks he st) /\ vs_out (at_pre ks he st) = vs_out st /\
                (forall x, In x (vs_s st) -> In x (vs_s (at_pre ks he st))) /\
                (forall x, In x (vs_v st) -> In x (vs_v (at_pre ks he st)))).
  { unfold at_pre. destruct (sel_match ks (snd he)) eqn:E; [|auto].
    destruct Hs as [Hs1 Hs2]. split; [split|split; [reflexivity|split]]; cbn [vs_s vs_v].
    - intros x Hx. apply set_insert_in in Hx. destruct Hx as [->|Hx]; auto.
    - intros r Hr. unfold uset_insert in Hr. destruct (uset_mem he (vs_v st)); [auto|].
      destruct Hr as [<-|Hr]; auto.
    - intros x Hx. apply set_insert_keep. exact Hx.
    - intros x Hx. unfold uset_insert. destruct (uset_mem he (vs_v st)); [exact Hx|right; exact Hx]. }
  destruct PRE as (P1 & P2 & P3 & P4).
  assert (LIST : forall l st0, (forall p, In p l -> (weight p <= f)%nat /\ subarg p root) -> a_sound ks root st0 ->
            a_sound ks root (at_list ks f l st0) /\ vs_out (at_list ks f l st0) = vs_out st0 /\
            (forall x, In x (vs_s st0) -> In x (vs_s (at_list ks f l st0))) /\
            (forall x, In x (vs_v st0) -> In x (vs_v (at_list ks f l st0)))).
  { induction l as [|p l IHl]; intros st0 Hl Hs0; [cbn [at_list fold_left]; auto|].
    cbn [at_list fold_left]. fold (at_list ks f l (at_step ks f st0 p)).
    destruct (Hl p (or_introl eq_refl)) as [Hwp Hsp].
    assert (STEP : a_sound ks root (at_step ks f st0 p) /\ vs_out (at_step ks f st0 p) = vs_out st0 /\
                   (forall x, In x (vs_s st0) -> In x (vs_s (at_step ks f st0 p))) /\
                   (forall x, In x (vs_v st0) -> In x (vs_v (at_step ks f st0 p)))).
    { unfold at_step. destruct (uset_mem (mk_hx p) (vs_v st0)); [auto|].
      set (st1 := mkV (vs_s st0) (mk_hx p :: vs_v st0) (vs_out st0)).
      assert (Hs1 : a_sound ks root st1).
      { destruct Hs0 as [A1 A2]. split; [exact A1|]. cbn [st1 vs_v]. intros r [<-|Hr]; [split; [apply mk_hx_ok|exact Hsp]|auto]. }
      destruct (IH (mk_hx p) st1 Hwp (mk_hx_ok p) Hsp Hs1) as (Q1 & Q2 & Q3 & Q4).
      split; [exact Q1|]. split; [exact Q2|]. split; [exact Q3|]. intros x Hx. apply Q4. right. exact Hx. }
    destruct STEP as (S1 & S2 & S3 & S4).
    destruct (IHl (at_step ks f st0 p) (fun q Hq => Hl q (or_intror Hq)) S1) as (T1 & T2 & T3 & T4).
    split; [exact T1|]. split; [congruence|]. split; auto. }
  destruct (LIST (get_args (snd he)) (at_pre ks he st)) as (L1 & L2 & L3 & L4).
  - intros p Hp. split; [apply weight_args in Hp; lia|]. eapply subarg_trans; [apply subarg_arg; exact Hp|exact Hsub].
  - exact P1.
  - split; [exact L1|]. split; [congruence|]. split; auto.
Qed.

Lemma a_sound_empty : forall ks root, a_sound ks root v_empty.
Proof. intros. split; intros x []. Qed.

Theorem atoms_terminates : forall ks e, vs_out (atoms_st ks e) = false.
Proof.
  intros ks e. unfold atoms_st.
  destruct (at_sound_aux ks e (weight e) (mk_hx e) v_empty (le_n _) (mk_hx_ok e) (SA_refl e) (a_sound_empty ks e)) as (_ & H & _).
  exact H.
Qed.

Theorem atoms_sound : forall ks e x, In x (atoms ks e) -> sel_match ks x = true /\ subarg x e.
Proof.
  intros ks e x H. unfold atoms in H. apply in_map_iff in H. destruct H as (y & <- & Hy).
  destruct (at_sound_aux ks e (weight e) (mk_hx e) v_empty (le_n _) (mk_hx_ok e) (SA_refl e) (a_sound_empty ks e)) as ((H1 & _) & _).
  destruct (H1 y Hy) as (_ & H2 & H3). auto.
Qed.

(* ---------- completeness ---------- *)
Definition covered_h (p : expr) (V : list hx) : Prop :=
  exists q, In q V /\ (snd q = p \/ (fst q = hash p /\ expr_eqb p (snd q) = true)).
Definition a_done (ks : list akind) (V S : list hx) (r : expr) : Prop :=
  (sel_match ks r = true -> exists y, In y S /\ (y = mk_hx r \/ set_equiv y (mk_hx r) = true)) /\
  (forall p, In p (get_args r) -> covered_h p V).

Lemma covered_h_mono : forall p V V', (forall x, In x V -> In x V') -> covered_h p V -> covered_h p V'.
Proof. intros p V V' H (q & Hq & Hc). exists q. auto. Qed.
Lemma a_done_mono : forall ks V S V' S' r, (forall x, In x V -> In x V') -> (forall x, In x S -> In x S') ->
  a_done ks V S r -> a_done ks V' S' r.
Proof.
  intros ks V S V' S' r HV HS [H1 H2]. split.
  - intros Hsel. destruct (H1 Hsel) as (y & Hy & Hc). exists y. auto.
  - intros p Hp. eapply covered_h_mono; eauto.
Qed.
Lemma uset_mem_covered_h : forall p V, uset_mem (mk_hx p) V = true -> covered_h p V.
Proof.
  intros p V H. unfold uset_mem in H. apply existsb_exists in H. destruct H as (q & Hq & Hc).
  apply andb_true_iff in Hc. destruct Hc as [Hc1 Hc2]. apply N.eqb_eq in Hc1.
  exists q. split; [exact Hq|right; split; [exact Hc1|exact Hc2]].
Qed.

Definition a_post (ks : list akind) (e : expr) (st st' : vstate) : Prop :=
  (forall x, In x (vs_s st) -> In x (vs_s st')) /\
  (forall x, In x (vs_v st) -> In x (vs_v st')) /\
  a_done ks (vs_v st') (vs_s st') e /\
  (forall r, In r (vs_v st') -> In r (vs_v st) \/ a_done ks (vs_v st') (vs_s st') (snd r)).

Lemma hx_ok_eq : forall x, hx_ok x -> x = mk_hx (snd x).
Proof. intros [h e] H. unfold hx_ok in H. cbn [fst snd] in H. subst. reflexivity. Qed.

Lemma at_post_aux : forall ks f he st, (weight (snd he) <= f)%nat -> hx_ok he ->
  a_post ks (snd he) st (at_visit ks f he st).
Proof.
  intros ks. induction f as [|f IH]; intros he st Hw Hok; [pose proof (weight_pos (snd he)); lia|].
  rewrite at_visit_S.
  assert (LIST : forall l st0, (forall p, In p l -> (weight p <= f)%nat) ->
            let st' := at_list ks f l st0 in
            (forall x, In x (vs_s st0) -> In x (vs_s st')) /\
            (forall x, In x (vs_v st0) -> In x (vs_v st')) /\
            (forall p, In p l -> covered_h p (vs_v st')) /\
            (forall r, In r (vs_v st') -> In r (vs_v st0) \/ a_done ks (vs_v st') (vs_s st') (snd r))).
  { induction l as [|p l IHl]; intros st0 Hl; cbn zeta.
    - cbn [at_list fold_left]. split; [auto|]. split; [auto|]. split; [intros p []|auto].
    - cbn [at_list fold_left]. fold (at_list ks f l (at_step ks f st0 p)).
      assert (STEP : let st1 := at_step ks f st0 p in
                (forall x, In x (vs_s st0) -> In x (vs_s st1)) /\
                (forall x, In x (vs_v st0) -> In x (vs_v st1)) /\
                covered_h p (vs_v st1) /\
                (forall r, In r (vs_v st1) -> In r (vs_v st0) \/ a_done ks (vs_v st1) (vs_s st1) (snd r))).
      { cbn zeta. unfold at_step. destruct (uset_mem (mk_hx p) (vs_v st0)) eqn:E.
        - split; [auto|]. split; [auto|]. split; [apply uset_mem_covered_h; exact E|auto].
        - set (st2 := mkV (vs_s st0) (mk_hx p :: vs_v st0) (vs_out st0)).
          destruct (IH (mk_hx p) st2 (Hl p (or_introl eq_refl)) (mk_hx_ok p)) as (P1 & P2 & P3 & P4). cbn [snd mk_hx] in *.
          split; [exact P1|]. split; [|split].
          + intros x Hx. apply P2. right. exact Hx.
          + exists (mk_hx p). split; [apply P2; left; reflexivity|left; reflexivity].
          + intros r Hr. destruct (P4 r Hr) as [Hr'|Hr']; [|right; exact Hr'].
            cbn [st2 vs_v] in Hr'. destruct Hr' as [<-|Hr']; [right; exact P3|left; exact Hr']. }
      cbn zeta in STEP. destruct STEP as (S1 & S2 & S3 & S4).
      specialize (IHl (at_step ks f st0 p) (fun q Hq => Hl q (or_intror Hq))). cbn zeta in IHl.
      destruct IHl as (I1 & I2 & I3 & I4).
      split; [auto|]. split; [auto|]. split.
      + intros q [<-|Hq]; [eapply covered_h_mono; [exact I2|exact S3]|apply I3; exact Hq].
      + intros r Hr. destruct (I4 r Hr) as [Hr'|Hr']; [|right; exact Hr'].
        destruct (S4 r Hr') as [Hr2|Hr2]; [left; exact Hr2|right]. eapply a_done_mono; [exact I2|exact I1|exact Hr2]. }
  destruct (LIST (get_args (snd he)) (at_pre ks he st)) as (L1 & L2 & L3 & L4).
  { intros p Hp. apply weight_args in Hp. lia. }
  assert (P3 : forall x, In x (vs_s st) -> In x (vs_s (at_pre ks he st))).
  { unfold at_pre. destruct (sel_match ks (snd he)); [|auto]. cbn [vs_s]. intros x Hx. apply set_insert_keep. exact Hx. }
  assert (P4 : forall x, In x (vs_v st) -> In x (vs_v (at_pre ks he st))).
  { unfold at_pre. destruct (sel_match ks (snd he)); [|auto]. cbn [vs_v]. intros x Hx.
    unfold uset_insert. destruct (uset_mem he (vs_v st)); [exact Hx|right; exact Hx]. }
  assert (D : a_done ks (vs_v (at_list ks f (get_args (snd he)) (at_pre ks he st)))
                      (vs_s (at_list ks f (get_args (snd he)) (at_pre ks he st))) (snd he)).
  { split; [|exact L3]. intros Hsel.
    assert (G : exists y, In y (vs_s (at_pre ks he st)) /\ (y = he \/ set_equiv y he = true)).
    { unfold at_pre. rewrite Hsel. cbn [vs_s].
      destruct (set_insert_new he (vs_s st)) as [H|(k' & Hk & He)]; [exists he; auto|].
      exists k'. split; [apply set_insert_keep; exact Hk|right; exact He]. }
    destruct G as (y & Hy & Hc). exists y. split; [apply L1; exact Hy|].
    rewrite <- (hx_ok_eq he Hok). exact Hc. }
  split; [auto|]. split; [auto|]. split; [exact D|].
  intros r Hr. destruct (L4 r Hr) as [Hr'|Hr']; [|right; exact Hr'].
  unfold at_pre in Hr'. destruct (sel_match ks (snd he)) eqn:Esel; [|left; exact Hr'].
  cbn [vs_v] in Hr'. unfold uset_insert in Hr'. destruct (uset_mem he (vs_v st)); [left; exact Hr'|].
  destruct Hr' as [<-|Hr']; [right; exact D|left; exact Hr'].
Qed.

(* no two different subexpression trees of e are identified by the library's equality *)
Definition closure_exact (e : expr) : Prop :=
  forall p q, subarg p e -> subarg q e -> hash p = hash q ->
    expr_eqb p q = true \/ set_equiv (mk_hx p) (mk_hx q) = true -> p = q.

Lemma set_equiv_hash : forall a b, set_equiv a b = true -> fst a = fst b.
Proof.
  intros [ha a] [hb b]. unfold set_equiv, keyless_h. cbn [fst snd]. intros H.
  apply andb_true_iff in H. destruct H as [H1 H2]. apply negb_true_iff in H1. apply negb_true_iff in H2.
  destruct (ha =? hb) eqn:E; [apply N.eqb_eq; exact E|].
  assert (E' : (hb =? ha) = false) by (rewrite N.eqb_sym; exact E). rewrite E' in H2. cbn [negb] in *.
  apply N.ltb_ge in H1. apply N.ltb_ge in H2. apply N.le_antisymm; assumption.
Qed.

(* In general the result set holds one representative of each class of the library's equality
   (AtomsComplete.atoms_complete); [closure_exact e] (distinct subexpression trees are never
   identified) makes "a representative" the tree itself. *)
Theorem atoms_complete_exact : forall ks e x, closure_exact e ->
  subarg x e -> sel_match ks x = true -> In x (atoms ks e).
Proof.
  intros ks e x Hex Hsub Hsel. unfold atoms, atoms_st.
  destruct (at_post_aux ks (weight e) (mk_hx e) v_empty (le_n _) (mk_hx_ok e)) as (_ & _ & P3 & P4).
  destruct (at_sound_aux ks e (weight e) (mk_hx e) v_empty (le_n _) (mk_hx_ok e) (SA_refl e) (a_sound_empty ks e))
    as ((Q1 & Q2) & _).
  cbn [snd mk_hx] in *. set (st := at_visit ks (weight e) (mk_hx e) v_empty) in *.
  assert (ALL : forall r, (r = e \/ In r (map snd (vs_v st))) -> a_done ks (vs_v st) (vs_s st) r /\ subarg r e).
  { intros r [->|Hr]; [split; [exact P3|apply SA_refl]|].
    apply in_map_iff in Hr. destruct Hr as (y & <- & Hy). split; [|apply Q2; exact Hy].
    destruct (P4 y Hy) as [[]|Hd]. exact Hd. }
  assert (COVER : forall r, subarg x r -> (r = e \/ In r (map snd (vs_v st))) -> In x (map snd (vs_s st))).
  { intros r H. induction H as [r|x p r Hp Hx IH]; intros Hr.
    - destruct (ALL r Hr) as [[D1 _] Hre]. destruct (D1 Hsel) as (y & Hy & Hc).
      destruct (Q1 y Hy) as (Y1 & Y2 & Y3).
      destruct Hc as [->|Hc]; [apply in_map_iff; exists (mk_hx r); auto|].
      assert (snd y = r).
      { apply Hex; auto.
        - apply set_equiv_hash in Hc. cbn [fst mk_hx] in Hc. unfold hx_ok in Y1. congruence.
        - right. rewrite <- (hx_ok_eq y Y1). exact Hc. }
      subst r. apply in_map. exact Hy.
    - destruct (ALL r Hr) as [[_ D2] Hre]. destruct (D2 p Hp) as (q & Hq & Hc).
      destruct (Q2 q Hq) as (Y1 & Y2).
      assert (snd q = p).
      { destruct Hc as [Hc|[Hc1 Hc2]]; [exact Hc|]. symmetry. apply Hex; auto.
        - eapply subarg_trans; [apply subarg_arg; exact Hp|exact Hre].
        - unfold hx_ok in Y1. congruence. }
      apply IH; auto. right. rewrite <- H. apply in_map. exact Hq. }
  apply (COVER e Hsub). left. reflexivity.
Qed.

(* function_symbols = atoms<FunctionSymbol> *)
Theorem function_symbols_sound : forall e x, In x (function_symbols e) ->
  (exists nm args, x = EFunSym nm args) /\ subarg x e.
Proof.
  intros e x H. apply atoms_sound in H. destruct H as [H1 H2]. split; [|exact H2].
  unfold sel_match in H1. cbn [existsb] in H1. rewrite orb_false_r in H1.
  destruct x; try discriminate. eauto.
Qed.
Theorem function_symbols_complete_exact : forall e nm args, closure_exact e ->
  subarg (EFunSym nm args) e -> In (EFunSym nm args) (function_symbols e).
Proof. intros. apply atoms_complete_exact; auto. Qed.
