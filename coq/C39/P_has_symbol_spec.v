(* C39 obligation: has_symbol(b, x) always answers, and answers true exactly when some node
   reachable from b through get_args is a Symbol / FunctionSymbol eq to x. *)
From SE Require Import C39.HasSym.
Theorem C39_has_symbol_spec :
  forall b x, exists r, has_symbol b x = Some r /\
    (r = true <-> exists t, subarg t b /\ hs_hit x t = true).
Proof. exact has_symbol_spec. Qed.
Print Assumptions C39_has_symbol_spec.
