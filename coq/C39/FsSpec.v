(* C39 -- free_symbols against the property's notion occurs_free (Subs, ImageSet and
   ConditionSet bind): the guarded theorem and the refutation. *)
From SE Require Export C39.FsComplete.
From Coq Require Import Lia.
Local Open Scope N_scope.

Lemma any_node_false : forall p e, any_node p e = false ->
  p e = false /\ forall c, In c (rchildren e) -> any_node p c = false.
Proof.
  intros p e H. rewrite any_node_children in H. apply orb_false_iff in H. destruct H as [H1 H2].
  split; [exact H1|]. intros c Hc. destruct (any_node p c) eqn:E; [|reflexivity].
  assert (existsb (any_node p) (rchildren e) = true) by (apply existsb_exists; exists c; auto). congruence.
Qed.

Ltac child_guard H :=
  match goal with
  | |- any_node _ ?c = false => apply (proj2 (any_node_false _ _ H)); cbn [rchildren In];
      eauto using in_flat_l, in_flat_r, in_map, in_eq, in_cons
  end.

Lemma in_keys : forall (k : expr) (v : number) d, In (k, v) d -> In k (map fst d).
Proof. intros. apply in_map_iff. exists (k, v). auto. Qed.

(* without ImageSet / ConditionSet nodes the code's notion is the property's notion *)
Lemma occurs_code_all : forall s e, guard_set_binder e = false -> occurs B_code s e -> occurs B_all s e.
Proof.
  intros s e Hg H. unfold guard_set_binder in Hg. induction H.
  - apply O_self; assumption.
  - eapply O_add; eauto. apply IHoccurs. child_guard Hg. eapply in_keys; eauto.
  - eapply O_mul_key; eauto. apply IHoccurs. child_guard Hg.
  - eapply O_mul_exp; eauto. apply IHoccurs. child_guard Hg.
  - apply O_pow_base. apply IHoccurs. child_guard Hg.
  - apply O_pow_exp. apply IHoccurs. child_guard Hg.
  - apply O_f1. apply IHoccurs. child_guard Hg.
  - apply O_f2_l. apply IHoccurs. child_guard Hg.
  - apply O_f2_r. apply IHoccurs. child_guard Hg.
  - eapply O_fn; eauto.
    + destruct (any_node_false _ _ Hg) as [Hb _]. cbn [is_set_binder] in Hb.
      apply orb_false_iff in Hb. destruct Hb as [Hb1 Hb2]. unfold set_binder_node. rewrite Hb1, Hb2. reflexivity.
    + apply IHoccurs. child_guard Hg.
  - discriminate.
  - discriminate.
  - discriminate.
  - eapply O_funsym; eauto. apply IHoccurs. child_guard Hg.
  - apply O_lex_l. apply IHoccurs. child_guard Hg.
  - apply O_lex_r. apply IHoccurs. child_guard Hg.
  - apply O_deriv_arg. apply IHoccurs. child_guard Hg.
  - eapply O_deriv_var; eauto. apply IHoccurs. child_guard Hg.
  - apply O_subs_arg; [|assumption]. apply IHoccurs. child_guard Hg.
  - discriminate.
  - eapply O_subs_point; eauto. apply IHoccurs. child_guard Hg.
  - eapply O_pw_expr; eauto. apply IHoccurs. child_guard Hg.
  - eapply O_pw_cond; eauto. apply IHoccurs. child_guard Hg.
  - apply O_interval_l. apply IHoccurs. child_guard Hg.
  - apply O_interval_r. apply IHoccurs. child_guard Hg.
Qed.

Lemma occurs_all_code : forall s e, guard_set_binder e = false -> occurs B_all s e -> occurs B_code s e.
Proof.
  intros s e Hg H. unfold guard_set_binder in Hg. induction H.
  - apply O_self; assumption.
  - eapply O_add; eauto. apply IHoccurs. child_guard Hg. eapply in_keys; eauto.
  - eapply O_mul_key; eauto. apply IHoccurs. child_guard Hg.
  - eapply O_mul_exp; eauto. apply IHoccurs. child_guard Hg.
  - apply O_pow_base. apply IHoccurs. child_guard Hg.
  - apply O_pow_exp. apply IHoccurs. child_guard Hg.
  - apply O_f1. apply IHoccurs. child_guard Hg.
  - apply O_f2_l. apply IHoccurs. child_guard Hg.
  - apply O_f2_r. apply IHoccurs. child_guard Hg.
  - eapply O_fn; eauto. apply IHoccurs. child_guard Hg.
  - destruct (any_node_false _ _ Hg) as [Hb _]. discriminate.
  - destruct (any_node_false _ _ Hg) as [Hb _]. discriminate.
  - destruct (any_node_false _ _ Hg) as [Hb _]. discriminate.
  - eapply O_funsym; eauto. apply IHoccurs. child_guard Hg.
  - apply O_lex_l. apply IHoccurs. child_guard Hg.
  - apply O_lex_r. apply IHoccurs. child_guard Hg.
  - apply O_deriv_arg. apply IHoccurs. child_guard Hg.
  - eapply O_deriv_var; eauto. apply IHoccurs. child_guard Hg.
  - apply O_subs_arg; [|assumption]. apply IHoccurs. child_guard Hg.
  - discriminate.
  - eapply O_subs_point; eauto. apply IHoccurs. child_guard Hg.
  - eapply O_pw_expr; eauto. apply IHoccurs. child_guard Hg.
  - eapply O_pw_cond; eauto. apply IHoccurs. child_guard Hg.
  - apply O_interval_l. apply IHoccurs. child_guard Hg.
  - apply O_interval_r. apply IHoccurs. child_guard Hg.
Qed.

(* the property, on trees without ImageSet / ConditionSet *)
Theorem free_symbols_spec_guarded : forall e, tree_ok e = true -> guard_set_binder e = false ->
  forall s, In s (free_symbols e) <-> occurs_free s e.
Proof.
  intros e Hok Hg s. destruct (free_symbols_code_spec e Hok) as [_ H]. rewrite H. unfold occurs_code, occurs_free.
  split; [apply occurs_code_all|apply occurs_all_code]; exact Hg.
Qed.

(* the defect: the bound symbol of an ImageSet (ConditionSet) is reported free *)
Definition sym_x : expr := ESym [120].
Definition sym_y : expr := ESym [121].
Definition wit_imageset : expr :=           (* ImageSet(x, x**2, Reals) *)
  EFN TC_ImageSet [sym_x; EPow sym_x (ENum (NInt 2)); EAtom TC_Reals].
Definition wit_condset : expr :=            (* ConditionSet(x, y < x) *)
  EFN TC_ConditionSet [sym_x; EF2 TC_StrictLessThan sym_y sym_x].

Theorem free_symbols_refuted :
  exists e s, tree_ok e = true /\ In s (free_symbols e) /\ ~ occurs_free s e.
Proof.
  exists wit_imageset, sym_x. split; [reflexivity|]. split; [vm_compute; left; reflexivity|].
  intros H. apply occurs_occn in H. destruct H as [n H]. destruct n; [destruct H|].
  cbn [occn wit_imageset] in H. destruct H as [[_ H]|H]; [discriminate|].
  change (set_binder_node B_all TC_ImageSet [sym_x; EPow sym_x (ENum (NInt 2)); EAtom TC_Reals]) with true in H.
  cbv iota in H. destruct H as [[_ H]|H]; [apply H; reflexivity|].
  destruct n; [destruct H|]. cbn [occn] in H. destruct H as [[_ H]|H]; [discriminate|exact H].
Qed.
Theorem free_symbols_refuted_condset :
  In sym_x (free_symbols wit_condset) /\ ~ occurs_free sym_x wit_condset.
Proof.
  split; [vm_compute; left; reflexivity|].
  intros H. apply occurs_occn in H. destruct H as [n H]. destruct n; [destruct H|].
  cbn [occn wit_condset] in H. destruct H as [[_ H]|H]; [discriminate|].
  change (set_binder_node B_all TC_ConditionSet [sym_x; EF2 TC_StrictLessThan sym_y sym_x]) with true in H.
  cbv iota in H. destruct H as [_ H]. apply H. reflexivity.
Qed.
