(* C39 obligation: soundness of free_symbols with no side condition at all: everything reported
   is a Symbol that occurs (outside the binding of a Subs). *)
From SE Require Import C39.FsSound.
Theorem C39_free_symbols_sound :
  forall e s, In s (free_symbols e) -> is_sym s = true /\ occurs_code s e.
Proof. exact fs_sound. Qed.
Print Assumptions C39_free_symbols_sound.
