(* C39 -- HasSymbolVisitor / has_symbol: it answers true exactly when some node reachable
   through get_args is eq to the argument; for a Symbol argument this is "the symbol occurs
   anywhere" (bound positions included), hence it agrees with free_symbols on trees without
   Subs nodes and disagrees on a bound variable of a Subs. *)
From SE Require Export C39.FsSpec.
From Coq Require Import Lia.
Local Open Scope N_scope.

Definition hs_step (f : nat) (x : expr) (acc : option bool) (p : expr) : option bool :=
  match acc with Some false => hs_trav f x p | _ => acc end.

Lemma hs_trav_S : forall f x b, hs_trav (S f) x b =
  if hs_hit x b then Some true else fold_left (hs_step f x) (get_args b) (Some false).
Proof. reflexivity. Qed.

Definition hits (x b : expr) : Prop := exists t, subarg t b /\ hs_hit x t = true.

Lemma hs_trav_spec : forall x f b, (weight b <= f)%nat ->
  exists r, hs_trav f x b = Some r /\ (r = true <-> hits x b).
Proof.
  intros x. induction f as [|f IH]; intros b Hw; [pose proof (weight_pos b); lia|].
  rewrite hs_trav_S. destruct (hs_hit x b) eqn:E.
  - exists true. split; [reflexivity|]. split; [|reflexivity]. intros _. exists b. split; [apply SA_refl|exact E].
  - assert (FOLD : forall l a, (forall p, In p l -> (weight p <= f)%nat) ->
              exists r, fold_left (hs_step f x) l (Some a) = Some r /\
                        (r = true <-> a = true \/ exists p, In p l /\ hits x p)).
    { induction l as [|p l IHl]; intros a Hl; cbn [fold_left].
      - exists a. split; [reflexivity|]. split; [auto|]. intros [H|(p & [] & _)]. exact H.
      - destruct a; cbn [hs_step].
        + destruct (IHl true (fun q Hq => Hl q (or_intror Hq))) as (r & Hr & Hiff).
          exists r. split; [exact Hr|]. rewrite Hiff. split; auto.
        + destruct (IH p (Hl p (or_introl eq_refl))) as (rp & Hrp & Hp). rewrite Hrp.
          destruct (IHl rp (fun q Hq => Hl q (or_intror Hq))) as (r & Hr & Hiff).
          exists r. split; [exact Hr|]. rewrite Hiff. split.
          * intros [H|(q & Hq & Hh)]; right; [exists p; split; [left; reflexivity|apply Hp; exact H]|exists q; split; [right; exact Hq|exact Hh]].
          * intros [H|(q & [<-|Hq] & Hh)]; [discriminate|left; apply Hp; exact Hh|right; exists q; auto]. }
    destruct (FOLD (get_args b) false) as (r & Hr & Hiff).
    + intros p Hp. apply weight_args in Hp. lia.
    + exists r. split; [exact Hr|]. rewrite Hiff. split.
      * intros [H|(p & Hp & t & Ht & Hh)]; [discriminate|]. exists t. split; [eapply SA_step; eauto|exact Hh].
      * intros (t & Ht & Hh). right. inversion Ht; subst; [congruence|]. exists p. split; [assumption|]. exists t. auto.
Qed.

Theorem has_symbol_spec : forall b x,
  exists r, has_symbol b x = Some r /\ (r = true <-> hits x b).
Proof. intros. apply hs_trav_spec. apply le_n. Qed.

(* ---------- a Symbol argument: every occurrence counts ---------- *)
Lemma hs_hit_sym : forall x t, is_sym x = true -> (hs_hit x t = true <-> t = x).
Proof.
  intros x t Hx. split.
  - unfold hs_hit. destruct t; try discriminate; intros H; apply (sym_eqb_l x _ Hx H).
  - intros ->. unfold hs_hit. destruct x; try discriminate; apply sym_eqb_refl; reflexivity.
Qed.

Lemma subarg_occurs_any : forall x b, is_sym x = true -> subarg x b -> occurs_any x b.
Proof.
  intros x b Hx H. induction H.
  - apply O_self. exact Hx.
  - specialize (IHsubarg Hx). destruct (is_subs e) eqn:E.
    + destruct e; try discriminate. cbn [get_args] in H. destruct H as [<-|H].
      * apply O_subs_arg; [exact IHsubarg|discriminate].
      * apply in_app_or in H. destruct H as [H|H]; apply in_map_iff in H; destruct H as ([k v] & <- & Hin).
        -- eapply O_subs_var; eauto.
        -- eapply O_subs_point; eauto.
    + eapply occ_arg_up; eauto.
Qed.

Lemma occn_any_subarg : forall n x b, tree_ok b = true -> occn B_none x n b -> subarg x b.
Proof.
  induction n as [n IH] using lt_wf_ind. intros x b Hok H.
  destruct n as [|m]; [destruct H|].
  assert (D : (is_sym x = true /\ b = x) \/ ~ (is_sym x = true /\ b = x)).
  { destruct (is_sym b) eqn:Eb.
    - cbn [occn] in H. destruct H as [Hb|Hst]; [left; exact Hb|]. destruct b; try discriminate; destruct Hst.
    - right. intros [Hs ->]. congruence. }
  destruct D as [[_ ->]|D]; [apply SA_refl|].
  destruct (is_subs b) eqn:E.
  - destruct b; try discriminate. cbn [occn] in H. destruct H as [Hb|H]; [contradiction|].
    assert (Ha : forall t, In t (get_args (ESubs b d)) -> occn B_none x m t -> subarg x (ESubs b d)).
    { intros t Ht Hoc. eapply SA_step; [exact Ht|]. apply (IH m (Nat.lt_succ_diag_r m)); [eapply tree_ok_args; eauto|exact Hoc]. }
    destruct H as [[H1 _]|[[_ (k & v & Hin & Hk)]|(k & v & Hin & Hv)]].
    + apply (Ha b); [left; reflexivity|exact H1].
    + apply (Ha k); [|exact Hk]. cbn [get_args]. right. apply in_or_app. left. apply in_map_iff. exists (k, v). auto.
    + apply (Ha v); [|exact Hv]. cbn [get_args]. right. apply in_or_app. right. apply in_map_iff. exists (k, v). auto.
  - destruct (occn_arg_down B_none x m b eq_refl Hok E H D) as (t & Ht & Hoc).
    eapply SA_step; [exact Ht|]. apply (IH m (Nat.lt_succ_diag_r m)); [eapply tree_ok_args; eauto|exact Hoc].
Qed.

Theorem has_symbol_occurs_any : forall b x, tree_ok b = true -> is_sym x = true ->
  (has_symbol b x = Some true <-> occurs_any x b).
Proof.
  intros b x Hok Hx. destruct (has_symbol_spec b x) as (r & Hr & Hiff). rewrite Hr. split.
  - intros H. inversion H; subst. destruct (proj1 Hiff eq_refl) as (t & Ht & Hh).
    apply (hs_hit_sym x t Hx) in Hh. subst. apply subarg_occurs_any; assumption.
  - intros H. apply occurs_occn in H. destruct H as [n H]. f_equal. apply Hiff.
    exists x. split; [eapply occn_any_subarg; eauto|apply (hs_hit_sym x x Hx); reflexivity].
Qed.

(* ---------- agreement with free_symbols ---------- *)
Lemma occurs_any_code : forall s e, guard_subs e = false -> occurs B_none s e -> occurs B_code s e.
Proof.
  intros s e Hg H. unfold guard_subs in Hg. induction H.
  - apply O_self; assumption.
  - eapply O_add; eauto. apply IHoccurs. child_guard Hg. eapply in_keys; eauto.
  - eapply O_mul_key; eauto. apply IHoccurs. child_guard Hg.
  - eapply O_mul_exp; eauto. apply IHoccurs. child_guard Hg.
  - apply O_pow_base. apply IHoccurs. child_guard Hg.
  - apply O_pow_exp. apply IHoccurs. child_guard Hg.
  - apply O_f1. apply IHoccurs. child_guard Hg.
  - apply O_f2_l. apply IHoccurs. child_guard Hg.
  - apply O_f2_r. apply IHoccurs. child_guard Hg.
  - eapply O_fn; eauto. apply IHoccurs. child_guard Hg.
  - discriminate.
  - discriminate.
  - discriminate.
  - eapply O_funsym; eauto. apply IHoccurs. child_guard Hg.
  - apply O_lex_l. apply IHoccurs. child_guard Hg.
  - apply O_lex_r. apply IHoccurs. child_guard Hg.
  - apply O_deriv_arg. apply IHoccurs. child_guard Hg.
  - eapply O_deriv_var; eauto. apply IHoccurs. child_guard Hg.
  - destruct (any_node_false _ _ Hg) as [Hb _]. discriminate.
  - destruct (any_node_false _ _ Hg) as [Hb _]. discriminate.
  - destruct (any_node_false _ _ Hg) as [Hb _]. discriminate.
  - eapply O_pw_expr; eauto. apply IHoccurs. child_guard Hg.
  - eapply O_pw_cond; eauto. apply IHoccurs. child_guard Hg.
  - apply O_interval_l. apply IHoccurs. child_guard Hg.
  - apply O_interval_r. apply IHoccurs. child_guard Hg.
Qed.
Lemma occurs_code_any : forall s e, occurs B_code s e -> occurs B_none s e.
Proof.
  intros s e H. induction H; try (econstructor; eauto; fail).
Qed.

Theorem has_symbol_agrees_guarded : forall e s, tree_ok e = true -> guard_subs e = false ->
  is_sym s = true -> (has_symbol e s = Some true <-> In s (free_symbols e)).
Proof.
  intros e s Hok Hg Hs. rewrite (has_symbol_occurs_any e s Hok Hs).
  destruct (free_symbols_code_spec e Hok) as [_ H]. rewrite H. unfold occurs_any, occurs_code.
  split; [apply occurs_any_code; exact Hg|apply occurs_code_any].
Qed.

(* the defect: the bound variable of a Subs *)
Definition sym_z : expr := ESym [122].
Definition wit_subs : expr :=                (* Subs(Derivative(f(x, y), x), {x: z}) *)
  ESubs (EDeriv (EFunSym [102] [sym_x; sym_y]) [sym_x]) [(sym_x, sym_z)].

Theorem has_symbol_agrees_refuted :
  exists e s, tree_ok e = true /\ is_sym s = true /\
    has_symbol e s = Some true /\ ~ In s (free_symbols e).
Proof.
  exists wit_subs, sym_x. split; [reflexivity|]. split; [reflexivity|]. split; [vm_compute; reflexivity|].
  vm_compute. intros [H|[H|[]]]; discriminate.
Qed.
