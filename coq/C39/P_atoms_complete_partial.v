(* C39 obligation (partial): every subexpression of a selected class is returned, for trees on
   which the library's equality identifies no two different subexpression trees (closure_exact).
   Full statement (not proved): for every tree_ok e,
     subarg x e -> sel_match ks x = true -> exists y, In y (atoms ks e) /\ x and y are related by
     the closure of "same hash and eq" / RCPBasicKeyLess equivalence
   -- missing: eq is a congruence for the Mul / Pow nodes built by Add::get_args / Mul::get_args. *)
From SE Require Import C39.Atoms.
Theorem C39_atoms_complete_partial :
  forall ks e x, closure_exact e -> subarg x e -> sel_match ks x = true -> In x (atoms ks e).
Proof. exact atoms_complete_partial. Qed.
Print Assumptions C39_atoms_complete_partial.
