(* C39 obligation: the exact form of completeness: on trees whose different subexpression trees
   are never identified by the library's equality (closure_exact), every subexpression of a
   selected class is itself in atoms<Args...>(e). *)
From SE Require Import C39.Atoms.
Theorem C39_atoms_complete_exact :
  forall ks e x, closure_exact e -> subarg x e -> sel_match ks x = true -> In x (atoms ks e).
Proof. exact atoms_complete_exact. Qed.
Print Assumptions C39_atoms_complete_exact.
