(* C39 -- basic lemmas: eq / RCPBasicKeyLess on symbols, the set containers, the fuel measure. *)
From SE Require Export C39.OccProofs.
From SE Require Import Expr.Unfold.
From Coq Require Import Lia ZifyBool ZifyNat ZifyN.
Local Open Scope N_scope.

(* ---------- eq on symbols is syntactic equality ---------- *)
Lemma sym_eqb_l : forall s b, is_sym s = true -> expr_eqb s b = true -> b = s.
Proof.
  intros s b Hs. rewrite expr_eqb_unfold.
  destruct s; try discriminate; destruct b; cbn [eqb_body]; try discriminate; intros H.
  - apply bytes_eqb_eq in H. subst. reflexivity.
  - apply andb_true_iff in H. destruct H as [H1 H2]. apply bytes_eqb_eq in H1. apply N.eqb_eq in H2.
    subst. reflexivity.
Qed.
Lemma sym_eqb_r : forall s b, is_sym s = true -> expr_eqb b s = true -> b = s.
Proof.
  intros s b Hs. rewrite expr_eqb_unfold.
  destruct s; try discriminate; destruct b; cbn [eqb_body]; try discriminate; intros H.
  - apply bytes_eqb_eq in H. subst. reflexivity.
  - apply andb_true_iff in H. destruct H as [H1 H2]. apply bytes_eqb_eq in H1. apply N.eqb_eq in H2.
    subst. reflexivity.
Qed.
Lemma sym_eqb_refl : forall s, is_sym s = true -> expr_eqb s s = true.
Proof.
  intros s Hs. rewrite expr_eqb_unfold. destruct s; try discriminate; cbn [eqb_body].
  - apply bytes_eqb_refl.
  - rewrite bytes_eqb_refl, N.eqb_refl. reflexivity.
Qed.

(* compare on two symbols: "neither is less" means equal *)
Lemma sym_cmp_eq : forall a b, is_sym a = true -> is_sym b = true ->
  expr_cmp a b <> (-1)%Z -> expr_cmp b a <> (-1)%Z -> a = b.
Proof.
  intros a b Ha Hb. rewrite !expr_cmp_unfold. unfold cmp_body.
  destruct a; try discriminate; destruct b; try discriminate; cbn [type_code cmp_same].
  - rewrite N.eqb_refl. cbn [negb]. intros H1 H2.
    pose proof (bytes_cmp_range name name0) as R. pose proof (bytes_cmp_antisym name name0) as A.
    unfold in_range in R. assert (bytes_cmp name name0 = 0%Z) by lia.
    apply bytes_cmp_eq in H. subst. reflexivity.
  - intros H1 H2. exfalso. apply H1. reflexivity.
  - intros H1 H2. exfalso. apply H2. reflexivity.
  - rewrite N.eqb_refl. cbn [negb]. intros H1 H2.
    destruct (bytes_eqb name name0) eqn:E.
    + apply bytes_eqb_eq in E. subst. rewrite bytes_eqb_refl in H2.
      unfold Ncmp in *. pose proof (Zcmp_range (Z.of_N idx) (Z.of_N idx0)) as R.
      pose proof (Zcmp_antisym (Z.of_N idx) (Z.of_N idx0)) as A. unfold in_range in R.
      assert (Zcmp (Z.of_N idx) (Z.of_N idx0) = 0%Z) by lia.
      apply -> Zcmp_eq in H. apply N2Z.inj in H. subst. reflexivity.
    + assert (E' : bytes_eqb name0 name = false).
      { destruct (bytes_eqb name0 name) eqn:E2; [|reflexivity]. apply bytes_eqb_eq in E2. subst.
        rewrite bytes_eqb_refl in E. discriminate. }
      rewrite E' in H2.
      pose proof (bytes_cmp_range name name0) as R. pose proof (bytes_cmp_antisym name name0) as A.
      unfold in_range in R. assert (bytes_cmp name name0 = 0%Z) by lia.
      apply bytes_cmp_eq in H. subst. rewrite bytes_eqb_refl in E. discriminate.
Qed.

(* ---------- RCPBasicKeyLess equivalence on symbols ---------- *)
Lemma set_equiv_sym : forall a b, is_sym (snd a) = true -> is_sym (snd b) = true ->
  set_equiv a b = true -> snd a = snd b.
Proof.
  intros [ha a] [hb b]. cbn [fst snd]. intros Ha Hb. unfold set_equiv, keyless_h. cbn [fst snd].
  intros H. apply andb_true_iff in H. destruct H as [H1 H2].
  apply negb_true_iff in H1. apply negb_true_iff in H2.
  destruct (ha =? hb) eqn:E.
  - apply N.eqb_eq in E. subst hb. rewrite N.eqb_refl in H2. cbn [negb] in *.
    destruct (expr_eqb a b) eqn:E1.
    + symmetry. apply (sym_eqb_l a b Ha E1).
    + destruct (expr_eqb b a) eqn:E2.
      * symmetry. apply (sym_eqb_r a b Ha E2).
      * apply sym_cmp_eq; auto; lia.
  - assert (E' : (hb =? ha) = false) by lia. rewrite E' in H2. cbn [negb] in *. lia.
Qed.
Lemma set_equiv_same_sym : forall h a, is_sym a = true -> set_equiv (h, a) (h, a) = true.
Proof.
  intros h a Ha. unfold set_equiv, keyless_h. cbn [fst snd]. rewrite N.eqb_refl. cbn [negb].
  rewrite (sym_eqb_refl a Ha). reflexivity.
Qed.

(* ---------- set_basic ---------- *)
Lemma set_insert_in : forall k m x, In x (set_insert k m) -> x = k \/ In x m.
Proof.
  intros k m. induction m as [|k' r IH]; cbn [set_insert]; intros x H.
  - destruct H as [H|[]]; auto.
  - destruct (keyless_h k' k).
    + destruct H as [H|H]; [right; left; exact H|]. apply IH in H. destruct H; [left|right; right]; auto.
    + destruct (keyless_h k k'); [destruct H as [H|H]; [left; auto|right; exact H]|right; exact H].
Qed.
Lemma set_insert_keep : forall k m x, In x m -> In x (set_insert k m).
Proof.
  intros k m. induction m as [|k' r IH]; cbn [set_insert]; intros x H; [destruct H|].
  destruct (keyless_h k' k).
  - destruct H as [H|H]; [left; exact H|right; apply IH; exact H].
  - destruct (keyless_h k k'); [right; exact H|exact H].
Qed.
(* the inserted key is present afterwards, up to the comparator's equivalence *)
Lemma set_insert_new : forall k m, In k (set_insert k m) \/ exists k', In k' m /\ set_equiv k' k = true.
Proof.
  intros k m. induction m as [|k' r IH]; cbn [set_insert]; [left; left; reflexivity|].
  destruct (keyless_h k' k) eqn:E1.
  - destruct IH as [IH|(k2 & Hin & He)]; [left; right; exact IH|right; exists k2; split; [right; exact Hin|exact He]].
  - destruct (keyless_h k k') eqn:E2; [left; left; reflexivity|].
    right. exists k'. split; [left; reflexivity|]. unfold set_equiv. rewrite E1, E2. reflexivity.
Qed.
Lemma set_insert_new_sym : forall k m, is_sym (snd k) = true ->
  (forall y, In y m -> is_sym (snd y) = true) -> In (snd k) (map snd (set_insert k m)).
Proof.
  intros k m Hk Hm. destruct (set_insert_new k m) as [H|(k' & Hin & He)].
  - apply in_map. exact H.
  - apply set_equiv_sym in He; auto. rewrite <- He. apply in_map. apply set_insert_keep. exact Hin.
Qed.

Lemma set_insert_all_in : forall xs m x, In x (set_insert_all xs m) -> In x xs \/ In x m.
Proof.
  induction xs as [|a xs IH]; cbn [set_insert_all fold_left]; intros m x H; [right; exact H|].
  apply IH in H. destruct H as [H|H]; [left; right; exact H|].
  apply set_insert_in in H. destruct H as [->|H]; [left; left; reflexivity|right; exact H].
Qed.
Lemma set_insert_all_keep : forall xs m x, In x m -> In x (set_insert_all xs m).
Proof.
  induction xs as [|a xs IH]; cbn [set_insert_all fold_left]; intros m x H; [exact H|].
  apply IH. apply set_insert_keep. exact H.
Qed.
Lemma set_insert_all_new_sym : forall xs m, (forall y, In y xs -> is_sym (snd y) = true) ->
  (forall y, In y m -> is_sym (snd y) = true) ->
  forall x, In x xs -> In (snd x) (map snd (set_insert_all xs m)).
Proof.
  induction xs as [|a xs IH]; cbn [set_insert_all fold_left]; intros m Hxs Hm x Hx; [destruct Hx|].
  assert (Hm' : forall y, In y (set_insert a m) -> is_sym (snd y) = true).
  { intros y Hy. apply set_insert_in in Hy. destruct Hy as [->|Hy]; [apply Hxs; left; reflexivity|apply Hm; exact Hy]. }
  destruct Hx as [->|Hx].
  - pose proof (set_insert_new_sym x m (Hxs x (or_introl eq_refl)) Hm) as H.
    apply in_map_iff in H. destruct H as (y & Hy1 & Hy2). rewrite <- Hy1.
    apply in_map. apply (set_insert_all_keep xs). exact Hy2.
  - apply IH; auto. intros y Hy. apply Hxs. right. exact Hy.
Qed.

Lemma set_erase_in : forall k m x, In x (set_erase k m) <-> In x m /\ set_equiv k x = false.
Proof.
  intros. unfold set_erase. rewrite filter_In. rewrite negb_true_iff. reflexivity.
Qed.
Lemma set_erase_all_in : forall ks m x,
  In x (fold_left (fun m p => set_erase (mk_hx p) m) ks m) <->
  In x m /\ forall p, In p ks -> set_equiv (mk_hx p) x = false.
Proof.
  induction ks as [|a ks IH]; cbn [fold_left]; intros m x.
  - split; [intros H; split; [exact H|intros p []]|intros [H _]; exact H].
  - rewrite IH, set_erase_in. split.
    + intros [[H1 H2] H3]. split; [exact H1|]. intros p [<-|Hp]; auto.
    + intros [H1 H2]. split; [split; [exact H1|apply H2; left; reflexivity]|]. intros p Hp. apply H2. right. exact Hp.
Qed.

(* ---------- the fuel measure ---------- *)
Lemma weight_pos : forall e, (1 <= weight e)%nat.
Proof. destruct e; cbn [weight]; try lia. destruct n; lia. Qed.
Lemma weight_num : forall n, (weight (ENum n) <= 2)%nat.
Proof. destruct n; cbn [weight]; lia. Qed.

Lemma in_weight_list : forall x l, In x l ->
  (weight x <= fold_right (fun x acc => weight x + acc) 0 l)%nat.
Proof. induction l; cbn [In fold_right]; [tauto|]. intros [->|H]; [lia|]. apply IHl in H. lia. Qed.
Lemma in_weight_pairs : forall (k v : expr) l, In (k, v) l ->
  (weight k + weight v <= fold_right (fun p acc => weight (fst p) + weight (snd p) + acc) 0 l)%nat.
Proof.
  induction l; cbn [In fold_right]; [tauto|]. intros [->|H]; [cbn [fst snd]; lia|]. apply IHl in H. lia.
Qed.
Lemma in_weight_mul : forall (k v : expr) l, In (k, v) l ->
  (weight k + weight v + 1 <= fold_right (fun p acc => weight (fst p) + weight (snd p) + 1 + acc) 0 l)%nat.
Proof.
  induction l; cbn [In fold_right]; [tauto|]. intros [->|H]; [cbn [fst snd]; lia|]. apply IHl in H. lia.
Qed.
Lemma in_weight_add : forall (k : expr) (v : number) l, In (k, v) l ->
  (weight k + 6 <= fold_right (fun p acc => weight (fst p) + 6 + acc) 0 l)%nat.
Proof.
  induction l; cbn [In fold_right]; [tauto|]. intros [->|H]; [cbn [fst snd]; lia|]. apply IHl in H. lia.
Qed.

Ltac case_all :=
  repeat match goal with
  | |- context[if ?c then _ else _] => destruct c
  | |- context[match ?x with _ => _ end] => destruct x
  end.
Lemma weight_mul_from_dict : forall v dk c, (weight (mul_from_dict v dk) <= weight (EMul c dk))%nat.
Proof.
  intros v dk c. unfold mul_from_dict. pose proof (weight_num v).
  destruct (nis_zero v); [cbn [weight] in *; lia|].
  destruct dk as [|[k x] [|p r]]; [cbn [weight fold_right] in *; lia| |cbn [weight]; lia].
  pose proof (weight_pos k). pose proof (weight_pos x).
  assert (G1 : (weight k <= weight (EMul c [(k, x)]))%nat) by (cbn [weight fold_right fst snd]; lia).
  assert (G2 : (weight (EPow k x) <= weight (EMul c [(k, x)]))%nat) by (cbn [weight fold_right fst snd]; lia).
  assert (G3 : (weight (EMul v [(k, x)]) <= weight (EMul c [(k, x)]))%nat) by (cbn [weight fold_right fst snd]; lia).
  case_all; assumption.
Qed.
Lemma weight_add_single : forall k v, (weight (add_single k v) <= weight k + 5)%nat.
Proof.
  intros k v. unfold add_single. pose proof (weight_num v). pose proof (weight_pos k).
  assert (G : (weight match k with
                      | EMul _ dk => mul_from_dict v dk
                      | EPow b x => EMul v [(b, x)]
                      | _ => EMul v [(k, E1)]
                      end <= weight k + 5)%nat).
  { assert (D : (weight (EMul v [(k, E1)]) <= weight k + 5)%nat).
    { change (weight (EMul v [(k, E1)])) with (3 + (weight k + 1 + 1 + 0))%nat. lia. }
    destruct k; try exact D.
    - pose proof (weight_mul_from_dict v d coef). lia.
    - cbn [weight fold_right fst snd]. lia. }
  destruct v; try exact G.
  destruct (z =? 0)%Z; [cbn [weight]; lia|]. destruct (z =? 1)%Z; [lia|exact G].
Qed.

Lemma weight_args : forall e p, In p (get_args e) -> (weight p < weight e)%nat.
Proof.
  intros e p. destruct e; cbn [get_args]; try (intros []; fail).
  - match goal with |- In _ (match ?n with _ => _ end) -> _ => destruct n end; cbn [In]; try tauto.
    intros [<-|[]]. cbn [weight]. lia.
  - (* Add *)
    intros H. apply in_app_or in H. destruct H as [H|H].
    + destruct (nis_zero coef); [destruct H|]. destruct H as [<-|[]].
      pose proof (weight_num coef). set (t := ENum coef) in *. cbn [weight]. lia.
    + apply in_map_iff in H. destruct H as ([k v] & <- & Hin).
      apply in_weight_add in Hin. unfold add_term_arg. cbn [fst snd weight].
      destruct (Cmp.num_eqb v (NInt 1)); [lia|].
      unfold add_from_dict. cbn [nis_zero Z.eqb]. pose proof (weight_add_single k v). lia.
  - (* Mul *)
    intros H. apply in_app_or in H. destruct H as [H|H].
    + destruct (nis_one coef); [destruct H|]. destruct H as [<-|[]].
      pose proof (weight_num coef). set (t := ENum coef) in *. cbn [weight]. lia.
    + apply in_map_iff in H. destruct H as ([k v] & <- & Hin).
      apply in_weight_mul in Hin. unfold mul_term_arg. cbn [fst snd].
      destruct (is_int_one v); cbn [weight]; lia.
  - intros [<-|[<-|[]]]; cbn [weight]; lia.
  - intros [<-|[]]; cbn [weight]; lia.
  - intros [<-|[<-|[]]]; cbn [weight]; lia.
  - intros H. apply in_weight_list in H. cbn [weight]. lia.
  - intros H. apply in_weight_list in H. cbn [weight]. lia.
  - intros [<-|[<-|[]]]; cbn [weight]; lia.
  - intros [<-|H]; cbn [weight]; [lia|]. apply in_weight_list in H. lia.
  - (* Subs *)
    intros [<-|H]; cbn [weight]; [lia|]. apply in_app_or in H.
    destruct H as [H|H]; apply in_map_iff in H; destruct H as ([k v] & <- & Hin);
      apply in_weight_pairs in Hin; cbn [fst snd]; pose proof (weight_pos k); pose proof (weight_pos v); lia.
  - (* Pw *)
    intros H. apply in_flat_map in H. destruct H as ([x c] & Hin & Hp). apply in_weight_pairs in Hin.
    cbn [fst snd In] in Hp. pose proof (weight_pos x); pose proof (weight_pos c).
    destruct Hp as [<-|[<-|[]]]; cbn [weight]; lia.
  - intros [<-|[<-|[<-|[<-|[]]]]]; cbn [weight]; lia.
Qed.

Lemma weight_subs_arg : forall a d, (weight a < weight (ESubs a d))%nat.
Proof. intros. cbn [weight]. lia. Qed.
Lemma weight_subs_point : forall a d v, In v (map snd d) -> (weight v < weight (ESubs a d))%nat.
Proof. intros a d v H. apply weight_args. cbn [get_args]. right. apply in_or_app. right. exact H. Qed.
