(* C39 obligation: coeff against the dictionary, on univariate Integer polynomials
   p = c0 + sum a_i * x^(j_i) (keys x / Pow(x, j)): coeff(p, x, n) is the sum of the values stored
   under x^n, plus the Add's coef_ when n = 0.  Any degree, any number of terms. *)
From SE Require Import C39.CoeffProofs.
Local Open Scope Z_scope.
Theorem C39_coeff_upoly_spec :
  forall nm c0 l n, (forall j a, In (j, a) l -> 1 <= j) ->
  coeff (upoly_expr (ESym nm) c0 l) (ESym nm) (ENum (NInt n)) = Ok (ENum (NInt (ucoef n c0 l))).
Proof. exact coeff_upoly_spec. Qed.
Print Assumptions C39_coeff_upoly_spec.
