(* C39 -- FreeSymbolsVisitor: unfolding, termination (the fuel [weight] is enough) and
   soundness: every reported symbol occurs (mode B_code) in the expression. *)
From SE Require Export C39.OccArgs.
From Coq Require Import Lia.
Local Open Scope N_scope.

Definition hx_ok (x : hx) : Prop := fst x = hash (snd x).
Lemma mk_hx_ok : forall e, hx_ok (mk_hx e).
Proof. reflexivity. Qed.

(* one step of the loops "for p in args: if v.insert(p).second then p->accept" *)
Definition fs_step (f : nat) (st : vstate) (p : expr) : vstate :=
  let hp := mk_hx p in
  if uset_mem hp (vs_v st) then st
  else fs_visit f hp (mkV (vs_s st) (hp :: vs_v st) (vs_out st)).
Definition fs_list (f : nat) (l : list expr) (st : vstate) : vstate := fold_left (fs_step f) l st.

Definition fs_subs_state (f : nat) (a : expr) (d : list (expr * expr)) (st : vstate) : vstate :=
  let inner := fs_visit f (mk_hx a) v_empty in
  let set_ := fold_left (fun m p => set_erase (mk_hx p) m) (map fst d) (vs_s inner) in
  mkV (set_insert_all set_ (vs_s st)) (vs_v st) (vs_out st || vs_out inner).

Lemma fs_visit_S : forall f he st,
  fs_visit (S f) he st =
  match snd he with
  | ESym _ | EDummy _ _ => mkV (set_insert he (vs_s st)) (vs_v st) (vs_out st)
  | ESubs a d => fs_list f (map snd d) (fs_subs_state f a d st)
  | e => fs_list f (get_args e) st
  end.
Proof. intros. cbn [fs_visit]. destruct (snd he); reflexivity. Qed.

(* ---------- soundness / termination ---------- *)
Definition all_sym_ok (l : list hx) : Prop :=
  forall x, In x l -> hx_ok x /\ is_sym (snd x) = true.

Definition sound_post (P : expr -> Prop) (st st' : vstate) : Prop :=
  vs_out st' = vs_out st /\
  (forall x, In x (vs_s st) -> In x (vs_s st')) /\
  (forall x, In x (vs_s st') -> In x (vs_s st) \/ (hx_ok x /\ is_sym (snd x) = true /\ P (snd x))).

Lemma sound_post_refl : forall P st, sound_post P st st.
Proof. intros. repeat split; auto. Qed.
Lemma sound_post_trans : forall (P Q R : expr -> Prop) st1 st2 st3,
  (forall x, P x -> R x) -> (forall x, Q x -> R x) ->
  sound_post P st1 st2 -> sound_post Q st2 st3 -> sound_post R st1 st3.
Proof.
  intros P Q R st1 st2 st3 HP HQ (A1 & A2 & A3) (B1 & B2 & B3). repeat split.
  - congruence.
  - auto.
  - intros x Hx. apply B3 in Hx. destruct Hx as [Hx|(H1 & H2 & H3)]; [|right; auto].
    apply A3 in Hx. destruct Hx as [Hx|(H1 & H2 & H3)]; [left; auto|right; auto].
Qed.

Lemma fs_sound_aux : forall f he st, (weight (snd he) <= f)%nat -> hx_ok he ->
  sound_post (fun s => occurs B_code s (snd he)) st (fs_visit f he st).
Proof.
  induction f as [|f IH]; intros he st Hw Hok; [pose proof (weight_pos (snd he)); lia|].
  (* the list loop, for any list of nodes whose occurrences are occurrences of the node *)
  assert (LIST : forall (l : list expr) st0,
            (forall p, In p l -> (weight p <= f)%nat) ->
            sound_post (fun s => exists p, In p l /\ occurs B_code s p) st0 (fs_list f l st0)).
  { induction l as [|p l IHl]; intros st0 Hl; [apply sound_post_refl|].
    cbn [fs_list fold_left]. fold (fs_list f l (fs_step f st0 p)).
    eapply (sound_post_trans (fun s => occurs B_code s p) (fun s => exists q, In q l /\ occurs B_code s q) _ st0 (fs_step f st0 p)).
    - intros x Hx. exists p. split; [left; reflexivity|exact Hx].
    - intros x (q & Hq & Hx). exists q. split; [right; exact Hq|exact Hx].
    - unfold fs_step. destruct (uset_mem (mk_hx p) (vs_v st0)); [apply sound_post_refl|].
      pose proof (IH (mk_hx p) (mkV (vs_s st0) (mk_hx p :: vs_v st0) (vs_out st0))) as G.
      cbn [snd mk_hx] in G. specialize (G (Hl p (or_introl eq_refl)) (mk_hx_ok p)).
      destruct G as (G1 & G2 & G3). repeat split; auto.
    - apply IHl. intros q Hq. apply Hl. right. exact Hq. }
  rewrite fs_visit_S. destruct he as [h e]. cbn [snd] in *.
  assert (GEN : is_sym e = false -> is_subs e = false ->
                sound_post (fun s => occurs B_code s e) st (fs_list f (get_args e) st)).
  { intros Hns Hnsub.
    eapply (sound_post_trans (fun s => exists p, In p (get_args e) /\ occurs B_code s p) (fun _ => False) _ st (fs_list f (get_args e) st)).
    - intros x (p & Hp & Hx). eapply occ_arg_up; eauto.
    - intros x [].
    - apply LIST. intros p Hp. apply weight_args in Hp. lia.
    - apply sound_post_refl. }
  destruct e; try (apply GEN; reflexivity).
  - (* Symbol *)
    repeat split; cbn [vs_out vs_s]; auto.
    + intros x Hx. apply set_insert_keep. exact Hx.
    + intros x Hx. apply set_insert_in in Hx. destruct Hx as [->|Hx]; [right|left; exact Hx].
      cbn [snd]. split; [exact Hok|]. split; [reflexivity|]. apply O_self. reflexivity.
  - (* Dummy *)
    repeat split; cbn [vs_out vs_s]; auto.
    + intros x Hx. apply set_insert_keep. exact Hx.
    + intros x Hx. apply set_insert_in in Hx. destruct Hx as [->|Hx]; [right|left; exact Hx].
      cbn [snd]. split; [exact Hok|]. split; [reflexivity|]. apply O_self. reflexivity.
  - (* Subs *)
    pose proof (IH (mk_hx e) v_empty) as INNER. cbn [snd mk_hx] in INNER.
    specialize (INNER ltac:(cbn [weight] in Hw; lia) (mk_hx_ok e)).
    destruct INNER as (I1 & I2 & I3).
    eapply (sound_post_trans (fun s => occurs B_code s e /\ ~ In s (map fst d))
                             (fun s => exists p, In p (map snd d) /\ occurs B_code s p) _ st (fs_subs_state f e d st)).
    + intros x [Hx1 Hx2]. apply O_subs_arg; [exact Hx1|intros _; exact Hx2].
    + intros x (p & Hp & Hx). apply in_map_iff in Hp. destruct Hp as ([k v] & <- & Hin).
      eapply O_subs_point; eauto.
    + unfold fs_subs_state. repeat split; cbn [vs_out vs_s vs_v].
      * rewrite I1. cbn [v_empty vs_out]. apply orb_false_r.
      * intros x Hx. apply set_insert_all_keep. exact Hx.
      * intros x Hx. apply set_insert_all_in in Hx. destruct Hx as [Hx|Hx]; [right|left; exact Hx].
        apply set_erase_all_in in Hx. destruct Hx as [Hx1 Hx2].
        apply I3 in Hx1. destruct Hx1 as [[]|(K1 & K2 & K3)].
        split; [exact K1|]. split; [exact K2|]. split; [exact K3|].
        intros Hin. specialize (Hx2 _ Hin).
        assert (x = mk_hx (snd x)) as Ex by (destruct x as [hh xx]; unfold hx_ok in K1; cbn [fst snd] in *; subst; reflexivity).
        rewrite Ex in Hx2. unfold mk_hx in Hx2. rewrite set_equiv_same_sym in Hx2 by exact K2. discriminate.
    + apply LIST. intros p Hp. pose proof (weight_subs_point e d p Hp). lia.
Qed.

Theorem fs_terminates : forall e, vs_out (free_symbols_st e) = false.
Proof.
  intros e. unfold free_symbols_st.
  destruct (fs_sound_aux (weight e) (mk_hx e) v_empty (le_n _) (mk_hx_ok e)) as (H & _). exact H.
Qed.

Theorem fs_sound : forall e s, In s (free_symbols e) -> is_sym s = true /\ occurs_code s e.
Proof.
  intros e s H. unfold free_symbols in H. apply in_map_iff in H. destruct H as (x & <- & Hx).
  destruct (fs_sound_aux (weight e) (mk_hx e) v_empty (le_n _) (mk_hx_ok e)) as (_ & _ & H3).
  apply H3 in Hx. destruct Hx as [[]|(_ & K2 & K3)]. split; [exact K2|exact K3].
Qed.
