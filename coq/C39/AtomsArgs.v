(* C39 -- eq(p, q) puts the get_args of p and of q in correspondence (each argument of one has
   an eq partner among the arguments of the other). *)
From SE Require Export C39.AtomsCong.
From SE Require Import Expr.Unfold.
From Coq Require Import Lia.
Local Open Scope N_scope.

Definition eqs (a b : expr) : Prop := expr_eqb a b = true \/ expr_eqb b a = true.
Lemma eqs_sym : forall a b, eqs a b -> eqs b a.
Proof. intros a b [H|H]; [right|left]; exact H. Qed.

Definition list_sim (l1 l2 : list expr) : Prop :=
  (forall a, In a l1 -> exists b, In b l2 /\ eqs a b) /\
  (forall b, In b l2 -> exists a, In a l1 /\ eqs a b).
Lemma list_sim_nil : list_sim [] [].
Proof. split; intros x []. Qed.
Lemma list_sim_app : forall a1 a2 b1 b2, list_sim a1 a2 -> list_sim b1 b2 -> list_sim (a1 ++ b1) (a2 ++ b2).
Proof.
  intros a1 a2 b1 b2 [A1 A2] [B1 B2]. split; intros x Hx; apply in_app_or in Hx; destruct Hx as [Hx|Hx].
  - destruct (A1 x Hx) as (y & Hy & He). exists y. split; [apply in_or_app; left; exact Hy|exact He].
  - destruct (B1 x Hx) as (y & Hy & He). exists y. split; [apply in_or_app; right; exact Hy|exact He].
  - destruct (A2 x Hx) as (y & Hy & He). exists y. split; [apply in_or_app; left; exact Hy|exact He].
  - destruct (B2 x Hx) as (y & Hy & He). exists y. split; [apply in_or_app; right; exact Hy|exact He].
Qed.
Lemma list_sim_cons : forall x y l1 l2, eqs x y -> list_sim l1 l2 -> list_sim (x :: l1) (y :: l2).
Proof.
  intros x y l1 l2 He Hl. apply (list_sim_app [x] [y] l1 l2); [|exact Hl].
  split; intros z [<-|[]]; eexists; (split; [left; reflexivity|exact He]).
Qed.
Lemma list_sim_eqb : forall l1 l2, list_eqb expr_eqb l1 l2 = true -> list_sim l1 l2.
Proof.
  intros l1 l2 H. split.
  - intros a Ha. destruct (list_eqb_in_l _ _ _ H a Ha) as (b & Hb & Hr). exists b. split; [exact Hb|left; exact Hr].
  - intros b Hb. destruct (list_eqb_in_r _ _ _ H b Hb) as (a & Ha & Hr). exists a. split; [exact Ha|left; exact Hr].
Qed.
Lemma pairs_eqb_keys : forall d1 d2, pairs_eqb expr_eqb d1 d2 = true -> list_eqb expr_eqb (map fst d1) (map fst d2) = true.
Proof.
  induction d1 as [|[k1 v1] d1 IH]; destruct d2 as [|[k2 v2] d2]; cbn [pairs_eqb map fst list_eqb]; intros H; try discriminate; [reflexivity|].
  apply andb_true_iff in H. destruct H as [H12 H3]. apply andb_true_iff in H12. destruct H12 as [H1 H2].
  rewrite H1. apply IH. exact H3.
Qed.
Lemma pairs_eqb_vals : forall d1 d2, pairs_eqb expr_eqb d1 d2 = true -> list_eqb expr_eqb (map snd d1) (map snd d2) = true.
Proof.
  induction d1 as [|[k1 v1] d1 IH]; destruct d2 as [|[k2 v2] d2]; cbn [pairs_eqb map snd list_eqb]; intros H; try discriminate; [reflexivity|].
  apply andb_true_iff in H. destruct H as [H12 H3]. apply andb_true_iff in H12. destruct H12 as [H1 H2].
  rewrite H2. apply IH. exact H3.
Qed.
Lemma pairs_eqb_mul_args : forall d1 d2, pairs_eqb expr_eqb d1 d2 = true ->
  list_eqb expr_eqb (map mul_term_arg d1) (map mul_term_arg d2) = true.
Proof.
  induction d1 as [|[k1 v1] d1 IH]; destruct d2 as [|[k2 v2] d2]; cbn [pairs_eqb map list_eqb]; intros H; try discriminate; [reflexivity|].
  apply andb_true_iff in H. destruct H as [H12 H3]. apply andb_true_iff in H12. destruct H12 as [H1 H2].
  rewrite (mul_term_arg_cong _ _ _ _ H1 H2). apply IH. exact H3.
Qed.

(* the unordered dictionaries, with the values *)
Lemma umap_eqb_fwd_v : forall r d1 d2, umap_eqb r d1 d2 = true ->
  forall k1 v1, In (k1, v1) d1 -> exists k2 v2, In (k2, v2) d2 /\ hash k2 = hash k1 /\ r k2 k1 = true /\ Cmp.num_eqb v1 v2 = true.
Proof.
  intros r d1 d2 H k1 v1 Hin. unfold umap_eqb in H. apply andb_true_iff in H. destruct H as [_ H].
  rewrite forallb_forall in H. specialize (H _ Hin). cbn [fst snd] in H.
  destruct (umap_find r k1 d2) as [v2|] eqn:E; [|discriminate].
  apply umap_find_some in E. destruct E as (k2 & Hin2 & Hh & Hr). exists k2, v2. auto.
Qed.
Lemma umap_eqb_bwd_v : forall r d1 d2, umap_eqb r d1 d2 = true ->
  NoDup (map (fun p => hash (fst p)) d1) -> NoDup (map (fun p => hash (fst p)) d2) ->
  forall k2 v2, In (k2, v2) d2 -> exists k1 v1, In (k1, v1) d1 /\ r k2 k1 = true /\ Cmp.num_eqb v1 v2 = true.
Proof.
  intros r d1 d2 H N1 N2 k2 v2 Hin2.
  destruct (umap_eqb_bwd r d1 d2 H N1 N2 k2 v2 Hin2) as (k1 & v1 & Hin1 & Hh & Hr).
  destruct (umap_eqb_fwd_v r d1 d2 H k1 v1 Hin1) as (k' & v' & Hin' & Hh' & Hr' & Hv).
  assert (E : (k', v') = (k2, v2)).
  { apply (NoDup_map_inj (fun p : expr * number => hash (fst p)) d2); auto. cbn [fst]. congruence. }
  inversion E; subst. exists k1, v1. auto.
Qed.

(* ---------- nums_ok ---------- *)
Lemma nums_ok_iff : forall e, nums_ok e = true <->
  bad_num_node e = false /\ forall c, In c (rchildren e) -> nums_ok c = true.
Proof.
  intros e. unfold nums_ok. rewrite any_node_children. split.
  - intros H. apply negb_true_iff in H. apply orb_false_iff in H. destruct H as [H1 H2]. split; [exact H1|].
    intros c Hc. apply negb_true_iff. destruct (any_node bad_num_node c) eqn:E; [|reflexivity].
    assert (existsb (any_node bad_num_node) (rchildren e) = true) by (apply existsb_exists; exists c; auto). congruence.
  - intros [H1 H2]. rewrite H1. cbn [orb]. apply negb_true_iff.
    destruct (existsb (any_node bad_num_node) (rchildren e)) eqn:E; [|reflexivity].
    apply existsb_exists in E. destruct E as (c & Hc & Hb). specialize (H2 c Hc). apply negb_true_iff in H2. congruence.
Qed.
Lemma nums_ok_add : forall c d, nums_ok (EAdd c d) = true ->
  num_ok c = true /\ (forall k v, In (k, v) d -> num_ok v = true /\ nums_ok k = true).
Proof.
  intros c d H. apply nums_ok_iff in H. destruct H as [H1 H2]. cbn [bad_num_node] in H1.
  apply orb_false_iff in H1. destruct H1 as [Hc Hv]. apply negb_false_iff in Hc. split; [exact Hc|].
  intros k v Hin. split.
  - destruct (num_ok v) eqn:E; [reflexivity|].
    assert (existsb (fun p : expr * number => negb (num_ok (snd p))) d = true).
    { apply existsb_exists. exists (k, v). split; [exact Hin|]. cbn [snd]. rewrite E. reflexivity. }
    congruence.
  - apply H2. cbn [rchildren]. apply in_map_iff. exists (k, v). auto.
Qed.
Lemma nums_ok_mul_iff : forall c d, nums_ok (EMul c d) = true <-> num_ok c = true /\ forall x, In x (flat d) -> nums_ok x = true.
Proof.
  intros. rewrite nums_ok_iff. cbn [bad_num_node rchildren]. rewrite negb_false_iff. tauto.
Qed.
Lemma nums_ok_pow_iff : forall b x, nums_ok (EPow b x) = true <-> nums_ok b = true /\ nums_ok x = true.
Proof.
  intros. rewrite nums_ok_iff. cbn [bad_num_node rchildren In]. split.
  - intros [_ H]. split; apply H; auto.
  - intros [H1 H2]. split; [reflexivity|]. intros c [<-|[<-|[]]]; assumption.
Qed.
Lemma nums_ok_enum : forall n, nums_ok (ENum n) = num_ok n.
Proof. intros. unfold nums_ok. cbn [any_node bad_num_node]. rewrite orb_false_r, negb_involutive. reflexivity. Qed.

Lemma nums_ok_mul_from_dict : forall v dk c, num_ok v = true -> nums_ok (EMul c dk) = true ->
  nums_ok (mul_from_dict v dk) = true.
Proof.
  intros v dk c Hv H. apply nums_ok_mul_iff in H. destruct H as [_ H].
  unfold mul_from_dict. destruct (nis_zero v); [rewrite nums_ok_enum; exact Hv|].
  destruct dk as [|[k x] [|p r]]; [rewrite nums_ok_enum; exact Hv| |apply nums_ok_mul_iff; auto].
  unfold flat in H. cbn [flat_map app fst snd In] in H.
  assert (Gk : nums_ok k = true) by (apply H; auto).
  assert (Gx : nums_ok x = true) by (apply H; auto).
  assert (Gp : nums_ok (EPow k x) = true) by (apply nums_ok_pow_iff; auto).
  assert (Gm : nums_ok (EMul v [(k, x)]) = true).
  { apply nums_ok_mul_iff. split; [exact Hv|]. unfold flat. cbn [flat_map app fst snd In]. intros y [<-|[<-|[]]]; assumption. }
  case_all; assumption.
Qed.
Lemma nums_ok_add_single : forall k v, num_ok v = true -> nums_ok k = true -> nums_ok (add_single k v) = true.
Proof.
  intros k v Hv Hk. rewrite add_single_closed.
  destruct (Cmp.num_eqb v (NInt 0)); [rewrite nums_ok_enum; exact Hv|].
  destruct (Cmp.num_eqb v (NInt 1)); [exact Hk|].
  assert (D : nums_ok (EMul v [(k, E1)]) = true).
  { apply nums_ok_mul_iff. split; [exact Hv|]. unfold flat. cbn [flat_map app fst snd In]. intros y [<-|[<-|[]]]; [exact Hk|reflexivity]. }
  unfold as_mul. destruct k; try exact D.
  - eapply nums_ok_mul_from_dict; eauto.
  - apply nums_ok_pow_iff in Hk. destruct Hk. apply nums_ok_mul_iff. split; [exact Hv|].
    unfold flat. cbn [flat_map app fst snd In]. intros y [<-|[<-|[]]]; assumption.
Qed.

Lemma nums_ok_args : forall e p, nums_ok e = true -> In p (get_args e) -> nums_ok p = true.
Proof.
  intros e p He Hin.
  assert (RC : forall c, In c (rchildren e) -> nums_ok c = true) by (apply nums_ok_iff; exact He).
  destruct e; cbn [get_args] in Hin; cbn [rchildren] in RC; try (destruct Hin; fail).
  - destruct n; cbn [In] in Hin; try tauto. destruct Hin as [<-|[]]. reflexivity.
  - destruct (nums_ok_add _ _ He) as [Hc Hd]. apply in_app_or in Hin. destruct Hin as [Hin|Hin].
    + destruct (nis_zero coef); [destruct Hin|]. destruct Hin as [<-|[]]. rewrite nums_ok_enum. exact Hc.
    + apply in_map_iff in Hin. destruct Hin as ([k v] & <- & Hin). destruct (Hd k v Hin) as [Hv Hk].
      unfold add_term_arg. cbn [fst snd]. destruct (Cmp.num_eqb v (NInt 1)); [exact Hk|].
      unfold add_from_dict. cbn [nis_zero Z.eqb]. apply nums_ok_add_single; assumption.
  - apply nums_ok_mul_iff in He. destruct He as [Hc Hd]. apply in_app_or in Hin. destruct Hin as [Hin|Hin].
    + destruct (nis_one coef); [destruct Hin|]. destruct Hin as [<-|[]]. rewrite nums_ok_enum. exact Hc.
    + apply in_map_iff in Hin. destruct Hin as ([k v] & <- & Hin). unfold mul_term_arg. cbn [fst snd].
      destruct (is_int_one v); [apply Hd; eapply in_flat_l; eauto|].
      apply nums_ok_pow_iff. split; apply Hd; eauto using in_flat_l, in_flat_r.
  - apply RC. exact Hin.
  - apply RC. exact Hin.
  - apply RC. exact Hin.
  - apply RC. exact Hin.
  - apply RC. exact Hin.
  - apply RC. exact Hin.
  - apply RC. exact Hin.
  - destruct Hin as [<-|Hin]; [apply RC; left; reflexivity|]. apply RC. right.
    apply in_app_or in Hin. destruct Hin as [Hin|Hin]; apply in_map_iff in Hin; destruct Hin as ([k v] & <- & Hin);
      eauto using in_flat_l, in_flat_r.
  - apply RC. exact Hin.
  - destruct Hin as [<-|[<-|[<-|[<-|[]]]]]; try reflexivity; apply RC; cbn [In]; auto.
Qed.

(* ---------- the correspondence of the arguments ---------- *)
Lemma args_sim_eqb : forall p q, tree_ok p = true -> tree_ok q = true -> nums_ok p = true -> nums_ok q = true ->
  expr_eqb p q = true -> list_sim (get_args p) (get_args q).
Proof.
  intros p q Tp Tq Np Nq He. rewrite expr_eqb_unfold in He.
  destruct p; destruct q; cbn [eqb_body] in He; try discriminate; cbn [get_args]; try apply list_sim_nil.
  - (* numbers *)
    destruct n; destruct n0; cbn [Cmp.num_eqb] in He; try discriminate; try apply list_sim_nil.
    apply Z.eqb_eq in He. subst. apply list_sim_cons; [|apply list_sim_nil]. left. rewrite eqb_nums. apply Z.eqb_refl.
  - (* Add *)
    apply andb_true_iff in He. destruct He as [Hc He].
    destruct (bad_add _ _ (tree_ok_node _ Tp)) as [N1 _]. destruct (bad_add _ _ (tree_ok_node _ Tq)) as [N2 _].
    destruct (nums_ok_add _ _ Np) as [Oc1 Od1]. destruct (nums_ok_add _ _ Nq) as [Oc2 Od2].
    apply list_sim_app.
    + rewrite <- (nis_zero_cong _ _ Hc). destruct (nis_zero coef); [apply list_sim_nil|].
      apply list_sim_cons; [|apply list_sim_nil]. left. rewrite eqb_nums. exact Hc.
    + split.
      * intros a Ha. apply in_map_iff in Ha. destruct Ha as ([k1 v1] & <- & Hin1).
        destruct (umap_eqb_fwd_v _ _ _ He k1 v1 Hin1) as (k2 & v2 & Hin2 & _ & Hr & Hv).
        exists (add_term_arg (k2, v2)). split; [apply in_map; exact Hin2|]. right.
        apply add_term_arg_cong; [exact Hr|rewrite num_eqb_sym; exact Hv|apply (Od2 k2 v2 Hin2)|apply (Od1 k1 v1 Hin1)].
      * intros b Hb. apply in_map_iff in Hb. destruct Hb as ([k2 v2] & <- & Hin2).
        destruct (umap_eqb_bwd_v _ _ _ He N1 N2 k2 v2 Hin2) as (k1 & v1 & Hin1 & Hr & Hv).
        exists (add_term_arg (k1, v1)). split; [apply in_map; exact Hin1|]. right.
        apply add_term_arg_cong; [exact Hr|rewrite num_eqb_sym; exact Hv|apply (Od2 k2 v2 Hin2)|apply (Od1 k1 v1 Hin1)].
  - (* Mul *)
    apply andb_true_iff in He. destruct He as [Hc He]. rewrite <- pairs_eqb_flat in He.
    apply nums_ok_mul_iff in Np. apply nums_ok_mul_iff in Nq.
    apply list_sim_app.
    + rewrite <- (nis_one_cong _ _ Hc (proj1 Np) (proj1 Nq)). destruct (nis_one coef); [apply list_sim_nil|].
      apply list_sim_cons; [|apply list_sim_nil]. left. rewrite eqb_nums. exact Hc.
    + apply list_sim_eqb. apply pairs_eqb_mul_args. exact He.
  - apply andb_true_iff in He. destruct He as [H1 H2].
    apply list_sim_cons; [left; exact H1|]. apply list_sim_cons; [left; exact H2|apply list_sim_nil].
  - apply andb_true_iff in He. destruct He as [_ H1]. apply list_sim_cons; [left; exact H1|apply list_sim_nil].
  - apply andb_true_iff in He. destruct He as [He H2]. apply andb_true_iff in He. destruct He as [_ H1].
    apply list_sim_cons; [left; exact H1|]. apply list_sim_cons; [left; exact H2|apply list_sim_nil].
  - apply andb_true_iff in He. destruct He as [_ He]. apply list_sim_eqb. exact He.
  - apply andb_true_iff in He. destruct He as [_ He]. apply list_sim_eqb. exact He.
  - apply andb_true_iff in He. destruct He as [He H2]. apply andb_true_iff in He. destruct He as [_ H1].
    apply list_sim_cons; [left; exact H1|]. apply list_sim_cons; [left; exact H2|apply list_sim_nil].
  - apply andb_true_iff in He. destruct He as [H1 He]. apply list_sim_cons; [left; exact H1|]. apply list_sim_eqb. exact He.
  - (* Subs *)
    apply andb_true_iff in He. destruct He as [H1 He]. rewrite <- pairs_eqb_flat in He.
    apply list_sim_cons; [left; exact H1|]. apply list_sim_app; apply list_sim_eqb;
      [apply pairs_eqb_keys|apply pairs_eqb_vals]; exact He.
  - (* Pw *)
    apply list_sim_eqb. exact He.
  - (* Interval *)
    apply andb_true_iff in He. destruct He as [He H4]. apply andb_true_iff in He. destruct He as [He H3].
    apply andb_true_iff in He. destruct He as [H1 H2].
    apply list_sim_cons; [left; exact H3|]. apply list_sim_cons; [left; exact H4|].
    apply list_sim_cons; [left; rewrite expr_eqb_unfold; exact H1|].
    apply list_sim_cons; [left; rewrite expr_eqb_unfold; exact H2|apply list_sim_nil].
Qed.

Lemma args_sim : forall p q, tree_ok p = true -> tree_ok q = true -> nums_ok p = true -> nums_ok q = true ->
  eqs p q -> forall p', In p' (get_args p) -> exists q', In q' (get_args q) /\ eqs p' q'.
Proof.
  intros p q Tp Tq Np Nq [He|He] p' Hp'.
  - apply (proj1 (args_sim_eqb p q Tp Tq Np Nq He)). exact Hp'.
  - destruct (proj2 (args_sim_eqb q p Tq Tp Nq Np He) p' Hp') as (q' & Hq' & Hs). exists q'. split; [exact Hq'|apply eqs_sym; exact Hs].
Qed.
