(* C39 -- FreeSymbolsVisitor is complete: every symbol that occurs (mode B_code) is reported.
   The memo set v is handled by a closure invariant: at the end every member r of v is "done"
   (its own symbols are in s, each of the nodes it recurses into is covered by a member of v
   that is the same tree or eq to it), and then an induction on the cost of an occurrence walks
   from covered node to covered node, crossing eq by EqbTransfer.eqb_occn. *)
From SE Require Export C39.ArgsDown.
From Coq Require Import Lia.
Local Open Scope N_scope.

Lemma occurs_is_sym : forall B s e, occurs B s e -> is_sym s = true.
Proof. intros B s e H. induction H; auto. Qed.

Definition covered (p : expr) (V : list hx) : Prop :=
  exists q, In q V /\ (snd q = p \/ expr_eqb p (snd q) = true).
Lemma covered_mono : forall p V V', (forall x, In x V -> In x V') -> covered p V -> covered p V'.
Proof. intros p V V' H (q & Hq & Hc). exists q. auto. Qed.
Lemma uset_mem_covered : forall p V, uset_mem (mk_hx p) V = true -> covered p V.
Proof.
  intros p V H. unfold uset_mem in H. apply existsb_exists in H. destruct H as (q & Hq & Hc).
  apply andb_true_iff in Hc. destruct Hc as [_ Hc]. exists q. split; [exact Hq|right; exact Hc].
Qed.

(* the nodes the visitor recurses into through the memo set *)
Definition fs_children (e : expr) : list expr :=
  match e with
  | ESym _ | EDummy _ _ => []
  | ESubs a d => map snd d
  | _ => get_args e
  end.
(* what the visit of the node itself must have put into s *)
Definition fs_local (e : expr) (S : list hx) : Prop :=
  match e with
  | ESym _ | EDummy _ _ => In e (map snd S)
  | ESubs a d => forall s, occurs B_code s a -> ~ In s (map fst d) -> In s (map snd S)
  | _ => True
  end.
Definition done (V S : list hx) (r : expr) : Prop :=
  fs_local r S /\ forall p, In p (fs_children r) -> covered p V.

Lemma fs_local_mono : forall e S S', (forall x, In x S -> In x S') -> fs_local e S -> fs_local e S'.
Proof.
  intros e S S' H. assert (G : forall y, In y (map snd S) -> In y (map snd S')).
  { intros y Hy. apply in_map_iff in Hy. destruct Hy as (x & <- & Hx). apply in_map. auto. }
  destruct e; cbn [fs_local]; auto.
Qed.
Lemma done_mono : forall V S V' S' r, (forall x, In x V -> In x V') -> (forall x, In x S -> In x S') ->
  done V S r -> done V' S' r.
Proof.
  intros V S V' S' r HV HS [H1 H2]. split; [eapply fs_local_mono; eauto|].
  intros p Hp. eapply covered_mono; eauto.
Qed.

Definition vinv (st : vstate) : Prop :=
  all_sym_ok (vs_s st) /\ forall r, In r (vs_v st) -> tree_ok (snd r) = true.

Definition post (e : expr) (st st' : vstate) : Prop :=
  (forall x, In x (vs_s st) -> In x (vs_s st')) /\
  (forall x, In x (vs_v st) -> In x (vs_v st')) /\
  vinv st' /\
  done (vs_v st') (vs_s st') e /\
  (forall r, In r (vs_v st') -> In r (vs_v st) \/ done (vs_v st') (vs_s st') (snd r)).

Definition complete_at (f : nat) : Prop :=
  forall e s, (weight e <= f)%nat -> tree_ok e = true -> occurs B_code s e ->
    In s (map snd (vs_s (fs_visit f (mk_hx e) v_empty))).

Definition post_at (f : nat) : Prop :=
  forall he st, (weight (snd he) <= f)%nat -> hx_ok he -> tree_ok (snd he) = true -> vinv st ->
    post (snd he) st (fs_visit f he st).

(* the loop over a list of nodes *)
Lemma fs_list_post : forall f, post_at f -> forall l st,
  (forall p, In p l -> (weight p <= f)%nat /\ tree_ok p = true) -> vinv st ->
  let st' := fs_list f l st in
  (forall x, In x (vs_s st) -> In x (vs_s st')) /\
  (forall x, In x (vs_v st) -> In x (vs_v st')) /\
  vinv st' /\
  (forall p, In p l -> covered p (vs_v st')) /\
  (forall r, In r (vs_v st') -> In r (vs_v st) \/ done (vs_v st') (vs_s st') (snd r)).
Proof.
  intros f PF. induction l as [|p l IH]; intros st Hl Hinv; cbn zeta.
  - cbn [fs_list fold_left]. split; [auto|]. split; [auto|]. split; [exact Hinv|]. split; [intros p []|auto].
  - cbn [fs_list fold_left]. fold (fs_list f l (fs_step f st p)).
    destruct (Hl p (or_introl eq_refl)) as [Hw Hok].
    (* the step on p *)
    assert (STEP : let st1 := fs_step f st p in
              (forall x, In x (vs_s st) -> In x (vs_s st1)) /\
              (forall x, In x (vs_v st) -> In x (vs_v st1)) /\
              vinv st1 /\ covered p (vs_v st1) /\
              (forall r, In r (vs_v st1) -> In r (vs_v st) \/ done (vs_v st1) (vs_s st1) (snd r))).
    { cbn zeta. unfold fs_step. destruct (uset_mem (mk_hx p) (vs_v st)) eqn:E.
      - split; [auto|]. split; [auto|]. split; [exact Hinv|]. split; [apply uset_mem_covered; exact E|auto].
      - set (st0 := mkV (vs_s st) (mk_hx p :: vs_v st) (vs_out st)).
        assert (Hinv0 : vinv st0).
        { split; [apply Hinv|]. cbn [st0 vs_v]. intros r [<-|Hr]; [exact Hok|apply Hinv; exact Hr]. }
        destruct (PF (mk_hx p) st0 Hw (mk_hx_ok p) Hok Hinv0) as (P1 & P2 & P3 & P4 & P5).
        cbn [snd mk_hx] in *. split; [exact P1|]. split; [|split; [exact P3|split]].
        + intros x Hx. apply P2. cbn [st0 vs_v]. right. exact Hx.
        + exists (mk_hx p). split; [apply P2; cbn [st0 vs_v]; left; reflexivity|left; reflexivity].
        + intros r Hr. destruct (P5 r Hr) as [Hr'|Hr']; [|right; exact Hr'].
          cbn [st0 vs_v] in Hr'. destruct Hr' as [<-|Hr']; [right; exact P4|left; exact Hr']. }
    cbn zeta in STEP. destruct STEP as (S1 & S2 & S3 & S4 & S5).
    specialize (IH (fs_step f st p) (fun q Hq => Hl q (or_intror Hq)) S3). cbn zeta in IH.
    destruct IH as (I1 & I2 & I3 & I4 & I5).
    split; [auto|]. split; [auto|]. split; [exact I3|]. split.
    + intros q [<-|Hq]; [eapply covered_mono; [|exact S4]; exact I2|apply I4; exact Hq].
    + intros r Hr. destruct (I5 r Hr) as [Hr'|Hr']; [|right; exact Hr'].
      destruct (S5 r Hr') as [Hr2|Hr2]; [left; exact Hr2|right]. eapply done_mono; [exact I2|exact I1|exact Hr2].
Qed.

Lemma all_sym_ok_insert : forall k m, all_sym_ok m -> hx_ok k -> is_sym (snd k) = true -> all_sym_ok (set_insert k m).
Proof.
  intros k m Hm Hk Hs x Hx. apply set_insert_in in Hx. destruct Hx as [->|Hx]; [split; assumption|apply Hm; exact Hx].
Qed.

Lemma post_step : forall f, post_at f -> complete_at f -> post_at (S f).
Proof.
  intros f PF CF [h e] st Hw Hok Htree Hinv. cbn [snd] in *. rewrite fs_visit_S. cbn [snd].
  assert (GEN : is_sym e = false -> is_subs e = false -> post e st (fs_list f (get_args e) st)).
  { intros Hns Hnsub.
    destruct (fs_list_post f PF (get_args e) st) as (L1 & L2 & L3 & L4 & L5).
    - intros p Hp. split; [apply weight_args in Hp; lia|eapply tree_ok_args; eauto].
    - exact Hinv.
    - split; [exact L1|]. split; [exact L2|]. split; [exact L3|]. split; [split|exact L5].
      + destruct e; cbn [fs_local]; try exact I; discriminate.
      + intros p Hp. apply L4. destruct e; cbn [fs_children] in Hp; try exact Hp; discriminate. }
  assert (SYM : is_sym e = true -> post e st (mkV (set_insert (h, e) (vs_s st)) (vs_v st) (vs_out st))).
  { intros Hs. destruct Hinv as [Hi1 Hi2].
    split; [|split; [|split; [split|split; [split|]]]]; cbn [vs_s vs_v]; auto.
    - intros x Hx. apply set_insert_keep. exact Hx.
    - apply all_sym_ok_insert; auto.
    - pose proof (set_insert_new_sym (h, e) (vs_s st) Hs (fun y Hy => proj2 (Hi1 y Hy))) as G. cbn [snd] in G.
      destruct e; try discriminate; exact G.
    - destruct e; try discriminate; intros p []. }
  destruct e; try (apply GEN; reflexivity); try (apply SYM; reflexivity).
  (* Subs *)
  set (st1 := fs_subs_state f e d st).
  pose proof (fs_sound_aux f (mk_hx e) v_empty ltac:(cbn [snd mk_hx weight] in *; lia) (mk_hx_ok e)) as (I1 & I2 & I3).
  cbn [snd mk_hx] in I3.
  assert (Hta : tree_ok e = true) by (eapply tree_ok_subs_arg; eauto).
  assert (SET : forall x, In x (fold_left (fun m p => set_erase (mk_hx p) m) (map fst d) (vs_s (fs_visit f (mk_hx e) v_empty))) ->
                 hx_ok x /\ is_sym (snd x) = true).
  { intros x Hx. apply set_erase_all_in in Hx. destruct Hx as [Hx _]. apply I3 in Hx.
    destruct Hx as [[]|(K1 & K2 & _)]. auto. }
  assert (Hinv1 : vinv st1).
  { destruct Hinv as [Hi1 Hi2]. split; [|exact Hi2]. cbn [st1 fs_subs_state vs_s].
    intros x Hx. apply set_insert_all_in in Hx. destruct Hx as [Hx|Hx]; [apply SET; exact Hx|apply Hi1; exact Hx]. }
  assert (LOC : fs_local (ESubs e d) (vs_s st1)).
  { cbn [fs_local]. intros s Hocc Hnot.
    pose proof (CF e s ltac:(cbn [weight] in Hw; lia) Hta Hocc) as Hin.
    apply in_map_iff in Hin. destruct Hin as (x & Hxs & Hx).
    assert (Hsym : is_sym s = true) by (eapply occurs_is_sym; eauto).
    assert (Hset : In x (fold_left (fun m p => set_erase (mk_hx p) m) (map fst d) (vs_s (fs_visit f (mk_hx e) v_empty)))).
    { apply set_erase_all_in. split; [exact Hx|]. intros p Hp.
      destruct (set_equiv (mk_hx p) x) eqn:E; [|reflexivity]. exfalso.
      apply in_map_iff in Hp. destruct Hp as ([k v] & <- & Hkv). cbn [fst] in E.
      apply set_equiv_sym in E.
      - cbn [snd mk_hx] in E. apply Hnot. rewrite <- Hxs, <- E. apply in_map_iff. exists (k, v). auto.
      - cbn [snd mk_hx]. eapply bad_subs; [apply tree_ok_node; exact Htree|exact Hkv].
      - rewrite Hxs. exact Hsym. }
    cbn [st1 fs_subs_state vs_s]. rewrite <- Hxs.
    apply (set_insert_all_new_sym _ (vs_s st) ); auto.
    - intros y Hy. apply SET. exact Hy.
    - intros y Hy. apply Hinv. exact Hy. }
  destruct (fs_list_post f PF (map snd d) st1) as (L1 & L2 & L3 & L4 & L5).
  - intros p Hp. split; [pose proof (weight_subs_point e d p Hp); lia|].
    eapply tree_ok_args; [exact Htree|]. cbn [get_args]. right. apply in_or_app. right. exact Hp.
  - exact Hinv1.
  - split; [|split; [exact L2|split; [exact L3|split; [split|exact L5]]]].
    + intros x Hx. apply L1. cbn [st1 fs_subs_state vs_s]. apply set_insert_all_keep. exact Hx.
    + eapply fs_local_mono; [exact L1|exact LOC].
    + exact L4.
Qed.

(* ---------- from the closed final state to completeness ---------- *)
Lemma closed_cover : forall V S (root : expr),
  (forall r, In r V -> tree_ok (snd r) = true) -> tree_ok root = true ->
  (forall r, In r V -> done V S (snd r)) -> done V S root ->
  forall n s r, (r = root \/ In r (map snd V)) -> occn B_code s n r -> In s (map snd S).
Proof.
  intros V S root HVok Hrok HVdone Hrdone n. induction n as [n IH] using lt_wf_ind. intros s r Hr Hocc.
  assert (Rok : tree_ok r = true).
  { destruct Hr as [->|Hr]; [exact Hrok|]. apply in_map_iff in Hr. destruct Hr as (x & <- & Hx). auto. }
  assert (Rdone : done V S r).
  { destruct Hr as [->|Hr]; [exact Hrdone|]. apply in_map_iff in Hr. destruct Hr as (x & <- & Hx). auto. }
  destruct Rdone as [Rloc Rch].
  destruct n as [|m]; [destruct Hocc|].
  (* crossing a covered child *)
  assert (CROSS : forall t, In t (fs_children r) -> tree_ok t = true -> occn B_code s m t -> In s (map snd S)).
  { intros t Ht Htok Hoc. destruct (Rch t Ht) as (q & Hq & Hc).
    apply (IH m (Nat.lt_succ_diag_r m) s (snd q)); [right; apply in_map; exact Hq|].
    destruct Hc as [->|Hc]; [exact Hoc|].
    apply (eqb_occn B_code eq_refl m t (snd q) s Htok (HVok q Hq) Hc). exact Hoc. }
  assert (Hsym_case : is_sym s = true /\ r = s -> In s (map snd S)).
  { intros [Hs ->]. destruct s; try discriminate; exact Rloc. }
  destruct (is_subs r) eqn:Esub.
  - (* Subs *)
    destruct r; try discriminate. cbn [occn] in Hocc.
    destruct Hocc as [Hb|[[H1 H2]|[[Hb _]|(k & v & Hin & Hv)]]].
    + apply Hsym_case. exact Hb.
    + cbn [fs_local] in Rloc. apply Rloc; [eapply occn_occurs; eauto|apply H2; reflexivity].
    + discriminate.
    + apply (CROSS v); [cbn [fs_children]; apply in_map_iff; exists (k, v); auto| |exact Hv].
      eapply tree_ok_args; [exact Rok|]. cbn [get_args]. right. apply in_or_app. right.
      apply in_map_iff. exists (k, v). auto.
  - (* any other node *)
    assert (D : (is_sym s = true /\ r = s) \/ ~ (is_sym s = true /\ r = s)).
    { destruct (is_sym r) eqn:Er.
      - cbn [occn] in Hocc. destruct Hocc as [Hb|Hst]; [left; exact Hb|]. destruct r; try discriminate; destruct Hst.
      - right. intros [Hs ->]. congruence. }
    destruct D as [D|D]; [apply Hsym_case; exact D|].
    destruct (occn_arg_down B_code s m r eq_refl Rok Esub Hocc D) as (t & Ht & Hoc).
    apply (CROSS t); [|eapply tree_ok_args; eauto|exact Hoc].
    destruct r; cbn [fs_children]; try exact Ht; try (destruct Ht; fail); discriminate.
Qed.

Lemma complete_step : forall f, post_at f -> complete_at f.
Proof.
  intros f PF e s Hw Hok Hocc.
  assert (Hinv0 : vinv v_empty) by (split; intros x []).
  destruct (PF (mk_hx e) v_empty Hw (mk_hx_ok e) Hok Hinv0) as (P1 & P2 & P3 & P4 & P5). cbn [snd mk_hx] in *.
  apply occurs_occn in Hocc. destruct Hocc as [n Hn].
  eapply (closed_cover (vs_v (fs_visit f (mk_hx e) v_empty)) _ e); [apply P3|exact Hok| |exact P4|left; reflexivity|exact Hn].
  intros r Hr. destruct (P5 r Hr) as [[]|Hd]. exact Hd.
Qed.

Lemma post_all : forall f, post_at f.
Proof.
  induction f as [|f IH].
  - intros he st Hw. pose proof (weight_pos (snd he)). lia.
  - apply post_step; [exact IH|apply complete_step; exact IH].
Qed.

Theorem fs_complete : forall e s, tree_ok e = true -> occurs_code s e -> In s (free_symbols e).
Proof.
  intros e s Hok Hocc. unfold free_symbols, free_symbols_st.
  apply (complete_step (weight e) (post_all _) e s (le_n _) Hok Hocc).
Qed.

(* the model-level specification of what the code computes *)
Theorem free_symbols_code_spec : forall e, tree_ok e = true ->
  vs_out (free_symbols_st e) = false /\
  forall s, In s (free_symbols e) <-> occurs_code s e.
Proof.
  intros e Hok. split; [apply fs_terminates|]. intros s. split.
  - intros H. apply fs_sound in H. tauto.
  - apply fs_complete. exact Hok.
Qed.
