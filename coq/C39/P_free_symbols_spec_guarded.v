(* C39 obligation (the property, guarded): on trees without ImageSet / ConditionSet nodes,
   free_symbols(e) is exactly the set of symbols that occur free in e (Subs binds its variables
   in its first argument).  tree_ok: no zero value and no hash collision inside one Add
   dictionary, Subs variables are Symbols. *)
From SE Require Import C39.FsSpec.
Theorem C39_free_symbols_spec_guarded :
  forall e, tree_ok e = true -> guard_set_binder e = false ->
  forall s, In s (free_symbols e) <-> occurs_free s e.
Proof. exact free_symbols_spec_guarded. Qed.
Print Assumptions C39_free_symbols_spec_guarded.
