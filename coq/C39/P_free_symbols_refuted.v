(* C39 refutation (DESIGN.md section 11, row 31): FreeSymbolsVisitor has no case for ImageSet /
   ConditionSet, their bound symbol is reported free.  Witnesses: ImageSet(x, x**2, Reals),
   ConditionSet(x, y < x); both reproduce on the library (checks/C39.py corpus). *)
From SE Require Import C39.FsSpec.
Theorem C39_free_symbols_refuted :
  exists e s, tree_ok e = true /\ In s (free_symbols e) /\ ~ occurs_free s e.
Proof. exact free_symbols_refuted. Qed.
Theorem C39_free_symbols_refuted_condset :
  In sym_x (free_symbols wit_condset) /\ ~ occurs_free sym_x wit_condset.
Proof. exact free_symbols_refuted_condset. Qed.
Print Assumptions C39_free_symbols_refuted.
