(* C39 -- specification: occurrences of a symbol in an expression tree, with binders.
   [occurs B s e]: the symbol s occurs in e at a position that is not bound, where the
   binder mode B says which binding constructs are honoured:
     B_none  every occurrence counts (what has_symbol looks at)
     B_code  Subs binds its variables in its first argument (what FreeSymbolsVisitor honours)
     B_all   in addition ImageSet(sym, expr, base) binds sym in expr and
             ConditionSet(sym, cond) binds sym in cond        (the property: occurs_free)
   Derivative is not a binder: d/dx f(x, y) depends on x.
   [subarg x e]: x is reachable from e through get_args (the library's notion of subexpression). *)
From SE Require Export C39.QueryModel.
Local Open Scope N_scope.

Record bmode := mkB { b_subs : bool; b_sets : bool }.
Definition B_none : bmode := mkB false false.
Definition B_code : bmode := mkB true false.
Definition B_all : bmode := mkB true true.

(* an EFN node that is a well-formed ImageSet / ConditionSet, when set binders are honoured *)
Definition set_binder_node (B : bmode) (c : N) (l : list expr) : bool :=
  b_sets B && (((c =? TC_ImageSet) && (length l =? 3)%nat) || ((c =? TC_ConditionSet) && (length l =? 2)%nat)).

Inductive occurs (B : bmode) (s : expr) : expr -> Prop :=
| O_self : is_sym s = true -> occurs B s s
| O_add : forall c d k v, In (k, v) d -> occurs B s k -> occurs B s (EAdd c d)
| O_mul_key : forall c d k v, In (k, v) d -> occurs B s k -> occurs B s (EMul c d)
| O_mul_exp : forall c d k v, In (k, v) d -> occurs B s v -> occurs B s (EMul c d)
| O_pow_base : forall b x, occurs B s b -> occurs B s (EPow b x)
| O_pow_exp : forall b x, occurs B s x -> occurs B s (EPow b x)
| O_f1 : forall c a, occurs B s a -> occurs B s (EF1 c a)
| O_f2_l : forall c a b, occurs B s a -> occurs B s (EF2 c a b)
| O_f2_r : forall c a b, occurs B s b -> occurs B s (EF2 c a b)
| O_fn : forall c l a, set_binder_node B c l = false -> In a l -> occurs B s a -> occurs B s (EFN c l)
| O_imageset_expr : forall sym body base, b_sets B = true ->
    occurs B s body -> s <> sym -> occurs B s (EFN TC_ImageSet [sym; body; base])
| O_imageset_base : forall sym body base, b_sets B = true ->
    occurs B s base -> occurs B s (EFN TC_ImageSet [sym; body; base])
| O_condset : forall sym cond, b_sets B = true ->
    occurs B s cond -> s <> sym -> occurs B s (EFN TC_ConditionSet [sym; cond])
| O_funsym : forall nm l a, In a l -> occurs B s a -> occurs B s (EFunSym nm l)
| O_lex_l : forall c a b, occurs B s a -> occurs B s (ELex c a b)
| O_lex_r : forall c a b, occurs B s b -> occurs B s (ELex c a b)
| O_deriv_arg : forall a xs, occurs B s a -> occurs B s (EDeriv a xs)
| O_deriv_var : forall a xs x, In x xs -> occurs B s x -> occurs B s (EDeriv a xs)
| O_subs_arg : forall a d, occurs B s a -> (b_subs B = true -> ~ In s (map fst d)) ->
    occurs B s (ESubs a d)
| O_subs_var : forall a d k v, b_subs B = false -> In (k, v) d -> occurs B s k -> occurs B s (ESubs a d)
| O_subs_point : forall a d k v, In (k, v) d -> occurs B s v -> occurs B s (ESubs a d)
| O_pw_expr : forall l x c, In (x, c) l -> occurs B s x -> occurs B s (EPw l)
| O_pw_cond : forall l x c, In (x, c) l -> occurs B s c -> occurs B s (EPw l)
| O_interval_l : forall a b lo ro, occurs B s a -> occurs B s (EInterval a b lo ro)
| O_interval_r : forall a b lo ro, occurs B s b -> occurs B s (EInterval a b lo ro).

Definition occurs_free (s e : expr) : Prop := occurs B_all s e.      (* the property's notion *)
Definition occurs_code (s e : expr) : Prop := occurs B_code s e.     (* what the code honours *)
Definition occurs_any (s e : expr) : Prop := occurs B_none s e.      (* every occurrence *)

(* subexpressions in the library's sense: the reflexive-transitive closure of get_args *)
Inductive subarg : expr -> expr -> Prop :=
| SA_refl : forall e, subarg e e
| SA_step : forall x p e, In p (get_args e) -> subarg x p -> subarg x e.

(* the polynomial fragment for coeff (CoeffProofs.v): monomials c * x^k with numeric c *)
Definition xpow (x : expr) (k : Z) : expr :=
  if (k =? 1)%Z then x else EPow x (ENum (NInt k)).
