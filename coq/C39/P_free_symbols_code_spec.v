(* C39 obligation: what FreeSymbolsVisitor computes on every tree (ImageSet / ConditionSet
   included): the traversal terminates within its fuel and reports exactly the symbols that occur
   outside the first argument of a Subs that binds them (memo set included in the model). *)
From SE Require Import C39.FsComplete.
Theorem C39_free_symbols_code_spec :
  forall e, tree_ok e = true ->
  vs_out (free_symbols_st e) = false /\
  forall s, In s (free_symbols e) <-> occurs_code s e.
Proof. exact free_symbols_code_spec. Qed.
Print Assumptions C39_free_symbols_code_spec.
