(* C39 refutation: has_symbol walks every get_args argument, also the variables of a Subs, so it
   answers true for a bound variable that free_symbols (rightly) omits.
   Witness: Subs(Derivative(f(x, y), x), {x: z}) and x; reproduces on the library. *)
From SE Require Import C39.HasSym.
Theorem C39_has_symbol_agrees_refuted :
  exists e s, tree_ok e = true /\ is_sym s = true /\
    has_symbol e s = Some true /\ ~ In s (free_symbols e).
Proof. exact has_symbol_agrees_refuted. Qed.
Print Assumptions C39_has_symbol_agrees_refuted.
