(* C42 obligation: cwrap_agrees: for every row of the driver's hand-written C++-API mirror (153 C functions), the destination, the
   forwarded C++ expression and the ARGUMENT ORDER read from cwrapper.cpp are the expected ones -- except the listed deviations. *)
From SE Require Import C42.CWrapSpec C42.CContainers C42.CWrapProofs C42.Gen_CWrap C42.CWrapTable.
Local Open Scope string_scope.
Theorem C42_cwrap_agrees_guarded :
  forallb (fun e => agrees cwrap_table e || mem_str (ex_name e) known_deviations) expected_table = true.
Proof. exact cwrap_agrees_guarded. Qed.
Print Assumptions C42_cwrap_agrees_guarded.
