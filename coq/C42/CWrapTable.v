(* C42 -- theorems about the table that the translator reads out of the CURRENT cwrapper.cpp /
   expression.h (Gen_CWrap.v): finite tables, swept completely by the kernel (vm_compute), then
   lifted to all call sequences with the theorems of CWrapProofs.v. *)
From SE Require Import C42.CWrapSpec C42.CWrapProofs C42.Gen_CWrap.
Local Open Scope string_scope.

(* ------------------------------------------------------------------ cwrap_total *)
(* every extern "C" function is protected by a try block or calls only non-throwing functions --
   EXCEPT the listed ones *)
Theorem cwrap_total_guarded : forallb total_or_listed cwrap_table = true.
Proof. vm_compute. reflexivity. Qed.

(* the lists are not padding: every listed function exists and is really unprotected *)
Theorem listed_are_unprotected :
  forallb (fun n => match find_cfun cwrap_table n with Some f => negb (protected f) | None => false end)
          (known_escaping ++ unconfirmed_escaping) = true.
Proof. vm_compute. reflexivity. Qed.

(* the unguarded statement is false: a function outside any try block whose callee throws lets the exception
   out -- witness in the model (replayed on the library by the check: init of a lambda visitor with an
   expression whose symbol is not among the arguments) *)
Definition throwing_core : oracle := fun _ _ _ => ErrExn EXN_SYMENGINE.
Theorem cwrap_total_refuted :
  exists f, In f cwrap_table /\ protected f = false /\
    exists st c, fst (step throwing_core cwrap_table 0 st c) = Escape EXN_SYMENGINE /\ c_fn c = cf_name f.
Proof.
  destruct (find_cfun cwrap_table "lambda_real_double_visitor_init") as [f|] eqn:E; [|vm_compute in E; discriminate].
  exists f. pose proof (find_cfun_in _ _ _ E) as [Hin Hn].
  split; [exact Hin|]. split.
  - vm_compute in E. inversion E; subst. vm_compute. reflexivity.
  - exists (init_state 1 2 0 0), (mkcall "lambda_real_double_visitor_init" [AL; AV 0; AV 1; AZ 0]).
    split; [vm_compute; reflexivity | rewrite Hn; reflexivity].
Qed.

(* lifted: on the current code, no call of a function outside the lists lets an exception out, whatever the
   core does (as long as non-throwing C++ functions do not throw), in any state *)
Theorem table_no_escape : forall core k st c f,
  find_cfun cwrap_table (c_fn c) = Some f ->
  mem_str (cf_name f) (known_escaping ++ unconfirmed_escaping) = false ->
  core_respects_nothrow core cwrap_table ->
  is_escape (fst (step core cwrap_table k st c)) = false.
Proof.
  intros core k st c f Hf Hl Hc.
  assert (Hp : protected f = true).
  { pose proof (find_cfun_in _ _ _ Hf) as [Hin _].
    pose proof cwrap_total_guarded as G. rewrite forallb_forall in G. specialize (G f Hin).
    unfold total_or_listed in G. unfold mem_str in Hl. rewrite existsb_app in Hl.
    apply orb_false_iff in Hl. destruct Hl as [L1 L2]. unfold mem_str in G. rewrite L1, L2 in G.
    rewrite !orb_false_r in G. exact G. }
  eapply no_escape; eauto.
Qed.

(* ------------------------------------------------------------------ cwrap_agrees *)
(* the plumbing read from the code (destination, forwarded C++ expression, argument order) is the plumbing of the
   driver's independent C++-API mirror -- EXCEPT for the listed deviations *)
Definition known_deviations : list string := [].
Theorem cwrap_agrees : forallb (agrees cwrap_table) expected_table = true.
Proof. vm_compute. reflexivity. Qed.
Theorem cwrap_agrees_guarded :
  forallb (fun e => agrees cwrap_table e || mem_str (ex_name e) known_deviations) expected_table = true.
Proof. vm_compute. reflexivity. Qed.

(* lifted: for every expected row outside the deviations, a call whose guards and type preconditions hold returns
   success with the C++ API value (the expected callee on the expected argument order) in the expected destination,
   or -- when the API throws -- the error code / nullptr with the state untouched *)
Theorem table_agrees_sem : forall core e f k st actuals,
  In e expected_table -> mem_str (ex_name e) known_deviations = false ->
  find_cfun cwrap_table (ex_name e) = Some f ->
  actuals_match (cf_params f) actuals = true ->
  all_hold guard_holds st actuals (cf_guards f) = true ->
  all_hold class_holds st actuals (cf_casts f) = true ->
  zguard_fires actuals (cf_zguards f) = None ->
  match spec_call core e k st actuals with
  | Some (Ok v) =>
      match spec_store e st actuals v with
      | Some st' => fwd_step core f k st actuals = (ok_outcome f v, st')
      | None => fst (fwd_step core f k st actuals) = Unmodelled
      end
  | Some (ErrExn cls) =>
      fwd_step core f k st actuals =
        (match cf_wrap f with WFull => RetCode (code_of_exn cls) | WNull => RetStr None | WNone => Escape cls end, st)
  | _ => fst (fwd_step core f k st actuals) = Unmodelled
  end.
Proof.
  intros core e f k st actuals Hin Hd Hf Ha Hg Hc Hz.
  apply agrees_sem; auto.
  pose proof cwrap_agrees_guarded as G. rewrite forallb_forall in G. specialize (G e Hin).
  rewrite Hd in G. rewrite orb_false_r in G. unfold agrees in G. rewrite Hf in G. exact G.
Qed.

(* ------------------------------------------------------------------ Expression operators *)
(* every operator row the driver's mirror expects is the row read from expression.h, and every row of
   expression.h is expected (diff / subs are member functions, not operators: not part of the mirror) *)
Theorem expression_ops_agree :
  forallb (fun e => existsb (xrow_eqb e) expression_table) expected_expression_table = true /\
  forallb (fun g => existsb (xrow_eqb g) expected_expression_table || mem_str (xf_name g) ["diff"; "subs"])
          expression_table = true.
Proof. split; vm_compute; reflexivity. Qed.

(* ------------------------------------------------------------------ the hand transcriptions are current *)
Theorem hand_model_current :
  forallb (fun p => match find_cfun cwrap_table (fst p) with Some f => cf_fp f =? snd p | None => false end)
          hand_modelled = true.
Proof. vm_compute. reflexivity. Qed.
Theorem cwrapper_macros_current :
  (cwrapper_begin_text =? modelled_cwrapper_begin) && (cwrapper_end_text =? modelled_cwrapper_end) = true.
Proof. vm_compute. reflexivity. Qed.

(* ------------------------------------------------------------------ sanity of the generated table *)
Theorem table_well_formed :
  forallb (fun f => forallb (fun i => (i <? length (cf_params f))%nat) (cf_args f)
                    && match cf_out f with OParam i => (i <? length (cf_params f))%nat | _ => true end
                    && forallb (fun g => (snd g <? length (cf_params f))%nat) (cf_guards f ++ cf_casts f)
                    && forallb (fun g => (fst g <? length (cf_params f))%nat) (cf_zguards f))
          cwrap_table = true.
Proof. vm_compute. reflexivity. Qed.
