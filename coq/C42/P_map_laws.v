(* C42 obligation: CMapBasicBasic behaves as a map on eq-classes of keys: lookup after insert, size. *)
From SE Require Import C42.CWrapSpec C42.CContainers C42.CWrapProofs.
Local Open Scope string_scope.
Theorem C42_map_laws :
  forall (st : state) (i j k o : nat) (m : list (val * val)) (key v : val),
    state_inv st -> nth_error (s_m st) i = Some m -> nth_error (s_b st) j = Some key -> nth_error (s_b st) k = Some v ->
    (o < length (s_b st))%nat ->
    let st1 := set_m st i (map_set vlt key v m) in
    hand_step "mapbasicbasic_insert" st [AM i; AB j; AB k] = (RetVoid, st1) /\
    (forall j' key', nth_error (s_b st) j' = Some key' ->
       hand_step "mapbasicbasic_get" st1 [AM i; AB j'; AB o] =
         match (if equiv val vlt key' key then Some v else map_get vlt key' m) with
         | Some x => (RetInt 1, set_b st1 o x)
         | None => (RetInt 0, st1)
         end) /\
    hand_step "mapbasicbasic_size" st1 [AM i] =
      (RetInt (Z.of_nat (length m + match map_get vlt key m with Some _ => 0 | None => 1 end)), st1).
Proof. exact map_laws. Qed.
Print Assumptions C42_map_laws.
