(* C42 -- the vocabulary of the table that translators/tr_cwrapper.py reads out of
   symengine/cwrapper.cpp (one [cfun] per extern "C" function) and symengine/expression.h
   (one [xfun] per Expression operator).  No proofs here (the model must extract even when a
   proof breaks). *)
From Coq Require Export String List NArith ZArith Bool.
Export ListNotations.

(* return type of the C function *)
Inductive rkind := RCode     (* CWRAPPER_OUTPUT_TYPE: an error code *)
                 | RVoid | RInt | RStr (* char* *) | RSize | ROther.
(* how the body is protected *)
Inductive wrapk :=
| WFull    (* <guards> CWRAPPER_BEGIN ... CWRAPPER_END : exceptions become error codes *)
| WNull    (* try { ... } catch (SymEngineException&) { return nullptr; } catch (...) { return nullptr; } *)
| WNone.   (* no try block: an exception thrown by a callee leaves the extern "C" function *)
Inductive pkind := PBasic | PVec | PSet | PMap | PMat | PSMat | PInt | PDouble | PStr | POther.
(* where the value of the forwarded C++ expression goes *)
Inductive outk := OParam (i : nat) | ORet | ONone.

Record cfun := mk_cfun {
  cf_name : string;
  cf_ret : rkind;
  cf_params : list pkind;
  cf_guards : list (string * nat);    (* if (not G(param)) return SYMENGINE_RUNTIME_ERROR;  -- before the try block *)
  cf_asserts : list (string * nat);   (* SYMENGINE_ASSERT(is_a..(param)): type preconditions (compiled out in release) *)
  cf_casts : list (string * nat);     (* rcp_static_cast / down_cast of a parameter to class T: implied type precondition *)
  cf_zguards : list (nat * N);        (* if (param == 0) { return <error code>; }  at the head of the protected part *)
  cf_wrap : wrapk;
  cf_out : outk;
  cf_tmpl : string;                   (* the forwarded C++ expression, parameters replaced by $ ; "" = other shape *)
  cf_args : list nat;                 (* the parameter standing at each $, left to right *)
  cf_calls_out : list string;         (* everything called outside the try block *)
  cf_fp : string                      (* fingerprint of the body text *)
}.

(* one row of the driver's hand-written C++-API mirror: the plumbing the C function is EXPECTED to have *)
Record expected := mk_expected {
  ex_name : string; ex_out : outk; ex_tmpl : string; ex_args : list nat
}.

Record xfun := mk_xfun {
  xf_name : string; xf_variant : string; xf_tmpl : string; xf_args : list nat
}.

Definition find_cfun (table : list cfun) (name : string) : option cfun :=
  find (fun f => String.eqb (cf_name f) name) table.

Definition mem_str (s : string) (l : list string) : bool := existsb (String.eqb s) l.

Definition wrapk_eqb (a b : wrapk) : bool :=
  match a, b with WFull, WFull | WNull, WNull | WNone, WNone => true | _, _ => false end.
Definition outk_eqb (a b : outk) : bool :=
  match a, b with OParam i, OParam j => Nat.eqb i j | ORet, ORet | ONone, ONone => true | _, _ => false end.
Fixpoint list_eqb {A} (e : A -> A -> bool) (l1 l2 : list A) : bool :=
  match l1, l2 with
  | [], [] => true
  | x :: r1, y :: r2 => e x y && list_eqb e r1 r2
  | _, _ => false
  end.
