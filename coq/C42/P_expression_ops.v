(* C42 obligation: every Expression operator of expression.h forwards to the expected core function with the expected operand order
   (rows read from expression.h against the rows the driver's mirror exercises). *)
From SE Require Import C42.CWrapSpec C42.CContainers C42.CWrapProofs C42.Gen_CWrap C42.CWrapTable.
Local Open Scope string_scope.
Theorem C42_expression_ops :
  forallb (fun e => existsb (xrow_eqb e) expression_table) expected_expression_table = true /\
  forallb (fun g => existsb (xrow_eqb g) expected_expression_table || mem_str (xf_name g) ["diff"; "subs"])
          expression_table = true.
Proof. exact expression_ops_agree. Qed.
Print Assumptions C42_expression_ops.
