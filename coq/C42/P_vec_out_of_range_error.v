(* C42 obligation: vecbasic_get / vecbasic_set / vecbasic_erase with an index outside the vector return SYMENGINE_RUNTIME_ERROR and
   change nothing.  [Was refuted -- unchecked access -- until the repair of the three functions.] *)
From SE Require Import C42.CWrapSpec C42.CContainers C42.CWrapProofs.
Local Open Scope string_scope.
Theorem C42_vec_out_of_range_error :
  forall (st : state) (i j : nat) (l : list val) (n : nat),
    nth_error (s_v st) i = Some l -> nth_error (s_b st) j <> None -> (length l <= n)%nat ->
    hand_step "vecbasic_get" st [AV i; AZ (Z.of_nat n); AB j] = (RetCode SYMENGINE_RUNTIME_ERROR, st) /\
    hand_step "vecbasic_set" st [AV i; AZ (Z.of_nat n); AB j] = (RetCode SYMENGINE_RUNTIME_ERROR, st) /\
    hand_step "vecbasic_erase" st [AV i; AZ (Z.of_nat n)] = (RetCode SYMENGINE_RUNTIME_ERROR, st).
Proof. exact vec_out_of_range_error. Qed.
Print Assumptions C42_vec_out_of_range_error.
