(* C42 -- specification side: what "wrapped or non-throwing" means for a table row, the expected
   plumbing (the rows of the driver's independent C++-API mirror), the invariant of the state, and
   the C++ API semantics of a forwarding call stated directly from an expected row. *)
From SE Require Export C42.CWrapModel Expr.Wf.
From Coq Require Export Sorted.
Local Open Scope string_scope.

(* ------------------------------------------------------------------ cwrap_total *)
(* C++ functions / methods / operators that appear OUTSIDE a try block somewhere in cwrapper.cpp and
   cannot throw (std::bad_alloc is outside the model):
   - representation adapters and type tests: basic_rcp, rcp_static_cast, down_cast, numeric_cast (its range checks are
     SYMENGINE_ASSERTs, compiled out), outArg, is_a / is_a_Number / is_a_Set / is_a_Symbol, is_aligned, get_type_code;
   - accessors returning stored fields: as_double, as_integer_class, as_complex_double, real, imag, as_mpfr, get_mpfr_t,
     get_prec, mpfr_get_d, mp_get_si, mp_get_ui (truncate), get_name, nrows, ncols, hash (cached or recomputed from
     fields), is_zero / is_negative / is_positive / is_complex (virtual, total on every Number class);
   - eq / neq / has_symbol: structural walks; __eq__ and compare are total on operands of the same class
     (C01 / C02 model them as total functions);
   - std::set / std::map / std::vector operations with the RCPBasicKeyLess comparator (hash, eq, compare): insert, find,
     erase, end, begin, std::next, size, push_back, operator[];
   - singletons and constructors that only allocate: constant, emptyset, complexes, reals, rationals, integers, ascii_art,
     std::string, CRCPBasic, RCP (destructor), CDenseMatrix / CSRMatrix / C*Visitor constructors, new / delete;
   - Rational::from_two_ints (a zero denominator gives zoo / nan, no exception); mod_inverse (returns 0 when no inverse);
   - string copying: length, c_str, copy, std::strcpy, std::strcmp;
   - the compiled numeric kernels: call;   print_stack_on_segfault installs a signal handler. *)
Definition nothrow_calls : list string := [
  "basic_rcp"; "rcp_static_cast"; "down_cast"; "numeric_cast"; "outArg"; "is_a"; "is_a_Number"; "is_a_Set"; "is_a_Symbol";
  "is_aligned"; ".get_type_code";
  ".as_double"; ".as_integer_class"; ".as_complex_double"; ".real"; ".imag"; ".as_mpfr"; ".get_mpfr_t"; ".get_prec";
  "mpfr_get_d"; "mp_get_si"; "mp_get_ui"; ".get_name"; ".nrows"; ".ncols"; ".hash";
  ".is_zero"; ".is_negative"; ".is_positive"; ".is_complex";
  "eq"; "neq"; "has_symbol";
  ".insert"; ".find"; ".erase"; ".end"; ".begin"; "std::next"; ".size"; ".push_back"; "operator[]";
  "constant"; "emptyset"; "universalset"; "complexes"; "reals"; "rationals"; "integers"; "ascii_art"; "std::string";
  "CRCPBasic"; "RCP"; "CDenseMatrix"; "CSRMatrix"; "CLambdaRealDoubleVisitor"; "CLLVMDoubleVisitor"; "CLLVMFloatVisitor";
  "CLLVMLongDoubleVisitor"; "new"; "delete";
  "Rational::from_two_ints"; "mod_inverse";
  ".length"; ".c_str"; ".copy"; "std::strcpy"; "std::strcmp";
  ".call"; "print_stack_on_segfault"
].

(* a row is fine when everything it calls outside a try block is in the allow-list
   (for WFull / WNull rows these are the guards in front of the try block and the copying after it) *)
Definition protected (f : cfun) : bool := forallb (fun c => mem_str c nothrow_calls) (cf_calls_out f).

(* rows that are NOT fine, each with a throwing input replayed on the library (checks/C42.py CORPUS):
     lambda_real_double_visitor_init : init({x}, {y})                 SymEngineException, "Symbol not in the symbols vector"
     basic_set_is_subset ...         : {y} against {x} U [1, 2)       NotImplementedError (Union::contains)
   (basic_dumps was in this list -- dumps(Complexes) throws SerializationError -- until it got its try block)
   the llvm_*_visitor_init rows have the body of lambda_real_double_visitor_init (not compiled in this configuration) *)
Definition known_escaping : list string := [
  "lambda_real_double_visitor_init"; "llvm_double_visitor_init"; "llvm_float_visitor_init"; "llvm_long_double_visitor_init";
  "basic_set_is_subset"; "basic_set_is_proper_subset"; "basic_set_is_superset"; "basic_set_is_proper_superset"
].
(* rows outside a try block whose callee is not known to be total, but for which no throwing input was found:
   MatrixBase::__str__ prints the entries (the printers are protected by a try block in basic_str, so they are
   treated as throwing here) *)
Definition unconfirmed_escaping : list string := ["dense_matrix_str"; "sparse_matrix_str"].

Definition total_or_listed (f : cfun) : bool :=
  protected f || mem_str (cf_name f) known_escaping || mem_str (cf_name f) unconfirmed_escaping.

(* ------------------------------------------------------------------ cwrap_agrees *)
Fixpoint natlist_eqb (l1 l2 : list nat) : bool :=
  match l1, l2 with
  | [], [] => true
  | x :: r1, y :: r2 => Nat.eqb x y && natlist_eqb r1 r2
  | _, _ => false
  end.
Definition row_agrees (f : cfun) (e : expected) : bool :=
  outk_eqb (cf_out f) (ex_out e) && (cf_tmpl f =? ex_tmpl e) && natlist_eqb (cf_args f) (ex_args e).
Definition agrees (table : list cfun) (e : expected) : bool :=
  match find_cfun table (ex_name e) with
  | Some f => row_agrees f e
  | None => false
  end.
Definition xrow_eqb (a b : xfun) : bool :=
  (xf_name a =? xf_name b) && (xf_variant a =? xf_variant b) && (xf_tmpl a =? xf_tmpl b)
  && natlist_eqb (xf_args a) (xf_args b).

(* the C++ API value of a call, read off an EXPECTED row (no reference to the code's table) *)
Definition spec_call (core : oracle) (e : expected) (k : N) (st : state) (actuals : list arg) : option (res cval) :=
  match resolve_all st actuals (ex_args e) with
  | None => None
  | Some cargs =>
      Some (if ex_tmpl e =? "$" then match cargs with [c] => Ok c | _ => ErrFuel end
            else core k (ex_tmpl e) cargs)
  end.
(* where the expected row puts the value *)
Definition spec_store (e : expected) (st : state) (actuals : list arg) (v : cval) : option state :=
  match ex_out e with
  | OParam i => match nth_error actuals i with Some a => store st a v | None => None end
  | ORet | ONone => Some st
  end.

(* ------------------------------------------------------------------ state invariant *)
Definition val_wf (v : val) : Prop := wf (vex v) = true.
Definition vsorted (s : list val) : Prop := StronglySorted (fun a b => vlt a b = true) s.
Definition set_ok (s : list val) : Prop := Forall val_wf s /\ vsorted s.
Definition map_ok (m : list (val * val)) : Prop :=
  Forall val_wf (map fst m) /\ Forall val_wf (map snd m) /\ vsorted (map fst m).
Definition cval_ok (c : cval) : Prop :=
  match c with
  | CB v => val_wf v
  | CVec l => Forall val_wf l
  | CSet l => set_ok l
  | CMap m => map_ok m
  | _ => True
  end.
Record state_inv (st : state) : Prop := {
  inv_b : Forall val_wf (s_b st);
  inv_v : Forall (Forall val_wf) (s_v st);
  inv_s : Forall set_ok (s_s st);
  inv_m : Forall map_ok (s_m st)
}.
(* the core returns well-formed expressions, and sets in RCPBasicKeyLess order *)
Definition core_ok (core : oracle) : Prop := forall k t a r, core k t a = Ok r -> cval_ok r.

(* the core never throws on expressions made of non-throwing calls only *)
Definition core_respects_nothrow (core : oracle) (table : list cfun) : Prop :=
  forall f, In f table -> cf_wrap f = WNone -> protected f = true ->
    forall k args cls, core k (cf_tmpl f) args <> ErrExn cls.

Definition is_escape (o : outcome) : bool := match o with Escape _ => true | _ => false end.
