(* C42 obligation: a CWRAPPER_BEGIN/END function returning CWRAPPER_OUTPUT_TYPE always answers with a code; a non-zero code leaves
   every handle untouched (for every table row of that shape, core oracle, state, arguments). *)
From SE Require Import C42.CWrapSpec C42.CContainers C42.CWrapProofs.
Local Open Scope string_scope.
Theorem C42_wrapped_outcome :
  forall (core : oracle) (f : cfun) (k : N) (st : state) (actuals : list arg),
    cf_wrap f = WFull -> cf_ret f = RCode ->
    let os := fwd_step core f k st actuals in
    (exists c, fst os = RetCode c /\ (c <> SYMENGINE_NO_EXCEPTION -> snd os = st))
    \/ fst os = Precond \/ fst os = Unmodelled.
Proof. exact wrapped_outcome. Qed.
Print Assumptions C42_wrapped_outcome.
