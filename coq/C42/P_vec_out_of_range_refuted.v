(* C42 obligation: as coded, vecbasic_get / vecbasic_erase with an index outside the vector do NOT return an error code: the model
   reaches the unchecked access (refutes `a result or an error code` for these arguments; replayed on the library: abort under
   _GLIBCXX_ASSERTIONS for get / set, silent corruption for erase). *)
From SE Require Import C42.CWrapSpec C42.CContainers C42.CWrapProofs.
Local Open Scope string_scope.
Theorem C42_vec_out_of_range_refuted :
  forall (st : state) (i j : nat) (l : list val) (n : nat),
    nth_error (s_v st) i = Some l -> (j < length (s_b st))%nat -> (length l <= n)%nat ->
    hand_step "vecbasic_get" st [AV i; AZ (Z.of_nat n); AB j] = (MemErr (N.of_nat n) (nlen l), st) /\
    hand_step "vecbasic_erase" st [AV i; AZ (Z.of_nat n)] = (MemErr (N.of_nat n) (nlen l), st).
Proof. exact vec_out_of_range_unchecked. Qed.
Print Assumptions C42_vec_out_of_range_refuted.
