(* C42 -- laws of the container models of CWrapModel.v: lists (CVecBasic) and lists sorted by a
   strict weak order (CSetBasic = std::set, CMapBasicBasic = std::map under RCPBasicKeyLess).
   Everything is proved for an arbitrary comparator [lt] that is irreflexive and transitive on a
   carrier [P] and whose incomparability is transitive; CWrapProofs.v instantiates it with
   [expr_keyless] on well-formed expressions (theorems of C01/C02). *)
From SE Require Import C42.CWrapModel.
From Coq Require Import Lia Sorted.

(* ------------------------------------------------------------------ vectors *)
Section Vec.
  Context {A : Type}.

  Lemma upd_nth_length : forall (l : list A) n x, length (upd_nth l n x) = length l.
  Proof. induction l; destruct n; cbn; intros; auto. Qed.

  Lemma nth_upd_nth_eq : forall (l : list A) n x, (n < length l)%nat -> nth_error (upd_nth l n x) n = Some x.
  Proof. induction l; destruct n; cbn; intros; try lia; auto. apply IHl. lia. Qed.

  Lemma nth_upd_nth_ne : forall (l : list A) n m x, n <> m -> nth_error (upd_nth l n x) m = nth_error l m.
  Proof. induction l; destruct n; destruct m; cbn; intros; try congruence; auto. Qed.

  Lemma upd_nth_out : forall (l : list A) n x, (length l <= n)%nat -> upd_nth l n x = l.
  Proof. induction l; destruct n; cbn; intros; auto; try lia. f_equal. apply IHl. lia. Qed.

  Lemma remove_nth_length : forall (l : list A) n, (n < length l)%nat -> length (remove_nth l n) = pred (length l).
  Proof.
    induction l; destruct n; cbn; intros; try lia; auto.
    rewrite IHl by lia. destruct l; cbn in *; lia.
  Qed.

  Lemma nth_remove_nth_lt : forall (l : list A) n m, (m < n)%nat -> nth_error (remove_nth l n) m = nth_error l m.
  Proof. induction l; destruct n; destruct m; cbn; intros; try lia; auto. apply IHl. lia. Qed.

  Lemma nth_remove_nth_ge : forall (l : list A) n m, (n <= m)%nat -> nth_error (remove_nth l n) m = nth_error l (S m).
  Proof.
    induction l as [|a l IH]; intros n m H.
    - destruct n; destruct m; reflexivity.
    - destruct n as [|n].
      + reflexivity.
      + destruct m as [|m]; [lia|]. cbn. apply IH. lia.
  Qed.

  Lemma nth_app_last : forall (l : list A) x, nth_error (l ++ [x]) (length l) = Some x.
  Proof. induction l; cbn; auto. Qed.

  Lemma nth_app_old : forall (l : list A) x n, (n < length l)%nat -> nth_error (l ++ [x]) n = nth_error l n.
  Proof. intros. apply nth_error_app1. assumption. Qed.
End Vec.

(* ------------------------------------------------------------------ ordered sets and maps *)
Section Ordered.
  Variable A : Type.
  Variable lt : A -> A -> bool.
  Variable P : A -> Prop.
  Definition equiv (x y : A) : bool := negb (lt x y) && negb (lt y x).

  Hypothesis lt_irrefl : forall x, P x -> lt x x = false.
  Hypothesis lt_trans : forall x y z, P x -> P y -> P z -> lt x y = true -> lt y z = true -> lt x z = true.
  Hypothesis equiv_trans : forall x y z, P x -> P y -> P z -> equiv x y = true -> equiv y z = true -> equiv x z = true.

  Lemma lt_asym : forall x y, P x -> P y -> lt x y = true -> lt y x = false.
  Proof.
    intros x y Px Py H. destruct (lt y x) eqn:E; auto.
    pose proof (lt_trans x y x Px Py Px H E). rewrite lt_irrefl in H0; auto.
  Qed.

  Lemma equiv_sym : forall x y, equiv x y = equiv y x.
  Proof. intros. unfold equiv. apply andb_comm. Qed.

  Lemma equiv_refl : forall x, P x -> equiv x x = true.
  Proof. intros. unfold equiv. rewrite lt_irrefl; auto. Qed.

  (* a strict weak order: the order respects incomparability *)
  Lemma lt_equiv_l : forall x y z, P x -> P y -> P z -> equiv x y = true -> lt x z = true -> lt y z = true.
  Proof.
    intros x y z Px Py Pz E L.
    destruct (lt y z) eqn:L1; auto.
    destruct (lt z y) eqn:L2.
    - pose proof (lt_trans x z y Px Pz Py L L2) as H. unfold equiv in E. rewrite H in E. discriminate.
    - assert (E2 : equiv y z = true) by (unfold equiv; rewrite L1, L2; reflexivity).
      pose proof (equiv_trans x y z Px Py Pz E E2) as H. unfold equiv in H. rewrite L in H. discriminate.
  Qed.
  Lemma lt_equiv_r : forall x y z, P x -> P y -> P z -> equiv x y = true -> lt z x = true -> lt z y = true.
  Proof.
    intros x y z Px Py Pz E L.
    destruct (lt z y) eqn:L1; auto.
    destruct (lt y z) eqn:L2.
    - pose proof (lt_trans y z x Py Pz Px L2 L) as H. unfold equiv in E. rewrite H in E. rewrite andb_false_r in E. discriminate.
    - assert (E2 : equiv z y = true) by (unfold equiv; rewrite L1, L2; reflexivity).
      rewrite equiv_sym in E.
      pose proof (equiv_trans z y x Pz Py Px E2 E) as H. unfold equiv in H. rewrite L in H. discriminate.
  Qed.

  Definition sorted (s : list A) : Prop := StronglySorted (fun a b => lt a b = true) s.
  Definition allP (s : list A) : Prop := Forall P s.

  (* ---------------- std::set *)
  Lemma set_insert_in : forall x s y, In y (snd (set_insert lt x s)) -> y = x \/ In y s.
  Proof.
    induction s as [|z r IH]; cbn; intros y H.
    - destruct H as [H|[]]; auto.
    - destruct (lt z x); cbn in *.
      + destruct H as [H|H]; auto. apply IH in H. intuition congruence.
      + destruct (lt x z); cbn in *; intuition congruence.
  Qed.

  Lemma set_insert_allP : forall x s, P x -> allP s -> allP (snd (set_insert lt x s)).
  Proof.
    intros x s Px Hs. apply Forall_forall. intros y Hy. apply set_insert_in in Hy.
    destruct Hy as [->|Hy]; auto. eapply Forall_forall in Hs; eauto.
  Qed.

  Theorem set_insert_sorted : forall x s, P x -> allP s -> sorted s -> sorted (snd (set_insert lt x s)).
  Proof.
    induction s as [|z r IH]; cbn; intros Px Hs S.
    - repeat constructor.
    - inversion S as [|? ? Sr Hz]; subst. inversion Hs as [|? ? Pz Pr]; subst.
      destruct (lt z x) eqn:L1; cbn.
      + constructor; [apply IH; auto|].
        apply Forall_forall. intros y Hy. apply set_insert_in in Hy. destruct Hy as [->|Hy]; auto.
        eapply Forall_forall in Hz; eauto.
      + destruct (lt x z) eqn:L2; cbn; auto.
        constructor; auto. constructor; auto.
        apply Forall_forall. intros y Hy.
        assert (Py : P y) by (eapply Forall_forall in Pr; eauto).
        assert (Hzy : lt z y = true) by (eapply Forall_forall in Hz; eauto).
        apply (lt_trans x z y); auto.
  Qed.

  (* find on a sorted list = membership up to incomparability *)
  Theorem set_find_spec : forall x s, P x -> allP s -> sorted s -> set_find lt x s = existsb (equiv x) s.
  Proof.
    induction s as [|z r IH]; cbn; intros Px Hs S; auto.
    inversion S as [|? ? Sr Hz]; subst. inversion Hs as [|? ? Pz Pr]; subst.
    destruct (lt z x) eqn:L1.
    - rewrite IH by auto.
      assert (E0 : equiv x z = false) by (unfold equiv; rewrite L1; apply andb_false_r).
      rewrite E0. reflexivity.
    - assert (E0 : equiv x z = negb (lt x z)) by (unfold equiv; rewrite L1; apply andb_true_r).
      rewrite E0.
      destruct (lt x z) eqn:L2; cbn [negb orb]; auto.
      (* x < z <= everything in r: x is equivalent to nothing in r *)
      symmetry. apply not_true_is_false. intro H. apply existsb_exists in H. destruct H as [y [Hy E]].
      assert (Py : P y) by (eapply Forall_forall in Pr; eauto).
      eapply Forall_forall in Hz; eauto.
      pose proof (lt_trans x z y Px Pz Py L2 Hz) as H. unfold equiv in E. rewrite H in E. discriminate.
  Qed.

  (* insert is idempotent: the second insertion of the same element reports 0 and changes nothing *)
  Theorem set_insert_idem : forall x s, P x ->
    set_insert lt x (snd (set_insert lt x s)) = (false, snd (set_insert lt x s)).
  Proof.
    induction s as [|z r IH]; cbn; intros Px.
    - rewrite lt_irrefl by auto. reflexivity.
    - destruct (lt z x) eqn:L1; cbn.
      + rewrite L1. rewrite IH by auto. reflexivity.
      + destruct (lt x z) eqn:L2; cbn.
        * rewrite lt_irrefl by auto. reflexivity.
        * rewrite L1, L2. reflexivity.
  Qed.

  (* the return value of insert: 1 exactly when no equivalent element was stored *)
  Theorem set_insert_fst : forall x s, P x -> allP s -> sorted s ->
    fst (set_insert lt x s) = negb (set_find lt x s).
  Proof.
    induction s as [|z r IH]; cbn; intros Px Hs S; auto.
    inversion S; subst. inversion Hs; subst.
    destruct (lt z x) eqn:L1; cbn; auto.
    destruct (lt x z) eqn:L2; cbn; auto.
  Qed.

  Theorem set_insert_length : forall x s,
    length (snd (set_insert lt x s)) = (length s + (if fst (set_insert lt x s) then 1 else 0))%nat.
  Proof.
    induction s as [|z r IH]; cbn; auto.
    destruct (lt z x); cbn.
    - rewrite IH. lia.
    - destruct (lt x z); cbn; lia.
  Qed.

  (* membership after insert *)
  Theorem set_find_insert : forall x y s, P x -> P y -> allP s -> sorted s ->
    set_find lt y (snd (set_insert lt x s)) = equiv y x || set_find lt y s.
  Proof.
    intros x y s Px Py Hs S.
    rewrite set_find_spec by (auto using set_insert_allP, set_insert_sorted).
    rewrite set_find_spec by auto.
    clear S. induction s as [|z r IH]; cbn.
    - rewrite orb_false_r. reflexivity.
    - inversion Hs as [|? ? Pz Pr]; subst.
      destruct (lt z x) eqn:L1; cbn.
      + rewrite IH by auto. destruct (equiv y x), (equiv y z); reflexivity.
      + destruct (lt x z) eqn:L2; cbn; auto.
        (* x equivalent to z: equiv y x = equiv y z *)
        assert (E : equiv x z = true) by (unfold equiv; rewrite L1, L2; reflexivity).
        destruct (equiv y x) eqn:E1; cbn; auto.
        rewrite (equiv_trans y x z Py Px Pz E1 E). reflexivity.
  Qed.

  Lemma set_erase_in : forall x s y, In y (snd (set_erase lt x s)) -> In y s.
  Proof.
    induction s as [|z r IH]; cbn; intros y H; auto.
    destruct (lt z x); cbn in *.
    - destruct H; auto.
    - destruct (lt x z); cbn in *; auto.
  Qed.

  Theorem set_erase_sorted : forall x s, sorted s -> sorted (snd (set_erase lt x s)).
  Proof.
    induction s as [|z r IH]; cbn; intros S.
    - exact S.
    - inversion S as [|? ? Sr Hz]; subst.
      destruct (lt z x); cbn.
      + constructor.
        * apply IH. exact Sr.
        * apply Forall_forall. intros y Hy. apply set_erase_in in Hy.
          rewrite Forall_forall in Hz. apply Hz. exact Hy.
      + destruct (lt x z); cbn; [exact S | exact Sr].
  Qed.

  Lemma set_erase_allP : forall x s, allP s -> allP (snd (set_erase lt x s)).
  Proof.
    intros x s Hs. apply Forall_forall. intros y Hy. apply set_erase_in in Hy.
    unfold allP in Hs. rewrite Forall_forall in Hs. apply Hs. exact Hy.
  Qed.

  (* erase reports whether an equivalent element was stored *)
  Theorem set_erase_fst : forall x s, fst (set_erase lt x s) = set_find lt x s.
  Proof.
    induction s as [|z r IH]; cbn; [reflexivity|].
    destruct (lt z x); cbn; [exact IH|]. destruct (lt x z); reflexivity.
  Qed.

  (* an element below (or equivalent to) a lower bound of r is equivalent to nothing in r *)
  Lemma no_equiv_above : forall y z r, P y -> P z -> (forall w, In w r -> P w) ->
    (forall w, In w r -> lt z w = true) -> (lt y z = true \/ equiv y z = true) ->
    existsb (equiv y) r = false.
  Proof.
    intros y z r Py Pz Pr Hz Hyz. apply not_true_is_false. intro H.
    apply existsb_exists in H. destruct H as [w [Hw Ew]].
    assert (Pw : P w) by (apply Pr; exact Hw).
    assert (Lzw : lt z w = true) by (apply Hz; exact Hw).
    assert (Lyw : lt y w = true).
    { destruct Hyz as [L|E].
      - apply (lt_trans y z w); assumption.
      - apply (lt_equiv_l z y w); try assumption. rewrite equiv_sym. exact E. }
    unfold equiv in Ew. rewrite Lyw in Ew. discriminate.
  Qed.

  (* afterwards no equivalent element is stored; the others are untouched *)
  Theorem set_find_erase : forall x y s, P x -> P y -> allP s -> sorted s ->
    set_find lt y (snd (set_erase lt x s)) = negb (equiv y x) && set_find lt y s.
  Proof.
    intros x y s Px Py Hs S.
    rewrite set_find_spec by (auto using set_erase_allP, set_erase_sorted).
    rewrite set_find_spec by auto.
    induction s as [|z r IH].
    - cbn. rewrite andb_false_r. reflexivity.
    - inversion Hs as [|? ? Pz Pr]; subst. inversion S as [|? ? Sr Hz]; subst.
      rewrite Forall_forall in Hz.
      assert (Pin : forall w, In w r -> P w) by (intros w Hw; unfold allP in Pr; rewrite Forall_forall in Pr; apply Pr; exact Hw).
      cbn [set_erase].
      destruct (lt z x) eqn:L1.
      + cbn [snd existsb]. rewrite IH by assumption.
        destruct (equiv y z) eqn:E; cbn [orb].
        * assert (Lyx : lt y x = true).
          { apply (lt_equiv_l z y x); try assumption. rewrite equiv_sym. exact E. }
          assert (E0 : equiv y x = false) by (unfold equiv; rewrite Lyx; reflexivity).
          rewrite E0. reflexivity.
        * reflexivity.
      + destruct (lt x z) eqn:L2.
        * cbn [snd existsb].
          destruct (equiv y x) eqn:E; cbn [negb andb]; [|reflexivity].
          assert (Lyz : lt y z = true).
          { apply (lt_equiv_l x y z); try assumption. rewrite equiv_sym. exact E. }
          assert (E0 : equiv y z = false) by (unfold equiv; rewrite Lyz; reflexivity).
          rewrite E0. cbn [orb].
          apply (no_equiv_above y z r); auto.
        * cbn [snd existsb].
          assert (Exz : equiv x z = true) by (unfold equiv; rewrite L1, L2; reflexivity).
          destruct (equiv y x) eqn:E; cbn [negb andb].
          -- assert (Eyz : equiv y z = true) by (apply (equiv_trans y x z); assumption).
             apply (no_equiv_above y z r); auto.
          -- destruct (equiv y z) eqn:E2; cbn [orb]; [|reflexivity].
             assert (Ezx : equiv z x = true) by (rewrite equiv_sym; exact Exz).
             rewrite (equiv_trans y z x Py Pz Px E2 Ezx) in E. discriminate.
  Qed.

  (* ---------------- std::map *)
  Variable B : Type.
  Definition keys (m : list (A * B)) : list A := map fst m.

  Lemma map_set_keys_in : forall k v m y, In y (keys (map_set lt k v m)) -> y = k \/ In y (keys m).
  Proof.
    induction m as [|[k' v'] r IH]; cbn; intros y H.
    - destruct H as [H|[]]; auto.
    - destruct (lt k' k); cbn in *.
      + destruct H as [H|H]; auto. apply IH in H. intuition congruence.
      + destruct (lt k k'); cbn in *; intuition congruence.
  Qed.

  Theorem map_set_sorted : forall k (v : B) m, P k -> allP (keys m) -> sorted (keys m) ->
    sorted (keys (map_set lt k v m)) /\ allP (keys (map_set lt k v m)).
  Proof.
    induction m as [|[k' v'] r IH]; cbn; intros Pk Hs S.
    - split; repeat constructor; auto.
    - inversion S as [|? ? Sr Hz]; subst. inversion Hs as [|? ? Pz Pr]; subst.
      destruct (lt k' k) eqn:L1; cbn.
      + destruct (IH Pk Pr Sr) as [S1 P1]. split; [|constructor; auto].
        constructor; auto.
        apply Forall_forall. intros y Hy. apply map_set_keys_in in Hy. destruct Hy as [->|Hy]; auto.
        eapply Forall_forall in Hz; eauto.
      + destruct (lt k k') eqn:L2; cbn.
        * split; [|constructor; auto; constructor; auto].
          constructor; [constructor; auto|]. constructor; auto.
          apply Forall_forall. intros y Hy.
          assert (Py : P y) by (eapply Forall_forall in Pr; eauto).
          assert (Hzy : lt k' y = true) by (eapply Forall_forall in Hz; eauto).
          apply (lt_trans k k' y); auto.
        * split; constructor; auto.
  Qed.

  (* get after set: the new value under every equivalent key, the old binding elsewhere *)
  Theorem map_get_set : forall k k' (v : B) m, P k -> P k' -> allP (keys m) -> sorted (keys m) ->
    map_get lt k' (map_set lt k v m) = if equiv k' k then Some v else map_get lt k' m.
  Proof.
    induction m as [|[z w] r IH]; cbn; intros Pk Pk' Hs S.
    - unfold equiv. destruct (lt k k') eqn:L1; cbn.
      + rewrite andb_false_r. reflexivity.
      + destruct (lt k' k); reflexivity.
    - inversion S as [|? ? Sr Hz]; subst. inversion Hs as [|? ? Pz Pr]; subst.
      destruct (lt z k) eqn:L1; cbn.
      + destruct (lt z k') eqn:L2.
        * apply IH; auto.
        * (* k' <= z < k : k' not equivalent to k *)
          assert (Lk : lt k' k = true).
          { destruct (lt k' z) eqn:L3.
            - apply (lt_trans k' z k); assumption.
            - assert (E : equiv z k' = true) by (unfold equiv; rewrite L2, L3; reflexivity).
              apply (lt_equiv_l z k' k); assumption. }
          assert (E0 : equiv k' k = false) by (unfold equiv; rewrite Lk; reflexivity).
          rewrite E0. reflexivity.
      + destruct (lt k z) eqn:L2; cbn.
        * (* inserted in front *)
          destruct (lt k k') eqn:L3.
          -- assert (E0 : equiv k' k = false) by (unfold equiv; rewrite L3; apply andb_false_r).
             rewrite E0. reflexivity.
          -- destruct (lt k' k) eqn:L4.
             ++ assert (E0 : equiv k' k = false) by (unfold equiv; rewrite L4; reflexivity).
                rewrite E0.
                assert (Lz : lt k' z = true) by (apply (lt_trans k' k z); assumption).
                rewrite (lt_asym k' z Pk' Pz Lz). rewrite Lz. reflexivity.
             ++ assert (E0 : equiv k' k = true) by (unfold equiv; rewrite L3, L4; reflexivity).
                rewrite E0. reflexivity.
        * (* value replaced under the stored key z ~ k *)
          assert (E : equiv k z = true) by (unfold equiv; rewrite L1, L2; reflexivity).
          assert (E' : equiv z k = true) by (rewrite equiv_sym; exact E).
          destruct (lt z k') eqn:L3.
          -- assert (Lk : lt k k' = true) by (apply (lt_equiv_l z k k'); assumption).
             assert (E0 : equiv k' k = false) by (unfold equiv; rewrite Lk; apply andb_false_r).
             rewrite E0. reflexivity.
          -- destruct (lt k' z) eqn:L4.
             ++ assert (Lk : lt k' k = true) by (apply (lt_equiv_r z k k'); assumption).
                assert (E0 : equiv k' k = false) by (unfold equiv; rewrite Lk; reflexivity).
                rewrite E0. reflexivity.
             ++ assert (E2 : equiv k' z = true) by (unfold equiv; rewrite L3, L4; reflexivity).
                rewrite (equiv_trans k' z k Pk' Pz Pk E2 E'). reflexivity.
  Qed.

  Theorem map_set_length : forall k (v : B) m, P k -> allP (keys m) -> sorted (keys m) ->
    length (map_set lt k v m) = (length m + (match map_get lt k m with Some _ => 0 | None => 1 end))%nat.
  Proof.
    induction m as [|[z w] r IH]; cbn; intros Pk Hs S; auto.
    inversion S as [|? ? Sr Hz]; subst. inversion Hs as [|? ? Pz Pr]; subst.
    destruct (lt z k) eqn:L1; cbn.
    - rewrite IH by auto. lia.
    - destruct (lt k z) eqn:L2; cbn; lia.
  Qed.
End Ordered.
