(* C42 obligation: on the current table, for every core oracle, state and call: no function outside the listed ones lets an
   exception out. *)
From SE Require Import C42.CWrapSpec C42.CContainers C42.CWrapProofs C42.Gen_CWrap C42.CWrapTable.
Local Open Scope string_scope.
Theorem C42_table_no_escape :
  forall (core : oracle) (k : N) (st : state) (c : call) (f : cfun),
    find_cfun cwrap_table (c_fn c) = Some f ->
    mem_str (cf_name f) (known_escaping ++ unconfirmed_escaping) = false ->
    core_respects_nothrow core cwrap_table ->
    is_escape (fst (step core cwrap_table k st c)) = false.
Proof. exact table_no_escape. Qed.
Print Assumptions C42_table_no_escape.
