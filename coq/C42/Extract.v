(* Extraction of the C42 model (run from the output directory; not part of `make`). *)
From SE Require Import Expr.IO C42.CWrapModel C42.Gen_CWrap.
Require Import ExtrOcamlBasic.
Extraction "c42model.ml" N_of_digits Z_of_digits digits_of_N tc_lookup run step init_state zero_val cwrap_table.
