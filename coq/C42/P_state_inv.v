(* C42 obligation: after ANY sequence of C API calls from the initial state, with any table and any core that returns well-formed
   values: every stored expression is well-formed, every set / map is sorted by RCPBasicKeyLess without eq duplicates (the
   hypothesis of the container laws). *)
From SE Require Import C42.CWrapSpec C42.CContainers C42.CWrapProofs.
Local Open Scope string_scope.
Theorem C42_state_inv :
  (forall nb nv ns nm, state_inv (init_state nb nv ns nm)) /\
  (forall (core : oracle) (table : list cfun) (cs : list call) (k : N) (st : state),
     core_ok core -> state_inv st -> Forall (fun os => state_inv (snd os)) (run core table k st cs)).
Proof. exact (conj init_state_inv run_inv). Qed.
Print Assumptions C42_state_inv.
