(* C42 obligation: result agreement, for every core oracle, state and arguments: a C call of an expected row whose run-time guards and
   type preconditions hold (and whose zero tests do not fire) returns success with the C++ API value -- the expected callee on
   the expected argument order -- stored in the expected destination, or, when the API throws, the error code of the
   exception class (nullptr for the string conversions) with the state untouched. *)
From SE Require Import C42.CWrapSpec C42.CContainers C42.CWrapProofs C42.Gen_CWrap C42.CWrapTable.
Local Open Scope string_scope.
Theorem C42_cwrap_agrees_sem :
  forall (core : oracle) (e : expected) (f : cfun) (k : N) (st : state) (actuals : list arg),
    In e expected_table -> mem_str (ex_name e) known_deviations = false ->
    find_cfun cwrap_table (ex_name e) = Some f ->
    actuals_match (cf_params f) actuals = true ->
    all_hold guard_holds st actuals (cf_guards f) = true ->
    all_hold class_holds st actuals (cf_casts f) = true ->
    zguard_fires actuals (cf_zguards f) = None ->
    match spec_call core e k st actuals with
    | Some (Ok v) =>
        match spec_store e st actuals v with
        | Some st' => fwd_step core f k st actuals = (ok_outcome f v, st')
        | None => fst (fwd_step core f k st actuals) = Unmodelled
        end
    | Some (ErrExn cls) =>
        fwd_step core f k st actuals =
          (match cf_wrap f with WFull => RetCode (code_of_exn cls) | WNull => RetStr None | WNone => Escape cls end, st)
    | _ => fst (fwd_step core f k st actuals) = Unmodelled
    end.
Proof. exact table_agrees_sem. Qed.
Print Assumptions C42_cwrap_agrees_sem.
