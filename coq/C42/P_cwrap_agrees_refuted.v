(* C42 obligation: the unguarded statement is false on the current code: basic_set_universalset forwards to emptyset(). *)
From SE Require Import C42.CWrapSpec C42.CContainers C42.CWrapProofs C42.Gen_CWrap C42.CWrapTable.
Local Open Scope string_scope.
Theorem C42_cwrap_agrees_refuted :
  exists e f, In e expected_table /\ find_cfun cwrap_table (ex_name e) = Some f /\ row_agrees f e = false /\
    ex_name e = "basic_set_universalset" /\ cf_tmpl f = "emptyset()" /\ ex_tmpl e = "universalset()".
Proof. exact cwrap_agrees_refuted. Qed.
Print Assumptions C42_cwrap_agrees_refuted.
