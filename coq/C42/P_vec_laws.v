(* C42 obligation: CVecBasic behaves as a vector for indices in range (push_back / size / get / set / erase = list operations). *)
From SE Require Import C42.CWrapSpec C42.CContainers C42.CWrapProofs.
Local Open Scope string_scope.
Theorem C42_vec_laws :
  forall (st : state) (i j k : nat) (l : list val) (v : val),
    nth_error (s_v st) i = Some l -> nth_error (s_b st) j = Some v -> (k < length (s_b st))%nat ->
    let st1 := set_v st i (l ++ [v])%list in
    hand_step "vecbasic_push_back" st [AV i; AB j] = (NOEXC, st1) /\
    hand_step "vecbasic_size" st1 [AV i] = (RetInt (Z.of_nat (S (length l))), st1) /\
    hand_step "vecbasic_get" st1 [AV i; AZ (Z.of_nat (length l)); AB k] = (NOEXC, set_b st1 k v) /\
    (forall n x, nth_error l n = Some x ->
       hand_step "vecbasic_get" st1 [AV i; AZ (Z.of_nat n); AB k] = (NOEXC, set_b st1 k x)) /\
    (forall n, (n < length l)%nat ->
       hand_step "vecbasic_set" st [AV i; AZ (Z.of_nat n); AB j] = (NOEXC, set_v st i (upd_nth l n v)) /\
       nth_error (upd_nth l n v) n = Some v /\
       (forall m, m <> n -> nth_error (upd_nth l n v) m = nth_error l m) /\ length (upd_nth l n v) = length l) /\
    (forall n, (n < length l)%nat ->
       hand_step "vecbasic_erase" st [AV i; AZ (Z.of_nat n)] = (NOEXC, set_v st i (remove_nth l n)) /\
       length (remove_nth l n) = pred (length l) /\
       (forall m, (m < n)%nat -> nth_error (remove_nth l n) m = nth_error l m) /\
       (forall m, (n <= m)%nat -> nth_error (remove_nth l n) m = nth_error l (S m))).
Proof. exact vec_laws. Qed.
Print Assumptions C42_vec_laws.
