(* C42 obligation: the container functions transcribed by hand in CWrapModel.v still have the bodies they were transcribed from
   (fingerprints of the current cwrapper.cpp), CWRAPPER_BEGIN / CWRAPPER_END have the text the model transcribes,
   and the generated table is well-formed. *)
From SE Require Import C42.CWrapSpec C42.CContainers C42.CWrapProofs C42.Gen_CWrap C42.CWrapTable.
Local Open Scope string_scope.
Theorem C42_hand_model_current :
  forallb (fun p => match find_cfun cwrap_table (fst p) with Some f => cf_fp f =? snd p | None => false end)
          hand_modelled = true /\
  (cwrapper_begin_text =? modelled_cwrapper_begin) && (cwrapper_end_text =? modelled_cwrapper_end) = true /\
  forallb (fun f => forallb (fun i => (i <? length (cf_params f))%nat) (cf_args f)
                    && match cf_out f with OParam i => (i <? length (cf_params f))%nat | _ => true end
                    && forallb (fun g => (snd g <? length (cf_params f))%nat) (cf_guards f ++ cf_casts f)
                    && forallb (fun g => (fst g <? length (cf_params f))%nat) (cf_zguards f))
          cwrap_table = true.
Proof. exact (conj hand_model_current (conj cwrapper_macros_current table_well_formed)). Qed.
Print Assumptions C42_hand_model_current.
