(* C42 obligation: exception translation: when the C++ side throws class cls inside CWRAPPER_BEGIN/END the C function returns the
   error code of cls, which is never SYMENGINE_NO_EXCEPTION, and assigns nothing. *)
From SE Require Import C42.CWrapSpec C42.CContainers C42.CWrapProofs.
Local Open Scope string_scope.
Theorem C42_error_atomic :
  forall (core : oracle) (f : cfun) (k : N) (st : state) (actuals : list arg) (cargs : list cval) (cls : N),
    cf_wrap f = WFull ->
    actuals_match (cf_params f) actuals = true ->
    all_hold guard_holds st actuals (cf_guards f) = true ->
    all_hold class_holds st actuals (cf_casts f) = true ->
    zguard_fires actuals (cf_zguards f) = None ->
    resolve_all st actuals (cf_args f) = Some cargs ->
    (cf_tmpl f =? "$") = false ->
    core k (cf_tmpl f) cargs = ErrExn cls ->
    fwd_step core f k st actuals = (RetCode (code_of_exn cls), st) /\ code_of_exn cls <> SYMENGINE_NO_EXCEPTION.
Proof. exact error_atomic. Qed.
Print Assumptions C42_error_atomic.
