(* C42 obligation: a function of the current table is outside any try block and its callee throws: in the model the exception
   leaves the extern "C" function (lambda_real_double_visitor_init; replayed on the library by checks/C42.py). *)
From SE Require Import C42.CWrapSpec C42.CContainers C42.CWrapProofs C42.Gen_CWrap C42.CWrapTable.
Local Open Scope string_scope.
Theorem C42_cwrap_total_refuted :
  exists f, In f cwrap_table /\ protected f = false /\
    exists st c, fst (step throwing_core cwrap_table 0 st c) = Escape EXN_SYMENGINE /\ c_fn c = cf_name f.
Proof. exact cwrap_total_refuted. Qed.
Print Assumptions C42_cwrap_total_refuted.
