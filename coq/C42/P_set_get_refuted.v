(* C42 obligation: as coded, setbasic_get has no range check at all (the function returns void): an index >= size dereferences end(). *)
From SE Require Import C42.CWrapSpec C42.CContainers C42.CWrapProofs.
Local Open Scope string_scope.
Theorem C42_set_get_refuted :
  forall (st : state) (i j : nat) (s : list val) (n : nat),
    nth_error (s_s st) i = Some s -> (j < length (s_b st))%nat -> (length s <= n)%nat ->
    hand_step "setbasic_get" st [AS i; AZ (Z.of_nat n); AB j] = (MemErr (N.of_nat n) (nlen s), st).
Proof. exact set_get_unchecked. Qed.
Print Assumptions C42_set_get_refuted.
