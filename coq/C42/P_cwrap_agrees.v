(* C42 obligation: cwrap_agrees: for every row of the driver's hand-written C++-API mirror (153 C functions), the destination, the
   forwarded C++ expression and the ARGUMENT ORDER read from the current cwrapper.cpp are the expected ones
   (basic_sub(s, a, b) forwards sub(a, b), not sub(b, a); ...).  [Was refuted by basic_set_universalset = emptyset() until
   the repair of that function.] *)
From SE Require Import C42.CWrapSpec C42.CContainers C42.CWrapProofs C42.Gen_CWrap C42.CWrapTable.
Local Open Scope string_scope.
Theorem C42_cwrap_agrees :
  forallb (agrees cwrap_table) expected_table = true.
Proof. exact cwrap_agrees. Qed.
Print Assumptions C42_cwrap_agrees.
