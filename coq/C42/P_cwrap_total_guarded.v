(* C42 obligation: cwrap_total on the table read from the current cwrapper.cpp: every extern "C" function keeps its throwing calls
   inside CWRAPPER_BEGIN/END (or a try block returning nullptr) -- except the explicitly listed functions, all of which are
   really unprotected (the lists are not padding).  Full statement `forallb protected cwrap_table = true` is REFUTED
   (P_cwrap_total_refuted.v). *)
From SE Require Import C42.CWrapSpec C42.CContainers C42.CWrapProofs C42.Gen_CWrap C42.CWrapTable.
Local Open Scope string_scope.
Theorem C42_cwrap_total_guarded :
  forallb total_or_listed cwrap_table = true /\
  forallb (fun n => match find_cfun cwrap_table n with Some f => negb (protected f) | None => false end)
          (known_escaping ++ unconfirmed_escaping) = true.
Proof. exact (conj cwrap_total_guarded listed_are_unprotected). Qed.
Print Assumptions C42_cwrap_total_guarded.
