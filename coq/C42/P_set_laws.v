(* C42 obligation: CSetBasic behaves as a set of eq-classes: insert answers 1 exactly for a new element and is idempotent, membership
   after insert / erase, size (in every state satisfying the invariant, i.e. after ANY call history, see P_state_inv.v). *)
From SE Require Import C42.CWrapSpec C42.CContainers C42.CWrapProofs.
Local Open Scope string_scope.
Theorem C42_set_laws :
  forall (st : state) (i j : nat) (s : list val) (v : val),
    state_inv st -> nth_error (s_s st) i = Some s -> nth_error (s_b st) j = Some v ->
    let st1 := set_s st i (snd (set_insert vlt v s)) in
    hand_step "setbasic_insert" st [AS i; AB j] = (RetInt (if set_find vlt v s then 0 else 1), st1) /\
    hand_step "setbasic_insert" st1 [AS i; AB j] = (RetInt 0, st1) /\
    (forall j' w, nth_error (s_b st) j' = Some w ->
       hand_step "setbasic_find" st1 [AS i; AB j'] =
         (RetInt (if equiv val vlt w v || set_find vlt w s then 1 else 0), st1)) /\
    hand_step "setbasic_size" st1 [AS i] = (RetInt (Z.of_nat (length s + (if set_find vlt v s then 0 else 1))), st1) /\
    (let st2 := set_s st i (snd (set_erase vlt v s)) in
     hand_step "setbasic_erase" st [AS i; AB j] = (RetInt (if set_find vlt v s then 1 else 0), st2) /\
     (forall j' w, nth_error (s_b st) j' = Some w ->
        hand_step "setbasic_find" st2 [AS i; AB j'] =
          (RetInt (if negb (equiv val vlt w v) && set_find vlt w s then 1 else 0), st2))).
Proof. exact set_laws. Qed.
Print Assumptions C42_set_laws.
