(* C42 obligation: the same for whole sequences of C API calls of any length. *)
From SE Require Import C42.CWrapSpec C42.CContainers C42.CWrapProofs.
Local Open Scope string_scope.
Theorem C42_run_no_escape :
  forall (core : oracle) (table : list cfun) (cs : list call) (k : N) (st : state),
    core_respects_nothrow core table -> all_protected table cs ->
    forallb (fun os => negb (is_escape (fst os))) (run core table k st cs) = true.
Proof. exact run_no_escape. Qed.
Print Assumptions C42_run_no_escape.
