(* C42 -- proofs about the wrapper model (CWrapModel.v), for EVERY table, core oracle, state and call:
   no_escape, the shape of a protected call's outcome (error code and untouched state, or success),
   agreement with the C++ API value read off an expected row, preservation of the state invariant,
   and the container laws at the level of the C functions. *)
From SE Require Import C42.CWrapSpec C42.CContainers Expr.CmpProofs Expr.HashProofs.
From Coq Require Import Lia.
Local Open Scope string_scope.

(* ------------------------------------------------------------------ RCPBasicKeyLess on well-formed values *)
Lemma vlt_irrefl : forall x, val_wf x -> vlt x x = false.
Proof. intros x H. apply (proj1 keyless_strict_weak_order). exact H. Qed.

Lemma vlt_trans : forall x y z, val_wf x -> val_wf y -> val_wf z -> vlt x y = true -> vlt y z = true -> vlt x z = true.
Proof. intros x y z Hx Hy Hz. apply (proj1 (proj2 keyless_strict_weak_order)); assumption. Qed.

Lemma vequiv_eqb : forall x y, val_wf x -> val_wf y -> (equiv val vlt x y = true <-> expr_eqb (vex x) (vex y) = true).
Proof.
  intros x y Hx Hy. unfold equiv, vlt.
  pose proof (proj2 (proj2 keyless_strict_weak_order) (vex x) (vex y) Hx Hy) as H.
  split; intro E.
  - apply H. apply andb_true_iff in E. destruct E as [E1 E2].
    apply negb_true_iff in E1. apply negb_true_iff in E2. split; assumption.
  - apply H in E. destruct E as [E1 E2]. rewrite E1, E2. reflexivity.
Qed.

Lemma vequiv_trans : forall x y z, val_wf x -> val_wf y -> val_wf z ->
  equiv val vlt x y = true -> equiv val vlt y z = true -> equiv val vlt x z = true.
Proof.
  intros x y z Hx Hy Hz E1 E2.
  apply vequiv_eqb in E1; auto. apply vequiv_eqb in E2; auto. apply vequiv_eqb; auto.
  exact (proj2 (proj2 eq_equivalence) (vex x) (vex y) (vex z) Hx Hy Hz E1 E2).
Qed.

(* ------------------------------------------------------------------ no exception leaves a protected function *)
Ltac dmatch :=
  repeat match goal with
         | |- context [match ?x with _ => _ end] => destruct x; cbn [fst snd is_escape]
         end.

Lemma hand_no_escape : forall name st actuals, is_escape (fst (hand_step name st actuals)) = false.
Proof.
  intros. unfold hand_step, h_vec_push_back, h_vec_get, h_vec_set, h_vec_erase, h_vec_size, h_set_insert, h_set_get,
    h_set_find, h_set_erase, h_set_size, h_map_insert, h_map_get, h_map_size.
  dmatch; reflexivity.
Qed.

Lemma find_cfun_in : forall table name f, find_cfun table name = Some f -> In f table /\ cf_name f = name.
Proof.
  intros table name f H. unfold find_cfun in H. apply find_some in H. destruct H as [H1 H2].
  split; [exact H1|]. apply String.eqb_eq. exact H2.
Qed.

Lemma ok_outcome_no_escape : forall f v, is_escape (ok_outcome f v) = false.
Proof. intros. unfold ok_outcome. dmatch; reflexivity. Qed.

Theorem fwd_no_escape : forall core table f k st actuals,
  In f table -> protected f = true -> core_respects_nothrow core table ->
  is_escape (fst (fwd_step core f k st actuals)) = false.
Proof.
  intros core table f k st actuals Hin Hp Hc. unfold fwd_step.
  destruct (negb (actuals_match (cf_params f) actuals)); [reflexivity|].
  destruct (negb (all_hold guard_holds st actuals (cf_guards f))); [reflexivity|].
  destruct (negb (all_hold class_holds st actuals (cf_casts f))); [reflexivity|].
  destruct (zguard_fires actuals (cf_zguards f)); [reflexivity|].
  destruct (resolve_all st actuals (cf_args f)) as [cargs|]; [|reflexivity].
  destruct (cf_tmpl f =? "$") eqn:Et.
  - destruct cargs as [|c [|c2 r]]; cbn [fst]; try reflexivity.
    destruct (cf_out f); [destruct (nth_error actuals i); [destruct (store st a c)|]|..]; cbn [fst];
      try reflexivity; apply ok_outcome_no_escape.
  - destruct (core k (cf_tmpl f) cargs) as [v| | |cls] eqn:Ec; try reflexivity.
    + destruct (cf_out f); [destruct (nth_error actuals i); [destruct (store st a v)|]|..]; cbn [fst];
        try reflexivity; apply ok_outcome_no_escape.
    + destruct (cf_wrap f) eqn:Ew; try reflexivity.
      exfalso. exact (Hc f Hin Ew Hp k cargs cls Ec).
Qed.

Theorem no_escape : forall core table k st c f,
  find_cfun table (c_fn c) = Some f -> protected f = true -> core_respects_nothrow core table ->
  is_escape (fst (step core table k st c)) = false.
Proof.
  intros core table k st c f Hf Hp Hc. unfold step. rewrite Hf.
  destruct (is_hand_modelled (c_fn c)); [apply hand_no_escape|].
  destruct (cf_tmpl f =? ""); [reflexivity|].
  apply find_cfun_in in Hf. destruct Hf as [Hin _].
  eapply fwd_no_escape; eauto.
Qed.

(* whole call sequences: when every function called is protected, no outcome of the run is an escape *)
Definition all_protected (table : list cfun) (cs : list call) : Prop :=
  forall c, In c cs -> exists f, find_cfun table (c_fn c) = Some f /\ protected f = true.

Theorem run_no_escape : forall core table cs k st,
  core_respects_nothrow core table -> all_protected table cs ->
  forallb (fun os => negb (is_escape (fst os))) (run core table k st cs) = true.
Proof.
  intros core table cs. induction cs as [|c r IH]; intros k st Hc Hall; [reflexivity|].
  cbn [run forallb].
  destruct (Hall c (or_introl eq_refl)) as [f [Hf Hp]].
  rewrite (no_escape core table k st c f Hf Hp Hc). cbn [negb andb].
  destruct (stops (fst (step core table k st c))); [reflexivity|].
  apply IH; [exact Hc|]. intros c' Hc'. apply Hall. right. exact Hc'.
Qed.

(* ------------------------------------------------------------------ a CWRAPPER_BEGIN/END function: error code and untouched state, or success *)
Theorem wrapped_outcome : forall core f k st actuals,
  cf_wrap f = WFull -> cf_ret f = RCode ->
  let os := fwd_step core f k st actuals in
  (exists c, fst os = RetCode c /\ (c <> SYMENGINE_NO_EXCEPTION -> snd os = st))
  \/ fst os = Precond \/ fst os = Unmodelled.
Proof.
  intros core f k st actuals Hw Hr. cbn zeta. unfold fwd_step.
  destruct (negb (actuals_match (cf_params f) actuals)); [right; right; reflexivity|].
  destruct (negb (all_hold guard_holds st actuals (cf_guards f))).
  { left. exists SYMENGINE_RUNTIME_ERROR. split; reflexivity. }
  destruct (negb (all_hold class_holds st actuals (cf_casts f))); [right; left; reflexivity|].
  destruct (zguard_fires actuals (cf_zguards f)) as [zc|].
  { left. exists zc. split; reflexivity. }
  destruct (resolve_all st actuals (cf_args f)) as [cargs|]; [|right; right; reflexivity].
  set (r := if cf_tmpl f =? "$" then match cargs with [c] => Ok c | _ => ErrFuel end else core k (cf_tmpl f) cargs).
  destruct r as [v| | |cls]; try (right; right; reflexivity).
  - assert (Hok : forall v', ok_outcome f v' = RetCode SYMENGINE_NO_EXCEPTION) by (intro; unfold ok_outcome; rewrite Hr; reflexivity).
    destruct (cf_out f).
    + destruct (nth_error actuals i); [|right; right; reflexivity].
      destruct (store st a v); [|right; right; reflexivity].
      left. exists SYMENGINE_NO_EXCEPTION. cbn [fst snd]. rewrite Hok. split; [reflexivity|]. intro H; contradiction H; reflexivity.
    + left. exists SYMENGINE_NO_EXCEPTION. cbn [fst snd]. rewrite Hok. split; [reflexivity|]. intro H; contradiction H; reflexivity.
    + left. exists SYMENGINE_NO_EXCEPTION. cbn [fst snd]. rewrite Hok. split; [reflexivity|]. intro H; contradiction H; reflexivity.
  - rewrite Hw. left. exists (code_of_exn cls). split; reflexivity.
Qed.

(* an exception is never reported as success *)
Lemma code_of_exn_nonzero : forall cls, code_of_exn cls <> SYMENGINE_NO_EXCEPTION.
Proof.
  intro cls. unfold code_of_exn.
  repeat match goal with |- context [if ?b then _ else _] => destruct b end; discriminate.
Qed.

Theorem error_atomic : forall core f k st actuals cargs cls,
  cf_wrap f = WFull ->
  actuals_match (cf_params f) actuals = true ->
  all_hold guard_holds st actuals (cf_guards f) = true ->
  all_hold class_holds st actuals (cf_casts f) = true ->
  zguard_fires actuals (cf_zguards f) = None ->
  resolve_all st actuals (cf_args f) = Some cargs ->
  (cf_tmpl f =? "$") = false ->
  core k (cf_tmpl f) cargs = ErrExn cls ->
  fwd_step core f k st actuals = (RetCode (code_of_exn cls), st) /\ code_of_exn cls <> SYMENGINE_NO_EXCEPTION.
Proof.
  intros core f k st actuals cargs cls Hw Ha Hg Hc Hz Hr Ht He.
  unfold fwd_step. rewrite Ha, Hg, Hc, Hz, Hr, Ht, He, Hw. cbn [negb]. split; [reflexivity|apply code_of_exn_nonzero].
Qed.

(* ------------------------------------------------------------------ agreement with the C++ API value of an expected row *)
Lemma natlist_eqb_eq : forall l1 l2, natlist_eqb l1 l2 = true -> l1 = l2.
Proof.
  induction l1 as [|x r IH]; destruct l2 as [|y s]; cbn; intro H; try discriminate; [reflexivity|].
  apply andb_true_iff in H. destruct H as [H1 H2]. apply Nat.eqb_eq in H1. subst. f_equal. apply IH. exact H2.
Qed.
Lemma outk_eqb_eq : forall a b, outk_eqb a b = true -> a = b.
Proof. destruct a, b; cbn; intro H; try discriminate; try reflexivity. apply Nat.eqb_eq in H. subst. reflexivity. Qed.

Theorem agrees_sem : forall core f e k st actuals,
  row_agrees f e = true ->
  actuals_match (cf_params f) actuals = true ->
  all_hold guard_holds st actuals (cf_guards f) = true ->
  all_hold class_holds st actuals (cf_casts f) = true ->
  zguard_fires actuals (cf_zguards f) = None ->
  match spec_call core e k st actuals with
  | Some (Ok v) =>
      match spec_store e st actuals v with
      | Some st' => fwd_step core f k st actuals = (ok_outcome f v, st')       (* success: the API value, where expected *)
      | None => fst (fwd_step core f k st actuals) = Unmodelled
      end
  | Some (ErrExn cls) =>                                                         (* the API throws: state untouched *)
      fwd_step core f k st actuals =
        (match cf_wrap f with WFull => RetCode (code_of_exn cls) | WNull => RetStr None | WNone => Escape cls end, st)
  | _ => fst (fwd_step core f k st actuals) = Unmodelled
  end.
Proof.
  intros core f e k st actuals Hr Ha Hg Hc Hz.
  unfold row_agrees in Hr. apply andb_true_iff in Hr. destruct Hr as [Hr H3].
  apply andb_true_iff in Hr. destruct Hr as [H1 H2].
  apply outk_eqb_eq in H1. apply String.eqb_eq in H2. apply natlist_eqb_eq in H3.
  unfold spec_call, spec_store, fwd_step. rewrite Ha, Hg, Hc, Hz. cbn [negb]. rewrite <- H1, <- H2, <- H3.
  destruct (resolve_all st actuals (cf_args f)) as [cargs|]; [|reflexivity].
  destruct (if cf_tmpl f =? "$" then match cargs with [c] => Ok c | _ => ErrFuel end else core k (cf_tmpl f) cargs)
    as [v| | |cls]; try reflexivity.
  - destruct (cf_out f); try reflexivity.
    destruct (nth_error actuals i); [|reflexivity].
    destruct (store st a v); reflexivity.
  - destruct (cf_wrap f); reflexivity.
Qed.

(* ------------------------------------------------------------------ the state invariant is preserved by every call *)
Lemma Forall_upd_nth : forall A (Q : A -> Prop) l n x, Forall Q l -> Q x -> Forall Q (upd_nth l n x).
Proof.
  induction l as [|y r IH]; intros n x Hl Hx; destruct n; cbn; auto; inversion Hl; subst; constructor; auto.
Qed.
Lemma Forall_remove_nth : forall A (Q : A -> Prop) l n, Forall Q l -> Forall Q (remove_nth l n).
Proof.
  induction l as [|y r IH]; intros n Hl; destruct n; cbn; auto; inversion Hl; subst; auto.
Qed.
Lemma Forall_nth_error : forall A (Q : A -> Prop) l n x, Forall Q l -> nth_error l n = Some x -> Q x.
Proof.
  intros A Q l n x Hl Hn. rewrite Forall_forall in Hl. apply Hl. eapply nth_error_In; eauto.
Qed.

Lemma set_b_inv : forall st i v, state_inv st -> val_wf v -> state_inv (set_b st i v).
Proof. intros st i v [H1 H2 H3 H4] Hv. constructor; cbn; auto. apply Forall_upd_nth; auto. Qed.
Lemma set_v_inv : forall st i l, state_inv st -> Forall val_wf l -> state_inv (set_v st i l).
Proof. intros st i l [H1 H2 H3 H4] Hv. constructor; cbn; auto. apply Forall_upd_nth; auto. Qed.
Lemma set_s_inv : forall st i l, state_inv st -> set_ok l -> state_inv (set_s st i l).
Proof. intros st i l [H1 H2 H3 H4] Hv. constructor; cbn; auto. apply Forall_upd_nth; auto. Qed.
Lemma set_m_inv : forall st i l, state_inv st -> map_ok l -> state_inv (set_m st i l).
Proof. intros st i l [H1 H2 H3 H4] Hv. constructor; cbn; auto. apply Forall_upd_nth; auto. Qed.

Lemma store_inv : forall st a v st', state_inv st -> cval_ok v -> store st a v = Some st' -> state_inv st'.
Proof.
  intros st a v st' Hi Hv Hs. unfold store in Hs.
  destruct a; destruct v; try discriminate;
    match type of Hs with (if ?b then _ else _) = _ => destruct b; [|discriminate] end;
    inversion Hs; subst; cbn in Hv.
  - apply set_b_inv; auto.
  - apply set_v_inv; auto.
  - apply set_s_inv; auto.
  - apply set_m_inv; auto.
Qed.

Lemma resolve_ok : forall st a c, state_inv st -> resolve st a = Some c -> cval_ok c.
Proof.
  intros st a c [H1 H2 H3 H4] Hr. destruct a; cbn in Hr.
  - destruct (nth_error (s_b st) i) eqn:E; inversion Hr; subst. cbn. eapply Forall_nth_error; eauto.
  - destruct (nth_error (s_v st) i) eqn:E; inversion Hr; subst. cbn. eapply (Forall_nth_error _ (Forall val_wf)); eauto.
  - destruct (nth_error (s_s st) i) eqn:E; inversion Hr; subst. cbn. eapply (Forall_nth_error _ set_ok); eauto.
  - destruct (nth_error (s_m st) i) eqn:E; inversion Hr; subst. cbn. eapply (Forall_nth_error _ map_ok); eauto.
  - inversion Hr; subst; exact I.
  - inversion Hr; subst; exact I.
  - inversion Hr; subst; exact I.
  - inversion Hr; subst; exact I.
Qed.

Lemma resolve_all_single_ok : forall st actuals idx c, state_inv st -> resolve_all st actuals idx = Some [c] -> cval_ok c.
Proof.
  intros st actuals idx c Hi Hr. destruct idx as [|i r]; cbn in Hr; [discriminate|].
  destruct (nth_error actuals i); [|discriminate].
  destruct (resolve st a) eqn:E; [|discriminate].
  destruct (resolve_all st actuals r); [|discriminate].
  inversion Hr; subst. eapply resolve_ok; eauto.
Qed.

Theorem fwd_step_inv : forall core f k st actuals,
  core_ok core -> state_inv st -> state_inv (snd (fwd_step core f k st actuals)).
Proof.
  intros core f k st actuals Hc Hi. unfold fwd_step.
  destruct (negb (actuals_match (cf_params f) actuals)); [exact Hi|].
  destruct (negb (all_hold guard_holds st actuals (cf_guards f))); [exact Hi|].
  destruct (negb (all_hold class_holds st actuals (cf_casts f))); [exact Hi|].
  destruct (zguard_fires actuals (cf_zguards f)); [exact Hi|].
  destruct (resolve_all st actuals (cf_args f)) as [cargs|] eqn:Er; [|exact Hi].
  assert (Hv : forall v, (if cf_tmpl f =? "$" then match cargs with [c] => Ok c | _ => ErrFuel end
                          else core k (cf_tmpl f) cargs) = Ok v -> cval_ok v).
  { intros v Hv. destruct (cf_tmpl f =? "$").
    - destruct cargs as [|c [|c2 r]]; try discriminate. inversion Hv; subst. eapply resolve_all_single_ok; eauto.
    - eapply Hc; eauto. }
  destruct (if cf_tmpl f =? "$" then match cargs with [c] => Ok c | _ => ErrFuel end else core k (cf_tmpl f) cargs)
    as [v| | |cls]; try exact Hi.
  - destruct (cf_out f); try exact Hi.
    destruct (nth_error actuals i); [|exact Hi].
    destruct (store st a v) eqn:Es; [|exact Hi].
    cbn [snd]. eapply store_inv; eauto.
  - destruct (cf_wrap f); exact Hi.
Qed.

Lemma v_insert_ok : forall v s, val_wf v -> set_ok s -> set_ok (snd (set_insert vlt v s)).
Proof.
  intros v s Hv [Hs1 Hs2]. split.
  - apply (set_insert_allP val vlt val_wf); auto.
  - unfold vsorted. apply (set_insert_sorted val vlt val_wf); try exact vlt_irrefl; try exact vlt_trans; try exact vequiv_trans; auto.
Qed.
Lemma v_erase_ok : forall v s, set_ok s -> set_ok (snd (set_erase vlt v s)).
Proof.
  intros v s [Hs1 Hs2]. split.
  - apply (set_erase_allP val vlt val_wf); auto.
  - unfold vsorted. apply (set_erase_sorted val vlt); auto.
Qed.
Lemma map_set_snd_in : forall k v (m : list (val * val)) y, In y (map snd (map_set vlt k v m)) -> y = v \/ In y (map snd m).
Proof.
  induction m as [|[k' v'] r IH]; cbn; intros y H.
  - destruct H as [H|[]]; auto.
  - destruct (vlt k' k); cbn in *.
    + destruct H as [H|H]; auto. apply IH in H. intuition congruence.
    + destruct (vlt k k'); cbn in *; intuition congruence.
Qed.
Lemma v_map_set_ok : forall k v m, val_wf k -> val_wf v -> map_ok m -> map_ok (map_set vlt k v m).
Proof.
  intros k v m Hk Hv [H1 [H2 H3]].
  destruct (map_set_sorted val vlt val_wf vlt_trans val k v m Hk H1 H3) as [S1 P1].
  split; [exact P1|]. split; [|exact S1].
  apply Forall_forall. intros y Hy. apply map_set_snd_in in Hy. destruct Hy as [->|Hy]; auto.
  rewrite Forall_forall in H2. apply H2. exact Hy.
Qed.
Lemma v_map_get_ok : forall k m x, map_ok m -> map_get vlt k m = Some x -> val_wf x.
Proof.
  intros k m x [_ [H2 _]]. induction m as [|[k' v'] r IH]; cbn; intro H; [discriminate|].
  inversion H2; subst.
  destruct (vlt k' k); [apply IH; auto|].
  destruct (vlt k k'); [discriminate|]. inversion H; subst. assumption.
Qed.

Theorem hand_step_inv : forall name st actuals, state_inv st -> state_inv (snd (hand_step name st actuals)).
Proof.
  intros name st actuals Hi. pose proof Hi as [H1 H2 H3 H4]. unfold hand_step.
  repeat match goal with |- context [if ?b then _ else _] => destruct b end; try exact Hi.
  - (* push_back *) unfold h_vec_push_back.
    destruct actuals as [|[] [|[] [|]]]; try exact Hi.
    destruct (nth_error (s_v st) i) eqn:E1; [|exact Hi]. destruct (nth_error (s_b st) i0) eqn:E2; [|exact Hi].
    cbn [snd]. apply set_v_inv; auto. apply Forall_app. split.
    + eapply (Forall_nth_error _ (Forall val_wf)); eauto.
    + constructor; [|constructor]. eapply Forall_nth_error; eauto.
  - (* get *) unfold h_vec_get.
    destruct actuals as [|[] [|[] [|[] [|]]]]; try exact Hi.
    destruct (nth_error (s_v st) i) eqn:E1; [|exact Hi].
    destruct (z <? 0)%Z; [exact Hi|]. destruct (negb (i0 <? length (s_b st))%nat); [exact Hi|].
    destruct (length l <=? Z.to_nat z)%nat; [exact Hi|].
    destruct (nth_error l (Z.to_nat z)) eqn:E3; [|exact Hi].
    cbn [snd]. apply set_b_inv; auto.
    eapply Forall_nth_error; [|exact E3]. eapply (Forall_nth_error _ (Forall val_wf)); eauto.
  - (* set *) unfold h_vec_set.
    destruct actuals as [|[] [|[] [|[] [|]]]]; try exact Hi.
    destruct (nth_error (s_v st) i) eqn:E1; [|exact Hi]. destruct (nth_error (s_b st) i0) eqn:E2; [|exact Hi].
    destruct (z <? 0)%Z; [exact Hi|]. destruct (length l <=? Z.to_nat z)%nat; [exact Hi|].
    destruct (Z.to_nat z <? length l)%nat; [|exact Hi].
    cbn [snd]. apply set_v_inv; auto. apply Forall_upd_nth.
    + eapply (Forall_nth_error _ (Forall val_wf)); eauto.
    + eapply Forall_nth_error; eauto.
  - (* erase *) unfold h_vec_erase.
    destruct actuals as [|[] [|[] [|]]]; try exact Hi.
    destruct (nth_error (s_v st) i) eqn:E1; [|exact Hi].
    destruct (z <? 0)%Z; [exact Hi|]. destruct (length l <=? Z.to_nat z)%nat; [exact Hi|].
    destruct (Z.to_nat z <? length l)%nat; [|exact Hi].
    cbn [snd]. apply set_v_inv; auto. apply Forall_remove_nth. eapply (Forall_nth_error _ (Forall val_wf)); eauto.
  - (* size *) unfold h_vec_size.
    destruct actuals as [|[] [|]]; try exact Hi. destruct (nth_error (s_v st) i); exact Hi.
  - (* set insert *) unfold h_set_insert.
    destruct actuals as [|[] [|[] [|]]]; try exact Hi.
    destruct (nth_error (s_s st) i) eqn:E1; [|exact Hi]. destruct (nth_error (s_b st) i0) eqn:E2; [|exact Hi].
    cbn [snd]. apply set_s_inv; auto. apply v_insert_ok.
    + eapply Forall_nth_error; eauto.
    + eapply (Forall_nth_error _ set_ok); eauto.
  - (* set get *) unfold h_set_get.
    destruct actuals as [|[] [|[] [|[] [|]]]]; try exact Hi.
    destruct (nth_error (s_s st) i) eqn:E1; [|exact Hi].
    destruct (negb (i0 <? length (s_b st))%nat); [exact Hi|]. destruct (z <? 0)%Z; [exact Hi|].
    destruct (nth_error l (Z.to_nat z)) eqn:E3; [|exact Hi].
    cbn [snd]. apply set_b_inv; auto.
    assert (Hs : set_ok l) by (eapply (Forall_nth_error _ set_ok); eauto).
    destruct Hs as [Hs _]. eapply Forall_nth_error; eauto.
  - (* set find *) unfold h_set_find.
    destruct actuals as [|[] [|[] [|]]]; try exact Hi.
    destruct (nth_error (s_s st) i); [|exact Hi]. destruct (nth_error (s_b st) i0); exact Hi.
  - (* set erase *) unfold h_set_erase.
    destruct actuals as [|[] [|[] [|]]]; try exact Hi.
    destruct (nth_error (s_s st) i) eqn:E1; [|exact Hi]. destruct (nth_error (s_b st) i0) eqn:E2; [|exact Hi].
    cbn [snd]. apply set_s_inv; auto. apply v_erase_ok. eapply (Forall_nth_error _ set_ok); eauto.
  - (* set size *) unfold h_set_size.
    destruct actuals as [|[] [|]]; try exact Hi. destruct (nth_error (s_s st) i); exact Hi.
  - (* map insert *) unfold h_map_insert.
    destruct actuals as [|[] [|[] [|[] [|]]]]; try exact Hi.
    destruct (nth_error (s_m st) i) eqn:E1; [|exact Hi]. destruct (nth_error (s_b st) i0) eqn:E2; [|exact Hi].
    destruct (nth_error (s_b st) i1) eqn:E3; [|exact Hi].
    cbn [snd]. apply set_m_inv; auto. apply v_map_set_ok.
    + eapply Forall_nth_error; eauto.
    + eapply Forall_nth_error; eauto.
    + eapply (Forall_nth_error _ map_ok); eauto.
  - (* map get *) unfold h_map_get.
    destruct actuals as [|[] [|[] [|[] [|]]]]; try exact Hi.
    destruct (nth_error (s_m st) i) eqn:E1; [|exact Hi]. destruct (nth_error (s_b st) i0) eqn:E2; [|exact Hi].
    destruct (negb (i1 <? length (s_b st))%nat); [exact Hi|].
    destruct (map_get vlt v l) eqn:E3; [|exact Hi].
    cbn [snd]. apply set_b_inv; auto. eapply v_map_get_ok; [|exact E3]. eapply (Forall_nth_error _ map_ok); eauto.
  - (* map size *) unfold h_map_size.
    destruct actuals as [|[] [|]]; try exact Hi. destruct (nth_error (s_m st) i); exact Hi.
Qed.

Theorem step_inv : forall core table k st c,
  core_ok core -> state_inv st -> state_inv (snd (step core table k st c)).
Proof.
  intros core table k st c Hc Hi. unfold step.
  destruct (find_cfun table (c_fn c)) as [f|]; [|exact Hi].
  destruct (is_hand_modelled (c_fn c)); [apply hand_step_inv; exact Hi|].
  destruct (cf_tmpl f =? ""); [exact Hi|].
  apply fwd_step_inv; assumption.
Qed.

Theorem run_inv : forall core table cs k st,
  core_ok core -> state_inv st -> Forall (fun os => state_inv (snd os)) (run core table k st cs).
Proof.
  intros core table cs. induction cs as [|c r IH]; intros k st Hc Hi; cbn [run]; [constructor|].
  constructor; [apply step_inv; assumption|].
  destruct (stops (fst (step core table k st c))); [constructor|].
  apply IH; [assumption|]. apply step_inv; assumption.
Qed.

Lemma init_state_inv : forall nb nv ns nm, state_inv (init_state nb nv ns nm).
Proof.
  intros. constructor; cbn.
  - apply Forall_forall. intros x Hx. apply repeat_spec in Hx. subst. reflexivity.
  - apply Forall_forall. intros x Hx. apply repeat_spec in Hx. subst. constructor.
  - apply Forall_forall. intros x Hx. apply repeat_spec in Hx. subst. split; constructor.
  - apply Forall_forall. intros x Hx. apply repeat_spec in Hx. subst. split; [constructor|split; constructor].
Qed.

(* the generic container theorems at RCPBasicKeyLess on well-formed values *)
Ltac swo := try exact vlt_irrefl; try exact vlt_trans; try exact vequiv_trans; try assumption.
Lemma v_find_insert : forall x y s, val_wf x -> val_wf y -> Forall val_wf s -> vsorted s ->
  set_find vlt y (snd (set_insert vlt x s)) = equiv val vlt y x || set_find vlt y s.
Proof. intros. apply (set_find_insert val vlt val_wf); swo. Qed.
Lemma v_find_erase : forall x y s, val_wf x -> val_wf y -> Forall val_wf s -> vsorted s ->
  set_find vlt y (snd (set_erase vlt x s)) = negb (equiv val vlt y x) && set_find vlt y s.
Proof. intros. apply (set_find_erase val vlt val_wf); swo. Qed.
Lemma v_insert_idem : forall x s, val_wf x -> set_insert vlt x (snd (set_insert vlt x s)) = (false, snd (set_insert vlt x s)).
Proof. intros. apply (set_insert_idem val vlt val_wf); swo. Qed.
Lemma v_insert_fst : forall x s, val_wf x -> Forall val_wf s -> vsorted s -> fst (set_insert vlt x s) = negb (set_find vlt x s).
Proof. intros. apply (set_insert_fst val vlt val_wf); swo. Qed.
Lemma v_map_get_set : forall k k' (v : val) m, val_wf k -> val_wf k' -> Forall val_wf (map fst m) -> vsorted (map fst m) ->
  map_get vlt k' (map_set vlt k v m) = if equiv val vlt k' k then Some v else map_get vlt k' m.
Proof. intros. apply (map_get_set val vlt val_wf); swo. Qed.
Lemma v_map_set_length : forall k (v : val) m, val_wf k -> Forall val_wf (map fst m) -> vsorted (map fst m) ->
  length (map_set vlt k v m) = (length m + match map_get vlt k m with Some _ => 0 | None => 1 end)%nat.
Proof. intros. apply (map_set_length val vlt val_wf); swo. Qed.

(* ------------------------------------------------------------------ container laws, stated on the C functions *)
Lemma nth_error_lt : forall A (l : list A) n x, nth_error l n = Some x -> (n < length l)%nat.
Proof. intros. apply nth_error_Some. congruence. Qed.

Definition NOEXC := RetCode SYMENGINE_NO_EXCEPTION.

(* CVecBasic behaves as a vector (in range) *)
Theorem vec_laws : forall st i j k l v,
  nth_error (s_v st) i = Some l -> nth_error (s_b st) j = Some v -> (k < length (s_b st))%nat ->
  let st1 := set_v st i (l ++ [v])%list in
  (* push_back appends *)
  hand_step "vecbasic_push_back" st [AV i; AB j] = (NOEXC, st1) /\
  hand_step "vecbasic_size" st1 [AV i] = (RetInt (Z.of_nat (S (length l))), st1) /\
  (* the new element is the last one, the old ones stay where they were *)
  hand_step "vecbasic_get" st1 [AV i; AZ (Z.of_nat (length l)); AB k] = (NOEXC, set_b st1 k v) /\
  (forall n x, nth_error l n = Some x ->
     hand_step "vecbasic_get" st1 [AV i; AZ (Z.of_nat n); AB k] = (NOEXC, set_b st1 k x)) /\
  (* set replaces exactly one element *)
  (forall n, (n < length l)%nat ->
     hand_step "vecbasic_set" st [AV i; AZ (Z.of_nat n); AB j] = (NOEXC, set_v st i (upd_nth l n v)) /\
     nth_error (upd_nth l n v) n = Some v /\
     (forall m, m <> n -> nth_error (upd_nth l n v) m = nth_error l m) /\ length (upd_nth l n v) = length l) /\
  (* erase removes exactly one element and shifts the rest *)
  (forall n, (n < length l)%nat ->
     hand_step "vecbasic_erase" st [AV i; AZ (Z.of_nat n)] = (NOEXC, set_v st i (remove_nth l n)) /\
     length (remove_nth l n) = pred (length l) /\
     (forall m, (m < n)%nat -> nth_error (remove_nth l n) m = nth_error l m) /\
     (forall m, (n <= m)%nat -> nth_error (remove_nth l n) m = nth_error l (S m))).
Proof.
  intros st i j k l v Hl Hv Hk st1.
  assert (Hi : (i < length (s_v st))%nat) by (eapply nth_error_lt; eauto).
  assert (Hl1 : nth_error (s_v st1) i = Some (l ++ [v])%list) by (cbn; apply nth_upd_nth_eq; exact Hi).
  assert (Hk1 : (k <? length (s_b st1))%nat = true) by (cbn; apply Nat.ltb_lt; exact Hk).
  repeat split.
  - cbn. unfold h_vec_push_back. rewrite Hl, Hv. reflexivity.
  - cbn. unfold h_vec_size. cbn in Hl1. rewrite Hl1. rewrite app_length. cbn. rewrite Nat.add_1_r. reflexivity.
  - change (hand_step "vecbasic_get") with h_vec_get. unfold h_vec_get. rewrite Hl1, Hk1.
    replace (Z.of_nat (length l) <? 0)%Z with false by (symmetry; apply Z.ltb_ge; lia).
    rewrite Nat2Z.id. cbn [negb].
    replace (length (l ++ [v])%list <=? length l)%nat with false
      by (symmetry; apply Nat.leb_gt; rewrite app_length; cbn; lia).
    rewrite nth_app_last. reflexivity.
  - intros n x Hn. change (hand_step "vecbasic_get") with h_vec_get. unfold h_vec_get. rewrite Hl1, Hk1.
    replace (Z.of_nat n <? 0)%Z with false by (symmetry; apply Z.ltb_ge; lia).
    rewrite Nat2Z.id. cbn [negb].
    assert (Hnl : (n < length l)%nat) by (eapply nth_error_lt; eauto).
    replace (length (l ++ [v])%list <=? n)%nat with false
      by (symmetry; apply Nat.leb_gt; rewrite app_length; cbn; lia).
    rewrite nth_app_old by exact Hnl. rewrite Hn. reflexivity.
  - change (hand_step "vecbasic_set") with h_vec_set. unfold h_vec_set. rewrite Hl, Hv.
    replace (Z.of_nat n <? 0)%Z with false by (symmetry; apply Z.ltb_ge; lia).
    rewrite Nat2Z.id. replace (length l <=? n)%nat with false by (symmetry; apply Nat.leb_gt; assumption).
    replace (n <? length l)%nat with true by (symmetry; apply Nat.ltb_lt; assumption). reflexivity.
  - apply nth_upd_nth_eq. assumption.
  - intros m Hm. apply nth_upd_nth_ne. congruence.
  - apply upd_nth_length.
  - change (hand_step "vecbasic_erase") with h_vec_erase. unfold h_vec_erase. rewrite Hl.
    replace (Z.of_nat n <? 0)%Z with false by (symmetry; apply Z.ltb_ge; lia).
    rewrite Nat2Z.id. replace (length l <=? n)%nat with false by (symmetry; apply Nat.leb_gt; assumption).
    replace (n <? length l)%nat with true by (symmetry; apply Nat.ltb_lt; assumption). reflexivity.
  - apply remove_nth_length. assumption.
  - intros m Hm. apply nth_remove_nth_lt. assumption.
  - intros m Hm. apply nth_remove_nth_ge. assumption.
Qed.

(* an index outside the vector is answered with SYMENGINE_RUNTIME_ERROR and nothing changes
   (vecbasic_get / set / erase since the repair of the unchecked accesses; setbasic_get is still unchecked, below) *)
Theorem vec_out_of_range_error : forall st i j l n,
  nth_error (s_v st) i = Some l -> nth_error (s_b st) j <> None -> (length l <= n)%nat ->
  hand_step "vecbasic_get" st [AV i; AZ (Z.of_nat n); AB j] = (RetCode SYMENGINE_RUNTIME_ERROR, st) /\
  hand_step "vecbasic_set" st [AV i; AZ (Z.of_nat n); AB j] = (RetCode SYMENGINE_RUNTIME_ERROR, st) /\
  hand_step "vecbasic_erase" st [AV i; AZ (Z.of_nat n)] = (RetCode SYMENGINE_RUNTIME_ERROR, st).
Proof.
  intros st i j l n Hl Hj Hn.
  assert (Hjl : (j < length (s_b st))%nat) by (apply nth_error_Some; exact Hj).
  destruct (nth_error (s_b st) j) as [v|] eqn:Ev; [|contradiction Hj; reflexivity].
  repeat split.
  - change (hand_step "vecbasic_get") with h_vec_get. unfold h_vec_get. rewrite Hl.
    replace (Z.of_nat n <? 0)%Z with false by (symmetry; apply Z.ltb_ge; lia).
    replace (j <? length (s_b st))%nat with true by (symmetry; apply Nat.ltb_lt; assumption).
    rewrite Nat2Z.id. cbn [negb].
    replace (length l <=? n)%nat with true by (symmetry; apply Nat.leb_le; assumption). reflexivity.
  - change (hand_step "vecbasic_set") with h_vec_set. unfold h_vec_set. rewrite Hl, Ev.
    replace (Z.of_nat n <? 0)%Z with false by (symmetry; apply Z.ltb_ge; lia).
    rewrite Nat2Z.id. replace (length l <=? n)%nat with true by (symmetry; apply Nat.leb_le; assumption). reflexivity.
  - change (hand_step "vecbasic_erase") with h_vec_erase. unfold h_vec_erase. rewrite Hl.
    replace (Z.of_nat n <? 0)%Z with false by (symmetry; apply Z.ltb_ge; lia).
    rewrite Nat2Z.id. replace (length l <=? n)%nat with true by (symmetry; apply Nat.leb_le; assumption). reflexivity.
Qed.

(* CSetBasic behaves as a set of eq-classes *)
Theorem set_laws : forall st i j s v,
  state_inv st -> nth_error (s_s st) i = Some s -> nth_error (s_b st) j = Some v ->
  let st1 := set_s st i (snd (set_insert vlt v s)) in
  (* insert answers 1 exactly when no eq element was stored *)
  hand_step "setbasic_insert" st [AS i; AB j] = (RetInt (if set_find vlt v s then 0 else 1), st1) /\
  (* inserting again changes nothing and answers 0 *)
  hand_step "setbasic_insert" st1 [AS i; AB j] = (RetInt 0, st1) /\
  (* membership afterwards: the inserted element, and whatever was there before *)
  (forall j' w, nth_error (s_b st) j' = Some w ->
     hand_step "setbasic_find" st1 [AS i; AB j'] =
       (RetInt (if equiv val vlt w v || set_find vlt w s then 1 else 0), st1)) /\
  hand_step "setbasic_size" st1 [AS i] = (RetInt (Z.of_nat (length s + (if set_find vlt v s then 0 else 1))), st1) /\
  (* erase answers whether an eq element was stored; afterwards it is not a member, all others are untouched *)
  (let st2 := set_s st i (snd (set_erase vlt v s)) in
   hand_step "setbasic_erase" st [AS i; AB j] = (RetInt (if set_find vlt v s then 1 else 0), st2) /\
   (forall j' w, nth_error (s_b st) j' = Some w ->
      hand_step "setbasic_find" st2 [AS i; AB j'] =
        (RetInt (if negb (equiv val vlt w v) && set_find vlt w s then 1 else 0), st2))).
Proof.
  intros st i j s v Hinv Hs Hv st1.
  pose proof Hinv as [H1 H2 H3 H4].
  assert (Hi : (i < length (s_s st))%nat) by (eapply nth_error_lt; eauto).
  assert (Hvw : val_wf v) by (exact (Forall_nth_error _ _ _ _ _ H1 Hv)).
  assert (Hso : set_ok s) by (eapply (Forall_nth_error _ set_ok); eauto).
  destruct Hso as [Hs1 Hs2].
  assert (Hs1' : nth_error (s_s st1) i = Some (snd (set_insert vlt v s))) by (cbn; apply nth_upd_nth_eq; exact Hi).
  assert (Hfst : fst (set_insert vlt v s) = negb (set_find vlt v s)).
  { apply v_insert_fst; assumption. }
  repeat split.
  - change (hand_step "setbasic_insert") with h_set_insert. unfold h_set_insert. rewrite Hs, Hv. rewrite Hfst.
    destruct (set_find vlt v s); reflexivity.
  - change (hand_step "setbasic_insert") with h_set_insert. unfold h_set_insert. rewrite Hs1'.
    change (s_b st1) with (s_b st). rewrite Hv.
    rewrite (v_insert_idem v s Hvw). cbn [fst snd].
    unfold st1 at 1. unfold set_s. cbn [s_b s_v s_s s_m].
    unfold st1, set_s. cbn [s_b s_v s_s s_m].
    replace (upd_nth (upd_nth (s_s st) i (snd (set_insert vlt v s))) i (snd (set_insert vlt v s)))
      with (upd_nth (s_s st) i (snd (set_insert vlt v s))); [reflexivity|].
    clear - Hi. revert i Hi. induction (s_s st) as [|y r IH]; intros i Hi; destruct i; cbn in *; try lia; auto.
    f_equal. apply IH. lia.
  - intros j' w Hw. change (hand_step "setbasic_find") with h_set_find. unfold h_set_find. rewrite Hs1'.
    change (s_b st1) with (s_b st). rewrite Hw.
    assert (Hww : val_wf w) by (exact (Forall_nth_error _ _ _ _ _ H1 Hw)).
    rewrite (v_find_insert v w s Hvw Hww Hs1 Hs2). reflexivity.
  - change (hand_step "setbasic_size") with h_set_size. unfold h_set_size. rewrite Hs1'.
    rewrite (set_insert_length val vlt). rewrite Hfst. destruct (set_find vlt v s); reflexivity.
  - change (hand_step "setbasic_erase") with h_set_erase. unfold h_set_erase. rewrite Hs, Hv.
    rewrite (set_erase_fst val vlt). reflexivity.
  - intros j' w Hw. change (hand_step "setbasic_find") with h_set_find. unfold h_set_find.
    assert (Hs2' : nth_error (s_s (set_s st i (snd (set_erase vlt v s)))) i = Some (snd (set_erase vlt v s)))
      by (cbn; apply nth_upd_nth_eq; exact Hi).
    rewrite Hs2'. change (s_b (set_s st i (snd (set_erase vlt v s)))) with (s_b st). rewrite Hw.
    assert (Hww : val_wf w) by (exact (Forall_nth_error _ _ _ _ _ H1 Hw)).
    rewrite (v_find_erase v w s Hvw Hww Hs1 Hs2). reflexivity.
Qed.

(* setbasic_get: no range check in the code *)
Theorem set_get_unchecked : forall st i j s n,
  nth_error (s_s st) i = Some s -> (j < length (s_b st))%nat -> (length s <= n)%nat ->
  hand_step "setbasic_get" st [AS i; AZ (Z.of_nat n); AB j] = (MemErr (N.of_nat n) (nlen s), st).
Proof.
  intros st i j s n Hs Hj Hn.
  change (hand_step "setbasic_get") with h_set_get. unfold h_set_get. rewrite Hs.
  replace (j <? length (s_b st))%nat with true by (symmetry; apply Nat.ltb_lt; assumption). cbn [negb].
  replace (Z.of_nat n <? 0)%Z with false by (symmetry; apply Z.ltb_ge; lia).
  rewrite Nat2Z.id.
  replace (nth_error s n) with (@None val) by (symmetry; apply nth_error_None; assumption).
  rewrite <- nat_N_Z. rewrite N2Z.id. reflexivity.
Qed.

(* CMapBasicBasic behaves as a map on eq-classes of keys *)
Theorem map_laws : forall st i j k o m key v,
  state_inv st -> nth_error (s_m st) i = Some m -> nth_error (s_b st) j = Some key -> nth_error (s_b st) k = Some v ->
  (o < length (s_b st))%nat ->
  let st1 := set_m st i (map_set vlt key v m) in
  hand_step "mapbasicbasic_insert" st [AM i; AB j; AB k] = (RetVoid, st1) /\
  (* lookup after insert: the new value under every eq key, the old binding under any other key *)
  (forall j' key', nth_error (s_b st) j' = Some key' ->
     hand_step "mapbasicbasic_get" st1 [AM i; AB j'; AB o] =
       match (if equiv val vlt key' key then Some v else map_get vlt key' m) with
       | Some x => (RetInt 1, set_b st1 o x)
       | None => (RetInt 0, st1)
       end) /\
  (* the size grows by one exactly when the key was new *)
  hand_step "mapbasicbasic_size" st1 [AM i] =
    (RetInt (Z.of_nat (length m + match map_get vlt key m with Some _ => 0 | None => 1 end)), st1).
Proof.
  intros st i j k o m key v Hinv Hm Hkey Hv Ho st1.
  pose proof Hinv as [H1 H2 H3 H4].
  assert (Hi : (i < length (s_m st))%nat) by (eapply nth_error_lt; eauto).
  assert (Hkw : val_wf key) by (exact (Forall_nth_error _ _ _ _ _ H1 Hkey)).
  assert (Hmo : map_ok m) by (eapply (Forall_nth_error _ map_ok); eauto).
  destruct Hmo as [Hm1 [Hm2 Hm3]].
  assert (Hm1' : nth_error (s_m st1) i = Some (map_set vlt key v m)) by (cbn; apply nth_upd_nth_eq; exact Hi).
  repeat split.
  - change (hand_step "mapbasicbasic_insert") with h_map_insert. unfold h_map_insert. rewrite Hm, Hkey, Hv. reflexivity.
  - intros j' key' Hk'. change (hand_step "mapbasicbasic_get") with h_map_get. unfold h_map_get. rewrite Hm1'.
    change (s_b st1) with (s_b st). rewrite Hk'.
    replace (o <? length (s_b st))%nat with true by (symmetry; apply Nat.ltb_lt; assumption). cbn [negb].
    assert (Hkw' : val_wf key') by (exact (Forall_nth_error _ _ _ _ _ H1 Hk')).
    rewrite (v_map_get_set key key' v m Hkw Hkw' Hm1 Hm3).
    reflexivity.
  - change (hand_step "mapbasicbasic_size") with h_map_size. unfold h_map_size. rewrite Hm1'.
    rewrite (v_map_set_length key v m Hkw Hm1 Hm3). reflexivity.
Qed.
